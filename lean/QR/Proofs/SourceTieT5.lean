import QR.Gen.Code
import QR.Model.Styled
import QR.Model.Render
import QR.Proofs.Styled
/-
Translation validation, item C5: qrcode/image/styledpil.py (`StyledPilImage.__init__` paint colour, `new_image` mode,
`draw_embeded_image` geometry) and qrcode/image/pil.py (`PilImage.new_image`), as translated from the AST into
`QR.Gen.Code.spil_*` / `pil_*`, against `Model.paintColour`, `Model.logoGeometry`, `Model.truncInt`, `Model.pilMode`,
`Model.pixelSize`.
-/
namespace QR.SourceTieT
open QR QR.Model QR.Gen.Code

/-! ### paint colour -/

/-- every colour mask class that sets `has_transparency` sets it to `len(self.back_color) == 4` (the base class: the
    constant `False` together with a 3-channel `back_color`), and these are all the classes that set it -/
theorem hasTransparency_src (back : Colour) :
    spil_mask_classes = ["QRColorMask", "SolidFillColorMask", "RadialGradiantColorMask", "SquareGradiantColorMask",
      "HorizontalGradiantColorMask", "VerticalGradiantColorMask", "ImageColorMask"] ∧
    spil_has_transparency_QRColorMask = decide (spil_back_color_QRColorMask.length = 4) ∧
    spil_has_transparency_SolidFillColorMask back = decide (back.length = 4) ∧
    spil_has_transparency_RadialGradiantColorMask back = decide (back.length = 4) ∧
    spil_has_transparency_SquareGradiantColorMask back = decide (back.length = 4) ∧
    spil_has_transparency_HorizontalGradiantColorMask back = decide (back.length = 4) ∧
    spil_has_transparency_VerticalGradiantColorMask back = decide (back.length = 4) ∧
    spil_has_transparency_ImageColorMask back = decide (back.length = 4) :=
  ⟨by decide, by decide, rfl, rfl, rfl, rfl, rfl, rfl⟩

/-- `Model.paintColour` is the paint colour `StyledPilImage.__init__` computes, for any `has_transparency` flag that is
    `len(back_color) == 4` -/
theorem paintColour_flag_src (back : Colour) (ht : Bool) (h : ht = decide (back.length = 4)) :
    paintColour back = spil_paint_color back ht := by
  subst h
  unfold paintColour spil_paint_color spil_paint_color_override spil_paint_color_default
  by_cases h4 : back.length = 4 <;> simp [h4]

/-- **paint colour**: for every mask class of colormasks.py (and the base class with its class attributes) -/
theorem paintColour_src (back : Colour) :
    paintColour back = spil_paint_color back (spil_has_transparency_SolidFillColorMask back) ∧
    paintColour back = spil_paint_color back (spil_has_transparency_RadialGradiantColorMask back) ∧
    paintColour back = spil_paint_color back (spil_has_transparency_SquareGradiantColorMask back) ∧
    paintColour back = spil_paint_color back (spil_has_transparency_HorizontalGradiantColorMask back) ∧
    paintColour back = spil_paint_color back (spil_has_transparency_VerticalGradiantColorMask back) ∧
    paintColour back = spil_paint_color back (spil_has_transparency_ImageColorMask back) ∧
    paintColour spil_back_color_QRColorMask = spil_paint_color spil_back_color_QRColorMask spil_has_transparency_QRColorMask :=
  ⟨paintColour_flag_src back _ rfl, paintColour_flag_src back _ rfl, paintColour_flag_src back _ rfl,
   paintColour_flag_src back _ rfl, paintColour_flag_src back _ rfl, paintColour_flag_src back _ rfl, by decide⟩

/-- the statements after the paint colour: only the base-class constructor; the mask is read from the keyword arguments -/
theorem paintColour_context_src :
    spil_init_after_paint = ["super().__init__(*args, **kwargs)"] ∧
    spil_color_mask_source = "kwargs.get('color_mask', SolidFillColorMask())" := by decide

/-! ### StyledPilImage.new_image -/

/-- the mode (no Model counterpart: stated as a characterisation): RGBA exactly when the mask has transparency or there is
    an embedded image with an alpha band -/
theorem styledNewImageMode_src (ht ei : Bool) (bands : List String) :
    spil_new_image_mode ht ei bands = if ht = true ∨ (ei = true ∧ "A" ∈ bands) then "RGBA" else "RGB" := by
  unfold spil_new_image_mode
  by_cases hb : "A" ∈ bands <;> cases ht <;> cases ei <;> simp [hb]

/-- the canvas is `pixel_size` square and filled with the mask's background colour -/
theorem styledNewImageSize_src (width border boxSize : Nat) :
    spil_new_image_size (pixelSize width border boxSize) = (pixelSize width border boxSize, pixelSize width border boxSize) ∧
    spil_new_image_colour = "self.color_mask.back_color" ∧
    spil_new_image_call = "Image.new(mode, (self.pixel_size, self.pixel_size), back_color)" :=
  ⟨rfl, by decide, by decide⟩

/-! ### draw_embeded_image -/

/-- Python's `int()` on reals, as generated, is the Model's -/
theorem truncIntSpil_src (q : Rat) : truncInt q = spil_pyInt q := rfl

/-- `logo_width_ish = int(total_width * ratio)` -/
theorem logoWidthIsh_src (total height : Int) (ratio : Rat) :
    spil_logo_width_ish total height ratio = truncInt ((total : Rat) * ratio) := rfl

/-- **logo geometry** `Model.logoGeometry total box w` = (offset, side) is the position `(offset, offset)` and the resize
    size `(side, side)` of the source, whenever `int(w / 2) ≤ int(total / 2)` (guaranteed by the documented range
    `0 ≤ embeded_image_ratio ≤ 1`, see `logoGeometry_ratio_src`).  No hypothesis on `box` (Python raises
    ZeroDivisionError for `box_size = 0`, which `_check_box_size` excludes). -/
theorem logoGeometry_src (total height box w : Nat) (hw : w / 2 ≤ total / 2) :
    spil_logo_box_of (total : Int) (height : Int) (box : Int) (w : Int) =
      ((((logoGeometry total box w).1 : Int), ((logoGeometry total box w).1 : Int)),
       (((logoGeometry total box w).2 : Int), ((logoGeometry total box w).2 : Int))) := by
  have hoff := (QR.Proofs.Styled.logo_offset total box w).2
  simp only [spil_logo_box_of, logoGeometry] at *
  have h1 : Int.tdiv (total : Int) 2 = ((total / 2 : Nat) : Int) := by
    rw [Int.tdiv_eq_ediv_of_nonneg (by omega)]; omega
  have h2 : Int.tdiv (w : Int) 2 = ((w / 2 : Nat) : Int) := by
    rw [Int.tdiv_eq_ediv_of_nonneg (by omega)]; omega
  have h3 : ((total / 2 : Nat) : Int) - ((w / 2 : Nat) : Int) = ((total / 2 - w / 2 : Nat) : Int) := by omega
  rw [h1, h2, h3, Int.tdiv_eq_ediv_of_nonneg (by omega), ← Int.natCast_ediv, ← Int.natCast_mul]
  generalize (total / 2 - w / 2) / box * box = o at *
  have h4 : (total : Int) - (o : Int) * 2 = ((total - o * 2 : Nat) : Int) := by omega
  rw [h4]

private theorem truncInt_of_nonneg (q : Rat) (h : 0 ≤ q) : truncInt q = q.floor := by simp [truncInt, h]

/-- for a ratio in the documented range `[0, 1]`, `0 ≤ logo_width_ish ≤ total_width` -/
theorem logoWidthIsh_range (total : Nat) (height : Int) (ratio : Rat) (h0 : 0 ≤ ratio) (h1 : ratio ≤ 1) :
    0 ≤ spil_logo_width_ish total height ratio ∧ spil_logo_width_ish total height ratio ≤ total := by
  have ht : (0 : Rat) ≤ ((total : Int) : Rat) := Rat.intCast_nonneg.mpr (by omega)
  have hq : (0 : Rat) ≤ ((total : Int) : Rat) * ratio := Rat.mul_nonneg ht h0
  rw [logoWidthIsh_src, truncInt_of_nonneg _ hq]
  constructor
  · exact Rat.le_floor_iff.mpr (by simpa using hq)
  · have h := Rat.mul_le_mul_of_nonneg_left h1 ht
    rw [Rat.mul_one] at h
    exact Rat.intCast_le_intCast.mp (Rat.le_trans (Rat.floor_le _) h)

/-- `floor((b*k + r) / b) = k` for `r < b`, over the rationals -/
private theorem floor_div_c5 (k r b : Nat) (hr : r < b) :
    ((((b * k + r : Nat) : Int) : Rat) / ((b : Int) : Rat)).floor = k := by
  have hr' : (0 : Rat) ≤ (r : Rat) := Rat.natCast_nonneg
  have hb' : (0 : Rat) < (b : Rat) := by exact_mod_cast (by omega : 0 < b)
  have hrb : (r : Rat) < b := by exact_mod_cast hr
  have e : (((b * k + r : Nat) : Int) : Rat) / ((b : Int) : Rat) = (k : Rat) + (r : Rat) / b := by
    push_cast
    rw [Rat.div_def, Rat.div_def, Rat.add_mul, Rat.mul_comm (b : Rat), Rat.mul_assoc, Rat.mul_inv_cancel _ (by grind), Rat.mul_one]
  rw [e]
  have h0 : ¬ (r : Rat) / b < 0 := by
    rw [Rat.div_lt_iff hb']; grind
  have h1 : (r : Rat) / b < 1 := (Rat.div_lt_iff hb').mpr (by simpa using hrb)
  apply Int.le_antisymm
  · have : ((k : Rat) + (r : Rat) / b).floor < (k : Int) + 1 := by
      apply Rat.floor_lt_iff.mpr
      push_cast; grind
    omega
  · apply Rat.le_floor_iff.mpr
    push_cast; grind

private theorem quot_nonneg_c5 (n b : Nat) (hb : 0 < b) : (0 : Rat) ≤ ((n : Int) : Rat) / ((b : Int) : Rat) := by
  have hb' : (0 : Rat) < ((b : Int) : Rat) := by exact_mod_cast hb
  have hn : (0 : Rat) ≤ ((n : Int) : Rat) := by exact_mod_cast (Nat.zero_le n)
  apply Rat.not_lt.mp
  rw [Rat.div_lt_iff hb']
  grind

private theorem floor_quot_c5 (n b : Nat) (hb : 0 < b) : (((n : Int) : Rat) / ((b : Int) : Rat)).floor = ((n / b : Nat) : Int) := by
  have hf := floor_div_c5 (n / b) (n % b) b (Nat.mod_lt _ hb)
  rwa [Nat.div_add_mod n b] at hf

/-- justification of the translation convention "`int(a / b)` of ints is `Int.tdiv a b`": with Python's `int()` on exact
    reals (`Model.truncInt` = the generated `spil_pyInt`) the two agree for every int `a` and every `b ≥ 0` (also at `b = 0`,
    where Python raises instead) -/
theorem truncInt_quotient_src (a : Int) (b : Nat) : truncInt ((a : Rat) / ((b : Int) : Rat)) = Int.tdiv a (b : Int) := by
  show spil_pyInt ((a : Rat) / ((b : Int) : Rat)) = Int.tdiv a (b : Int)
  have hfl0 : Rat.floor 0 = 0 := by simpa using Rat.floor_intCast 0
  rcases Nat.eq_zero_or_pos b with hb | hb
  · subst hb; simp [spil_pyInt, Rat.div_def, hfl0]
  · rcases Int.le_total 0 a with ha | ha
    · obtain ⟨n, rfl⟩ := Int.eq_ofNat_of_zero_le ha
      unfold spil_pyInt
      rw [if_pos (quot_nonneg_c5 n b hb), floor_quot_c5 n b hb, Int.tdiv_eq_ediv_of_nonneg ha]
      exact Int.natCast_ediv n b
    · obtain ⟨n, hn⟩ := Int.eq_ofNat_of_zero_le (by omega : 0 ≤ -a)
      have ha' : a = -(n : Int) := by omega
      subst ha'
      rcases Nat.eq_zero_or_pos n with h0 | h0
      · subst h0; simp [spil_pyInt, Rat.div_def, hfl0]
      · have hb' : (0 : Rat) < ((b : Int) : Rat) := by exact_mod_cast hb
        have hn' : (0 : Rat) < (n : Rat) := by exact_mod_cast h0
        have hneg : ¬ ((0 : Rat) ≤ ((-(n : Int) : Int) : Rat) / ((b : Int) : Rat)) := by
          apply Rat.not_le.mpr
          rw [Rat.div_lt_iff hb']
          push_cast; grind
        have e : -(((-(n : Int) : Int) : Rat) / ((b : Int) : Rat)) = ((n : Int) : Rat) / ((b : Int) : Rat) := by
          push_cast; rw [Rat.div_def, Rat.div_def]; grind
        unfold spil_pyInt
        rw [if_neg hneg, e, floor_quot_c5 n b hb, Int.neg_tdiv, Int.tdiv_eq_ediv_of_nonneg (by omega)]
        rw [Int.natCast_ediv]

/-- the offset in the source's own (real-number) form: `int((int(total / 2) - int(w / 2)) / box) * box`, for ALL ints
    `total`, `w` (also negative differences) and `box ≥ 0` -/
theorem logoOffset_real_src (total height w : Int) (box : Nat) :
    (spil_logo_box_of total height box w).1.1 =
      truncInt (((truncInt ((total : Rat) / (((2 : Nat) : Int) : Rat)) - truncInt ((w : Rat) / (((2 : Nat) : Int) : Rat)) : Int) : Rat)
        / ((box : Int) : Rat)) * box := by
  rw [truncInt_quotient_src, truncInt_quotient_src, truncInt_quotient_src]
  rfl

/-- with the default ratio (the float literal `0.25`, exactly 1/4) `logo_width_ish = total_width // 4` -/
theorem logoWidthIsh_default_src (total : Nat) (height : Int) :
    spil_ratio_default = (1 : Rat) / 4 ∧ spil_ratio_key = "embeded_image_ratio" ∧
    spil_logo_width_ish total height spil_ratio_default = ((total / 4 : Nat) : Int) := by
  refine ⟨rfl, by decide, ?_⟩
  have hd : spil_ratio_default = (1 : Rat) / 4 := rfl
  have hq : (0 : Rat) ≤ ((total : Int) : Rat) * spil_ratio_default :=
    Rat.mul_nonneg (Rat.intCast_nonneg.mpr (by omega)) (by rw [hd]; grind)
  rw [logoWidthIsh_src, truncInt_of_nonneg _ hq]
  have e : ((total : Int) : Rat) * spil_ratio_default = ((total : Int) : Rat) / (((4 : Nat) : Int) : Rat) := by
    rw [hd]; push_cast; grind
  have ht : total = 4 * (total / 4) + total % 4 := by omega
  rw [e]
  conv => lhs; rw [ht]
  exact floor_div_c5 (total / 4) (total % 4) 4 (by omega)

/-- **logo geometry, whole computation** (`total_width`, `logo_width_ish`, `logo_offset`, position, resize size) for every
    ratio in the documented range `0 ≤ embeded_image_ratio ≤ 1`: the Model's `w` is `int(total_width * ratio)` (exact real
    product) -/
theorem logoGeometry_ratio_src (total height box : Nat) (ratio : Rat) (h0 : 0 ≤ ratio) (h1 : ratio ≤ 1) :
    spil_logo_box (total : Int) (height : Int) (box : Int) ratio =
      ((((logoGeometry total box (truncInt ((total : Int) * ratio)).toNat).1 : Int),
        ((logoGeometry total box (truncInt ((total : Int) * ratio)).toNat).1 : Int)),
       (((logoGeometry total box (truncInt ((total : Int) * ratio)).toNat).2 : Int),
        ((logoGeometry total box (truncInt ((total : Int) * ratio)).toNat).2 : Int))) := by
  obtain ⟨hlo, hhi⟩ := logoWidthIsh_range total height ratio h0 h1
  rw [logoWidthIsh_src] at hlo hhi
  unfold spil_logo_box
  rw [logoWidthIsh_src]
  generalize truncInt ((total : Int) * ratio) = wi at *
  have hw : wi = ((wi.toNat : Nat) : Int) := by omega
  rw [hw, Int.toNat_natCast]
  exact logoGeometry_src total height box wi.toNat (by omega)

/-- the hypothesis of `logoGeometry_src` cannot be dropped: for a ratio above 1 (outside the documented range) the source
    computes a negative offset and a logo larger than the image, the Model (natural-number subtraction) does not -/
theorem logoGeometry_outside_range :
    spil_logo_box_of 100 100 10 200 = ((-50, -50), (200, 200)) ∧ logoGeometry 100 10 200 = (0, 100) := by decide

/-! ### PilImage.new_image -/

/-- a colour value as the Model sees it: the string, or `none` for anything that is not a str -/
def pilStrOf {α : Type} : pil_Val α → Option String
  | .str s => some s
  | _ => none

/-- a Model colour as a source value (`none` = some tuple) -/
def pilValOf : Option String → pil_Val Unit
  | some s => .str s
  | none => .other ()

private theorem eqStr_iff {α : Type} (v : pil_Val α) (t : String) : pil_Val.eqStr v t = true ↔ pilStrOf v = some t := by
  cases v <;> simp [pil_Val.eqStr, pilStrOf]

/-- **mode** `Model.pilMode` applied to the lower-cased colours (keyword argument or default) is the first argument of
    `Image.new` in the source; `lower` is Python's `str.lower`, arbitrary here -/
theorem pilMode_src {α : Type} (lower : String → String) (kwBack kwFill : Option (pil_Val α)) :
    pil_new_image_mode lower kwBack kwFill =
      pilMode (pilStrOf ((kwFill.getD (.str "black")).lowered lower)) (pilStrOf ((kwBack.getD (.str "white")).lowered lower)) := by
  simp only [pil_new_image_mode, pilMode]
  generalize (kwFill.getD (.str "black")).lowered lower = f
  generalize (kwBack.getD (.str "white")).lowered lower = b
  have e1 := eqStr_iff f "black"
  have e2 := eqStr_iff b "white"
  have e3 := eqStr_iff b "transparent"
  cases h1 : pil_Val.eqStr f "black" <;> cases h2 : pil_Val.eqStr b "white" <;> cases h3 : pil_Val.eqStr b "transparent" <;>
    simp_all

/-- the same in the Model's own vocabulary (`Option String`, `none` = a tuple): both keyword arguments given -/
theorem pilMode_given_src (lower : String → String) (fill back : Option String) :
    pilMode (fill.map lower) (back.map lower) = pil_new_image_mode lower (some (pilValOf back)) (some (pilValOf fill)) := by
  rw [pilMode_src]
  cases fill <;> cases back <;> rfl

/-- defaults: absent keyword arguments mean fill "black" on back "white" -/
theorem pilMode_default_src (lower : String → String) (fill back : Option String) :
    pil_new_image_mode (α := Unit) lower none none = pilMode (some (lower "black")) (some (lower "white")) ∧
    pil_new_image_mode lower none (some (pilValOf fill)) = pilMode (fill.map lower) (some (lower "white")) ∧
    pil_new_image_mode lower (some (pilValOf back)) none = pilMode (some (lower "black")) (back.map lower) := by
  refine ⟨pilMode_src _ _ _, ?_, ?_⟩
  · rw [pilMode_src]; cases fill <;> rfl
  · rw [pilMode_src]; cases back <;> rfl

/-- the colours handed on (no Model counterpart; characterisation by mode): in mode "1" fill 0 on background 255, in mode
    "RGBA" the (lower-cased) fill on background `None`, in mode "RGB" the (lower-cased) colours themselves; and the mode
    is one of the three -/
theorem pilNewImageColours_src {α : Type} (lower : String → String) (kwBack kwFill : Option (pil_Val α)) :
    let fill := (kwFill.getD (.str "black")).lowered lower
    let back := (kwBack.getD (.str "white")).lowered lower
    let mode := pil_new_image_mode lower kwBack kwFill
    (mode = "1" ∧ pil_new_image_fill lower kwBack kwFill = .int 0 ∧ pil_new_image_back lower kwBack kwFill = .int 255) ∨
    (mode = "RGBA" ∧ pil_new_image_fill lower kwBack kwFill = fill ∧ pil_new_image_back lower kwBack kwFill = .none) ∨
    (mode = "RGB" ∧ pil_new_image_fill lower kwBack kwFill = fill ∧ pil_new_image_back lower kwBack kwFill = back) := by
  simp only [pil_new_image_mode, pil_new_image_fill, pil_new_image_back]
  generalize (kwFill.getD (.str "black")).lowered lower = f
  generalize (kwBack.getD (.str "white")).lowered lower = b
  cases h1 : pil_Val.eqStr f "black" <;> cases h2 : pil_Val.eqStr b "white" <;> cases h3 : pil_Val.eqStr b "transparent" <;>
    simp

/-- canvas size and the remaining statements -/
theorem pilNewImageRest_src (width border boxSize : Nat) :
    pil_new_image_size (pixelSize width border boxSize) = (pixelSize width border boxSize, pixelSize width border boxSize) ∧
    pil_new_image_guards = ["not Image"] ∧
    pil_new_image_rest = ["img = Image.new(mode, (self.pixel_size, self.pixel_size), back_color)", "self.fill_color = fill_color",
      "self._idr = ImageDraw.Draw(img)", "return img"] :=
  ⟨rfl, by decide, by decide⟩

end QR.SourceTieT
