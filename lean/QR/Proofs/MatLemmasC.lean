import QR.Proofs.GeomDefs
/-
Generic `Mat.get` / `Mat.set` lemmas for the placement proofs (C05).  Namespace `QR.GeoC`.
-/
namespace QR.GeoC
open QR QR.Model

/-- raw form: no shape hypothesis -/
theorem get_set_raw (m : Mat) (r c r' c' : Nat) (x : Option Bool) :
    (m.set r c x).get r' c' =
      if r' = r ∧ c' = c ∧ r < m.size ∧ c < (m.getD r #[]).size then x else m.get r' c' := by
  simp only [Mat.get, Mat.set, Array.getD_eq_getD_getElem?, Array.getElem?_modify]
  by_cases hr : r = r'
  · subst hr
    by_cases hrs : r < m.size
    · simp only [Array.getElem?_eq_getElem hrs, Option.map_some, Option.getD_some, if_true,
        Array.getElem?_setIfInBounds, true_and, hrs]
      by_cases hc : c = c'
      · subst hc
        by_cases hcs : c < m[r].size
        · simp [hcs]
        · simp [hcs]
      · have : ¬ c' = c := fun h => hc h.symm
        simp [hc, this]
    · simp [hrs]
  · have : ¬ r' = r := fun h => hr h.symm
    simp [hr, this]

theorem shape_set {m : Mat} {n : Nat} (h : MatShape m n) (r c : Nat) (x : Option Bool) :
    MatShape (m.set r c x) n := by
  obtain ⟨h1, h2⟩ := h
  refine ⟨by simp [Mat.set, h1], ?_⟩
  intro i hi
  have := h2 i hi
  simp only [Mat.set, Array.getD_eq_getD_getElem?, Array.getElem?_modify] at this ⊢
  by_cases hr : r = i
  · subst hr
    have hrs : r < m.size := by omega
    simp only [Array.getElem?_eq_getElem hrs, Option.getD_some] at this
    simp [Array.getElem?_eq_getElem hrs, this]
  · simp [hr, this]

theorem get_set {m : Mat} {n : Nat} (h : MatShape m n) (r c r' c' : Nat) (x : Option Bool) :
    (m.set r c x).get r' c' = if r' = r ∧ c' = c ∧ r < n ∧ c < n then x else m.get r' c' := by
  rw [get_set_raw]
  obtain ⟨h1, h2⟩ := h
  by_cases hr : r < n
  · rw [h1, h2 r hr]
  · have : ¬ r < m.size := by omega
    simp [hr, this]

theorem get_set_self {m : Mat} {n : Nat} (h : MatShape m n) {r c : Nat} (hr : r < n) (hc : c < n)
    (x : Option Bool) : (m.set r c x).get r c = x := by
  rw [get_set h]; simp [hr, hc]

theorem get_set_ne {m : Mat} {n : Nat} (h : MatShape m n) {r c r' c' : Nat} (hne : (r', c') ≠ (r, c))
    (x : Option Bool) : (m.set r c x).get r' c' = m.get r' c' := by
  rw [get_set h]
  have : ¬ (r' = r ∧ c' = c ∧ r < n ∧ c < n) := fun ⟨a, b, _⟩ => hne (by rw [a, b])
  simp [this]

/-- cells outside the square read as `none` -/
theorem get_oob {m : Mat} {n : Nat} (h : MatShape m n) {r c : Nat} (hrc : n ≤ r ∨ n ≤ c) : m.get r c = none := by
  obtain ⟨h1, h2⟩ := h
  simp only [Mat.get, Array.getD_eq_getD_getElem?]
  by_cases hr : r < n
  · have hc : n ≤ c := by omega
    have := h2 r hr
    simp only [Array.getD_eq_getD_getElem?] at this
    have hrs : r < m.size := by omega
    simp only [Array.getElem?_eq_getElem hrs, Option.getD_some] at this ⊢
    have : m[r].size ≤ c := by omega
    simp [this]
  · have : m.size ≤ r := by omega
    simp [this]

theorem shape_empty (n : Nat) : MatShape (Mat.empty n) n := by
  refine ⟨by simp [Mat.empty], ?_⟩
  intro i hi
  simp [Mat.empty, Array.getD_eq_getD_getElem?, hi]

end QR.GeoC
