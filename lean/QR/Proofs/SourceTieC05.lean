import QR.Gen.Code
import QR.Model.Matrix
/-
Translation validation for C05: the hand-written Model is PROVED equal to the expressions tools/translate.py (T2) extracts from
the Python AST of the current source on every run (lean/QR/Gen/Code.lean).  One file per property, so that a fragment that
changed (or became untranslatable) breaks the obligations of the property it belongs to and of no other.
-/
namespace QR.SourceTie
open QR QR.Model QR.Gen.Code

/-- the eight lambdas of `util.mask_func` -/
theorem masks (i j : Nat) :
    mask_func_0 i j = maskFunc 0 i j ∧ mask_func_1 i j = maskFunc 1 i j ∧ mask_func_2 i j = maskFunc 2 i j ∧
    mask_func_3 i j = maskFunc 3 i j ∧ mask_func_4 i j = maskFunc 4 i j ∧ mask_func_5 i j = maskFunc 5 i j ∧
    mask_func_6 i j = maskFunc 6 i j ∧ mask_func_7 i j = maskFunc 7 i j :=
  ⟨rfl, rfl, rfl, rfl, rfl, rfl, rfl, rfl⟩

/-- `map_data`: columns `range(n - 1, 0, -2)` with the `if col <= 6: col -= 1` adjustment -/
theorem pairCol_eq (n k : Nat) : pairCol n k = map_col_adjust (n - 1 - 2 * k) := by
  unfold pairCol map_col_adjust
  by_cases h : n - 1 - 2 * k ≤ 6 <;> simp [h]

theorem colRange (n : Int) : map_col_range n = (n - 1, 0, -2) := rfl

/-- structure of `makeImpl`: which helpers are called, in which order -/
theorem structure_makeImpl :
    makeImpl_calls = ["self.setup_position_probe_pattern", "self.setup_position_probe_pattern",
      "self.setup_position_probe_pattern", "self.setup_position_adjust_pattern", "self.setup_timing_pattern",
      "self.setup_type_info", "self.setup_type_number", "util.create_data", "self.map_data"] := by decide

end QR.SourceTie
