import QR.Model.Styled
/-
C14 "a colour between the configured end colours": `interp_color(c1, c2, norm)` is channel-wise between `c1` and `c2`
for every interpolation parameter `norm` in [0, 1].  Mathlib-free: core `Rat` lemmas suffice.
-/
namespace QR.Proofs.Styled2
open QR QR.Model

/-- a convex combination lies between its end points -/
theorem convex_between (a b t : Rat) (h0 : 0 ≤ t) (h1 : t ≤ 1) (hab : a ≤ b) :
    a ≤ b * t + a * (1 - t) ∧ b * t + a * (1 - t) ≤ b := by
  have hd : 0 ≤ b - a := by grind
  have h2 : 0 ≤ (b - a) * t := Rat.mul_nonneg hd h0
  have h3 : (b - a) * t ≤ (b - a) * 1 := Rat.mul_le_mul_of_nonneg_left h1 hd
  constructor <;> grind

/-- the same, for end points in either order -/
theorem convex_between' (a b t : Rat) (h0 : 0 ≤ t) (h1 : t ≤ 1) :
    min a b ≤ b * t + a * (1 - t) ∧ b * t + a * (1 - t) ≤ max a b := by
  by_cases hab : a ≤ b
  · have := convex_between a b t h0 h1 hab
    rw [Rat.min_def, Rat.max_def]; simp only [hab, if_true]; exact this
  · have hba : b ≤ a := by grind
    have h0' : (0 : Rat) ≤ 1 - t := by grind
    have h1' : 1 - t ≤ (1 : Rat) := by grind
    have := convex_between b a (1 - t) h0' h1' hba
    have e : a * (1 - t) + b * (1 - (1 - t)) = b * t + a * (1 - t) := by grind
    rw [e] at this
    rw [Rat.min_def, Rat.max_def]; simp only [hab, if_false]; exact this

/-- Python `int()` (truncation toward zero) of a rational between two integers stays between them; no sign condition -/
theorem truncInt_between (lo hi : Int) (v : Rat) (hlo : (lo : Rat) ≤ v) (hhi : v ≤ (hi : Rat)) :
    lo ≤ truncInt v ∧ truncInt v ≤ hi := by
  unfold truncInt
  split
  · refine ⟨Rat.le_floor_iff.mpr hlo, ?_⟩
    have := Rat.floor_monotone hhi
    rwa [Rat.floor_intCast] at this
  · constructor
    · have h : -v ≤ ((-lo : Int) : Rat) := by rw [Rat.intCast_neg]; grind
      have := Rat.floor_monotone h
      rw [Rat.floor_intCast] at this
      omega
    · have h : ((-hi : Int) : Rat) ≤ -v := by rw [Rat.intCast_neg]; grind
      have := Rat.le_floor_iff.mpr h
      omega

theorem intCast_min (a b : Int) : ((min a b : Int) : Rat) = min (a : Rat) (b : Rat) := by
  rw [Rat.min_def, Int.min_def]
  by_cases h : a ≤ b
  · simp only [h, Rat.intCast_le_intCast.mpr h, if_true]
  · simp only [h, mt Rat.intCast_le_intCast.mp h, if_false]

theorem intCast_max (a b : Int) : ((max a b : Int) : Rat) = max (a : Rat) (b : Rat) := by
  rw [Rat.max_def, Int.max_def]
  by_cases h : a ≤ b
  · simp only [h, Rat.intCast_le_intCast.mpr h, if_true]
  · simp only [h, mt Rat.intCast_le_intCast.mp h, if_false]

/-- one channel of `interp_color` -/
theorem channel_between (a b : Int) (t : Rat) (h0 : 0 ≤ t) (h1 : t ≤ 1) :
    min a b ≤ truncInt ((b : Rat) * t + (a : Rat) * (1 - t)) ∧
    truncInt ((b : Rat) * t + (a : Rat) * (1 - t)) ≤ max a b := by
  have h := convex_between' (a : Rat) (b : Rat) t h0 h1
  rw [← intCast_min, ← intCast_max] at h
  exact truncInt_between _ _ _ h.1 h.2

theorem interpColor_length (c1 c2 : Colour) (t : Rat) (hl : c1.length = c2.length) :
    (interpColor c1 c2 t).length = c1.length := by
  induction c1 generalizing c2 with
  | nil => cases c2 <;> rfl
  | cons a t1 ih =>
    cases c2 with
    | nil => simp at hl
    | cons b t2 => simp only [interpColor, List.length_cons, ih t2 (by simpa using hl)]

/-- **every channel of `interp_color(c1, c2, t)`, 0 ≤ t ≤ 1, lies between the corresponding channels of `c1` and `c2`**
    (whatever the sign of the channels) -/
theorem interpColor_between (c1 c2 : Colour) (t : Rat) (h0 : 0 ≤ t) (h1 : t ≤ 1) (hl : c1.length = c2.length) :
    ∀ i (hi : i < c1.length),
      min c1[i] (c2[i]'(hl ▸ hi)) ≤ (interpColor c1 c2 t)[i]! ∧
      (interpColor c1 c2 t)[i]! ≤ max c1[i] (c2[i]'(hl ▸ hi)) := by
  induction c1 generalizing c2 with
  | nil => intro i hi; simp at hi
  | cons a t1 ih =>
    cases c2 with
    | nil => simp at hl
    | cons b t2 =>
      intro i hi
      cases i with
      | zero =>
        simp only [interpColor, List.getElem!_cons_zero, List.getElem_cons_zero]
        exact channel_between a b t h0 h1
      | succ i =>
        simp only [interpColor, List.getElem!_cons_succ, List.getElem_cons_succ]
        exact ih t2 (by simpa using hl) i (by simpa using hi)

end QR.Proofs.Styled2
