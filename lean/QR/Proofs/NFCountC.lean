import QR.Proofs.NFCountDefs
/-
C05: kernel evaluation of the non-function module count, versions 34-40 (`decide +kernel`, no axioms).
-/
namespace QR.GeoC
open QR

set_option maxRecDepth 100000

theorem nfCheck_34_37 : nfCheck 33 4 = true := by decide +kernel
theorem nfCheck_38_40 : nfCheck 37 3 = true := by decide +kernel

end QR.GeoC
