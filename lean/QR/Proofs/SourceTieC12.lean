import QR.Gen.Code
import QR.Model.Render
/-
Translation validation for C12: the hand-written Model is PROVED equal to the expressions tools/translate.py (T2) extracts from
the Python AST of the current source on every run (lean/QR/Gen/Code.lean).  One file per property, so that a fragment that
changed (or became untranslatable) breaks the obligations of the property it belongs to and of no other.
-/
namespace QR.SourceTie
open QR QR.Model QR.Gen.Code

/-- `BaseImage.pixel_box` and `is_eye` -/
theorem pixelBox_eq (border box row col : Nat) : pixel_box border box row col = pixelBox border box row col := rfl


end QR.SourceTie
