import QR.Proofs.NFCountDefs
/-
C05: kernel evaluation of the non-function module count, versions 1-24 (`decide +kernel`, no axioms).
-/
namespace QR.GeoC
open QR

set_option maxRecDepth 100000

theorem nfCheck_1_10 : nfCheck 0 10 = true := by decide +kernel
theorem nfCheck_11_18 : nfCheck 10 8 = true := by decide +kernel
theorem nfCheck_19_24 : nfCheck 18 6 = true := by decide +kernel

end QR.GeoC
