import QR.Gen.Code
import QR.Model.Svg
import QR.Proofs.SourceTieC13
/-
Translation validation, list B6: `SvgFragmentImage.units` (division by 10, quantum 0.001, default rounding, the cascade
0.01 / 0.1 / 0 under an Inexact trap, the "mm" suffix), `_svg`'s dimension, the background rectangle of `SvgImage`, the drawer
metrics of `BaseSvgQRModuleDrawer.initialize`, `coords()` and which coordinate each SVG drawer writes where; translated into
`QR.Gen.Code.units_*` / `svg_*`, against `Model.units`, `Model.fmtThousandths`, `Model.drawShape`, `Model.svgDoc`.
The model keeps lengths exact as numerators over `2 * den` pixels (size ratio `num / den`); the translated metrics are
(numerator, divisor) pairs over `den` pixels.
-/
namespace QR.SourceTieB
open QR QR.Model QR.Gen.Code

/-! ### units() -/

theorem units_literals :
    units_text_default = true ∧ units_divisor = 10 ∧ units_quantum_decimals = 3 ∧ units_rounding = "ROUND_HALF_EVEN" ∧
    units_cascade_traps = ["decimal.Inexact"] ∧ units_cascade_except = "decimal.Inexact" ∧
    units_cascade_decimals = [2, 1, 0] ∧ units_suffix = "mm" ∧ (∀ t, units_raw_test t = !t) := by
  refine ⟨by decide, by decide, by decide, by decide, by decide, by decide, by decide, by decide, fun _ => rfl⟩

/-- Python's cascade `for d in (...): units = units.quantize(d, context)` under an Inexact trap, on a value `t / 10^k`:
    each step that is exact re-scales, the first inexact one raises and ends the loop (`except Inexact: pass`) -/
def cascade : Nat → Nat → List Nat → Nat × Nat
  | t, k, [] => (t, k)
  | t, k, d :: ds =>
    if k ≤ d then cascade (t * 10 ^ (d - k)) d ds
    else if t % 10 ^ (k - d) = 0 then cascade (t / 10 ^ (k - d)) d ds
    else (t, k)

/-- a Decimal with `k` decimals printed: all `k` decimals, no point when `k = 0` -/
def fmtScaled (t k : Nat) : String :=
  if k = 0 then toString t else toString (t / 10 ^ k) ++ "." ++ String.ofList (digitsK (t % 10 ^ k) k)

theorem cascade3 (t : Nat) :
    cascade t 3 [2, 1, 0] =
      if t % 10 = 0 then
        if t / 10 % 10 = 0 then
          if t / 10 / 10 % 10 = 0 then (t / 10 / 10 / 10, 0) else (t / 10 / 10, 1)
        else (t / 10, 2)
      else (t, 3) := by
  simp only [cascade, Nat.reduceLeDiff, Nat.reduceSub, Nat.reducePow, if_false]

/-- the model's printer is the source's cascade: quantum and cascade steps as they stand in the source -/
theorem fmtThousandths_src (t : Nat) :
    fmtThousandths t = fmtScaled (cascade t units_quantum_decimals units_cascade_decimals).1
                                 (cascade t units_quantum_decimals units_cascade_decimals).2 := by
  unfold units_quantum_decimals units_cascade_decimals
  have p1 : (10 : Nat) ^ 1 = 10 := rfl
  have p2 : (10 : Nat) ^ 2 = 100 := rfl
  have p3 : (10 : Nat) ^ 3 = 1000 := rfl
  by_cases h0 : t % 1000 = 0
  · have hc : cascade t 3 [2, 1, 0] = (t / 1000, 0) := by
      rw [cascade3, if_pos (by omega), if_pos (by omega), if_pos (by omega)]
      congr 1; omega
    rw [hc, fmtThousandths, fmtScaled]
    dsimp only
    rw [if_pos h0, if_pos rfl]
  · by_cases h1 : t % 1000 % 100 = 0
    · have hc : cascade t 3 [2, 1, 0] = (t / 100, 1) := by
        rw [cascade3, if_pos (by omega), if_pos (by omega), if_neg (by omega)]
        congr 1; omega
      rw [hc, fmtThousandths, fmtScaled]
      dsimp only
      rw [if_neg h0, if_pos h1, if_neg (by decide), p1, show t / 100 / 10 = t / 1000 by omega,
        show t / 100 % 10 = t % 1000 / 100 by omega]
    · by_cases h2 : t % 1000 % 10 = 0
      · have hc : cascade t 3 [2, 1, 0] = (t / 10, 2) := by
          rw [cascade3, if_pos (by omega), if_neg (by omega)]
        rw [hc, fmtThousandths, fmtScaled]
        dsimp only
        rw [if_neg h0, if_neg h1, if_pos h2, if_neg (by decide), p2, show t / 10 / 100 = t / 1000 by omega,
          show t / 10 % 100 = t % 1000 / 10 by omega]
      · have hc : cascade t 3 [2, 1, 0] = (t, 3) := by
          rw [cascade3, if_neg (by omega)]
        rw [hc, fmtThousandths, fmtScaled]
        dsimp only
        rw [if_neg h0, if_neg h1, if_neg h2, if_neg (by decide), p3]

/-- `units(pixels)` for `pixels = num / den`: `Decimal(pixels) / 10` quantised to `units_quantum_decimals` decimals
    (half-even: `units_rounding`), printed through the cascade, followed by the suffix -/
theorem units_src (num den : Nat) :
    units num den =
      (let t := roundHalfEven (10 ^ units_quantum_decimals / units_divisor * num) den
       let c := cascade t units_quantum_decimals units_cascade_decimals
       fmtScaled c.1 c.2 ++ units_suffix) := by
  unfold units
  rw [fmtThousandths_src]
  rfl

/-! ### the root element and the background -/

theorem svgRoot_literals :
    svg_root_attrs = [("width", "dimension"), ("height", "dimension"), ("version", "version")] ∧
    svg_viewbox_format = "0 0 {d} {d}" ∧ svg_background_test = "self.background" ∧ svg_background_tag = "rect" ∧
    svg_background_attrs = [("fill", "<self.background>"), ("x", "0"), ("y", "0"), ("width", "100%"), ("height", "100%")] := by
  decide

def factoryName : SvgFactory → String
  | .fragment => "SvgFragmentImage" | .image => "SvgImage" | .fill => "SvgFillImage"
  | .path => "SvgPathImage" | .pathFill => "SvgPathFillImage"

/-- which factory draws the background rectangle: the class attribute `background` resolved along the class hierarchy -/
theorem hasBackground_src (f : SvgFactory) : svg_has_background.lookup (factoryName f) = some f.hasBackground := by
  cases f <;> decide

/-- the document: `width` / `height` (and the path factories' viewBox) are `units` of `pixel_size`; the pixel box handed to the
    drawer is `pixel_box(row, col)[0]`; the eye test is `is_eye` -/
theorem svgDoc_src (f : SvgFactory) (md ed : SvgDrawer) (M : Mods) (width border boxSize : Nat) :
    svgDoc f md ed M width border boxSize =
      { pixelSize := svg_dimension_arg (pixel_size border width boxSize)
        viewBox := f.isPath
        background := f.hasBackground
        shapes := (List.range width).flatMap fun r => (List.range width).filterMap fun c =>
          if (M.getD r []).getD c false then
            let d := if is_eye width r c then ed else md
            let box := pixel_box border boxSize r c
            some (2 * d.den, drawShape f.isPath d boxSize box.1.1 box.1.2)
          else none } := by
  unfold svgDoc
  simp only [QR.SourceTie.isEye_eq]
  rfl

theorem svg_viewbox_eq (p : Nat) : svg_viewbox_arg p = svg_dimension_arg p := rfl

/-! ### drawers -/

/-- `initialize()`: `box_delta = (1 - size_ratio) * img.box_size / 2`, `box_size = img.box_size * size_ratio`,
    `box_half = box_size / 2`, for `size_ratio = num / den ≤ 1`.  The translated value is `numerator / divisor` in units of
    1/den pixel; the model's is in units of 1/(2 den) pixel: `model * divisor = 2 * numerator`. -/
theorem drawerMetrics_src (d : SvgDrawer) (b : Nat) :
    (d.den - d.num) * b * (svg_box_delta d.num d.den b).2 = 2 * (svg_box_delta d.num d.den b).1 ∧
    2 * d.num * b * (svg_box_size d.num d.den b).2 = 2 * (svg_box_size d.num d.den b).1 ∧
    d.num * b * (svg_box_half d.num d.den b).2 = 2 * (svg_box_half d.num d.den b).1 := by
  unfold svg_box_delta svg_box_size svg_box_half
  simp only [Nat.one_mul, Nat.mul_one]
  refine ⟨Nat.mul_comm _ _, ?_, ?_⟩
  · rw [Nat.mul_assoc, Nat.mul_comm d.num b]
  · rw [Nat.mul_comm (d.num * b) 2, Nat.mul_comm d.num b]

theorem svgDrawer_literals :
    svg_coords_fields = ["x0", "y0", "x1", "y1", "xh", "yh"] ∧
    svg_square_tag = "rect" ∧ svg_square_attrs = ["x", "y", "width", "height"] ∧
    svg_circle_tag = "circle" ∧ svg_circle_attrs = ["cx", "cy", "r"] ∧
    svg_path_square_template = ["M", "{x0}", ",", "{y0}", "H", "{x1}", "V", "{y1}", "H", "{x0}", "z"] ∧
    svg_path_circle_template = ["M", "{x0}", ",", "{yh}", "A", "{h}", ",", "{h}", " 0 0 0 ", "{x1}", ",", "{yh}",
      "A", "{h}", ",", "{h}", " 0 0 0 ", "{x0}", ",", "{yh}", "z"] := by decide

/-- an element's attribute values / a path's variables, read into the model's shapes -/
def rectOf : List Nat → Option SvgShape
  | [x, y, w, h] => some (.rect x y w h)
  | _ => none
def circleOf : List Nat → Option SvgShape
  | [cx, cy, r] => some (.circle cx cy r)
  | _ => none
def pathSquareOf (v : List (String × Nat)) : Option SvgShape := do
  some (.pathSquare (← v.lookup "x0") (← v.lookup "y0") (← v.lookup "x1") (← v.lookup "y1"))
def pathCircleOf (v : List (String × Nat)) : Option SvgShape := do
  some (.pathCircle (← v.lookup "x0") (← v.lookup "yh") (← v.lookup "x1") (← v.lookup "h"))

/-- the shape a drawer emits for the pixel box starting at (X, Y): `coords()` as translated, and for each drawer class the
    coordinates it passes to `units` for each attribute (`x`/`y`/`width`/`height`, `cx`/`cy`/`r`) or path variable -/
theorem drawShape_src (isPath : Bool) (d : SvgDrawer) (b X Y : Nat) :
    some (drawShape isPath d b X Y) =
      (let D := 2 * d.den
       let delta := (d.den - d.num) * b
       let size := 2 * d.num * b
       let half := d.num * b
       let c := svg_coords (X * D) (Y * D) delta size half
       match isPath, d.kind with
       | false, .square => rectOf (svg_square_el c.1 c.2.1 c.2.2.1 c.2.2.2.1 c.2.2.2.2.1 c.2.2.2.2.2 delta size half)
       | false, .circle => circleOf (svg_circle_el c.1 c.2.1 c.2.2.1 c.2.2.2.1 c.2.2.2.2.1 c.2.2.2.2.2 delta size half)
       | true, .square => pathSquareOf (svg_path_square_vars c.1 c.2.1 c.2.2.1 c.2.2.2.1 c.2.2.2.2.1 c.2.2.2.2.2 delta size half)
       | true, .circle => pathCircleOf (svg_path_circle_vars c.1 c.2.1 c.2.2.1 c.2.2.2.1 c.2.2.2.2.1 c.2.2.2.2.2 delta size half)) := by
  unfold drawShape
  cases isPath <;> cases hk : d.kind <;> rfl

end QR.SourceTieB
