import QR.Model.QRObject
import QR.Proofs.Except
/-
C11 / C18 - the QRCode object as a state machine: the cached compile (`makeS`) agrees with the cache-free compile of a
fresh object (`compile`), whatever the caches hold; the invariants are preserved by every operation.
-/
namespace QR
open QR.Model

/-- the process-wide cache never holds anything but the blank of its key (same as `Props.Global.Inv`) -/
def GInv (g : Global) : Prop := ∀ v b, g.blanks.lookup v = some b → blank v = .ok b

/-- settings and data of `s'` are those of `s` -/
structure Same (s s' : QRState) : Prop where
  version : s'.version = s.version
  level : s'.level = s.level
  mask : s'.mask = s.mask
  border : s'.border = s.border
  boxSize : s'.boxSize = s.boxSize
  dataList : s'.dataList = s.dataList

theorem Same.rfl' (s : QRState) : Same s s := ⟨rfl, rfl, rfl, rfl, rfl, rfl⟩

theorem Same.trans {a b c : QRState} (h1 : Same a b) (h2 : Same b c) : Same a c :=
  ⟨h2.version.trans h1.version, h2.level.trans h1.level, h2.mask.trans h1.mask, h2.border.trans h1.border,
   h2.boxSize.trans h1.boxSize, h2.dataList.trans h1.dataList⟩

/-- the codewords the next `makeImpl` will place: the data cache, or `create_data` of the current settings -/
def DataIs (s : QRState) (data : List Nat) : Prop :=
  s.dataCache = some data ∨ (s.dataCache = none ∧ createData s.version s.level s.dataList = .ok data)

theorem DataIs.unique {s : QRState} {d d' : List Nat} (h : DataIs s d) (h' : DataIs s d') : d = d' := by
  rcases h with h | ⟨h, hc⟩ <;> rcases h' with h' | ⟨h', hc'⟩
  · rw [h] at h'; exact Option.some.inj h'
  · rw [h] at h'; cases h'
  · rw [h] at h'; cases h'
  · rw [hc] at hc'; exact Except.ok.inj hc'

/-! ### the blank cache -/

theorem blankG_ok {g : Global} (hg : GInv g) {v : Nat} {g' : Global} {b : Mat} (h : blankG g v = .ok (g', b)) :
    blank v = .ok b ∧ GInv g' := by
  unfold blankG at h
  cases hl : g.blanks.lookup v with
  | some b0 =>
    rw [hl] at h
    injection h with h; injection h with h1 h2; subst h1; subst h2; exact ⟨hg v _ hl, hg⟩
  | none =>
    rw [hl] at h
    cases hb : blank v with
    | error e => rw [hb] at h; cases h
    | ok b0 =>
      rw [hb] at h
      simp only [R.bind_ok, R.pure_eq] at h
      injection h with h; injection h with h1 h2; subst h1; subst h2
      refine ⟨rfl, ?_⟩
      intro w c hw
      simp only [List.lookup_cons] at hw
      by_cases hwv : w = v
      · subst hwv; simp at hw; subst hw; exact hb
      · have : (w == v) = false := by simpa using hwv
        simp only [this] at hw
        exact hg w c hw

theorem blankG_error {g : Global} {v : Nat} {e : Err} (h : blankG g v = .error e) : blank v = .error e := by
  unfold blankG at h
  cases hl : g.blanks.lookup v with
  | some b0 => rw [hl] at h; cases h
  | none =>
    rw [hl] at h
    cases hb : blank v with
    | error e' => rw [hb] at h; simpa using h
    | ok b0 => rw [hb] at h; cases h

/-- `blank` fails only for want of an alignment-pattern row -/
theorem blank_eq_hist (v : Nat) :
    blank v = (patternPosition v >>= fun pos =>
      pure (setupTiming (v * 4 + 17) (setupAdjust (setupProbe (v * 4 + 17) (setupProbe (v * 4 + 17)
        (setupProbe (v * 4 + 17) (Mat.empty (v * 4 + 17)) 0 0) (v * 4 + 17 - 7) 0) 0 (v * 4 + 17 - 7)) pos))) := rfl

theorem blank_ok_of_le {v : Nat} (hv : v ≤ 40) : ∃ b, blank v = .ok b := by
  rw [blank_eq_hist]
  have hlen : Gen.PATTERN_POSITION_TABLE.length = 40 := by decide
  have : v - 1 < Gen.PATTERN_POSITION_TABLE.length := by omega
  simp only [patternPosition, idx, List.getElem?_eq_getElem this]
  exact ⟨_, rfl⟩

theorem le_of_blank_ok {v : Nat} {b : Mat} (h : blank v = .ok b) : v ≤ 40 := by
  rw [blank_eq_hist] at h
  have hlen : Gen.PATTERN_POSITION_TABLE.length = 40 := by decide
  by_cases hv : v ≤ 40
  · exact hv
  · have : Gen.PATTERN_POSITION_TABLE[v - 1]? = none := List.getElem?_eq_none (by omega)
    simp only [patternPosition, idx, this] at h
    cases h

/-! ### B1: `makeImplS` against the cache-free `makeImpl` -/

theorem makeImpl_eq (v l : Nat) (test : Bool) (mask : Nat) (data : List Nat) :
    makeImpl v l test mask data = (blank v >>= fun b =>
      if mask > 7 then .error .typeError
      else pure (mapData (v * 4 + 17)
        (if v ≥ 7 then setupTypeNumber (v * 4 + 17) v (setupTypeInfo (v * 4 + 17) l b test mask) test
         else setupTypeInfo (v * 4 + 17) l b test mask) data mask)) := rfl

theorem makeImplS_ok {test : Bool} {mask : Nat} {g g' : Global} {s s' : QRState} (hg : GInv g)
    (h : makeImplS test mask (g, s) = ((g', s'), .ok ())) :
    GInv g' ∧ Same s s' ∧ s'.modulesCount = s.version * 4 + 17 ∧ mask ≤ 7 ∧
      ∃ data, DataIs s data ∧ s'.dataCache = some data ∧
        makeImpl s.version s.level test mask data = .ok s'.modules := by
  simp only [makeImplS] at h
  cases hb : blankG g s.version with
  | error e => simp only [hb] at h; cases h
  | ok gb =>
    obtain ⟨g1, b⟩ := gb
    obtain ⟨hblank, hg1⟩ := blankG_ok hg hb
    cases hdc : s.dataCache with
    | some d =>
      simp only [hb, hdc] at h
      by_cases hm : mask > 7
      · simp only [hm, if_true] at h; cases h
      · simp only [hm, if_false] at h
        injection h with h1 h2; injection h1 with h1 h3; subst h1; subst h3
        refine ⟨hg1, ⟨rfl, rfl, rfl, rfl, rfl, rfl⟩, rfl, by omega, d, Or.inl hdc, rfl, ?_⟩
        simp only [makeImpl_eq, hblank, R.bind_ok, hm, if_false, R.pure_eq]
    | none =>
      simp only [hb, hdc] at h
      cases hcd : createData s.version s.level s.dataList with
      | error e => simp only [hcd] at h; cases h
      | ok d =>
        simp only [hcd] at h
        by_cases hm : mask > 7
        · simp only [hm, if_true] at h; cases h
        · simp only [hm, if_false] at h
          injection h with h1 h2; injection h1 with h1 h3; subst h1; subst h3
          refine ⟨hg1, ⟨rfl, rfl, rfl, rfl, rfl, rfl⟩, rfl, by omega, d, Or.inr ⟨hdc, hcd⟩, rfl, ?_⟩
          simp only [makeImpl_eq, hblank, R.bind_ok, hm, if_false, R.pure_eq]

theorem makeImplS_error {test : Bool} {mask : Nat} {g g' : Global} {s s' : QRState} {e : Err} (hg : GInv g)
    (h : makeImplS test mask (g, s) = ((g', s'), .error e)) :
    GInv g' ∧ Same s s' ∧ s'.modulesCount = s.version * 4 + 17 ∧
      ((blank s.version = .error e ∧ s'.dataCache = s.dataCache) ∨
       (∃ b, blank s.version = .ok b ∧
          ((s.dataCache = none ∧ createData s.version s.level s.dataList = .error e ∧ s'.dataCache = none) ∨
           (∃ data, DataIs s data ∧ s'.dataCache = some data ∧ 7 < mask ∧ e = .typeError)))) := by
  simp only [makeImplS] at h
  cases hb : blankG g s.version with
  | error e' =>
    simp only [hb] at h
    injection h with h1 h2; injection h1 with h1 h3; injection h2 with h2; subst h1; subst h3; subst h2
    exact ⟨hg, ⟨rfl, rfl, rfl, rfl, rfl, rfl⟩, rfl, Or.inl ⟨blankG_error hb, rfl⟩⟩
  | ok gb =>
    obtain ⟨g1, b⟩ := gb
    obtain ⟨hblank, hg1⟩ := blankG_ok hg hb
    cases hdc : s.dataCache with
    | some d =>
      simp only [hb, hdc] at h
      by_cases hm : mask > 7
      · simp only [hm, if_true] at h
        injection h with h1 h2; injection h1 with h1 h3; injection h2 with h2; subst h1; subst h3; subst h2
        exact ⟨hg1, ⟨rfl, rfl, rfl, rfl, rfl, rfl⟩, rfl, Or.inr ⟨b, hblank, Or.inr ⟨d, Or.inl hdc, rfl, hm, rfl⟩⟩⟩
      · simp only [hm, if_false] at h; cases h
    | none =>
      simp only [hb, hdc] at h
      cases hcd : createData s.version s.level s.dataList with
      | error e' =>
        simp only [hcd] at h
        injection h with h1 h2; injection h1 with h1 h3; injection h2 with h2; subst h1; subst h3; subst h2
        exact ⟨hg1, ⟨rfl, rfl, rfl, rfl, rfl, rfl⟩, rfl, Or.inr ⟨b, hblank, Or.inl ⟨rfl, rfl, rfl⟩⟩⟩
      | ok d =>
        simp only [hcd] at h
        by_cases hm : mask > 7
        · simp only [hm, if_true] at h
          injection h with h1 h2; injection h1 with h1 h3; injection h2 with h2; subst h1; subst h3; subst h2
          exact ⟨hg1, ⟨rfl, rfl, rfl, rfl, rfl, rfl⟩, rfl,
            Or.inr ⟨b, hblank, Or.inr ⟨d, Or.inr ⟨hdc, hcd⟩, rfl, hm, rfl⟩⟩⟩
        · simp only [hm, if_false] at h; cases h

/-! ### B2: `bestFitS` against `bestFit` -/

theorem checkVersion_nat_ok {v : Nat} {u : Unit} (h : checkVersion (v : Int) = .ok u) : 1 ≤ v ∧ v ≤ 40 := by
  unfold checkVersion at h
  split at h
  · cases h
  · omega

theorem bestFitS_spec (fuel start : Nat) (s : QRState) :
    (bestFitS fuel start s).2 = bestFit fuel start s.level s.dataList ∧
    ∃ v', (bestFitS fuel start s).1 = { s with version := v' } ∧ (v' = s.version ∨ (1 ≤ v' ∧ v' ≤ 40)) ∧
      ∀ v, (bestFitS fuel start s).2 = .ok v → v' = v ∧ 1 ≤ v ∧ v ≤ 40 := by
  induction fuel generalizing start s with
  | zero =>
    refine ⟨rfl, s.version, rfl, Or.inl rfl, ?_⟩
    intro v h; cases h
  | succ fuel ih =>
    simp only [bestFitS, bestFit]
    generalize (if start = 0 then 1 else start) = st
    cases hcv : checkVersion (st : Int) with
    | error e =>
      simp only [R.bind_error]
      exact ⟨trivial, s.version, rfl, Or.inl rfl, fun v h => by cases h⟩
    | ok u =>
      simp only [R.bind_ok]
      cases hsb : segsBits (fun m => dictGet (modeSizes st) m) s.dataList with
      | error e =>
        simp only [R.bind_error]
        exact ⟨trivial, s.version, rfl, Or.inl rfl, fun v h => by cases h⟩
      | ok buffer =>
        simp only [R.bind_ok]
        cases hrow : idx Gen.BIT_LIMIT_TABLE s.level with
        | error e =>
          simp only [R.bind_error]
          exact ⟨trivial, s.version, rfl, Or.inl rfl, fun v h => by cases h⟩
        | ok row =>
          simp only [R.bind_ok]
          generalize bisectLeft row buffer.length (row.length + 1) st row.length = version
          by_cases h41 : version = 41
          · simp only [h41, if_true]
            exact ⟨trivial, s.version, rfl, Or.inl rfl, fun v h => by cases h⟩
          · simp only [h41, if_false]
            cases hcv2 : checkVersion (version : Int) with
            | error e =>
              simp only [R.bind_error]
              exact ⟨trivial, s.version, rfl, Or.inl rfl, fun v h => by cases h⟩
            | ok u2 =>
              have hv := checkVersion_nat_ok hcv2
              dsimp only
              rw [R.bind_ok]
              by_cases hsc : sizeClass st ≠ sizeClass version
              · simp only [if_pos hsc]
                obtain ⟨h1, v', h2, h3, h4⟩ := ih version { s with version := version }
                refine ⟨h1, v', ?_, ?_, h4⟩
                · rw [h2]
                · rcases h3 with h3 | h3
                  · right; rw [h3]; exact hv
                  · right; exact h3
              · simp only [if_neg hsc, R.pure_eq]
                refine ⟨trivial, version, rfl, Or.inr hv, ?_⟩
                intro v h
                injection h with h
                subst h
                exact ⟨rfl, hv⟩

theorem bestFitS_result (fuel start : Nat) (s : QRState) :
    (bestFitS fuel start s).2 = bestFit fuel start s.level s.dataList := (bestFitS_spec fuel start s).1

theorem bestFitS_ok {fuel start : Nat} {s : QRState} {v : Nat} (h : (bestFitS fuel start s).2 = .ok v) :
    (bestFitS fuel start s).1 = { s with version := v } ∧ 1 ≤ v ∧ v ≤ 40 := by
  obtain ⟨_, v', h2, _, h4⟩ := bestFitS_spec fuel start s
  obtain ⟨h5, h6⟩ := h4 v h
  subst h5
  exact ⟨h2, h6⟩

theorem bestFitS_state (fuel start : Nat) (s : QRState) :
    ∃ v', (bestFitS fuel start s).1 = { s with version := v' } ∧ (v' = s.version ∨ (1 ≤ v' ∧ v' ≤ 40)) := by
  obtain ⟨_, v', h2, h3, _⟩ := bestFitS_spec fuel start s
  exact ⟨v', h2, h3⟩

/-! ### B3: `bestMaskS` against `bestMaskPattern` -/

/-- the loop body of `bestMaskPattern` -/
def maskStep (version level : Nat) (data : List Nat) (st : Nat × Nat) (i : Nat) : R (Nat × Nat) := do
  let m ← makeImpl version level true i data
  pure (pickMask st i (lostPoint m.toBMat))

theorem bestMaskPattern_eq (version level : Nat) (data : List Nat) :
    bestMaskPattern version level data =
      ((List.range 8).foldlM (maskStep version level data) (0, 0) >>= fun r => pure r.2) := rfl

theorem makeImpl_error_of_blank {v l : Nat} {test : Bool} {mask : Nat} {data : List Nat} {e : Err}
    (h : blank v = .error e) : makeImpl v l test mask data = .error e := by
  rw [makeImpl_eq, h]; rfl

/-- the mask loop with the data known (cached, or computable): it is the cache-free loop -/
theorem bestMaskS_go_spec (is : List Nat) (g : Global) (s : QRState) (acc : Nat × Nat) (data : List Nat)
    (hg : GInv g) (hd : DataIs s data) :
    (∀ g' s' m, bestMaskS.go is (g, s) acc = ((g', s'), .ok m) →
        GInv g' ∧ Same s s' ∧ DataIs s' data ∧ (is ≠ [] → s'.dataCache = some data) ∧
        ∃ acc', is.foldlM (maskStep s.version s.level data) acc = .ok acc' ∧ acc'.2 = m) ∧
    (∀ g' s' e, bestMaskS.go is (g, s) acc = ((g', s'), .error e) →
        GInv g' ∧ Same s s' ∧ is.foldlM (maskStep s.version s.level data) acc = .error e) := by
  induction is generalizing g s acc with
  | nil =>
    refine ⟨?_, ?_⟩
    · intro g' s' m h
      simp only [bestMaskS.go] at h
      injection h with h1 h2; injection h1 with h1 h3; injection h2 with h2; subst h1; subst h3; subst h2
      exact ⟨hg, Same.rfl' _, hd, fun h => absurd rfl h, acc, rfl, rfl⟩
    · intro g' s' e h
      simp only [bestMaskS.go] at h
      injection h with h1 h2; cases h2
  | cons i is ih =>
    cases hm : makeImplS true i (g, s) with
    | mk st1 r =>
      obtain ⟨g1, s1⟩ := st1
      cases r with
      | error e1 =>
        obtain ⟨hg1, hsame, _, hcase⟩ := makeImplS_error hg hm
        have hfail : (i :: is).foldlM (maskStep s.version s.level data) acc = .error e1 := by
          have : maskStep s.version s.level data acc i = .error e1 := by
            rcases hcase with ⟨hb, _⟩ | ⟨b, hb, ⟨hdc, hcd, _⟩ | ⟨data', _, _, hgt, he⟩⟩
            · simp only [maskStep, makeImpl_error_of_blank hb, R.bind_error]
            · rcases hd with hd | ⟨_, hd⟩
              · rw [hd] at hdc; cases hdc
              · rw [hd] at hcd; cases hcd
            · subst he
              simp only [maskStep, makeImpl_eq, hb, R.bind_ok, hgt, if_true, R.bind_error]
          simp only [List.foldlM_cons, this, R.bind_error]
        refine ⟨?_, ?_⟩
        · intro g' s' m h
          simp only [bestMaskS.go, hm] at h
          injection h with h1 h2; cases h2
        · intro g' s' e h
          simp only [bestMaskS.go, hm] at h
          injection h with h1 h2; injection h1 with h1 h3; injection h2 with h2; subst h1; subst h3; subst h2
          exact ⟨hg1, hsame, hfail⟩
      | ok u =>
        obtain ⟨hg1, hsame, _, _, data', hd', hcache, hmk⟩ := makeImplS_ok hg hm
        have hdd : data' = data := DataIs.unique hd' hd
        subst hdd
        have hd1 : DataIs s1 data' := Or.inl hcache
        have hstep : (i :: is).foldlM (maskStep s.version s.level data') acc =
            is.foldlM (maskStep s.version s.level data') (pickMask acc i (lostPoint s1.modules.toBMat)) := by
          simp only [List.foldlM_cons, maskStep, hmk, R.bind_ok, R.pure_eq]
        obtain ⟨ih1, ih2⟩ := ih g1 s1 (pickMask acc i (lostPoint s1.modules.toBMat)) hg1 hd1
        rw [hsame.version, hsame.level] at ih1 ih2
        refine ⟨?_, ?_⟩
        · intro g' s' m h
          simp only [bestMaskS.go, hm] at h
          obtain ⟨a1, a2, a3, _, a5⟩ := ih1 g' s' m h
          refine ⟨a1, hsame.trans a2, a3, fun _ => ?_, ?_⟩
          · rcases a3 with a3 | ⟨a3, _⟩
            · exact a3
            · exact absurd a3 (by
                intro hnone
                -- `go` only ever runs `makeImplS`, which leaves a filled cache filled
                cases is with
                | nil =>
                  simp only [bestMaskS.go] at h
                  injection h with h1 h2; injection h1 with h1 h3; subst h3
                  rw [hcache] at hnone; cases hnone
                | cons j js =>
                  obtain ⟨_, _, _, a4, _⟩ := ih1 g' s' m h
                  rw [a4 (by simp)] at hnone; cases hnone)
          · rw [hstep]; exact a5
        · intro g' s' e h
          simp only [bestMaskS.go, hm] at h
          obtain ⟨a1, a2, a3⟩ := ih2 g' s' e h
          exact ⟨a1, hsame.trans a2, by rw [hstep]; exact a3⟩

/-- the mask loop when `create_data` fails: the first `makeImpl` raises -/
theorem bestMaskS_go_nodata (i : Nat) (is : List Nat) (g : Global) (s : QRState) (acc : Nat × Nat) (e0 : Err)
    (hg : GInv g) (hdc : s.dataCache = none) (hcd : createData s.version s.level s.dataList = .error e0)
    {g' : Global} {s' : QRState} {r : R Nat} (h : bestMaskS.go (i :: is) (g, s) acc = ((g', s'), r)) :
    GInv g' ∧ Same s s' ∧ ∃ e, r = .error e ∧ (blank s.version = .error e ∨ ((∃ b, blank s.version = .ok b) ∧ e = e0)) := by
  cases hm : makeImplS true i (g, s) with
  | mk st1 r1 =>
    obtain ⟨g1, s1⟩ := st1
    cases r1 with
    | error e1 =>
      obtain ⟨hg1, hsame, _, hcase⟩ := makeImplS_error hg hm
      simp only [bestMaskS.go, hm] at h
      injection h with h1 h2; injection h1 with h1 h3; subst h1; subst h3; subst h2
      refine ⟨hg1, hsame, e1, rfl, ?_⟩
      rcases hcase with ⟨hb, _⟩ | ⟨b, hb, ⟨_, hcd', _⟩ | ⟨data', hd', _, _, _⟩⟩
      · exact Or.inl hb
      · rw [hcd] at hcd'; injection hcd' with hcd'; exact Or.inr ⟨⟨b, hb⟩, hcd'.symm⟩
      · rcases hd' with hd' | ⟨_, hd'⟩
        · rw [hdc] at hd'; cases hd'
        · rw [hcd] at hd'; cases hd'
    | ok u =>
      obtain ⟨_, _, _, _, data', hd', _, _⟩ := makeImplS_ok hg hm
      rcases hd' with hd' | ⟨_, hd'⟩
      · rw [hdc] at hd'; cases hd'
      · rw [hcd] at hd'; cases hd'

theorem range8 : List.range 8 = 0 :: [1, 2, 3, 4, 5, 6, 7] := by decide

/-- **B3**: with the data known, `bestMaskS` is `bestMaskPattern` -/
theorem bestMaskS_spec (g : Global) (s : QRState) (data : List Nat) (hg : GInv g) (hd : DataIs s data) :
    (∀ g' s' m, bestMaskS (g, s) = ((g', s'), .ok m) →
        GInv g' ∧ Same s s' ∧ s'.dataCache = some data ∧ bestMaskPattern s.version s.level data = .ok m) ∧
    (∀ g' s' e, bestMaskS (g, s) = ((g', s'), .error e) →
        GInv g' ∧ Same s s' ∧ bestMaskPattern s.version s.level data = .error e) := by
  obtain ⟨h1, h2⟩ := bestMaskS_go_spec (List.range 8) g s (0, 0) data hg hd
  refine ⟨?_, ?_⟩
  · intro g' s' m h
    obtain ⟨a1, a2, _, a4, acc', a5, a6⟩ := h1 g' s' m h
    refine ⟨a1, a2, a4 (by simp [range8]), ?_⟩
    rw [bestMaskPattern_eq, a5, R.bind_ok, R.pure_eq, a6]
  · intro g' s' e h
    obtain ⟨a1, a2, a3⟩ := h2 g' s' e h
    refine ⟨a1, a2, ?_⟩
    rw [bestMaskPattern_eq, a3, R.bind_error]

/-- `bestMaskS` when `create_data` fails: it fails, with the blank's error or with that of `create_data` -/
theorem bestMaskS_nodata (g : Global) (s : QRState) (e0 : Err)
    (hg : GInv g) (hdc : s.dataCache = none) (hcd : createData s.version s.level s.dataList = .error e0)
    {g' : Global} {s' : QRState} {r : R Nat} (h : bestMaskS (g, s) = ((g', s'), r)) :
    GInv g' ∧ Same s s' ∧ ∃ e, r = .error e ∧ (blank s.version = .error e ∨ ((∃ b, blank s.version = .ok b) ∧ e = e0)) := by
  unfold bestMaskS at h
  rw [range8] at h
  exact bestMaskS_go_nodata 0 _ g s (0, 0) e0 hg hdc hcd h

/-! ### B4: `makeS` against the cache-free `compile` -/

/-- the first half of `make(fit)`: the reads of `self.version` and the `best_fit` they trigger -/
def versionStage (fit : Bool) (s : QRState) : QRState × R Nat :=
  let p1 := if s.version = 0 then bestFitS 4 0 s else (s, .ok s.version)
  match p1.2 with
  | .error e => (p1.1, .error e)
  | .ok _ => if fit then bestFitS 4 p1.1.version p1.1 else (p1.1, .ok p1.1.version)

/-- the second half: place the data under the given or the best mask -/
def maskStage (g : Global) (s : QRState) : St × R Unit :=
  match s.mask with
  | some m => makeImplS false m (g, s)
  | none =>
    match bestMaskS (g, s) with
    | (st, .error e) => (st, .error e)
    | (st, .ok m) => makeImplS false m st

theorem makeS_eq (fit : Bool) (g : Global) (s : QRState) :
    makeS fit (g, s) =
      match (versionStage fit { s with dataCache := none }).2 with
      | .error e => ((g, (versionStage fit { s with dataCache := none }).1), .error e)
      | .ok _ => maskStage g (versionStage fit { s with dataCache := none }).1 := by
  simp only [makeS, versionStage, maskStage]
  by_cases hv0 : s.version = 0
  · simp only [if_pos hv0]
    generalize ({ s with dataCache := none } : QRState) = s0
    cases hbf : bestFitS 4 0 s0 with
    | mk s1 r1 =>
      cases r1 with
      | error e => rfl
      | ok v0 =>
        cases fit with
        | false => rfl
        | true =>
          dsimp only
          cases hbf2 : bestFitS 4 s1.version s1 with
          | mk s2 r2 => cases r2 <;> rfl
  · simp only [if_neg hv0]
    generalize ({ s with dataCache := none } : QRState) = s0
    cases fit with
    | false => rfl
    | true =>
      cases hbf2 : bestFitS 4 s.version s0 with
      | mk s2 r2 => cases r2 <;> rfl
/-- the settings of `s` as the configuration of a fresh object -/
def cfgOf (s : QRState) (fit : Bool) : Cfg := { version := s.version, level := s.level, mask := s.mask, fit := fit }

theorem versionStage_spec (fit : Bool) (s : QRState) :
    (versionStage fit s).2 = chooseVersion (cfgOf s fit) s.dataList ∧
    ∃ v', (versionStage fit s).1 = { s with version := v' } ∧ (v' = s.version ∨ (1 ≤ v' ∧ v' ≤ 40)) ∧
      ∀ v, (versionStage fit s).2 = .ok v → v' = v ∧ 1 ≤ v ∧ (v = s.version ∨ v ≤ 40) := by
  unfold versionStage chooseVersion cfgOf
  dsimp only
  by_cases hv0 : s.version = 0
  · simp only [if_pos hv0]
    obtain ⟨h1, v1, h2, h3, h4⟩ := bestFitS_spec 4 0 s
    rw [← h1]
    cases hr : (bestFitS 4 0 s).2 with
    | error e =>
      simp only [R.bind_error]
      exact ⟨trivial, v1, h2, h3, fun v h => by cases h⟩
    | ok v0 =>
      obtain ⟨h5, h6⟩ := h4 v0 hr
      subst h5
      simp only [R.bind_ok, h2]
      cases fit with
      | false =>
        simp only [Bool.false_eq_true, if_false, R.pure_eq]
        exact ⟨trivial, v1, rfl, h3, fun v h => by injection h with h; subst h; exact ⟨rfl, h6.1, Or.inr h6.2⟩⟩
      | true =>
        simp only [if_true]
        obtain ⟨k1, v2, k2, k3, k4⟩ := bestFitS_spec 4 v1 { s with version := v1 }
        refine ⟨k1, v2, k2, ?_, ?_⟩
        · rcases k3 with k3 | k3
          · right; rw [k3]; exact h6
          · right; exact k3
        · intro v h
          obtain ⟨k5, k6, k7⟩ := k4 v h
          exact ⟨k5, k6, Or.inr k7⟩
  · simp only [if_neg hv0, R.pure_eq, R.bind_ok]
    cases fit with
    | false =>
      simp only [Bool.false_eq_true, if_false]
      exact ⟨trivial, s.version, rfl, Or.inl rfl,
        fun v h => by injection h with h; subst h; exact ⟨rfl, by omega, Or.inl rfl⟩⟩
    | true =>
      simp only [if_true]
      obtain ⟨k1, v2, k2, k3, k4⟩ := bestFitS_spec 4 s.version s
      refine ⟨k1, v2, k2, k3, ?_⟩
      intro v h
      obtain ⟨k5, k6, k7⟩ := k4 v h
      exact ⟨k5, k6, Or.inr k7⟩

/-- the mask `make` uses: the configured one, or the best -/
def maskChoice (mask : Option Nat) (version level : Nat) (data : List Nat) : R Nat :=
  match mask with
  | some m => pure m
  | none => bestMaskPattern version level data

theorem compile_eq (cfg : Cfg) (segs : List Seg) :
    compile cfg segs = (chooseVersion cfg segs >>= fun v => createData v cfg.level segs >>= fun data =>
      maskChoice cfg.mask v cfg.level data >>= fun mask => makeImpl v cfg.level false mask data >>= fun m =>
      pure (v, mask, m)) := by
  obtain ⟨v, l, mask, fit⟩ := cfg
  cases mask <;> rfl

/-- how the cache-free second half fails with `e` -/
def CompileErr (version level : Nat) (mask : Option Nat) (segs : List Seg) (e : Err) : Prop :=
  createData version level segs = .error e ∨
  ∃ data, createData version level segs = .ok data ∧
    (maskChoice mask version level data = .error e ∨
     ∃ m, maskChoice mask version level data = .ok m ∧ makeImpl version level false m data = .error e)

theorem maskStage_spec (g : Global) (s : QRState) (hg : GInv g) (hdc : s.dataCache = none) :
    (∀ g' s', maskStage g s = ((g', s'), .ok ()) →
      GInv g' ∧ Same s s' ∧ s'.modulesCount = s.version * 4 + 17 ∧ s'.dataCache.isSome = true ∧
      ∃ data m, createData s.version s.level s.dataList = .ok data ∧
        maskChoice s.mask s.version s.level data = .ok m ∧
        makeImpl s.version s.level false m data = .ok s'.modules) ∧
    (∀ g' s' e, maskStage g s = ((g', s'), .error e) →
      GInv g' ∧ Same s s' ∧
      (blank s.version = .error e ∨ CompileErr s.version s.level s.mask s.dataList e)) := by
  have hdata : ∀ data, DataIs s data → createData s.version s.level s.dataList = .ok data := by
    intro data hd
    rcases hd with hd | ⟨_, hd⟩
    · rw [hdc] at hd; cases hd
    · exact hd
  unfold maskStage
  cases hmask : s.mask with
  | some m0 =>
    dsimp only
    refine ⟨?_, ?_⟩
    · intro g' s' h
      obtain ⟨a1, a2, a3, _, data, a5, a6, a7⟩ := makeImplS_ok hg h
      exact ⟨a1, a2, a3, by rw [a6]; rfl, data, m0, hdata data a5, rfl, a7⟩
    · intro g' s' e h
      obtain ⟨a1, a2, _, a3⟩ := makeImplS_error hg h
      refine ⟨a1, a2, ?_⟩
      rcases a3 with ⟨hb, _⟩ | ⟨b, hb, ⟨_, hcd, _⟩ | ⟨data, hd, _, hgt, he⟩⟩
      · exact Or.inl hb
      · exact Or.inr (Or.inl hcd)
      · subst he
        refine Or.inr (Or.inr ⟨data, hdata data hd, Or.inr ⟨m0, rfl, ?_⟩⟩)
        simp only [makeImpl_eq, hb, R.bind_ok, hgt, if_true]
  | none =>
    dsimp only
    cases hbm : bestMaskS (g, s) with
    | mk st1 r =>
      obtain ⟨g1, s1⟩ := st1
      cases hcd : createData s.version s.level s.dataList with
      | error e0 =>
        obtain ⟨a1, a2, e, a3, a4⟩ := bestMaskS_nodata g s e0 hg hdc hcd hbm
        subst a3
        dsimp only
        refine ⟨?_, ?_⟩
        · intro g' s' h; injection h with h1 h2; cases h2
        · intro g' s' e' h
          injection h with h1 h2; injection h1 with h1 h3; injection h2 with h2; subst h1; subst h3; subst h2
          refine ⟨a1, a2, ?_⟩
          rcases a4 with a4 | ⟨_, a4⟩
          · exact Or.inl a4
          · subst a4; exact Or.inr (Or.inl hcd)
      | ok data =>
        have hd : DataIs s data := Or.inr ⟨hdc, hcd⟩
        obtain ⟨b1, b2⟩ := bestMaskS_spec g s data hg hd
        cases r with
        | error e =>
          obtain ⟨a1, a2, a3⟩ := b2 g1 s1 e hbm
          dsimp only
          refine ⟨?_, ?_⟩
          · intro g' s' h; injection h with h1 h2; cases h2
          · intro g' s' e' h
            injection h with h1 h2; injection h1 with h1 h3; injection h2 with h2; subst h1; subst h3; subst h2
            exact ⟨a1, a2, Or.inr (Or.inr ⟨data, hcd, Or.inl a3⟩)⟩
        | ok m =>
          obtain ⟨a1, a2, a3, a4⟩ := b1 g1 s1 m hbm
          dsimp only
          refine ⟨?_, ?_⟩
          · intro g' s' h
            obtain ⟨c1, c2, c3, _, data', c5, c6, c7⟩ := makeImplS_ok a1 h
            have : data' = data := DataIs.unique c5 (Or.inl a3)
            subst this
            rw [a2.version, a2.level] at c7
            refine ⟨c1, a2.trans c2, by rw [c3, a2.version], by rw [c6]; rfl, data', m, rfl, a4, c7⟩
          · intro g' s' e h
            obtain ⟨c1, c2, _, c3⟩ := makeImplS_error a1 h
            refine ⟨c1, a2.trans c2, ?_⟩
            rcases c3 with ⟨hb, _⟩ | ⟨b, hb, ⟨hnone, _, _⟩ | ⟨data', _, _, hgt, he⟩⟩
            · left; rw [← a2.version]; exact hb
            · rw [a3] at hnone; cases hnone
            · subst he
              refine Or.inr (Or.inr ⟨data, hcd, Or.inr ⟨m, a4, ?_⟩⟩)
              rw [a2.version] at hb
              simp only [makeImpl_eq, hb, R.bind_ok, hgt, if_true]

/-- everything but `version` (which `best_fit` may assign) and the caches is untouched -/
structure SameButVersion (s s' : QRState) : Prop where
  level : s'.level = s.level
  mask : s'.mask = s.mask
  border : s'.border = s.border
  boxSize : s'.boxSize = s.boxSize
  dataList : s'.dataList = s.dataList

theorem compile_error_of_blank {cfg : Cfg} {segs : List Seg} (h : ∀ v, chooseVersion cfg segs = .ok v → ∃ e, blank v = .error e) :
    ∃ e, compile cfg segs = .error e := by
  rw [compile_eq]
  cases hv : chooseVersion cfg segs with
  | error e => exact ⟨e, rfl⟩
  | ok v =>
    obtain ⟨e, hb⟩ := h v hv
    simp only [R.bind_ok]
    cases createData v cfg.level segs with
    | error e => exact ⟨e, rfl⟩
    | ok data =>
      simp only [R.bind_ok]
      cases maskChoice cfg.mask v cfg.level data with
      | error e => exact ⟨e, rfl⟩
      | ok m => exact ⟨e, by simp only [R.bind_ok, makeImpl_error_of_blank hb, R.bind_error]⟩

theorem compile_ok_of {cfg : Cfg} {segs : List Seg} {v : Nat} {data : List Nat} {m : Nat} {mat : Mat}
    (hv : chooseVersion cfg segs = .ok v) (hd : createData v cfg.level segs = .ok data)
    (hm : maskChoice cfg.mask v cfg.level data = .ok m) (hmk : makeImpl v cfg.level false m data = .ok mat) :
    compile cfg segs = .ok (v, m, mat) := by
  rw [compile_eq, hv, R.bind_ok, hd, R.bind_ok, hm, R.bind_ok, hmk]; rfl

theorem compile_error_of {cfg : Cfg} {segs : List Seg} {v : Nat} {e : Err}
    (hv : chooseVersion cfg segs = .ok v) (hce : CompileErr v cfg.level cfg.mask segs e) :
    compile cfg segs = .error e := by
  rw [compile_eq, hv, R.bind_ok]
  rcases hce with hce | ⟨data, hce, hce2 | ⟨m, hce2, hce3⟩⟩
  · rw [hce, R.bind_error]
  · rw [hce, R.bind_ok, hce2, R.bind_error]
  · rw [hce, R.bind_ok, hce2, R.bind_ok, hce3, R.bind_error]

theorem makeS_ok {fit : Bool} {g g' : Global} {s s' : QRState} (hg : GInv g)
    (h : makeS fit (g, s) = ((g', s'), .ok ())) :
    GInv g' ∧ SameButVersion s s' ∧ 1 ≤ s'.version ∧ s'.version ≤ 40 ∧
      s'.modulesCount = s'.version * 4 + 17 ∧ s'.dataCache.isSome = true ∧
      ∃ m, compile (cfgOf s fit) s.dataList = .ok (s'.version, m, s'.modules) := by
  rw [makeS_eq] at h
  obtain ⟨h1, v', h2, _, h4⟩ := versionStage_spec fit { s with dataCache := none }
  cases hr : (versionStage fit { s with dataCache := none }).2 with
  | error e1 => simp only [hr] at h; injection h with _ h; cases h
  | ok v =>
    obtain ⟨h5, h6, _⟩ := h4 v hr
    subst h5
    simp only [hr, h2] at h
    obtain ⟨a1, a2, a3, a4, data, m, a5, a6, a7⟩ := (maskStage_spec g _ hg rfl).1 g' s' h
    dsimp only at a2 a3 a5 a6 a7
    have hv : s'.version = v' := a2.version
    obtain ⟨b, hb⟩ : ∃ b, blank v' = .ok b := by
      rw [makeImpl_eq] at a7
      cases hb : blank v' with
      | ok b => exact ⟨b, rfl⟩
      | error e => rw [hb] at a7; cases a7
    refine ⟨a1, ⟨a2.level, a2.mask, a2.border, a2.boxSize, a2.dataList⟩, by omega, by rw [hv]; exact le_of_blank_ok hb,
      by rw [a3, hv], a4, m, ?_⟩
    have hcv : chooseVersion (cfgOf s fit) s.dataList = .ok v' := by rw [← hr, h1]; rfl
    rw [hv]
    exact compile_ok_of hcv a5 a6 a7

theorem makeS_error {fit : Bool} {g g' : Global} {s s' : QRState} {e : Err} (hg : GInv g)
    (h : makeS fit (g, s) = ((g', s'), .error e)) :
    GInv g' ∧ SameButVersion s s' ∧ (s'.version = s.version ∨ (1 ≤ s'.version ∧ s'.version ≤ 40)) ∧
      (∃ e', compile (cfgOf s fit) s.dataList = .error e') ∧
      (s.version ≤ 40 → compile (cfgOf s fit) s.dataList = .error e) := by
  rw [makeS_eq] at h
  obtain ⟨h1, v', h2, h3, h4⟩ := versionStage_spec fit { s with dataCache := none }
  have h1' : (versionStage fit { s with dataCache := none }).2 = chooseVersion (cfgOf s fit) s.dataList := h1
  cases hr : (versionStage fit { s with dataCache := none }).2 with
  | error e1 =>
    simp only [hr, h2] at h
    injection h with k1 k2; injection k1 with k1 k3; injection k2 with k2; subst k1; subst k3; subst k2
    have hc : compile (cfgOf s fit) s.dataList = .error e1 := by
      rw [compile_eq, ← h1', hr, R.bind_error]
    exact ⟨hg, ⟨rfl, rfl, rfl, rfl, rfl⟩, h3, ⟨e1, hc⟩, fun _ => hc⟩
  | ok v =>
    obtain ⟨h5, h6, h7⟩ := h4 v hr
    subst h5
    simp only [hr, h2] at h
    obtain ⟨a1, a2, a3⟩ := (maskStage_spec g _ hg rfl).2 g' s' e h
    dsimp only at a2 a3
    have hv : s'.version = v' := a2.version
    have hcv : chooseVersion (cfgOf s fit) s.dataList = .ok v' := by rw [← hr, h1']
    have hcomp : CompileErr v' s.level s.mask s.dataList e → compile (cfgOf s fit) s.dataList = .error e :=
      fun hce => compile_error_of hcv hce
    refine ⟨a1, ⟨a2.level, a2.mask, a2.border, a2.boxSize, a2.dataList⟩, ?_, ?_, ?_⟩
    · rw [hv]; exact h3
    · rcases a3 with a3 | a3
      · exact compile_error_of_blank (fun w hw => by
          rw [hcv] at hw; injection hw with hw; subst hw; exact ⟨e, a3⟩)
      · exact ⟨e, hcomp a3⟩
    · intro hle
      rcases a3 with a3 | a3
      · have : v' ≤ 40 := by
          rcases h7 with h7 | h7
          · rw [h7]; exact hle
          · exact h7
        obtain ⟨b, hb⟩ := blank_ok_of_le this
        rw [hb] at a3; cases a3
      · exact hcomp a3

/-- **B4** in one statement -/
def MakeAgrees (fit : Bool) (g : Global) (s : QRState) : Prop :=
  match makeS fit (g, s) with
  | ((g', s'), .ok ()) => GInv g' ∧ ∃ m, compile (cfgOf s fit) s.dataList = .ok (s'.version, m, s'.modules)
  | ((g', _), .error e) => GInv g' ∧ compile (cfgOf s fit) s.dataList = .error e

theorem makeS_agrees (fit : Bool) (g : Global) (s : QRState) (hg : GInv g) (hv : s.version ≤ 40) :
    MakeAgrees fit g s := by
  unfold MakeAgrees
  cases h : makeS fit (g, s) with
  | mk st r =>
    obtain ⟨g', s'⟩ := st
    cases r with
    | ok u =>
      obtain ⟨a1, _, _, _, _, _, a2⟩ := makeS_ok hg h
      exact ⟨a1, a2⟩
    | error e =>
      obtain ⟨a1, _, _, _, a2⟩ := makeS_error hg h
      exact ⟨a1, a2 hv⟩

/-! ### the per-object cache and `modules_count` -/

/-- a filled data cache was filled by a `makeImpl` at the current version, whose blank exists -/
def CacheOK (s : QRState) : Prop :=
  s.dataCache.isSome = true → s.modulesCount = s.version * 4 + 17 ∧ ∃ b, blank s.version = .ok b

theorem blank_ok_of_makeImpl {v l : Nat} {t : Bool} {m : Nat} {d : List Nat} {mat : Mat}
    (h : makeImpl v l t m d = .ok mat) : ∃ b, blank v = .ok b := by
  rw [makeImpl_eq] at h
  cases hb : blank v with
  | ok b => exact ⟨b, rfl⟩
  | error e => rw [hb] at h; cases h

theorem makeImplS_pres {test : Bool} {mask : Nat} {g g' : Global} {s s' : QRState} {r : R Unit} (hg : GInv g)
    (h : makeImplS test mask (g, s) = ((g', s'), r)) : GInv g' ∧ Same s s' ∧ (CacheOK s → CacheOK s') := by
  cases r with
  | ok u =>
    obtain ⟨a1, a2, a3, _, data, _, a6, a7⟩ := makeImplS_ok hg h
    refine ⟨a1, a2, fun _ _ => ?_⟩
    rw [a2.version]
    exact ⟨a3, blank_ok_of_makeImpl a7⟩
  | error e =>
    obtain ⟨a1, a2, a3, a4⟩ := makeImplS_error hg h
    refine ⟨a1, a2, fun hc hsome => ?_⟩
    rw [a2.version]
    rcases a4 with ⟨hb, hcache⟩ | ⟨b, hb, ⟨_, _, hnone⟩ | _⟩
    · rw [hcache] at hsome
      obtain ⟨_, b, hb'⟩ := hc hsome
      rw [hb] at hb'; cases hb'
    · rw [hnone] at hsome; cases hsome
    · exact ⟨a3, b, hb⟩

theorem bestMaskS_go_pres (is : List Nat) {g g' : Global} {s s' : QRState} {acc : Nat × Nat} {r : R Nat}
    (hg : GInv g) (h : bestMaskS.go is (g, s) acc = ((g', s'), r)) :
    GInv g' ∧ Same s s' ∧ (CacheOK s → CacheOK s') := by
  induction is generalizing g s acc with
  | nil =>
    simp only [bestMaskS.go] at h
    injection h with h1 h2; injection h1 with h1 h3; subst h1; subst h3
    exact ⟨hg, Same.rfl' _, id⟩
  | cons i is ih =>
    cases hm : makeImplS true i (g, s) with
    | mk st1 r1 =>
      obtain ⟨g1, s1⟩ := st1
      obtain ⟨a1, a2, a3⟩ := makeImplS_pres hg hm
      cases r1 with
      | error e =>
        simp only [bestMaskS.go, hm] at h
        injection h with h1 h2; injection h1 with h1 h3; subst h1; subst h3
        exact ⟨a1, a2, a3⟩
      | ok u =>
        simp only [bestMaskS.go, hm] at h
        obtain ⟨b1, b2, b3⟩ := ih a1 h
        exact ⟨b1, a2.trans b2, fun hc => b3 (a3 hc)⟩

theorem maskStage_pres {g g' : Global} {s s' : QRState} {r : R Unit} (hg : GInv g)
    (h : maskStage g s = ((g', s'), r)) : GInv g' ∧ Same s s' ∧ (CacheOK s → CacheOK s') := by
  unfold maskStage at h
  cases hmask : s.mask with
  | some m0 => rw [hmask] at h; exact makeImplS_pres hg h
  | none =>
    rw [hmask] at h
    dsimp only at h
    cases hbm : bestMaskS (g, s) with
    | mk st1 r1 =>
      obtain ⟨g1, s1⟩ := st1
      obtain ⟨a1, a2, a3⟩ := bestMaskS_go_pres _ hg hbm
      cases r1 with
      | error e =>
        simp only [hbm] at h
        injection h with h1 h2; injection h1 with h1 h3; subst h1; subst h3
        exact ⟨a1, a2, a3⟩
      | ok m =>
        simp only [hbm] at h
        obtain ⟨b1, b2, b3⟩ := makeImplS_pres a1 h
        exact ⟨b1, a2.trans b2, fun hc => b3 (a3 hc)⟩

/-- what `make` does to the state, whatever its outcome -/
theorem makeS_pres {fit : Bool} {g g' : Global} {s s' : QRState} {r : R Unit} (hg : GInv g)
    (h : makeS fit (g, s) = ((g', s'), r)) :
    GInv g' ∧ SameButVersion s s' ∧ (s'.version = s.version ∨ (1 ≤ s'.version ∧ s'.version ≤ 40)) ∧
      (s'.dataCache.isSome = true →
        1 ≤ s'.version ∧ s'.version ≤ 40 ∧ s'.modulesCount = s'.version * 4 + 17) ∧
      (r = .ok () → s'.dataCache.isSome = true) := by
  have h0 := h
  rw [makeS_eq] at h
  obtain ⟨_, v', h2, h3, h4⟩ := versionStage_spec fit { s with dataCache := none }
  cases hr : (versionStage fit { s with dataCache := none }).2 with
  | error e1 =>
    simp only [hr, h2] at h
    injection h with k1 k2; injection k1 with k1 k3; subst k1; subst k3; subst k2
    refine ⟨hg, ⟨rfl, rfl, rfl, rfl, rfl⟩, h3, ?_, ?_⟩
    · intro hs; cases hs
    · intro hr; cases hr
  | ok v =>
    obtain ⟨h5, h6, _⟩ := h4 v hr
    subst h5
    simp only [hr, h2] at h
    obtain ⟨a1, a2, a3⟩ := maskStage_pres hg h
    have hv : s'.version = v' := a2.version
    have hc : CacheOK s' := a3 (fun hs => by cases hs)
    refine ⟨a1, ⟨a2.level, a2.mask, a2.border, a2.boxSize, a2.dataList⟩, by rw [hv]; exact h3, ?_, ?_⟩
    · intro hs
      obtain ⟨c1, b, c2⟩ := hc hs
      exact ⟨by omega, le_of_blank_ok c2, c1⟩
    · intro hr
      subst hr
      exact (makeS_ok hg h0).2.2.2.2.2.1

/-! ### B5: every operation preserves the invariants -/

/-- the settings a state may hold (`Props.SettingsOK`) -/
def SettingsInv (s : QRState) : Prop := s.version ≤ 40 ∧ (∀ m, s.mask = some m → m ≤ 7)

/-- a filled data cache goes with a matrix size of a real version -/
def CacheInv (s : QRState) : Prop :=
  s.dataCache.isSome = true → ∃ v, 1 ≤ v ∧ v ≤ 40 ∧ s.modulesCount = v * 4 + 17

/-- the mask setting is in range -/
def MaskOK (s : QRState) : Prop := ∀ m, s.mask = some m → m ≤ 7

theorem MaskOK.of_eq {s s' : QRState} (h : s'.mask = s.mask) : MaskOK s → MaskOK s' := by
  intro hm m; rw [h]; exact hm m

theorem makeS_inv {fit : Bool} {g g' : Global} {s s' : QRState} {r : R Unit} (hg : GInv g)
    (h : makeS fit (g, s) = ((g', s'), r)) :
    GInv g' ∧ (s.version ≤ 40 → s'.version ≤ 40) ∧ s'.mask = s.mask ∧ CacheInv s' := by
  obtain ⟨a1, a2, a3, a4, _⟩ := makeS_pres hg h
  refine ⟨a1, ?_, a2.mask, ?_⟩
  · intro hv
    rcases a3 with a3 | a3
    · rw [a3]; exact hv
    · exact a3.2
  · intro hsome
    obtain ⟨b1, b2, b3⟩ := a4 hsome
    exact ⟨_, b1, b2, b3⟩

theorem makeS_ginv (fit : Bool) (g : Global) (s : QRState) (hg : GInv g) : GInv (makeS fit (g, s)).1.1 :=
  (makeS_pres (g' := (makeS fit (g, s)).1.1) (s' := (makeS fit (g, s)).1.2) (r := (makeS fit (g, s)).2) hg rfl).1

theorem ensureMade_inv {g g' : Global} {s s' : QRState} {r : R Unit} (hg : GInv g)
    (h : ensureMade (g, s) = ((g', s'), r)) :
    GInv g' ∧ (s.version ≤ 40 → s'.version ≤ 40) ∧ (CacheInv s → CacheInv s') ∧ SameButVersion s s' ∧
      (r = .ok () → s'.dataCache.isSome = true ∧ (s.dataCache = none ∨ s.version ≠ 0 → 1 ≤ s'.version)) := by
  unfold ensureMade at h
  cases hdc : s.dataCache with
  | some d =>
    simp only [hdc] at h
    injection h with h1 h2; injection h1 with h1 h3; subst h1; subst h3
    refine ⟨hg, id, id, ⟨rfl, rfl, rfl, rfl, rfl⟩, fun _ => ⟨by rw [hdc]; rfl, fun hn => ?_⟩⟩
    rcases hn with hn | hn
    · cases hn
    · omega
  | none =>
    simp only [hdc] at h
    obtain ⟨a1, a2, _, a3⟩ := makeS_inv hg h
    obtain ⟨_, b2, _, b4, b5⟩ := makeS_pres hg h
    exact ⟨a1, a2, fun _ => a3, b2, fun hr => ⟨b5 hr, fun _ => (b4 (b5 hr)).1⟩⟩

theorem checkVersion_ok {v : Int} {u : Unit} (h : checkVersion v = .ok u) : 1 ≤ v ∧ v ≤ 40 := by
  unfold checkVersion at h
  split at h
  · cases h
  · omega

theorem checkMaskPattern_ok {x : Option Int} {u : Unit} (h : checkMaskPattern x = .ok u) :
    ∀ m, x.map Int.toNat = some m → m ≤ 7 := by
  intro m hm
  cases x with
  | none => cases hm
  | some k =>
    simp only [checkMaskPattern] at h
    split at h
    · cases h
    · simp only [Option.map_some, Option.some.injEq] at hm
      omega

/-- **B5**: every operation preserves the blank-cache invariant, `version ≤ 40`, `mask ≤ 7` and the object-cache
    invariant (each on its own) -/
theorem step_inv (g : Global) (s : QRState) (op : Op) (hg : GInv g) :
    GInv (step (g, s) op).1.1 ∧ (s.version ≤ 40 → (step (g, s) op).1.2.version ≤ 40) ∧
      (MaskOK s → MaskOK (step (g, s) op).1.2) ∧ (CacheInv s → CacheInv (step (g, s) op).1.2) := by
  have hnone : ∀ s' : QRState, s'.dataCache = none → CacheInv s' := fun s' h hsome => by
    rw [h] at hsome; cases hsome
  cases op with
  | addData d n => exact ⟨hg, id, id, fun _ => hnone _ rfl⟩
  | addSeg x => exact ⟨hg, id, id, fun _ => hnone _ rfl⟩
  | clear => exact ⟨hg, id, id, fun _ => hnone _ rfl⟩
  | make fit =>
    cases h : makeS fit (g, s) with
    | mk st r =>
      obtain ⟨g', s'⟩ := st
      obtain ⟨a1, a2, a3, a4⟩ := makeS_inv hg h
      cases r <;> simp only [step, h] <;> exact ⟨a1, a2, MaskOK.of_eq a3, fun _ => a4⟩
  | setVersion x =>
    cases x with
    | none => exact ⟨hg, fun _ => Nat.zero_le _, id, id⟩
    | some v =>
      cases hc : checkVersion v with
      | error e => simp only [step, hc]; exact ⟨hg, id, id, id⟩
      | ok u =>
        simp only [step, hc]
        have := checkVersion_ok hc
        exact ⟨hg, fun _ => by show v.toNat ≤ 40; omega, id, id⟩
  | setLevel l => exact ⟨hg, id, id, id⟩
  | setMask x =>
    cases hc : checkMaskPattern x with
    | error e => simp only [step, hc]; exact ⟨hg, id, id, id⟩
    | ok u =>
      simp only [step, hc]
      exact ⟨hg, id, fun _ => checkMaskPattern_ok hc, id⟩
  | setBorder x =>
    cases hc : checkBorder x with
    | error e => simp only [step, hc]; exact ⟨hg, id, id, id⟩
    | ok u => simp only [step, hc]; exact ⟨hg, id, id, id⟩
  | setBoxSize x => exact ⟨hg, id, id, id⟩
  | getMatrix =>
    cases h : ensureMade (g, s) with
    | mk st r =>
      obtain ⟨g', s'⟩ := st
      obtain ⟨a1, a2, a3, a4, _⟩ := ensureMade_inv hg h
      cases r <;> simp only [step, h] <;> exact ⟨a1, a2, MaskOK.of_eq a4.mask, a3⟩
  | mutateModules r c x => exact ⟨hg, id, id, id⟩
  | makeImage =>
    cases hc : checkBoxSize s.boxSize with
    | error e => simp only [step, hc]; exact ⟨hg, id, id, id⟩
    | ok u =>
      cases h : ensureMade (g, s) with
      | mk st r =>
        obtain ⟨g', s'⟩ := st
        obtain ⟨a1, a2, a3, a4, _⟩ := ensureMade_inv hg h
        cases r <;> simp only [step, hc, h] <;> exact ⟨a1, a2, MaskOK.of_eq a4.mask, a3⟩
  | printAscii =>
    cases h : ensureMade (g, s) with
    | mk st r =>
      obtain ⟨g', s'⟩ := st
      obtain ⟨a1, a2, a3, a4, _⟩ := ensureMade_inv hg h
      cases r <;> simp only [step, h] <;> exact ⟨a1, a2, MaskOK.of_eq a4.mask, a3⟩
  | printTty =>
    cases h : ensureMade (g, s) with
    | mk st r =>
      obtain ⟨g', s'⟩ := st
      obtain ⟨a1, a2, a3, a4, _⟩ := ensureMade_inv hg h
      cases r <;> simp only [step, h] <;> exact ⟨a1, a2, MaskOK.of_eq a4.mask, a3⟩
  | otherCompile cfg segs =>
    simp only [step]
    exact ⟨makeS_ginv _ g _ hg, id, id, id⟩

/-! ### `run` -/

theorem run_nil (st : St) : run st [] = (st, []) := rfl

private theorem run_foldl_acc (ops : List Op) (st : St) (outs : List Out) :
    ops.foldl (fun (acc : St × List Out) op => let (st', o) := step acc.1 op; (st', acc.2 ++ [o])) (st, outs) =
      ((run st ops).1, outs ++ (run st ops).2) := by
  induction ops generalizing st outs with
  | nil => simp [run]
  | cons op ops ih =>
    simp only [run, List.foldl_cons]
    rw [ih, ih (outs := [] ++ _)]
    simp only [List.nil_append, List.append_assoc]

theorem run_cons (st : St) (op : Op) (ops : List Op) :
    run st (op :: ops) = ((run (step st op).1 ops).1, (step st op).2 :: (run (step st op).1 ops).2) := by
  have := run_foldl_acc ops (step st op).1 [(step st op).2]
  simp only [run, List.foldl_cons, List.nil_append] at this ⊢
  exact this

theorem run_inv (ops : List Op) (g : Global) (s : QRState) (hg : GInv g) :
    GInv (run (g, s) ops).1.1 ∧ (s.version ≤ 40 → (run (g, s) ops).1.2.version ≤ 40) ∧
      (MaskOK s → MaskOK (run (g, s) ops).1.2) ∧ (CacheInv s → CacheInv (run (g, s) ops).1.2) := by
  induction ops generalizing g s with
  | nil => exact ⟨hg, id, id, id⟩
  | cons op ops ih =>
    rw [run_cons]
    obtain ⟨a1, a2, a3, a4⟩ := step_inv g s op hg
    obtain ⟨b1, b2, b3, b4⟩ := ih _ _ a1
    exact ⟨b1, fun h => b2 (a2 h), fun h => b3 (a3 h), fun h => b4 (a4 h)⟩

theorem construct_inv {version : Option Int} {level : Nat} {box border : Int} {mask : Option Int} {s0 : QRState}
    (h : construct version level box border mask = .ok s0) :
    SettingsInv s0 ∧ CacheInv s0 ∧ 0 < s0.boxSize := by
  unfold construct at h
  cases hb : checkBoxSize box with
  | error e => rw [hb] at h; cases h
  | ok u1 =>
    rw [hb, R.bind_ok] at h
    cases hbo : checkBorder border with
    | error e => rw [hbo] at h; cases h
    | ok u2 =>
      rw [hbo, R.bind_ok] at h
      have hbox : 0 < box := by
        unfold checkBoxSize at hb
        split at hb
        · cases hb
        · omega
      cases hm : checkMaskPattern mask with
      | error e =>
        cases version with
        | none => simp only [hm, R.pure_eq, R.bind_ok, R.bind_error] at h; cases h
        | some v =>
          cases hv : checkVersion v with
          | error e => simp only [hv, R.bind_error] at h; cases h
          | ok u3 => simp only [hv, hm, R.bind_ok, R.bind_error] at h; cases h
      | ok u4 =>
        have hmask := checkMaskPattern_ok hm
        cases version with
        | none =>
          simp only [hm, R.pure_eq, R.bind_ok] at h
          injection h with h; subst h
          exact ⟨⟨Nat.zero_le _, hmask⟩, (fun hs => by cases hs), hbox⟩
        | some v =>
          cases hv : checkVersion v with
          | error e => simp only [hv, R.bind_error] at h; cases h
          | ok u3 =>
            simp only [hv, hm, R.bind_ok, R.pure_eq] at h
            injection h with h; subst h
            have := checkVersion_ok hv
            exact ⟨⟨by show (Option.getD (some v) 0).toNat ≤ 40; simp only [Option.getD_some]; omega, hmask⟩,
              (fun hs => by cases hs), hbox⟩

/-! ### B4 after any history (C11) -/

/-- B4 without any hypothesis on the settings: only the error *class* may differ, and only for `version > 40` -/
def MakeAgreesWeak (fit : Bool) (g : Global) (s : QRState) : Prop :=
  match makeS fit (g, s) with
  | ((g', s'), .ok ()) => GInv g' ∧ ∃ m, compile (cfgOf s fit) s.dataList = .ok (s'.version, m, s'.modules)
  | ((g', _), .error e) => GInv g' ∧ (∃ e', compile (cfgOf s fit) s.dataList = .error e') ∧
      (s.version ≤ 40 → compile (cfgOf s fit) s.dataList = .error e)

theorem makeS_agrees_weak (fit : Bool) (g : Global) (s : QRState) (hg : GInv g) : MakeAgreesWeak fit g s := by
  unfold MakeAgreesWeak
  cases h : makeS fit (g, s) with
  | mk st r =>
    obtain ⟨g', s'⟩ := st
    cases r with
    | ok u =>
      obtain ⟨a1, _, _, _, _, _, a2⟩ := makeS_ok hg h
      exact ⟨a1, a2⟩
    | error e =>
      obtain ⟨a1, _, _, a2, a3⟩ := makeS_error hg h
      exact ⟨a1, a2, a3⟩

theorem history_free (ops : List Op) (g0 : Global) (hg : GInv g0) (s0 : QRState) (hv : s0.version ≤ 40) (fit : Bool) :
    GInv (run (g0, s0) ops).1.1 ∧ MakeAgrees fit (run (g0, s0) ops).1.1 (run (g0, s0) ops).1.2 := by
  obtain ⟨a1, a2, _⟩ := run_inv ops g0 s0 hg
  exact ⟨a1, makeS_agrees fit _ _ a1 (a2 hv)⟩

/-- ... and from ANY state: the outcome is that of the cache-free compile, up to the error class when `version > 40` -/
theorem history_free_weak (ops : List Op) (g0 : Global) (hg : GInv g0) (s0 : QRState) (fit : Bool) :
    GInv (run (g0, s0) ops).1.1 ∧ MakeAgreesWeak fit (run (g0, s0) ops).1.1 (run (g0, s0) ops).1.2 := by
  obtain ⟨a1, _⟩ := run_inv ops g0 s0 hg
  exact ⟨a1, makeS_agrees_weak fit _ _ a1⟩

/-! ### B6: what is produced, and under which settings (C18) -/

/-- the state in which something was handed out -/
def Produced (s : QRState) : Prop :=
  s.version ≤ 40 ∧ (∀ m, s.mask = some m → m ≤ 7) ∧ s.dataCache.isSome = true ∧
    ∃ v, 1 ≤ v ∧ v ≤ 40 ∧ s.modulesCount = v * 4 + 17

/-- an output `o` of an operation that took the object from `pre` to `post` -/
def OutOK (pre post : QRState) (o : Out) : Prop :=
  match o with
  | .matrix m => Produced post ∧ (pre.dataCache = none ∨ pre.version ≠ 0 → 1 ≤ post.version) ∧
      m = framedOpt post.modules.toLists post.border
  | .image b n bs m => Produced post ∧ (pre.dataCache = none ∨ pre.version ≠ 0 → 1 ≤ post.version) ∧
      0 < post.boxSize ∧ b = post.border ∧ n = post.modulesCount ∧ bs = post.boxSize ∧ m = post.modules.toLists
  | .text b m => Produced post ∧ (pre.dataCache = none ∨ pre.version ≠ 0 → 1 ≤ post.version) ∧
      (b = post.border ∨ b = 1) ∧ m = post.modules.toLists
  | _ => True

theorem ensureMade_produced {g g' : Global} {s s' : QRState} {u : Unit} (hg : GInv g) (hs : SettingsInv s)
    (hc : CacheInv s) (h : ensureMade (g, s) = ((g', s'), .ok u)) :
    Produced s' ∧ (s.dataCache = none ∨ s.version ≠ 0 → 1 ≤ s'.version) ∧ s'.boxSize = s.boxSize := by
  obtain ⟨_, a2, a3, a4, a5⟩ := ensureMade_inv hg h
  obtain ⟨b1, b2⟩ := a5 rfl
  exact ⟨⟨a2 hs.1, MaskOK.of_eq a4.mask hs.2, b1, a3 hc b1⟩, b2, a4.boxSize⟩

theorem step_out (g : Global) (s : QRState) (op : Op) (hg : GInv g) (hs : SettingsInv s) (hc : CacheInv s) :
    OutOK s (step (g, s) op).1.2 (step (g, s) op).2 := by
  cases op with
  | addData d n => trivial
  | addSeg x => trivial
  | clear => trivial
  | make fit =>
    cases h : makeS fit (g, s) with
    | mk st r => cases r <;> simp only [step, h] <;> trivial
  | setVersion x =>
    cases x with
    | none => trivial
    | some v => cases hc : checkVersion v <;> simp only [step, hc] <;> trivial
  | setLevel l => trivial
  | setMask x => cases hc : checkMaskPattern x <;> simp only [step, hc] <;> trivial
  | setBorder x => cases hc : checkBorder x <;> simp only [step, hc] <;> trivial
  | setBoxSize x => trivial
  | getMatrix =>
    cases h : ensureMade (g, s) with
    | mk st r =>
      obtain ⟨g', s'⟩ := st
      cases r with
      | error e => simp only [step, h]; trivial
      | ok u =>
        obtain ⟨a1, a2, _⟩ := ensureMade_produced hg hs hc h
        simp only [step, h]
        exact ⟨a1, a2, rfl⟩
  | mutateModules r c x => trivial
  | makeImage =>
    cases hb : checkBoxSize s.boxSize with
    | error e => simp only [step, hb]; trivial
    | ok u0 =>
      have hbox : 0 < s.boxSize := by
        unfold checkBoxSize at hb
        split at hb
        · cases hb
        · omega
      cases h : ensureMade (g, s) with
      | mk st r =>
        obtain ⟨g', s'⟩ := st
        cases r with
        | error e => simp only [step, hb, h]; trivial
        | ok u =>
          obtain ⟨a1, a2, a3⟩ := ensureMade_produced hg hs hc h
          simp only [step, hb, h]
          exact ⟨a1, a2, by rw [a3]; exact hbox, rfl, rfl, rfl, rfl⟩
  | printAscii =>
    cases h : ensureMade (g, s) with
    | mk st r =>
      obtain ⟨g', s'⟩ := st
      cases r with
      | error e => simp only [step, h]; trivial
      | ok u =>
        obtain ⟨a1, a2, _⟩ := ensureMade_produced hg hs hc h
        simp only [step, h]
        exact ⟨a1, a2, Or.inl rfl, rfl⟩
  | printTty =>
    cases h : ensureMade (g, s) with
    | mk st r =>
      obtain ⟨g', s'⟩ := st
      cases r with
      | error e => simp only [step, h]; trivial
      | ok u =>
        obtain ⟨a1, a2, _⟩ := ensureMade_produced hg hs hc h
        simp only [step, h]
        exact ⟨a1, a2, Or.inr rfl, rfl⟩
  | otherCompile cfg segs => trivial

/-- every output of a run was handed out in a `Produced` state -/
theorem run_out (ops : List Op) (g0 : Global) (s0 : QRState) (hg : GInv g0) (hs : SettingsInv s0) (hc : CacheInv s0)
    (k : Nat) (o : Out) (h : (run (g0, s0) ops).2[k]? = some o) :
    OutOK (run (g0, s0) (ops.take k)).1.2 (run (g0, s0) (ops.take (k + 1))).1.2 o := by
  induction ops generalizing g0 s0 k with
  | nil => simp [run_nil] at h
  | cons op ops ih =>
    rw [run_cons] at h
    cases k with
    | zero =>
      simp only [List.getElem?_cons_zero, Option.some.injEq] at h
      subst h
      simp only [List.take_zero, run_nil, Nat.zero_add, List.take_succ_cons, run_cons]
      exact step_out g0 s0 op hg hs hc
    | succ k =>
      simp only [List.getElem?_cons_succ] at h
      obtain ⟨a1, a2, a3, a4⟩ := step_inv g0 s0 op hg
      simp only [List.take_succ_cons, run_cons]
      exact ih _ _ a1 ⟨a2 hs.1, a3 hs.2⟩ (a4 hc) k h

end QR
