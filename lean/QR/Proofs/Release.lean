import QR.Model.Release
import QR.Spec.Release
/-
Proofs for property C20 (the manual-page release hook, qrcode/release.py).
-/
namespace QR.Proofs.Release
open QR QR.Model QR.Spec

/-! ### generic list lemmas -/

theorem span_loop_eq {α} (p : α → Bool) (l acc : List α) :
    List.span.loop p l acc = (acc.reverse ++ l.takeWhile p, l.dropWhile p) := by
  induction l generalizing acc with
  | nil => simp [List.span.loop]
  | cons a l ih =>
    cases h : p a <;> simp [List.span.loop, h, ih]

theorem span_eq {α} (p : α → Bool) (l : List α) : l.span p = (l.takeWhile p, l.dropWhile p) := by
  simp [List.span, span_loop_eq]

/-- a list either avoids `x`, or splits at the first occurrence of `x` -/
theorem split_first (x : Char) (s : List Char) :
    (s.takeWhile (· ≠ x) = s ∧ s.dropWhile (· ≠ x) = [] ∧ ∀ c ∈ s, c ≠ x) ∨
    ∃ t r, s = t ++ x :: r ∧ (∀ c ∈ t, c ≠ x) ∧ s.takeWhile (· ≠ x) = t ∧ s.dropWhile (· ≠ x) = x :: r := by
  induction s with
  | nil => simp
  | cons a s ih =>
    by_cases ha : a = x
    · right; refine ⟨[], s, by simp [ha], by simp, ?_, ?_⟩ <;> simp [ha]
    · rcases ih with ⟨h1, h2, h3⟩ | ⟨t, r, h1, h2, h3, h4⟩
      · left
        refine ⟨by rw [List.takeWhile_cons_of_pos (by simpa using ha), h1],
          by rw [List.dropWhile_cons_of_pos (by simpa using ha), h2], ?_⟩
        intro c hc
        rcases List.mem_cons.1 hc with rfl | hc
        · exact ha
        · exact h3 c hc
      · right
        refine ⟨a :: t, r, by simp [h1], ?_, by rw [List.takeWhile_cons_of_pos (by simpa using ha), h3],
          by rw [List.dropWhile_cons_of_pos (by simpa using ha), h4]⟩
        intro c hc
        rcases List.mem_cons.1 hc with rfl | hc
        · exact ha
        · exact h2 c hc

theorem takeWhile_split (x : Char) (t r : List Char) (ht : ∀ c ∈ t, c ≠ x) :
    (t ++ x :: r).takeWhile (· ≠ x) = t := by
  rw [List.takeWhile_append_of_pos (by simpa using ht)]
  simp

theorem dropWhile_split (x : Char) (t r : List Char) (ht : ∀ c ∈ t, c ≠ x) :
    (t ++ x :: r).dropWhile (· ≠ x) = x :: r := by
  rw [List.dropWhile_append_of_pos (by simpa using ht)]
  simp

theorem takeWhile_none (x : Char) (t : List Char) (ht : ∀ c ∈ t, c ≠ x) :
    t.takeWhile (· ≠ x) = t := by
  have := List.takeWhile_append_of_pos (p := (· ≠ x)) (l₁ := t) (l₂ := []) (by simpa using ht)
  simpa using this

theorem dropWhile_none (x : Char) (t : List Char) (ht : ∀ c ∈ t, c ≠ x) :
    t.dropWhile (· ≠ x) = [] := by
  have := List.dropWhile_append_of_pos (p := (· ≠ x)) (l₁ := t) (l₂ := []) (by simpa using ht)
  simpa using this


/-! ### `readlines()` -/

theorem readLines_eq_lineSplit (fuel : Nat) (s : List Char) : readLines fuel s = lineSplit fuel s := by
  induction fuel generalizing s with
  | zero => cases s <;> simp [readLines, lineSplit]
  | succ n ih =>
    cases s with
    | nil => simp [readLines, lineSplit]
    | cons a s =>
      simp only [readLines, lineSplit, span_eq]
      cases h : List.dropWhile (· ≠ '\n') (a :: s) <;> simp [ih]

theorem lineSplit_term (f : Nat) (b R : List Char) (hb : ∀ c ∈ b, c ≠ '\n') :
    lineSplit (f + 1) (b ++ '\n' :: R) = (b ++ ['\n']) :: lineSplit f R := by
  have h1 := takeWhile_split '\n' b R hb
  have h2 := dropWhile_split '\n' b R hb
  cases hs : b ++ '\n' :: R with
  | nil => simp at hs
  | cons a s =>
    rw [hs] at h1 h2
    simp only [lineSplit, span_eq, h1, h2]

theorem lineSplit_unterm (f : Nat) (l : List Char) (hl : ∀ c ∈ l, c ≠ '\n') (hne : l ≠ []) :
    lineSplit (f + 1) l = [l] := by
  have h1 := takeWhile_none '\n' l hl
  have h2 := dropWhile_none '\n' l hl
  cases l with
  | nil => simp at hne
  | cons a s => simp only [lineSplit, span_eq, h1, h2]

/-- a newline-terminated line: `b ++ "\n"` with `b` newline-free -/
def Term (l : List Char) : Prop := ∃ b, l = b ++ ['\n'] ∧ ∀ c ∈ b, c ≠ '\n'

/-- an unterminated (necessarily last) line: non-empty and newline-free -/
def Unterm (l : List Char) : Prop := l ≠ [] ∧ ∀ c ∈ l, c ≠ '\n'

/-- the shape of a `readlines()` result: every line but possibly the last is `b ++ "\n"` with `b` newline-free;
the last line may instead be a non-empty newline-free list -/
def Lines : List (List Char) → Prop
  | [] => True
  | l :: r => (Term l ∧ Lines r) ∨ (Unterm l ∧ r = [])

theorem lines_lineSplit (fuel : Nat) (s : List Char) : Lines (lineSplit fuel s) := by
  induction fuel generalizing s with
  | zero => cases s <;> simp [lineSplit, Lines]
  | succ n ih =>
    by_cases hs : s = []
    · subst hs; simp [lineSplit, Lines]
    · rcases split_first '\n' s with ⟨_, _, h3⟩ | ⟨t, r, h1, h2, _, _⟩
      · rw [lineSplit_unterm n s h3 hs]
        exact Or.inr ⟨⟨hs, h3⟩, rfl⟩
      · subst h1
        rw [lineSplit_term n t r h2]
        exact Or.inl ⟨⟨t, rfl, h2⟩, ih r⟩

theorem lineSplit_flatten (fuel : Nat) (s : List Char) (hf : s.length < fuel) :
    (lineSplit fuel s).flatten = s := by
  induction fuel generalizing s with
  | zero => omega
  | succ n ih =>
    by_cases hs : s = []
    · subst hs; simp [lineSplit]
    · rcases split_first '\n' s with ⟨_, _, h3⟩ | ⟨t, r, h1, h2, _, _⟩
      · rw [lineSplit_unterm n s h3 hs]; simp
      · subst h1
        rw [lineSplit_term n t r h2]
        have : r.length < n := by simp at hf; omega
        simp [ih r this]

/-- `readlines` is injective on its range: a list of the right shape is what `lineSplit` returns on its concatenation -/
theorem lineSplit_of_lines (L : List (List Char)) (hL : Lines L) (fuel : Nat) (hf : L.flatten.length < fuel) :
    lineSplit fuel L.flatten = L := by
  induction L generalizing fuel with
  | nil => cases fuel <;> simp [lineSplit]
  | cons l r ih =>
    cases fuel with
    | zero => omega
    | succ n =>
      rcases hL with ⟨⟨b, rfl, hb⟩, hr⟩ | ⟨⟨hne, hl⟩, rfl⟩
      · have : ((b ++ ['\n']) :: r).flatten = b ++ '\n' :: r.flatten := by simp
        rw [this, lineSplit_term n b _ hb, ih hr n (by rw [this] at hf; simp only [List.length_append, List.length_cons] at hf; omega)]
      · simp only [List.flatten_cons, List.flatten_nil, List.append_nil]
        exact lineSplit_unterm n l hl hne


/-! ### `re.split('"([^"]*)"', line)` and `'"'.join` -/

theorem reSplit_free (f : Nat) (s : List Char) (hs : ∀ c ∈ s, c ≠ '"') : reSplit (f + 1) s = [s] := by
  simp only [reSplit, takeWhile_none '"' s hs, dropWhile_none '"' s hs]

theorem reSplit_one (f : Nat) (t r : List Char) (ht : ∀ c ∈ t, c ≠ '"') (hr : ∀ c ∈ r, c ≠ '"') :
    reSplit (f + 1) (t ++ '"' :: r) = [t ++ '"' :: r] := by
  simp only [reSplit, dropWhile_split '"' t r ht, dropWhile_none '"' r hr]

theorem reSplit_two (f : Nat) (t q r : List Char) (ht : ∀ c ∈ t, c ≠ '"') (hq : ∀ c ∈ q, c ≠ '"') :
    reSplit (f + 1) (t ++ '"' :: (q ++ '"' :: r)) = t :: q :: reSplit f r := by
  simp only [reSplit, takeWhile_split '"' t _ ht, dropWhile_split '"' t _ ht,
    takeWhile_split '"' q r hq, dropWhile_split '"' q r hq]

theorem reSplit_ne_nil (f : Nat) (s : List Char) : reSplit f s ≠ [] := by
  cases f with
  | zero => simp [reSplit]
  | succ f =>
    rcases split_first '"' s with ⟨_, _, h⟩ | ⟨t, r, rfl, ht, _, _⟩
    · simp [reSplit_free f s h]
    · rcases split_first '"' r with ⟨_, _, h⟩ | ⟨q, r', rfl, hq, _, _⟩
      · simp [reSplit_one f t r ht h]
      · simp [reSplit_two f t q r' ht hq]

theorem joinQuote_cons (p : List Char) (rest : List (List Char)) (h : rest ≠ []) :
    joinQuote (p :: rest) = p ++ '"' :: joinQuote rest := by
  cases rest with
  | nil => exact absurd rfl h
  | cons a b => simp [joinQuote]

/-- `'"'.join(re.split('"([^"]*)"', line)) == line` (for every fuel) -/
theorem joinQuote_reSplit' (fuel : Nat) (line : List Char) : joinQuote (reSplit fuel line) = line := by
  induction fuel generalizing line with
  | zero => simp [reSplit, joinQuote]
  | succ f ih =>
    rcases split_first '"' line with ⟨_, _, h⟩ | ⟨t, r, rfl, ht, _, _⟩
    · simp [reSplit_free f line h, joinQuote]
    · rcases split_first '"' r with ⟨_, _, h⟩ | ⟨q, r', rfl, hq, _, _⟩
      · simp [reSplit_one f t r ht h, joinQuote]
      · rw [reSplit_two f t q r' ht hq, joinQuote_cons _ _ (by simp),
          joinQuote_cons _ _ (reSplit_ne_nil f r'), ih]

theorem joinQuote_reSplit (line : List Char) (fuel : Nat) (_hf : line.length < fuel) :
    joinQuote (reSplit fuel line) = line := joinQuote_reSplit' fuel line

/-! ### quote positions -/

/-- `quotePositions` with a start index -/
def qpFrom (l : List Char) (n : Nat) : List Nat :=
  ((l.zipIdx n).filter fun (ch, _) => ch == '"').map (·.2)

theorem quotePositions_eq (l : List Char) : quotePositions l = qpFrom l 0 := rfl

theorem qpFrom_nil (n : Nat) : qpFrom [] n = [] := rfl

theorem qpFrom_cons_quote (l : List Char) (n : Nat) : qpFrom ('"' :: l) n = n :: qpFrom l (n + 1) := by
  simp [qpFrom, List.zipIdx_cons]

theorem qpFrom_cons_other (c : Char) (l : List Char) (n : Nat) (hc : c ≠ '"') :
    qpFrom (c :: l) n = qpFrom l (n + 1) := by
  simp [qpFrom, List.zipIdx_cons, hc]

theorem qpFrom_append_free (t l : List Char) (n : Nat) (ht : ∀ c ∈ t, c ≠ '"') :
    qpFrom (t ++ l) n = qpFrom l (n + t.length) := by
  induction t generalizing n with
  | nil => simp
  | cons a t ih =>
    have ha : a ≠ '"' := ht a (by simp)
    have ht' : ∀ c ∈ t, c ≠ '"' := fun c hc => ht c (by simp [hc])
    rw [List.cons_append, qpFrom_cons_other _ _ _ ha, ih _ ht']
    simp only [List.length_cons]; congr 1; omega

theorem qpFrom_free (t : List Char) (n : Nat) (ht : ∀ c ∈ t, c ≠ '"') : qpFrom t n = [] := by
  have := qpFrom_append_free t [] n ht
  simpa [qpFrom_nil] using this

theorem qpFrom_split (t r : List Char) (n : Nat) (ht : ∀ c ∈ t, c ≠ '"') :
    qpFrom (t ++ '"' :: r) n = (n + t.length) :: qpFrom r (n + t.length + 1) := by
  rw [qpFrom_append_free t _ n ht, qpFrom_cons_quote]

/-- `re.split` produces at most (number of quotes + 1) parts -/
theorem reSplit_length_le (fuel : Nat) (s : List Char) (n : Nat) :
    (reSplit fuel s).length ≤ (qpFrom s n).length + 1 := by
  induction fuel generalizing s n with
  | zero => simp [reSplit]
  | succ f ih =>
    rcases split_first '"' s with ⟨_, _, h⟩ | ⟨t, r, rfl, ht, _, _⟩
    · simp [reSplit_free f s h]
    · rcases split_first '"' r with ⟨_, _, h⟩ | ⟨q, r', rfl, hq, _, _⟩
      · simp [reSplit_one f t r ht h]
      · rw [reSplit_two f t q r' ht hq, qpFrom_split t _ n ht, qpFrom_split q _ _ hq]
        have := ih r' (n + t.length + 1 + q.length + 1)
        simp only [List.length_cons]; omega


/-! ### header lines: at least four quotes -/

/-- `t0 "f0" t1 "f1" r` -/
def hdr (t0 f0 t1 f1 r : List Char) : List Char :=
  t0 ++ '"' :: (f0 ++ '"' :: (t1 ++ '"' :: (f1 ++ '"' :: r)))

theorem header_decomp (l : List Char) (n : Nat) (h : 4 ≤ (qpFrom l n).length) :
    ∃ t0 f0 t1 f1 r, l = hdr t0 f0 t1 f1 r ∧ (∀ c ∈ t0, c ≠ '"') ∧ (∀ c ∈ f0, c ≠ '"') ∧
      (∀ c ∈ t1, c ≠ '"') ∧ (∀ c ∈ f1, c ≠ '"') := by
  rcases split_first '"' l with ⟨_, _, h0⟩ | ⟨t0, r0, rfl, ht0, _, _⟩
  · rw [qpFrom_free l n h0] at h; simp at h
  rw [qpFrom_split t0 r0 n ht0] at h
  rcases split_first '"' r0 with ⟨_, _, h0⟩ | ⟨f0, r1, rfl, hf0, _, _⟩
  · rw [qpFrom_free r0 _ h0] at h; simp at h
  rw [qpFrom_split f0 r1 _ hf0] at h
  rcases split_first '"' r1 with ⟨_, _, h0⟩ | ⟨t1, r2, rfl, ht1, _, _⟩
  · rw [qpFrom_free r1 _ h0] at h; simp at h
  rw [qpFrom_split t1 r2 _ ht1] at h
  rcases split_first '"' r2 with ⟨_, _, h0⟩ | ⟨f1, r3, rfl, hf1, _, _⟩
  · rw [qpFrom_free r2 _ h0] at h; simp at h
  exact ⟨t0, f0, t1, f1, r3, rfl, ht0, hf0, ht1, hf1⟩

theorem take_eq_of_append {l a b : List Char} {n : Nat} (h : l = a ++ b) (hn : a.length = n) : l.take n = a := by
  subst h; exact List.take_left' hn

theorem drop_eq_of_append {l a b : List Char} {n : Nat} (h : l = a ++ b) (hn : a.length = n) : l.drop n = b := by
  subst h; exact List.drop_left' hn

section hdr
variable (t0 f0 t1 f1 r : List Char) (ht0 : ∀ c ∈ t0, c ≠ '"') (hf0 : ∀ c ∈ f0, c ≠ '"')
  (ht1 : ∀ c ∈ t1, c ≠ '"') (hf1 : ∀ c ∈ f1, c ≠ '"')
include ht0 hf0 ht1 hf1

theorem qp_hdr : quotePositions (hdr t0 f0 t1 f1 r) =
    t0.length :: (t0.length + 1 + f0.length) :: (t0.length + 1 + f0.length + 1 + t1.length) ::
      (t0.length + 1 + f0.length + 1 + t1.length + 1 + f1.length) ::
      qpFrom r (t0.length + 1 + f0.length + 1 + t1.length + 1 + f1.length + 1) := by
  rw [quotePositions_eq, hdr, qpFrom_split t0 _ _ ht0, qpFrom_split f0 _ _ hf0, qpFrom_split t1 _ _ ht1,
    qpFrom_split f1 _ _ hf1]
  simp

theorem reSplit_hdr (f : Nat) :
    reSplit (f + 2) (hdr t0 f0 t1 f1 r) = t0 :: f0 :: t1 :: f1 :: reSplit f r := by
  rw [hdr, reSplit_two (f + 1) t0 f0 _ ht0 hf0, reSplit_two f t1 f1 _ ht1 hf1]

theorem quotedField_hdr : quotedField (hdr t0 f0 t1 f1 r) 1 = f1 := by
  simp only [quotedField, qp_hdr t0 f0 t1 f1 r ht0 hf0 ht1 hf1]
  simp only [List.getD_cons_succ, List.getD_cons_zero, Nat.mul_one]
  have h1 : (hdr t0 f0 t1 f1 r).take (t0.length + 1 + f0.length + 1 + t1.length + 1 + f1.length) =
      (t0 ++ '"' :: (f0 ++ '"' :: (t1 ++ ['"']))) ++ f1 :=
    take_eq_of_append (b := '"' :: r) (by simp [hdr]) (by simp; omega)
  rw [h1]
  exact List.drop_left' (by simp; omega)

theorem setHeaderFields_hdr (d v : List Char) :
    setHeaderFields (hdr t0 f0 t1 f1 r) d v = hdr t0 d t1 v r := by
  simp only [setHeaderFields, qp_hdr t0 f0 t1 f1 r ht0 hf0 ht1 hf1]
  simp only [List.getD_cons_succ, List.getD_cons_zero]
  have h1 : (hdr t0 f0 t1 f1 r).take (t0.length + 1) = t0 ++ ['"'] :=
    take_eq_of_append (b := f0 ++ '"' :: (t1 ++ '"' :: (f1 ++ '"' :: r))) (by simp [hdr]) (by simp)
  have h2 : (hdr t0 f0 t1 f1 r).take (t0.length + 1 + f0.length + 1 + t1.length + 1) =
      (t0 ++ '"' :: f0) ++ ('"' :: (t1 ++ ['"'])) :=
    take_eq_of_append (b := f1 ++ '"' :: r) (by simp [hdr]) (by simp; omega)
  have h3 : (hdr t0 f0 t1 f1 r).drop (t0.length + 1 + f0.length + 1 + t1.length + 1 + f1.length) = '"' :: r :=
    drop_eq_of_append (a := t0 ++ '"' :: (f0 ++ '"' :: (t1 ++ '"' :: f1))) (by simp [hdr]) (by simp; omega)
  rw [h1, h2, h3, List.drop_left' (by simp; omega)]
  simp [hdr]

end hdr


/-! ### the per-line test and rewrite of `update_manpage` -/

theorem startsWithTH_eq (l : List Char) : startsWithTH l = (l.take 4 == ".TH ".toList) := by
  have : ".TH ".toList = ['.', 'T', 'H', ' '] := by decide
  rw [startsWithTH, this]

theorem joinQuote_hdr_parts (t0 d t1 v : List Char) (f : Nat) (r : List Char) :
    joinQuote (t0 :: d :: t1 :: v :: reSplit f r) = hdr t0 d t1 v r := by
  rw [joinQuote_cons _ _ (by simp), joinQuote_cons _ _ (by simp), joinQuote_cons _ _ (by simp),
    joinQuote_cons _ _ (reSplit_ne_nil f r), joinQuote_reSplit', hdr]

/-- on a well-formed header line the code's tests succeed, `parts[3]` is quoted field 1, and the rewritten
line is `setHeaderFields` -/
theorem line_wf (l : List Char) (h : wellFormedHeader l = true) (v d : List Char) :
    startsWithTH l = true ∧ ¬ (reSplit (l.length + 1) l).length < 5 ∧
    (reSplit (l.length + 1) l).getD 3 [] = quotedField l 1 ∧
    joinQuote (((reSplit (l.length + 1) l).set 3 v).set 1 d) = setHeaderFields l d v := by
  simp only [wellFormedHeader, Bool.and_eq_true, decide_eq_true_eq, ge_iff_le] at h
  obtain ⟨hTH, hq⟩ := h
  rw [quotePositions_eq] at hq
  obtain ⟨t0, f0, t1, f1, r, rfl, ht0, hf0, ht1, hf1⟩ := header_decomp l 0 hq
  have hlen : (hdr t0 f0 t1 f1 r).length + 1 = ((hdr t0 f0 t1 f1 r).length - 1) + 2 := by
    simp [hdr]; omega
  rw [hlen, reSplit_hdr t0 f0 t1 f1 r ht0 hf0 ht1 hf1]
  refine ⟨by rw [startsWithTH_eq]; exact hTH, ?_, ?_, ?_⟩
  · have := reSplit_ne_nil ((hdr t0 f0 t1 f1 r).length - 1) r
    have : 0 < (reSplit ((hdr t0 f0 t1 f1 r).length - 1) r).length := List.length_pos_iff.2 this
    simp only [List.length_cons]; omega
  · rw [quotedField_hdr t0 f0 t1 f1 r ht0 hf0 ht1 hf1]; rfl
  · rw [setHeaderFields_hdr t0 f0 t1 f1 r ht0 hf0 ht1 hf1]
    simp only [List.set_cons_succ, List.set_cons_zero]
    exact joinQuote_hdr_parts ..

theorem line_nwf (l : List Char) (h : wellFormedHeader l = false) :
    startsWithTH l = false ∨ (reSplit (l.length + 1) l).length < 5 := by
  rw [startsWithTH_eq]
  cases hTH : (l.take 4 == ".TH ".toList) with
  | false => exact Or.inl rfl
  | true =>
    right
    simp only [wellFormedHeader, hTH, Bool.true_and, decide_eq_false_iff_not, ge_iff_le, Nat.not_le] at h
    have := reSplit_length_le (l.length + 1) l 0
    rw [← quotePositions_eq] at this
    omega

/-- closed form of the loop: the first well-formed header line is the only candidate -/
theorem processLines_eq (v d : List Char) (L : List (List Char)) :
    processLines v d L =
      match L.findIdx? wellFormedHeader with
      | none => (false, L)
      | some i =>
        if quotedField (L.getD i []) 1 == v then (false, L)
        else (true, L.set i (setHeaderFields (L.getD i []) d v)) := by
  induction L with
  | nil => simp [processLines]
  | cons line rest ih =>
    rw [List.findIdx?_cons]
    cases hw : wellFormedHeader line with
    | true =>
      obtain ⟨h1, h2, h3, h4⟩ := line_wf line hw v d
      simp only [processLines, h1, h2, h3, h4, Bool.not_true, Bool.false_eq_true, if_false, if_true,
        List.getD_cons_zero, List.set_cons_zero]
      cases hq : quotedField line 1 == v <;> simp [bne, hq]
    | false =>
      have hrest : processLines v d (line :: rest) =
          ((processLines v d rest).1, line :: (processLines v d rest).2) := by
        rcases line_nwf line hw with h | h
        · simp only [processLines, h, Bool.not_false, if_true]
        · cases hs : startsWithTH line <;> simp only [processLines, hs, h, Bool.not_false, Bool.not_true,
            Bool.false_eq_true, if_true, if_false]
      rw [hrest, ih]
      cases hf : rest.findIdx? wellFormedHeader with
      | none => simp
      | some i =>
        simp only [Bool.false_eq_true, if_false, Option.map_some, List.getD_cons_succ, List.set_cons_succ]
        split <;> rfl


/-! ### main theorem: the model equals the property's definition -/

/-- the model of `update_manpage` equals the specification (no hypothesis on the strings is needed) -/
theorem updateManpage_eq_expected' (name ver date page : List Char) :
    updateManpage name ver date page = expectedManpage name ver date page := by
  unfold updateManpage expectedManpage
  split
  · rfl
  · simp only [readLines_eq_lineSplit, processLines_eq]
    generalize lineSplit (page.length + 1) page = L
    cases h : L.findIdx? wellFormedHeader with
    | none => simp
    | some i =>
      have hi : i < L.length := (List.findIdx?_eq_some_iff_getElem.1 h).1
      simp only
      split
      · simp
      · simp [List.set_eq_take_append_cons_drop, hi]

theorem updateManpage_eq_expected (name ver date page : List Char)
    (_hv : ∀ c ∈ ver, c ≠ '"' ∧ c ≠ '\n') (_hd : ∀ c ∈ date, c ≠ '"' ∧ c ≠ '\n') :
    updateManpage name ver date page = expectedManpage name ver date page :=
  updateManpage_eq_expected' name ver date page


/-! ### idempotence -/

theorem lines_set (L : List (List Char)) (hL : Lines L) (i : Nat) (hi : i < L.length) (new : List Char)
    (h1 : Term L[i] → Term new) (h2 : Unterm L[i] → Unterm new) : Lines (L.set i new) := by
  induction L generalizing i with
  | nil => simp at hi
  | cons l r ih =>
    cases i with
    | zero =>
      simp only [List.set_cons_zero]
      rcases hL with ⟨ht, hr⟩ | ⟨hu, hr⟩
      · exact Or.inl ⟨h1 ht, hr⟩
      · exact Or.inr ⟨h2 hu, hr⟩
    | succ j =>
      simp only [List.set_cons_succ]
      rcases hL with ⟨ht, hr⟩ | ⟨hu, rfl⟩
      · exact Or.inl ⟨ht, ih hr j (by simpa using hi) h1 h2⟩
      · simp at hi

theorem append_cons_eq_snoc {X r b : List Char} {c d : Char} (h : X ++ c :: r = b ++ [d]) (hcd : c ≠ d) :
    ∃ r', r = r' ++ [d] ∧ b = X ++ c :: r' := by
  by_cases hr : r = []
  · subst hr
    have := (List.append_inj' (s₁ := X) (t₁ := [c]) h rfl).2
    simp at this; exact absurd this hcd
  · have e := List.dropLast_concat_getLast hr
    rw [← e] at h
    have h' : (X ++ c :: r.dropLast) ++ [r.getLast hr] = b ++ [d] := by simpa using h
    obtain ⟨hb, hd⟩ := List.append_inj' h' rfl
    refine ⟨r.dropLast, ?_, hb.symm⟩
    rw [← (List.cons.inj hd).1]; exact e.symm

theorem nl_iff (l : List Char) : (∀ c ∈ l, c ≠ '\n') ↔ '\n' ∉ l :=
  ⟨fun h hm => h _ hm rfl, fun h _ hc e => h (e ▸ hc)⟩

/-- replacing the two quoted fields by newline-free strings preserves the line shape -/
theorem hdr_term (t0 f0 t1 f1 r d v : List Char) (hd : ∀ c ∈ d, c ≠ '\n') (hv : ∀ c ∈ v, c ≠ '\n')
    (h : Term (hdr t0 f0 t1 f1 r)) : Term (hdr t0 d t1 v r) := by
  obtain ⟨b, hb, hfree⟩ := h
  have hb' : (t0 ++ '"' :: (f0 ++ '"' :: (t1 ++ '"' :: f1))) ++ '"' :: r = b ++ ['\n'] := by
    simpa [hdr] using hb
  obtain ⟨r', rfl, rfl⟩ := append_cons_eq_snoc hb' (by decide)
  refine ⟨t0 ++ '"' :: (d ++ '"' :: (t1 ++ '"' :: (v ++ '"' :: r'))), by simp [hdr], ?_⟩
  rw [nl_iff] at hfree hd hv ⊢
  simp only [List.mem_append, List.mem_cons, not_or] at hfree ⊢
  have hq : ¬ '\n' = '"' := by decide
  exact ⟨hfree.1.1, hq, hd, hq, hfree.1.2.2.2.2.1, hq, hv, hq, hfree.2.2⟩

theorem hdr_unterm (t0 f0 t1 f1 r d v : List Char) (hd : ∀ c ∈ d, c ≠ '\n') (hv : ∀ c ∈ v, c ≠ '\n')
    (h : Unterm (hdr t0 f0 t1 f1 r)) : Unterm (hdr t0 d t1 v r) := by
  obtain ⟨_, hfree⟩ := h
  refine ⟨by simp [hdr], ?_⟩
  rw [nl_iff] at hfree hd hv ⊢
  simp only [hdr, List.mem_append, List.mem_cons, not_or] at hfree ⊢
  have hq : ¬ '\n' = '"' := by decide
  exact ⟨hfree.1, hq, hd, hq, hfree.2.2.2.2.1, hq, hv, hq, hfree.2.2.2.2.2.2.2.2⟩

theorem take4_hdr (t0 f0 t1 f1 r d v : List Char)
    (h : ((hdr t0 f0 t1 f1 r).take 4 == ".TH ".toList) = true) :
    ((hdr t0 d t1 v r).take 4 == ".TH ".toList) = true := by
  have e : ".TH ".toList = ['.', 'T', 'H', ' '] := by decide
  rw [e] at h ⊢
  rcases t0 with _ | ⟨a, _ | ⟨b, _ | ⟨c, _ | ⟨e, t⟩⟩⟩⟩ <;> simp_all [hdr]

/-- closed form of the model for the package `qrcode` -/
theorem updateManpage_qrcode (ver date page : List Char) :
    updateManpage "qrcode".toList ver date page =
      match (lineSplit (page.length + 1) page).findIdx? wellFormedHeader with
      | none => none
      | some i =>
        if quotedField ((lineSplit (page.length + 1) page).getD i []) 1 == ver then none
        else some ((lineSplit (page.length + 1) page).set i
          (setHeaderFields ((lineSplit (page.length + 1) page).getD i []) date ver)).flatten := by
  unfold updateManpage
  simp only [bne_self_eq_false, Bool.false_eq_true, if_false, readLines_eq_lineSplit, processLines_eq]
  generalize lineSplit (page.length + 1) page = L
  cases hf : L.findIdx? wellFormedHeader with
  | none => rfl
  | some i =>
    simp only
    cases hq : quotedField (L.getD i []) 1 == ver <;> simp

/-- what a successful run wrote -/
theorem updateManpage_some (ver date page page' : List Char)
    (h : updateManpage "qrcode".toList ver date page = some page') :
    ∃ i, (lineSplit (page.length + 1) page).findIdx? wellFormedHeader = some i ∧
      quotedField ((lineSplit (page.length + 1) page).getD i []) 1 ≠ ver ∧
      page' = ((lineSplit (page.length + 1) page).set i
        (setHeaderFields ((lineSplit (page.length + 1) page).getD i []) date ver)).flatten := by
  rw [updateManpage_qrcode] at h
  generalize lineSplit (page.length + 1) page = L at h ⊢
  cases hf : L.findIdx? wellFormedHeader with
  | none => rw [hf] at h; exact absurd h (by simp)
  | some i =>
    refine ⟨i, rfl, ?_⟩
    rw [hf] at h
    cases hq : quotedField (L.getD i []) 1 == ver with
    | true => simp only [hq, if_true] at h; exact absurd h (by simp)
    | false =>
      simp only [hq, Bool.false_eq_true, if_false, Option.some.injEq] at h
      exact ⟨by simpa using hq, h.symm⟩

/-- nothing is written when the first well-formed header already carries the version -/
theorem updateManpage_of_lines (ver date page : List Char) (L : List (List Char))
    (hL : lineSplit (page.length + 1) page = L) (i : Nat) (hi : L.findIdx? wellFormedHeader = some i)
    (hq : quotedField (L.getD i []) 1 = ver) :
    updateManpage "qrcode".toList ver date page = none := by
  rw [updateManpage_qrcode, hL, hi]
  have : (quotedField (L.getD i []) 1 == ver) = true := by simpa using hq
  simp only [this, if_true]

/-- a second application writes nothing, even with another date -/
theorem idempotent (ver date date' page page' : List Char)
    (hv : ∀ c ∈ ver, c ≠ '"' ∧ c ≠ '\n') (hd : ∀ c ∈ date, c ≠ '"' ∧ c ≠ '\n')
    (h : updateManpage "qrcode".toList ver date page = some page') :
    updateManpage "qrcode".toList ver date' page' = none := by
  obtain ⟨i, hi, _, hp⟩ := updateManpage_some ver date page page' h
  have hLines := lines_lineSplit (page.length + 1) page
  generalize lineSplit (page.length + 1) page = L at hi hp hLines
  obtain ⟨hiL, hwf, hbefore⟩ := List.findIdx?_eq_some_iff_getElem.1 hi
  have hget : L.getD i [] = L[i] := by simp [List.getD, hiL]
  rw [hget] at hp
  -- decompose the header line
  have hwf' := hwf
  simp only [wellFormedHeader, Bool.and_eq_true, decide_eq_true_eq, ge_iff_le] at hwf'
  obtain ⟨hTH, hqn⟩ := hwf'
  rw [quotePositions_eq] at hqn
  obtain ⟨t0, f0, t1, f1, r, hline, ht0, hf0, ht1, hf1⟩ := header_decomp L[i] 0 hqn
  have hvq : ∀ c ∈ ver, c ≠ '"' := fun c hc => (hv c hc).1
  have hvn : ∀ c ∈ ver, c ≠ '\n' := fun c hc => (hv c hc).2
  have hdq : ∀ c ∈ date, c ≠ '"' := fun c hc => (hd c hc).1
  have hdn : ∀ c ∈ date, c ≠ '\n' := fun c hc => (hd c hc).2
  have hnew : setHeaderFields L[i] date ver = hdr t0 date t1 ver r := by
    rw [hline, setHeaderFields_hdr t0 f0 t1 f1 r ht0 hf0 ht1 hf1]
  rw [hnew] at hp
  -- the new list of lines is what `readlines` returns on the new page
  have hL' : Lines (L.set i (hdr t0 date t1 ver r)) :=
    lines_set L hLines i hiL _
      (fun ht => hdr_term t0 f0 t1 f1 r date ver hdn hvn (hline ▸ ht))
      (fun hu => hdr_unterm t0 f0 t1 f1 r date ver hdn hvn (hline ▸ hu))
  have hsplit : lineSplit (page'.length + 1) page' = L.set i (hdr t0 date t1 ver r) := by
    rw [hp]; exact lineSplit_of_lines _ hL' _ (Nat.lt_succ_self _)
  -- its first well-formed header is again line i
  have hwfnew : wellFormedHeader (hdr t0 date t1 ver r) = true := by
    simp only [wellFormedHeader, Bool.and_eq_true, decide_eq_true_eq, ge_iff_le]
    refine ⟨take4_hdr t0 f0 t1 f1 r date ver (hline ▸ hTH), ?_⟩
    rw [qp_hdr t0 date t1 ver r ht0 hdq ht1 hvq]
    simp
  have hi' : (L.set i (hdr t0 date t1 ver r)).findIdx? wellFormedHeader = some i := by
    rw [List.findIdx?_eq_some_iff_getElem]
    refine ⟨by simpa using hiL, by simpa using hwfnew, ?_⟩
    intro j hj
    rw [List.getElem_set_ne (by omega)]
    exact hbefore j hj
  refine updateManpage_of_lines ver date' page' _ hsplit i hi' ?_
  have : (L.set i (hdr t0 date t1 ver r)).getD i [] = hdr t0 date t1 ver r := by
    simp [List.getD, hiL]
  rw [this, quotedField_hdr t0 date t1 ver r ht0 hdq ht1 hvq]


/-! ### `readlines()`: the statements about the model function -/

theorem readLines_flatten (fuel : Nat) (page : List Char) (hf : page.length < fuel) :
    (readLines fuel page).flatten = page := by
  rw [readLines_eq_lineSplit]; exact lineSplit_flatten fuel page hf

theorem readLines_lines (fuel : Nat) (page : List Char) : Lines (readLines fuel page) := by
  rw [readLines_eq_lineSplit]; exact lines_lineSplit fuel page

theorem lines_nonlast (L : List (List Char)) (hL : Lines L) (i : Nat) (hi : i + 1 < L.length) : Term L[i] := by
  induction L generalizing i with
  | nil => simp at hi
  | cons l r ih =>
    rcases hL with ⟨ht, hr⟩ | ⟨_, rfl⟩
    · cases i with
      | zero => exact ht
      | succ j => exact ih hr j (by simpa using hi)
    · simp at hi

theorem lines_any (L : List (List Char)) (hL : Lines L) (i : Nat) (hi : i < L.length) :
    Term L[i] ∨ Unterm L[i] := by
  induction L generalizing i with
  | nil => simp at hi
  | cons l r ih =>
    rcases hL with ⟨ht, hr⟩ | ⟨hu, rfl⟩
    · cases i with
      | zero => exact Or.inl ht
      | succ j => exact ih hr j (by simpa using hi)
    · have : i = 0 := by simp at hi; omega
      subst this; exact Or.inr hu

/-- every line but possibly the last ends with `'\n'` and contains no other `'\n'` -/
theorem readLines_nonlast (fuel : Nat) (page : List Char) (i : Nat) (hi : i + 1 < (readLines fuel page).length) :
    ∃ b, (readLines fuel page)[i] = b ++ ['\n'] ∧ ∀ c ∈ b, c ≠ '\n' :=
  lines_nonlast _ (readLines_lines fuel page) i hi

/-- the last line is non-empty and has no `'\n'` except possibly as its final character -/
theorem readLines_last (fuel : Nat) (page : List Char) (i : Nat) (hi : i < (readLines fuel page).length) :
    (∃ b, (readLines fuel page)[i] = b ++ ['\n'] ∧ ∀ c ∈ b, c ≠ '\n') ∨
    ((readLines fuel page)[i] ≠ [] ∧ ∀ c ∈ (readLines fuel page)[i], c ≠ '\n') :=
  lines_any _ (readLines_lines fuel page) i hi

/-! ### no-op cases -/

theorem noop_other_package (name ver date page : List Char) (h : name ≠ "qrcode".toList) :
    updateManpage name ver date page = none := by
  unfold updateManpage
  have : (name != "qrcode".toList) = true := by simpa using h
  rw [if_pos this]

theorem noop_no_header (name ver date page : List Char)
    (h : ∀ l ∈ lineSplit (page.length + 1) page, wellFormedHeader l = false) :
    updateManpage name ver date page = none := by
  by_cases hn : name = "qrcode".toList
  · subst hn
    rw [updateManpage_qrcode]
    have : (lineSplit (page.length + 1) page).findIdx? wellFormedHeader = none := by
      rw [List.findIdx?_eq_none_iff]; exact h
    rw [this]
  · exact noop_other_package name ver date page hn

theorem noop_same_version (name ver date page : List Char) (i : Nat)
    (hi : i < (lineSplit (page.length + 1) page).length)
    (hwf : wellFormedHeader (lineSplit (page.length + 1) page)[i] = true)
    (hfirst : ∀ j (hj : j < i), wellFormedHeader ((lineSplit (page.length + 1) page)[j]'(by omega)) = false)
    (hq : quotedField (lineSplit (page.length + 1) page)[i] 1 = ver) :
    updateManpage name ver date page = none := by
  by_cases hn : name = "qrcode".toList
  · subst hn
    refine updateManpage_of_lines ver date page _ rfl i ?_ ?_
    · rw [List.findIdx?_eq_some_iff_getElem]
      exact ⟨hi, hwf, fun j hj => by simp [hfirst j hj]⟩
    · have : (lineSplit (page.length + 1) page).getD i [] = (lineSplit (page.length + 1) page)[i] := by
        simp [List.getD, hi]
      rw [this, hq]
  · exact noop_other_package name ver date page hn

/-! ### explicit form: only the two quoted fields change -/

/-- a successful run replaces exactly the contents of the first two quoted fields of one line
`t0 "f0" t1 "f1" r`; everything before (`pre`), between and after (`r`, `post`) is kept -/
theorem only_fields_change (ver date page page' : List Char)
    (h : updateManpage "qrcode".toList ver date page = some page') :
    ∃ pre t0 f0 t1 f1 r post,
      page = pre ++ (t0 ++ '"' :: (f0 ++ '"' :: (t1 ++ '"' :: (f1 ++ '"' :: r)))) ++ post ∧
      page' = pre ++ (t0 ++ '"' :: (date ++ '"' :: (t1 ++ '"' :: (ver ++ '"' :: r)))) ++ post ∧
      f1 ≠ ver ∧ (∀ c ∈ t0, c ≠ '"') ∧ (∀ c ∈ f0, c ≠ '"') ∧ (∀ c ∈ t1, c ≠ '"') ∧ (∀ c ∈ f1, c ≠ '"') ∧
      t0.take 4 = ".TH ".toList := by
  obtain ⟨i, hi, hne, hp⟩ := updateManpage_some ver date page page' h
  have hflat := lineSplit_flatten (page.length + 1) page (Nat.lt_succ_self _)
  generalize lineSplit (page.length + 1) page = L at hi hne hp hflat
  obtain ⟨hiL, hwf, _⟩ := List.findIdx?_eq_some_iff_getElem.1 hi
  have hget : L.getD i [] = L[i] := by simp [List.getD, hiL]
  rw [hget] at hp hne
  simp only [wellFormedHeader, Bool.and_eq_true, decide_eq_true_eq, ge_iff_le] at hwf
  obtain ⟨hTH, hqn⟩ := hwf
  rw [quotePositions_eq] at hqn
  obtain ⟨t0, f0, t1, f1, r, hline, ht0, hf0, ht1, hf1⟩ := header_decomp L[i] 0 hqn
  rw [hline, setHeaderFields_hdr t0 f0 t1 f1 r ht0 hf0 ht1 hf1] at hp
  rw [hline, quotedField_hdr t0 f0 t1 f1 r ht0 hf0 ht1 hf1] at hne
  refine ⟨(L.take i).flatten, t0, f0, t1, f1, r, (L.drop (i + 1)).flatten, ?_, ?_, hne, ht0, hf0, ht1, hf1, ?_⟩
  · have : L = L.set i (hdr t0 f0 t1 f1 r) := by rw [← hline]; simp
    rw [← hflat]
    conv => lhs; rw [this]
    simp [List.set_eq_take_append_cons_drop, hiL, hdr]
  · rw [hp]
    simp [List.set_eq_take_append_cons_drop, hiL, hdr]
  · rw [hline] at hTH
    have e : ".TH ".toList = ['.', 'T', 'H', ' '] := by decide
    rw [e] at hTH ⊢
    rcases t0 with _ | ⟨a, _ | ⟨b, _ | ⟨c, _ | ⟨e, t⟩⟩⟩⟩ <;> simp_all [hdr]

end QR.Proofs.Release
