import QR.Gen.Code
import QR.Model.Cli
import QR.Proofs.SourceTieD6a
/-
Translation validation, list D6, part c: `console_scripts.commas` and `get_drawer_help` as they stand in the source
(`QR.Gen.Code.lo_commas`, `lo_gdh_step`, `lo_get_drawer_help`).  The Model has no function of its own for the help texts (they
do not influence what the command encodes); the bridge is to the Model's tables and to `Model.drawerAliases`: the text built by
the translated source from the regenerated `default_factories` lists exactly the factories for which the Model accepts a
`--factory-drawer`, with exactly the aliases the Model accepts.
-/
namespace QR.SourceTieD6
open QR QR.Model QR.Gen.Code

/-! ### `commas(items, joiner="or")` -/

theorem commas_literals : lo_commas_joiner_default = "or" := by decide

theorem commas_nil (j : String) : lo_commas [] j = "" := rfl

theorem commas_single (a j : String) : lo_commas [a] j = a := rfl

/-- two or more items: all but the last joined by ", ", then the joiner between spaces, then the last -/
theorem commas_many (init : List String) (last j : String) (h : init ≠ []) :
    lo_commas (init ++ [last]) j = lo_py_join ", " init ++ " " ++ j ++ " " ++ last := by
  have hl : 1 ≤ init.length := by
    cases init with
    | nil => exact absurd rfl h
    | cons a t => simp
  unfold lo_commas lo_py_len
  have h0 : ¬ (((init ++ [last]).length : Int) = 0) := by simp; omega
  have h1 : ¬ (((init ++ [last]).length : Int) = 1) := by simp; omega
  simp only [h0, h1, decide_false, Bool.false_eq_true, if_false]
  have hs : lo_py_slice (init ++ [last]) none (some (-1)) = init := by
    unfold lo_py_slice lo_py_clamp
    have a1 : ((-1 : Int) < 0) := by decide
    have a2 : ¬ ((-1 : Int) + ((init ++ [last]).length : Int) < 0) := by simp; omega
    have a3 : ¬ ((-1 : Int) + ((init ++ [last]).length : Int) > ((init ++ [last]).length : Int)) := by omega
    have a4 : ((-1 : Int) + ((init ++ [last]).length : Int)).toNat = init.length := by simp; omega
    simp only [a1, if_true, a2, if_false, a3, a4, List.drop_zero, List.take_left']
  have hg : lo_py_getitemD (init ++ [last]) (-1) = last := by
    unfold lo_py_getitemD
    have := py_getitem_neg (init ++ [last]) 1 (by omega) (by simp)
    simp only [Int.natCast_one] at this
    rw [this]
    simp
  rw [hs, hg]

/-- on the regenerated table of factory shortcuts (the help text of `--factory`) -/
theorem commas_default_factories :
    lo_commas (Gen.CLI_FACTORIES.map (·.1)) lo_commas_joiner_default = "pil, png, svg, svg-fragment, svg-path or pymaging" := by
  decide +kernel

/-! ### `get_drawer_help()` -/

theorem gdh_literals : lo_gdh_names = ["default_factories", "get_factory", "ImportError", "drawer_aliases"] := by decide

/-- one iteration of the loop, spelled out: a failed import, a missing or empty `drawer_aliases` leave `help` unchanged;
    otherwise the alias is added to the set filed under `commas(aliases)` -/
theorem gdh_step_src {Img : Type} (imp : String → Option Img) (attr : Img → Option (List String))
    (help : List (String × List String)) (alias path : String) :
    lo_gdh_step imp attr help alias path =
      match (imp path).bind attr with
      | none => help
      | some [] => help
      | some (a :: as) => lo_py_setdefault_add help (lo_commas (a :: as) "or") alias := by
  unfold lo_gdh_step
  cases imp path with
  | none => rfl
  | some image =>
    simp only [Option.bind_some]
    cases attr image with
    | none => rfl
    | some l =>
      cases l with
      | nil => rfl
      | cons a as =>
        have h : ¬ (lo_py_len (a :: as) = 0) := by simp [lo_py_len]; omega
        simp only [h, decide_false, Bool.false_eq_true, if_false]
        rfl

/-- **`get_drawer_help()`** on the regenerated `default_factories`, every module importable, each class carrying the
    `drawer_aliases` the Model accepts for it (`Model.drawerAliases`): the text names exactly the two SVG factories with the
    three aliases.  (Python builds the factory names in a `set`; the order `svg and svg-path` is the insertion order - with
    hash randomisation CPython may print `svg-path and svg`; the Model does not depend on the text.) -/
theorem get_drawer_help_src :
    lo_get_drawer_help (Img := String) (fun path => some path) (fun path => some (drawerAliases (some path)))
      Gen.CLI_FACTORIES = "For svg and svg-path, use: circle, gapped-circle or gapped-square" := by
  decide +kernel

/-- the factories the help text names are exactly those for which the Model accepts some drawer -/
theorem get_drawer_help_factories :
    ((Gen.CLI_FACTORIES.foldl (fun d kv => lo_gdh_step (Img := String) (fun path => some path)
        (fun path => some (drawerAliases (some path))) d kv.1 kv.2) []).flatMap (·.2)) =
      (Gen.CLI_FACTORIES.map (·.1)).filter (fun k => !(drawerAliases (some k)).isEmpty) := by
  decide +kernel

end QR.SourceTieD6
