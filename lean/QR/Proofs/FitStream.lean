import QR.Model.Data
import QR.Spec.Stream
import QR.Proofs.Conv
import QR.Proofs.Except
/-
C07 (fitting), parts 2 and 3: length of the header+data bit stream written for valid segments, and its
monotonicity in the version class.
-/
namespace QR.Proofs
open QR

theorem bitsBE_length (n : Nat) : ∀ k, (bitsBE n k).length = k := by
  intro k
  induction k with
  | zero => rfl
  | succ k ih => simp only [bitsBE, List.length_cons, ih]

/-! ### segment bodies -/

theorem intOfDigits_ok : ∀ (cs : List Nat) (acc : Nat), (∀ c ∈ cs, Model.isDigit c = true) →
    ∃ v, cs.foldlM (m := R) (fun acc c => if 48 ≤ c ∧ c ≤ 57 then pure (acc * 10 + (c - 48)) else .error .valueError) acc
      = .ok v := by
  intro cs
  induction cs with
  | nil => intro acc _; exact ⟨acc, rfl⟩
  | cons c t ih =>
    intro acc h
    have hc : 48 ≤ c ∧ c ≤ 57 := by
      have := h c (List.mem_cons_self ..)
      simpa [Model.isDigit] using this
    simp only [List.foldlM_cons, hc, and_self, if_true, R.pure_eq, R.bind_ok]
    exact ih _ (fun c' hc' => h c' (List.mem_cons_of_mem _ hc'))

theorem bodyBits_numeric_add3 (n : Nat) : Spec.bodyBits .numeric (n + 3) = 10 + Spec.bodyBits .numeric n := by
  simp only [Spec.bodyBits, Nat.add_div_right _ (by decide : 0 < 3), Nat.add_mod_right]
  omega

theorem writeNumeric_nil (fuel : Nat) : Model.writeNumeric fuel [] = .ok [] := by
  cases fuel <;> simp [Model.writeNumeric]

theorem writeNumeric_ok : ∀ (fuel : Nat) (cs : List Nat), cs.length ≤ fuel → (∀ c ∈ cs, Model.isDigit c = true) →
    ∃ bits, Model.writeNumeric fuel cs = .ok bits ∧ bits.length = Spec.bodyBits .numeric cs.length := by
  intro fuel
  induction fuel with
  | zero =>
    intro cs hl _
    have : cs = [] := List.eq_nil_of_length_eq_zero (by omega)
    subst this
    exact ⟨[], writeNumeric_nil 0, rfl⟩
  | succ fuel ih =>
    intro cs hl hd
    match cs, hl, hd with
    | [], _, _ => exact ⟨[], writeNumeric_nil _, rfl⟩
    | [a], _, hd =>
      obtain ⟨v, hv⟩ := intOfDigits_ok [a] 0 hd
      refine ⟨bitsBE v 4 ++ [], ?_, ?_⟩
      · simp only [Model.writeNumeric, Model.intOfDigits, List.take, List.drop, List.length, hv, writeNumeric_nil]
        rfl
      · simp [bitsBE_length, Spec.bodyBits]
    | [a, b], _, hd =>
      obtain ⟨v, hv⟩ := intOfDigits_ok [a, b] 0 hd
      refine ⟨bitsBE v 7 ++ [], ?_, ?_⟩
      · simp only [Model.writeNumeric, Model.intOfDigits, List.take, List.drop, List.length, hv, writeNumeric_nil]
        rfl
      · simp [bitsBE_length, Spec.bodyBits]
    | a :: b :: c :: r, hl, hd =>
      obtain ⟨v, hv⟩ := intOfDigits_ok [a, b, c] 0 (fun x hx => hd x (by
        simp only [List.mem_cons, List.not_mem_nil, or_false] at hx ⊢
        rcases hx with h | h | h <;> simp [h]))
      obtain ⟨tl, htl, hlen⟩ := ih r (by simp only [List.length_cons] at hl; omega)
        (fun x hx => hd x (by simp [hx]))
      refine ⟨bitsBE v 10 ++ tl, ?_, ?_⟩
      · simp only [Model.writeNumeric, Model.intOfDigits, List.take, List.drop, List.length, hv, htl]
        rfl
      · simp only [List.length_append, bitsBE_length, hlen, List.length_cons]
        rw [bodyBits_numeric_add3]

theorem alphaFind_ok (c : Nat) (h : Model.isAlnum c = true) : ∃ i, Model.alphaFind c = .ok i := by
  unfold Model.alphaFind
  cases hi : Gen.ALPHA_NUM.idxOf? c with
  | some i => exact ⟨i, rfl⟩
  | none =>
    exfalso
    simp only [Model.isAlnum, List.contains_eq_mem, decide_eq_true_eq] at h
    rw [List.idxOf?_eq_none_iff] at hi
    exact hi h

theorem bodyBits_alnum_add2 (n : Nat) : Spec.bodyBits .alnum (n + 2) = 11 + Spec.bodyBits .alnum n := by
  simp only [Spec.bodyBits, Nat.add_div_right _ (by decide : 0 < 2), Nat.add_mod_right]
  omega

theorem writeAlnum_ok : ∀ (cs : List Nat), (∀ c ∈ cs, Model.isAlnum c = true) →
    ∃ bits, Model.writeAlnum cs = .ok bits ∧ bits.length = Spec.bodyBits .alnum cs.length
  | [], _ => ⟨[], rfl, rfl⟩
  | [a], h => by
    obtain ⟨x, hx⟩ := alphaFind_ok a (h a (by simp))
    refine ⟨bitsBE x 6, ?_, ?_⟩
    · simp only [Model.writeAlnum, hx]; rfl
    · simp [bitsBE_length, Spec.bodyBits]
  | a :: b :: r, h => by
    obtain ⟨x, hx⟩ := alphaFind_ok a (h a (by simp))
    obtain ⟨y, hy⟩ := alphaFind_ok b (h b (by simp))
    obtain ⟨tl, htl, hlen⟩ := writeAlnum_ok r (fun c hc => h c (by simp [hc]))
    refine ⟨bitsBE (x * 45 + y) 11 ++ tl, ?_, ?_⟩
    · simp only [Model.writeAlnum, hx, hy, htl]; rfl
    · simp only [List.length_append, bitsBE_length, hlen, List.length_cons]
      rw [bodyBits_alnum_add2]

theorem writeBytes_length (cs : List Nat) : (Model.writeBytes cs).length = Spec.bodyBits .byte cs.length := by
  induction cs with
  | nil => rfl
  | cons c t ih =>
    simp only [Model.writeBytes, List.flatMap_cons, List.length_append, bitsBE_length, List.length_cons,
      Spec.bodyBits] at ih ⊢
    omega

/-! ### one segment -/

/-- a valid segment has a Spec view with the same mode number and data, and `QRData.write` emits exactly
    `bodyBits` bits -/
theorem segWrite_ok (s : Model.Seg) (hv : s.Valid) :
    ∃ m d, toPSeg s = some { mode := m, data := s.data } ∧ m.indicator = s.mode ∧
      Model.segWrite s = .ok d ∧ d.length = Spec.bodyBits m s.data.length := by
  rcases hv with ⟨hm, hd⟩ | ⟨hm, hd⟩ | ⟨hm, _⟩
  · obtain ⟨bits, hb, hl⟩ := writeNumeric_ok s.data.length s.data (Nat.le_refl _) hd
    refine ⟨.numeric, bits, ?_, hm.symm, ?_, hl⟩
    · simp [toPSeg, hm, Spec.Mode.ofIndicator]
    · simp only [Model.segWrite, hm, Gen.MODE_NUMBER, if_true, hb]
  · obtain ⟨bits, hb, hl⟩ := writeAlnum_ok s.data hd
    refine ⟨.alnum, bits, ?_, hm.symm, ?_, hl⟩
    · simp [toPSeg, hm, Spec.Mode.ofIndicator]
    · simp [Model.segWrite, hm, Gen.MODE_NUMBER, Gen.MODE_ALPHA_NUM, hb]
  · refine ⟨.byte, Model.writeBytes s.data, ?_, hm.symm, ?_, writeBytes_length _⟩
    · simp [toPSeg, hm, Spec.Mode.ofIndicator]
    · simp [Model.segWrite, hm, Gen.MODE_NUMBER, Gen.MODE_ALPHA_NUM]

/-! ### all segments -/

theorem toPSegs_cons (s : Model.Seg) (rest : List Model.Seg) (ps : List Spec.PSeg)
    (h : toPSegs (s :: rest) = some ps) :
    ∃ p ps', toPSeg s = some p ∧ toPSegs rest = some ps' ∧ ps = p :: ps' := by
  simp only [toPSegs, List.mapM_cons, Option.bind_eq_bind, Option.pure_def] at h
  cases hp : toPSeg s with
  | none => simp [hp] at h
  | some p =>
    cases hps : List.mapM toPSeg rest with
    | none => simp [hp, hps] at h
    | some ps' =>
      simp [hp, hps] at h
      exact ⟨p, ps', rfl, by simp [toPSegs, hps], h.symm⟩

/-- Item 2: for valid segments and a count-width function `w` that answers `width m` on the mode numbers,
    the stream is produced and has the closed-form length -/
theorem segsBits_length (w : Nat → R Nat) (width : Spec.Mode → Nat)
    (hw : ∀ m : Spec.Mode, w m.indicator = .ok (width m)) :
    ∀ (segs : List Model.Seg) (ps : List Spec.PSeg), (∀ s ∈ segs, s.Valid) → toPSegs segs = some ps →
      ∃ bits, Model.segsBits w segs = .ok bits ∧
        bits.length = ((segCounts ps).map fun (m, n) => 4 + width m + Spec.bodyBits m n).sum := by
  intro segs
  induction segs with
  | nil =>
    intro ps _ hp
    simp only [toPSegs, List.mapM_nil, Option.pure_def, Option.some.injEq] at hp
    subst hp
    exact ⟨[], rfl, rfl⟩
  | cons s rest ih =>
    intro ps hv hp
    obtain ⟨p, ps', hp1, hp2, rfl⟩ := toPSegs_cons s rest ps hp
    obtain ⟨m, d, hm1, hm2, hd, hdl⟩ := segWrite_ok s (hv s (List.mem_cons_self ..))
    obtain ⟨tl, htl, htll⟩ := ih ps' (fun s' hs' => hv s' (List.mem_cons_of_mem _ hs')) hp2
    rw [hm1] at hp1
    cases hp1
    refine ⟨bitsBE s.mode 4 ++ bitsBE s.data.length (width m) ++ d ++ tl, ?_, ?_⟩
    · have := hw m
      rw [hm2] at this
      simp only [Model.segsBits, this, hd, htl, R.bind_ok, R.pure_eq]
    · simp only [List.length_append, bitsBE_length, hdl, htll, segCounts, List.map_cons, List.sum_cons]

/-! ### the count-width tables are ISO Table 3 -/

theorem sizeClass_eq_versionClass (v : Nat) : Model.sizeClass v = Spec.versionClass v := by
  unfold Model.sizeClass Spec.versionClass
  split <;> split <;> (try split) <;> (try split) <;> omega

theorem versionClass_le_two (v : Nat) : Spec.versionClass v ≤ 2 := by
  unfold Spec.versionClass; split <;> (try split) <;> omega

/-- the three `MODE_SIZE_*` dicts are `Spec.countWidth` of their class (for every version number) -/
theorem modeSizes_countWidth (v : Nat) (m : Spec.Mode) :
    dictGet (Model.modeSizes v) m.indicator = .ok (Spec.countWidth v m) := by
  have h0 := sizeClass_eq_versionClass v
  have h2 := versionClass_le_two v
  unfold Model.modeSizes Spec.countWidth
  rw [h0]
  generalize Spec.versionClass v = c at *
  match c, h2 with
  | 0, _ => cases m <;> rfl
  | 1, _ => cases m <;> rfl
  | 2, _ => cases m <;> rfl

/-- Item 2, instance used by `best_fit` / `create_data`: with the dict of the class of `start` the length is
    `Spec.streamBits start` -/
theorem segsBits_modeSizes (start : Nat) (segs : List Model.Seg) (ps : List Spec.PSeg)
    (hv : ∀ s ∈ segs, s.Valid) (hp : toPSegs segs = some ps) :
    ∃ bits, Model.segsBits (fun m => dictGet (Model.modeSizes start) m) segs = .ok bits ∧
      bits.length = Spec.streamBits start (segCounts ps) :=
  segsBits_length _ (Spec.countWidth start) (modeSizes_countWidth start) segs ps hv hp

/-! ### Item 3: monotonicity in the version -/

theorem versionClass_mono {u v : Nat} (h : u ≤ v) : Spec.versionClass u ≤ Spec.versionClass v := by
  unfold Spec.versionClass
  split <;> split <;> (try split) <;> (try split) <;> omega

theorem countWidth_mono {u v : Nat} (h : u ≤ v) (m : Spec.Mode) : Spec.countWidth u m ≤ Spec.countWidth v m := by
  have h1 := versionClass_mono h
  have h2 := versionClass_le_two v
  unfold Spec.countWidth
  generalize Spec.versionClass u = cu at *
  generalize Spec.versionClass v = cv at *
  have hcv : cv = 0 ∨ cv = 1 ∨ cv = 2 := by omega
  have hcu : cu = 0 ∨ cu = 1 ∨ cu = 2 := by omega
  rcases hcv with rfl | rfl | rfl <;> rcases hcu with rfl | rfl | rfl <;>
    first | (cases m <;> decide) | omega

theorem streamBits_mono {u v : Nat} (h : u ≤ v) (cs : List (Spec.Mode × Nat)) :
    Spec.streamBits u cs ≤ Spec.streamBits v cs := by
  unfold Spec.streamBits
  induction cs with
  | nil => exact Nat.le_refl _
  | cons c t ih =>
    have := countWidth_mono h c.1
    simp only [List.map_cons, List.sum_cons] at ih ⊢
    omega

theorem streamBits_congr {u v : Nat} (h : Spec.versionClass u = Spec.versionClass v) (cs : List (Spec.Mode × Nat)) :
    Spec.streamBits u cs = Spec.streamBits v cs := by
  have : ∀ m, Spec.countWidth u m = Spec.countWidth v m := by
    intro m; unfold Spec.countWidth; rw [h]
  unfold Spec.streamBits
  simp only [this]

end QR.Proofs
