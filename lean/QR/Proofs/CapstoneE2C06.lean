import QR.Proofs.CapstoneE2C02
import QR.Proofs.SourceTieA5b
import QR.Proofs.SourceTieT2
/-
Helpers for the capstone theorems `Cxx_source_capstone_*` of C02, C04, C05, C06 (QR/Props).
The `…Src` definitions below only give NAMES to the right-hand sides of the bridge theorems (`Cxx_source_*_src`): each is the
Python function as assembled from the fragments translated into `QR.Gen.Code` (regenerated from the current Python AST on
every run) by the hand-written loop skeletons of `QR/Proofs/SourceTie*.lean`, with every callee that is not translated in place
turned into an explicit PARAMETER.  The capstones instantiate these parameters with the Model function the bridge names (or
with another `…Src` function).  No proof content here except determinism of the `while` semantics and the unfolding lemmas.
-/
namespace QR.CapstoneE2
open QR QR.Model QR.Gen.Code QR.SourceTieA
/-! ### C06 -/

/-- `util.length_in_bits(mode, version)` assembled from the translated mode test, `check_version` test and dictionary choice -/
def lengthInBitsSrc (mode version : Nat) : R Nat :=
  if length_in_bits_bad_mode mode then .error .typeError
  else if check_version_bad (version : Int) then .error .valueError
  else dictGet (match mode_size_class version with
                | 0 => Gen.MODE_SIZE_SMALL
                | 1 => Gen.MODE_SIZE_MEDIUM
                | _ => Gen.MODE_SIZE_LARGE) (length_in_bits_key mode)

/-- `util.create_data` up to the call of `create_bytes`, on the bit list: translated overflow test, terminator length and pad
    alternation; parameters: `segs_bits` (the loop writing headers and `QRData.write` for every segment, given the
    character-count width function), `width` (`length_in_bits`), `rs_blocks` -/
def dataBitsSrc (segs_bits : (Nat → R Nat) → List Seg → R (List Bool)) (width : Nat → Nat → R Nat)
    (rs_blocks : Nat → Nat → R (List (Nat × Nat))) (version level : Nat) (segs : List Seg) : R (List Bool) := do
  let buffer ← segs_bits (fun m => width m version) segs
  let blocks ← rs_blocks version level
  let bitLimit := (blocks.map fun b => b.2 * 8).sum
  if overflow_test buffer.length bitLimit then .error .dataOverflow
  else
    let buffer := buffer ++ List.replicate (terminator_len buffer.length bitLimit) false
    let delimit := buffer.length % 8
    let buffer := if delimit ≠ 0 then buffer ++ List.replicate (8 - delimit) false else buffer
    let bytesToFill := (bitLimit - buffer.length) / 8
    pure (buffer ++ (List.range bytesToFill).flatMap fun i => bitsBE (if pad_first i then Gen.PAD0 else Gen.PAD1) 8)

open QR.SourceTieT in
/-- the segment loop of `util.create_data` on the Python object `(buffer.buffer, buffer.length)`:
    `for data in data_list: buffer.put(data.mode, 4); buffer.put(len(data), length_in_bits(data.mode, version));
    data.write(buffer)` with the translated `BitBuffer.put` over the translated `put_bit`, the translated `QRData.__len__` and
    the translated `QRData.write` (the `for` skeleton itself is hand-assembled); `width` = `length_in_bits(·, version)`,
    `find_bytes` = `ALPHA_NUM.find` on a one-byte string -/
def segsLoopSrc (width : Nat → R Nat) (find_bytes : List Nat → R Nat) : List Seg → List Nat × Nat → R (List Nat × Nat)
  | [], b => .ok b
  | s :: rest, b =>
    bb_put (fun (st : List Nat × Nat) x => bb_put_bit Err.indexError st.1 st.2 x) b s.mode 4 >>= fun b =>
    width s.mode >>= fun w =>
    bb_put (fun (st : List Nat × Nat) x => bb_put_bit Err.indexError st.1 st.2 x) b (qrdata_len s.data.length) w >>= fun b =>
    qw_write Err.keyError Err.indexError Err.other intOfDigits find_bytes
      (fun self n l => bb_put (fun (st : List Nat × Nat) x => bb_put_bit Err.indexError st.1 st.2 x) self n l)
      s.mode s.data b >>= fun b =>
    segsLoopSrc width find_bytes rest b

open QR.SourceTieT in
/-- the segment loop on the translated BitBuffer computes the packing of the Model's header + data bits -/
theorem segsLoopSrc_eq (width : Nat → R Nat) (find_bytes : List Nat → R Nat) (hfb : ∀ a, find_bytes [a] = alphaFind a) :
    ∀ (segs : List Seg) (pre : List Bool),
      segsLoopSrc width find_bytes segs (bbRep pre) = (segsBits width segs).map fun bits => bbRep (pre ++ bits)
  | [], pre => by simp [segsLoopSrc, segsBits, Except.map]
  | s :: rest, pre => by
    unfold segsLoopSrc segsBits
    rw [put_src]
    simp only [R.bind_ok, qrdata_len]
    cases hw : width s.mode with
    | error e => rfl
    | ok w =>
      simp only [R.bind_ok]
      rw [put_src]
      simp only [R.bind_ok]
      rw [segWrite_bytes_src find_bytes hfb]
      cases hd : segWrite s with
      | error e => rfl
      | ok d =>
        simp only [Except.map, R.bind_ok]
        rw [segsLoopSrc_eq width find_bytes hfb rest]
        cases ht : segsBits width rest with
        | error e => rfl
        | ok tl => simp [Except.map, R.pure_eq, List.append_assoc]

end QR.CapstoneE2
