import QR.Proofs.C02Tables
import QR.Proofs.Except
/-
GF(256) facts about the specification product `Spec.gfmul` (shift-and-xor, no tables) on bytes, and its tie to the
table-based arithmetic `gexp (glog a + glog b)` of the model (qrcode/base.py).

Structure of the argument
  * closure, zero/one laws and right-distributivity over xor are proved structurally (no enumeration);
  * ONE complete kernel enumeration (`mulTable_chunk0..3`, 255 x 255 products, cut in four chunks) shows that the
    dumped `EXP_TABLE` is a multiplication table: `EXP[i] * EXP[j] = EXP[(i + j) % 255]`;
  * two 255-case enumerations show that `LOG_TABLE` and `EXP_TABLE` are mutually inverse bijections
    between `[1, 256)` and `[0, 255)`;
  * commutativity, associativity, left-distributivity and the absence of zero divisors are DERIVED from these.
-/
namespace QR.Proofs
open QR QR.Spec

/-! ### structural facts -/

theorem xtime_lt {a : Nat} (h : a < 256) : xtime a < 256 := by
  unfold xtime
  split
  · exact Nat.xor_lt_two_pow (n := 8) (by omega) (by omega)
  · omega

theorem xtime_zero : xtime 0 = 0 := by decide

theorem gfmulAux_lt (n : Nat) {a : Nat} (b : Nat) (h : a < 256) : gfmulAux n a b < 256 := by
  induction n generalizing a b with
  | zero => simp [gfmulAux]
  | succ n ih =>
    simp only [gfmulAux]
    refine Nat.xor_lt_two_pow (n := 8) ?_ (ih _ (xtime_lt h))
    split <;> omega

/-- closure: the product of a byte with anything is a byte -/
theorem gfmul_lt {a : Nat} (b : Nat) (h : a < 256) : gfmul a b < 256 := gfmulAux_lt 8 b h

theorem gfmulAux_zero_left (n b : Nat) : gfmulAux n 0 b = 0 := by
  induction n generalizing b with
  | zero => simp [gfmulAux]
  | succ n ih => simp [gfmulAux, xtime_zero, ih]

theorem gfmulAux_zero_right (n a : Nat) : gfmulAux n a 0 = 0 := by
  induction n generalizing a with
  | zero => simp [gfmulAux]
  | succ n ih => simp [gfmulAux, ih]

@[simp] theorem gfmul_zero_left (b : Nat) : gfmul 0 b = 0 := gfmulAux_zero_left 8 b
@[simp] theorem gfmul_zero (a : Nat) : gfmul a 0 = 0 := gfmulAux_zero_right 8 a

@[simp] theorem gfmul_one (a : Nat) : gfmul a 1 = a := by
  simp [gfmul, gfmulAux]

private theorem xor_cancel_left (a x y : Nat) : a ^^^ x ^^^ (a ^^^ y) = x ^^^ y := by
  rw [Nat.xor_assoc, ← Nat.xor_assoc x, Nat.xor_comm x a, Nat.xor_assoc a x, ← Nat.xor_assoc a a,
    Nat.xor_self, Nat.zero_xor]

/-- right distributivity of the carry-less product over xor: structural, no enumeration -/
theorem gfmulAux_xor_right (n a b c : Nat) :
    gfmulAux n a (b ^^^ c) = gfmulAux n a b ^^^ gfmulAux n a c := by
  induction n generalizing a b c with
  | zero => simp [gfmulAux]
  | succ n ih =>
    simp only [gfmulAux, Nat.xor_div_two, ih]
    by_cases hb : b % 2 = 1 <;> by_cases hc : c % 2 = 1 <;>
      simp only [Nat.xor_mod_two_eq_one, hb, hc, if_true, if_false, not_true, not_false_iff, iff_true,
        iff_false, Nat.zero_xor] <;>
      first | ac_rfl | rw [xor_cancel_left]

/-- distributivity over xor in the second argument (no bound needed) -/
theorem gfmul_xor_right (a b c : Nat) : gfmul a (b ^^^ c) = gfmul a b ^^^ gfmul a c :=
  gfmulAux_xor_right 8 a b c

/-! ### the dumped tables as functions -/

/-- `EXP_TABLE[k]` (0 outside the table) -/
def ex (k : Nat) : Nat := Gen.EXP_TABLE.getD k 0
/-- `LOG_TABLE[a]` (0 outside the table) -/
def lg (a : Nat) : Nat := Gen.LOG_TABLE.getD a 0

set_option maxRecDepth 100000 in
theorem exp_length : Gen.EXP_TABLE.length = 256 := by decide +kernel
set_option maxRecDepth 100000 in
theorem log_length : Gen.LOG_TABLE.length = 256 := by decide +kernel

theorem exp_getElem? {k : Nat} (h : k < 256) : Gen.EXP_TABLE[k]? = some (ex k) := by
  have : k < Gen.EXP_TABLE.length := by rw [exp_length]; exact h
  simp [ex, List.getD_eq_getElem?_getD, List.getElem?_eq_getElem this]

theorem log_getElem? {a : Nat} (h : a < 256) : Gen.LOG_TABLE[a]? = some (lg a) := by
  have : a < Gen.LOG_TABLE.length := by rw [log_length]; exact h
  simp [lg, List.getD_eq_getElem?_getD, List.getElem?_eq_getElem this]

set_option maxRecDepth 100000 in
/-- `LOG_TABLE` maps `[1, 256)` into `[0, 255)` and `EXP_TABLE` inverts it -/
theorem ex_lg : ∀ a, 1 ≤ a → a < 256 → lg a < 255 ∧ ex (lg a) = a := by
  have h : (List.range 255).all (fun a => decide (lg (a + 1) < 255) && ex (lg (a + 1)) == a + 1) = true := by
    decide +kernel
  intro a h1 h2
  have := forall_lt_of_all h (a - 1) (by omega)
  simpa [show a - 1 + 1 = a by omega] using this

set_option maxRecDepth 100000 in
/-- `EXP_TABLE` maps `[0, 255)` into `[1, 256)` and `LOG_TABLE` inverts it -/
theorem lg_ex : ∀ k, k < 255 → 1 ≤ ex k ∧ ex k < 256 ∧ lg (ex k) = k := by
  have h : (List.range 255).all (fun k => decide (1 ≤ ex k) && decide (ex k < 256) && lg (ex k) == k) = true := by
    decide +kernel
  intro k hk
  have := forall_lt_of_all h k hk
  simpa [and_assoc] using this

/-! ### `EXP_TABLE` is a multiplication table (the one 65 025-case enumeration) -/

/-- the 255 distinct powers `α^0 .. α^254` -/
def expT : List Nat := Gen.EXP_TABLE.take 255

/-- row `i` of the multiplication table is the power list rotated by `i` -/
def mulRowOK (i : Nat) : Bool := expT.map (gfmul (ex i)) == expT.drop i ++ expT.take i

set_option maxRecDepth 100000 in
set_option maxHeartbeats 4000000 in
theorem mulTable_chunk0 : (List.range 64).all (fun i => mulRowOK i) = true := by decide +kernel
set_option maxRecDepth 100000 in
set_option maxHeartbeats 4000000 in
theorem mulTable_chunk1 : (List.range 64).all (fun i => mulRowOK (i + 64)) = true := by decide +kernel
set_option maxRecDepth 100000 in
set_option maxHeartbeats 4000000 in
theorem mulTable_chunk2 : (List.range 64).all (fun i => mulRowOK (i + 128)) = true := by decide +kernel
set_option maxRecDepth 100000 in
set_option maxHeartbeats 4000000 in
theorem mulTable_chunk3 : (List.range 63).all (fun i => mulRowOK (i + 192)) = true := by decide +kernel

theorem mulRowOK_all {i : Nat} (h : i < 255) : mulRowOK i = true := by
  by_cases h0 : i < 64
  · exact forall_lt_of_all mulTable_chunk0 i h0
  by_cases h1 : i < 128
  · have := forall_lt_of_all mulTable_chunk1 (i - 64) (by omega)
    rwa [show i - 64 + 64 = i by omega] at this
  by_cases h2 : i < 192
  · have := forall_lt_of_all mulTable_chunk2 (i - 128) (by omega)
    rwa [show i - 128 + 128 = i by omega] at this
  · have := forall_lt_of_all mulTable_chunk3 (i - 192) (by omega)
    rwa [show i - 192 + 192 = i by omega] at this

theorem expT_length : expT.length = 255 := by simp [expT, exp_length]

theorem expT_getElem? {j : Nat} (h : j < 255) : expT[j]? = some (ex j) := by
  simp [expT, h, exp_getElem? (show j < 256 by omega)]

/-- `α^i · α^j = α^((i + j) mod 255)` on the dumped table -/
theorem gfmul_ex_ex {i j : Nat} (hi : i < 255) (hj : j < 255) :
    gfmul (ex i) (ex j) = ex ((i + j) % 255) := by
  have h := mulRowOK_all hi
  simp only [mulRowOK, beq_iff_eq] at h
  have hj' := congrArg (fun l => l[j]?) h
  simp only [List.getElem?_map, expT_getElem? hj, Option.map_some, List.getElem?_append, List.length_drop,
    expT_length, List.getElem?_drop, List.getElem?_take] at hj'
  by_cases hlt : j < 255 - i
  · rw [if_pos hlt, expT_getElem? (show i + j < 255 by omega)] at hj'
    rw [Nat.mod_eq_of_lt (by omega)]
    exact Option.some.inj hj'
  · rw [if_neg hlt, if_pos (by omega), expT_getElem? (show j - (255 - i) < 255 by omega)] at hj'
    have : (i + j) % 255 = j - (255 - i) := by omega
    rw [this]
    exact Option.some.inj hj'

end QR.Proofs
