import QR.Gen.Code
import QR.Model.Svg
/-
Translation validation for C13: the hand-written Model is PROVED equal to the expressions tools/translate.py (T2) extracts from
the Python AST of the current source on every run (lean/QR/Gen/Code.lean).  One file per property, so that a fragment that
changed (or became untranslatable) breaks the obligations of the property it belongs to and of no other.
-/
namespace QR.SourceTie
open QR QR.Model QR.Gen.Code

theorem isEye_eq (width row col : Nat) : is_eye width row col = isEye width row col := by
  unfold is_eye isEye
  simp [Bool.or_assoc]


end QR.SourceTie
