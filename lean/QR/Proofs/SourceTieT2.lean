import QR.Gen.Code
import QR.Model.Data
import QR.Proofs.Except
import QR.Proofs.StreamPack
/-
Translation validation, item C2: `util.BitBuffer` (`__init__`, `__len__`, `put_bit`, `put`, `get`) and `util.QRData.write`.
The fragments `QR.Gen.Code.bb_*` / `qw_*` are produced by tools/t2_fragments/frag_c2.py from the Python AST.

The Model represents a `BitBuffer` by the list of bits put so far; `buffer.buffer` is `packBytes bits`, `buffer.length` is
`bits.length`.  Here the byte-level state machine of the source (`bb_put_bit`: index `length // 8`, growth by `append(0)`, the
`|= 0x80 >> (length % 8)` update) is proved to maintain exactly this representation, `bb_put` to append `bitsBE num length`,
`bb_get` to read the bit back, and the translated `QRData.write` to equal `Model.segWrite` on every segment.
-/
namespace QR.SourceTieT
open QR QR.Model QR.Gen.Code

/-! ### BitBuffer.__init__, __len__ -/

/-- the representation of the Model's bit list as the Python object's fields `(buffer, length)` -/
def bbRep (bits : List Bool) : List Nat × Nat := (packBytes bits, bits.length)

theorem bbInit_src : bb_init = bbRep [] := by decide

theorem bbLen_src (bits : List Bool) : bb_len (bbRep bits).1 (bbRep bits).2 = bits.length := rfl

/-! ### BitBuffer.put_bit -/

/-- the two field updates of `put_bit` without the exception plumbing -/
private def putBitPure (buf : List Nat) (len : Nat) (b : Bool) : List Nat :=
  let buf := if buf.length ≤ len / 8 then buf ++ [0] else buf
  if b then buf.set (len / 8) (buf.getD (len / 8) 0 ||| (128 >>> (len % 8))) else buf

/-- `put_bit` raises (IndexError) only when the byte list is too short by more than the one byte it appends -/
private theorem put_bit_pure {ε : Type} (e : ε) (buf : List Nat) (len : Nat) (b : Bool) (h : len / 8 ≤ buf.length) :
    bb_put_bit e buf len b = .ok (putBitPure buf len b, len + 1) := by
  unfold bb_put_bit putBitPure
  cases b with
  | false => simp [bind, Except.bind]
  | true =>
    by_cases hg : buf.length ≤ len / 8
    · have hl : len / 8 = buf.length := by omega
      simp [hl, bind, Except.bind]
    · have hl : len / 8 < buf.length := by omega
      simp [hg, hl, bind, Except.bind]

private theorem packBytesAux_length (k : Nat) (bs : List Bool) : (packBytesAux k bs).length = k := by
  induction k generalizing bs with
  | zero => rfl
  | succ k ih => simp [packBytesAux, ih]

theorem packBytes_length (bs : List Bool) : (packBytes bs).length = (bs.length + 7) / 8 := packBytesAux_length _ _

private theorem packBytes_short (bs : List Bool) (h0 : 0 < bs.length) (h8 : bs.length ≤ 8) : packBytes bs = [byteOfBits bs] := by
  unfold packBytes
  have : (bs.length + 7) / 8 = 1 := by omega
  rw [this]; rfl

private theorem packBytes_long (bs : List Bool) (h8 : 8 ≤ bs.length) : packBytes bs = byteOfBits bs :: packBytes (bs.drop 8) := by
  unfold packBytes
  have : (bs.length + 7) / 8 = ((bs.drop 8).length + 7) / 8 + 1 := by rw [List.length_drop]; omega
  rw [this]; rfl

/-- appending one bit to at most seven: the bit lands at `0x80 >> length` -/
private theorem byteOfBits_snoc : ∀ (bs : List Bool) (b : Bool), bs.length < 8 →
    byteOfBits (bs ++ [b]) = byteOfBits bs ||| (if b then 128 >>> bs.length else 0)
  | [], b, _ => by revert b; decide
  | [a0], b, _ => by revert a0 b; decide
  | [a0, a1], b, _ => by revert a0 a1 b; decide
  | [a0, a1, a2], b, _ => by revert a0 a1 a2 b; decide
  | [a0, a1, a2, a3], b, _ => by revert a0 a1 a2 a3 b; decide
  | [a0, a1, a2, a3, a4], b, _ => by revert a0 a1 a2 a3 a4 b; decide
  | [a0, a1, a2, a3, a4, a5], b, _ => by revert a0 a1 a2 a3 a4 a5 b; decide
  | [a0, a1, a2, a3, a4, a5, a6], b, _ => by revert a0 a1 a2 a3 a4 a5 a6 b; decide
  | _ :: _ :: _ :: _ :: _ :: _ :: _ :: _ :: _, _, h => by simp at h; omega

private theorem putBitPure_cons (x : Nat) (buf : List Nat) (len : Nat) (b : Bool) (h : 8 ≤ len) :
    putBitPure (x :: buf) len b = x :: putBitPure buf (len - 8) b := by
  have h1 : len / 8 = (len - 8) / 8 + 1 := by omega
  have h2 : len % 8 = (len - 8) % 8 := by omega
  unfold putBitPure
  rw [h1, h2]
  by_cases hg : buf.length ≤ (len - 8) / 8 <;> cases b <;> simp [hg]

/-- the Model's packing of `bits ++ [b]` is what `put_bit` does to the packing of `bits` -/
theorem packBytes_snoc (b : Bool) : ∀ (k : Nat) (bits : List Bool), bits.length / 8 = k →
    packBytes (bits ++ [b]) = putBitPure (packBytes bits) bits.length b := by
  intro k
  induction k with
  | zero =>
    intro bits hk
    have h8 : bits.length < 8 := by omega
    by_cases h0 : bits.length = 0
    · have : bits = [] := List.eq_nil_of_length_eq_zero h0
      subst this
      revert b; decide
    · rw [packBytes_short bits (by omega) (by omega), packBytes_short (bits ++ [b]) (by simp) (by simp; omega),
        byteOfBits_snoc bits b h8]
      have hd : bits.length / 8 = 0 := by omega
      have hm : bits.length % 8 = bits.length := by omega
      unfold putBitPure
      cases b <;> simp [hd, hm]
  | succ k ih =>
    intro bits hk
    have h8 : 8 ≤ bits.length := by omega
    rw [packBytes_long bits h8, packBytes_long (bits ++ [b]) (by simp; omega), putBitPure_cons _ _ _ _ h8]
    have e1 : byteOfBits (bits ++ [b]) = byteOfBits bits := by
      unfold byteOfBits
      rw [List.take_append_of_le_length h8]
    have e2 : (bits ++ [b]).drop 8 = bits.drop 8 ++ [b] := List.drop_append_of_le_length h8
    rw [e1, e2, ih (bits.drop 8) (by rw [List.length_drop]; omega), List.length_drop]

/-- **BitBuffer.put_bit**: on the object that represents the bit list `bits`, `put_bit(b)` never raises and yields the object
    that represents `bits ++ [b]` (`buffer` = the Model's `packBytes`, `length` = the number of bits). -/
theorem put_bit_src {ε : Type} (e : ε) (bits : List Bool) (b : Bool) :
    bb_put_bit e (bbRep bits).1 (bbRep bits).2 b = .ok (bbRep (bits ++ [b])) := by
  unfold bbRep
  rw [put_bit_pure e _ _ _ (by rw [packBytes_length]; omega), ← packBytes_snoc b _ bits rfl]
  simp

/-! ### BitBuffer.put -/

private theorem bit_eq (bits i : Nat) : decide (((bits >>> i) &&& 1) = 1) = bits.testBit i := by
  rw [Nat.testBit, Nat.and_comm, Nat.one_and_eq_mod_two]
  by_cases h : (bits >>> i) % 2 = 1 <;> simp [h]

/-- `bitsBE num len` lists bit `len - i - 1` for `i` in `range(len)` -/
theorem bitsBE_eq_map (num : Nat) : ∀ len : Nat, bitsBE num len = (List.range len).map fun i => num.testBit (len - i - 1)
  | 0 => rfl
  | len + 1 => by
    rw [bitsBE, bitsBE_eq_map num len, List.range_succ_eq_map, List.map_cons, List.map_map]
    congr 1
    apply List.map_congr_left
    intro i _
    show num.testBit (len - i - 1) = num.testBit (len + 1 - (i + 1) - 1)
    congr 1; omega

private theorem foldlM_bits {σ : Type} (rep : List Bool → σ) (pb : σ → Bool → R σ)
    (h : ∀ bits b, pb (rep bits) b = .ok (rep (bits ++ [b]))) (g : Nat → Bool) :
    ∀ (l : List Nat) (bits : List Bool), l.foldlM (fun s i => pb s (g i)) (rep bits) = .ok (rep (bits ++ l.map g))
  | [], bits => by simp
  | i :: l, bits => by
    rw [List.foldlM_cons, h, R.bind_ok, foldlM_bits rep pb h g l]
    simp

/-- **BitBuffer.put**, for any representation `rep` of bit lists on which the callee `put_bit` appends one bit:
    `put(num, length)` appends the Model's `bitsBE num length`. -/
theorem put_src_gen {σ : Type} (rep : List Bool → σ) (pb : σ → Bool → R σ)
    (h : ∀ bits b, pb (rep bits) b = .ok (rep (bits ++ [b]))) (bits : List Bool) (num length : Nat) :
    bb_put pb (rep bits) num length = .ok (rep (bits ++ bitsBE num length)) := by
  unfold bb_put
  have hf : (fun (self : σ) (i : Nat) =>
        pb self (decide (((num >>> (((((length : Nat) : Int) - ((i : Nat) : Int)) - (1 : Int))).toNat) &&& 1) = 1)))
      = fun self i => pb self ((fun i => num.testBit (length - i - 1)) i) := by
    funext self i
    rw [bit_eq]
    congr 3; omega
  rw [hf, foldlM_bits rep pb h, bitsBE_eq_map]

/-- **BitBuffer.put** on the translated `put_bit`: the byte list / length pair after `put(num, length)` is the Model's
    packing of `bits ++ bitsBE num length`; no exception. -/
theorem put_src (bits : List Bool) (num length : Nat) :
    bb_put (fun (s : List Nat × Nat) b => bb_put_bit Err.indexError s.1 s.2 b) (bbRep bits) num length
      = .ok (bbRep (bits ++ bitsBE num length)) :=
  put_src_gen bbRep _ (fun bits b => put_bit_src Err.indexError bits b) bits num length

/-! ### BitBuffer.get -/

private theorem packBytes_getElem (bits : List Bool) : ∀ (k j : Nat), j = k → 8 * j < bits.length →
    (packBytes bits)[j]? = some (byteOfBits (bits.drop (8 * j))) := by
  intro k
  induction k generalizing bits with
  | zero =>
    intro j hj h
    subst hj
    by_cases h8 : 8 ≤ bits.length
    · rw [packBytes_long bits h8]; simp
    · rw [packBytes_short bits (by omega) (by omega)]; simp
  | succ k ih =>
    intro j hj h
    subst hj
    rw [packBytes_long bits (by omega), List.getElem?_cons_succ, ih (bits.drop 8) k rfl (by rw [List.length_drop]; omega),
      List.drop_drop]
    congr 3; omega

private theorem byteOfBits_testBit (bs : List Bool) (j : Nat) (hj : j < 8) (hl : j < bs.length) :
    (byteOfBits bs).testBit (7 - j) = bs[j] := by
  let l := bs.take 8 ++ List.replicate (8 - (bs.take 8).length) false
  have hlen : l.length = 8 := by
    simp only [l, List.length_append, List.length_take, List.length_replicate]; omega
  have h1 : bitsBE (byteOfBits bs) 8 = l := by
    have := bitsBE_bitsVal l
    rw [hlen] at this
    exact this
  have h2 : (bitsBE (byteOfBits bs) 8)[j]? = some ((byteOfBits bs).testBit (7 - j)) := by
    rw [bitsBE_eq_map]
    simp [hj]
    congr 1; omega
  rw [h1] at h2
  have h3 : l[j]? = some bs[j] := by
    have : j < (bs.take 8).length := by rw [List.length_take]; omega
    simp only [l]
    rw [List.getElem?_append_left this, List.getElem?_take_of_lt hj, List.getElem?_eq_getElem hl]
  rw [h3] at h2
  exact (Option.some.inj h2).symm

/-- **BitBuffer.get**: on the object representing `bits`, `get(index)` returns `bits[index]` for every index below the length
    (the Model has no `get`: it keeps the bit list itself). `math.floor(index / 8)` is read as floor division. -/
theorem get_src {ε : Type} (e : ε) (bits : List Bool) (index : Nat) (h : index < bits.length) :
    bb_get e (bbRep bits).1 (bbRep bits).2 index = .ok bits[index] := by
  unfold bb_get bbRep
  simp only
  rw [packBytes_getElem bits _ _ rfl (by omega)]
  simp only [bit_eq]
  have hs : ((7 : Int) - (((index % 8) : Nat) : Int)).toNat = 7 - index % 8 := by omega
  rw [hs, byteOfBits_testBit _ _ (Nat.mod_lt _ (by omega)) (by rw [List.length_drop]; omega)]
  simp only [List.getElem_drop]
  congr 2; omega

/-! ### QRData.write -/

/-- the module-level constants read by `write` -/
theorem write_consts_src : qw_MODE_NUMBER = Gen.MODE_NUMBER ∧ qw_MODE_ALPHA_NUM = Gen.MODE_ALPHA_NUM ∧
    qw_MODE_8BIT_BYTE = Gen.MODE_8BIT_BYTE ∧ qw_ALPHA_NUM = Gen.ALPHA_NUM := by decide

/-- `NUMBER_LENGTH[k]` on the dict literal of the source = the Model's lookup in the (sorted) generated table, KeyError included -/
theorem number_length_src (k : Nat) : qw_lookup Err.keyError qw_NUMBER_LENGTH k = dictGet Gen.NUMBER_LENGTH k := by
  match k with
  | 0 => rfl
  | 1 => rfl
  | 2 => rfl
  | 3 => rfl
  | k + 4 => simp [qw_lookup, dictGet, qw_NUMBER_LENGTH, Gen.NUMBER_LENGTH, List.lookup]

/-- `ALPHA_NUM.find(c)` for an int `c`, "not found" (-1 in Python) being the Model's rejection -/
theorem alphaFind_src (c : Nat) : qw_find_in Err.other qw_ALPHA_NUM c = alphaFind c := rfl

/-- the loop `for i in range(0, len(data), s): chars = data[i : i + s]; <body>` as a recursion over the remaining data -/
private def chunkFold {σ : Type} (s : Nat) (f : List Nat → σ → R σ) : Nat → List Nat → σ → R σ
  | 0, _, b => .ok b
  | n + 1, data, b => f (data.take s) b >>= chunkFold s f n (data.drop s)

private theorem slice_shift (data : List Nat) (s j t : Nat) :
    qw_slice data (0 + s * (j + 1)) (0 + s * (j + 1) + t) = qw_slice (data.drop s) (0 + s * j) (0 + s * j + t) := by
  unfold qw_slice
  apply List.ext_getElem?
  intro i
  simp only [Nat.zero_add, List.getElem?_drop, List.getElem?_take]
  have e : s * (j + 1) + i = s + (s * j + i) := by rw [Nat.mul_succ]; omega
  have c1 : (s + (s * j + i) < s * (j + 1) + t) ↔ i < t := by rw [Nat.mul_succ]; omega
  have c2 : (s * j + i < s * j + t) ↔ i < t := by omega
  rw [e]
  simp only [c1, c2]

private theorem chunk_loop {σ : Type} (s : Nat) (hs : s = 2 ∨ s = 3) (f : List Nat → σ → R σ) :
    ∀ (n : Nat) (data : List Nat) (b : σ), (data.length - 0 + s - 1) / s = n →
      (qw_range 0 data.length s).foldlM (fun buffer i => f (qw_slice data i (i + s)) buffer) b = chunkFold s f n data b := by
  intro n
  induction n with
  | zero =>
    intro data b h
    unfold qw_range
    rw [h]
    simp [chunkFold]
  | succ n ih =>
    intro data b h
    have hn : ((data.drop s).length - 0 + s - 1) / s = n := by
      rw [List.length_drop]
      rcases hs with rfl | rfl <;> omega
    have := ih (data.drop s) b
    unfold qw_range at ih ⊢
    rw [h, List.range_succ_eq_map, List.map_cons, List.foldlM_cons, List.map_map]
    have h0 : qw_slice data (0 + s * 0) (0 + s * 0 + s) = data.take s := by simp [qw_slice]
    rw [h0, chunkFold]
    congr 1
    funext b'
    rw [← ih (data.drop s) b' hn, hn, List.foldlM_map, List.foldlM_map]
    congr 1
    funext buffer k
    show f (qw_slice data (0 + s * (k + 1)) (0 + s * (k + 1) + s)) buffer = _
    rw [slice_shift]

section
variable {σ : Type} (rep : List Bool → σ) (put : σ → Nat → Nat → R σ)

/-- the body of the numeric loop, as translated (after `chars = self.data[i : i + 3]`) -/
private def numStep (chars : List Nat) (buffer : σ) : R σ :=
  (qw_lookup Err.keyError qw_NUMBER_LENGTH chars.length) >>= fun t1 =>
    let bit_length := t1; (intOfDigits chars) >>= fun t2 => put buffer t2 bit_length

/-- the body of the alphanumeric loop, as translated (after `chars = self.data[i : i + 2]`) -/
private def alStep (find_bytes : List Nat → R Nat) (chars : List Nat) (buffer : σ) : R σ :=
  (if decide (chars.length > 1) then
    (qw_index Err.indexError chars 0) >>= fun t3 => (qw_find_in Err.other qw_ALPHA_NUM t3) >>= fun t4 =>
    (qw_index Err.indexError chars 1) >>= fun t5 => (qw_find_in Err.other qw_ALPHA_NUM t5) >>= fun t6 =>
    put buffer ((t4 * 45) + t6) 11 else (find_bytes chars) >>= fun t7 => put buffer t7 6)

private theorem numeric_fold (hput : ∀ bits n l, put (rep bits) n l = .ok (rep (bits ++ bitsBE n l))) :
    ∀ (n : Nat) (data : List Nat) (pre : List Bool) (fuel : Nat), (data.length - 0 + 3 - 1) / 3 = n → data.length ≤ fuel →
      chunkFold 3 (numStep put) n data (rep pre) = (writeNumeric fuel data).map fun bits => rep (pre ++ bits) := by
  intro n
  induction n with
  | zero =>
    intro data pre fuel h _
    have : data = [] := List.eq_nil_of_length_eq_zero (by omega)
    subst this
    cases fuel <;> simp [chunkFold, writeNumeric, Except.map]
  | succ n ih =>
    intro data pre fuel h hf
    match data, fuel, h, hf with
    | [], _, h, _ => simp at h
    | c :: cs, 0, _, hf => simp at hf
    | c :: cs, fuel + 1, h, hf =>
      have hn : (((c :: cs).drop 3).length - 0 + 3 - 1) / 3 = n := by rw [List.length_drop]; omega
      have hf' : ((c :: cs).drop 3).length ≤ fuel := by rw [List.length_drop]; simp at hf ⊢; omega
      rw [chunkFold, writeNumeric, numStep, number_length_src]
      generalize c :: cs = data at hn hf' ⊢
      cases h1 : dictGet Gen.NUMBER_LENGTH (data.take 3).length with
      | error e => simp [Except.map]
      | ok len =>
        cases h2 : intOfDigits (data.take 3) with
        | error e => simp [Except.map]
        | ok v =>
          simp only [R.bind_ok, hput]
          rw [ih _ (pre ++ bitsBE v len) fuel hn hf']
          cases h3 : writeNumeric fuel (data.drop 3) with
          | error e => simp [Except.map]
          | ok rest => simp [Except.map]

private theorem alnum_fold (hput : ∀ bits n l, put (rep bits) n l = .ok (rep (bits ++ bitsBE n l)))
    (find_bytes : List Nat → R Nat) (hfb : ∀ a, find_bytes [a] = alphaFind a) :
    ∀ (n : Nat) (data : List Nat) (pre : List Bool), (data.length - 0 + 2 - 1) / 2 = n →
      chunkFold 2 (alStep put find_bytes) n data (rep pre) = (writeAlnum data).map fun bits => rep (pre ++ bits) := by
  intro n
  induction n with
  | zero =>
    intro data pre h
    have : data = [] := List.eq_nil_of_length_eq_zero (by omega)
    subst this
    simp [chunkFold, writeAlnum, Except.map]
  | succ n ih =>
    intro data pre h
    match data, h with
    | [], h => simp at h
    | [a], h =>
      have hn : n = 0 := by simp at h; omega
      subst hn
      rw [chunkFold, writeAlnum, alStep]
      simp only [List.take, List.length_singleton, hfb]
      cases h1 : alphaFind a with
      | error e => simp [Except.map]
      | ok x => simp [Except.map, hput, chunkFold]
    | a :: b :: rest, h =>
      have hn : (rest.length - 0 + 2 - 1) / 2 = n := by simp at h; omega
      rw [chunkFold, writeAlnum, alStep]
      simp only [List.take, List.drop, List.length_cons, List.length_nil, qw_index, alphaFind_src,
        List.getElem?_cons_zero, List.getElem?_cons_succ, R.bind_ok]
      cases h1 : alphaFind a with
      | error e => simp [Except.map]
      | ok x =>
        cases h2 : alphaFind b with
        | error e => simp [Except.map]
        | ok y =>
          simp only [R.bind_ok, hput]
          rw [if_pos (by simp), R.bind_ok, ih rest (pre ++ bitsBE (x * 45 + y) 11) hn]
          cases h3 : writeAlnum rest with
          | error e => simp [Except.map]
          | ok tl => simp [Except.map]

private theorem bytes_fold (hput : ∀ bits n l, put (rep bits) n l = .ok (rep (bits ++ bitsBE n l))) :
    ∀ (data : List Nat) (pre : List Bool),
      data.foldlM (fun buffer c => put buffer c 8) (rep pre) = .ok (rep (pre ++ writeBytes data))
  | [], pre => by simp [writeBytes]
  | c :: cs, pre => by
    rw [List.foldlM_cons, hput, R.bind_ok, bytes_fold hput cs]
    simp [writeBytes]

/-- **QRData.write**, complete, for every segment (any mode value, any bytes) and every buffer object: given that the callee
    `buffer.put(n, l)` appends `bitsBE n l` in the representation `rep` (see `put_src`), and that `bytes.find` of a one-byte
    string is `find` of that byte, the translated method maps the buffer representing `pre` to the buffer representing
    `pre ++ (the Model's segWrite bits)`, and raises exactly when the Model does, with the same exception
    (`KeyError` of `NUMBER_LENGTH[..]`, `int(chars)` = `intOfDigits`, "find = -1" = the Model's rejection `.other`). -/
theorem segWrite_src_gen (hput : ∀ bits n l, put (rep bits) n l = .ok (rep (bits ++ bitsBE n l)))
    (find_bytes : List Nat → R Nat) (hfb : ∀ a, find_bytes [a] = alphaFind a) (s : Seg) (pre : List Bool) :
    qw_write Err.keyError Err.indexError Err.other intOfDigits find_bytes put s.mode s.data (rep pre)
      = (segWrite s).map fun bits => rep (pre ++ bits) := by
  unfold qw_write segWrite
  rw [write_consts_src.1, write_consts_src.2.1]
  by_cases h1 : s.mode = Gen.MODE_NUMBER
  · rw [if_pos (decide_eq_true h1), if_pos h1]
    exact (chunk_loop 3 (Or.inr rfl) (numStep put) _ s.data (rep pre) rfl).trans
      (numeric_fold rep put hput _ s.data pre s.data.length rfl (Nat.le_refl _))
  · by_cases h2 : s.mode = Gen.MODE_ALPHA_NUM
    · rw [if_neg (by simpa using h1), if_pos (decide_eq_true h2), if_neg h1, if_pos h2]
      exact (chunk_loop 2 (Or.inl rfl) (alStep put find_bytes) _ s.data (rep pre) rfl).trans
        (alnum_fold rep put hput find_bytes hfb _ s.data pre rfl)
    · rw [if_neg (by simpa using h1), if_neg (by simpa using h2), if_neg h1, if_neg h2]
      show s.data.foldlM (fun buffer c => put buffer c 8) (rep pre) = _
      rw [bytes_fold rep put hput]
      simp [Except.map]

end

/-- **QRData.write** on the Model's own buffer (the bit list): `write` appends `segWrite s` -/
theorem segWrite_src (find_bytes : List Nat → R Nat) (hfb : ∀ a, find_bytes [a] = alphaFind a) (s : Seg) (pre : List Bool) :
    qw_write Err.keyError Err.indexError Err.other intOfDigits find_bytes (fun bits n l => .ok (bits ++ bitsBE n l))
        s.mode s.data pre
      = (segWrite s).map fun bits => pre ++ bits :=
  segWrite_src_gen id _ (fun _ _ _ => rfl) find_bytes hfb s pre

/-- **QRData.write over the translated BitBuffer**: with `buffer.put` = the translated `put` over the translated `put_bit`,
    the Python object `(buffer.buffer, buffer.length)` after `write` is the Model's packing of `pre ++ segWrite s`. -/
theorem segWrite_bytes_src (find_bytes : List Nat → R Nat) (hfb : ∀ a, find_bytes [a] = alphaFind a) (s : Seg) (pre : List Bool) :
    qw_write Err.keyError Err.indexError Err.other intOfDigits find_bytes
        (fun self n l => bb_put (fun (st : List Nat × Nat) b => bb_put_bit Err.indexError st.1 st.2 b) self n l)
        s.mode s.data (bbRep pre)
      = (segWrite s).map fun bits => bbRep (pre ++ bits) :=
  segWrite_src_gen bbRep _ (fun bits n l => put_src bits n l) find_bytes hfb s pre

end QR.SourceTieT
