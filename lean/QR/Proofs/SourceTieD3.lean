import QR.Gen.Code
import QR.Model.Penalty
import QR.Proofs.PenaltyRule3
import QR.Proofs.SourceTieT3
/-
Translation validation, package D3: `util._lost_point_level3` COMPLETE (both passes with their `iter(...)` / `next(it, None)`
Horspool skip) and `util.lost_point` (the sum of the four scanners).
The fragments `QR.Gen.Code.l3f_*` are produced by tools/t2_fragments/frag_d3.py from the Python AST on every run: the two
range bounds, the accumulator's initial value, the bodies of the two inner loops as state machines over the iterator position
(`l3f_row_step`, `l3f_col_step`: the 11-cell test with its index arithmetic, `lost_point += 40`, the skip test, `next`), and
the function assembled in statement order (`l3f_level3`).  Here the hand-written Model (`l3scan` on every row and every
column, as lists) is proved equal to it on every `n × n` matrix, for every `n ≥ 0`.
-/
namespace QR.SourceTieD3
open QR QR.Model QR.Gen.Code QR.SourceTieT

/-! ## `_lost_point_level3` -/

/-- what one iteration of either inner loop does, in terms of the line `g` it reads: the iterator position after the
    iteration (`pos + 1`, or `pos + 2` when the cell at `pos + 10` is dark) and the new `lost_point` -/
def stepSpec (g : Nat → Bool) (pos lost : Nat) : Nat × Nat :=
  (if g (pos + 10) then pos + 2 else pos + 1,
   lost + if cond3 (g pos) (g (pos + 1)) (g (pos + 2)) (g (pos + 3)) (g (pos + 4)) (g (pos + 5)) (g (pos + 6)) (g (pos + 7))
      (g (pos + 8)) (g (pos + 9)) (g (pos + 10)) then 40 else 0)

private theorem step_aux (a0 a1 a2 a3 a4 a5 a6 a7 a8 a9 a10 : Bool) (p lost : Nat) (c : Bool)
    (hc : c = cond3 a0 a1 a2 a3 a4 a5 a6 a7 a8 a9 a10) :
    (if c = true then (if a10 = true then (p + 1 + 1, lost + 40) else (p + 1, lost + 40))
      else (if a10 = true then (p + 1 + 1, lost) else (p + 1, lost)))
    = ((if a10 = true then p + 2 else p + 1), lost + if cond3 a0 a1 a2 a3 a4 a5 a6 a7 a8 a9 a10 = true then 40 else 0) := by
  subst hc
  cases cond3 a0 a1 a2 a3 a4 a5 a6 a7 a8 a9 a10 <;> cases a10 <;> rfl

private theorem cond_text : ∀ a0 a1 a2 a3 a4 a5 a6 a7 a8 a9 a10 : Bool,
    ((!a1) && a4 && (!a5) && a6 && (!a9) && ((a0 && a2 && a3 && (!a7) && (!a8) && (!a10)) ||
      ((!a0) && (!a2) && (!a3) && a7 && a8 && a10))) = cond3 a0 a1 a2 a3 a4 a5 a6 a7 a8 a9 a10 := by decide

/-- the translated body of the ROW pass (`for col in modules_range_short_iter`): it reads `modules[row][col + k]`, k = 0..10 -/
theorem row_step_src (m : Nat → Nat → Bool) (row col lost : Nat) :
    l3f_row_step m row col lost = stepSpec (fun c => m row c) col lost := by
  unfold l3f_row_step stepSpec
  simp only [Nat.add_zero]
  exact step_aux _ _ _ _ _ _ _ _ _ _ _ col lost _ (cond_text _ _ _ _ _ _ _ _ _ _ _)

/-- the translated body of the COLUMN pass (`for row in modules_range_short_iter`): it reads `modules[row + k][col]` -/
theorem col_step_src (m : Nat → Nat → Bool) (col row lost : Nat) :
    l3f_col_step m col row lost = stepSpec (fun r => m r col) row lost := by
  unfold l3f_col_step stepSpec
  simp only [Nat.add_zero]
  exact step_aux _ _ _ _ _ _ _ _ _ _ _ row lost _ (cond_text _ _ _ _ _ _ _ _ _ _ _)

/-- the literals of the translation: the two range bounds, the initial value, the dead stores `col = 0` / `row = 0`, the
    order and kind of the statements before each inner loop -/
theorem level3_literals :
    (∀ n, l3f_range0_stop n = (n : Int)) ∧ (∀ n, l3f_range1_stop n = (n : Int) - 10) ∧ l3f_init = 0 ∧
    l3f_row_dead_init = 0 ∧ l3f_col_dead_init = 0 ∧
    l3f_row_prologue = ["alias this_row", "iter modules_range_short_iter", "init col"] ∧
    l3f_col_prologue = ["iter modules_range_short_iter", "init row"] :=
  ⟨fun _ => rfl, fun _ => rfl, rfl, rfl, rfl, by decide, by decide⟩

/-! ### the fuel of `l3f_iter_run` is enough: fuel-free big-step semantics of the iterator loop -/

/-- `for x in it: body` over `it = iter(range(stop))` whose body may advance `it`, as an inductive big-step relation on
    (iterator position, accumulator): no fuel -/
inductive IterFor (stop : Nat) (step : Nat → Nat → Nat × Nat) : Nat → Nat → Nat → Prop
  | done (pos acc : Nat) : ¬ pos < stop → IterFor stop step pos acc acc
  | next (pos acc r : Nat) : pos < stop → IterFor stop step (step pos acc).1 (step pos acc).2 r → IterFor stop step pos acc r

theorem IterFor_det {stop : Nat} {step : Nat → Nat → Nat × Nat} {pos acc r1 r2 : Nat}
    (h1 : IterFor stop step pos acc r1) (h2 : IterFor stop step pos acc r2) : r1 = r2 := by
  induction h1 with
  | done pos acc hn =>
    cases h2 with
    | done _ _ _ => rfl
    | next _ _ _ hlt _ => exact absurd hlt hn
  | next pos acc r hlt _ ih =>
    cases h2 with
    | done _ _ hn => exact absurd hlt hn
    | next _ _ _ _ h => exact ih h

/-- for a body that leaves the iterator strictly ahead, the fuelled run with any fuel `≥ stop - pos` IS the loop's result -/
theorem iter_run_sound (stop : Nat) (step : Nat → Nat → Nat × Nat) (hadv : ∀ p a, p < (step p a).1) :
    ∀ (fuel pos acc : Nat), stop - pos ≤ fuel → IterFor stop step pos acc (l3f_iter_run stop step fuel pos acc) := by
  intro fuel
  induction fuel with
  | zero =>
    intro pos acc h
    rw [l3f_iter_run]
    exact IterFor.done pos acc (by omega)
  | succ fuel ih =>
    intro pos acc h
    rw [l3f_iter_run]
    by_cases hlt : pos < stop
    · rw [if_pos hlt]
      exact IterFor.next pos acc _ hlt (ih _ _ (by have := hadv pos acc; omega))
    · rw [if_neg hlt]
      exact IterFor.done pos acc hlt

/-- both translated bodies leave the iterator strictly ahead (by one or by two), whatever the matrix -/
theorem steps_advance (m : Nat → Nat → Bool) (o x lost : Nat) :
    x < (l3f_row_step m o x lost).1 ∧ x < (l3f_col_step m o x lost).1 := by
  rw [row_step_src, col_step_src]
  simp only [stepSpec]
  constructor <;> split <;> omega

/-- **both inner loops of `_lost_point_level3` terminate**, and the fuel `stop` the translation runs them with yields exactly the
    result of the fuel-free semantics (started at position 0, for every matrix, line index and incoming `lost_point`) -/
theorem inner_loops_terminate (m : Nat → Nat → Bool) (o stop lost : Nat) :
    IterFor stop (l3f_row_step m o) 0 lost (l3f_iter_run stop (l3f_row_step m o) stop 0 lost) ∧
    IterFor stop (l3f_col_step m o) 0 lost (l3f_iter_run stop (l3f_col_step m o) stop 0 lost) :=
  ⟨iter_run_sound stop _ (fun p a => (steps_advance m o p a).1) stop 0 lost (by omega),
   iter_run_sound stop _ (fun p a => (steps_advance m o p a).2) stop 0 lost (by omega)⟩

private theorem exists_11 (l : List Bool) (h : 11 ≤ l.length) :
    ∃ a0 a1 a2 a3 a4 a5 a6 a7 a8 a9 a10 t, l = a0::a1::a2::a3::a4::a5::a6::a7::a8::a9::a10::t := by
  rcases l with _ | ⟨a0, l⟩; · simp at h
  rcases l with _ | ⟨a1, l⟩; · simp at h
  rcases l with _ | ⟨a2, l⟩; · simp at h
  rcases l with _ | ⟨a3, l⟩; · simp at h
  rcases l with _ | ⟨a4, l⟩; · simp at h
  rcases l with _ | ⟨a5, l⟩; · simp at h
  rcases l with _ | ⟨a6, l⟩; · simp at h
  rcases l with _ | ⟨a7, l⟩; · simp at h
  rcases l with _ | ⟨a8, l⟩; · simp at h
  rcases l with _ | ⟨a9, l⟩; · simp at h
  rcases l with _ | ⟨a10, l⟩; · simp at h
  exact ⟨a0, a1, a2, a3, a4, a5, a6, a7, a8, a9, a10, l, rfl⟩

/-- one line: the position state machine started at position `k`, where the rest of the line is `l`, adds `l3scan l` -/
private theorem iter_run_line (g : Nat → Bool) (stop : Nat) (l : List Bool) :
    ∀ (fuel k acc : Nat), (∀ i, g (k + i) = l.getD i false) → stop = k + l.length - 10 → l.length - 10 ≤ fuel →
      l3f_iter_run stop (stepSpec g) fuel k acc = acc + l3scan l := by
  induction l using l3scan.induct with
  | case1 a0 a1 a2 a3 a4 a5 a6 a7 a8 a9 a10 t ih1 ih2 =>
    intro fuel k acc hg hstop hfuel
    simp only [List.length_cons] at hstop hfuel ih1 ih2
    cases fuel with
    | zero => omega
    | succ fuel =>
      have e0 : g k = a0 := by simpa using hg 0
      have e1 : g (k + 1) = a1 := by simpa using hg 1
      have e2 : g (k + 2) = a2 := by simpa using hg 2
      have e3 : g (k + 3) = a3 := by simpa using hg 3
      have e4 : g (k + 4) = a4 := by simpa using hg 4
      have e5 : g (k + 5) = a5 := by simpa using hg 5
      have e6 : g (k + 6) = a6 := by simpa using hg 6
      have e7 : g (k + 7) = a7 := by simpa using hg 7
      have e8 : g (k + 8) = a8 := by simpa using hg 8
      have e9 : g (k + 9) = a9 := by simpa using hg 9
      have e10 : g (k + 10) = a10 := by simpa using hg 10
      rw [l3f_iter_run, if_pos (by omega), l3scan]
      simp only [stepSpec, e0, e1, e2, e3, e4, e5, e6, e7, e8, e9, e10]
      cases a10 with
      | true =>
        simp only [if_true]
        rw [ih1 fuel (k + 2) _ (by
          intro i
          have := hg (i + 2)
          rw [show k + 2 + i = k + (i + 2) by omega, this]; simp) (by omega)
          (by omega)]
        omega
      | false =>
        simp only [Bool.false_eq_true, if_false]
        rw [ih2 fuel (k + 1) _ (by
          intro i
          have := hg (i + 1)
          rw [show k + 1 + i = k + (i + 1) by omega, this]; simp) (by omega)
          (by omega)]
        omega
  | case2 l hno =>
    intro fuel k acc hg hstop hfuel
    have hshort : l.length < 11 := by
      apply Nat.lt_of_not_le
      intro h
      obtain ⟨a0, a1, a2, a3, a4, a5, a6, a7, a8, a9, a10, t, rfl⟩ := exists_11 l h
      exact hno _ _ _ _ _ _ _ _ _ _ _ _ rfl
    have h0 : l3scan l = 0 := by
      rw [QR.Proofs.Rule3.rule3_line, QR.Proofs.Rule3.windows3_short l hshort]
    rw [h0]
    cases fuel with
    | zero => rfl
    | succ fuel => rw [l3f_iter_run, if_neg (by omega)]; rfl

/-- one pass: the outer `for` over `range(cnt)`, each iteration scanning the line `L o` of length `n` -/
private theorem pass_lines (n : Nat) (step : Nat → Nat → Nat → Nat × Nat) (L : Nat → List Bool)
    (hstep : ∀ o x acc, step o x acc = stepSpec (fun i => (L o).getD i false) x acc) :
    ∀ (cnt acc : Nat), (∀ o, o < cnt → (L o).length = n) →
      (List.range cnt).foldl (fun acc o => l3f_iter_run (n - 10) (step o) (n - 10) 0 acc) acc
        = acc + ((List.range cnt).map fun o => l3scan (L o)).sum := by
  intro cnt
  induction cnt with
  | zero => intro acc _; simp
  | succ cnt ih =>
    intro acc hL
    rw [List.range_succ, List.foldl_append, ih acc (fun o ho => hL o (by omega)), List.map_append, List.sum_append]
    simp only [List.foldl_cons, List.foldl_nil, List.map_cons, List.map_nil, List.sum_cons, List.sum_nil]
    have hs : step cnt = stepSpec (fun i => (L cnt).getD i false) := by
      funext x a; exact hstep cnt x a
    rw [hs, iter_run_line _ (n - 10) (L cnt) (n - 10) 0 _ (by intro i; simp) (by rw [hL cnt (by omega)]; omega)
      (by rw [hL cnt (by omega)]; omega)]
    omega

private theorem map_getD_range {α : Type} (l : List α) (d : α) :
    (List.range l.length).map (fun i => l.getD i d) = l := by
  apply List.ext_getElem
  · simp
  · intro i h1 h2
    simp [List.getElem?_eq_getElem h2]

private theorem col_getD (M : BMat) (c r : Nat) :
    (M.map fun row => row.getD c false).getD r false = lp_cell M r c := by
  unfold lp_cell
  simp only [List.getD_eq_getElem?_getD, List.getElem?_map]
  cases M[r]? <;> simp

/-- **`_lost_point_level3`, complete**: on every `n × n` matrix (every `n ≥ 0`; `range(n - 10)` is empty for `n ≤ 10`) the
    Model's `level3` (the list recursion `l3scan` on all rows and all columns) equals the translated source: `lost_point = 0`,
    the row pass `for row in range(n): it = iter(range(n - 10)); for col in it: <translated body>` and the column pass, both
    run as state machines over the iterator position (`next(it, None)` = one more advance). -/
theorem lostPointLevel3_src (M : BMat) (n : Nat) (hlen : M.length = n) (hrow : ∀ row ∈ M, row.length = n) :
    level3 M n = l3f_level3 (lp_cell M) n := by
  have hmem : ∀ i, i < n → (M.getD i []) ∈ M := by
    intro i hi
    have hi' : i < M.length := by omega
    rw [List.getD_eq_getElem?_getD, List.getElem?_eq_getElem hi']
    exact List.getElem_mem _
  have h0 : (l3f_range0_stop n).toNat = n := by unfold l3f_range0_stop; omega
  have h1 : (l3f_range1_stop n).toNat = n - 10 := by unfold l3f_range1_stop; omega
  unfold l3f_level3 l3f_pass
  simp only [h0, h1, l3f_init]
  rw [pass_lines n (l3f_row_step (lp_cell M)) (fun o => M.getD o []) (fun o x acc => row_step_src _ o x acc) n 0
      (fun o ho => hrow _ (hmem o ho)),
    pass_lines n (l3f_col_step (lp_cell M)) (fun c => M.map fun row => row.getD c false)
      (fun o x acc => by rw [col_step_src]; congr 1; funext i; exact (col_getD M o i).symm) n _
      (fun o _ => by simp [hlen])]
  unfold level3 columns
  rw [List.map_append, List.sum_append, Nat.zero_add, List.map_map]
  congr 2
  have := map_getD_range M ([] : List Bool)
  rw [hlen] at this
  conv => lhs; rw [← this]
  rw [List.map_map]
  rfl

/-! ## `lost_point` -/

/-- the callees of `lost_point`, in call order -/
theorem lost_point_literals : l3f_lost_point_callees =
    ["_lost_point_level1", "_lost_point_level2", "_lost_point_level3", "_lost_point_level4"] := by decide

/-- **`lost_point`**: the Model's `lostPoint` equals the translated function (`modules_count = len(modules)`, `lost_point = 0`,
    `lost_point = level1(..)`, three `lost_point += level_k(modules, modules_count)`, `return lost_point`) applied to the four
    TRANSLATED scanners (`level1Src`, `level2Src` of SourceTieT3, `l3f_level3`, and the exact value of the rule-4 float
    expression), for every square matrix. -/
theorem lost_point_src (M : BMat) (hrow : ∀ row ∈ M, row.length = M.length) :
    lostPoint M = l3f_lost_point List.length level1Src level2Src (fun M n => l3f_level3 (lp_cell M) n)
      (fun M n => (lp4_result (lp4_dark_count M) n).toNat) M := by
  unfold lostPoint l3f_lost_point
  simp only []
  rw [lostPointLevel1_src M _ rfl hrow, lostPointLevel2_src M _ rfl hrow, lostPointLevel3_src M _ rfl hrow,
    ← lostPointLevel4_src M M.length]
  simp

end QR.SourceTieD3
