import QR.Proofs.GF256Table
/-
GF(256) field laws for `Spec.gfmul` on bytes, derived from the structural facts and the multiplication-table
enumeration of `QR.Proofs.GF256Table`, and the tie between the model's table arithmetic (`glog`, `gexp`) and the field.
-/
namespace QR.Proofs
open QR QR.Spec

/-! ### field laws on bytes -/

/-- every non-zero product is a table look-up at the sum of the logarithms -/
theorem gfmul_eq_ex {a b : Nat} (ha1 : 1 ≤ a) (ha : a < 256) (hb1 : 1 ≤ b) (hb : b < 256) :
    gfmul a b = ex ((lg a + lg b) % 255) := by
  have ⟨hla, hea⟩ := ex_lg a ha1 ha
  have ⟨hlb, heb⟩ := ex_lg b hb1 hb
  have := gfmul_ex_ex hla hlb
  rwa [hea, heb] at this

theorem gfmul_comm {a b : Nat} (ha : a < 256) (hb : b < 256) : gfmul a b = gfmul b a := by
  by_cases ha0 : a = 0
  · subst ha0; simp
  by_cases hb0 : b = 0
  · subst hb0; simp
  rw [gfmul_eq_ex (by omega) ha (by omega) hb, gfmul_eq_ex (by omega) hb (by omega) ha, Nat.add_comm]

/-- no zero divisors -/
theorem gfmul_ne_zero {a b : Nat} (ha1 : 1 ≤ a) (ha : a < 256) (hb1 : 1 ≤ b) (hb : b < 256) :
    gfmul a b ≠ 0 := by
  rw [gfmul_eq_ex ha1 ha hb1 hb]
  have := (lg_ex ((lg a + lg b) % 255) (Nat.mod_lt _ (by omega))).1
  omega

theorem gfmul_assoc {a b c : Nat} (ha : a < 256) (hb : b < 256) (hc : c < 256) :
    gfmul (gfmul a b) c = gfmul a (gfmul b c) := by
  by_cases ha0 : a = 0
  · subst ha0; simp
  by_cases hb0 : b = 0
  · subst hb0; simp
  by_cases hc0 : c = 0
  · subst hc0; simp
  have ha1 : 1 ≤ a := by omega
  have hb1 : 1 ≤ b := by omega
  have hc1 : 1 ≤ c := by omega
  have hab := gfmul_eq_ex ha1 ha hb1 hb
  have hbc := gfmul_eq_ex hb1 hb hc1 hc
  have hk1 : (lg a + lg b) % 255 < 255 := Nat.mod_lt _ (by omega)
  have hk2 : (lg b + lg c) % 255 < 255 := Nat.mod_lt _ (by omega)
  have ⟨h1, h2, h3⟩ := lg_ex _ hk1
  have ⟨h4, h5, h6⟩ := lg_ex _ hk2
  rw [hab, hbc, gfmul_eq_ex h1 h2 hc1 hc, gfmul_eq_ex ha1 ha h4 h5, h3, h6]
  congr 1
  omega

@[simp] theorem one_gfmul {a : Nat} (ha : a < 256) : gfmul 1 a = a := by
  rw [gfmul_comm (by omega) ha, gfmul_one]

theorem xor_lt_256 {a b : Nat} (ha : a < 256) (hb : b < 256) : a ^^^ b < 256 :=
  Nat.xor_lt_two_pow (n := 8) ha hb

/-- distributivity over xor in the first argument -/
theorem gfmul_xor_left {a b c : Nat} (ha : a < 256) (hb : b < 256) (hc : c < 256) :
    gfmul (a ^^^ b) c = gfmul a c ^^^ gfmul b c := by
  rw [gfmul_comm (xor_lt_256 ha hb) hc, gfmul_xor_right, gfmul_comm hc ha, gfmul_comm hc hb]

/-- `(a·b)·c = (a·c)·b` -/
theorem gfmul_right_comm {a b c : Nat} (ha : a < 256) (hb : b < 256) (hc : c < 256) :
    gfmul (gfmul a b) c = gfmul (gfmul a c) b := by
  rw [gfmul_assoc ha hb hc, gfmul_comm hb hc, ← gfmul_assoc ha hc hb]

/-! ### the model's table arithmetic is the field product -/

theorem glog_eq {a : Nat} (ha1 : 1 ≤ a) (ha : a < 256) : Model.glog a = .ok (lg a) := by
  simp [Model.glog, idx, log_getElem? ha, show ¬ a < 1 by omega]

theorem lg_one : lg 1 = 0 := by decide

/-- `gexp` never fails -/
theorem gexp_eq (n : Int) : Model.gexp n = .ok (ex (n % 255).toNat) := by
  have : (n % 255).toNat < 256 := by omega
  simp [Model.gexp, idx, exp_getElem? this]

/-- `gexp(glog(a) + glog(b)) = a·b` for non-zero bytes -/
theorem gexp_add_lg {a b : Nat} (ha1 : 1 ≤ a) (ha : a < 256) (hb1 : 1 ≤ b) (hb : b < 256) :
    Model.gexp ((lg a : Int) + (lg b : Int)) = .ok (gfmul a b) := by
  have h : (((lg a : Int) + (lg b : Int)) % 255).toNat = (lg a + lg b) % 255 := by omega
  rw [gexp_eq, gfmul_eq_ex ha1 ha hb1 hb, h]

/-- the same with the `R` results of `glog` threaded through -/
theorem gexp_glog_add {a b : Nat} (ha1 : 1 ≤ a) (ha : a < 256) (hb1 : 1 ≤ b) (hb : b < 256) :
    (do let la ← Model.glog a; let lb ← Model.glog b; Model.gexp ((la : Int) + (lb : Int))) = .ok (gfmul a b) := by
  rw [glog_eq ha1 ha, glog_eq hb1 hb]
  exact gexp_add_lg ha1 ha hb1 hb

/-- the form used by `modStep`/`polyMod`: `gexp(glog(y) + (glog(s0) - glog(o0)))` with the monic divisor's `o0 = 1` -/
theorem gexp_modStep {y s : Nat} (hy1 : 1 ≤ y) (hy : y < 256) (hs1 : 1 ≤ s) (hs : s < 256) :
    Model.gexp ((lg y : Int) + ((lg s : Int) - (lg 1 : Int))) = .ok (gfmul y s) := by
  have h : (lg y : Int) + ((lg s : Int) - ((0 : Nat) : Int)) = (lg y : Int) + (lg s : Int) := by omega
  rw [lg_one, h, gexp_add_lg hy1 hy hs1 hs]

end QR.Proofs
