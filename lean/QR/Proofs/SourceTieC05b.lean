import QR.Gen.Code
import QR.Proofs.Blank
/-
Translation validation for C05, part 2: finder / alignment / timing pattern tests and loop ranges as they stand in the source.
-/
namespace QR.SourceTie
open QR QR.Model QR.Gen.Code

/-- the three-clause colour test of `setup_position_probe_pattern` is the `probeDark` whose painting is proved in Blank.lean -/
theorem probe_dark_eq (r c : Int) : probe_dark r c = QR.probeDark r c := by
  unfold probe_dark QR.probeDark
  rw [Bool.eq_iff_iff]
  simp only [Bool.or_eq_true, Bool.and_eq_true, decide_eq_true_eq]
  omega

/-- its skip tests are the guard of `Mat.setI`, its loops run over -1..7 -/
theorem probe_skip_eq (n : Nat) (row col : Nat) (r c : Int) :
    (probe_skip_row n row r || probe_skip_col n col c) =
      decide ((row : Int) + r ≤ -1 ∨ (n : Int) ≤ (row : Int) + r ∨ (col : Int) + c ≤ -1 ∨ (n : Int) ≤ (col : Int) + c) := by
  unfold probe_skip_row probe_skip_col
  rw [Bool.eq_iff_iff]
  simp only [Bool.or_eq_true, decide_eq_true_eq]
  omega

theorem probe_range_eq : probe_range = ((-1, 8), (-1, 8)) := rfl

/-- the colour test of the 5x5 alignment pattern over its loop range -2..2 is the model's (shifted by 2) -/
theorem align_dark_eq : ∀ r' c' : Nat, r' < 5 → c' < 5 →
    align_dark ((r' : Int) - 2) ((c' : Int) - 2) = decide (r' = 0 ∨ r' = 4 ∨ c' = 0 ∨ c' = 4 ∨ (r' = 2 ∧ c' = 2)) := by
  intro r' c' hr hc
  unfold align_dark
  rw [Bool.eq_iff_iff]
  simp only [Bool.or_eq_true, Bool.and_eq_true, decide_eq_true_eq]
  omega

theorem align_range_eq : align_range = ((-2, 3), (-2, 3)) ∧ align_skip_test = "self.modules[row][col] is not None" := ⟨rfl, rfl⟩

/-- timing pattern: even index dark, indices 8 .. n-9, only cells still `None`, column 6 then row 6 -/
theorem timing_eq :
    (∀ i, timing_dark_0 i = decide (i % 2 = 0)) ∧ (∀ i, timing_dark_1 i = decide (i % 2 = 0)) ∧
    (∀ n, timing_range_0 n = (8, n - 8)) ∧ (∀ n, timing_range_1 n = (8, n - 8)) ∧
    timing_target_0 = "self.modules[r][6]" ∧ timing_target_1 = "self.modules[6][c]" ∧
    timing_skip_0 = "self.modules[r][6] is not None" ∧ timing_skip_1 = "self.modules[6][c] is not None" :=
  ⟨fun _ => rfl, fun _ => rfl, fun _ => rfl, fun _ => rfl, rfl, rfl, rfl, rfl⟩

end QR.SourceTie
