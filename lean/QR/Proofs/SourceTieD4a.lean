import QR.Gen.Code
import QR.Model.Render
import QR.Proofs.SourceTieC12
/-
Translation validation, package D4, part a: the tail of `QRCode.make_image` (drawing loop, `process()`) and `PilImage.drawrect`
as translated statement by statement from the Python AST (`rd_make_image_draw`, `rd_pil_drawrect` in QR/Gen/Code.lean), against
`Model.pilRaster` / `Model.pixelBox`: the sequence of `self._idr.rectangle(box, fill=self.fill_color)` calls made for a matrix is
the list of pixel boxes of the dark cells in row-major order, and the Model's raster is these boxes drawn in that order.
-/
namespace QR.SourceTieD4
open QR QR.Model QR.Gen.Code

/-! ### loops that append -/

theorem foldl_append_filter {α β : Type} (p : β → Bool) (g : β → α) (l : List β) (init : List α) :
    l.foldl (fun acc c => if p c then acc ++ [g c] else acc) init
      = init ++ l.filterMap (fun c => if p c then some (g c) else none) := by
  induction l generalizing init with
  | nil => simp
  | cons a t ih =>
    simp only [List.foldl_cons, ih, List.filterMap_cons]
    cases p a <;> simp

theorem foldl_append_flat {α β : Type} (g : β → List α) (l : List β) (init : List α) :
    l.foldl (fun acc r => acc ++ g r) init = init ++ l.flatMap g := by
  induction l generalizing init with
  | nil => simp
  | cons a t ih => simp only [List.foldl_cons, ih, List.flatMap_cons, List.append_assoc]

theorem foldl_flatMap' {α β γ : Type} (f : γ → α → γ) (g : β → List α) (l : List β) (init : γ) :
    (l.flatMap g).foldl f init = l.foldl (fun acc r => (g r).foldl f acc) init := by
  induction l generalizing init with
  | nil => rfl
  | cons a t ih => simp only [List.flatMap_cons, List.foldl_append, List.foldl_cons, ih]

theorem foldl_filterMap' {α β γ : Type} (f : γ → α → γ) (p : β → Bool) (g : β → α) (l : List β) (init : γ) :
    (l.filterMap (fun c => if p c then some (g c) else none)).foldl f init
      = l.foldl (fun acc c => if p c then f acc (g c) else acc) init := by
  induction l generalizing init with
  | nil => rfl
  | cons a t ih =>
    simp only [List.filterMap_cons, List.foldl_cons]
    cases h : p a <;> simp [ih]

/-! ### the class flags `make_image` reads -/

/-- (needs_drawrect, needs_context, needs_processing) of an image class, from the table generated from the class bodies -/
def flagsOf (cls : String) : Bool × Bool × Bool := (rd_class_flags.lookup cls).getD (false, false, false)

/-- the tail of `make_image` run for an image of class `cls` -/
def makeImageDraw {S : Type} (cls : String) (modules_count : Nat) (modules : List (List Bool))
    (drawrect_context drawrect : Nat → Nat → S → S) (process : S → S) (im : S) : S :=
  rd_make_image_draw (flagsOf cls).1 (flagsOf cls).2.1 (flagsOf cls).2.2 modules_count modules drawrect_context drawrect process im

theorem flags_pil : flagsOf "PilImage" = (true, false, false) := by decide
theorem flags_pypng : flagsOf "PyPNGImage" = (false, false, false) := by decide
theorem flags_styled : flagsOf "StyledPilImage" = (true, true, true) := by decide

/-- `make_image` hands the factory `border, modules_count, box_size` in this order, and the matrix as `qrcode_modules` -/
theorem makeImage_factory_literals :
    rd_make_image_factory_args = ["self.border", "self.modules_count", "self.box_size"] ∧
    rd_make_image_factory_kwargs = [("qrcode_modules", "self.modules"), ("**", "kwargs")] := by decide

/-- the translated tail of `make_image` in closed form: a row-major double loop over `range(modules_count)²`; with
    `needs_context` every cell goes to `drawrect_context`, otherwise the dark cells go to `drawrect`; then `process()` -/
theorem makeImageDraw_src {S : Type} (nd nc np : Bool) (n : Nat) (M : Mods) (ctx dr : Nat → Nat → S → S) (process : S → S) (im : S) :
    rd_make_image_draw nd nc np n M ctx dr process im =
      let cell : Nat → Nat → S → S := fun r c im =>
        if nc then ctx r c im else if (M.getD r []).getD c false then dr r c im else im
      let im := if nd then (List.range n).foldl (fun im r => (List.range n).foldl (fun im c => cell r c im) im) im else im
      if np then process im else im := by
  unfold rd_make_image_draw
  cases nd <;> cases np <;> rfl

/-- a PyPNG image is not drawn cell by cell at all (`needs_drawrect = False`): `make_image` leaves it as the factory built it -/
theorem pypng_untouched_src {S : Type} (n : Nat) (M : Mods) (ctx dr : Nat → Nat → S → S) (process : S → S) (im : S) :
    makeImageDraw "PyPNGImage" n M ctx dr process im = im := by
  unfold makeImageDraw
  rw [flags_pypng, makeImageDraw_src]
  rfl

/-! ### Pillow -/

/-- the `rectangle(box, fill)` calls the Model expects: the pixel boxes of the dark cells, row-major, all with the fill colour -/
def pilCalls {Fill : Type} (fill : Fill) (M : Mods) (width border boxSize : Nat) : List (((Nat × Nat) × (Nat × Nat)) × Fill) :=
  (List.range width).flatMap fun r => (List.range width).filterMap fun c =>
    if (M.getD r []).getD c false then some (pixelBox border boxSize r c, fill) else none

theorem pilDrawrect_literals :
    rd_pil_drawrect_callee = "self._idr.rectangle" ∧ rd_pil_drawrect_keywords = ["fill"] := by decide

/-- `PilImage.drawrect(row, col)`: exactly one call `self._idr.rectangle(pixel_box(row, col), fill=self.fill_color)` -/
theorem pilDrawrect_src {Fill : Type} (border boxSize : Nat) (fill : Fill) (row col : Nat) (idr : List (rd_Box × Fill)) :
    rd_pil_drawrect border boxSize fill row col idr = idr ++ [(pixelBox border boxSize row col, fill)] := rfl

/-- (a) `make_image` with the `PilImage` factory: the `rectangle` calls received by the `ImageDraw` object, in order, are the
    Model's pixel boxes of the dark cells in row-major order, each with `fill = self.fill_color`; `drawrect_context` and `process`
    are never called (whatever they are) -/
theorem pilCalls_src {Fill : Type} (fill : Fill) (M : Mods) (width border boxSize : Nat)
    (ctx : Nat → Nat → List (rd_Box × Fill) → List (rd_Box × Fill)) (process : List (rd_Box × Fill) → List (rd_Box × Fill))
    (idr : List (rd_Box × Fill)) :
    makeImageDraw "PilImage" width M ctx (rd_pil_drawrect border boxSize fill) process idr
      = idr ++ pilCalls fill M width border boxSize := by
  unfold makeImageDraw
  rw [flags_pil, makeImageDraw_src]
  simp only [Bool.false_eq_true, if_false, if_true, pilDrawrect_src]
  unfold pilCalls
  rw [← foldl_append_flat]
  congr 1
  funext acc r
  rw [foldl_append_filter (fun c => (M.getD r []).getD c false) (fun c => (pixelBox border boxSize r c, fill))]

/-- the Model's Pillow raster is the blank canvas with the boxes of these calls drawn in this order -/
theorem pilRaster_calls {Fill : Type} (fill : Fill) (M : Mods) (width border boxSize : Nat) :
    pilRaster M width border boxSize
      = ((pilCalls fill M width border boxSize).map (·.1)).foldl drawBox
          (Array.replicate (pixelSize width border boxSize) (Array.replicate (pixelSize width border boxSize) false)) := by
  unfold pilRaster pilCalls
  rw [List.foldl_map, foldl_flatMap']
  dsimp only
  congr 1
  funext cv r
  rw [foldl_filterMap' (fun cv (b : ((Nat × Nat) × (Nat × Nat)) × Fill) => drawBox cv b.1)
    (fun c => (M.getD r []).getD c false) (fun c => (pixelBox border boxSize r c, fill))]

/-- (a) end to end: running the translated `make_image` tail with the translated `PilImage.drawrect` on a fresh `ImageDraw`
    and painting the received rectangles in order gives `Model.pilRaster` -/
theorem pilRaster_src (M : Mods) (width border boxSize : Nat)
    (ctx : Nat → Nat → List (rd_Box × Unit) → List (rd_Box × Unit)) (process : List (rd_Box × Unit) → List (rd_Box × Unit)) :
    pilRaster M width border boxSize
      = ((makeImageDraw "PilImage" width M ctx (rd_pil_drawrect border boxSize ()) process []).map (·.1)).foldl drawBox
          (Array.replicate (pixel_size border width boxSize) (Array.replicate (pixel_size border width boxSize) false)) := by
  rw [pilCalls_src, List.nil_append, pilRaster_calls ()]
  rfl

end QR.SourceTieD4
