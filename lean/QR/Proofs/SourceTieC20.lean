import QR.Gen.Code
/-
Translation validation, literals as they stand in the source: release.update_manpage (C20).
-/
namespace QR.SourceTie
open QR.Gen.Code

/-- update_manpage: package name, page path, the split pattern, the header prefix, the field indices 3 and 1, the bound 5 -/
theorem release_literals :
    release_strings = ["qrcode", "doc", "qr.1", "name", "\"([^\"]*)\"", ".TH ", "new_version", "new_version", "%-d %b %Y", "w", "\""] ∧
    release_ints = [5, 3, 3, 1] := by decide

end QR.SourceTie
