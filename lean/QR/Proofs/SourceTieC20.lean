import QR.Gen.Code
/-
Translation validation for C20 and for QRData.write (C06): the literals the model depends on, as they stand in the source.
-/
namespace QR.SourceTie
open QR.Gen.Code

/-- update_manpage: package name, page path, the split pattern, the header prefix, the field indices 3 and 1, the bound 5 -/
theorem release_literals :
    release_strings = ["qrcode", "doc", "qr.1", "name", "\"([^\"]*)\"", ".TH ", "new_version", "new_version", "%-d %b %Y", "w", "\""] ∧
    release_ints = [5, 3, 3, 1] := by decide

/-- QRData.write: digits in groups of 3 (widths from NUMBER_LENGTH), alphanumerics in pairs 45·a+b in 11 bits / singles in 6,
    bytes in 8 -/
theorem write_literals :
    write_steps = [3, 2] ∧
    write_puts = ["buffer.put(int(chars), bit_length)", "buffer.put(c, 8)",
      "buffer.put(ALPHA_NUM.find(chars[0]) * 45 + ALPHA_NUM.find(chars[1]), 11)", "buffer.put(ALPHA_NUM.find(chars), 6)"] := by decide

end QR.SourceTie
