import QR.Props.C01
import QR.Props.C05
/-
C09 against the Spec, stated with C01's Boolean view `symOf M` of the compiled matrix (the view handed to the strict reader
`Spec.read` in C01 and to `Spec.chooseMask` by the oracle sweep).  `symOf` is defined in QR/Props/C01.lean, which imports
QR/Props/C09.lean, so these instances of `C09_trial_candidate` / `C09_chooseMask` live downstream of both.
-/
namespace QR.Props
open QR

/-- the trial symbol for mask `i` equals the Spec candidate derived from the final symbol -/
theorem C09_trial_candidate_symOf (v level m i : Nat) (data : List Nat)
    (h1 : 1 ≤ v) (h40 : v ≤ 40) (hl : level < 4) (hm : m < 8) (hi : i < 8)
    (M Mi : Model.Mat) (hM : Model.makeImpl v level false m data = .ok M)
    (hMi : Model.makeImpl v level true i data = .ok Mi) :
    Mi.toBMat = Spec.candidate (symOf M) v m i :=
  C09_trial_candidate v level m i data h1 h40 hl hm hi M Mi hM hMi (symOf M)
    (C05_size_definite v level m false data h1 h40 hl hm M hM).1 (fun _ _ _ _ => rfl)

/-- **C09 (main, against the Spec)**: the mask recorded in and applied to a compiled symbol is exactly the ISO minimiser
    computed from that symbol alone by the Spec -/
theorem C09_chooseMask_symOf (cfg : Model.Cfg) (hcfg : cfg.Valid) (l : Spec.Level) (hl : cfg.level = l.indicator)
    (segs : List Model.Seg) (hv : ∀ s ∈ segs, s.Valid) (hm : cfg.mask = none)
    (v m : Nat) (M : Model.Mat) (h : Model.compile cfg segs = .ok (v, m, M)) :
    Spec.chooseMask (symOf M) v m = m :=
  C09_chooseMask cfg hcfg l hl segs hv hm v m M h (symOf M) rfl (fun _ _ => rfl)

end QR.Props
