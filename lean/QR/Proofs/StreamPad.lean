import QR.Proofs.StreamFit
/-
Item 5 (C06): terminator, zero fill to the codeword boundary and alternating pad codewords, as appended by
`create_data`, are what `Spec.tailOK` accepts; the total length is the data capacity.
-/
namespace QR
open Model

set_option maxRecDepth 100000 in
/-- `bit_limit` (sum of the data codewords of the RS blocks, times 8) is the ISO data capacity -/
theorem bitLimit_table : ∀ v, v < 40 → ∀ l ∈ Props.allLevels,
    ((Spec.isoBlocks (v + 1) l).map fun b => b.2 * 8).sum = Spec.capacityBits (v + 1) l := by
  have h : (List.range 40).all (fun v => Props.allLevels.all fun l =>
      ((Spec.isoBlocks (v + 1) l).map fun b => b.2 * 8).sum == Spec.capacityBits (v + 1) l) = true := by
    decide +kernel
  intro v hv l hl
  simpa using forall_mem_of_all (forall_lt_of_all h v hv) l hl

/-! ### pad codewords -/

theorem padBytes_eq (n : Nat) :
    padBytes n = (List.range' 0 n).flatMap fun i => bitsBE (if i % 2 = 0 then Gen.PAD0 else Gen.PAD1) 8 := by
  rw [padBytes, List.range_eq_range']

theorem padFrom_length (i n : Nat) :
    ((List.range' i n).flatMap fun i => bitsBE (if i % 2 = 0 then Gen.PAD0 else Gen.PAD1) 8).length = 8 * n := by
  induction n generalizing i with
  | zero => rfl
  | succ n ih => rw [List.range'_succ, List.flatMap_cons, List.length_append, bitsBE_length, ih]; omega

@[simp] theorem padBytes_length (n : Nat) : (padBytes n).length = 8 * n := by
  rw [padBytes_eq, padFrom_length]

theorem padsOKAux_padFrom (i n : Nat) :
    Spec.padsOKAux n i ((List.range' i n).flatMap fun i => bitsBE (if i % 2 = 0 then Gen.PAD0 else Gen.PAD1) 8)
      = true := by
  induction n generalizing i with
  | zero => rfl
  | succ n ih =>
    rw [List.range'_succ, List.flatMap_cons]
    simp only [Spec.padsOKAux, take_bitsBE_append, drop_bitsBE_append, bitsBE_length, ih, Bool.and_true,
      BEq.rfl, Bool.true_and]
    by_cases h : i % 2 = 0
    · have : Spec.bitsVal (bitsBE Gen.PAD0 8) = 0xEC := by decide
      simp [h, this]
    · have : Spec.bitsVal (bitsBE Gen.PAD1 8) = 0x11 := by decide
      simp [h, this]

theorem padsOK_padBytes (n : Nat) : Spec.padsOK (padBytes n) = true := by
  have : (8 * n + 7) / 8 = n := by omega
  rw [Spec.padsOK, padBytes_length, this, padBytes_eq]
  exact padsOKAux_padFrom 0 n

/-! ### the tail appended by `create_data` -/

/-- terminator length -/
def termLen (cap used : Nat) : Nat := min (cap - used) 4

/-- number of zero bits up to the codeword boundary -/
def fillLen (cap used : Nat) : Nat :=
  if (used + termLen cap used) % 8 ≠ 0 then 8 - (used + termLen cap used) % 8 else 0

/-- everything `create_data` appends after `used` segment bits when the capacity is `cap` bits -/
def tailBits (cap used : Nat) : List Bool :=
  List.replicate (termLen cap used) false ++ List.replicate (fillLen cap used) false ++
    padBytes ((cap - (used + termLen cap used + fillLen cap used)) / 8)

theorem fillLen_spec (cap used : Nat) :
    ((used + termLen cap used) % 8 = 0 ∧ fillLen cap used = 0) ∨
    ((used + termLen cap used) % 8 ≠ 0 ∧ fillLen cap used = 8 - (used + termLen cap used) % 8) := by
  by_cases h : (used + termLen cap used) % 8 = 0
  · left; exact ⟨h, by simp [fillLen, h]⟩
  · right; exact ⟨h, by simp [fillLen, h]⟩

theorem tailBits_length {cap used : Nat} (h8 : cap % 8 = 0) (hle : used ≤ cap) :
    (tailBits cap used).length = cap - used := by
  simp only [tailBits, List.length_append, List.length_replicate, padBytes_length]
  have ht : termLen cap used = min (cap - used) 4 := rfl
  rcases fillLen_spec cap used with ⟨h, hf⟩ | ⟨h, hf⟩ <;> omega

theorem tailBits_stops {cap used : Nat} (h8 : cap % 8 = 0) (hle : used ≤ cap) : StopsParse (tailBits cap used) := by
  by_cases h : cap - used < 4
  · left; rw [tailBits_length h8 hle]; exact h
  · right
    have ht : termLen cap used = 4 := by simp only [termLen]; omega
    simp only [tailBits, ht, List.append_assoc]
    rfl

theorem tailOK_tailBits {cap used : Nat} (h8 : cap % 8 = 0) (hle : used ≤ cap) :
    Spec.tailOK used (tailBits cap used) = true := by
  have hlen := tailBits_length h8 hle
  have ht : min 4 (tailBits cap used).length = termLen cap used := by rw [hlen, termLen]; omega
  have ht' : termLen cap used = min (cap - used) 4 := rfl
  have hz : (8 - (used + termLen cap used) % 8) % 8 = fillLen cap used := by
    rcases fillLen_spec cap used with ⟨h, hf⟩ | ⟨h, hf⟩ <;> omega
  have hle' : termLen cap used + fillLen cap used ≤ (tailBits cap used).length := by
    rw [hlen]
    rcases fillLen_spec cap used with ⟨h, hf⟩ | ⟨h, hf⟩ <;> omega
  simp only [Spec.tailOK, ht, hz]
  have hl : (List.replicate (termLen cap used) false ++ List.replicate (fillLen cap used) false).length =
      termLen cap used + fillLen cap used := by simp
  have htake : (tailBits cap used).take (termLen cap used + fillLen cap used) =
      List.replicate (termLen cap used) false ++ List.replicate (fillLen cap used) false := by
    rw [tailBits]; exact List.take_left' hl
  have hdrop : (tailBits cap used).drop (termLen cap used + fillLen cap used) =
      padBytes ((cap - (used + termLen cap used + fillLen cap used)) / 8) := by
    rw [tailBits]; exact List.drop_left' hl
  rw [htake, hdrop, padsOK_padBytes]
  simp [hle']

/-- `create_data` up to `create_bytes`, with the RS block table and the bit limit resolved to the ISO capacity -/
theorem dataBits_eq {v : Nat} (h1 : 1 ≤ v) (h40 : v ≤ 40) (l : Spec.Level) (segs : List Seg) :
    dataBits v l.indicator segs =
      (segsBits (fun m => lengthInBits m v) segs >>= fun buffer =>
        if buffer.length > Spec.capacityBits v l then .error .dataOverflow
        else .ok (buffer ++ tailBits (Spec.capacityBits v l) buffer.length)) := by
  obtain ⟨u, rfl⟩ : ∃ u, v = u + 1 := ⟨v - 1, by omega⟩
  have hb := Props.C02_table u (by omega) l (mem_allLevels_stream l)
  have hl := bitLimit_table u (by omega) l (mem_allLevels_stream l)
  unfold dataBits
  cases hs : segsBits (fun m => lengthInBits m (u + 1)) segs with
  | error e => rfl
  | ok buffer =>
    simp only [R.bind_ok, hb, hl]
    split
    · rfl
    · have ht : min (Spec.capacityBits (u + 1) l - buffer.length) 4 =
          termLen (Spec.capacityBits (u + 1) l) buffer.length := rfl
      simp only [R.pure_eq, List.length_append, List.length_replicate, ht, Except.ok.injEq]
      rcases fillLen_spec (Spec.capacityBits (u + 1) l) buffer.length with ⟨h, hf⟩ | ⟨h, hf⟩
      · simp only [tailBits, hf, h, ne_eq, not_true_eq_false, ↓reduceIte, List.replicate_zero, List.append_nil,
          Nat.add_zero, List.append_assoc, List.length_append, List.length_replicate]
      · simp only [tailBits, hf, h, ne_eq, not_false_eq_true, ↓reduceIte, List.append_assoc, List.length_append,
          List.length_replicate, Nat.add_assoc]

end QR
