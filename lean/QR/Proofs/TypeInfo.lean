import QR.Proofs.MatLemmasB
import QR.Proofs.C04Tables
import QR.Spec.Reader
/-
C04 - format and version information, geometric part: `setup_type_info` / `setup_type_number` write every bit of
the ISO format / version word at its ISO-assigned module (both copies) plus the dark module, touch nothing else,
and the Spec reader recovers level, mask and version from those cells.

Method: every list of positions (`Spec.fmtPos1`, `Spec.fmtPos2 n`, `Spec.verPos1 n`, `Spec.verPos2 n`, and the
position functions of the four loops of the Python code) gets a closed-form inverse `inv.. r c : Option Nat`
with `inv r c = some i ↔ i < k ∧ pos i = (r, c)`; everything else is linear arithmetic on `r`, `c`, `n`.
-/
namespace QR.GeoB
open QR

theorem idxOf_map_range {α} [BEq α] [LawfulBEq α] (pos : Nat → α) (p : α) (o : Option Nat) (k : Nat)
    (h : ∀ i, o = some i ↔ i < k ∧ pos i = p) : List.idxOf? p ((List.range k).map pos) = o := by
  cases o with
  | none =>
    rw [List.idxOf?_eq_none_iff]
    intro hm
    obtain ⟨i, hi, hp⟩ := List.mem_map.mp hm
    have := (h i).mpr ⟨List.mem_range.mp hi, hp⟩
    cases this
  | some i0 =>
    obtain ⟨hk, hp⟩ := (h i0).mp rfl
    unfold List.idxOf?
    rw [List.findIdx?_eq_some_iff_getElem]
    refine ⟨by simpa using hk, ?_, ?_⟩
    · simp only [List.getElem_map, List.getElem_range, hp, beq_self_eq_true]
    · intro j hj
      simp only [List.getElem_map, List.getElem_range, beq_iff_eq]
      intro hpj
      have := (h j).mpr ⟨by omega, hpj⟩
      injection this with this
      omega

def f1 (i : Nat) : Nat × Nat :=
  if i < 6 then (i, 8) else if i < 8 then (i + 1, 8) else if i < 9 then (8, 7) else (8, 14 - i)
def inv1 (r c : Nat) : Option Nat :=
  if c = 8 then (if r < 6 then some r else if r = 7 ∨ r = 8 then some (r - 1) else none)
  else if r = 8 then (if c = 7 then some 8 else if c < 6 then some (14 - c) else none) else none

theorem fmtPos1_eq : Spec.fmtPos1 = (List.range 15).map f1 := by decide

theorem inv1_iff (r c i : Nat) : inv1 r c = some i ↔ i < 15 ∧ f1 i = (r, c) := by
  unfold inv1 f1
  grind

def f2 (n i : Nat) : Nat × Nat := if i < 8 then (8, n - 1 - i) else (n - 15 + i, 8)
def inv2 (n r c : Nat) : Option Nat :=
  if r = 8 ∧ n - 8 ≤ c ∧ c < n then some (n - 1 - c)
  else if c = 8 ∧ n - 7 ≤ r ∧ r < n then some (r + 15 - n) else none

theorem inv2_iff (n : Nat) (hn : 21 ≤ n) (r c i : Nat) : inv2 n r c = some i ↔ i < 15 ∧ f2 n i = (r, c) := by
  unfold inv2 f2
  grind

def pv (n i : Nat) : Nat × Nat := if i < 6 then (i, 8) else if i < 8 then (i + 1, 8) else (n - 15 + i, 8)
def invV (n r c : Nat) : Option Nat :=
  if c = 8 then
    (if r < 6 then some r else if r = 7 ∨ r = 8 then some (r - 1)
     else if n - 7 ≤ r ∧ r < n then some (r + 15 - n) else none)
  else none
theorem invV_iff (n : Nat) (hn : 21 ≤ n) (r c i : Nat) : invV n r c = some i ↔ i < 15 ∧ pv n i = (r, c) := by
  unfold invV pv
  grind

def ph (n i : Nat) : Nat × Nat :=
  if i < 8 then (8, n - i - 1) else if i < 9 then (8, 15 - i - 1 + 1) else (8, 15 - i - 1)
def invH (n r c : Nat) : Option Nat :=
  if r = 8 then
    (if n - 8 ≤ c ∧ c < n then some (n - 1 - c) else if c = 7 then some 8
     else if c < 6 then some (14 - c) else none)
  else none
theorem invH_iff (n : Nat) (hn : 21 ≤ n) (r c i : Nat) : invH n r c = some i ↔ i < 15 ∧ ph n i = (r, c) := by
  unfold invH ph
  grind

def g1 (n i : Nat) : Nat × Nat := (i / 3, n - 11 + i % 3)
def g2 (n i : Nat) : Nat × Nat := (n - 11 + i % 3, i / 3)
def invG1 (n r c : Nat) : Option Nat :=
  if r < 6 ∧ n - 11 ≤ c ∧ c ≤ n - 9 then some (3 * r + (c - (n - 11))) else none
def invG2 (n r c : Nat) : Option Nat :=
  if c < 6 ∧ n - 11 ≤ r ∧ r ≤ n - 9 then some (3 * c + (r - (n - 11))) else none
theorem invG1_iff (n : Nat) (hn : 21 ≤ n) (r c i : Nat) : invG1 n r c = some i ↔ i < 18 ∧ g1 n i = (r, c) := by
  unfold invG1 g1
  grind
theorem invG2_iff (n : Nat) (hn : 21 ≤ n) (r c i : Nat) : invG2 n r c = some i ↔ i < 18 ∧ g2 n i = (r, c) := by
  unfold invG2 g2
  grind

theorem data_eq (level mask : Nat) (hm : mask < 8) : (level <<< 3) ||| mask = level * 8 + mask := by
  rw [← Nat.shiftLeft_add_eq_or_of_lt (by omega), Nat.shiftLeft_eq]

theorem fmtPos2_eq (n : Nat) : Spec.fmtPos2 n = (List.range 15).map (f2 n) := rfl
theorem verPos1_eq (n : Nat) : Spec.verPos1 n = (List.range 18).map (g1 n) := rfl
theorem verPos2_eq (n : Nat) : Spec.verPos2 n = (List.range 18).map (g2 n) := rfl

theorem posIdx_fmtPos1 (r c : Nat) : Spec.posIdx Spec.fmtPos1 r c = inv1 r c := by
  rw [Spec.posIdx, fmtPos1_eq]; exact idxOf_map_range f1 (r, c) _ 15 (inv1_iff r c)
theorem posIdx_fmtPos2 (n : Nat) (hn : 21 ≤ n) (r c : Nat) : Spec.posIdx (Spec.fmtPos2 n) r c = inv2 n r c := by
  rw [Spec.posIdx, fmtPos2_eq]; exact idxOf_map_range (f2 n) (r, c) _ 15 (inv2_iff n hn r c)
theorem posIdx_verPos1 (n : Nat) (hn : 21 ≤ n) (r c : Nat) : Spec.posIdx (Spec.verPos1 n) r c = invG1 n r c := by
  rw [Spec.posIdx, verPos1_eq]; exact idxOf_map_range (g1 n) (r, c) _ 18 (invG1_iff n hn r c)
theorem posIdx_verPos2 (n : Nat) (hn : 21 ≤ n) (r c : Nat) : Spec.posIdx (Spec.verPos2 n) r c = invG2 n r c := by
  rw [Spec.posIdx, verPos2_eq]; exact idxOf_map_range (g2 n) (r, c) _ 18 (invG2_iff n hn r c)

/-- closed form of `Spec.infoCell` -/
theorem infoCell_eq (v level mask : Nat) (hv : 1 ≤ v) (test : Bool) (r c : Nat) :
    Spec.infoCell v level mask test r c =
      match inv1 r c with
      | some i => some (!test && (Spec.formatWord (level * 8 + mask)).testBit i)
      | none =>
        match inv2 (Spec.size v) r c with
        | some i => some (!test && (Spec.formatWord (level * 8 + mask)).testBit i)
        | none =>
          if r = Spec.size v - 8 ∧ c = 8 then some (!test)
          else if v ≥ 7 then
            match invG1 (Spec.size v) r c with
            | some i => some (!test && (Spec.versionWord v).testBit i)
            | none =>
              match invG2 (Spec.size v) r c with
              | some i => some (!test && (Spec.versionWord v).testBit i)
              | none => none
          else none := by
  have hn : 21 ≤ Spec.size v := by simp only [Spec.size]; omega
  unfold Spec.infoCell
  simp only [posIdx_fmtPos1, posIdx_fmtPos2 _ hn, posIdx_verPos1 _ hn, posIdx_verPos2 _ hn,
    Spec.isDarkModule, Bool.and_eq_true, beq_iff_eq]
  rfl

/-- `Spec.infoCell` is defined exactly on the format, dark-module and version cells -/
theorem infoCell_isSome_iff (v level mask : Nat) (hv : 1 ≤ v) (test : Bool) (r c : Nat)
    (hr : r < Spec.size v) (hc : c < Spec.size v) :
    (Spec.infoCell v level mask test r c).isSome = true ↔
      (Spec.inFormat (Spec.size v) r c = true ∨ Spec.isDarkModule (Spec.size v) r c = true ∨
        Spec.inVersion v (Spec.size v) r c = true) := by
  rw [infoCell_eq v level mask hv]
  have hn : 21 ≤ Spec.size v := by simp only [Spec.size]; omega
  generalize Spec.size v = n at *
  simp only [inv1, inv2, invG1, invG2, Spec.inFormat, Spec.isDarkModule, Spec.inVersion]
  grind

/-- closed form of the cells after `setup_type_info` -/
theorem setupTypeInfo_get (n level mask : Nat) (test : Bool) (m : Model.Mat) (hn : 21 ≤ n)
    (hm : MatShape m n) :
    MatShape (Model.setupTypeInfo n level m test mask) n ∧
    ∀ r c, (Model.setupTypeInfo n level m test mask).get r c =
      if r = n - 8 ∧ c = 8 then some (!test) else
      match invH n r c with
      | some i => some (!test && (Model.bchTypeInfo ((level <<< 3) ||| mask)).testBit i)
      | none =>
        match invV n r c with
        | some i => some (!test && (Model.bchTypeInfo ((level <<< 3) ||| mask)).testBit i)
        | none => m.get r c := by
  generalize hb : Model.bchTypeInfo ((level <<< 3) ||| mask) = bits
  have e1 : (fun (m : Model.Mat) (i : Nat) =>
      let mod := !test && bits.testBit i
      if i < 6 then m.set i 8 (some mod)
      else if i < 8 then m.set (i + 1) 8 (some mod)
      else m.set (n - 15 + i) 8 (some mod)) =
      fun m i => m.set (pv n i).1 (pv n i).2 (some (!test && bits.testBit i)) := by
    funext m i
    simp only [pv]
    split
    · rfl
    · split <;> rfl
  have e2 : (fun (m : Model.Mat) (i : Nat) =>
      let mod := !test && bits.testBit i
      if i < 8 then m.set 8 (n - i - 1) (some mod)
      else if i < 9 then m.set 8 (15 - i - 1 + 1) (some mod)
      else m.set 8 (15 - i - 1) (some mod)) =
      fun m i => m.set (ph n i).1 (ph n i).2 (some (!test && bits.testBit i)) := by
    funext m i
    simp only [ph]
    split
    · rfl
    · split <;> rfl
  have hV := loop_get hm (pv n) (fun i => some (!test && bits.testBit i)) (invV n) 15
    (by intro i hi; simp only [pv]; grind)
    (invV_iff n hn)
  obtain ⟨sV, gV⟩ := hV
  have hH := loop_get sV (ph n) (fun i => some (!test && bits.testBit i)) (invH n) 15
    (by intro i hi; simp only [ph]; grind)
    (invH_iff n hn)
  obtain ⟨sH, gH⟩ := hH
  simp only [Model.setupTypeInfo, hb, e1, e2]
  refine ⟨matShape_set sH _ _ _, ?_⟩
  intro r c
  rw [get_set sH, gH r c, gV r c]
  have : (r = n - 8 ∧ c = 8 ∧ n - 8 < n ∧ 8 < n) ↔ (r = n - 8 ∧ c = 8) := by omega
  simp only [this]
  rfl

/-- closed form of the cells after `setup_type_number` -/
theorem setupTypeNumber_get (n v : Nat) (test : Bool) (m : Model.Mat) (hn : 21 ≤ n)
    (hm : MatShape m n) :
    MatShape (Model.setupTypeNumber n v m test) n ∧
    ∀ r c, (Model.setupTypeNumber n v m test).get r c =
      match invG2 n r c with
      | some i => some (!test && (Model.bchTypeNumber v).testBit i)
      | none =>
        match invG1 n r c with
        | some i => some (!test && (Model.bchTypeNumber v).testBit i)
        | none => m.get r c := by
  generalize hb : Model.bchTypeNumber v = bits
  have e1 : (fun (m : Model.Mat) (i : Nat) =>
      m.set (i / 3) (i % 3 + n - 8 - 3) (some (!test && bits.testBit i))) =
      fun m i => m.set (g1 n i).1 (g1 n i).2 (some (!test && bits.testBit i)) := by
    funext m i
    have : i % 3 + n - 8 - 3 = n - 11 + i % 3 := by omega
    simp only [g1, this]
  have e2 : (fun (m : Model.Mat) (i : Nat) =>
      m.set (i % 3 + n - 8 - 3) (i / 3) (some (!test && bits.testBit i))) =
      fun m i => m.set (g2 n i).1 (g2 n i).2 (some (!test && bits.testBit i)) := by
    funext m i
    have : i % 3 + n - 8 - 3 = n - 11 + i % 3 := by omega
    simp only [g2, this]
  have h1 := loop_get hm (g1 n) (fun i => some (!test && bits.testBit i)) (invG1 n) 18
    (by intro i hi; simp only [g1]; omega) (invG1_iff n hn)
  obtain ⟨s1, q1⟩ := h1
  have h2 := loop_get s1 (g2 n) (fun i => some (!test && bits.testBit i)) (invG2 n) 18
    (by intro i hi; simp only [g2]; omega) (invG2_iff n hn)
  obtain ⟨s2, q2⟩ := h2
  simp only [Model.setupTypeNumber, hb, e1, e2]
  refine ⟨s2, ?_⟩
  intro r c
  rw [q2 r c, q1 r c]
  rfl

/-- **C04, writer side**: after `setup_type_info` (and `setup_type_number` for versions ≥ 7) every cell of the
    matrix holds what `Spec.infoCell` prescribes (the bit of the ISO format / version word assigned to that
    module, or the dark module), and every other cell is untouched -/
theorem typeInfo_get (v level mask : Nat) (test : Bool) (m : Model.Mat)
    (hv1 : 1 ≤ v) (hv40 : v ≤ 40) (hl : level < 4) (hk : mask < 8) (hm : MatShape m (Spec.size v)) :
    let n := Spec.size v
    let m' := (if v ≥ 7 then Model.setupTypeNumber n v (Model.setupTypeInfo n level m test mask) test
               else Model.setupTypeInfo n level m test mask)
    MatShape m' n ∧ ∀ r c, r < n → c < n →
      m'.get r c = (match Spec.infoCell v level mask test r c with
                    | some b => some b
                    | none => m.get r c) := by
  intro n m'
  have hn : 21 ≤ n := by simp only [n, Spec.size]; omega
  obtain ⟨sI, gI⟩ := setupTypeInfo_get n level mask test m hn hm
  have hfw : Model.bchTypeInfo ((level <<< 3) ||| mask) = Spec.formatWord (level * 8 + mask) := by
    rw [data_eq level mask hk]; exact Props.C04_bch15 _ (by omega)
  have hvw : Model.bchTypeNumber v = Spec.versionWord v := Props.C04_bch18 v (by omega)
  rw [hfw] at gI
  by_cases h7 : v ≥ 7
  · obtain ⟨sN, gN⟩ := setupTypeNumber_get n v test _ hn sI
    rw [hvw] at gN
    have em : m' = Model.setupTypeNumber n v (Model.setupTypeInfo n level m test mask) test := by
      simp only [m', h7, if_true]
    rw [em]
    refine ⟨sN, ?_⟩
    intro r c hr hc
    rw [gN r c, gI r c, infoCell_eq v level mask hv1]
    simp only [h7, if_true]
    show _ = match (match inv1 r c with | some i => _ | none => _) with | some b => some b | none => m.get r c
    simp only [inv1, inv2, invG1, invG2, invV, invH]
    generalize (Spec.formatWord (level * 8 + mask)).testBit = F
    generalize (Spec.versionWord v).testBit = W
    generalize m.get r c = x
    have hn' : n = Spec.size v := rfl
    rw [← hn']
    clear_value n
    clear gN gI sN sI em
    grind
  · have em : m' = Model.setupTypeInfo n level m test mask := by
      simp only [m', h7, if_false]
    rw [em]
    refine ⟨sI, ?_⟩
    intro r c hr hc
    rw [gI r c, infoCell_eq v level mask hv1]
    simp only [h7, if_false]
    show _ = match (match inv1 r c with | some i => _ | none => _) with | some b => some b | none => m.get r c
    simp only [inv1, inv2, invV, invH]
    generalize (Spec.formatWord (level * 8 + mask)).testBit = F
    generalize m.get r c = x
    have hn' : n = Spec.size v := rfl
    rw [← hn']
    clear_value n
    clear gI sI em
    grind

/-! ### part 1: the positions -/

theorem mem_map_range_iff {α} (pos : Nat → α) (p : α) (o : Option Nat) (k : Nat)
    (h : ∀ i, o = some i ↔ i < k ∧ pos i = p) : p ∈ (List.range k).map pos ↔ o.isSome = true := by
  constructor
  · intro hm
    obtain ⟨i, hi, hp⟩ := List.mem_map.mp hm
    rw [(h i).mpr ⟨List.mem_range.mp hi, hp⟩]; rfl
  · intro hs
    cases o with
    | none => cases hs
    | some i =>
      obtain ⟨hi, hp⟩ := (h i).mp rfl
      exact List.mem_map.mpr ⟨i, List.mem_range.mpr hi, hp⟩

theorem nodup_map_range (pos : Nat → Nat × Nat) (inv : Nat → Nat → Option Nat) (k : Nat)
    (h : ∀ r c i, inv r c = some i ↔ i < k ∧ pos i = (r, c)) : ((List.range k).map pos).Nodup := by
  rw [List.Nodup, List.pairwise_map]
  refine List.Pairwise.imp_of_mem ?_ (List.pairwise_lt_range (n := k))
  intro i j hi hj hlt heq
  have hi := List.mem_range.mp hi
  have hj := List.mem_range.mp hj
  have a := (h (pos j).1 (pos j).2 i).mpr ⟨hi, by rw [heq]⟩
  have b := (h (pos j).1 (pos j).2 j).mpr ⟨hj, rfl⟩
  rw [a] at b; injection b with b; omega

theorem mem_fmtPos1 (r c : Nat) : (r, c) ∈ Spec.fmtPos1 ↔ (inv1 r c).isSome = true := by
  rw [fmtPos1_eq]; exact mem_map_range_iff f1 (r, c) _ 15 (inv1_iff r c)
theorem mem_fmtPos2 (n : Nat) (hn : 21 ≤ n) (r c : Nat) :
    (r, c) ∈ Spec.fmtPos2 n ↔ (inv2 n r c).isSome = true := by
  rw [fmtPos2_eq]; exact mem_map_range_iff (f2 n) (r, c) _ 15 (inv2_iff n hn r c)
theorem mem_verPos1 (n : Nat) (hn : 21 ≤ n) (r c : Nat) :
    (r, c) ∈ Spec.verPos1 n ↔ (invG1 n r c).isSome = true := by
  rw [verPos1_eq]; exact mem_map_range_iff (g1 n) (r, c) _ 18 (invG1_iff n hn r c)
theorem mem_verPos2 (n : Nat) (hn : 21 ≤ n) (r c : Nat) :
    (r, c) ∈ Spec.verPos2 n ↔ (invG2 n r c).isSome = true := by
  rw [verPos2_eq]; exact mem_map_range_iff (g2 n) (r, c) _ 18 (invG2_iff n hn r c)

theorem fmtPos_length (n : Nat) : Spec.fmtPos1.length = 15 ∧ (Spec.fmtPos2 n).length = 15 :=
  ⟨rfl, by simp only [Spec.fmtPos2, List.length_map, List.length_range]⟩
theorem verPos_length (n : Nat) : (Spec.verPos1 n).length = 18 ∧ (Spec.verPos2 n).length = 18 :=
  ⟨by simp only [Spec.verPos1, List.length_map, List.length_range],
   by simp only [Spec.verPos2, List.length_map, List.length_range]⟩

/-- the 30 format-information positions are pairwise distinct -/
theorem fmtPos_nodup (n : Nat) (hn : 21 ≤ n) : (Spec.fmtPos1 ++ Spec.fmtPos2 n).Nodup := by
  rw [List.nodup_append]
  refine ⟨by rw [fmtPos1_eq]; exact nodup_map_range f1 inv1 15 inv1_iff,
          by rw [fmtPos2_eq]; exact nodup_map_range (f2 n) (inv2 n) 15 (inv2_iff n hn), ?_⟩
  rintro ⟨r, c⟩ h1 ⟨r', c'⟩ h2 heq
  injection heq with e1 e2; subst e1; subst e2
  rw [mem_fmtPos1] at h1; rw [mem_fmtPos2 n hn] at h2
  revert h1 h2; simp only [inv1, inv2]; grind

/-- ... and lie inside the matrix -/
theorem fmtPos_inside (n : Nat) (hn : 21 ≤ n) : ∀ p ∈ Spec.fmtPos1 ++ Spec.fmtPos2 n, p.1 < n ∧ p.2 < n := by
  rintro ⟨r, c⟩ hp
  rw [List.mem_append, mem_fmtPos1, mem_fmtPos2 n hn] at hp
  revert hp; simp only [inv1, inv2]; grind

/-- ... and are exactly the cells of the matrix with `Spec.inFormat` -/
theorem mem_fmtPos_iff (n : Nat) (hn : 21 ≤ n) (r c : Nat) (hr : r < n) (hc : c < n) :
    (r, c) ∈ Spec.fmtPos1 ++ Spec.fmtPos2 n ↔ Spec.inFormat n r c = true := by
  rw [List.mem_append, mem_fmtPos1, mem_fmtPos2 n hn]
  simp only [inv1, inv2, Spec.inFormat]; grind

/-- the dark module is not a format cell -/
theorem dark_not_fmtPos (n : Nat) (hn : 21 ≤ n) : (n - 8, 8) ∉ Spec.fmtPos1 ++ Spec.fmtPos2 n := by
  rw [List.mem_append, mem_fmtPos1, mem_fmtPos2 n hn]
  simp only [inv1, inv2]; grind

/-- the 36 version-information positions are pairwise distinct -/
theorem verPos_nodup (n : Nat) (hn : 21 ≤ n) : (Spec.verPos1 n ++ Spec.verPos2 n).Nodup := by
  rw [List.nodup_append]
  refine ⟨by rw [verPos1_eq]; exact nodup_map_range (g1 n) (invG1 n) 18 (invG1_iff n hn),
          by rw [verPos2_eq]; exact nodup_map_range (g2 n) (invG2 n) 18 (invG2_iff n hn), ?_⟩
  rintro ⟨r, c⟩ h1 ⟨r', c'⟩ h2 heq
  injection heq with e1 e2; subst e1; subst e2
  rw [mem_verPos1 n hn] at h1; rw [mem_verPos2 n hn] at h2
  revert h1 h2; simp only [invG1, invG2]; grind

theorem verPos_inside (n : Nat) (hn : 21 ≤ n) : ∀ p ∈ Spec.verPos1 n ++ Spec.verPos2 n, p.1 < n ∧ p.2 < n := by
  rintro ⟨r, c⟩ hp
  rw [List.mem_append, mem_verPos1 n hn, mem_verPos2 n hn] at hp
  revert hp; simp only [invG1, invG2]; grind

theorem mem_verPos_iff (v n : Nat) (hv : 7 ≤ v) (hn : 21 ≤ n) (r c : Nat) :
    (r, c) ∈ Spec.verPos1 n ++ Spec.verPos2 n ↔ Spec.inVersion v n r c = true := by
  rw [List.mem_append, mem_verPos1 n hn, mem_verPos2 n hn]
  simp only [invG1, invG2, Spec.inVersion]; grind

/-- version cells are neither format cells nor the dark module -/
theorem verPos_not_fmtPos (n : Nat) (hn : 21 ≤ n) :
    ∀ p ∈ Spec.verPos1 n ++ Spec.verPos2 n, p ∉ Spec.fmtPos1 ++ Spec.fmtPos2 n ∧ p ≠ (n - 8, 8) := by
  rintro ⟨r, c⟩ hp
  rw [List.mem_append, mem_verPos1 n hn, mem_verPos2 n hn] at hp
  rw [List.mem_append, mem_fmtPos1, mem_fmtPos2 n hn]
  revert hp; simp only [invG1, invG2, inv1, inv2]; grind

/-! ### part 3: the reader recovers the words -/

theorem wordAt_aux (S : Spec.Sym) : ∀ (ps : List (Nat × Nat)) (off w : Nat), w < 2 ^ ps.length →
    (∀ i r c, ps[i]? = some (r, c) → S.get r c = w.testBit i) →
    ((ps.zipIdx off).map fun ((r, c), i) => if S.get r c then 2 ^ i else 0).sum = 2 ^ off * w := by
  intro ps
  induction ps with
  | nil =>
    intro off w hw _
    simp only [List.length_nil, Nat.pow_zero] at hw
    have : w = 0 := by omega
    subst this
    simp only [List.zipIdx_nil, List.map_nil, List.sum_nil, Nat.mul_zero]
  | cons p ps ih =>
    intro off w hw h
    obtain ⟨r, c⟩ := p
    simp only [List.zipIdx_cons, List.map_cons, List.sum_cons]
    have h0 := h 0 r c rfl
    have hw' : w / 2 < 2 ^ ps.length := by
      simp only [List.length_cons, Nat.pow_succ] at hw
      omega
    rw [ih (off + 1) (w / 2) hw' (by
      intro i r' c' hi
      rw [h (i + 1) r' c' (by simpa using hi), Nat.testBit_succ])]
    rw [h0, Nat.testBit_zero]
    have hdm := Nat.div_add_mod w 2
    rw [Nat.pow_succ]
    generalize 2 ^ off = t
    by_cases hb : w % 2 = 1
    · simp only [hb, decide_true, if_true]
      have : w = 2 * (w / 2) + 1 := by omega
      calc t + t * 2 * (w / 2) = t * (2 * (w / 2) + 1) := by
            rw [Nat.mul_add, Nat.mul_one, Nat.mul_assoc, Nat.add_comm]
        _ = t * w := by rw [← this]
    · simp only [hb, decide_false, if_false, Bool.false_eq_true, Nat.zero_add]
      have : w = 2 * (w / 2) := by omega
      calc t * 2 * (w / 2) = t * (2 * (w / 2)) := by rw [Nat.mul_assoc]
        _ = t * w := by rw [← this]

/-- if the cells at the positions `ps` hold the bits of `w` (and `w` has no further bits), `wordAt` reads `w` -/
theorem wordAt_eq (S : Spec.Sym) (ps : List (Nat × Nat)) (w : Nat) (hw : w < 2 ^ ps.length)
    (h : ∀ i r c, ps[i]? = some (r, c) → S.get r c = w.testBit i) : Spec.wordAt S ps = w := by
  have := wordAt_aux S ps 0 w hw h
  simpa [Spec.wordAt] using this

set_option maxRecDepth 100000 in
theorem formatWord_lt : ∀ d, d < 32 → Spec.formatWord d < 2 ^ 15 := fun d hd => (Props.C04_spec_format_sound d hd).2.2

set_option maxRecDepth 100000 in
theorem versionWord_lt : ∀ v, v < 64 → Spec.versionWord v < 2 ^ 18 := by
  have h : (List.range 64).all (fun v => decide (Spec.versionWord v < 2 ^ 18)) = true := by decide +kernel
  intro v hv; simpa using forall_lt_of_all h v hv

set_option maxRecDepth 100000 in
/-- the format words are pairwise distinct, so the reader's search finds the data bits back -/
theorem find_formatWord : ∀ d0, d0 < 32 →
    (List.range 32).find? (fun d => Spec.formatWord d == Spec.formatWord d0) = some d0 := by
  have h : (List.range 32).all (fun d0 =>
      (List.range 32).find? (fun d => Spec.formatWord d == Spec.formatWord d0) == some d0) = true := by
    decide +kernel
  intro d hd; simpa using forall_lt_of_all h d hd

/-- **C04, reader side (format)**: a symbol whose format cells hold the bits of the ISO format word of
    (level, mask) is read back as that level and mask -/
theorem readFormat_ok (S : Spec.Sym) (level mask : Nat) (l : Spec.Level) (hl : level < 4) (hk : mask < 8)
    (hlv : Spec.Level.ofIndicator level = some l)
    (h1 : ∀ i r c, Spec.fmtPos1[i]? = some (r, c) →
      S.get r c = (Spec.formatWord (level * 8 + mask)).testBit i)
    (h2 : ∀ i r c, (Spec.fmtPos2 S.n)[i]? = some (r, c) →
      S.get r c = (Spec.formatWord (level * 8 + mask)).testBit i) :
    Spec.wordAt S Spec.fmtPos1 = Spec.formatWord (level * 8 + mask) ∧
    Spec.wordAt S (Spec.fmtPos2 S.n) = Spec.formatWord (level * 8 + mask) ∧
    Spec.readFormat S = .ok (l, mask) := by
  have hd : level * 8 + mask < 32 := by omega
  have w1 : Spec.wordAt S Spec.fmtPos1 = Spec.formatWord (level * 8 + mask) :=
    wordAt_eq S _ _ (by rw [(fmtPos_length 0).1]; exact formatWord_lt _ hd) h1
  have w2 : Spec.wordAt S (Spec.fmtPos2 S.n) = Spec.formatWord (level * 8 + mask) :=
    wordAt_eq S _ _ (by rw [(fmtPos_length S.n).2]; exact formatWord_lt _ hd) h2
  refine ⟨w1, w2, ?_⟩
  have e1 : (level * 8 + mask) / 8 = level := by omega
  have e2 : (level * 8 + mask) % 8 = mask := by omega
  simp only [Spec.readFormat, w1, w2, ne_eq, not_true_eq_false, if_false, find_formatWord _ hd, e1, e2, hlv]

/-- **C04, reader side (version)** -/
theorem versionInfoOK_true (S : Spec.Sym) (v : Nat) (hv : v ≤ 40)
    (h : 7 ≤ v →
      (∀ i r c, (Spec.verPos1 S.n)[i]? = some (r, c) → S.get r c = (Spec.versionWord v).testBit i) ∧
      (∀ i r c, (Spec.verPos2 S.n)[i]? = some (r, c) → S.get r c = (Spec.versionWord v).testBit i)) :
    Spec.versionInfoOK S v = true := by
  simp only [Spec.versionInfoOK, Bool.or_eq_true, decide_eq_true_eq, Bool.and_eq_true, beq_iff_eq]
  by_cases h7 : v < 7
  · exact Or.inl h7
  · right
    obtain ⟨h1, h2⟩ := h (by omega)
    have hw := versionWord_lt v (by omega)
    exact ⟨wordAt_eq S _ _ (by rw [(verPos_length S.n).1]; exact hw) h1,
           wordAt_eq S _ _ (by rw [(verPos_length S.n).2]; exact hw) h2⟩

theorem getElem?_map_range {α} (pos : Nat → α) (k i : Nat) (p : α)
    (h : ((List.range k).map pos)[i]? = some p) : i < k ∧ pos i = p := by
  rw [List.getElem?_map] at h
  by_cases hi : i < k
  · rw [List.getElem?_range hi] at h
    simp only [Option.map_some, Option.some.injEq] at h
    exact ⟨hi, h⟩
  · rw [List.getElem?_eq_none (by simpa using hi)] at h
    cases h

/-- **C04, both sides joined**: any symbol that agrees with `Spec.infoCell` (test = false) on the cells where it
    is defined is read back with the right level and mask, and passes the version-information check -/
theorem reader_of_infoCell (S : Spec.Sym) (v level mask : Nat) (l : Spec.Level)
    (hv1 : 1 ≤ v) (hv40 : v ≤ 40) (hl : level < 4) (hk : mask < 8)
    (hlv : Spec.Level.ofIndicator level = some l) (hn : S.n = Spec.size v)
    (hS : ∀ r c b, Spec.infoCell v level mask false r c = some b → S.get r c = b) :
    Spec.readFormat S = .ok (l, mask) ∧ Spec.versionInfoOK S v = true := by
  have hn21 : 21 ≤ Spec.size v := by simp only [Spec.size]; omega
  constructor
  · refine (readFormat_ok S level mask l hl hk hlv ?_ ?_).2.2
    · intro i r c hi
      rw [fmtPos1_eq] at hi
      have hi' := (inv1_iff r c i).mpr (getElem?_map_range f1 15 i (r, c) hi)
      apply hS
      rw [infoCell_eq v level mask hv1, hi']
      rfl
    · intro i r c hi
      rw [hn, fmtPos2_eq] at hi
      have hi' := (inv2_iff _ hn21 r c i).mpr (getElem?_map_range (f2 _) 15 i (r, c) hi)
      have h1 : inv1 r c = none := by
        revert hi'; generalize Spec.size v = n at *; simp only [inv1, inv2]; grind
      apply hS
      rw [infoCell_eq v level mask hv1, h1, hi']
      rfl
  · refine versionInfoOK_true S v hv40 ?_
    intro h7
    constructor
    · intro i r c hi
      rw [hn, verPos1_eq] at hi
      have hi' := (invG1_iff _ hn21 r c i).mpr (getElem?_map_range (g1 _) 18 i (r, c) hi)
      have h1 : inv1 r c = none ∧ inv2 (Spec.size v) r c = none ∧ ¬ (r = Spec.size v - 8 ∧ c = 8) := by
        revert hi'; generalize Spec.size v = n at *; simp only [inv1, inv2, invG1]; grind
      apply hS
      rw [infoCell_eq v level mask hv1, h1.1, h1.2.1, hi']
      simp only [h1.2.2, if_false, h7, if_true, Bool.not_false, Bool.true_and]
    · intro i r c hi
      rw [hn, verPos2_eq] at hi
      have hi' := (invG2_iff _ hn21 r c i).mpr (getElem?_map_range (g2 _) 18 i (r, c) hi)
      have h1 : inv1 r c = none ∧ inv2 (Spec.size v) r c = none ∧ ¬ (r = Spec.size v - 8 ∧ c = 8) ∧
          invG1 (Spec.size v) r c = none := by
        revert hi'; generalize Spec.size v = n at *; simp only [inv1, inv2, invG1, invG2]; grind
      apply hS
      rw [infoCell_eq v level mask hv1, h1.1, h1.2.1, h1.2.2.2, hi']
      simp only [h1.2.2.1, if_false, h7, if_true, Bool.not_false, Bool.true_and]

/-! ### part 4: format / version / dark-module cells are not finder, separator, timing or alignment cells -/

/-- Annex E coordinates: 6, the last one `4v+10`, and the intermediate ones, all in `11 .. 4v+3` -/
theorem centres_range : ∀ v, v ≤ 40 → ∀ x ∈ Spec.alignmentCentres v,
    x = 6 ∨ x = 4 * v + 10 ∨ (11 ≤ x ∧ x ≤ 4 * v + 3) := by
  have h : (List.range 41).all (fun v => (Spec.alignmentCentres v).all fun x =>
      x == 6 || x == 4 * v + 10 || (decide (11 ≤ x) && decide (x ≤ 4 * v + 3))) = true := by decide
  intro v hv x hx
  have := forall_mem_of_all (forall_lt_of_all h v (by omega)) x hx
  simpa [or_assoc] using this

theorem info_not_finder (v r c : Nat) (hv1 : 1 ≤ v)
    (h : Spec.inFormat (Spec.size v) r c = true ∨ Spec.inVersion v (Spec.size v) r c = true ∨
      Spec.isDarkModule (Spec.size v) r c = true) : Spec.inFinderArea (Spec.size v) r c = false := by
  revert h
  simp only [Spec.inFormat, Spec.inVersion, Spec.isDarkModule, Spec.inFinderArea, Spec.finderCentres, Spec.size,
    List.any_cons, List.any_nil, Spec.cheb, Spec.dist, Nat.max_le]
  grind

theorem info_not_timing (v r c : Nat)
    (h : Spec.inFormat (Spec.size v) r c = true ∨ Spec.inVersion v (Spec.size v) r c = true ∨
      Spec.isDarkModule (Spec.size v) r c = true) : Spec.inTiming (Spec.size v) r c = false := by
  revert h
  simp only [Spec.inFormat, Spec.inVersion, Spec.isDarkModule, Spec.inTiming, Spec.size]
  grind

theorem info_not_alignment (v r c : Nat) (hv1 : 1 ≤ v) (hv40 : v ≤ 40)
    (h : Spec.inFormat (Spec.size v) r c = true ∨ Spec.inVersion v (Spec.size v) r c = true ∨
      Spec.isDarkModule (Spec.size v) r c = true) : Spec.inAlignment v r c = false := by
  have key : Spec.alignOf v r c = none := by
    unfold Spec.alignOf
    simp only []
    rw [List.findSome?_eq_none_iff]
    intro r0 hr0
    have hr0' := centres_range v hv40 r0 hr0
    split
    · next hd =>
      rw [List.findSome?_eq_none_iff]
      intro c0 hc0
      have hc0' := centres_range v hv40 c0 hc0
      split
      · next hd2 =>
        exfalso
        revert h hd hd2
        simp only [Spec.inFormat, Spec.inVersion, Spec.isDarkModule, Spec.size, Spec.dist]
        grind
      · rfl
    · rfl
  simp only [Spec.inAlignment, key, Option.isSome_none]

/-- the cells written by `setup_type_info` / `setup_type_number` are still `None` in the cached blank matrix -/
theorem blankCell_none_of_info (v r c : Nat) (hv1 : 1 ≤ v) (hv40 : v ≤ 40)
    (h : Spec.inFormat (Spec.size v) r c = true ∨ Spec.inVersion v (Spec.size v) r c = true ∨
      Spec.isDarkModule (Spec.size v) r c = true) : Spec.blankCell v r c = none := by
  simp only [Spec.blankCell, info_not_finder v r c hv1 h, info_not_alignment v r c hv1 hv40 h,
    info_not_timing v r c h, Bool.false_eq_true, if_false]

end QR.GeoB
