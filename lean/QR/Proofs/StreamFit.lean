import QR.Proofs.StreamSegs
import QR.Proofs.C02Tables
/-
Item 4 (C06): a stream that fits the data capacity of (v, l) has every character count below 2 ^ (count width).
Finite part: the largest capacity in each of the three version classes (`decide +kernel`), then arithmetic.
-/
namespace QR
open Model

/-- the largest data capacity (bits) within a version class: 9-L, 26-L, 40-L -/
def classCap : Nat → Nat
  | 0 => 1856
  | 1 => 10960
  | _ => 23648

set_option maxRecDepth 100000 in
theorem capacity_le_classCap : ∀ v, v < 40 → ∀ l ∈ Props.allLevels,
    Spec.capacityBits (v + 1) l ≤ classCap (Spec.versionClass (v + 1)) := by
  have h : (List.range 40).all (fun v => Props.allLevels.all fun l =>
      decide (Spec.capacityBits (v + 1) l ≤ classCap (Spec.versionClass (v + 1)))) = true := by decide +kernel
  intro v hv l hl
  simpa using forall_mem_of_all (forall_lt_of_all h v hv) l hl

theorem mem_allLevels_stream (l : Spec.Level) : l ∈ Props.allLevels := by
  cases l <;> simp [Props.allLevels]

theorem capacity_le_classCap' {v : Nat} (h1 : 1 ≤ v) (h40 : v ≤ 40) (l : Spec.Level) :
    Spec.capacityBits v l ≤ classCap (Spec.versionClass v) := by
  obtain ⟨u, rfl⟩ : ∃ u, v = u + 1 := ⟨v - 1, by omega⟩
  exact capacity_le_classCap u (by omega) l (mem_allLevels_stream l)

theorem bodyBits_lower (m : Spec.Mode) (n : Nat) :
    (match m with | .numeric => 10 * (n / 3) | .alnum => 11 * (n / 2) | .byte => 8 * n) ≤ Spec.bodyBits m n := by
  cases m <;> simp only [Spec.bodyBits] <;> omega

theorem seg_le_streamBits (v : Nat) {ps : List Spec.PSeg} {p : Spec.PSeg} (hp : p ∈ ps) :
    4 + Spec.countWidth v p.mode + Spec.bodyBits p.mode p.data.length ≤ Spec.streamBits v (segCounts ps) := by
  induction ps with
  | nil => cases hp
  | cons q ps ih =>
    rw [streamBits_cons]
    rcases List.mem_cons.mp hp with rfl | h
    · omega
    · have := ih h; omega

/-- item 4: fitting the capacity implies that every character count fits its count field -/
theorem count_fits_of_fits {v : Nat} (h1 : 1 ≤ v) (h40 : v ≤ 40) (l : Spec.Level) {ps : List Spec.PSeg}
    (hfit : Spec.streamBits v (segCounts ps) ≤ Spec.capacityBits v l) :
    ∀ p ∈ ps, p.data.length < 2 ^ Spec.countWidth v p.mode := by
  intro p hp
  have hseg := seg_le_streamBits v hp
  have hcap := capacity_le_classCap' h1 h40 l
  have hlow := bodyBits_lower p.mode p.data.length
  generalize p.data.length = n at *
  generalize hc : Spec.versionClass v = c at *
  generalize p.mode = m at *
  rcases c with _ | _ | c <;> cases m <;>
    simp only [Spec.countWidth, hc, classCap] at * <;> omega

end QR
