import QR.Gen.Fingerprints
/-
Pinned fingerprints (tools/pin_fingerprints.py; committed): per property, the hash over the normalised ASTs of the parts of
the qrcode package in the property's static slice (tools/slicer.py: closure of the functions its model mirrors and of its
entry points, tools/modelled_functions.json, under 'can refer to', minus its cut parts), as they were when the model was
written and validated.  `Cxx_source_fingerprints` states that /repo's working tree still has exactly these: the theorems are
about a model of THIS source.  Which part changed is reported by ./check from corpus/fingerprints_baseline.json.
-/
namespace QR.Pinned

def fp_C01 : Nat := 0x56ded01e9bd4db7
def fp_C02 : Nat := 0xc2c07b3f87c66ad
def fp_C03 : Nat := 0x7ea03f23e59dfb9
def fp_C04 : Nat := 0xa493523fd1bf37a
def fp_C05 : Nat := 0xa493523fd1bf37a
def fp_C06 : Nat := 0xa43580db018a14e
def fp_C07 : Nat := 0x8eee846ebe1faf3
def fp_C08 : Nat := 0xe13d432a7dba314
def fp_C09 : Nat := 0x56ded01e9bd4db7
def fp_C10 : Nat := 0xd0e160935a1ccbd
def fp_C11 : Nat := 0x7ea03f23e59dfb9
def fp_C12 : Nat := 0x04763fdcbe7a7b9
def fp_C13 : Nat := 0x617e5179d298321
def fp_C14 : Nat := 0xb0d5d72ac3c7e28
def fp_C15 : Nat := 0x6eca37d7b9f865c
def fp_C16 : Nat := 0xbfdf48c6b3a0599
def fp_C17 : Nat := 0xcb05b91cb0198af
def fp_C18 : Nat := 0x5c9e1123707ee57
def fp_C19 : Nat := 0x97c3f4782fae3e8
def fp_C20 : Nat := 0xb525623edb944d7

end QR.Pinned
