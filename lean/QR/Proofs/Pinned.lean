import QR.Gen.Fingerprints
/-
Pinned fingerprints (tools/pin_fingerprints.py; committed): per property, the hash over the normalised ASTs of the Python
functions its hand-written model mirrors (list: tools/modelled_functions.json), as they were when the model was written and
validated.  `Cxx_source_fingerprints` states that /repo's working tree still has exactly these: the theorems are about a
model of THIS source.  Which function changed is reported by ./check from corpus/fingerprints_baseline.json.
-/
namespace QR.Pinned

def fp_C01 : Nat := 0x13656121896c322
def fp_C02 : Nat := 0x4c3fc725a8fbb62
def fp_C03 : Nat := 0xce40a309eb55531
def fp_C04 : Nat := 0x42c3aef760a2a42
def fp_C05 : Nat := 0xbd54c076ae45f60
def fp_C06 : Nat := 0xaca89e7dbdd8610
def fp_C07 : Nat := 0x2790ba17dc1ffc7
def fp_C08 : Nat := 0xaca89e7dbdd8610
def fp_C09 : Nat := 0xbd54c076ae45f60
def fp_C10 : Nat := 0xbd54c076ae45f60
def fp_C11 : Nat := 0x1188e6b527ea9b3
def fp_C12 : Nat := 0x294882939dbc205
def fp_C13 : Nat := 0xb26eb5ca71e5dbd
def fp_C14 : Nat := 0x1b016f1c8a0d958
def fp_C15 : Nat := 0xea1cddeaa1efee1
def fp_C16 : Nat := 0xea1cddeaa1efee1
def fp_C17 : Nat := 0xcd82004b311aef6
def fp_C18 : Nat := 0xe798d7e3e4c574c
def fp_C19 : Nat := 0x708e599956bc737
def fp_C20 : Nat := 0xff2882cd9d961b1

end QR.Pinned
