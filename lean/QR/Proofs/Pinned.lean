import QR.Gen.Fingerprints
/-
Pinned fingerprints (tools/pin_fingerprints.py; committed): per property, the hash over the normalised ASTs of the Python
functions its hand-written model mirrors (list: tools/modelled_functions.json), as they were when the model was written and
validated.  `Cxx_source_fingerprints` states that /repo's working tree still has exactly these: the theorems are about a
model of THIS source.  Which function changed is reported by ./check from corpus/fingerprints_baseline.json.
-/
namespace QR.Pinned

def fp_C01 : Nat := 0xf6cdd5d0f95e426
def fp_C02 : Nat := 0xb59ee6f036eda24
def fp_C03 : Nat := 0x6398759f9b4b053
def fp_C04 : Nat := 0x6bb5a7c749e5d23
def fp_C05 : Nat := 0x6bb5a7c749e5d23
def fp_C06 : Nat := 0xc9f02bb77e4b0bf
def fp_C07 : Nat := 0xc9cf98dbb4c3e16
def fp_C08 : Nat := 0x084252f5f7f9884
def fp_C09 : Nat := 0xe156c4d5f634b2e
def fp_C10 : Nat := 0x9c139b0f0190876
def fp_C11 : Nat := 0x4f0d1abf3e2841d
def fp_C12 : Nat := 0xba91a70bb0c79fd
def fp_C13 : Nat := 0x3be69c81d96dc9c
def fp_C14 : Nat := 0x0eae34492d0ade7
def fp_C15 : Nat := 0x5a57c3885c24bf8
def fp_C16 : Nat := 0x8cd42679610c24b
def fp_C17 : Nat := 0x1851251ccf554aa
def fp_C18 : Nat := 0xb9fbbeac143ffc4
def fp_C19 : Nat := 0x2577de5f94c573b
def fp_C20 : Nat := 0x05099ca4741040b

end QR.Pinned
