import QR.Model.Render
import QR.Spec.Render
/-
Raster geometry (property C12): `pixelBox`, the pure-PNG rows (`pypngRows`) and the Pillow canvas (`pilRaster`)
all describe the square of `(n + 2*border) * box` pixels in which pixel (x, y) is dark iff module
`(y / box - border, x / box - border)` of the framed symbol is dark.
-/
namespace QR.Proofs.Raster
open QR QR.Model

/-! ### 1. `pixel_box` -/

/-- membership in a closed pixel box -/
def inBox (b : (Nat × Nat) × (Nat × Nat)) (x y : Nat) : Bool :=
  decide (b.1.1 ≤ x ∧ x ≤ b.2.1 ∧ b.1.2 ≤ y ∧ y ≤ b.2.2)

theorem pixelBox_spec (border box row col x y : Nat) (hb : 1 ≤ box) :
    let ((x0, y0), (x1, y1)) := pixelBox border box row col
    (x0 ≤ x ∧ x ≤ x1 ∧ y0 ≤ y ∧ y ≤ y1) ↔ (x / box = col + border ∧ y / box = row + border) := by
  simp only [pixelBox]
  rw [Nat.div_eq_iff (Nat.lt_of_lt_of_le Nat.zero_lt_one hb), Nat.div_eq_iff (Nat.lt_of_lt_of_le Nat.zero_lt_one hb)]
  constructor
  · rintro ⟨h1, h2, h3, h4⟩; exact ⟨⟨h1, h2⟩, h3, h4⟩
  · rintro ⟨⟨h1, h2⟩, h3, h4⟩; exact ⟨h1, h2, h3, h4⟩

theorem inBox_pixelBox (border box row col x y : Nat) (hb : 1 ≤ box) :
    inBox (pixelBox border box row col) x y = true ↔ (x / box = col + border ∧ y / box = row + border) := by
  have := pixelBox_spec border box row col x y hb
  simp only [pixelBox] at this
  simp only [inBox, pixelBox]
  exact decide_eq_true_iff.trans this

/-! ### 2. pure-PNG rows -/

/-- `k` copies of each `f a`: entry `i` is `f` of entry `i / k` -/
theorem getElem?_flatMap_replicate {α β : Type} (f : α → β) (k : Nat) (hk : 0 < k) (L : List α) (i : Nat) :
    (L.flatMap fun a => List.replicate k (f a))[i]? = (L[i / k]?).map f := by
  induction L generalizing i with
  | nil => simp only [List.flatMap_nil, List.length_nil, Nat.not_lt_zero, not_false_eq_true, getElem?_neg,
      Option.map_none]
  | cons a L ih =>
    rw [List.flatMap_cons, List.getElem?_append, List.length_replicate]
    by_cases h : i < k
    · rw [if_pos h, Nat.div_eq_of_lt h, List.getElem?_replicate, if_pos h]; rfl
    · rw [if_neg h, ih]
      have hki : k ≤ i := Nat.le_of_not_lt h
      have h1 : i / k = (i - k) / k + 1 := by
        have := Nat.add_div_right (i - k) hk
        rw [Nat.sub_add_cancel hki] at this
        exact this
      rw [h1, List.getElem?_cons_succ]

theorem length_flatMap_replicate {α β : Type} (f : α → β) (k : Nat) (L : List α) :
    (L.flatMap fun a => List.replicate k (f a)).length = L.length * k := by
  induction L with
  | nil => simp only [List.flatMap_nil, List.length_nil, Nat.zero_mul]
  | cons a L ih => rw [List.flatMap_cons, List.length_append, ih, List.length_replicate, List.length_cons,
      Nat.succ_mul, Nat.add_comm]

/-- one PNG row of a module row -/
def pngRow (border box : Nat) (moduleRow : List Bool) : List Nat :=
  List.replicate (box * border) 1 ++ (moduleRow.flatMap fun point => List.replicate box (if point then 0 else 1)) ++
    List.replicate (box * border) 1

theorem pypngRows_eq (M : Mods) (n border box : Nat) :
    pypngRows M n border box =
      List.replicate (border * box) (List.replicate (box * (n + border * 2)) 1) ++
        (M.flatMap fun moduleRow => List.replicate box (pngRow border box moduleRow)) ++
        List.replicate (border * box) (List.replicate (box * (n + border * 2)) 1) := rfl

theorem pngRow_length (border box : Nat) (mr : List Bool) :
    (pngRow border box mr).length = (mr.length + border * 2) * box := by
  simp only [pngRow, List.length_append, List.length_replicate, length_flatMap_replicate]
  rw [Nat.add_mul, Nat.mul_comm box border, Nat.mul_comm border 2, Nat.two_mul, Nat.add_mul]
  omega

/-- `p*k` pads, then `k` copies of each `f a`, then `p*k` pads: entry `i` is read off from `i / k` -/
theorem getElem?_padded {α β : Type} (f : α → β) (pad : β) (L : List α) (p k : Nat) (hk : 0 < k) (i : Nat) :
    (List.replicate (p * k) pad ++ (L.flatMap fun a => List.replicate k (f a)) ++ List.replicate (p * k) pad)[i]? =
      if i < (L.length + p * 2) * k then
        some (if p ≤ i / k then ((L[i / k - p]?).map f).getD pad else pad)
      else none := by
  have hdiv : (i - p * k) / k = i / k - p := by rw [Nat.mul_comm p k]; exact Nat.sub_mul_div i k p
  have hlt : i < p * k ↔ i / k < p := (Nat.div_lt_iff_lt_mul hk).symm
  have hsz : (L.length + p * 2) * k = p * k + L.length * k + p * k := by
    rw [Nat.add_mul, Nat.mul_comm p 2, Nat.two_mul, Nat.add_mul]; omega
  rw [List.getElem?_append, List.length_append, List.length_replicate, length_flatMap_replicate,
    List.getElem?_append, List.length_replicate, getElem?_flatMap_replicate f k hk, hdiv, hsz,
    List.getElem?_replicate, List.getElem?_replicate]
  by_cases h1 : i < p * k
  · have h1' : ¬ p ≤ i / k := by have := hlt.1 h1; omega
    rw [if_pos (show i < p * k + L.length * k by omega), if_pos h1, if_pos h1,
      if_pos (show i < p * k + L.length * k + p * k by omega), if_neg h1']
  · have h1' : p ≤ i / k := by have := mt hlt.2 h1; omega
    by_cases h2 : i < p * k + L.length * k
    · have h3 : i / k - p < L.length := by
        rw [← hdiv]; exact (Nat.div_lt_iff_lt_mul hk).2 (by omega)
      rw [if_pos h2, if_neg h1, if_pos (show i < p * k + L.length * k + p * k by omega), if_pos h1',
        List.getElem?_eq_getElem h3]; rfl
    · have h3 : ¬ i / k - p < L.length := by
        rw [← hdiv]; intro h; exact h2 (by have := (Nat.div_lt_iff_lt_mul hk).1 h; omega)
      rw [if_neg h2]
      by_cases h4 : i < p * k + L.length * k + p * k
      · rw [if_pos (show i - (p * k + L.length * k) < p * k by omega), if_pos h4, if_pos h1',
          List.getElem?_eq_none (by omega)]; rfl
      · rw [if_neg (show ¬ i - (p * k + L.length * k) < p * k by omega), if_neg h4]

/-- row `y` of the PNG -/
theorem pypngRows_getElem? (M : Mods) (n border box : Nat) (hlen : M.length = n) (hb : 1 ≤ box) (y : Nat) :
    (pypngRows M n border box)[y]? =
      if y < pixelSize n border box then
        some (if border ≤ y / box then
          ((M[y / box - border]?).map (pngRow border box)).getD (List.replicate (box * (n + border * 2)) 1)
          else List.replicate (box * (n + border * 2)) 1)
      else none := by
  rw [pypngRows_eq, getElem?_padded (pngRow border box) _ M border box hb y, hlen]; rfl

/-- entry `x` of the PNG row of a module row -/
theorem pngRow_getElem? (border box : Nat) (mr : List Bool) (hb : 1 ≤ box) (x : Nat) :
    (pngRow border box mr)[x]? =
      if x < (mr.length + border * 2) * box then
        some (if border ≤ x / box then ((mr[x / box - border]?).map fun p => if p then 0 else 1).getD 1 else 1)
      else none := by
  rw [pngRow, Nat.mul_comm box border]
  exact getElem?_padded (fun p : Bool => if p then 0 else 1) 1 mr border box hb x

theorem pypngRows_length (M : Mods) (n border box : Nat) (hlen : M.length = n) :
    (pypngRows M n border box).length = pixelSize n border box := by
  rw [pypngRows_eq]
  simp only [List.length_append, List.length_replicate, length_flatMap_replicate, hlen, pixelSize]
  rw [Nat.add_mul, Nat.mul_comm border 2, Nat.two_mul, Nat.add_mul]; omega

theorem pypngRows_mem (M : Mods) (n border box : Nat) (hrow : ∀ row ∈ M, row.length = n)
    (row : List Nat) (h : row ∈ pypngRows M n border box) :
    row.length = pixelSize n border box ∧ ∀ v ∈ row, v = 0 ∨ v = 1 := by
  rw [pypngRows_eq] at h
  simp only [List.mem_append, List.mem_replicate, List.mem_flatMap] at h
  have hpad : (List.replicate (box * (n + border * 2)) 1).length = pixelSize n border box ∧
      ∀ v ∈ List.replicate (box * (n + border * 2)) 1, v = 0 ∨ v = 1 := by
    refine ⟨by rw [List.length_replicate, pixelSize, Nat.mul_comm], ?_⟩
    intro v hv; exact Or.inr (List.eq_of_mem_replicate hv)
  rcases h with (⟨_, rfl⟩ | ⟨mr, hmr, _, rfl⟩) | ⟨_, rfl⟩
  · exact hpad
  · refine ⟨by rw [pngRow_length, hrow mr hmr, pixelSize], ?_⟩
    intro v hv
    simp only [pngRow, List.mem_append, List.mem_replicate, List.mem_flatMap] at hv
    rcases hv with (⟨_, rfl⟩ | ⟨p, _, _, rfl⟩) | ⟨_, rfl⟩
    · exact Or.inr rfl
    · cases p
      · exact Or.inr rfl
      · exact Or.inl rfl
    · exact Or.inr rfl
  · exact hpad

theorem pypngRows_pixel (M : Mods) (n border box : Nat) (hlen : M.length = n) (hrow : ∀ row ∈ M, row.length = n)
    (hb : 1 ≤ box) (x y : Nat) (hx : x < pixelSize n border box) (hy : y < pixelSize n border box) :
    ((pypngRows M n border box).getD y []).getD x 1 = 0 ↔ Spec.rasterDark M n border box x y = true := by
  have hpadx : (List.replicate (box * (n + border * 2)) 1).getD x 1 = 1 := by
    rw [List.getD_eq_getElem?_getD, List.getElem?_replicate]; split <;> rfl
  rw [List.getD_eq_getElem?_getD (l := pypngRows M n border box), pypngRows_getElem? M n border box hlen hb y, if_pos hy, Option.getD_some]
  simp only [Spec.rasterDark, Spec.framed, Spec.modAt, Bool.and_eq_true, decide_eq_true_eq]
  by_cases h1 : border ≤ y / box
  · rw [if_pos h1]
    by_cases h2 : y / box - border < M.length
    · have hmr : (M[y / box - border]).length = n := hrow _ (List.getElem_mem h2)
      rw [List.getElem?_eq_getElem h2, Option.map_some, Option.getD_some, List.getD_eq_getElem?_getD,
        pngRow_getElem? border box _ hb x, hmr, if_pos (by rw [pixelSize] at hx; exact hx), Option.getD_some,
        List.getD_eq_getElem?_getD (l := M), List.getElem?_eq_getElem h2, Option.getD_some,
        List.getD_eq_getElem?_getD]
      by_cases h3 : border ≤ x / box
      · rw [if_pos h3]
        by_cases h4 : x / box - border < (M[y / box - border]).length
        · rw [List.getElem?_eq_getElem h4, Option.map_some, Option.getD_some, Option.getD_some]
          cases (M[y / box - border])[x / box - border]
          · simp only [Bool.false_eq_true, ↓reduceIte, Nat.succ_ne_self, and_false]
          · simp only [↓reduceIte, and_true, true_iff]; omega
        · rw [List.getElem?_eq_none (by omega)]; simp only [Option.map_none, Option.getD_none, Nat.succ_ne_self, Bool.false_eq_true, and_false]
      · rw [if_neg h3]; simp only [Nat.succ_ne_self, false_iff, not_and, Bool.not_eq_true, and_imp]; omega
    · rw [List.getElem?_eq_none (by omega), Option.map_none, Option.getD_none, hpadx]
      simp only [Nat.succ_ne_self, List.getD_eq_getElem?_getD, false_iff, not_and, Bool.not_eq_true, and_imp]; omega
  · rw [if_neg h1, hpadx]; simp only [Nat.succ_ne_self, List.getD_eq_getElem?_getD, false_iff, not_and, Bool.not_eq_true,
    and_imp]; omega

theorem pypngRows_spec (M : Mods) (n border box : Nat) (hlen : M.length = n) (hrow : ∀ row ∈ M, row.length = n)
    (hb : 1 ≤ box) :
    (pypngRows M n border box).length = pixelSize n border box ∧
    (∀ row ∈ pypngRows M n border box, row.length = pixelSize n border box) ∧
    ∀ x y, x < pixelSize n border box → y < pixelSize n border box →
      (((pypngRows M n border box).getD y []).getD x 1 = 0 ↔ Spec.rasterDark M n border box x y = true) :=
  ⟨pypngRows_length M n border box hlen, fun row h => (pypngRows_mem M n border box hrow row h).1,
    fun x y hx hy => pypngRows_pixel M n border box hlen hrow hb x y hx hy⟩

/-- every pixel value is 0 (black) or 1 (white) -/
theorem pypngRows_bits (M : Mods) (n border box : Nat) (hrow : ∀ row ∈ M, row.length = n) :
    ∀ row ∈ pypngRows M n border box, ∀ v ∈ row, v = 0 ∨ v = 1 :=
  fun row h => (pypngRows_mem M n border box hrow row h).2

/-! ### 3. Pillow canvas -/

/-- a loop `for d in range(w): xs = st xs (i0 + d)` whose step maps `f` over entry `i0 + d` maps `f` over `[i0, i0 + w)` -/
theorem foldl_range_getElem? {α : Type} (f : α → α) (st : Array α → Nat → Array α)
    (hst : ∀ xs i j, (st xs i)[j]? = if i = j then (xs[j]?).map f else xs[j]?) (i0 w : Nat) (xs : Array α) (j : Nat) :
    ((List.range w).foldl (fun xs d => st xs (i0 + d)) xs)[j]? =
      if i0 ≤ j ∧ j < i0 + w then (xs[j]?).map f else xs[j]? := by
  induction w with
  | zero => rw [List.range_zero, List.foldl_nil, if_neg (by omega)]
  | succ w ih =>
    rw [List.range_succ, List.foldl_append, List.foldl_cons, List.foldl_nil, hst, ih]
    by_cases h : i0 + w = j
    · rw [if_pos h, if_neg (by omega), if_pos (by omega)]
    · rw [if_neg h]
      by_cases h2 : i0 ≤ j ∧ j < i0 + w
      · rw [if_pos h2, if_pos (by omega)]
      · rw [if_neg h2, if_neg (by omega)]

theorem getElem?_setIfInBounds' {α : Type} (xs : Array α) (i j : Nat) (a : α) :
    (xs.setIfInBounds i a)[j]? = if i = j then (xs[j]?).map (fun _ => a) else xs[j]? := by
  rw [Array.getElem?_setIfInBounds]
  by_cases h : i = j
  · subst h
    rw [if_pos rfl, if_pos rfl]
    by_cases h2 : i < xs.size
    · rw [if_pos h2, Array.getElem?_eq_getElem h2]; rfl
    · rw [if_neg h2, Array.getElem?_eq_none (by omega)]; rfl
  · rw [if_neg h, if_neg h]

/-- the inner loop of `drawBox`: fill `w` pixels of a row from `x0` -/
def fillRow (x0 w : Nat) (row : Array Bool) : Array Bool :=
  (List.range w).foldl (fun row dx => row.setIfInBounds (x0 + dx) true) row

theorem fillRow_getElem? (x0 w : Nat) (row : Array Bool) (x : Nat) :
    (fillRow x0 w row)[x]? = if x0 ≤ x ∧ x < x0 + w then (row[x]?).map (fun _ => true) else row[x]? :=
  foldl_range_getElem? (fun _ => true) (fun row i => row.setIfInBounds i true)
    (fun xs i j => getElem?_setIfInBounds' xs i j true) x0 w row x

theorem drawBox_eq (cv : Canvas) (x0 y0 x1 y1 : Nat) :
    drawBox cv ((x0, y0), (x1, y1)) =
      (List.range (y1 + 1 - y0)).foldl (fun cv dy => cv.modify (y0 + dy) (fillRow x0 (x1 + 1 - x0))) cv := rfl

/-- get/set lemma for `drawBox`, rows -/
theorem drawBox_getElem? (cv : Canvas) (x0 y0 x1 y1 y : Nat) :
    (drawBox cv ((x0, y0), (x1, y1)))[y]? =
      if y0 ≤ y ∧ y < y0 + (y1 + 1 - y0) then (cv[y]?).map (fillRow x0 (x1 + 1 - x0)) else cv[y]? := by
  rw [drawBox_eq]
  exact foldl_range_getElem? (fillRow x0 (x1 + 1 - x0)) (fun cv i => cv.modify i (fillRow x0 (x1 + 1 - x0)))
    (fun xs i j => Array.getElem?_modify) y0 (y1 + 1 - y0) cv y

/-- `row` has exactly `s` pixels, pixel `x` being `Q x` -/
def RowGood (s : Nat) (row : Array Bool) (Q : Nat → Bool) : Prop :=
  ∀ x, (x < s → row[x]? = some (Q x)) ∧ (s ≤ x → row[x]? = none)

/-- `cv` has exactly `s` rows of `s` pixels, pixel `(x, y)` being `P x y` -/
def Good (s : Nat) (cv : Canvas) (P : Nat → Nat → Bool) : Prop :=
  ∀ y, (y < s → ∃ row, cv[y]? = some row ∧ RowGood s row (fun x => P x y)) ∧ (s ≤ y → cv[y]? = none)

theorem Good.congr {s : Nat} {cv : Canvas} {P P' : Nat → Nat → Bool} (h : Good s cv P)
    (hP : ∀ x y, P x y = P' x y) : Good s cv P' := by
  have : P = P' := funext fun x => funext fun y => hP x y
  rw [← this]; exact h

/-- get/set lemma for `drawBox`, pixels: a pixel is dark afterwards iff it was dark or lies in the closed box -/
theorem Good.drawBox {s : Nat} {cv : Canvas} {P : Nat → Nat → Bool} (h : Good s cv P)
    (b : (Nat × Nat) × (Nat × Nat)) : Good s (drawBox cv b) (fun x y => P x y || inBox b x y) := by
  obtain ⟨⟨x0, y0⟩, ⟨x1, y1⟩⟩ := b
  intro y
  rw [drawBox_getElem?]
  refine ⟨fun hy => ?_, fun hy => ?_⟩
  · obtain ⟨row, hrow, hgood⟩ := (h y).1 hy
    rw [hrow]
    by_cases hc : y0 ≤ y ∧ y < y0 + (y1 + 1 - y0)
    · rw [if_pos hc]
      refine ⟨_, rfl, fun x => ?_⟩
      rw [fillRow_getElem?]
      refine ⟨fun hx => ?_, fun hx => ?_⟩
      · rw [(hgood x).1 hx]
        by_cases hd : x0 ≤ x ∧ x < x0 + (x1 + 1 - x0)
        · rw [if_pos hd]
          have : inBox ((x0, y0), (x1, y1)) x y = true := by
            simp only [inBox, decide_eq_true_eq]; omega
          dsimp only
          rw [this, Bool.or_true]; rfl
        · rw [if_neg hd]
          have : inBox ((x0, y0), (x1, y1)) x y = false := by
            simp only [inBox, decide_eq_false_iff_not]; omega
          dsimp only
          rw [this, Bool.or_false]
      · rw [(hgood x).2 hx]; split <;> rfl
    · rw [if_neg hc]
      refine ⟨row, rfl, fun x => ⟨fun hx => ?_, (hgood x).2⟩⟩
      have : inBox ((x0, y0), (x1, y1)) x y = false := by
        simp only [inBox, decide_eq_false_iff_not]; omega
      rw [(hgood x).1 hx]
      dsimp only
      rw [this, Bool.or_false]
  · rw [(h y).2 hy]; split <;> rfl

/-- a loop whose steps each OR a pattern `Q a` into the canvas ORs all of them -/
theorem Good.foldl {ι : Type} {s : Nat} (step : Canvas → ι → Canvas) (Q : ι → Nat → Nat → Bool)
    (hstep : ∀ cv P a, Good s cv P → Good s (step cv a) (fun x y => P x y || Q a x y)) (l : List ι) :
    ∀ cv P, Good s cv P → Good s (l.foldl step cv) (fun x y => P x y || l.any (fun a => Q a x y)) := by
  induction l with
  | nil => intro cv P h; exact h.congr (fun x y => by rw [List.any_nil, Bool.or_false])
  | cons a l ih =>
    intro cv P h
    rw [List.foldl_cons]
    exact (ih _ _ (hstep cv P a h)).congr (fun x y => by rw [List.any_cons, Bool.or_assoc])

theorem Good.init (s : Nat) : Good s (Array.replicate s (Array.replicate s false)) (fun _ _ => false) := by
  intro y
  rw [Array.getElem?_replicate]
  refine ⟨fun hy => ?_, fun hy => by rw [if_neg (by omega)]⟩
  rw [if_pos hy]
  refine ⟨_, rfl, fun x => ?_⟩
  rw [Array.getElem?_replicate]
  exact ⟨fun hx => by rw [if_pos hx], fun hx => by rw [if_neg (by omega)]⟩

theorem Good.size {s : Nat} {cv : Canvas} {P : Nat → Nat → Bool} (h : Good s cv P) : cv.size = s := by
  have h1 := (h s).2 (Nat.le_refl s)
  rw [Array.getElem?_eq_none_iff] at h1
  apply Nat.le_antisymm h1
  apply Nat.le_of_not_lt
  intro hlt
  obtain ⟨row, hrow, -⟩ := (h cv.size).1 hlt
  rw [Array.getElem?_eq_none (Nat.le_refl _)] at hrow
  cases hrow

theorem RowGood.size {s : Nat} {row : Array Bool} {Q : Nat → Bool} (h : RowGood s row Q) : row.size = s := by
  have h1 := (h s).2 (Nat.le_refl s)
  rw [Array.getElem?_eq_none_iff] at h1
  apply Nat.le_antisymm h1
  apply Nat.le_of_not_lt
  intro hlt
  have h2 := (h row.size).1 hlt
  rw [Array.getElem?_eq_none (Nat.le_refl _)] at h2
  cases h2

/-- the pattern painted by the double loop of `pilRaster` -/
def pilPattern (M : Mods) (n border box : Nat) (x y : Nat) : Bool :=
  (List.range n).any fun r => (List.range n).any fun c =>
    (M.getD r []).getD c false && inBox (pixelBox border box r c) x y

theorem pilRaster_good (M : Mods) (n border box : Nat) :
    Good (pixelSize n border box) (pilRaster M n border box) (pilPattern M n border box) := by
  have inner : ∀ r cv P, Good (pixelSize n border box) cv P →
      Good (pixelSize n border box)
        ((List.range n).foldl (fun cv c =>
          if (M.getD r []).getD c false then drawBox cv (pixelBox border box r c) else cv) cv)
        (fun x y => P x y || (List.range n).any fun c =>
          (M.getD r []).getD c false && inBox (pixelBox border box r c) x y) := by
    intro r
    refine Good.foldl _ (fun c x y => (M.getD r []).getD c false && inBox (pixelBox border box r c) x y) ?_ _
    intro cv P c h
    cases hm : (M.getD r []).getD c false
    · simp only [Bool.false_and, Bool.or_false]; exact h
    · simp only [Bool.true_and, if_true]; exact h.drawBox _
  have outer := Good.foldl (s := pixelSize n border box)
    (fun cv r => (List.range n).foldl (fun cv c =>
      if (M.getD r []).getD c false then drawBox cv (pixelBox border box r c) else cv) cv)
    (fun r x y => (List.range n).any fun c =>
      (M.getD r []).getD c false && inBox (pixelBox border box r c) x y)
    (fun cv P r h => inner r cv P h) (List.range n) _ _ (Good.init (pixelSize n border box))
  exact outer.congr (fun x y => by rw [Bool.false_or]; rfl)

theorem pilPattern_eq (M : Mods) (n border box : Nat) (hb : 1 ≤ box) (x y : Nat) :
    pilPattern M n border box x y = Spec.rasterDark M n border box x y := by
  rw [Bool.eq_iff_iff]
  simp only [pilPattern, List.any_eq_true, List.mem_range, Bool.and_eq_true, inBox_pixelBox _ _ _ _ _ _ hb,
    Spec.rasterDark, Spec.framed, Spec.modAt, decide_eq_true_eq]
  constructor
  · rintro ⟨r, hr, c, hc, hm, hx, hy⟩
    rw [hx, hy, Nat.add_sub_cancel, Nat.add_sub_cancel]
    exact ⟨⟨⟨⟨by omega, by omega⟩, by omega⟩, by omega⟩, hm⟩
  · rintro ⟨⟨⟨⟨h1, h2⟩, h3⟩, h4⟩, hm⟩
    exact ⟨y / box - border, by omega, x / box - border, by omega, hm, by omega, by omega⟩

set_option linter.unusedVariables false in
theorem pilRaster_spec (M : Mods) (n border box : Nat) (hlen : M.length = n) (hrow : ∀ row ∈ M, row.length = n)
    (hb : 1 ≤ box) :
    (pilRaster M n border box).size = pixelSize n border box ∧
    (∀ row ∈ pilRaster M n border box, row.size = pixelSize n border box) ∧
    ∀ x y, x < pixelSize n border box → y < pixelSize n border box →
      ((pilRaster M n border box).getD y #[]).getD x false = Spec.rasterDark M n border box x y := by
  have hg := pilRaster_good M n border box
  refine ⟨hg.size, ?_, ?_⟩
  · intro row hmem
    obtain ⟨y, hy, rfl⟩ := Array.mem_iff_getElem.1 hmem
    rw [hg.size] at hy
    obtain ⟨row, hrow, hgood⟩ := (hg y).1 hy
    rw [Array.getElem?_eq_getElem (by rw [hg.size]; exact hy)] at hrow
    rw [Option.some.inj hrow]
    exact hgood.size
  · intro x y hx hy
    obtain ⟨row, hrow, hgood⟩ := (hg y).1 hy
    rw [Array.getD_eq_getD_getElem? (xs := pilRaster M n border box), hrow, Option.getD_some,
      Array.getD_eq_getD_getElem?, (hgood x).1 hx, Option.getD_some]
    exact pilPattern_eq M n border box hb x y

end QR.Proofs.Raster
