import QR.Proofs.SegBasic
/-
C10 (segmentation), part 2: the shape of `addData` (every segment is numeric / alphanumeric / byte, holds only
characters of its class, and in the un-anchored case is long enough), `toPSegs`, and the clauses
lossless / valid / thresholdZero / minLength of `Spec.segmentation`.
-/
namespace QR.Seg
open QR QR.Model

/-! ### Spec view of model segments -/

def modeOf (m : Nat) : Spec.Mode := if m = 1 then .numeric else if m = 2 then .alnum else .byte

def conv (s : Seg) : Spec.PSeg := { mode := modeOf s.mode, data := s.data }

theorem toPSegs_of_modes : ∀ (l : List Seg), (∀ s ∈ l, s.mode = 1 ∨ s.mode = 2 ∨ s.mode = 4) →
    toPSegs l = some (l.map conv)
  | [], _ => rfl
  | s :: l, h => by
    have ih := toPSegs_of_modes l (fun s hs => h s (List.mem_cons_of_mem _ hs))
    have hs : toPSeg s = some (conv s) := by
      rcases h s List.mem_cons_self with h | h | h <;>
        simp [toPSeg, conv, modeOf, h, Spec.Mode.ofIndicator]
    simp only [toPSegs] at ih ⊢
    rw [List.mapM_cons, hs, ih]
    rfl

/-! ### optimalDataChunks in terms of chunk lists -/

/-- `_optimal_split` with the pattern chosen by `optimal_data_chunks` -/
def splitBy (A : Prop) [Decidable A] (n : Nat) (p : Nat → Bool) (d : List Nat) : List (Bool × List Nat) :=
  if A then splitAnchored p d else splitRuns p n d.length d

/-- the segments built from an outer (digit) chunk list and an inner (alphanumeric) splitter -/
def segsOf (cs : List (Bool × List Nat)) (inner : List Nat → List (Bool × List Nat)) : List Seg :=
  cs.flatMap fun x =>
    if x.1 then [{ mode := 1, data := x.2 }]
    else (inner x.2).map fun y => { mode := if y.1 then 2 else 4, data := y.2 }

theorem optimalDataChunks_eq (data : List Nat) (n : Nat) :
    optimalDataChunks data n =
      segsOf (splitBy (data.length ≤ n) n isDigit data) (splitBy (data.length ≤ n) n isAlnum) := rfl

theorem splitBy_ok (A : Prop) [Decidable A] (n : Nat) (p : Nat → Bool) (d : List Nat) :
    ChunksOK p (if A then 0 else n) d (splitBy A n p d) := by
  unfold splitBy
  split
  · exact splitAnchored_ok d
  · exact splitRuns_ok _ d

/-- a segment is well-formed for minimum length `m` -/
def SegOK (m : Nat) (s : Seg) : Prop :=
  (s.mode = 1 ∧ (∀ c ∈ s.data, isDigit c = true) ∧ m ≤ s.data.length) ∨
  (s.mode = 2 ∧ (∀ c ∈ s.data, isAlnum c = true) ∧ m ≤ s.data.length) ∨
  s.mode = 4

theorem segsOf_ok {m : Nat} {d : List Nat} {cs : List (Bool × List Nat)} {inner : List Nat → List (Bool × List Nat)}
    (h1 : ChunksOK isDigit m d cs) (h2 : ∀ c, ChunksOK isAlnum m c (inner c)) :
    (segsOf cs inner).flatMap (·.data) = d ∧ ∀ s ∈ segsOf cs inner, SegOK m s := by
  obtain ⟨hcat, hcs⟩ := h1
  subst hcat
  unfold segsOf
  induction cs with
  | nil => simp
  | cons x cs ih =>
    obtain ⟨ih1, ih2⟩ := ih (fun y hy => hcs y (List.mem_cons_of_mem _ hy))
    have hx := hcs x List.mem_cons_self
    simp only [List.flatMap_cons, List.flatMap_append]
    constructor
    · rw [ih1]
      congr 1
      by_cases hf : x.1 = true
      · simp [hf]
      · simp only [hf, if_false, Bool.false_eq_true]
        rw [List.flatMap_map]
        exact (h2 x.2).1
    · intro s hs
      rcases List.mem_append.mp hs with hs | hs
      · by_cases hf : x.1 = true
        · simp only [hf, if_true, List.mem_singleton] at hs
          subst hs
          exact Or.inl ⟨rfl, (hx.2 hf).1, (hx.2 hf).2⟩
        · simp only [hf, if_false, Bool.false_eq_true, List.mem_map] at hs
          obtain ⟨y, hy, rfl⟩ := hs
          have hy' := (h2 x.2).2 y hy
          by_cases hg : y.1 = true
          · exact Or.inr (Or.inl ⟨by simp [hg], (hy'.2 hg).1, (hy'.2 hg).2⟩)
          · exact Or.inr (Or.inr (by simp [hg]))
      · exact ih2 s hs

/-- the minimum segment length `optimalDataChunks` guarantees -/
def minOf (d : List Nat) (n : Nat) : Nat := if d.length ≤ n then 0 else n

theorem optimalDataChunks_ok (d : List Nat) (n : Nat) :
    (optimalDataChunks d n).flatMap (·.data) = d ∧ ∀ s ∈ optimalDataChunks d n, SegOK (minOf d n) s := by
  rw [optimalDataChunks_eq]
  exact segsOf_ok (splitBy_ok _ n isDigit d) (fun c => splitBy_ok _ n isAlnum c)

theorem optimalMode_cases (d : List Nat) :
    (optimalMode d = 1 ∧ d ≠ [] ∧ d.all isDigit = true) ∨
    (optimalMode d = 2 ∧ (d = [] ∨ d.all isDigit = false) ∧ d.all isAlnum = true) ∨
    (optimalMode d = 4 ∧ (d = [] ∨ d.all isDigit = false) ∧ d.all isAlnum = false) := by
  unfold optimalMode
  by_cases h1 : d = []
  · subst h1; simp [Gen.MODE_ALPHA_NUM]
  · by_cases h2 : d.all isDigit = true
    · simp [h1, h2, Gen.MODE_NUMBER]
    · by_cases h3 : d.all isAlnum = true
      · simp only [Bool.not_eq_true] at h2
        simp [h2, h3, Gen.MODE_ALPHA_NUM]
      · simp only [Bool.not_eq_true] at h2 h3
        simp [h2, h3, Gen.MODE_8BIT_BYTE]

theorem optimalMode_ok (d : List Nat) : SegOK 0 { mode := optimalMode d, data := d } := by
  rcases optimalMode_cases d with ⟨h, _, h2⟩ | ⟨h, _, h2⟩ | ⟨h, _, _⟩
  · exact Or.inl ⟨h, List.all_eq_true.mp h2, Nat.zero_le _⟩
  · exact Or.inr (Or.inl ⟨h, List.all_eq_true.mp h2, Nat.zero_le _⟩)
  · exact Or.inr (Or.inr h)

theorem SegOK.mono {m : Nat} {s : Seg} (h : SegOK m s) : SegOK 0 s := by
  rcases h with ⟨a, b, _⟩ | ⟨a, b, _⟩ | a
  · exact Or.inl ⟨a, b, Nat.zero_le _⟩
  · exact Or.inr (Or.inl ⟨a, b, Nat.zero_le _⟩)
  · exact Or.inr (Or.inr a)

/-- model level: `add_data` is lossless and every segment is well-formed -/
theorem addData_ok (d : List Nat) (n : Nat) :
    (addData d n).flatMap (·.data) = d ∧ ∀ s ∈ addData d n, SegOK 0 s := by
  unfold addData
  split
  · exact ⟨(optimalDataChunks_ok d n).1, fun s hs => ((optimalDataChunks_ok d n).2 s hs).mono⟩
  · refine ⟨by simp, fun s hs => ?_⟩
    simp only [List.mem_singleton] at hs
    subst hs; exact optimalMode_ok d

theorem addData_lossless (d : List Nat) (n : Nat) : (addData d n).flatMap (·.data) = d := (addData_ok d n).1

theorem SegOK.mode {m : Nat} {s : Seg} (h : SegOK m s) : s.mode = 1 ∨ s.mode = 2 ∨ s.mode = 4 := by
  rcases h with ⟨a, _⟩ | ⟨a, _⟩ | a
  · exact Or.inl a
  · exact Or.inr (Or.inl a)
  · exact Or.inr (Or.inr a)

theorem addData_toPSegs_eq (d : List Nat) (n : Nat) : toPSegs (addData d n) = some ((addData d n).map conv) :=
  toPSegs_of_modes _ fun s hs => ((addData_ok d n).2 s hs).mode

/-! ### the Spec clauses on `(addData d n).map conv` -/

theorem conv_lossless (d : List Nat) (n : Nat) :
    (Spec.segmentation n d ((addData d n).map conv)).lossless = true := by
  simp only [Spec.segmentation, beq_iff_eq]
  rw [List.flatMap_map]
  exact addData_lossless d n

theorem canRepresent_conv {m : Nat} {s : Seg} (h : SegOK m s) : Spec.canRepresent (conv s).mode (conv s).data = true := by
  rcases h with ⟨a, b, _⟩ | ⟨a, b, _⟩ | a
  · simp only [conv, modeOf, a, if_true, Spec.canRepresent, isDigitChar_eq]
    exact List.all_eq_true.mpr b
  · simp only [conv, modeOf, a, Spec.canRepresent, isAlnumChar_eq]
    exact List.all_eq_true.mpr b
  · simp [conv, modeOf, a, Spec.canRepresent]

theorem conv_valid (d : List Nat) (n : Nat) :
    (Spec.segmentation n d ((addData d n).map conv)).valid = true := by
  simp only [Spec.segmentation, List.all_map, List.all_eq_true, Function.comp]
  intro s hs
  exact canRepresent_conv ((addData_ok d n).2 s hs)

theorem conv_thresholdZero (d : List Nat) (n : Nat) :
    (Spec.segmentation n d ((addData d n).map conv)).thresholdZero = true := by
  simp only [Spec.segmentation]
  by_cases hn : n = 0
  · subst hn
    simp only [addData, ne_eq, not_true_eq_false, if_false, List.map_cons, List.map_nil]
    by_cases hd : d = []
    · subst hd; simp
    · simp only [bne_self_eq_false, Bool.false_or, Bool.or_eq_true, List.isEmpty_iff, hd, false_or, beq_iff_eq]
      simp only [conv, Spec.mostCompact, isDigitChar_eq, isAlnumChar_eq]
      rcases optimalMode_cases d with ⟨h, _, h2⟩ | ⟨h, h1, h2⟩ | ⟨h, h1, h2⟩
      · simp [h, h2, modeOf]
      · have h1 : d.all isDigit = false := by rcases h1 with h1 | h1; exact absurd h1 hd; exact h1
        simp [h, h1, h2, modeOf]
      · have h1 : d.all isDigit = false := by rcases h1 with h1 | h1; exact absurd h1 hd; exact h1
        simp [h, h1, h2, modeOf]
  · simp [hn]

theorem conv_minLength (d : List Nat) (n : Nat) :
    (Spec.segmentation n d ((addData d n).map conv)).minLength = true := by
  simp only [Spec.segmentation]
  by_cases hn : n = 0
  · simp [hn]
  · by_cases hd : d.length ≤ n
    · simp [hd]
    · simp only [Bool.or_eq_true, beq_iff_eq, hn, decide_eq_true_eq, hd, false_or, List.all_map, List.all_eq_true,
        Function.comp]
      intro s hs
      simp only [addData, ne_eq, hn, not_false_eq_true, if_true] at hs
      have := (optimalDataChunks_ok d n).2 s hs
      simp only [minOf, hd, if_false] at this
      rcases this with ⟨a, _, c⟩ | ⟨a, _, c⟩ | a
      · exact Or.inr c
      · exact Or.inr c
      · left; simp [conv, modeOf, a]

end QR.Seg
