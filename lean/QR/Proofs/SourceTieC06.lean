import QR.Gen.Code
import QR.Model.Data
/-
Translation validation for C06: the hand-written Model is PROVED equal to the expressions tools/translate.py (T2) extracts from
the Python AST of the current source on every run (lean/QR/Gen/Code.lean).  One file per property, so that a fragment that
changed (or became untranslatable) breaks the obligations of the property it belongs to and of no other.
-/
namespace QR.SourceTie
open QR QR.Model QR.Gen.Code

/-- `util.mode_sizes_for_version`: class boundaries -/
theorem sizeClass_eq (v : Nat) : mode_size_class v = sizeClass v := by
  unfold mode_size_class sizeClass
  by_cases h1 : v < 10 <;> by_cases h2 : v < 27 <;> simp [h1, h2]

/-- `create_data`: overflow test, terminator length, pad alternation -/
theorem createData_pieces :
    (∀ len limit, overflow_test len limit = decide (len > limit)) ∧
    (∀ len limit, terminator_len len limit = min (limit - len) 4) ∧
    (∀ i, pad_first i = decide (i % 2 = 0)) ∧ pad_names = ("PAD0", "PAD1") :=
  ⟨fun _ _ => rfl, fun _ _ => rfl, fun _ => rfl, rfl⟩

/-- the pad loop written with the translated alternation test -/
theorem padBytes_eq (n : Nat) :
    padBytes n = (List.range n).flatMap fun i => bitsBE (if pad_first i then Gen.PAD0 else Gen.PAD1) 8 := by
  unfold padBytes pad_first
  congr 1
  funext i
  by_cases h : i % 2 = 0 <;> simp [h]

/-- `create_data` up to `create_bytes`, written with the overflow test and terminator length translated from the source -/
theorem dataBits_eq (version level : Nat) (segs : List Seg) :
    dataBits version level segs = (do
      let buffer ← segsBits (fun m => lengthInBits m version) segs
      let blocks ← rsBlocks version level
      let bitLimit := (blocks.map fun b => b.2 * 8).sum
      if overflow_test buffer.length bitLimit then .error .dataOverflow
      else
        let buffer := buffer ++ List.replicate (terminator_len buffer.length bitLimit) false
        let delimit := buffer.length % 8
        let buffer := if delimit ≠ 0 then buffer ++ List.replicate (8 - delimit) false else buffer
        let bytesToFill := (bitLimit - buffer.length) / 8
        pure (buffer ++ padBytes bytesToFill)) := by
  unfold dataBits overflow_test terminator_len
  simp only [decide_eq_true_eq]


end QR.SourceTie
