import QR.Gen.Code
import QR.Model.QRObject
/-
Translation validation, package D2 (T2 plugin `tools/t2_fragments/frag_d2.py`), part 1: the validators `_check_box_size`,
`_check_border`, `_check_mask_pattern` (complete bodies, on arguments of dynamic type int | bool | float | None | other), the
property setters `version`, `border`, `mask_pattern`, `QRCode.clear`, the cache reset of `add_data`, the `version` getter and
`QRCode.__init__`, as translated statement by statement from the current Python AST into `QR.Gen.Code.ob_*`, against the
Model's `checkBoxSize`, `checkBorder`, `checkMaskPattern`, `step` (cases `.setVersion`, `.setBorder`, `.setMask`, `.clear`),
`QRState.cleared`, `construct`, and the first line of `makeS` (reading `self.version`).

The translated code works on a record `ob_QR D C F` of the object's attributes; `toOb` is the image of a Model state.
Exceptions are compared by class name (`liftR`).
-/
namespace QR.SourceTieD2
open QR QR.Model QR.Gen.Code

/-- the Model's result with the exception replaced by its class name -/
def liftR {α : Type} : R α → Except String α
  | .ok a => .ok a
  | .error e => .error e.name

/-- an optional integer argument as a Python value -/
def optVal : Option Int → ob_Val
  | none => .none
  | some i => .int i

/-- the attributes of the Python object that a Model state stands for (`fac` = its `image_factory`, which the Model does not
    carry): `version = 0` is `_version = None`, the matrix as a list of lists -/
def toOb {F : Type} (fac : Option F) (s : QRState) : ob_QR Seg (List Nat) F :=
  { _version := if s.version = 0 then .none else .int s.version
    error_correction := s.level
    box_size := s.boxSize
    _border := s.border
    _mask_pattern := match s.mask with
      | none => .none
      | some m => .int m
    image_factory := fac
    modules := s.modules.toLists
    modules_count := s.modulesCount
    data_cache := s.dataCache
    data_list := s.dataList }

/-- ... and back (left inverse of `toOb`) -/
def ofOb {F : Type} (o : ob_QR Seg (List Nat) F) : QRState :=
  { version := match o._version with
      | .int i => i.toNat
      | _ => 0
    level := o.error_correction.toNat
    mask := match o._mask_pattern with
      | .int i => some i.toNat
      | _ => none
    border := o._border.toNat
    boxSize := o.box_size
    dataList := o.data_list
    dataCache := o.data_cache
    modules := (o.modules.map List.toArray).toArray
    modulesCount := o.modules_count }

theorem ofOb_toOb {F : Type} (fac : Option F) (s : QRState) : ofOb (toOb fac s) = s := by
  obtain ⟨v, l, m, b, bs, dl, dc, mo, mc⟩ := s
  simp only [ofOb, toOb, Mat.toLists]
  congr
  · by_cases h : v = 0 <;> simp [h]
  · cases m <;> simp
  · simp [List.map_map, Function.comp_def]

/-- `util.check_version` as the setter calls it (on the result of `int(value)`) -/
def checkVersionOb : ob_Val → Except String Unit
  | .int i => liftR (checkVersion i)
  | _ => .error "TypeError"

/-! ### what is only recorded as text -/

theorem literals_src :
    ob_check_box_size_raise0 = "ValueError(f'Invalid box size (was {size}, expected larger than 0)')" ∧
    ob_check_border_raise0 = "ValueError('Invalid border value (was %s, expected 0 or larger than that)' % size)" ∧
    ob_check_mask_pattern_raise0 = "TypeError(f'Invalid mask pattern (was {type(mask_pattern)}, expected int)')" ∧
    ob_check_mask_pattern_raise1 = "ValueError(f'Mask pattern should be in range(8) (got {mask_pattern})')" ∧
    ob_get_version_cast_type = "int" ∧ ob_add_data_optimize_default = 20 ∧
    ob_add_data_branches = ["self.data_list.append(data)",
      "self.data_list.extend(util.optimal_data_chunks(data, minimum=optimize))", "self.data_list.append(util.QRData(data))"] ∧
    ob_init_defaults = [("version", "None", "None"), ("error_correction", "constants.ERROR_CORRECT_M", "0"),
      ("box_size", "10", "10"), ("border", "4", "4"), ("image_factory", "None", "None"), ("mask_pattern", "None", "None")] ∧
    ob_class_attributes = ["_version: Optional[int] = None"] := by decide

/-! ### validators -/

/-- `_check_box_size(size)` on an integer -/
theorem checkBoxSize_src (x : Int) : ob_check_box_size (.int x) = liftR (checkBoxSize x) := by
  by_cases h : x ≤ 0 <;> simp [ob_check_box_size, ob_py_int, Except.bind, checkBoxSize, liftR, h, Err.name]

/-- `_check_box_size(size)` on the other types: `int(None)` / `int(other)` raise TypeError; `True` is 1, `False` is 0; a
    float is truncated first (so `box_size=0.5` is rejected, `box_size=1.5` accepted) -/
theorem checkBoxSize_nonint_src :
    ob_check_box_size .none = .error "TypeError" ∧ ob_check_box_size .other = .error "TypeError" ∧
    ob_check_box_size (.bool true) = .ok () ∧ ob_check_box_size (.bool false) = .error "ValueError" ∧
    (∀ t, ob_check_box_size (.float t) = ob_check_box_size (.int t)) := by
  refine ⟨rfl, rfl, rfl, rfl, fun t => rfl⟩

/-- `_check_border(size)` on an integer -/
theorem checkBorder_src (x : Int) : ob_check_border (.int x) = liftR (checkBorder x) := by
  by_cases h : x < 0 <;> simp [ob_check_border, ob_py_int, Except.bind, checkBorder, liftR, h, Err.name]

/-- `_check_border(size)` on the other types (`border=-0.5` is accepted: `int(-0.5) == 0`) -/
theorem checkBorder_nonint_src :
    ob_check_border .none = .error "TypeError" ∧ ob_check_border .other = .error "TypeError" ∧
    (∀ b, ob_check_border (.bool b) = .ok ()) ∧ (∀ t, ob_check_border (.float t) = ob_check_border (.int t)) := by
  refine ⟨rfl, rfl, fun b => by cases b <;> rfl, fun t => rfl⟩

/-- `_check_mask_pattern(mask_pattern)` on `None` or an integer: the complete body (early return, isinstance test, range) -/
theorem checkMaskPattern_src (x : Option Int) : ob_check_mask_pattern (optVal x) = liftR (checkMaskPattern x) := by
  cases x with
  | none => rfl
  | some m =>
    by_cases h1 : m < 0 <;> by_cases h2 : m > 7 <;>
      simp [ob_check_mask_pattern, optVal, ob_py_is_none, ob_py_isinstance_int, ob_py_num, checkMaskPattern, liftR, h1, h2, Err.name]

/-- `_check_mask_pattern` on the other types: a float or another object is a TypeError; a `bool` IS an `int` instance and
    `True` / `False` are in range, so both are accepted -/
theorem checkMaskPattern_nonint_src :
    (∀ t, ob_check_mask_pattern (.float t) = .error "TypeError") ∧ ob_check_mask_pattern .other = .error "TypeError" ∧
    (∀ b, ob_check_mask_pattern (.bool b) = .ok ()) := by
  refine ⟨fun t => rfl, rfl, fun b => by cases b <;> rfl⟩

/-! ### `clear`, the cache reset of `add_data`, the plain getters -/

/-- `clear()` = `QRState.cleared` -/
theorem cleared_src {F : Type} (fac : Option F) (s : QRState) : ob_clear (toOb fac s) = toOb fac s.cleared := rfl

/-- `clear()` does not depend on (and overwrites) the four attributes it assigns: on ANY object -/
theorem clear_fields_src {D C F : Type} (o : ob_QR D C F) :
    ob_clear o = { o with modules := [[]], modules_count := 0, data_cache := none, data_list := [] } := rfl

/-- the last statement of `add_data` is `self.data_cache = None` (the Model's `.addData` / `.addSeg` reset the cache) -/
theorem add_data_reset_src {F : Type} (fac : Option F) (s : QRState) :
    ob_add_data_reset (toOb fac s) = toOb fac { s with dataCache := none } := rfl

/-- the getters of `border` and `mask_pattern` return the stored attribute -/
theorem getters_src {F : Type} (fac : Option F) (s : QRState) :
    ob_get_border (toOb fac s) = (s.border : Int) ∧ ob_get_mask_pattern (toOb fac s) = optVal (s.mask.map Int.ofNat) := by
  refine ⟨rfl, ?_⟩
  cases h : s.mask <;> simp [ob_get_mask_pattern, toOb, optVal, h]

/-! ### setters -/

/-- what the Model's `step` says about an operation that returns nothing, against a translated setter run on the image of
    the state: same new state (image), process-wide state untouched; or the same exception class and nothing changed -/
def Agrees {F : Type} (fac : Option F) (g : Global) (s : QRState) (r : Except String (ob_QR Seg (List Nat) F))
    (res : St × Out) : Prop :=
  match res.2 with
  | .unit => r = .ok (toOb fac res.1.2) ∧ res.1.1 = g
  | .err e => r = .error e.name ∧ res.1 = (g, s)
  | _ => False

/-- `self.version = value`: `None` is stored as it is; otherwise `int(value)`, `util.check_version`, store -/
theorem setVersion_src {F : Type} (fac : Option F) (g : Global) (s : QRState) (x : Option Int) :
    Agrees fac g s (ob_set_version checkVersionOb (toOb fac s) (optVal x)) (step (g, s) (.setVersion x)) := by
  cases x with
  | none => simp [Agrees, step, ob_set_version, optVal, ob_py_is_none, toOb]
  | some v =>
    by_cases h : v < 1 ∨ v > 40
    · simp [Agrees, step, ob_set_version, optVal, ob_py_is_none, ob_py_int, Except.bind, checkVersionOb, checkVersion, liftR, h,
        Err.name]
    · have h0 : v.toNat ≠ 0 := by omega
      have h1 : ((v.toNat : Nat) : Int) = v := by omega
      simp [Agrees, step, ob_set_version, optVal, ob_py_is_none, ob_py_int, Except.bind, checkVersionOb, checkVersion, liftR, h,
        toOb, h0, h1]

/-- `self.border = value`: `_check_border(value)`, then `int(value)` is stored -/
theorem setBorder_src {F : Type} (fac : Option F) (g : Global) (s : QRState) (x : Int) :
    Agrees fac g s (ob_set_border (toOb fac s) (.int x)) (step (g, s) (.setBorder x)) := by
  by_cases h : x < 0
  · simp [Agrees, step, ob_set_border, ob_check_border, ob_py_int, Except.bind, checkBorder, h, Err.name]
  · have h1 : ((x.toNat : Nat) : Int) = x := by omega
    simp [Agrees, step, ob_set_border, ob_check_border, ob_py_int, Except.bind, checkBorder, h, toOb, h1]

/-- `self.mask_pattern = pattern`: `_check_mask_pattern(pattern)`, then the argument itself is stored -/
theorem setMask_src {F : Type} (fac : Option F) (g : Global) (s : QRState) (x : Option Int) :
    Agrees fac g s (ob_set_mask_pattern (toOb fac s) (optVal x)) (step (g, s) (.setMask x)) := by
  have hc := checkMaskPattern_src x
  cases x with
  | none => rw [ob_set_mask_pattern, hc]; simp [Agrees, step, checkMaskPattern, liftR, Except.bind, toOb, optVal] <;> rfl
  | some m =>
    rw [ob_set_mask_pattern, hc]
    by_cases h : m < 0 ∨ m > 7
    · simp [Agrees, step, checkMaskPattern, liftR, Except.bind, h, Err.name]
    · have h1 : ((m.toNat : Nat) : Int) = m := by omega
      simp [Agrees, step, checkMaskPattern, liftR, Except.bind, h, toOb, optVal, h1]

/-- `clear()` as an operation -/
theorem stepClear_src {F : Type} (fac : Option F) (g : Global) (s : QRState) :
    Agrees fac g s (.ok (ob_clear (toOb fac s))) (step (g, s) .clear) := by
  simp [Agrees, step, cleared_src]

/-- **`add_data(data, optimize)`** on a byte string = the Model's `.addData`: with `optimize` truthy the chunks of
    `util.optimal_data_chunks(data, minimum=optimize)` are appended, else the single `util.QRData(data)`; then
    `self.data_cache = None` -/
theorem addData_src {F : Type} (fac : Option F) (g : Global) (s : QRState) (d : Bytes) (n : Nat) :
    Agrees fac g s
      (.ok (ob_add_data (fun d k => optimalDataChunks d k.toNat) (fun d => ({ mode := optimalMode d, data := d } : Seg))
        (toOb fac s) (.inr d) (n : Int)))
      (step (g, s) (.addData d n)) := by
  by_cases h : n = 0
  · subst h; simp [Agrees, step, ob_add_data, addData, toOb]
  · simp [Agrees, step, ob_add_data, addData, toOb, h]

/-- `add_data(data)` on a `QRData` object = the Model's `.addSeg`: the object itself is appended (whatever `optimize`),
    then `self.data_cache = None` -/
theorem addSeg_src {F X : Type} (fac : Option F) (g : Global) (s : QRState) (x : Seg) (k : Int)
    (chunks : X → Int → List Seg) (mk : X → Seg) :
    Agrees fac g s (.ok (ob_add_data chunks mk (toOb fac s) (.inl x) k)) (step (g, s) (.addSeg x)) := by
  simp [Agrees, step, ob_add_data, toOb]
  rfl

/-- a bool passes the mask setter and is stored AS A BOOL (`qr.mask_pattern = True` leaves `_mask_pattern is True`); the
    Model's setter takes integers only -/
theorem setMask_bool_src {D C F : Type} (o : ob_QR D C F) (b : Bool) :
    ob_set_mask_pattern o (.bool b) = .ok { o with _mask_pattern := .bool b } := by
  cases b <;> rfl

/-! ### the `version` getter -/

/-- `self.best_fit()` as the getter calls it (no argument: `start=None`), through the Model's `bestFitS 4 0` -/
def bestFitOb {F : Type} (fac : Option F) :
    Global × ob_QR Seg (List Nat) F → (Global × ob_QR Seg (List Nat) F) × Except String Unit :=
  fun p => ((p.1, toOb fac (bestFitS 4 0 (ofOb p.2)).1), liftR ((bestFitS 4 0 (ofOb p.2)).2.map fun _ => ()))

/-- reading `self.version`: `best_fit()` runs first when `_version is None`, and the value read afterwards is the stored
    attribute (not what `best_fit` returned) - the first line of the Model's `makeS` -/
theorem getVersion_src {F : Type} (fac : Option F) (g : Global) (s : QRState) :
    ob_get_version (bestFitOb fac) g (toOb fac s) =
      (let p := if s.version = 0 then bestFitS 4 0 s else (s, .ok s.version)
       ((g, toOb fac p.1), liftR (p.2.map fun _ => (toOb fac p.1)._version))) := by
  by_cases h : s.version = 0
  · simp only [ob_get_version, bestFitOb, ofOb_toOb, h, if_true]
    have : (toOb fac s)._version = .none := by simp [toOb, h]
    simp only [this, ob_py_is_none, if_true]
    cases (bestFitS 4 0 s).2 <;> simp [liftR, Except.map]
  · have : (toOb fac s)._version = .int s.version := by simp [toOb, h]
    simp [ob_get_version, this, ob_py_is_none, h, liftR, Except.map]

/-! ### the constructor -/

local macro "init_close" : tactic => `(tactic|
  simp [*, ob_init, Except.bind, ob_py_int, ob_set_border, ob_set_mask_pattern, ob_set_version, optVal, ob_py_is_none,
    checkVersionOb, construct, checkBoxSize, checkBorder, checkVersion, checkMaskPattern, bind, liftR, Except.map,
    pure, Except.pure, toOb, ob_clear, Mat.toLists, Err.name, ob_check_mask_pattern, ob_py_isinstance_int, ob_py_num])

/-- **`QRCode.__init__`** on integer (or `None`) arguments = the Model's `construct`: the same checks in the same order
    (`_check_box_size`, `_check_border`, the `version` setter, `int(error_correction)`, `int(box_size)`, the `border`
    setter on `int(border)`, the `mask_pattern` setter, the factory assertion, `clear()`), the same exception class, the
    same resulting attributes - whatever the attributes were before (`self0`).  `fac` is the `image_factory` argument
    (absent from the Model); it must be `None` or a subclass of `BaseImage`. -/
theorem construct_src {F : Type} (issub : F → Bool) (fac : Option F) (hf : ∀ f, fac = some f → issub f = true)
    (self0 : ob_QR Seg (List Nat) F) (version : Option Int) (level : Nat) (box border : Int) (mask : Option Int) :
    ob_init checkVersionOb issub self0 (optVal version) (.int level) (.int box) (.int border) fac (optVal mask) =
      liftR ((construct version level box border mask).map (toOb fac)) := by
  have hm := checkMaskPattern_src mask
  by_cases hb : box ≤ 0
  · simp [ob_init, ob_check_box_size, ob_py_int, Except.bind, construct, checkBoxSize, hb, liftR, Except.map, bind, Err.name]
  by_cases hbo : border < 0
  · simp [ob_init, ob_check_box_size, ob_check_border, ob_py_int, Except.bind, construct, checkBoxSize, checkBorder, hb, hbo,
      liftR, Except.map, bind, Err.name]
  have hbn : ((border.toNat : Nat) : Int) = border := by omega
  have hbs : ob_check_box_size (.int box) = .ok () := by simp [checkBoxSize_src, checkBoxSize, hb, liftR]
  have hbd : ob_check_border (.int border) = .ok () := by simp [checkBorder_src, checkBorder, hbo, liftR]
  have hV : ∀ v : Int, v < 1 ∨ (¬v < 1 ∧ 40 < v) ∨ (¬v < 1 ∧ ¬40 < v ∧ v.toNat ≠ 0 ∧ ((v.toNat : Nat) : Int) = v) := by
    intro v; omega
  have hM : ∀ m : Int, m < 0 ∨ (¬m < 0 ∧ 7 < m) ∨ (¬m < 0 ∧ ¬7 < m ∧ ((m.toNat : Nat) : Int) = m) := by intro m; omega
  clear hm
  rcases version with _ | v
  · rcases mask with _ | m
    · rcases fac with _ | f <;> (try have hfi := hf _ rfl) <;> clear hV hM hf <;> init_close
    · rcases hM m with h1 | ⟨h1, h2⟩ | ⟨h1, h2, h3⟩ <;> rcases fac with _ | f <;> (try have hfi := hf _ rfl) <;>
        clear hV hM hf <;> init_close
  · rcases mask with _ | m
    · rcases hV v with h4 | ⟨h4, h5⟩ | ⟨h4, h5, h6, h7⟩ <;> rcases fac with _ | f <;> (try have hfi := hf _ rfl) <;>
        clear hV hM hf <;> init_close
    · rcases hV v with h4 | ⟨h4, h5⟩ | ⟨h4, h5, h6, h7⟩ <;> rcases hM m with h1 | ⟨h1, h2⟩ | ⟨h1, h2, h3⟩ <;>
        rcases fac with _ | f <;> (try have hfi := hf _ rfl) <;> clear hV hM hf <;> init_close

/-- **the tail of `__init__`**, for arguments of ANY type and any `util.check_version`: whenever the constructor returns an
    object, it has stored the `image_factory` argument, that argument passed `assert issubclass(image_factory, BaseImage)`
    (if not `None`), and the last statement `self.clear()` has run: `modules == [[]]`, `modules_count == 0`,
    `data_cache is None`, `data_list == []` -/
theorem init_cleared_src {D C F : Type} (cv : ob_Val → Except String Unit) (issub : F → Bool) (self0 : ob_QR D C F)
    (version level box border : ob_Val) (fac : Option F) (mask : ob_Val) (o : ob_QR D C F)
    (h : ob_init cv issub self0 version level box border fac mask = .ok o) :
    o.modules = [[]] ∧ o.modules_count = 0 ∧ o.data_cache = none ∧ o.data_list = [] ∧ o.image_factory = fac ∧
      (∀ f, fac = some f → issub f = true) := by
  simp only [ob_init, Except.bind, ob_set_border, ob_set_mask_pattern] at h
  repeat' split at h
  all_goals (first | (cases h; done) | skip)
  all_goals (injection h with h; subst h; simp_all [ob_clear])

end QR.SourceTieD2
