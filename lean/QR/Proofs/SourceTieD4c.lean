import QR.Gen.Code
import QR.Proofs.SourceTieD4a
/-
Translation validation, package D4, part c: the small methods around the drawing code - `BaseImage.check_kind`, `get_image`,
the unimplemented `BaseImage.drawrect_context` / `process`, `BaseImageWithDrawer.__init__` / `get_drawer` / `init_new_image`,
`PilImage.save`, and the order of the statements of `SvgImage._svg`, `SvgFragmentImage.to_string` / `new_image`.  The Model has
no function for these; the closed forms are defined here and the translated code is proved equal to them for all arguments.
-/
namespace QR.SourceTieD4
open QR QR.Gen.Code

/-! ### `BaseImage.check_kind` -/

/-- `kind in self.allowed_kinds` -/
def kindAllowed (kind : Option String) (allowed : Option (List String)) : Bool :=
  match kind with
  | some k => (allowed.getD []).contains k
  | none => false

/-- closed form of `check_kind(kind, transform)`: the default kind is the class's; a class without `allowed_kinds` accepts
    anything; otherwise the kind must be listed either before or after the transform; the transformed kind is returned -/
def checkKind (selfKind : Option String) (allowed : Option (List String)) (kind : Option String)
    (transform : Option (Option String → Option String)) : Except String (Option String) :=
  let k0 := if kind.isNone then selfKind else kind
  let ok0 := (allowed.getD []).isEmpty || kindAllowed k0 allowed
  match transform with
  | none => if ok0 then .ok k0 else .error "ValueError"
  | some t => if ok0 || kindAllowed (t k0) allowed then .ok (t k0) else .error "ValueError"

/-- `BaseImage.check_kind` as translated = the closed form, for every class configuration, kind and transform -/
theorem checkKind_src (selfKind : Option String) (allowed : Option (List String)) (kind : Option String)
    (transform : Option (Option String → Option String)) :
    rd_check_kind selfKind allowed kind transform.isSome (transform.getD id) = checkKind selfKind allowed kind transform := by
  unfold rd_check_kind checkKind rd_py_truthy_tuple
  have hin : ∀ k, rd_py_in k allowed = kindAllowed k allowed := fun k => by cases k <;> rfl
  dsimp only
  simp only [hin]
  cases transform with
  | none =>
    simp only [Option.isSome_none, Option.getD_none]
    generalize (allowed.getD []).isEmpty = e
    generalize kindAllowed (if kind.isNone then selfKind else kind) allowed = a
    cases e <;> cases a <;> rfl
  | some t =>
    simp only [Option.isSome_some, Option.getD_some]
    generalize (allowed.getD []).isEmpty = e
    generalize kindAllowed (t (if kind.isNone then selfKind else kind)) allowed = b
    generalize kindAllowed (if kind.isNone then selfKind else kind) allowed = a
    cases e <;> cases a <;> cases b <;> rfl

/-- the SVG factories accept only "SVG" (and default to it), `PilImage` / `StyledPilImage` accept anything, PyPNG only "PNG" -/
theorem classKinds_literals :
    rd_class_kinds = [("PilImage", (some "PNG", none)), ("PyPNGImage", (some "PNG", some ["PNG"])),
      ("StyledPilImage", (some "PNG", none)), ("SvgFragmentImage", (some "SVG", some ["SVG"])),
      ("SvgImage", (some "SVG", some ["SVG"])), ("SvgFillImage", (some "SVG", some ["SVG"])),
      ("SvgPathImage", (some "SVG", some ["SVG"])), ("SvgPathFillImage", (some "SVG", some ["SVG"]))] := by decide

/-- `get_image()` returns the underlying image object, whatever the keyword arguments -/
theorem getImage_src {I K : Type} (img : I) (kw : K) : rd_get_image img kw = img := rfl

/-- the base class implements neither `drawrect_context` nor `process` -/
theorem baseStubs_literals :
    rd_base_drawrect_context_raises = "NotImplementedError" ∧ rd_base_process_raises = "NotImplementedError" := by decide

/-! ### `PilImage.save` -/

/-- `PilImage.save(stream, format, **kwargs)`: the format handed to Pillow is `format` if given, else the keyword `kind` if
    given, else the class's `kind`; `kind` never reaches Pillow, all other keywords do (in order) -/
theorem pilSave_src (selfKind : String) (format : Option String) (kwargs : List (String × String)) :
    rd_pil_save selfKind format kwargs =
      (some (format.getD ((kwargs.lookup "kind").getD selfKind)), kwargs.filter fun p => p.1 != "kind") := by
  unfold rd_pil_save rd_py_pop
  cases format <;> rfl

theorem pilSave_literals :
    rd_pil_save_callee = "self._img.save" ∧ rd_pil_save_call_shape = ["stream", "format=format", "**=kwargs"] := by decide

/-! ### `BaseImageWithDrawer.__init__`, `get_drawer`, `init_new_image` -/

/-- `get_drawer`: `None` stays `None`, a drawer object is returned as is, an alias is looked up (unknown alias: KeyError) -/
theorem getDrawer_src {D : Type} (aliases : String → Option D) (a : rd_DrawerArg D) :
    rd_get_drawer aliases a =
      match a with
      | .none => .ok none
      | .obj d => .ok (some d)
      | .str s => (aliases s).elim (.error "KeyError") (fun d => .ok (some d)) := by
  cases a with
  | none => rfl
  | obj d => rfl
  | str s => cases h : aliases s <;> simp [rd_get_drawer, h]

theorem getDrawer_literals : rd_get_drawer_table = "self.drawer_aliases" := by decide

/-- `__init__`: the module drawer is the resolved `module_drawer` argument or else the default MODULE drawer, the eye drawer the
    resolved `eye_drawer` argument or else the default EYE drawer; both are set before the base class constructor (which builds
    the image and calls `init_new_image`) runs -/
theorem withDrawerInit_src {D A : Type} (getDrawer : A → Option D) (dm de : D) (superInit : rd_Drawers D → rd_Drawers D)
    (m e : A) (self : rd_Drawers D) :
    rd_with_drawer_init getDrawer dm de superInit m e self =
      superInit { module_drawer := (getDrawer m).getD dm, eye_drawer := (getDrawer e).getD de } := rfl

/-- `init_new_image` initialises the module drawer, then the eye drawer, with the image -/
theorem initNewImage_literals :
    rd_init_new_image_calls = ["self.module_drawer.initialize", "self.eye_drawer.initialize"] := by decide

/-- which class's methods an image class runs (resolved along the class hierarchy):
    [drawrect, drawrect_context, process, init_new_image, __init__] -/
theorem classMethods_literals :
    rd_class_methods.lookup "PilImage" = some ["PilImage", "BaseImage", "BaseImage", "BaseImage", "BaseImage"] ∧
    rd_class_methods.lookup "SvgImage"
      = some ["BaseImage", "BaseImageWithDrawer", "BaseImage", "BaseImageWithDrawer", "SvgFragmentImage"] ∧
    rd_class_methods.lookup "SvgFragmentImage" = rd_class_methods.lookup "SvgImage" ∧
    rd_class_methods.lookup "SvgFillImage" = rd_class_methods.lookup "SvgImage" ∧
    rd_class_methods.lookup "SvgPathImage"
      = some ["BaseImage", "BaseImageWithDrawer", "SvgPathImage", "BaseImageWithDrawer", "SvgPathImage"] ∧
    rd_class_methods.lookup "SvgPathFillImage" = rd_class_methods.lookup "SvgPathImage" := by decide

/-! ### `SvgImage._svg`, `SvgPathImage._svg`, `to_string`, `new_image` -/

/-- `SvgImage._svg`: the root comes from the base class, gets `xmlns`, then (if `self.background`) the background rectangle is
    appended to it - before `make_image` appends anything -, and the root is returned; `SvgPathImage._svg` passes `viewBox` up;
    `new_image` is `_svg(**kwargs)`; `to_string` serialises `self._img` -/
theorem svgImage_literals :
    rd_svg_image_svg_steps = ["svg = super()._svg(tag=tag, **kwargs)", "svg.set('xmlns', self._SVG_namespace)",
      "if self.background", "svg.append", "return svg"] ∧
    rd_svg_image_svg_tag_default = "svg" ∧
    rd_svg_path_svg_return = "super()._svg(viewBox=viewBox, **kwargs)" ∧
    rd_svg_to_string_returns = "ET.tostring(self._img, **kwargs)" ∧
    rd_svg_new_image_returns = "self._svg(**kwargs)" := by decide

end QR.SourceTieD4
