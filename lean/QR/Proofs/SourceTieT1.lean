import QR.Gen.Code
import QR.Model.Matrix
/-
Translation validation, list C1: `QRCode.map_data` complete.
The fragments `QR.Gen.Code.map_*` are produced by tools/t2_fragments/frag_c.py from the Python AST (initial values, column
prelude, the tuple of columns, the `is None` test cell, the value block computing `dark`, the written cell, the bit/byte index
update, the row update, the exit test and the turn).  Here they are assembled by a generic interpreter of the loop skeleton
`for col in range(a, b, s): <prelude>; while True: for c in <values>: <cell>; <row step>; if <exit>: <turn>; break`
and the hand-written `Model.mapData` (a fold over the precomputed traversal `trav n` consuming a bit list) is proved equal to
the result, for every odd module count (Python: `modules_count = 4 * version + 17`).
-/
namespace QR.SourceTieT
open QR QR.Model QR.Gen.Code

/-- Python list indexing `xs[i]` on a list of length `n`: negative indices count from the end -/
def pyIdx (n : Nat) (i : Int) : Nat := if i < 0 then (i + n).toNat else i.toNat

/-- Python `range(a, b, s)` -/
def pyRange3 (a b s : Int) : List Int :=
  if s > 0 then (List.range ((b - a + s - 1) / s).toNat).map fun (k : Nat) => a + s * (k : Int)
  else if s < 0 then (List.range ((a - b + (-s) - 1) / (-s)).toNat).map fun (k : Nat) => a + s * (k : Int)
  else []

/-- the local state of `map_data` -/
structure MapSt where
  m : Mat
  inc : Int
  row : Int
  bitIndex : Int
  byteIndex : Int

section interp
variable (n : Nat) (maskf : Nat → Nat → Bool) (data : List Nat)

/-- the body of `for c in …:` - the `if self.modules[row][c] is None:` statement -/
def mapCell (col c : Int) (s : MapSt) : MapSt :=
  let t := map_cell_test n data.length col c s.inc s.row s.bitIndex s.byteIndex
  if s.m.get (pyIdx n t.1) (pyIdx n t.2) = none then
    let dark := map_dark (fun r c => maskf r.toNat c.toNat) (fun i => data.getD (pyIdx data.length i) 0)
      n data.length col c s.inc s.row s.bitIndex s.byteIndex
    let w := map_cell_write n data.length col c s.inc s.row s.bitIndex s.byteIndex
    let b := map_bits_step n data.length col c s.inc s.row s.bitIndex s.byteIndex
    { s with m := s.m.set (pyIdx n w.1) (pyIdx n w.2) (some dark), bitIndex := b.1, byteIndex := b.2 }
  else s

/-- `for c in <values>: <cell>` -/
def rowBody (col : Int) (s : MapSt) : MapSt := (map_c_values n col).foldl (fun s c => mapCell n maskf data col c s) s

/-- `while True:` with fuel; `none` = the fuel ran out before the `break` -/
def rowLoop (col : Int) : Nat → MapSt → Option MapSt
  | 0, _ => none
  | fuel + 1, s =>
    let s1 := rowBody n maskf data col s
    let r := map_row_step n data.length col s1.inc s1.row s1.bitIndex s1.byteIndex
    let s2 := { s1 with inc := r.1, row := r.2 }
    if map_row_exit n data.length col s2.inc s2.row s2.bitIndex s2.byteIndex then
      let t := map_row_turn n data.length col s2.inc s2.row s2.bitIndex s2.byteIndex
      some { s2 with inc := t.1, row := t.2 }
    else rowLoop col fuel s2

/-- `for col in …:` -/
def colLoop (fuel : Nat) : List Int → MapSt → Option MapSt
  | [], s => some s
  | col :: cols, s =>
    match rowLoop n maskf data (map_col_pre n col) fuel s with
    | none => none
    | some s' => colLoop fuel cols s'

/-- `map_data(data, mask_pattern)` as assembled from the translated fragments; `fuel` bounds every `while True` -/
def srcMapData (fuel : Nat) (m : Mat) : Option Mat :=
  let i := map_init n
  let r := map_col_range n
  (colLoop n maskf data fuel (pyRange3 r.1 r.2.1 r.2.2) ⟨m, i.1, i.2.1, i.2.2.1, i.2.2.2⟩).map (·.m)

end interp

/-! ### the translated pieces in closed form -/

theorem map_init_eq (n : Int) : map_init n = (-1, n - 1, 7, 0) := rfl

theorem map_col_pre_eq (n col : Int) : map_col_pre n col = if col ≤ 6 then col - 1 else col := by
  unfold map_col_pre
  by_cases h : col ≤ 6 <;> simp [h]

theorem map_c_values_eq (n col : Int) : map_c_values n col = [col, col - 1] := rfl

theorem testBit_src (x j : Nat) : decide ((x >>> j) &&& 1 = 1) = x.testBit j := by
  unfold Nat.testBit
  rw [Nat.and_comm (x >>> j) 1, Nat.one_and_eq_mod_two]
  rcases Nat.mod_two_eq_zero_or_one (x >>> j) with h | h <;> simp [h]

theorem map_dark_eq (maskf : Int → Int → Bool) (dataAt : Int → Nat) (n dataLen col c inc row : Int) (j q : Nat) :
    map_dark maskf dataAt n dataLen col c inc row j q =
      xor (decide ((q : Int) < dataLen) && (dataAt q).testBit j) (maskf row c) := by
  unfold map_dark
  simp only [Int.toNat_natCast, testBit_src]
  by_cases h1 : (q : Int) < dataLen <;> by_cases h2 : maskf row c = true <;> simp [h1, h2]

theorem map_bits_step_zero (n dataLen col c inc row : Int) (q : Nat) :
    map_bits_step n dataLen col c inc row (0 : Nat) q = (7, (q : Int) + 1) := by
  simp [map_bits_step]

theorem map_bits_step_succ (n dataLen col c inc row : Int) (j q : Nat) :
    map_bits_step n dataLen col c inc row ((j + 1 : Nat) : Int) q = ((j : Int), (q : Int)) := by
  have h : ¬ ((j : Int) + 1 - 1 = -1) := by omega
  simp [map_bits_step]

theorem map_row_step_eq (n dataLen col inc row bi by_ : Int) : map_row_step n dataLen col inc row bi by_ = (inc, row + inc) := rfl

theorem map_row_exit_eq (n dataLen col inc row bi by_ : Int) :
    map_row_exit n dataLen col inc row bi by_ = (decide (row < 0) || decide (n ≤ row)) := rfl

theorem map_row_turn_eq (n dataLen col inc row bi by_ : Int) : map_row_turn n dataLen col inc row bi by_ = (-inc, row - inc) := rfl

/-! ### the bit stream -/

/-- the bits `map_data` has not consumed yet when it is about to read bit `j` of `data[q]` -/
def remBits (data : List Nat) (q j : Nat) : List Bool :=
  if q < data.length then bitsBE (data.getD q 0) (j + 1) ++ codewordBits (data.drop (q + 1)) else []

theorem codewordBits_cons (b : Nat) (bs : List Nat) : codewordBits (b :: bs) = bitsBE b 8 ++ codewordBits bs := by
  simp [codewordBits]

theorem drop_getD (data : List Nat) (q : Nat) (h : q < data.length) : data.drop q = data.getD q 0 :: data.drop (q + 1) := by
  rw [List.drop_eq_getElem_cons h]
  simp [h]

theorem remBits_start (data : List Nat) : remBits data 0 7 = codewordBits data := by
  cases data with
  | nil => rfl
  | cons b bs => simp [remBits, codewordBits_cons]

theorem remBits_ge (data : List Nat) (q j : Nat) (h : data.length ≤ q) : remBits data q j = [] := by
  unfold remBits
  rw [if_neg (by omega)]

theorem remBits_zero (data : List Nat) (q : Nat) (h : q < data.length) :
    remBits data q 0 = (data.getD q 0).testBit 0 :: remBits data (q + 1) 7 := by
  unfold remBits
  rw [if_pos h]
  by_cases h2 : q + 1 < data.length
  · rw [if_pos h2, drop_getD data (q + 1) h2, codewordBits_cons]
    simp [bitsBE]
  · rw [if_neg h2, List.drop_eq_nil_of_le (by omega)]
    simp [bitsBE, codewordBits]

theorem remBits_succ (data : List Nat) (q j : Nat) (h : q < data.length) :
    remBits data q (j + 1) = (data.getD q 0).testBit (j + 1) :: remBits data q j := by
  unfold remBits
  rw [if_pos h]
  simp [bitsBE, h]

/-! ### simulation -/

/-- the Model's state (matrix, unconsumed bits) of a source state -/
def absSt (data : List Nat) (s : MapSt) : Mat × List Bool := (s.m, remBits data s.byteIndex.toNat s.bitIndex.toNat)

/-- `0 <= bitIndex <= 7` and `0 <= byteIndex`: holds whenever the cell body is entered -/
def Good (s : MapSt) : Prop := 0 ≤ s.bitIndex ∧ s.bitIndex ≤ 7 ∧ 0 ≤ s.byteIndex

theorem pyIdx_nat (n k : Nat) : pyIdx n (k : Int) = k := by
  unfold pyIdx
  rw [if_neg (by omega)]
  simp

theorem mapCell_sim (n : Nat) (data : List Nat) (mask : Nat) (col : Int) (r c : Nat) (s : MapSt) (hr : s.row = r) (hg : Good s) :
    absSt data (mapCell n (maskFunc mask) data col c s) = placeCell mask (absSt data s) (r, c) ∧
    Good (mapCell n (maskFunc mask) data col c s) ∧
    (mapCell n (maskFunc mask) data col c s).row = s.row ∧ (mapCell n (maskFunc mask) data col c s).inc = s.inc := by
  obtain ⟨m, inc, row, bi, by_⟩ := s
  simp only at hr
  subst hr
  obtain ⟨h1, h2, h3⟩ := hg
  simp only at h1 h2 h3
  obtain ⟨j, rfl⟩ := Int.eq_ofNat_of_zero_le h1
  obtain ⟨q, rfl⟩ := Int.eq_ofNat_of_zero_le h3
  unfold mapCell
  simp only [map_cell_test, map_cell_write, pyIdx_nat]
  cases hm : m.get r c with
  | some b =>
    simp only [reduceCtorEq, if_false, absSt, placeCell, hm, Good]
    exact ⟨trivial, ⟨h1, h2, h3⟩, trivial, trivial⟩
  | none =>
    simp only [if_true, absSt, placeCell, hm, Good, Int.toNat_natCast, map_dark_eq, pyIdx_nat]
    by_cases hq : q < data.length
    · have hq' : ((q : Int) < (data.length : Int)) := by omega
      cases j with
      | zero =>
        rw [remBits_zero data q hq]
        simp only [map_bits_step_zero, List.headD_cons, List.tail_cons, hq', decide_true, Bool.true_and]
        refine ⟨?_, ⟨by omega, by omega, by omega⟩, trivial, trivial⟩
        have e1 : ((7 : Int)).toNat = 7 := rfl
        have e2 : ((q : Int) + 1).toNat = q + 1 := by omega
        rw [e1, e2]
      | succ j =>
        rw [remBits_succ data q j hq]
        simp only [map_bits_step_succ, List.headD_cons, List.tail_cons, hq', decide_true, Bool.true_and, Int.toNat_natCast]
        exact ⟨trivial, ⟨by omega, by omega, by omega⟩, trivial, trivial⟩
    · have hq' : ¬ ((q : Int) < (data.length : Int)) := by omega
      rw [remBits_ge data q j (by omega)]
      simp only [List.headD_nil, List.tail_nil, hq', decide_false, Bool.false_and]
      cases j with
      | zero =>
        simp only [map_bits_step_zero]
        refine ⟨?_, ⟨by omega, by omega, by omega⟩, trivial, trivial⟩
        have e2 : ((q : Int) + 1).toNat = q + 1 := by omega
        rw [e2, remBits_ge data (q + 1) _ (by omega)]
      | succ j =>
        simp only [map_bits_step_succ, Int.toNat_natCast]
        refine ⟨?_, ⟨by omega, by omega, by omega⟩, trivial, trivial⟩
        rw [remBits_ge data q j (by omega)]

/-- the two cells of one row of a column pair, in the Model's order -/
def rowCells (c0 : Nat) (r : Nat) : List (Nat × Nat) := [(r, c0), (r, c0 - 1)]

theorem rowBody_sim (n : Nat) (data : List Nat) (mask : Nat) (c0 : Nat) (hc : 1 ≤ c0) (r : Nat) (s : MapSt)
    (hr : s.row = r) (hg : Good s) :
    absSt data (rowBody n (maskFunc mask) data c0 s) = (rowCells c0 r).foldl (placeCell mask) (absSt data s) ∧
    Good (rowBody n (maskFunc mask) data c0 s) ∧
    (rowBody n (maskFunc mask) data c0 s).row = r ∧ (rowBody n (maskFunc mask) data c0 s).inc = s.inc := by
  have e : ((c0 : Int) - 1) = ((c0 - 1 : Nat) : Int) := by omega
  have hs1 : rowBody n (maskFunc mask) data c0 s =
      mapCell n (maskFunc mask) data c0 ((c0 - 1 : Nat) : Int) (mapCell n (maskFunc mask) data c0 (c0 : Int) s) := by
    simp only [rowBody, map_c_values_eq, List.foldl_cons, List.foldl_nil, e]
  obtain ⟨a1, a2, a3, a4⟩ := mapCell_sim n data mask c0 r c0 s hr hg
  obtain ⟨b1, b2, b3, b4⟩ := mapCell_sim n data mask c0 r (c0 - 1) _ (a3.trans hr) a2
  rw [hs1]
  refine ⟨?_, b2, by rw [b3, a3, hr], by rw [b4, a4]⟩
  rw [b1, a1]
  rfl

theorem rowLoop_succ (n : Nat) (maskf : Nat → Nat → Bool) (data : List Nat) (col : Int) (fuel : Nat) (s : MapSt) :
    rowLoop n maskf data col (fuel + 1) s =
      if (decide ((rowBody n maskf data col s).row + (rowBody n maskf data col s).inc < 0) ||
          decide ((n : Int) ≤ (rowBody n maskf data col s).row + (rowBody n maskf data col s).inc)) = true then
        some ⟨(rowBody n maskf data col s).m, -(rowBody n maskf data col s).inc,
            (rowBody n maskf data col s).row + (rowBody n maskf data col s).inc - (rowBody n maskf data col s).inc,
            (rowBody n maskf data col s).bitIndex, (rowBody n maskf data col s).byteIndex⟩
      else rowLoop n maskf data col fuel ⟨(rowBody n maskf data col s).m, (rowBody n maskf data col s).inc,
            (rowBody n maskf data col s).row + (rowBody n maskf data col s).inc,
            (rowBody n maskf data col s).bitIndex, (rowBody n maskf data col s).byteIndex⟩ := rfl

theorem rowLoop_exit (n : Nat) (maskf : Nat → Nat → Bool) (data : List Nat) (col : Int) (fuel : Nat) (s : MapSt)
    (h : (rowBody n maskf data col s).row + (rowBody n maskf data col s).inc < 0 ∨
         (n : Int) ≤ (rowBody n maskf data col s).row + (rowBody n maskf data col s).inc) :
    rowLoop n maskf data col (fuel + 1) s =
      some ⟨(rowBody n maskf data col s).m, -(rowBody n maskf data col s).inc,
            (rowBody n maskf data col s).row + (rowBody n maskf data col s).inc - (rowBody n maskf data col s).inc,
            (rowBody n maskf data col s).bitIndex, (rowBody n maskf data col s).byteIndex⟩ := by
  rw [rowLoop_succ, if_pos (by simpa using h)]

theorem rowLoop_cont (n : Nat) (maskf : Nat → Nat → Bool) (data : List Nat) (col : Int) (fuel : Nat) (s : MapSt)
    (h1 : 0 ≤ (rowBody n maskf data col s).row + (rowBody n maskf data col s).inc)
    (h2 : (rowBody n maskf data col s).row + (rowBody n maskf data col s).inc < (n : Int)) :
    rowLoop n maskf data col (fuel + 1) s =
      rowLoop n maskf data col fuel ⟨(rowBody n maskf data col s).m, (rowBody n maskf data col s).inc,
            (rowBody n maskf data col s).row + (rowBody n maskf data col s).inc,
            (rowBody n maskf data col s).bitIndex, (rowBody n maskf data col s).byteIndex⟩ := by
  rw [rowLoop_succ, if_neg]
  simp only [Bool.or_eq_true, decide_eq_true_eq]
  omega

/-- walking a column pair upwards: from row `k` (`inc = -1`) the loop visits rows `k, k-1, …, 0`, then turns -/
theorem rowLoop_up (n : Nat) (data : List Nat) (mask : Nat) (c0 : Nat) (hc : 1 ≤ c0) :
    ∀ (k fuel : Nat) (s : MapSt), k < n → k + 1 ≤ fuel → s.row = k → s.inc = -1 → Good s →
    ∃ s', rowLoop n (maskFunc mask) data c0 fuel s = some s' ∧
      absSt data s' = ((List.range (k + 1)).reverse.flatMap (rowCells c0)).foldl (placeCell mask) (absSt data s) ∧
      Good s' ∧ s'.row = 0 ∧ s'.inc = 1 := by
  intro k
  induction k with
  | zero =>
    intro fuel s hk hf hr hi hg
    obtain ⟨fuel, rfl⟩ : ∃ f, fuel = f + 1 := ⟨fuel - 1, by omega⟩
    obtain ⟨a1, a2, a3, a4⟩ := rowBody_sim n data mask c0 hc 0 s hr hg
    rw [hi] at a4
    have hx := rowLoop_exit n (maskFunc mask) data c0 fuel s (by rw [a3, a4]; left; decide)
    generalize rowBody n (maskFunc mask) data c0 s = t at *
    obtain ⟨m1, inc1, row1, bi1, by1⟩ := t
    simp only at a3 a4
    subst a3 a4
    simp only at hx
    refine ⟨_, hx, ?_, a2, by simp, by simp⟩
    change absSt data ⟨m1, -1, ((0 : Nat) : Int), bi1, by1⟩ = _
    rw [a1]
    simp [List.range_succ]
  | succ k ih =>
    intro fuel s hk hf hr hi hg
    obtain ⟨fuel, rfl⟩ : ∃ f, fuel = f + 1 := ⟨fuel - 1, by omega⟩
    obtain ⟨a1, a2, a3, a4⟩ := rowBody_sim n data mask c0 hc (k + 1) s hr hg
    rw [hi] at a4
    have hx := rowLoop_cont n (maskFunc mask) data c0 fuel s (by rw [a3, a4]; omega) (by rw [a3, a4]; omega)
    generalize rowBody n (maskFunc mask) data c0 s = t at *
    obtain ⟨m1, inc1, row1, bi1, by1⟩ := t
    simp only at a3 a4
    subst a3 a4
    simp only at hx
    rw [hx]
    obtain ⟨s', b1, b2, b3, b4, b5⟩ := ih fuel ⟨m1, -1, ((k + 1 : Nat) : Int) + -1, bi1, by1⟩
      (by omega) (by omega) (by simp only; omega) rfl a2
    refine ⟨s', b1, ?_, b3, b4, b5⟩
    rw [b2]
    have e : absSt data ⟨m1, -1, ((k + 1 : Nat) : Int) + -1, bi1, by1⟩ = absSt data ⟨m1, -1, ((k + 1 : Nat) : Int), bi1, by1⟩ := rfl
    rw [e, a1, List.range_succ (n := k + 1), List.reverse_append, List.reverse_singleton, List.singleton_append, List.flatMap_cons,
      List.foldl_append]

/-- walking a column pair downwards: from row `j` (`inc = 1`) the loop visits rows `j, j+1, …, n-1`, then turns -/
theorem rowLoop_down (n : Nat) (data : List Nat) (mask : Nat) (c0 : Nat) (hc : 1 ≤ c0) :
    ∀ (d j fuel : Nat) (s : MapSt), j + d + 1 = n → d + 1 ≤ fuel → s.row = j → s.inc = 1 → Good s →
    ∃ s', rowLoop n (maskFunc mask) data c0 fuel s = some s' ∧
      absSt data s' = ((List.range' j (d + 1)).flatMap (rowCells c0)).foldl (placeCell mask) (absSt data s) ∧
      Good s' ∧ s'.row = (n : Int) - 1 ∧ s'.inc = -1 := by
  intro d
  induction d with
  | zero =>
    intro j fuel s hk hf hr hi hg
    obtain ⟨fuel, rfl⟩ : ∃ f, fuel = f + 1 := ⟨fuel - 1, by omega⟩
    obtain ⟨a1, a2, a3, a4⟩ := rowBody_sim n data mask c0 hc j s hr hg
    rw [hi] at a4
    have hx := rowLoop_exit n (maskFunc mask) data c0 fuel s (by rw [a3, a4]; right; omega)
    generalize rowBody n (maskFunc mask) data c0 s = t at *
    obtain ⟨m1, inc1, row1, bi1, by1⟩ := t
    simp only at a3 a4
    subst a3 a4
    simp only at hx
    refine ⟨_, hx, ?_, a2, by simp only; omega, by simp⟩
    change absSt data ⟨m1, 1, (j : Int), bi1, by1⟩ = _
    rw [a1]
    simp [List.range']
  | succ d ih =>
    intro j fuel s hk hf hr hi hg
    obtain ⟨fuel, rfl⟩ : ∃ f, fuel = f + 1 := ⟨fuel - 1, by omega⟩
    obtain ⟨a1, a2, a3, a4⟩ := rowBody_sim n data mask c0 hc j s hr hg
    rw [hi] at a4
    have hx := rowLoop_cont n (maskFunc mask) data c0 fuel s (by rw [a3, a4]; omega) (by rw [a3, a4]; omega)
    generalize rowBody n (maskFunc mask) data c0 s = t at *
    obtain ⟨m1, inc1, row1, bi1, by1⟩ := t
    simp only at a3 a4
    subst a3 a4
    simp only at hx
    rw [hx]
    obtain ⟨s', b1, b2, b3, b4, b5⟩ := ih (j + 1) fuel ⟨m1, 1, (j : Int) + 1, bi1, by1⟩
      (by omega) (by omega) (by simp only; omega) rfl a2
    refine ⟨s', b1, ?_, b3, b4, b5⟩
    rw [b2]
    have e : absSt data ⟨m1, 1, (j : Int) + 1, bi1, by1⟩ = absSt data ⟨m1, 1, (j : Int), bi1, by1⟩ := rfl
    rw [e, a1]
    conv => rhs; rw [List.range'_succ, List.flatMap_cons, List.foldl_append]

/-! ### the column loop -/

theorem trav_eq (n : Nat) :
    trav n = (List.range (n / 2)).flatMap fun k =>
      (if k % 2 = 0 then (List.range n).reverse else List.range n).flatMap (rowCells (pairCol n k)) := rfl

/-- the `k`-th value of `range(n - 1, 0, -2)` after the prelude `if col <= 6: col -= 1` is the Model's `pairCol n k` -/
theorem map_col_pre_pairCol (n k : Nat) (hodd : n % 2 = 1) (hk : k < n / 2) :
    map_col_pre n ((n : Int) - 1 + -2 * (k : Int)) = ((pairCol n k : Nat) : Int) ∧ 1 ≤ pairCol n k := by
  have e : pairCol n k = if n - 1 - 2 * k ≤ 6 then n - 1 - 2 * k - 1 else n - 1 - 2 * k := rfl
  rw [map_col_pre_eq, e]
  constructor
  · split <;> split <;> omega
  · split <;> omega

theorem pyRange3_cols (n : Nat) :
    pyRange3 ((n : Int) - 1) 0 (-2) = (List.range (n / 2)).map fun (k : Nat) => (n : Int) - 1 + -2 * (k : Int) := by
  unfold pyRange3
  rw [if_neg (by decide), if_pos (by decide)]
  have : (((n : Int) - 1 - 0 + -(-2) - 1) / -(-2)).toNat = n / 2 := by
    rw [Int.neg_neg]
    omega
  rw [this]

theorem colLoop_cons (n : Nat) (maskf : Nat → Nat → Bool) (data : List Nat) (fuel : Nat) (col : Int) (cols : List Int)
    (s s1 : MapSt) (h : rowLoop n maskf data (map_col_pre n col) fuel s = some s1) :
    colLoop n maskf data fuel (col :: cols) s = colLoop n maskf data fuel cols s1 := by
  simp only [colLoop, h]

theorem colLoop_sim (n : Nat) (data : List Nat) (mask fuel : Nat) (hodd : n % 2 = 1) (hf : n ≤ fuel) :
    ∀ (cnt k0 : Nat) (s : MapSt), k0 + cnt = n / 2 → Good s →
      (k0 % 2 = 0 → s.row = (n : Int) - 1 ∧ s.inc = -1) → (k0 % 2 = 1 → s.row = 0 ∧ s.inc = 1) →
      ∃ s', colLoop n (maskFunc mask) data fuel ((List.range' k0 cnt).map fun (k : Nat) => (n : Int) - 1 + -2 * (k : Int)) s = some s' ∧
        absSt data s' = ((List.range' k0 cnt).flatMap fun k =>
          (if k % 2 = 0 then (List.range n).reverse else List.range n).flatMap (rowCells (pairCol n k))).foldl
            (placeCell mask) (absSt data s) := by
  intro cnt
  induction cnt with
  | zero =>
    intro k0 s _ _ _ _
    exact ⟨s, rfl, rfl⟩
  | succ cnt ih =>
    intro k0 s hk hg he ho
    obtain ⟨hc1, hc2⟩ := map_col_pre_pairCol n k0 hodd (by omega)
    rw [List.range'_succ, List.map_cons, List.flatMap_cons, List.foldl_append]
    have hn : n - 1 + 1 = n := by omega
    by_cases hpar : k0 % 2 = 0
    · obtain ⟨hr, hi⟩ := he hpar
      obtain ⟨s1, a1, a2, a3, a4, a5⟩ := rowLoop_up n data mask (pairCol n k0) hc2 (n - 1) fuel s (by omega) (by omega)
        (by rw [hr]; omega) hi hg
      rw [← hc1] at a1
      rw [colLoop_cons _ _ _ _ _ _ _ _ a1]
      obtain ⟨s', b1, b2⟩ := ih (k0 + 1) s1 (by omega) a3 (fun h => by omega) (fun _ => ⟨a4, a5⟩)
      refine ⟨s', b1, ?_⟩
      rw [b2, a2, if_pos hpar, hn]
    · obtain ⟨hr, hi⟩ := ho (by omega)
      obtain ⟨s1, a1, a2, a3, a4, a5⟩ := rowLoop_down n data mask (pairCol n k0) hc2 (n - 1) 0 fuel s (by omega) (by omega)
        (by rw [hr]; rfl) hi hg
      rw [← hc1] at a1
      rw [colLoop_cons _ _ _ _ _ _ _ _ a1]
      obtain ⟨s', b1, b2⟩ := ih (k0 + 1) s1 (by omega) a3 (fun _ => ⟨a4, a5⟩) (fun h => by omega)
      refine ⟨s', b1, ?_⟩
      rw [b2, a2, if_neg hpar, hn, List.range_eq_range']

/-- **map_data**: for every odd module count `n` (Python: `modules_count = 4 * version + 17`), every matrix, codeword list and
    mask pattern, and every fuel `≥ n` for the `while True` loops: the loop skeleton instantiated with the translated
    fragments terminates (every `while True` reaches its `break`) and leaves exactly the matrix `Model.mapData` computes. -/
theorem mapData_src (n : Nat) (hodd : n % 2 = 1) (m : Mat) (data : List Nat) (mask fuel : Nat) (hf : n ≤ fuel) :
    srcMapData n (maskFunc mask) data fuel m = some (mapData n m data mask) := by
  unfold srcMapData
  simp only [map_init_eq, map_col_range]
  rw [pyRange3_cols, List.range_eq_range']
  obtain ⟨s', b1, b2⟩ := colLoop_sim n data mask fuel hodd hf (n / 2) 0 ⟨m, -1, (n : Int) - 1, 7, 0⟩ (by omega)
    ⟨by simp only; omega, by simp only; omega, by simp only; omega⟩ (fun _ => ⟨rfl, rfl⟩) (fun h => by omega)
  rw [b1]
  simp only [Option.map_some]
  have e : absSt data ⟨m, -1, (n : Int) - 1, 7, 0⟩ = (m, codewordBits data) := by
    show (m, remBits data 0 7) = _
    rw [remBits_start]
  rw [e, ← List.range_eq_range', ← trav_eq] at b2
  show some s'.m = some ((trav n).foldl (placeCell mask) (m, codewordBits data)).1
  rw [← b2]
  rfl

/-- the instance Python uses: `modules_count = version * 4 + 17` -/
theorem mapData_src_version (version : Nat) (m : Mat) (data : List Nat) (mask : Nat) :
    srcMapData (version * 4 + 17) (maskFunc mask) data (version * 4 + 17) m = some (mapData (version * 4 + 17) m data mask) :=
  mapData_src _ (by omega) m data mask _ (Nat.le_refl _)

/-- the coordinates the cell test / the write / the mask call use are the loop variables themselves (no offset) -/
theorem map_cells_src (n dataLen col c inc row bi by_ : Int) :
    map_cell_test n dataLen col c inc row bi by_ = (row, c) ∧ map_cell_write n dataLen col c inc row bi by_ = (row, c) := ⟨rfl, rfl⟩

end QR.SourceTieT
