import QR.Proofs.NFCountA
import QR.Proofs.NFCountB
import QR.Proofs.NFCountC
import QR.Proofs.NFCountSound
import QR.Proofs.Traversal
import QR.Proofs.Finite
/-
C05, the count: for every version 1..40 the number of non-function modules is `Spec.rawModules v`, and the zig-zag
traversal meets every one of them exactly once.
-/
namespace QR.GeoC
open QR

theorem nfCheck_sound {lo k : Nat} (h : nfCheck lo k = true) (v : Nat) (h1 : lo < v) (h2 : v ≤ lo + k) :
    nfCount v = Spec.rawModules v := by
  have := forall_lt_of_all h (v - lo - 1) (by omega)
  have e : lo + (v - lo - 1) + 1 = v := by omega
  simp only [e] at this
  exact (Nat.beq_eq ▸ this : nfCount v = Spec.rawModules v)

/-- the kernel-evaluated count, all versions -/
theorem nfCount_rawModules (v : Nat) (h1 : 1 ≤ v) (h40 : v ≤ 40) : nfCount v = Spec.rawModules v := by
  by_cases a : v ≤ 10
  · exact nfCheck_sound nfCheck_1_10 v (by omega) (by omega)
  by_cases b : v ≤ 18
  · exact nfCheck_sound nfCheck_11_18 v (by omega) (by omega)
  by_cases c : v ≤ 24
  · exact nfCheck_sound nfCheck_19_24 v (by omega) (by omega)
  by_cases d : v ≤ 29
  · exact nfCheck_sound nfCheck_25_29 v (by omega) (by omega)
  by_cases e : v ≤ 33
  · exact nfCheck_sound nfCheck_30_33 v (by omega) (by omega)
  by_cases f : v ≤ 37
  · exact nfCheck_sound nfCheck_34_37 v (by omega) (by omega)
  · exact nfCheck_sound nfCheck_38_40 v (by omega) (by omega)

/-- **the count**: the number of cells (r, c), r, c < size v, with `isFunction v r c = false` is `rawModules v`
    (`grid n` lists every cell of the n x n square exactly once: `mem_grid`, `grid_nodup`) -/
theorem nonFunction_count (v : Nat) (h1 : 1 ≤ v) (h40 : v ≤ 40) :
    (grid (Spec.size v)).countP (fun p => !Spec.isFunction v p.1 p.2) = Spec.rawModules v := by
  rw [← nfCount_eq v h1, nfCount_rawModules v h1 h40]

/-- column 6 (vertical timing pattern and what it crosses) consists of function modules only, in every version -/
theorem col6_isFunction (v r : Nat) : Spec.isFunction v r 6 = true := by
  unfold Spec.isFunction Spec.inTiming
  simp only []
  cases Spec.inFinderArea (Spec.size v) r 6 <;> simp

/-- the traversal is a permutation of the cells outside column 6 -/
theorem trav_perm_grid (n : Nat) (hodd : n % 2 = 1) (h7 : 7 ≤ n) :
    (Model.trav n).Perm ((grid n).filter fun p => p.2 != 6) := by
  rw [List.perm_ext_iff_of_nodup (trav_nodup n hodd) ((grid_nodup n).filter _)]
  intro ⟨r, c⟩
  rw [mem_trav_iff n hodd h7, List.mem_filter, mem_grid]
  simp only [bne_iff_ne, ne_eq, and_assoc]

/-- the zig-zag order meets exactly as many non-function cells as there are -/
theorem zigzag_countP (v : Nat) :
    (Spec.zigzag (Spec.size v)).countP (fun p => !Spec.isFunction v p.1 p.2) =
      (grid (Spec.size v)).countP (fun p => !Spec.isFunction v p.1 p.2) := by
  have hodd : Spec.size v % 2 = 1 := by unfold Spec.size; omega
  have h7 : 7 ≤ Spec.size v := by unfold Spec.size; omega
  rw [← trav_eq_zigzag_size, (trav_perm_grid _ hodd h7).countP_eq, List.countP_filter]
  apply List.countP_congr
  intro ⟨r, c⟩ _
  simp only [Bool.and_eq_true, bne_iff_ne, ne_eq, Bool.not_eq_true', and_iff_left_iff_imp]
  intro hf h6
  rw [h6, col6_isFunction] at hf
  cases hf

theorem pairLam_eq (v : Nat) :
    (fun (x : Nat × Nat) => match x with | (r, c) => !Spec.isFunction v r c) = fun p => !Spec.isFunction v p.1 p.2 := by
  funext ⟨r, c⟩; rfl

/-- **the count, along the placement order**: versions 1..40 -/
theorem zigzag_nonFunction_length (v : Nat) (h1 : 1 ≤ v) (h40 : v ≤ 40) :
    ((Spec.zigzag (Spec.size v)).filter fun (r, c) => !Spec.isFunction v r c).length = Spec.rawModules v := by
  rw [pairLam_eq, ← List.countP_eq_length_filter, zigzag_countP, nonFunction_count v h1 h40]

end QR.GeoC
