import QR.Gen.Code
import QR.Model.QRObject
/-
Translation validation for C18: the hand-written Model is PROVED equal to the expressions tools/translate.py (T2) extracts from
the Python AST of the current source on every run (lean/QR/Gen/Code.lean).  One file per property, so that a fragment that
changed (or became untranslatable) breaks the obligations of the property it belongs to and of no other.
-/
namespace QR.SourceTie
open QR QR.Model QR.Gen.Code

/-- the validators raise exactly where the model's do -/
theorem checkVersion_eq (x : Int) : checkVersion x = if check_version_bad x then .error .valueError else .ok () := by
  unfold checkVersion check_version_bad
  by_cases h1 : x < 1 <;> by_cases h2 : x > 40 <;> simp [h1, h2]

theorem checkBoxSize_eq (x : Int) : checkBoxSize x = if check_box_size_bad x then .error .valueError else .ok () := by
  unfold checkBoxSize check_box_size_bad
  by_cases h : x ≤ 0 <;> simp [h]

theorem checkBorder_eq (x : Int) : checkBorder x = if check_border_bad x then .error .valueError else .ok () := by
  unfold checkBorder check_border_bad
  by_cases h : x < 0 <;> simp [h]

theorem checkMask_eq (x : Int) :
    checkMaskPattern (some x) = if check_mask_pattern_bad x then .error .valueError else .ok () := by
  unfold checkMaskPattern check_mask_pattern_bad
  by_cases h1 : x < 0 <;> by_cases h2 : x > 7 <;> simp [h1, h2]


end QR.SourceTie
