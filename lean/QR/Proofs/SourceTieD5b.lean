import QR.Proofs.SourceTieD5

/-! # Work package D5, part 2: what the closed form (= the translated source, `paints_src`) implies for property C14

`inside_box`: no drawer paints a pixel outside the module's own pixel box (so a dark module never touches a light
neighbour or the quiet zone); `square_full`: the square drawer paints exactly the box; `rounded_tiles`: the four corner
stamps tile the `2c × 2c` square at the box origin, `c = box_size / 2`.  Plus the literal skeletons of
`initialize` / `setup_*` and the `#eval`-style evidence for the hypotheses. -/

namespace QR.SourceTieD5
open QR.Gen.Code

theorem ofInt_inside_iff (a b c d : Int) (box : dr_Box) :
    (RectQ.ofInt a b c d).inside box ↔ box.1.1 ≤ a ∧ c ≤ box.2.1 ∧ box.1.2 ≤ b ∧ d ≤ box.2.2 := by
  simp only [RectQ.inside, RectQ.ofInt, Rat.intCast_le_intCast]

theorem ofInt_covers_iff (a b c d px py : Int) :
    (RectQ.ofInt a b c d).covers px py ↔ a ≤ px ∧ px ≤ c ∧ b ≤ py ∧ py ≤ d := by
  simp only [RectQ.covers, RectQ.ofInt, Rat.intCast_le_intCast]

/-- truncation toward zero of a non-negative real: `0 ≤ int(q) ≤ q` -/
theorem truncQ_nonneg {q : Rat} (h : 0 ≤ q) : 0 ≤ truncQ q ∧ ((truncQ q : Int) : Rat) ≤ q := by
  have : truncQ q = q.floor := by simp [truncQ, h]
  rw [this]
  exact ⟨Rat.le_floor_iff.mpr (by simpa using h), Rat.floor_le q⟩

/-- the two bar stamps fit: `int((1 - s)·h) + int(2h·s) ≤ 2h` for `0 ≤ s ≤ 1`, `0 ≤ h` -/
theorem bars_fit (h : Int) (hh : 0 ≤ h) (s : Rat) (h0 : 0 ≤ s) (h1 : s ≤ 1) :
    0 ≤ truncQ ((1 - s) * (h : Rat)) ∧ truncQ ((1 - s) * (h : Rat)) + truncQ (((h * 2 : Int) : Rat) * s) ≤ h * 2 := by
  have hq : (0 : Rat) ≤ (h : Rat) := Rat.intCast_nonneg.mpr hh
  have hs : (0 : Rat) ≤ 1 - s := by grind
  have a := truncQ_nonneg (Rat.mul_nonneg hs hq)
  have h2 : (0 : Rat) ≤ ((h * 2 : Int) : Rat) := Rat.intCast_nonneg.mpr (by omega)
  have b := truncQ_nonneg (Rat.mul_nonneg h2 h0)
  refine ⟨a.1, ?_⟩
  have hm : (h : Rat) * s ≤ (h : Rat) * 1 := Rat.mul_le_mul_of_nonneg_left h1 hq
  apply Rat.intCast_le_intCast.mp
  have e : ((h * 2 : Int) : Rat) = (h : Rat) * 2 := by simp
  rw [Rat.intCast_add]
  rw [e] at b ⊢
  grind

/-- **inside the box** (closed form): for every drawer, box size `≥ 1`, ratio in `[0, 1]`, neighbourhood, every painted
    rectangle lies inside the module's pixel box `((x, y), (x + bs - 1, y + bs - 1))` -/
theorem paints_inside_box (d : Drawer) (bs : Int) (hbs : 1 ≤ bs) (ratio : Rat) (h0 : 0 ≤ ratio) (h1 : ratio ≤ 1)
    (x y : Int) (a : dr_Active) :
    ∀ p ∈ paints d bs ratio x y a, p.2.inside (moduleBox x y bs) := by
  have hc : 0 ≤ bs / 2 ∧ bs / 2 * 2 ≤ bs := by omega
  have hb := bars_fit (bs / 2) hc.1 ratio h0 h1
  intro p hp
  unfold paints at hp
  cases hme : a.me
  · simp [hme] at hp
  · cases d <;> simp only [hme, Bool.not_true, Bool.false_eq_true, if_false, List.mem_cons,
      List.not_mem_nil, or_false] at hp
    case square => subst hp; rw [ofInt_inside_iff]; simp [moduleBox]
    case circle => subst hp; rw [ofInt_inside_iff]; simp [moduleBox]
    case gapped =>
      subst hp
      have hq : (0 : Rat) ≤ (bs : Rat) := Rat.intCast_nonneg.mpr (by omega)
      have hs : (0 : Rat) ≤ 1 - ratio := by grind
      have hδ : (0 : Rat) ≤ (1 - ratio) * (bs : Rat) / 2 := by
        have := Rat.mul_nonneg hs hq
        grind
      simp only [RectQ.inside, moduleBox]
      grind
    case rounded =>
      rcases hp with hp | hp | hp | hp <;> subst hp <;> rw [ofInt_inside_iff] <;> simp only [moduleBox] <;> omega
    case vbars =>
      rcases hp with hp | hp <;> subst hp <;> rw [ofInt_inside_iff] <;> simp only [moduleBox] <;> omega
    case hbars =>
      rcases hp with hp | hp <;> subst hp <;> rw [ofInt_inside_iff] <;> simp only [moduleBox] <;> omega

/-- **inside the box** (translated source): whatever `initialize` / `setup_*` / `drawrect` of the six Pillow drawers paint
    for a module lies inside that module's pixel box - for every box size `≥ 1`, every ratio in `[0, 1]`, every position and
    every neighbourhood.  Rests on `2 · int(box_size / 2) ≤ box_size` and `int((1-s)h) + int(2hs) ≤ 2h`. -/
theorem drawer_inside_box (d : Drawer) (bs : Int) (hbs : 1 ≤ bs) (ratio : Rat) (h0 : 0 ≤ ratio) (h1 : ratio ≤ 1)
    (x y : Int) (a : dr_Active) :
    ∀ p ∈ sourcePaints d bs ratio (moduleBox x y bs) a, p.2.inside (moduleBox x y bs) := by
  rw [paints_src d bs (by omega) ratio x y a]
  exact paints_inside_box d bs hbs ratio h0 h1 x y a

/-- a light module paints nothing, whatever the drawer -/
theorem drawer_light_nothing (d : Drawer) (bs : Int) (hbs : 0 ≤ bs) (ratio : Rat) (x y : Int) (a : dr_Active) (h : a.me = false) :
    sourcePaints d bs ratio (moduleBox x y bs) a = [] := by
  rw [paints_src d bs hbs ratio x y a]; simp [paints, h]

/-- **square drawer**: a dark module is painted with one rectangle, exactly its pixel box, in the paint colour -/
theorem drawer_square_full (bs : Int) (hbs : 0 ≤ bs) (ratio : Rat) (x y : Int) (a : dr_Active) (h : a.me = true) :
    sourcePaints .square bs ratio (moduleBox x y bs) a
      = [("self.img.paint_color", RectQ.ofInt (moduleBox x y bs).1.1 (moduleBox x y bs).1.2 (moduleBox x y bs).2.1 (moduleBox x y bs).2.2)] := by
  rw [paints_src .square bs hbs ratio x y a]; simp [paints, h, moduleBox]

/-- **rounded drawer**: the four corner stamps tile the `2c × 2c` square anchored at the box origin (`c = bs / 2`, floor):
    a pixel is covered by a stamp iff it lies in that square, and then by exactly one stamp (`countP = 1`) -/
theorem drawer_rounded_tiles (bs : Int) (hbs : 0 ≤ bs) (ratio : Rat) (x y : Int) (a : dr_Active) (h : a.me = true)
    (px py : Int) :
    ((∃ p ∈ sourcePaints .rounded bs ratio (moduleBox x y bs) a, p.2.covers px py)
        ↔ (x ≤ px ∧ px < x + 2 * (bs / 2) ∧ y ≤ py ∧ py < y + 2 * (bs / 2))) ∧
    ∀ p ∈ sourcePaints .rounded bs ratio (moduleBox x y bs) a, ∀ q ∈ sourcePaints .rounded bs ratio (moduleBox x y bs) a,
        p.2.covers px py → q.2.covers px py → p.2 = q.2 := by
  rw [paints_src .rounded bs hbs ratio x y a]
  have hc : 0 ≤ bs / 2 := by omega
  simp only [paints, h, Bool.not_true, Bool.false_eq_true, if_false, List.mem_cons, List.not_mem_nil, or_false]
  constructor
  · constructor
    · rintro ⟨p, hp | hp | hp | hp, hcov⟩ <;> subst hp <;> rw [ofInt_covers_iff] at hcov <;> omega
    · intro hin
      by_cases hx : px < x + bs / 2 <;> by_cases hy : py < y + bs / 2
      · exact ⟨_, Or.inl rfl, (ofInt_covers_iff ..).mpr (by omega)⟩
      · exact ⟨_, Or.inr (Or.inr (Or.inr rfl)), (ofInt_covers_iff ..).mpr (by omega)⟩
      · exact ⟨_, Or.inr (Or.inl rfl), (ofInt_covers_iff ..).mpr (by omega)⟩
      · exact ⟨_, Or.inr (Or.inr (Or.inl rfl)), (ofInt_covers_iff ..).mpr (by omega)⟩
  · rintro p (hp | hp | hp | hp) q (hq | hq | hq | hq) hcp hcq <;> subst hp <;> subst hq <;>
      first
      | rfl
      | (exfalso; rw [ofInt_covers_iff] at hcp hcq; omega)

/-- for an odd box size the rounded drawer leaves the last pixel column and row of a dark module unpainted (existing
    behaviour: the background shows through a one-pixel seam); for an even box size it covers the whole box -/
theorem drawer_rounded_seam (bs : Int) (hbs : 1 ≤ bs) (ratio : Rat) (x y : Int) (a : dr_Active) (h : a.me = true) (px py : Int)
    (hx : x ≤ px ∧ px ≤ x + bs - 1) (hy : y ≤ py ∧ py ≤ y + bs - 1) :
    (∃ p ∈ sourcePaints .rounded bs ratio (moduleBox x y bs) a, p.2.covers px py)
      ↔ (bs % 2 = 0 ∨ (px ≠ x + bs - 1 ∧ py ≠ y + bs - 1)) := by
  rw [(drawer_rounded_tiles bs (by omega) ratio x y a h px py).1]
  omega

/-- **gapped drawer**: the shrunken rectangle is a proper rectangle (`x0 ≤ x1`) iff `ratio · box_size ≥ 1`; below that
    Pillow is handed an inverted box -/
theorem drawer_gapped_proper (bs : Int) (hbs : 0 ≤ bs) (ratio : Rat) (x y : Int) (a : dr_Active) (h : a.me = true) :
    ∀ p ∈ sourcePaints .gapped bs ratio (moduleBox x y bs) a, (p.2.x0 ≤ p.2.x1 ↔ 1 ≤ ratio * (bs : Rat)) := by
  rw [paints_src .gapped bs hbs ratio x y a]
  simp only [paints, h, Bool.not_true, Bool.false_eq_true, if_false, List.mem_singleton]
  intro p hp; subst hp
  simp only [Rat.intCast_sub, Rat.intCast_add]
  constructor <;> intro hh <;> grind

/-! ## The skeletons of `initialize` / `setup_*` (what is not geometry of `drawrect`) -/

/-- the antialiasing geometry: every stamp is drawn `ANTIALIASING_FACTOR = 4` times larger and resized down to the size
    that `drawrect` pastes; sizes and ellipse / rectangle coordinates as closed forms -/
theorem setup_geometry_src (bs c : Int) (r : Rat) :
    dr_ANTIALIASING_FACTOR = 4 ∧
    dr_circle_initialize_stamps bs
      = [("self.circle", (bs * 4, bs * 4), "Image.new(self.img.mode, self.img.color_mask.back_color)"),
         ("self.circle", (bs, bs), "self.circle.resize(Image.Resampling.LANCZOS)")] ∧
    dr_circle_initialize_draws bs = [("self.circle.ellipse", [0, 0, ((bs * 4 : Int) : Rat), ((bs * 4 : Int) : Rat)], "self.img.paint_color")] ∧
    dr_rounded_setup_corners_stamps c r
      = [("self.SQUARE", (c, c), "Image.new(mode, front_color)"), ("base", (c * 4, c * 4), "Image.new(mode, back_color)"),
         ("self.NW_ROUND", (c, c), "base.resize(Image.Resampling.LANCZOS)"),
         ("self.SW_ROUND", (c, c), "self.NW_ROUND.transpose(Image.Transpose.FLIP_TOP_BOTTOM)"),
         ("self.SE_ROUND", (c, c), "self.NW_ROUND.transpose(Image.Transpose.ROTATE_180)"),
         ("self.NE_ROUND", (c, c), "self.NW_ROUND.transpose(Image.Transpose.FLIP_LEFT_RIGHT)")] ∧
    dr_rounded_setup_corners_draws c r
      = [("base.ellipse", [0, 0, r * ((c * 4 : Int) : Rat) * 2, r * ((c * 4 : Int) : Rat) * 2], "front_color"),
         ("base.rectangle", [r * ((c * 4 : Int) : Rat), 0, ((c * 4 : Int) : Rat), ((c * 4 : Int) : Rat)], "front_color"),
         ("base.rectangle", [0, r * ((c * 4 : Int) : Rat), ((c * 4 : Int) : Rat), ((c * 4 : Int) : Rat)], "front_color")] ∧
    dr_vbars_setup_edges_stamps c r
      = [("self.SQUARE", (truncQ (((c * 2 : Int) : Rat) * r), c), "Image.new(mode, front_color)"),
         ("base", (c * 2 * 4, c * 4), "Image.new(mode, back_color)"),
         ("self.ROUND_TOP", (truncQ (((c * 2 : Int) : Rat) * r), c), "base.resize(Image.Resampling.LANCZOS)"),
         ("self.ROUND_BOTTOM", (truncQ (((c * 2 : Int) : Rat) * r), c), "self.ROUND_TOP.transpose(Image.Transpose.FLIP_TOP_BOTTOM)")] ∧
    dr_vbars_setup_edges_draws c r
      = [("base.ellipse", [0, 0, ((c * 2 * 4 : Int) : Rat), ((c * 4 * 2 : Int) : Rat)], "front_color")] ∧
    dr_hbars_setup_edges_stamps c r
      = [("self.SQUARE", (c, truncQ (((c * 2 : Int) : Rat) * r)), "Image.new(mode, front_color)"),
         ("base", (c * 4, c * 2 * 4), "Image.new(mode, back_color)"),
         ("self.ROUND_LEFT", (c, truncQ (((c * 2 : Int) : Rat) * r)), "base.resize(Image.Resampling.LANCZOS)"),
         ("self.ROUND_RIGHT", (c, truncQ (((c * 2 : Int) : Rat) * r)), "self.ROUND_LEFT.transpose(Image.Transpose.FLIP_LEFT_RIGHT)")] ∧
    dr_hbars_setup_edges_draws c r
      = [("base.ellipse", [0, 0, ((c * 4 * 2 : Int) : Rat), ((c * 2 * 4 : Int) : Rat)], "front_color")] := by
  refine ⟨rfl, ?_, ?_, ?_, ?_, ?_, ?_, ?_, ?_⟩ <;>
    simp [dr_circle_initialize_stamps, dr_circle_initialize_draws, dr_rounded_setup_corners_stamps,
      dr_rounded_setup_corners_draws, dr_vbars_setup_edges_stamps, dr_vbars_setup_edges_draws,
      dr_hbars_setup_edges_stamps, dr_hbars_setup_edges_draws, dr_ANTIALIASING_FACTOR, dr_pyInt_eq]

/-- the constructors: the stored ratio is the argument, the defaults are 0.8 / 1 / 0.8 / 0.8 (exact values of the float
    literals; `0.8` is `3602879701896397 / 2^52`, which lies in `(0, 1]`) -/
theorem ctor_src (r : Rat) :
    dr_gapped_init (some r) = r ∧ dr_rounded_init (some r) = r ∧ dr_vbars_init (some r) = r ∧ dr_hbars_init (some r) = r ∧
    dr_gapped_init none = (3602879701896397 : Rat) / 4503599627370496 ∧ dr_rounded_init none = 1 ∧
    dr_vbars_init none = dr_gapped_init none ∧ dr_hbars_init none = dr_gapped_init none ∧
    (0 < dr_gapped_init none ∧ dr_gapped_init none ≤ 1) ∧
    [dr_gapped_init_attr, dr_rounded_init_attr, dr_vbars_init_attr, dr_hbars_init_attr]
      = ["self.size_ratio", "self.radius_ratio", "self.horizontal_shrink", "self.vertical_shrink"] := by
  refine ⟨rfl, rfl, rfl, rfl, rfl, ?_, rfl, rfl, ?_, rfl⟩
  · simp only [dr_rounded_init]; decide +kernel
  · simp only [dr_gapped_init]; constructor <;> decide +kernel

/-- statement order of `initialize` / `setup_*`, `needs_neighbors`, and the `ActiveWithNeighbors` tuple: `super().initialize`
    runs first, the geometry attributes are set before `setup_*` is called, the neighbour-reading drawers ask for neighbours -/
theorem skeleton_literals :
    dr_Active_fields = ["NW", "N", "NE", "W", "me", "E", "SW", "S", "SE"] ∧
    dr_base_needs_neighbors = false ∧ dr_base_initialize = ["self.img = img"] ∧
    [dr_square_needs_neighbors, dr_gapped_needs_neighbors, dr_circle_needs_neighbors, dr_rounded_needs_neighbors,
      dr_vbars_needs_neighbors, dr_hbars_needs_neighbors] = [none, none, none, some true, some true, some true] ∧
    dr_square_initialize_order = ["call:super().initialize(*args, **kwargs)", "handle:self.imgDraw"] ∧
    dr_gapped_initialize_order = ["call:super().initialize(*args, **kwargs)", "handle:self.imgDraw", "real:self.delta"] ∧
    dr_circle_initialize_order = ["call:super().initialize(*args, **kwargs)", "int:box_size", "int:fake_size", "image:self.circle",
      "draw:self.circle.ellipse", "image:self.circle"] ∧
    dr_rounded_initialize_order = ["call:super().initialize(*args, **kwargs)", "int:self.corner_width", "call:self.setup_corners()"] ∧
    dr_vbars_initialize_order = ["call:super().initialize(*args, **kwargs)", "int:self.half_height", "int:self.delta", "call:self.setup_edges()"] ∧
    dr_hbars_initialize_order = ["call:super().initialize(*args, **kwargs)", "int:self.half_width", "int:self.delta", "call:self.setup_edges()"] ∧
    dr_rounded_setup_corners_order = ["alias:mode", "alias:back_color", "alias:front_color", "image:self.SQUARE", "int:fake_width",
      "real:radius", "real:diameter", "image:base", "handle:base_draw", "draw:base.ellipse", "draw:base.rectangle",
      "draw:base.rectangle", "image:self.NW_ROUND", "image:self.SW_ROUND", "image:self.SE_ROUND", "image:self.NE_ROUND"] ∧
    dr_vbars_setup_edges_order = ["alias:mode", "alias:back_color", "alias:front_color", "int:height", "int:width", "int:shrunken_width",
      "image:self.SQUARE", "int:fake_width", "int:fake_height", "image:base", "handle:base_draw", "draw:base.ellipse",
      "image:self.ROUND_TOP", "image:self.ROUND_BOTTOM"] ∧
    dr_hbars_setup_edges_order = ["alias:mode", "alias:back_color", "alias:front_color", "int:width", "int:height", "int:shrunken_height",
      "image:self.SQUARE", "int:fake_width", "int:fake_height", "image:base", "handle:base_draw", "draw:base.ellipse",
      "image:self.ROUND_LEFT", "image:self.ROUND_RIGHT"] ∧
    dr_rounded_setup_corners_other = ["mode = self.img.mode", "back_color = self.img.color_mask.back_color",
      "front_color = self.img.paint_color", "base_draw = ImageDraw.Draw(base)"] ∧
    dr_vbars_setup_edges_other = dr_rounded_setup_corners_other ∧ dr_hbars_setup_edges_other = dr_rounded_setup_corners_other ∧
    dr_square_initialize_other = ["super().initialize(*args, **kwargs)", "self.imgDraw = ImageDraw.Draw(self.img._img)"] ∧
    dr_gapped_initialize_other = dr_square_initialize_other ∧
    dr_pil_classes = ["StyledPilQRModuleDrawer", "SquareModuleDrawer", "GappedSquareModuleDrawer", "CircleModuleDrawer",
      "RoundedModuleDrawer", "VerticalBarsDrawer", "HorizontalBarsDrawer"] := by
  decide

/-- `StyledPilImage.init_new_image` (colour mask first, then the drawers through the base class), `process` (mask, then the
    logo iff `self.embeded_image` is truthy), `save` (format: argument, else `kwargs["kind"]`, else `self.kind = "PNG"`; the
    `kind` key is removed before Pillow's `save`) -/
theorem styled_skeleton_src (fmt kw : Option String) :
    dr_spil_init_new_image = [("self.color_mask.initialize", ["self", "self._img"]), ("super().init_new_image", [])] ∧
    dr_base_init_new_image = ["self.module_drawer.initialize(img=self)", "self.eye_drawer.initialize(img=self)",
      "return super().init_new_image()"] ∧
    dr_spil_process true = ["self.color_mask.apply_mask(self._img)", "self.draw_embeded_image()"] ∧
    dr_spil_process false = ["self.color_mask.apply_mask(self._img)"] ∧ dr_spil_process_test = "self.embeded_image" ∧
    dr_spil_save_format fmt kw dr_spil_kind = (fmt.getD (kw.getD "PNG")) ∧
    dr_spil_save_keys = ["kind", "kind", "kind"] ∧ dr_spil_save_default = "self.kind" ∧
    dr_spil_save_call = "self._img.save(stream, format=format, **kwargs)" ∧
    dr_spil_needs_processing = true ∧ dr_spil_default_drawer = "SquareModuleDrawer" := by
  refine ⟨by decide, by decide, by decide, by decide, by decide, ?_, by decide, by decide, by decide, rfl, by decide⟩
  cases fmt <;> cases kw <;> rfl

/-- colour-mask constructors and `initialize`: default colours (white background; black / blue foregrounds), every mask
    stores `back_color` before computing `has_transparency`, `initialize` copies the image's paint colour -/
theorem colormask_ctor_src :
    dr_cm_classes = ["QRColorMask", "SolidFillColorMask", "RadialGradiantColorMask", "SquareGradiantColorMask",
      "HorizontalGradiantColorMask", "VerticalGradiantColorMask", "ImageColorMask"] ∧
    dr_cm_initialize_QRColorMask = ["self.paint_color = styledPilImage.paint_color"] ∧
    dr_cm_initialize_ImageColorMask = ["self.paint_color = styledPilImage.paint_color", "self.color_img = self.color_img.resize(image.size)"] ∧
    dr_cm_init_defaults_SolidFillColorMask = [("back_color", some [255, 255, 255]), ("front_color", some [0, 0, 0])] ∧
    dr_cm_init_defaults_RadialGradiantColorMask = [("back_color", some [255, 255, 255]), ("center_color", some [0, 0, 0]), ("edge_color", some [0, 0, 255])] ∧
    dr_cm_init_defaults_SquareGradiantColorMask = [("back_color", some [255, 255, 255]), ("center_color", some [0, 0, 0]), ("edge_color", some [0, 0, 255])] ∧
    dr_cm_init_defaults_HorizontalGradiantColorMask = [("back_color", some [255, 255, 255]), ("left_color", some [0, 0, 0]), ("right_color", some [0, 0, 255])] ∧
    dr_cm_init_defaults_VerticalGradiantColorMask = [("back_color", some [255, 255, 255]), ("top_color", some [0, 0, 0]), ("bottom_color", some [0, 0, 255])] ∧
    dr_cm_init_defaults_ImageColorMask = [("back_color", some [255, 255, 255]), ("color_mask_path", none), ("color_mask_image", none)] ∧
    dr_cm_init_stores_SolidFillColorMask = [("self.back_color", "back_color"), ("self.front_color", "front_color"),
      ("self.has_transparency", "len(self.back_color) == 4")] ∧
    dr_cm_init_stores_RadialGradiantColorMask = [("self.back_color", "back_color"), ("self.center_color", "center_color"),
      ("self.edge_color", "edge_color"), ("self.has_transparency", "len(self.back_color) == 4")] ∧
    dr_cm_init_stores_SquareGradiantColorMask = dr_cm_init_stores_RadialGradiantColorMask ∧
    dr_cm_init_stores_HorizontalGradiantColorMask = [("self.back_color", "back_color"), ("self.left_color", "left_color"),
      ("self.right_color", "right_color"), ("self.has_transparency", "len(self.back_color) == 4")] ∧
    dr_cm_init_stores_VerticalGradiantColorMask = [("self.back_color", "back_color"), ("self.top_color", "top_color"),
      ("self.bottom_color", "bottom_color"), ("self.has_transparency", "len(self.back_color) == 4")] ∧
    dr_cm_init_stores_ImageColorMask = [("self.back_color", "back_color"),
      ("stmt", "if color_mask_image:\n    self.color_img = color_mask_image\nelse:\n    self.color_img = Image.open(color_mask_path)"),
      ("self.has_transparency", "len(self.back_color) == 4")] := by
  and_intros <;> decide

/-! ## Evidence for the hypotheses (findings) -/

def allDark : dr_Active := ⟨true, true, true, true, true, true, true, true, true⟩

/-- (F-D5-1) `ratio ≤ 1` cannot be dropped: with `horizontal_shrink = 3/2` the vertical-bars drawer pastes a 15-pixel-wide
    stamp 2 pixels to the LEFT of a 10-pixel module (columns -2 .. 12 of a box 0 .. 9); with `size_ratio = 2` the gapped
    drawer's rectangle is the box grown by 5 pixels on every side -/
theorem ratio_above_one_paints_outside :
    sourcePaints .vbars 10 (3 / 2) (moduleBox 0 0 10) allDark
      = [("self.SQUARE", RectQ.ofInt (-2) 0 12 4), ("self.SQUARE", RectQ.ofInt (-2) 5 12 9)] ∧
    sourcePaints .gapped 10 2 (moduleBox 0 0 10) allDark = [("self.img.paint_color", ⟨-5, -5, 14, 14⟩)] := by
  constructor <;> decide +kernel

/-- (F-D5-2) existing behaviour for odd box sizes: with `box_size = 5` the rounded drawer covers columns / rows 0 .. 3 only -/
theorem rounded_odd_example :
    (sourcePaints .rounded 5 1 (moduleBox 0 0 5) allDark).map (·.2)
      = [RectQ.ofInt 0 0 1 1, RectQ.ofInt 2 0 3 1, RectQ.ofInt 2 2 3 3, RectQ.ofInt 0 2 1 3] := by
  decide +kernel

/-- (F-D5-3) `box_size = 1`: `corner_width = half_width = 0`, the rounded and bar drawers build 0 × 0 stamps and paint
    nothing at all for a dark module (empty pixel ranges `0 .. -1`) -/
theorem box_size_one_paints_nothing :
    (sourcePaints .rounded 1 1 (moduleBox 0 0 1) allDark).map (·.2)
      = [RectQ.ofInt 0 0 (-1) (-1), RectQ.ofInt 0 0 (-1) (-1), RectQ.ofInt 0 0 (-1) (-1), RectQ.ofInt 0 0 (-1) (-1)] := by
  decide +kernel

end QR.SourceTieD5
