import QR.Proofs.NFCountDefs
/-
C05: kernel evaluation of the non-function module count, versions 25-33 (`decide +kernel`, no axioms).
-/
namespace QR.GeoC
open QR

set_option maxRecDepth 100000

theorem nfCheck_25_29 : nfCheck 24 5 = true := by decide +kernel
theorem nfCheck_30_33 : nfCheck 29 4 = true := by decide +kernel

end QR.GeoC
