import QR.Proofs.GeomDefs
/-
Generic lemmas about the matrix primitives of QR/Model/Matrix.lean (`Mat.get`, `Mat.set`, `Mat.setI`, `Mat.empty`)
and a small calculus of "painting" steps used by the geometry proofs (C04, C05, C01).
-/
namespace QR.Model
open QR

/-! ### `get` / `set` / `empty` -/

theorem Mat.get_eq (m : Mat) (r c : Nat) : m.get r c = (m[r]?.getD #[])[c]?.getD none := by
  simp only [Mat.get, Array.getD_eq_getD_getElem?]

theorem matShape_row {m : Mat} {n : Nat} (h : MatShape m n) {r : Nat} (hr : r < n) :
    ∃ row, m[r]? = some row ∧ row.size = n := by
  obtain ⟨hs, hrow⟩ := h
  have hr' : r < m.size := by omega
  refine ⟨m[r], Array.getElem?_eq_getElem hr', ?_⟩
  have := hrow r hr
  simpa [Array.getD_eq_getD_getElem?, Array.getElem?_eq_getElem hr'] using this

/-- the empty matrix is n x n -/
theorem matShape_empty (n : Nat) : MatShape (Mat.empty n) n := by
  refine ⟨by simp [Mat.empty], fun i hi => ?_⟩
  simp [Mat.empty, Array.getD_eq_getD_getElem?, hi]

/-- every cell of the empty matrix is `none` -/
theorem Mat.get_empty (n r c : Nat) : (Mat.empty n).get r c = none := by
  simp only [Mat.get_eq, Mat.empty, Array.getElem?_replicate]
  by_cases hr : r < n
  · by_cases hc : c < n <;> simp [hr, hc]
  · simp [hr]

/-- reading outside an n x n matrix gives `none` -/
theorem Mat.get_outside {m : Mat} {n : Nat} (h : MatShape m n) {r c : Nat} (ho : n ≤ r ∨ n ≤ c) :
    m.get r c = none := by
  rw [Mat.get_eq]
  by_cases hr : r < n
  · obtain ⟨row, h1, h2⟩ := matShape_row h hr
    have hc : row.size ≤ c := by omega
    simp [h1, Array.getElem?_eq_none hc]
  · have : m.size ≤ r := by have := h.1; omega
    simp [Array.getElem?_eq_none this]

/-- `set` keeps the shape (also when the coordinates are out of range: then it is the identity) -/
theorem matShape_set {m : Mat} {n : Nat} (h : MatShape m n) (r c : Nat) (x : Option Bool) :
    MatShape (m.set r c x) n := by
  refine ⟨by simp [Mat.set, h.1], fun i hi => ?_⟩
  obtain ⟨row, h1, h2⟩ := matShape_row h hi
  simp only [Mat.set, Array.getD_eq_getD_getElem?, Array.getElem?_modify, h1]
  by_cases hri : r = i <;> simp [hri, h2]

/-- the `get`/`set` law, at full strength (all coordinates) -/
theorem Mat.get_set {m : Mat} {n : Nat} (h : MatShape m n) (r c : Nat) (x : Option Bool) (r' c' : Nat) :
    (m.set r c x).get r' c' = if r' = r ∧ c' = c ∧ r < n ∧ c < n then x else m.get r' c' := by
  simp only [Mat.get_eq, Mat.set, Array.getElem?_modify]
  by_cases hrr : r = r'
  · subst hrr
    by_cases hr : r < n
    · obtain ⟨row, h1, h2⟩ := matShape_row h hr
      simp only [h1, if_true, Option.map_some, Option.getD_some, Array.getElem?_setIfInBounds, h2, hr, true_and]
      by_cases hcc : c = c'
      · subst hcc
        by_cases hc : c < n
        · simp [hc]
        · have : row.size ≤ c := by omega
          simp [hc, Array.getElem?_eq_none this]
      · have : ¬ c' = c := fun h => hcc h.symm
        simp [hcc, this]
    · have : m.size ≤ r := by have := h.1; omega
      simp [Array.getElem?_eq_none this, hr]
  · have : ¬ r' = r := fun h => hrr h.symm
    simp [hrr, this]

/-- the `get`/`set` law for reads inside the matrix -/
theorem Mat.get_set_in {m : Mat} {n : Nat} (h : MatShape m n) (r c : Nat) (x : Option Bool) {r' c' : Nat}
    (hr : r' < n) (hc : c' < n) :
    (m.set r c x).get r' c' = if r' = r ∧ c' = c then x else m.get r' c' := by
  rw [Mat.get_set h]
  by_cases h1 : r' = r ∧ c' = c
  · obtain ⟨rfl, rfl⟩ := h1; simp [hr, hc]
  · have : ¬ (r' = r ∧ c' = c ∧ r < n ∧ c < n) := fun h => h1 ⟨h.1, h.2.1⟩
    simp [h1, this]

/-! ### `setI` (signed coordinates) -/

theorem matShape_setI {m : Mat} {n : Nat} (h : MatShape m n) (r c : Int) (x : Bool) :
    MatShape (m.setI n r c x) n := by
  unfold Mat.setI
  split
  · exact h
  · exact matShape_set h _ _ _

/-- the `get`/`setI` law, at full strength -/
theorem Mat.get_setI {m : Mat} {n : Nat} (h : MatShape m n) (r c : Int) (x : Bool) (r' c' : Nat) :
    (m.setI n r c x).get r' c' =
      if (r' : Int) = r ∧ (c' : Int) = c ∧ r' < n ∧ c' < n then some x else m.get r' c' := by
  unfold Mat.setI
  split
  · next hout =>
    have : ¬ ((r' : Int) = r ∧ (c' : Int) = c ∧ r' < n ∧ c' < n) := by omega
    simp [this]
  · next hin =>
    rw [Mat.get_set h]
    have : (r' = r.toNat ∧ c' = c.toNat ∧ r.toNat < n ∧ c.toNat < n) ↔
        ((r' : Int) = r ∧ (c' : Int) = c ∧ r' < n ∧ c' < n) := by omega
    simp only [this]

theorem Mat.get_setI_in {m : Mat} {n : Nat} (h : MatShape m n) (r c : Int) (x : Bool) {r' c' : Nat}
    (hr : r' < n) (hc : c' < n) :
    (m.setI n r c x).get r' c' = if (r' : Int) = r ∧ (c' : Int) = c then some x else m.get r' c' := by
  rw [Mat.get_setI h]
  by_cases h1 : (r' : Int) = r ∧ (c' : Int) = c
  · simp [h1, hr, hc]
  · have : ¬ ((r' : Int) = r ∧ (c' : Int) = c ∧ r' < n ∧ c' < n) := fun h => h1 ⟨h.1, h.2.1⟩
    simp [h1, this]

/-! ### painting steps

`Paints n f P g`: on n x n matrices `f` keeps the shape, overwrites every cell satisfying `P` with `g r c` and leaves
all other cells alone.  Because the value `g r c` depends on the cell only, painting steps compose without any
disjointness side condition. -/

def Paints (n : Nat) (f : Mat → Mat) (P : Nat → Nat → Prop) (g : Nat → Nat → Option Bool) : Prop :=
  ∀ m, MatShape m n → MatShape (f m) n ∧ ∀ r c, r < n → c < n →
    (P r c → (f m).get r c = g r c) ∧ (¬ P r c → (f m).get r c = m.get r c)

theorem Paints.shape {n f P g} (h : Paints n f P g) {m : Mat} (hm : MatShape m n) : MatShape (f m) n := (h m hm).1

theorem Paints.get_in {n f P g} (h : Paints n f P g) {m : Mat} (hm : MatShape m n) {r c : Nat}
    (hr : r < n) (hc : c < n) (hp : P r c) : (f m).get r c = g r c := ((h m hm).2 r c hr hc).1 hp

theorem Paints.get_out {n f P g} (h : Paints n f P g) {m : Mat} (hm : MatShape m n) {r c : Nat}
    (hr : r < n) (hc : c < n) (hp : ¬ P r c) : (f m).get r c = m.get r c := ((h m hm).2 r c hr hc).2 hp

/-- the `if`-form of a painting step -/
theorem Paints.get_ite {n f P g} (h : Paints n f P g) {m : Mat} (hm : MatShape m n) {r c : Nat}
    (hr : r < n) (hc : c < n) [Decidable (P r c)] : (f m).get r c = if P r c then g r c else m.get r c := by
  split
  · next hp => exact h.get_in hm hr hc hp
  · next hp => exact h.get_out hm hr hc hp

theorem Paints.id (n : Nat) (g : Nat → Nat → Option Bool) : Paints n (fun m => m) (fun _ _ => False) g :=
  fun _ hm => ⟨hm, fun _ _ _ _ => ⟨fun h => h.elim, fun _ => rfl⟩⟩

theorem Paints.congr {n f P P' g g'} (h : Paints n f P g)
    (hP : ∀ r c, r < n → c < n → (P' r c ↔ P r c)) (hg : ∀ r c, r < n → c < n → P r c → g r c = g' r c) :
    Paints n f P' g' := by
  intro m hm
  refine ⟨h.shape hm, fun r c hr hc => ⟨fun hp => ?_, fun hp => ?_⟩⟩
  · have hp' := (hP r c hr hc).1 hp
    rw [h.get_in hm hr hc hp', hg r c hr hc hp']
  · exact h.get_out hm hr hc (fun hp' => hp ((hP r c hr hc).2 hp'))

theorem Paints.set {n : Nat} {g : Nat → Nat → Option Bool} (r c : Nat) (x : Option Bool)
    (hg : r < n → c < n → g r c = x) :
    Paints n (fun m => m.set r c x) (fun r' c' => r' = r ∧ c' = c) g := by
  intro m hm
  refine ⟨matShape_set hm _ _ _, fun r' c' hr hc => ⟨fun hp => ?_, fun hp => ?_⟩⟩
  · obtain ⟨rfl, rfl⟩ := hp
    rw [Mat.get_set_in hm _ _ _ hr hc, hg hr hc]; simp
  · rw [Mat.get_set_in hm _ _ _ hr hc]; simp [hp]

theorem Paints.setI {n : Nat} {g : Nat → Nat → Option Bool} (r c : Int) (x : Bool)
    (hg : ∀ r' c' : Nat, r' < n → c' < n → (r' : Int) = r → (c' : Int) = c → g r' c' = some x) :
    Paints n (fun m => m.setI n r c x) (fun r' c' => (r' : Int) = r ∧ (c' : Int) = c) g := by
  intro m hm
  refine ⟨matShape_setI hm _ _ _, fun r' c' hr hc => ⟨fun hp => ?_, fun hp => ?_⟩⟩
  · rw [Mat.get_setI_in hm _ _ _ hr hc, hg r' c' hr hc hp.1 hp.2]; simp [hp]
  · rw [Mat.get_setI_in hm _ _ _ hr hc]; simp [hp]

/-- a loop of painting steps with a common colour function paints the union -/
theorem Paints.foldl {ι : Type} {n : Nat} {g : Nat → Nat → Option Bool} {f : Mat → ι → Mat}
    {P : ι → Nat → Nat → Prop} (l : List ι) (h : ∀ i ∈ l, Paints n (fun m => f m i) (P i) g) :
    Paints n (fun m => l.foldl f m) (fun r c => ∃ i ∈ l, P i r c) g := by
  induction l with
  | nil => exact (Paints.id n g).congr (by simp) (by simp)
  | cons i l ih =>
    have hi := h i (by simp)
    have hl := ih (fun j hj => h j (by simp [hj]))
    intro m hm
    simp only [List.foldl_cons]
    have hm1 := hi.shape hm
    refine ⟨hl.shape hm1, fun r c hr hc => ⟨fun hp => ?_, fun hp => ?_⟩⟩
    · by_cases hp' : ∃ j ∈ l, P j r c
      · exact hl.get_in hm1 hr hc hp'
      · rw [hl.get_out hm1 hr hc hp']
        obtain ⟨j, hj, hpj⟩ := hp
        rcases List.mem_cons.1 hj with rfl | hj
        · exact hi.get_in hm hr hc hpj
        · exact (hp' ⟨j, hj, hpj⟩).elim
    · have h1 : ¬ ∃ j ∈ l, P j r c := fun ⟨j, hj, hpj⟩ => hp ⟨j, by simp [hj], hpj⟩
      have h2 : ¬ P i r c := fun hpi => hp ⟨i, by simp, hpi⟩
      rw [hl.get_out hm1 hr hc h1]
      exact hi.get_out hm hr hc h2

/-- sequential composition -/
theorem Paints.comp {n f1 f2 P1 P2 g} (h1 : Paints n f1 P1 g) (h2 : Paints n f2 P2 g) :
    Paints n (fun m => f2 (f1 m)) (fun r c => P1 r c ∨ P2 r c) g := by
  intro m hm
  have hm1 := h1.shape hm
  refine ⟨h2.shape hm1, fun r c hr hc => ⟨fun hp => ?_, fun hp => ?_⟩⟩
  · by_cases hp2 : P2 r c
    · exact h2.get_in hm1 hr hc hp2
    · rw [h2.get_out hm1 hr hc hp2]
      exact h1.get_in hm hr hc (hp.resolve_right hp2)
  · rw [h2.get_out hm1 hr hc (fun h => hp (Or.inr h))]
    exact h1.get_out hm hr hc (fun h => hp (Or.inl h))

end QR.Model
