import QR.Proofs.StreamModes
import QR.Proofs.C06Tables
/-
Segment lists (C06 / spine of C01): header + body bits of a list of valid segments, their total length, and the
ISO stream parser recovering exactly the segments.
-/
namespace QR
open Model

/-- `length_in_bits(mode, v)` is the ISO character-count width, for every version 1..40 -/
theorem lengthInBits_eq {v : Nat} (h1 : 1 ≤ v) (h40 : v ≤ 40) (m : Spec.Mode) :
    lengthInBits m.indicator v = .ok (Spec.countWidth v m) := by
  obtain ⟨u, rfl⟩ : ∃ u, v = u + 1 := ⟨v - 1, by omega⟩
  exact Props.C06_widths u (by omega) m (by cases m <;> simp [Props.allModes])

/-- a continuation at which the segment parser stops: fewer than 4 bits left, or a 0000 terminator -/
def StopsParse (rest : List Bool) : Prop := rest.length < 4 ∨ rest.take 4 = [false, false, false, false]

theorem parseSegs_stop (v fuel : Nat) {rest : List Bool} (h : StopsParse rest) :
    Spec.parseSegs v (fuel + 1) rest = some ([], rest) := by
  rcases h with h | h
  · have : (rest.take 4).length < 4 := by rw [List.length_take]; omega
    simp only [Spec.parseSegs, this, ↓reduceIte]
  · have h0 : Spec.bitsVal (rest.take 4) = 0 := by rw [h]; rfl
    have : ¬ (rest.take 4).length < 4 := by rw [h]; simp
    simp only [Spec.parseSegs, this, ↓reduceIte, h0]

/-- one valid segment: its Spec view, its count width, its body bits, and one step of the ISO parser -/
theorem seg_roundtrip {v : Nat} (h1 : 1 ≤ v) (h40 : v ≤ 40) (s : Seg) (hs : s.Valid) :
    ∃ m d, toPSeg s = some ⟨m, s.data⟩ ∧ s.mode = m.indicator ∧
      lengthInBits s.mode v = .ok (Spec.countWidth v m) ∧ segWrite s = .ok d ∧
      d.length = Spec.bodyBits m s.data.length ∧
      (s.data.length < 2 ^ Spec.countWidth v m → ∀ fuel tlp rest rest',
        Spec.parseSegs v fuel rest = some (tlp, rest') →
        Spec.parseSegs v (fuel + 1)
          (bitsBE s.mode 4 ++ bitsBE s.data.length (Spec.countWidth v m) ++ d ++ rest) =
          some (⟨m, s.data⟩ :: tlp, rest')) := by
  obtain ⟨mode, data⟩ := s
  rcases hs with ⟨hm, hd⟩ | ⟨hm, hd⟩ | ⟨hm, hd⟩ <;> simp only at hm hd <;> subst hm
  · obtain ⟨d, hw, hlen, hparse⟩ := writeNumeric_roundtrip data data.length hd (Nat.le_refl _)
    refine ⟨.numeric, d, rfl, rfl, lengthInBits_eq h1 h40 .numeric, ?_, hlen, ?_⟩
    · simp [segWrite, Gen.MODE_NUMBER, hw]
    · intro hfit fuel tlp rest rest' htl
      have hv1 : Spec.bitsVal (bitsBE 1 4) = 1 := by decide
      have hvc := bitsVal_bitsBE hfit
      simp only [Spec.parseSegs, List.append_assoc, take_bitsBE_append, drop_bitsBE_append, bitsBE_length,
        Nat.lt_irrefl, ↓reduceIte, hv1, Nat.one_ne_zero, Spec.Mode.ofIndicator, hvc, hparse, htl]
  · obtain ⟨d, hw, hlen, hparse⟩ := writeAlnum_roundtrip data hd
    refine ⟨.alnum, d, rfl, rfl, lengthInBits_eq h1 h40 .alnum, ?_, hlen, ?_⟩
    · simp [segWrite, Gen.MODE_NUMBER, Gen.MODE_ALPHA_NUM, hw]
    · intro hfit fuel tlp rest rest' htl
      have hv1 : Spec.bitsVal (bitsBE 2 4) = 2 := by decide
      have hvc := bitsVal_bitsBE hfit
      have h20 : (2 : Nat) ≠ 0 := by decide
      simp only [Spec.parseSegs, List.append_assoc, take_bitsBE_append, drop_bitsBE_append, bitsBE_length,
        Nat.lt_irrefl, ↓reduceIte, hv1, h20, Spec.Mode.ofIndicator, hvc, hparse, htl]
  · refine ⟨.byte, writeBytes data, rfl, rfl, lengthInBits_eq h1 h40 .byte, ?_, writeBytes_length data, ?_⟩
    · simp [segWrite, Gen.MODE_NUMBER, Gen.MODE_ALPHA_NUM]
    · intro hfit fuel tlp rest rest' htl
      have hv1 : Spec.bitsVal (bitsBE 4 4) = 4 := by decide
      have hvc := bitsVal_bitsBE hfit
      have h40 : (4 : Nat) ≠ 0 := by decide
      simp only [Spec.parseSegs, List.append_assoc, take_bitsBE_append, drop_bitsBE_append, bitsBE_length,
        Nat.lt_irrefl, ↓reduceIte, hv1, h40, Spec.Mode.ofIndicator, hvc, writeBytes_roundtrip data hd, htl]

theorem toPSegs_cons (s : Seg) (segs : List Seg) :
    toPSegs (s :: segs) = (toPSeg s).bind fun p => (toPSegs segs).bind fun ps => some (p :: ps) := by
  simp only [toPSegs, List.mapM_cons]
  rfl

theorem streamBits_cons (v : Nat) (p : Spec.PSeg) (ps : List Spec.PSeg) :
    Spec.streamBits v (segCounts (p :: ps)) =
      4 + Spec.countWidth v p.mode + Spec.bodyBits p.mode p.data.length + Spec.streamBits v (segCounts ps) := by
  simp [Spec.streamBits, segCounts]

/-- item 3a: on valid segments the header/body writer succeeds, every segment has a Spec view, and the number of
    bits written is the closed form `Spec.streamBits` (no count-field hypothesis needed) -/
theorem segsBits_ok {v : Nat} (h1 : 1 ≤ v) (h40 : v ≤ 40) (segs : List Seg) (hvalid : ∀ s ∈ segs, s.Valid) :
    ∃ bits ps, segsBits (fun m => lengthInBits m v) segs = .ok bits ∧ toPSegs segs = some ps ∧
      ps.length = segs.length ∧ bits.length = Spec.streamBits v (segCounts ps) := by
  induction segs with
  | nil => exact ⟨[], [], rfl, rfl, rfl, rfl⟩
  | cons s segs ih =>
    obtain ⟨tl, ps, htl, hps, hpl, hlen⟩ := ih (fun x hx => hvalid x (by simp [hx]))
    obtain ⟨m, d, hp, _, hw, hd, hdl, _⟩ := seg_roundtrip h1 h40 s (hvalid s (by simp))
    refine ⟨bitsBE s.mode 4 ++ bitsBE s.data.length (Spec.countWidth v m) ++ d ++ tl, ⟨m, s.data⟩ :: ps, ?_, ?_, ?_, ?_⟩
    · simp [segsBits, hw, hd, htl]
    · simp [toPSegs_cons, hp, hps]
    · simp [hpl]
    · simp only [streamBits_cons, List.length_append, bitsBE_length, hdl, hlen]

/-- item 3 (length, hypothesis form) -/
theorem segsBits_length {v : Nat} (h1 : 1 ≤ v) (h40 : v ≤ 40) {segs : List Seg} (hvalid : ∀ s ∈ segs, s.Valid)
    {bits : List Bool} {ps : List Spec.PSeg} (hbits : segsBits (fun m => lengthInBits m v) segs = .ok bits)
    (hps : toPSegs segs = some ps) : bits.length = Spec.streamBits v (segCounts ps) := by
  obtain ⟨bits', ps', hb', hp', _, hlen⟩ := segsBits_ok h1 h40 segs hvalid
  rw [hbits] at hb'; rw [hps] at hp'
  cases hb'; cases hp'; exact hlen

/-- item 3b: the ISO parser recovers exactly the segments from the written bits followed by any continuation at
    which parsing stops, provided every character count fits its count field; fuel `> segs.length` suffices -/
theorem parseSegs_segsBits {v : Nat} (h1 : 1 ≤ v) (h40 : v ≤ 40) (segs : List Seg) (hvalid : ∀ s ∈ segs, s.Valid)
    {bits : List Bool} {ps : List Spec.PSeg} (hbits : segsBits (fun m => lengthInBits m v) segs = .ok bits)
    (hps : toPSegs segs = some ps) (hfit : ∀ p ∈ ps, p.data.length < 2 ^ Spec.countWidth v p.mode)
    {rest : List Bool} (hrest : StopsParse rest) {fuel : Nat} (hfuel : segs.length < fuel) :
    Spec.parseSegs v fuel (bits ++ rest) = some (ps, rest) := by
  induction segs generalizing bits ps fuel with
  | nil =>
    cases hbits; cases hps
    obtain ⟨f, rfl⟩ : ∃ f, fuel = f + 1 := ⟨fuel - 1, by omega⟩
    exact parseSegs_stop v f hrest
  | cons s segs ih =>
    obtain ⟨f, rfl⟩ : ∃ f, fuel = f + 1 := ⟨fuel - 1, by omega⟩
    obtain ⟨m, d, hp, _, hw, hd, _, hstep⟩ := seg_roundtrip h1 h40 s (hvalid s (by simp))
    obtain ⟨tl, ps', htl, hps', _, _⟩ := segsBits_ok h1 h40 segs (fun x hx => hvalid x (by simp [hx]))
    have hb : bits = bitsBE s.mode 4 ++ bitsBE s.data.length (Spec.countWidth v m) ++ d ++ tl := by
      simp only [segsBits, hw, hd, htl, R.bind_ok, R.pure_eq, Except.ok.injEq] at hbits
      exact hbits.symm
    have hpp : ps = ⟨m, s.data⟩ :: ps' := by
      simp [toPSegs_cons, hp, hps'] at hps
      exact hps.symm
    subst hb hpp
    have := ih (fun x hx => hvalid x (by simp [hx])) htl hps' (fun p hp => hfit p (by simp [hp]))
      (fuel := f) (by simp only [List.length_cons] at hfuel; omega)
    rw [List.append_assoc]
    exact hstep (hfit ⟨m, s.data⟩ (by simp)) f ps' (tl ++ rest) rest this

end QR
