import QR.Model.Data
import QR.Spec.Reader
import QR.Spec.Tables
import QR.Proofs.Except
import QR.Proofs.Finite
/-
Interleaving (util.create_bytes, second half) against the Spec de-interleaver; block splitting (first half);
`createBytes` on the ISO Table 9 block structure against `Spec.blocksOf`.
Main theorems: `deinterleave_interleave`, `interleave_length`, `splitBlocks_spec`, `createBytes_blocksOf`,
`createBytes_blocksOf'`.
-/
namespace QR.Interleave
open QR

/-! ### column view of `Model.interleave` -/

/-- column `i` of a list of blocks: the `i`-th byte of every block that is long enough -/
def colOf (blocks : List (List Nat)) (i : Nat) : List Nat := blocks.filterMap fun b => b[i]?

theorem colOf_nil (i : Nat) : colOf [] i = [] := rfl

theorem colOf_cons (b : List Nat) (bs : List (List Nat)) (i : Nat) :
    colOf (b :: bs) i = (if h : i < b.length then b[i] :: colOf bs i else colOf bs i) := by
  unfold colOf
  by_cases h : i < b.length
  · simp [h]
  · simp [h]

theorem colOf_append (xs ys : List (List Nat)) (i : Nat) : colOf (xs ++ ys) i = colOf xs i ++ colOf ys i := by
  simp [colOf, List.filterMap_append]

/-- the `present` flags of `deinterleaveAux` count the column length -/
theorem count_present (blocks : List (List Nat)) (i : Nat) :
    (((blocks.map List.length).map fun len => decide (i < len)).count true) = (colOf blocks i).length := by
  induction blocks with
  | nil => rfl
  | cons b bs ih =>
    rw [colOf_cons]
    by_cases h : i < b.length
    · simp only [List.map_cons, h, decide_true, List.count_cons_self, dite_true, List.length_cons, ih]
    · simp only [List.map_cons, h, decide_false, dite_false, ← ih]
      simp

theorem interleave_eq (blocks : List (List Nat)) :
    Model.interleave blocks =
      (List.range' 0 ((blocks.map List.length).foldl max 0)).flatMap (colOf blocks) := by
  unfold Model.interleave
  simp only [List.foldl_map, List.range_eq_range']
  rfl

theorem le_foldl_max (l : List Nat) (a : Nat) : a ≤ l.foldl max a ∧ ∀ x ∈ l, x ≤ l.foldl max a := by
  induction l generalizing a with
  | nil => simp
  | cons y ys ih =>
    simp only [List.foldl_cons, List.mem_cons, forall_eq_or_imp]
    have := ih (max a y)
    refine ⟨by omega, by omega, this.2⟩

/-! ### the de-interleaver on an interleaved sequence -/

/-- the element picked by `deinterleaveAux` for block `b` in column `i` -/
theorem col_pick (blocks : List (List Nat)) (i b : Nat) (rest : List Nat) (hb : b < blocks.length)
    (hi : i < blocks[b].length) :
    (colOf blocks i ++ rest)[((((blocks.map List.length).map fun len => decide (i < len)).take b).count true)]? =
      some blocks[b][i] := by
  have h1 : (((blocks.map List.length).map fun len => decide (i < len)).take b) =
      (((blocks.take b).map List.length).map fun len => decide (i < len)) := by
    simp [List.map_take]
  rw [h1, count_present]
  have h2 : blocks = blocks.take b ++ (blocks[b] :: blocks.drop (b + 1)) := by
    simp
  have h3 : colOf blocks i = colOf (blocks.take b) i ++ (blocks[b][i] :: colOf (blocks.drop (b + 1)) i) := by
    conv => lhs; rw [h2]
    rw [colOf_append, colOf_cons]
    simp [hi]
  rw [h3, List.append_assoc, List.getElem?_append_right (Nat.le_refl _)]
  simp

theorem deinterleaveAux_col (blocks : List (List Nat)) (k i : Nat) (rest : List Nat) :
    Spec.deinterleaveAux (blocks.map List.length) k i ((List.range' i k).flatMap (colOf blocks) ++ rest) =
      (List.range' i k).map fun j => blocks.map fun b => b[j]? := by
  induction k generalizing i with
  | zero => simp [Spec.deinterleaveAux]
  | succ k ih =>
    simp only [Spec.deinterleaveAux, List.range'_succ, List.flatMap_cons, List.map_cons, List.append_assoc]
    rw [count_present, List.drop_left, ih]
    congr 1
    apply List.ext_getElem?
    intro b
    simp only [List.getElem?_map, List.getElem?_zipIdx, Nat.zero_add]
    by_cases hb : b < blocks.length
    · simp only [List.getElem?_eq_getElem hb, Option.map_some, Option.some.injEq]
      by_cases hi : i < blocks[b].length
      · rw [if_pos (by simpa using hi)]
        rw [col_pick blocks i b ((List.range' (i + 1) k).flatMap (colOf blocks) ++ rest) hb hi]
        simp [hi]
      · rw [if_neg (by simpa using hi)]
        have : blocks[b][i]? = none := by simp; omega
        rw [this]
    · simp [List.getElem?_eq_none (Nat.le_of_not_lt hb)]

theorem filterMap_getElem?_range' (l : List Nat) (m : Nat) (h : l.length ≤ m) :
    (List.range' 0 m).filterMap (fun j => l[j]?) = l := by
  induction l generalizing m with
  | nil => simp
  | cons a t ih =>
    cases m with
    | zero => simp at h
    | succ m =>
      rw [List.range'_succ, List.filterMap_cons]
      simp only [List.getElem?_cons_zero]
      rw [List.range'_succ_left, List.filterMap_map]
      simp only [List.length_cons, Nat.add_le_add_iff_right] at h
      have := ih m h
      simp only [Function.comp_def, List.getElem?_cons_succ]
      rw [this]

/-- **C02, interleaving**: the Spec de-interleaver inverts the model's column-wise interleaving, for any blocks
    (any lengths, empty blocks and the empty list included) -/
theorem deinterleave_interleave (blocks : List (List Nat)) :
    Spec.deinterleave (blocks.map List.length) (Model.interleave blocks) = blocks := by
  unfold Spec.deinterleave
  simp only []
  rw [interleave_eq]
  have := deinterleaveAux_col blocks ((blocks.map List.length).foldl max 0) 0 []
  rw [List.append_nil] at this
  rw [this]
  apply List.ext_getElem?
  intro b
  simp only [List.getElem?_map, List.length_map]
  by_cases hb : b < blocks.length
  · rw [List.getElem?_range hb, List.getElem?_eq_getElem hb]
    simp only [Option.map_some, Option.some.injEq, List.filterMap_map, Function.comp_def]
    have hm : blocks[b].length ≤ (blocks.map List.length).foldl max 0 :=
      (le_foldl_max (blocks.map List.length) 0).2 _ (List.mem_map.mpr ⟨blocks[b], List.getElem_mem hb, rfl⟩)
    have := filterMap_getElem?_range' blocks[b] _ hm
    conv => rhs; rw [← this]
    congr 1
    funext j
    simp [List.getD_eq_getElem?_getD, hb]
  · rw [List.getElem?_eq_none (Nat.le_of_not_lt hb), List.getElem?_eq_none (by simpa using Nat.le_of_not_lt hb)]
    rfl

/-! ### length of the interleaved sequence -/

theorem colOf_length_add (blocks : List (List Nat)) (M : Nat) :
    (colOf blocks M).length + (blocks.map fun b => min b.length M).sum =
      (blocks.map fun b => min b.length (M + 1)).sum := by
  induction blocks with
  | nil => rfl
  | cons b bs ih =>
    rw [colOf_cons]
    simp only [List.map_cons, List.sum_cons]
    by_cases h : M < b.length
    · simp only [h, dite_true, List.length_cons]; omega
    · simp only [h, dite_false]; omega

theorem flatMap_colOf_length (blocks : List (List Nat)) (M : Nat) :
    ((List.range' 0 M).flatMap (colOf blocks)).length = (blocks.map fun b => min b.length M).sum := by
  induction M with
  | zero =>
    have : ∀ bs : List (List Nat), (bs.map fun b => min b.length 0).sum = 0 := by
      intro bs; induction bs with
      | nil => rfl
      | cons b bs ih => simp only [List.map_cons, List.sum_cons, ih]; omega
    rw [this]; rfl
  | succ M ih =>
    rw [List.range'_concat, List.flatMap_append, List.length_append, ih, ← colOf_length_add]
    simp only [Nat.zero_add, Nat.one_mul, List.flatMap_cons, List.flatMap_nil, List.append_nil]
    omega

theorem interleave_length (blocks : List (List Nat)) :
    (Model.interleave blocks).length = (blocks.map List.length).sum := by
  rw [interleave_eq, flatMap_colOf_length]
  congr 1
  apply List.map_congr_left
  intro b hb
  have := (le_foldl_max (blocks.map List.length) 0).2 _ (List.mem_map.mpr ⟨b, hb, rfl⟩)
  omega

/-! ### `splitBlocks` -/

/-- consecutive slices of `buf` of the given lengths -/
def slices : List Nat → List Nat → List (List Nat)
  | _, [] => []
  | buf, n :: ns => buf.take n :: slices (buf.drop n) ns

theorem slices_length (buf lens : List Nat) : (slices buf lens).length = lens.length := by
  induction lens generalizing buf with
  | nil => rfl
  | cons n ns ih => simp [slices, ih]

theorem slices_map_length (buf lens : List Nat) (h : lens.sum ≤ buf.length) :
    (slices buf lens).map List.length = lens := by
  induction lens generalizing buf with
  | nil => rfl
  | cons n ns ih =>
    simp only [List.sum_cons] at h
    simp only [slices, List.map_cons, List.length_take]
    rw [ih _ (by rw [List.length_drop]; omega)]
    congr 1; omega

theorem slices_flatten (buf lens : List Nat) (h : lens.sum = buf.length) : (slices buf lens).flatten = buf := by
  induction lens generalizing buf with
  | nil =>
    simp only [List.sum_nil] at h
    simp only [slices, List.flatten_nil]
    exact (List.eq_nil_of_length_eq_zero h.symm).symm
  | cons n ns ih =>
    simp only [List.sum_cons] at h
    simp only [slices, List.flatten_cons]
    rw [ih _ (by rw [List.length_drop]; omega), List.take_append_drop]

theorem slices_mem (buf lens : List Nat) {P : Nat → Prop} (h : ∀ x ∈ buf, P x) :
    ∀ s ∈ slices buf lens, ∀ y ∈ s, P y := by
  induction lens generalizing buf with
  | nil => intro s hs; simp [slices] at hs
  | cons n ns ih =>
    intro s hs y hy
    simp only [slices, List.mem_cons] at hs
    rcases hs with rfl | hs
    · exact h y (List.mem_of_mem_take hy)
    · exact ih (buf.drop n) (fun x hx => h x (List.mem_of_mem_drop hx)) s hs y hy

theorem map_mod_256 (l : List Nat) (h : ∀ x ∈ l, x < 256) : l.map (· % 256) = l := by
  induction l with
  | nil => rfl
  | cons a t ih =>
    simp only [List.mem_cons, forall_eq_or_imp] at h
    simp only [List.map_cons, ih h.2, Nat.mod_eq_of_lt h.1]

/-- what `splitBlocks` returns for one block: the data slice has the block's data length, and the EC codewords are
    `ecOfBlock` of that slice, of length total − data -/
def BlockOK (p : List Nat × List Nat) (b : Nat × Nat) : Prop :=
  p.1.length = b.2 ∧ Model.ecOfBlock p.1 (b.1 - b.2) = .ok p.2 ∧ p.2.length = b.1 - b.2

/-- **first loop of `create_bytes`**: the buffer is cut into consecutive slices of the blocks' data lengths and each
    slice is paired with its EC codewords.  (`data ≤ total` is not needed.) -/
theorem splitBlocks_spec (buf : List Nat) (blocks : List (Nat × Nat))
    (hlen : buf.length = (blocks.map (·.2)).sum) (hbytes : ∀ x ∈ buf, x < 256)
    (hec : ∀ b ∈ blocks, ∀ dc : List Nat, dc.length = b.2 → (∀ x ∈ dc, x < 256) →
      ∃ ec, Model.ecOfBlock dc (b.1 - b.2) = .ok ec ∧ ec.length = b.1 - b.2) :
    ∃ bs, Model.splitBlocks buf blocks = .ok bs ∧
      bs.map (·.1) = slices buf (blocks.map (·.2)) ∧
      bs.length = blocks.length ∧ ∀ p ∈ bs.zip blocks, BlockOK p.1 p.2 := by
  induction blocks generalizing buf with
  | nil => exact ⟨[], rfl, rfl, rfl, by simp⟩
  | cons b rest ih =>
    obtain ⟨total, dcCount⟩ := b
    simp only [List.map_cons, List.sum_cons] at hlen
    have htake : ∀ x ∈ buf.take dcCount, x < 256 := fun x hx => hbytes x (List.mem_of_mem_take hx)
    have hdrop : ∀ x ∈ buf.drop dcCount, x < 256 := fun x hx => hbytes x (List.mem_of_mem_drop hx)
    have hl : (buf.take dcCount).length = dcCount := by rw [List.length_take]; omega
    obtain ⟨ec, hec1, hec2⟩ := hec (total, dcCount) (List.mem_cons_self) (buf.take dcCount) hl htake
    obtain ⟨tl, htl1, htl2, htl3, htl4⟩ := ih (buf.drop dcCount) (by rw [List.length_drop]; omega) hdrop
      (fun b hb => hec b (List.mem_cons_of_mem _ hb))
    refine ⟨(buf.take dcCount, ec) :: tl, ?_, ?_, ?_, ?_⟩
    · simp only [Model.splitBlocks, map_mod_256 _ htake]
      rw [if_neg (by omega)]
      simp only [] at hec1
      simp only [hec1, htl1, R.bind_ok, R.pure_eq]
    · simp only [List.map_cons, slices, htl2]
    · simp only [List.length_cons, htl3]
    · simp only [List.zip_cons_cons, List.mem_cons, forall_eq_or_imp]
      exact ⟨⟨hl, hec1, hec2⟩, htl4⟩

/-! ### `createBytes` on the ISO block structure -/

theorem map_eq_of_zip {α β γ} (f : α → γ) (g : β → γ) (xs : List α) (ys : List β)
    (hl : xs.length = ys.length) (h : ∀ p ∈ xs.zip ys, f p.1 = g p.2) : xs.map f = ys.map g := by
  induction xs generalizing ys with
  | nil =>
    cases ys with
    | nil => rfl
    | cons y ys => simp at hl
  | cons x xs ih =>
    cases ys with
    | nil => simp at hl
    | cons y ys =>
      simp only [List.zip_cons_cons, List.mem_cons, forall_eq_or_imp] at h
      simp only [List.length_cons, Nat.add_right_cancel_iff] at hl
      simp only [List.map_cons, h.1, ih ys hl h.2]

theorem mem_left_of_zip {α β} (xs : List α) (ys : List β) (hl : xs.length = ys.length) (x : α) (hx : x ∈ xs) :
    ∃ y, (x, y) ∈ xs.zip ys := by
  induction xs generalizing ys with
  | nil => simp at hx
  | cons a xs ih =>
    cases ys with
    | nil => simp at hl
    | cons y ys =>
      simp only [List.length_cons, Nat.add_right_cancel_iff] at hl
      simp only [List.mem_cons] at hx
      rcases hx with rfl | hx
      · exact ⟨y, by simp⟩
      · obtain ⟨y', hy'⟩ := ih ys hl hx
        exact ⟨y', by simp [hy']⟩

def allLevels' : List Spec.Level := [.L, .M, .Q, .H]

theorem mem_allLevels' (l : Spec.Level) : l ∈ allLevels' := by cases l <;> simp [allLevels']

set_option maxRecDepth 100000 in
/-- finite facts about ISO Table 9 (160 rows): the data lengths sum to `dataCodewords`, data + EC lengths sum to
    `totalCodewords`, and every block has `1 ≤ data ≤ total` and `total − data = eccLen` -/
theorem isoBlocks_facts : ∀ v, v < 40 → ∀ l : Spec.Level,
    ((Spec.isoBlocks (v + 1) l).map (·.2)).sum = Spec.dataCodewords (v + 1) l ∧
    ((Spec.isoBlocks (v + 1) l).map (·.2)).sum + ((Spec.isoBlocks (v + 1) l).map fun b => b.1 - b.2).sum =
      Spec.totalCodewords (v + 1) ∧
    ((Spec.isoBlocks (v + 1) l).map (·.1)).sum = Spec.totalCodewords (v + 1) ∧
    ∀ b ∈ Spec.isoBlocks (v + 1) l, 1 ≤ b.2 ∧ b.2 ≤ b.1 ∧ b.1 - b.2 = Spec.eccLen (v + 1) l := by
  have h : (List.range 40).all (fun v => allLevels'.all fun l =>
      ((Spec.isoBlocks (v + 1) l).map (·.2)).sum == Spec.dataCodewords (v + 1) l &&
      ((Spec.isoBlocks (v + 1) l).map (·.2)).sum + ((Spec.isoBlocks (v + 1) l).map fun b => b.1 - b.2).sum ==
        Spec.totalCodewords (v + 1) &&
      ((Spec.isoBlocks (v + 1) l).map (·.1)).sum == Spec.totalCodewords (v + 1) &&
      (Spec.isoBlocks (v + 1) l).all fun b =>
        decide (1 ≤ b.2) && decide (b.2 ≤ b.1) && b.1 - b.2 == Spec.eccLen (v + 1) l) = true := by
    decide +kernel
  intro v hv l
  have := forall_mem_of_all (forall_lt_of_all h v hv) l (mem_allLevels' l)
  simp only [Bool.and_eq_true, beq_iff_eq, List.all_eq_true, decide_eq_true_eq] at this
  exact ⟨this.1.1.1, this.1.1.2, this.1.2, fun b hb => ⟨(this.2 b hb).1.1, (this.2 b hb).1.2, (this.2 b hb).2⟩⟩

/-- the Spec view of the model's (data, ec) pairs -/
def toBlock (p : List Nat × List Nat) : Spec.Block := { data := p.1, ec := p.2 }

/-- **`create_bytes` against the Spec block splitter.**  For version `v+1`, level `l` and a data-codeword buffer of
    the right length, `createBytes` succeeds with `totalCodewords` codewords, and the Spec reader's `blocksOf`
    recovers exactly the blocks `splitBlocks` built: consecutive slices of `buf` of the Table-9 data lengths, each
    with `ecOfBlock` of that slice; their data parts concatenate to `buf`.
    `hec` is only required on (data, EC) shapes that occur in `isoBlocks (v+1) l`. -/
theorem createBytes_blocksOf (v : Nat) (hv : v < 40) (l : Spec.Level) (buf : List Nat)
    (hlen : buf.length = Spec.dataCodewords (v + 1) l) (hbytes : ∀ x ∈ buf, x < 256)
    (hec : ∀ dc : List Nat, (dc.length + Spec.eccLen (v + 1) l, dc.length) ∈ Spec.isoBlocks (v + 1) l →
      (∀ x ∈ dc, x < 256) →
      ∃ ec, Model.ecOfBlock dc (Spec.eccLen (v + 1) l) = .ok ec ∧ ec.length = Spec.eccLen (v + 1) l) :
    ∃ bs cw, Model.splitBlocks buf (Spec.isoBlocks (v + 1) l) = .ok bs ∧
      Model.createBytes buf (Spec.isoBlocks (v + 1) l) = .ok cw ∧
      cw = Model.interleave (bs.map (·.1)) ++ Model.interleave (bs.map (·.2)) ∧
      cw.length = Spec.totalCodewords (v + 1) ∧
      bs.length = (Spec.isoBlocks (v + 1) l).length ∧
      bs.map (·.1) = slices buf ((Spec.isoBlocks (v + 1) l).map (·.2)) ∧
      (bs.map (·.1)).map List.length = (Spec.isoBlocks (v + 1) l).map (·.2) ∧
      (∀ p ∈ bs, p.1 ≠ [] ∧ (∀ x ∈ p.1, x < 256) ∧
        Model.ecOfBlock p.1 (Spec.eccLen (v + 1) l) = .ok p.2 ∧ p.2.length = Spec.eccLen (v + 1) l) ∧
      Spec.blocksOf (v + 1) l cw = bs.map toBlock ∧
      (Spec.blocksOf (v + 1) l cw).flatMap (·.data) = buf := by
  obtain ⟨hsumd, hsumt, _, hblk⟩ := isoBlocks_facts v hv l
  generalize hbl : Spec.isoBlocks (v + 1) l = bl at *
  have hec' : ∀ b ∈ bl, ∀ dc : List Nat, dc.length = b.2 → (∀ x ∈ dc, x < 256) →
      ∃ ec, Model.ecOfBlock dc (b.1 - b.2) = .ok ec ∧ ec.length = b.1 - b.2 := by
    intro b hb dc hdc hx
    obtain ⟨_, h2, h3⟩ := hblk b hb
    rw [h3]
    apply hec dc _ hx
    have : b = (dc.length + Spec.eccLen (v + 1) l, dc.length) := by
      obtain ⟨t, d⟩ := b
      simp only [Prod.mk.injEq] at *
      omega
    rw [← this]; exact hb
  obtain ⟨bs, hsplit, hslices, hbslen, hok⟩ := splitBlocks_spec buf bl (by rw [hlen, hsumd]) hbytes hec'
  have hd : (bs.map (·.1)).map List.length = bl.map (·.2) := by
    rw [List.map_map]
    exact map_eq_of_zip _ _ bs bl hbslen (fun p hp => (hok p hp).1)
  have he : (bs.map (·.2)).map List.length = bl.map (fun b => b.1 - b.2) := by
    rw [List.map_map]
    exact map_eq_of_zip _ _ bs bl hbslen (fun p hp => (hok p hp).2.2)
  have hbs : ∀ p ∈ bs, p.1 ≠ [] ∧ (∀ x ∈ p.1, x < 256) ∧
      Model.ecOfBlock p.1 (Spec.eccLen (v + 1) l) = .ok p.2 ∧ p.2.length = Spec.eccLen (v + 1) l := by
    intro p hp
    obtain ⟨b, hpb⟩ := mem_left_of_zip bs bl hbslen p hp
    obtain ⟨h1, h2, h3⟩ := hok _ hpb
    obtain ⟨g1, _, g3⟩ := hblk b (List.of_mem_zip hpb).2
    simp only [] at h1 h2 h3
    rw [g3] at h2 h3
    refine ⟨?_, ?_, h2, h3⟩
    · intro h0; rw [h0] at h1; simp only [List.length_nil] at h1; omega
    · have : p.1 ∈ slices buf (bl.map (·.2)) := by rw [← hslices]; exact List.mem_map_of_mem hp
      exact slices_mem buf _ hbytes _ this
  have hcw : Model.createBytes buf bl =
      .ok (Model.interleave (bs.map (·.1)) ++ Model.interleave (bs.map (·.2))) := by
    simp only [Model.createBytes, hsplit, R.bind_ok, R.pure_eq]
  have hblocks : Spec.blocksOf (v + 1) l
      (Model.interleave (bs.map (·.1)) ++ Model.interleave (bs.map (·.2))) = bs.map toBlock := by
    unfold Spec.blocksOf
    simp only [hbl]
    have hnd : (Model.interleave (bs.map (·.1))).length = (bl.map (·.2)).sum := by
      rw [interleave_length, hd]
    rw [List.take_left' hnd, List.drop_left' hnd, ← hd, ← he, deinterleave_interleave, deinterleave_interleave,
      List.zip_map', List.map_map]
    rfl
  refine ⟨bs, _, hsplit, hcw, rfl, ?_, hbslen, hslices, hd, hbs, hblocks, ?_⟩
  · rw [List.length_append, interleave_length, interleave_length, hd, he, hsumt]
  · rw [hblocks, List.flatMap_map]
    have : (List.flatMap (fun a => (toBlock a).data) bs) = (bs.map (·.1)).flatten := by
      rw [List.flatMap_def]; rfl
    rw [this, hslices]
    exact slices_flatten buf _ (by rw [hsumd, hlen])

set_option maxRecDepth 100000 in
theorem eccLen_mem : ∀ v, v < 40 → ∀ l : Spec.Level,
    Spec.eccLen (v + 1) l ∈ [7, 10, 13, 15, 16, 17, 18, 20, 22, 24, 26, 28, 30] := by
  have h : (List.range 40).all (fun v => allLevels'.all fun l =>
      [7, 10, 13, 15, 16, 17, 18, 20, 22, 24, 26, 28, 30].contains (Spec.eccLen (v + 1) l)) = true := by
    decide +kernel
  intro v hv l
  have := forall_mem_of_all (forall_lt_of_all h v hv) l (mem_allLevels' l)
  simpa using this

/-- `createBytes_blocksOf` under a shape-independent hypothesis on `ecOfBlock` (non-empty byte block, `e` one of the
    thirteen EC lengths of Table 9, the literal list being `Props.eccLengths`) -/
theorem createBytes_blocksOf' (v : Nat) (hv : v < 40) (l : Spec.Level) (buf : List Nat)
    (hlen : buf.length = Spec.dataCodewords (v + 1) l) (hbytes : ∀ x ∈ buf, x < 256)
    (hec : ∀ (dc : List Nat) (e : Nat), dc ≠ [] → (∀ x ∈ dc, x < 256) →
      e ∈ [7, 10, 13, 15, 16, 17, 18, 20, 22, 24, 26, 28, 30] →
      ∃ ec, Model.ecOfBlock dc e = .ok ec ∧ ec.length = e) :
    ∃ bs cw, Model.splitBlocks buf (Spec.isoBlocks (v + 1) l) = .ok bs ∧
      Model.createBytes buf (Spec.isoBlocks (v + 1) l) = .ok cw ∧
      cw = Model.interleave (bs.map (·.1)) ++ Model.interleave (bs.map (·.2)) ∧
      cw.length = Spec.totalCodewords (v + 1) ∧
      bs.length = (Spec.isoBlocks (v + 1) l).length ∧
      bs.map (·.1) = slices buf ((Spec.isoBlocks (v + 1) l).map (·.2)) ∧
      (bs.map (·.1)).map List.length = (Spec.isoBlocks (v + 1) l).map (·.2) ∧
      (∀ p ∈ bs, p.1 ≠ [] ∧ (∀ x ∈ p.1, x < 256) ∧
        Model.ecOfBlock p.1 (Spec.eccLen (v + 1) l) = .ok p.2 ∧ p.2.length = Spec.eccLen (v + 1) l) ∧
      Spec.blocksOf (v + 1) l cw = bs.map toBlock ∧
      (Spec.blocksOf (v + 1) l cw).flatMap (·.data) = buf := by
  apply createBytes_blocksOf v hv l buf hlen hbytes
  intro dc hmem hx
  refine hec dc _ ?_ hx (eccLen_mem v hv l)
  have := ((isoBlocks_facts v hv l).2.2.2 _ hmem).1
  intro h0; rw [h0] at this; simp at this

end QR.Interleave
