import QR.Proofs.FitBisect
import QR.Proofs.FitStream
import QR.Proofs.C07Tables
/-
C07 (fitting), part 4: `QRCode.best_fit` returns the smallest adequate version `≥ start`, and raises
DataOverflowError exactly when no version in `start..40` is adequate.
-/
namespace QR.Proofs
open QR

theorem mem_allLevels (l : Spec.Level) : l ∈ Props.allLevels := by
  cases l <;> simp [Props.allLevels]

/-- the row of `BIT_LIMIT_TABLE` the bisect runs on: 41 entries, entry `v` is the ISO capacity, sorted -/
theorem capacity_row (l : Spec.Level) :
    ∃ row, idx Gen.BIT_LIMIT_TABLE l.indicator = .ok row ∧ row.length = 41 ∧
      (∀ v, 1 ≤ v → v ≤ 40 → row.getD v 0 = Spec.capacityBits v l) ∧
      (∀ i j, i ≤ j → j < row.length → row.getD i 0 ≤ row.getD j 0) := by
  obtain ⟨row, hrow, hlen, h0, hcap⟩ := Props.C07_capacity_table l (mem_allLevels l)
  have hcap' : ∀ v, 1 ≤ v → v ≤ 40 → row.getD v 0 = Spec.capacityBits v l := by
    intro v h1 h40
    have := hcap (v - 1) (by omega)
    rw [show v - 1 + 1 = v by omega] at this
    rw [List.getD_eq_getElem?_getD, this]; rfl
  have h0' : row.getD 0 0 = 0 := by rw [List.getD_eq_getElem?_getD, h0]; rfl
  have hstep : ∀ i, i < 40 → row.getD i 0 ≤ row.getD (i + 1) 0 := by
    intro i hi
    by_cases hi0 : i = 0
    · subst hi0; rw [h0']; exact Nat.zero_le _
    · have := Props.C07_capacity_monotone l (mem_allLevels l) (i - 1) (by omega)
      rw [show i - 1 + 1 = i by omega, show i - 1 + 2 = i + 1 by omega] at this
      rw [hcap' i (by omega) (by omega), hcap' (i + 1) (by omega) (by omega)]
      exact Nat.le_of_lt this
  refine ⟨row, ?_, hlen, hcap', ?_⟩
  · simp only [idx, hrow]
  · intro i j hij hj
    rw [hlen] at hj
    induction j with
    | zero => have : i = 0 := by omega
              subst this; exact Nat.le_refl _
    | succ j ih =>
      by_cases h : i = j + 1
      · subst h; exact Nat.le_refl _
      · exact Nat.le_trans (ih (by omega) (by omega)) (hstep j (by omega))

theorem sizeClass_le_two (v : Nat) : Model.sizeClass v ≤ 2 := by
  rw [sizeClass_eq_versionClass]; exact versionClass_le_two v

theorem sizeClass_mono {u v : Nat} (h : u ≤ v) : Model.sizeClass u ≤ Model.sizeClass v := by
  rw [sizeClass_eq_versionClass, sizeClass_eq_versionClass]; exact versionClass_mono h

theorem checkVersion_ok (v : Nat) (h1 : 1 ≤ v) (h40 : v ≤ 40) : Model.checkVersion (v : Int) = .ok () := by
  unfold Model.checkVersion
  rw [if_neg (by omega)]

/-- one call of `best_fit`, with the normalised start `s` -/
theorem bestFit_unfold (fuel s0 : Nat) (l : Spec.Level) (segs : List Model.Seg) (ps : List Spec.PSeg)
    (hv : ∀ s ∈ segs, s.Valid) (hp : toPSegs segs = some ps)
    (row : List Nat) (hrow : idx Gen.BIT_LIMIT_TABLE l.indicator = .ok row) (hlen : row.length = 41)
    (s : Nat) (hs : s = if s0 = 0 then 1 else s0) (h1 : 1 ≤ s) (h40 : s ≤ 40) :
    Model.bestFit (fuel + 1) s0 l.indicator segs =
      if Model.bisectLeft row (Spec.streamBits s (segCounts ps)) 42 s 41 = 41 then .error .dataOverflow
      else (Model.checkVersion ((Model.bisectLeft row (Spec.streamBits s (segCounts ps)) 42 s 41 : Nat) : Int) >>= fun _ =>
        if Model.sizeClass s ≠ Model.sizeClass (Model.bisectLeft row (Spec.streamBits s (segCounts ps)) 42 s 41) then
          Model.bestFit fuel (Model.bisectLeft row (Spec.streamBits s (segCounts ps)) 42 s 41) l.indicator segs
        else .ok (Model.bisectLeft row (Spec.streamBits s (segCounts ps)) 42 s 41)) := by
  obtain ⟨bits, hbits, hbl⟩ := segsBits_modeSizes s segs ps hv hp
  simp only [Model.bestFit]
  rw [← hs, checkVersion_ok s h1 h40, R.bind_ok, hbits, R.bind_ok, hrow, R.bind_ok, hlen, hbl]
  rfl

/-- `v` is the least version `≥ s` that fits -/
def IsMinFit (l : Spec.Level) (cs : List (Spec.Mode × Nat)) (s v : Nat) : Prop :=
  s ≤ v ∧ v ≤ 40 ∧ Spec.fits v l cs = true ∧ ∀ u, s ≤ u → u < v → Spec.fits u l cs = false

/-- no version in `s..40` fits -/
def NoFit (l : Spec.Level) (cs : List (Spec.Mode × Nat)) (s : Nat) : Prop :=
  ∀ u, s ≤ u → u ≤ 40 → Spec.fits u l cs = false

/-- characterisation of `best_fit` for a normalised start and enough fuel for the remaining class changes -/
theorem bestFit_char (l : Spec.Level) (segs : List Model.Seg) (ps : List Spec.PSeg)
    (hv : ∀ s ∈ segs, s.Valid) (hp : toPSegs segs = some ps) :
    ∀ (fuel s : Nat), 1 ≤ s → s ≤ 40 → 3 ≤ fuel + Model.sizeClass s →
      (∃ v, Model.bestFit fuel s l.indicator segs = .ok v ∧ IsMinFit l (segCounts ps) s v) ∨
      (Model.bestFit fuel s l.indicator segs = .error .dataOverflow ∧ NoFit l (segCounts ps) s) := by
  obtain ⟨row, hrow, hlen, hcap, hsorted⟩ := capacity_row l
  intro fuel
  induction fuel with
  | zero => intro s _ _ hf; have := sizeClass_le_two s; omega
  | succ fuel ih =>
    intro s h1 h40 hf
    rw [bestFit_unfold fuel s l segs ps hv hp row hrow hlen s (by rw [if_neg (by omega)]) h1 h40]
    have hb := bisectLeft_spec row (Spec.streamBits s (segCounts ps)) hsorted 42 s 41 (by omega) (by omega) (by omega)
    generalize Model.bisectLeft row (Spec.streamBits s (segCounts ps)) 42 s 41 = v at hb ⊢
    obtain ⟨b1, b2, b3, b4⟩ := hb
    have hlow : ∀ u, s ≤ u → u < v → Spec.fits u l (segCounts ps) = false := by
      intro u hu1 hu2
      have h3 := b3 u hu1 hu2
      rw [hcap u (by omega) (by omega)] at h3
      have h4 := streamBits_mono hu1 (segCounts ps)
      simp only [Spec.fits, decide_eq_false_iff_not]
      omega
    by_cases hv41 : v = 41
    · right
      rw [if_pos hv41]
      exact ⟨rfl, fun u hu1 hu2 => hlow u hu1 (by omega)⟩
    · rw [if_neg hv41, checkVersion_ok v (by omega) (by omega), R.bind_ok]
      by_cases hc : Model.sizeClass s ≠ Model.sizeClass v
      · rw [if_pos hc]
        have hmono := sizeClass_mono b1
        rcases ih v (by omega) (by omega) (by omega) with ⟨w, hw, m1, m2, m3, m4⟩ | ⟨he, hno⟩
        · left
          refine ⟨w, hw, by omega, m2, m3, ?_⟩
          intro u hu1 hu2
          by_cases h : u < v
          · exact hlow u hu1 h
          · exact m4 u (by omega) hu2
        · right
          refine ⟨he, ?_⟩
          intro u hu1 hu2
          by_cases h : u < v
          · exact hlow u hu1 h
          · exact hno u (by omega) hu2
      · rw [if_neg hc]
        left
        refine ⟨v, rfl, b1, by omega, ?_, hlow⟩
        have hcl : Spec.versionClass s = Spec.versionClass v := by
          rw [← sizeClass_eq_versionClass, ← sizeClass_eq_versionClass]
          exact Decidable.of_not_not hc
        have h4 := b4 v (Nat.le_refl _) (by omega)
        rw [hcap v (by omega) (by omega), streamBits_congr hcl] at h4
        simp only [Spec.fits, decide_eq_true_eq]
        exact h4

/-- `start = 0` (Python's `None`) behaves as `start = 1` -/
theorem bestFit_norm (fuel start level : Nat) (segs : List Model.Seg) :
    Model.bestFit (fuel + 1) start level segs = Model.bestFit (fuel + 1) (max start 1) level segs := by
  by_cases h : start = 0
  · subst h
    show Model.bestFit (fuel + 1) 0 level segs = Model.bestFit (fuel + 1) 1 level segs
    simp only [Model.bestFit]
    rfl
  · rw [show max start 1 = start by omega]

/-- total characterisation of `best_fit(start)` for `start ≤ 40` (0 = None) and valid segments -/
theorem bestFit_total (start : Nat) (hs : start ≤ 40) (l : Spec.Level) (segs : List Model.Seg) (ps : List Spec.PSeg)
    (hv : ∀ s ∈ segs, s.Valid) (hp : toPSegs segs = some ps) :
    (∃ v, Model.bestFit 4 start l.indicator segs = .ok v ∧ IsMinFit l (segCounts ps) (max start 1) v) ∨
    (Model.bestFit 4 start l.indicator segs = .error .dataOverflow ∧ NoFit l (segCounts ps) (max start 1)) := by
  rw [bestFit_norm 3 start]
  exact bestFit_char l segs ps hv hp 4 (max start 1) (by omega) (by omega) (by omega)

/-- Item 4, main theorem: the version chosen is the smallest one `≥ start` whose capacity holds the stream
    (written with that version's count-field widths) -/
theorem bestFit_minimal (start : Nat) (hs : start ≤ 40) (l : Spec.Level) (segs : List Model.Seg) (ps : List Spec.PSeg)
    (hv : ∀ s ∈ segs, s.Valid) (hp : toPSegs segs = some ps) (v : Nat)
    (h : Model.bestFit 4 start l.indicator segs = .ok v) :
    max start 1 ≤ v ∧ v ≤ 40 ∧ Spec.fits v l (segCounts ps) = true ∧
      ∀ u, max start 1 ≤ u → u < v → Spec.fits u l (segCounts ps) = false := by
  rcases bestFit_total start hs l segs ps hv hp with ⟨w, hw, hmin⟩ | ⟨he, _⟩
  · rw [hw] at h
    cases h
    exact hmin
  · rw [he] at h; cases h

/-- Item 4, overflow direction -/
theorem bestFit_overflow_iff (start : Nat) (hs : start ≤ 40) (l : Spec.Level) (segs : List Model.Seg)
    (ps : List Spec.PSeg) (hv : ∀ s ∈ segs, s.Valid) (hp : toPSegs segs = some ps) :
    Model.bestFit 4 start l.indicator segs = .error .dataOverflow ↔
      ∀ u, max start 1 ≤ u → u ≤ 40 → Spec.fits u l (segCounts ps) = false := by
  rcases bestFit_total start hs l segs ps hv hp with ⟨w, hw, m1, m2, m3, _⟩ | ⟨he, hno⟩
  · constructor
    · intro h; rw [hw] at h; cases h
    · intro h
      have := h w m1 m2
      rw [m3] at this; cases this
  · exact ⟨fun _ => hno, fun _ => he⟩

/-- Item 4: DataOverflowError is the only exception `best_fit` can raise for `start ≤ 40` and valid segments -/
theorem bestFit_error_only_overflow (start : Nat) (hs : start ≤ 40) (l : Spec.Level) (segs : List Model.Seg)
    (ps : List Spec.PSeg) (hv : ∀ s ∈ segs, s.Valid) (hp : toPSegs segs = some ps) (e : Err)
    (h : Model.bestFit 4 start l.indicator segs = .error e) : e = .dataOverflow := by
  rcases bestFit_total start hs l segs ps hv hp with ⟨w, hw, _⟩ | ⟨he, _⟩
  · rw [hw] at h; cases h
  · rw [he] at h; cases h; rfl

theorem minVersion_eq_some (start : Nat) (l : Spec.Level) (cs : List (Spec.Mode × Nat)) (v : Nat)
    (h : IsMinFit l cs (max start 1) v) : Spec.minVersion start l cs = some v := by
  obtain ⟨m1, m2, m3, m4⟩ := h
  unfold Spec.minVersion
  rw [List.find?_filter, List.find?_range_eq_some]
  refine ⟨?_, List.mem_range.mpr (by omega), ?_⟩
  · simp only [decide_eq_true_eq, m3, and_true]; exact m1
  · intro u hu
    by_cases hsu : max start 1 ≤ u
    · simp [m4 u hsu hu]
    · simp [hsu]

theorem minVersion_eq_none (start : Nat) (l : Spec.Level) (cs : List (Spec.Mode × Nat))
    (h : NoFit l cs (max start 1)) : Spec.minVersion start l cs = none := by
  unfold Spec.minVersion
  rw [List.find?_filter, List.find?_eq_none]
  intro u hu
  have hu' := List.mem_range.mp hu
  by_cases hsu : max start 1 ≤ u
  · simp [h u hsu (by omega)]
  · simp [hsu]

/-- Item 4, corollary: `best_fit` computes `Spec.minVersion` -/
theorem bestFit_eq_minVersion (start : Nat) (hs : start ≤ 40) (l : Spec.Level) (segs : List Model.Seg)
    (ps : List Spec.PSeg) (hv : ∀ s ∈ segs, s.Valid) (hp : toPSegs segs = some ps) :
    Model.bestFit 4 start l.indicator segs =
      (match Spec.minVersion start l (segCounts ps) with
       | some v => .ok v
       | none => .error .dataOverflow) := by
  rcases bestFit_total start hs l segs ps hv hp with ⟨w, hw, hmin⟩ | ⟨he, hno⟩
  · rw [minVersion_eq_some start l _ w hmin, hw]
  · rw [minVersion_eq_none start l _ hno, he]

end QR.Proofs
