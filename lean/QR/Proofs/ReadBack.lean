import QR.Proofs.Symbol
import QR.Proofs.Total
import QR.Proofs.SegShape
/-
C01, composition: the strict ISO reader `Spec.read`, step by step, on the matrix `makeImpl` builds from the codewords
`create_data` returns.
-/
namespace QR.Sym
open QR

/-! ### small facts about the reader's steps -/

theorem ebind_ok {ε α β} (a : α) (f : α → Except ε β) : (Except.ok a >>= f) = f a := rfl
theorem epure {ε α} (a : α) : (pure a : Except ε α) = Except.ok a := rfl

/-- the reader's byte-to-bits is `BitBuffer.put(b, 8)` -/
theorem byteBits_eq (b : Nat) : Spec.byteBits b = bitsBE b 8 := by
  simp [Spec.byteBits, bitsBE, List.range_succ]

theorem flatMap_byteBits (data : List Nat) : data.flatMap Spec.byteBits = Model.writeBytes data := by
  have e : Spec.byteBits = fun b => bitsBE b 8 := funext byteBits_eq
  rw [e]; rfl

theorem versionOfSize_size (v : Nat) (h1 : 1 ≤ v) (h40 : v ≤ 40) : Spec.versionOfSize (Spec.size v) = some v := by
  unfold Spec.versionOfSize Spec.size
  have e : 4 * v + 17 - 17 = 4 * v := by omega
  rw [e, if_pos ⟨by omega, by omega, by omega⟩]
  congr 1
  omega

theorem ofIndicator_indicator (l : Spec.Level) : Spec.Level.ofIndicator l.indicator = some l := by cases l <;> rfl
theorem indicator_lt (l : Spec.Level) : l.indicator < 4 := by cases l <;> decide

/-- the format / version / dark-module cells lie inside the symbol -/
theorem infoCell_inBounds (v level mask : Nat) (hv : 1 ≤ v) (test : Bool) (r c : Nat) (b : Bool)
    (h : Spec.infoCell v level mask test r c = some b) : r < Spec.size v ∧ c < Spec.size v := by
  have hn : 21 ≤ Spec.size v := by simp only [Spec.size]; omega
  rw [GeoB.infoCell_eq v level mask hv] at h
  generalize Spec.size v = n at *
  unfold GeoB.inv1 GeoB.inv2 GeoB.invG1 GeoB.invG2 at h
  grind

/-- the reader, given the outcome of each of its steps -/
theorem read_eq (S : Spec.Sym) (v : Nat) (l : Spec.Level) (mask : Nat) (data buf : List Nat)
    (ps : List Spec.PSeg) (tc : Bool) (k : Nat)
    (hn : Spec.versionOfSize S.n = some v)
    (hf : Spec.readFormat S = .ok (l, mask))
    (hvi : Spec.versionInfoOK S v = true)
    (hfn : Spec.functionOK S v = true)
    (hlen : (Spec.readRaw S v mask).length = Spec.rawModules v)
    (hrem : (Spec.readRaw S v mask).drop (8 * Spec.totalCodewords v) = List.replicate k false)
    (hcw : Spec.bytesOfBits (Spec.totalCodewords v) (Spec.readRaw S v mask) = data)
    (hblocks : ∀ b ∈ Spec.blocksOf v l data, Spec.isCodeword (Spec.eccLen v l) (b.data ++ b.ec) = true)
    (hdata : (Spec.blocksOf v l data).flatMap (·.data) = buf)
    (hstream : Spec.readStream v (buf.flatMap Spec.byteBits) = some ⟨ps, tc⟩) :
    Spec.read S = .ok { version := v, level := l, mask := mask, dataCodewords := buf, segs := ps,
                        tailConformant := tc } := by
  unfold Spec.read
  simp only [hn, epure, ebind_ok, hf, hvi, hfn, Bool.not_true, Bool.false_eq_true, if_false, hlen, ne_eq,
    not_true_eq_false, hrem, hcw]
  have hany : (List.replicate k false).any id = false := by
    rw [List.any_eq_false]; intro x hx; rw [(List.mem_replicate.mp hx).2]; simp
  have hfind : List.find? (fun (x : Spec.Block × Nat) =>
      !Spec.isCodeword (Spec.eccLen v l) (x.fst.data ++ x.fst.ec)) (Spec.blocksOf v l data).zipIdx = none := by
    rw [List.find?_eq_none]
    intro x hx
    have hm : x.1 ∈ Spec.blocksOf v l data := by
      obtain ⟨b, i⟩ := x
      exact (List.mem_zipIdx hx).2.2 ▸ List.getElem_mem _
    simp [hblocks x.1 hm]
  simp only [hany, Bool.false_eq_true, if_false, hfind, hdata, hstream]

/-! ### the function-pattern check -/

theorem functionOK_of_cells (S : Spec.Sym) (v : Nat)
    (h : ∀ r c b, r < S.n → c < S.n → Spec.fixedColour v r c = some b → S.get r c = b) :
    Spec.functionOK S v = true := by
  unfold Spec.functionOK
  rw [List.all_eq_true]
  intro r hr
  rw [List.all_eq_true]
  intro c hc
  cases hf : Spec.fixedColour v r c with
  | none => rfl
  | some b =>
    simp only [beq_iff_eq]
    exact h r c b (List.mem_range.mp hr) (List.mem_range.mp hc) hf

/-! ### the symbol `makeImpl` builds, read by the reader -/

/-- **reader on a built symbol**: if `makeImpl` (final, `test = False`) is given a full codeword sequence whose blocks
    are RS codewords and whose data codewords parse as `ps`, the strict reader returns version, level, mask and `ps` -/
theorem read_makeImpl (v : Nat) (l : Spec.Level) (mask : Nat) (data buf : List Nat) (ps : List Spec.PSeg) (tc : Bool)
    (M : Model.Mat) (S : Spec.Sym) (h1 : 1 ≤ v) (h40 : v ≤ 40) (hk : mask < 8)
    (hM : Model.makeImpl v l.indicator false mask data = .ok M) (hS : GeoC.Shows S (Spec.size v) M)
    (hlen : data.length = Spec.totalCodewords v) (hby : ∀ b ∈ data, b < 256)
    (hblocks : ∀ b ∈ Spec.blocksOf v l data, Spec.isCodeword (Spec.eccLen v l) (b.data ++ b.ec) = true)
    (hdata : (Spec.blocksOf v l data).flatMap (·.data) = buf)
    (hstream : Spec.readStream v (Model.writeBytes buf) = some ⟨ps, tc⟩) :
    Spec.read S = .ok { version := v, level := l, mask := mask, dataCodewords := buf, segs := ps,
                        tailConformant := tc } := by
  obtain ⟨M', hM', _, _, hblank, hinfo, _, hraw⟩ := makeImpl_spec v l.indicator mask false data h1 h40 (indicator_lt l) hk
  rw [hM] at hM'
  injection hM' with hM'
  subst hM'
  obtain ⟨hSn, hSg⟩ := hS
  have hcell : ∀ r c b, r < Spec.size v → c < Spec.size v → M.get r c = some b → S.get r c = b := by
    intro r c b hr hc h
    rw [hSg r c hr hc, h]; rfl
  obtain ⟨hfmt, hver⟩ := GeoB.reader_of_infoCell S v l.indicator mask l h1 h40 (indicator_lt l) hk
    (ofIndicator_indicator l) hSn (by
      intro r c b hb
      obtain ⟨hr, hc⟩ := infoCell_inBounds v l.indicator mask h1 false r c b hb
      exact hcell r c b hr hc (hinfo r c b hr hc hb))
  have hfun : Spec.functionOK S v = true := by
    apply functionOK_of_cells
    rw [hSn]
    intro r c b hr hc hb
    rcases fixedColour_cases v r c b hb with hb | ⟨hd, rfl⟩
    · exact hcell r c b hr hc (hblank r c b hr hc hb)
    · exact hcell r c true hr hc (hinfo r c true hr hc (infoCell_dark v l.indicator mask h1 false r c hd))
  obtain ⟨hrl, hrb, hrd⟩ := hraw S ⟨hSn, hSg⟩ hlen hby
  refine read_eq S v l mask data buf ps tc _ ?_ hfmt hver hfun hrl hrd hrb hblocks hdata ?_
  · rw [hSn]; exact versionOfSize_size v h1 h40
  · rw [flatMap_byteBits]; exact hstream

/-! ### the codewords `create_data` returns -/

theorem mem_interleave (blocks : List (List Nat)) (x : Nat) (h : x ∈ Model.interleave blocks) :
    ∃ b ∈ blocks, x ∈ b := by
  unfold Model.interleave at h
  simp only [List.mem_flatMap, List.mem_filterMap] at h
  obtain ⟨i, _, b, hb, hx⟩ := h
  exact ⟨b, hb, List.mem_of_getElem? hx⟩

/-- **codewords of a symbol**: on success `create_data` returns exactly `totalCodewords v` bytes, whose blocks (ISO
    Table 9, de-interleaved) are Reed-Solomon codewords and whose data codewords are a conformant ISO stream of the
    segments -/
theorem createData_spec (v : Nat) (h1 : 1 ≤ v) (h40 : v ≤ 40) (l : Spec.Level) (segs : List Model.Seg)
    (hv : ∀ s ∈ segs, s.Valid) (ps : List Spec.PSeg) (hp : toPSegs segs = some ps) (data : List Nat)
    (h : Model.createData v l.indicator segs = .ok data) :
    data.length = Spec.totalCodewords v ∧ (∀ b ∈ data, b < 256) ∧
    (∀ b ∈ Spec.blocksOf v l data, Spec.isCodeword (Spec.eccLen v l) (b.data ++ b.ec) = true) ∧
    Spec.readStream v (Model.writeBytes ((Spec.blocksOf v l data).flatMap (·.data))) =
      some { segs := ps, tailConformant := true } ∧
    ((Spec.blocksOf v l data).flatMap (·.data)).length = Spec.dataCodewords v l := by
  unfold Model.createData at h
  obtain ⟨bits, hbits, h⟩ := R.bind_eq_ok.mp h
  obtain ⟨blocks, hblk, h⟩ := R.bind_eq_ok.mp h
  obtain ⟨hstream, hlen, hb⟩ := C06_codewords h1 h40 l hv hp hbits
  have ht := Props.C02_table9 (v - 1) (by omega) l (Proofs.mem_allLevels l)
  have hec : ∀ (dc : List Nat) (e : Nat), dc ≠ [] → (∀ x ∈ dc, x < 256) →
      e ∈ [7, 10, 13, 15, 16, 17, 18, 20, 22, 24, 26, 28, 30] → ∃ ec, Model.ecOfBlock dc e = .ok ec ∧ ec.length = e := by
    intro dc e hne hb he
    obtain ⟨ec, h1, h2, _, _⟩ := Proofs.ecOfBlock_codeword e he dc hne hb
    exact ⟨ec, h1, h2⟩
  have hcb := Interleave.createBytes_blocksOf' (v - 1) (by omega) l (packBytes bits)
  have hcw := Props.C02_blocks (v - 1) (by omega) l (packBytes bits)
  have hmem := Interleave.eccLen_mem (v - 1) (by omega) l
  rw [show v - 1 + 1 = v by omega] at ht hcb hcw hmem
  rw [ht] at hblk
  injection hblk with hblk
  subst hblk
  obtain ⟨bs, cw, _, hcw1, hcw2, hcw3, _, _, _, hbs, _, hflat⟩ := hcb hlen hb hec
  obtain ⟨cw', hcw1', _, _, hcode⟩ := hcw hlen hb
  rw [hcw1] at hcw1' h
  injection hcw1' with e1
  injection h with e2
  subst e1 e2
  refine ⟨hcw3, ?_, hcode, ?_, ?_⟩
  · intro x hx
    rw [hcw2, List.mem_append] at hx
    rcases hx with hx | hx
    · obtain ⟨b, hbm, hxb⟩ := mem_interleave _ x hx
      obtain ⟨p, hp, rfl⟩ := List.mem_map.mp hbm
      exact (hbs p hp).2.1 x hxb
    · obtain ⟨b, hbm, hxb⟩ := mem_interleave _ x hx
      obtain ⟨p, hp, rfl⟩ := List.mem_map.mp hbm
      obtain ⟨hne, hpb, hecp, _⟩ := hbs p hp
      obtain ⟨ec, hec1, _, hec3, _⟩ := Proofs.ecOfBlock_codeword _ hmem p.1 hne hpb
      rw [hecp] at hec1
      injection hec1 with hec1
      subst hec1
      exact hec3 x hxb
  · rw [hflat]; exact hstream
  · rw [hflat]; exact hlen

/-! ### payload and version bookkeeping -/

theorem toPSegs_payload : ∀ (segs : List Model.Seg) (ps : List Spec.PSeg), toPSegs segs = some ps →
    ps.flatMap (·.data) = segs.flatMap (·.data)
  | [], ps, h => by
    have : ps = [] := by simpa [toPSegs] using h.symm
    subst this; rfl
  | s :: segs, ps, h => by
    obtain ⟨p, ps', hp, hps', rfl⟩ := Proofs.toPSegs_cons s segs ps h
    have ih := toPSegs_payload segs ps' hps'
    have hd : p.data = s.data := by
      unfold toPSeg at hp
      cases hm : Spec.Mode.ofIndicator s.mode with
      | none => rw [hm] at hp; cases hp
      | some m => rw [hm] at hp; injection hp with hp; rw [← hp]
    simp only [List.flatMap_cons, ih, hd]

theorem minVersion_ge (start : Nat) (l : Spec.Level) (cs : List (Spec.Mode × Nat)) (v : Nat)
    (h : Spec.minVersion start l cs = some v) : start ≤ v := by
  unfold Spec.minVersion at h
  have := List.mem_of_find?_eq_some h
  simp only [List.mem_filter, decide_eq_true_eq] at this
  omega

/-! ### `add_data` -/

/-- the segments `add_data` appends for a byte string are valid -/
theorem addData_valid (d : List Nat) (n : Nat) (hd : ∀ c ∈ d, c < 256) : ∀ s ∈ Model.addData d n, s.Valid := by
  intro s hs
  obtain ⟨hflat, hok⟩ := Seg.addData_ok d n
  have hsub : ∀ c ∈ s.data, c < 256 := by
    intro c hc
    apply hd
    rw [← hflat]
    exact List.mem_flatMap.mpr ⟨s, hs, hc⟩
  rcases hok s hs with ⟨a, b, _⟩ | ⟨a, b, _⟩ | a
  · exact Or.inl ⟨a, b⟩
  · exact Or.inr (Or.inl ⟨a, b⟩)
  · exact Or.inr (Or.inr ⟨a, hsub⟩)

end QR.Sym
