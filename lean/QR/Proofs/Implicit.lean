import QR.Proofs.History
import QR.Proofs.Total
/-
C16 / C15 "compiling the symbol first if necessary", C03 "no other exception escapes" for the entry points that compile
implicitly (`get_matrix`, `make_image`, `print_ascii`, `print_tty`): on an object that has not been compiled
(`data_cache is None`) each of them yields the symbol of a fresh `compile` with `fit=True` of the current settings and
data, or DataOverflowError exactly when that compile overflows - and nothing else (`make_image`: ValueError for a
non-positive `box_size`, raised before any compile).
-/
namespace QR.Proofs.Implicit
open QR QR.Model

/-- the hypotheses: the process-wide blank cache is sound (`GInv`, = `Props.Global.Inv`: established by the empty cache
    and preserved by every operation), the settings are what the constructor / setters accept (version `None` or
    1..40, mask `None` or 0..7, one of the four ISO levels), the data list is what `add_data` produces, and the object
    has not been compiled since the last change (`data_cache is None`) -/
structure Pre (g : Global) (s : QRState) (l : Spec.Level) : Prop where
  ginv : GInv g
  version : s.version ≤ 40
  mask : ∀ m, s.mask = some m → m ≤ 7
  level : s.level = l.indicator
  segs : ∀ x ∈ s.dataList, x.Valid
  cache : s.dataCache = none

/-- the configuration of the implicit compile: current settings, `fit=True` -/
abbrev freshCfg (s : QRState) : Cfg := { version := s.version, level := s.level, mask := s.mask, fit := true }

theorem freshCfg_eq (s : QRState) : freshCfg s = cfgOf s true := rfl

/-- under `Pre` the fresh compile is ok or overflows (C03) -/
theorem compile_fresh_total {g : Global} {s : QRState} {l : Spec.Level} (h : Pre g s l) :
    (∃ r, compile (freshCfg s) s.dataList = .ok r) ∨ compile (freshCfg s) s.dataList = .error .dataOverflow :=
  Proofs.C03_total (freshCfg s) ⟨h.version, h.mask⟩ l h.level s.dataList h.segs

/-- **`ensureMade` on an uncompiled object is the fresh compile**: the post-state carries the compiled symbol, the
    settings other than the version are untouched; the only possible error is DataOverflowError, exactly when the
    fresh compile overflows -/
theorem ensureMade_fresh {g : Global} {s : QRState} {l : Spec.Level} (h : Pre g s l) :
    match compile (freshCfg s) s.dataList with
    | .ok (v, _, M) =>
        ∃ g' s', ensureMade (g, s) = ((g', s'), .ok ()) ∧ GInv g' ∧ SameButVersion s s' ∧
          s'.version = v ∧ s'.modules = M ∧ s'.modulesCount = v * 4 + 17 ∧ s'.dataCache.isSome = true
    | .error e =>
        e = .dataOverflow ∧
        ∃ g' s', ensureMade (g, s) = ((g', s'), .error .dataOverflow) ∧ GInv g' ∧ SameButVersion s s' := by
  have hen : ensureMade (g, s) = makeS true (g, s) := by
    unfold ensureMade; simp only [h.cache]
  cases hm : makeS true (g, s) with
  | mk st r =>
    obtain ⟨g', s'⟩ := st
    cases r with
    | ok u =>
      cases u
      obtain ⟨a1, a2, _, _, a5, a6, m, a7⟩ := makeS_ok h.ginv hm
      rw [freshCfg_eq, a7]
      exact ⟨g', s', hen.trans hm, a1, a2, rfl, rfl, a5, a6⟩
    | error e =>
      obtain ⟨a1, a2, _, _, a5⟩ := makeS_error h.ginv hm
      have hc := a5 h.version
      have he : e = .dataOverflow := by
        rcases compile_fresh_total h with ⟨r, hr⟩ | hr
        · rw [freshCfg_eq, hc] at hr; cases hr
        · rw [freshCfg_eq, hc] at hr; exact Except.error.inj hr
      subst he
      rw [freshCfg_eq, hc]
      exact ⟨rfl, g', s', hen.trans hm, a1, a2⟩

/-- `get_matrix()` on an uncompiled object -/
theorem step_getMatrix {g : Global} {s : QRState} {l : Spec.Level} (h : Pre g s l) :
    match compile (freshCfg s) s.dataList with
    | .ok (_, _, M) => (step (g, s) .getMatrix).2 = .matrix (framedOpt M.toLists s.border)
    | .error e => e = .dataOverflow ∧ (step (g, s) .getMatrix).2 = .err .dataOverflow := by
  have := ensureMade_fresh h
  cases hc : compile (freshCfg s) s.dataList with
  | ok r =>
    obtain ⟨v, m, M⟩ := r
    rw [hc] at this
    obtain ⟨g', s', he, _, hs, _, hM, _, _⟩ := this
    simp only [step, he, hM, hs.border]
  | error e =>
    rw [hc] at this
    obtain ⟨he', g', s', he, _, _⟩ := this
    simp only [step, he]
    exact ⟨he', trivial⟩

/-- `print_ascii()` on an uncompiled object (the text is rendered from `border` and the modules) -/
theorem step_printAscii {g : Global} {s : QRState} {l : Spec.Level} (h : Pre g s l) :
    match compile (freshCfg s) s.dataList with
    | .ok (_, _, M) => (step (g, s) .printAscii).2 = .text s.border M.toLists
    | .error e => e = .dataOverflow ∧ (step (g, s) .printAscii).2 = .err .dataOverflow := by
  have := ensureMade_fresh h
  cases hc : compile (freshCfg s) s.dataList with
  | ok r =>
    obtain ⟨v, m, M⟩ := r
    rw [hc] at this
    obtain ⟨g', s', he, _, hs, _, hM, _, _⟩ := this
    simp only [step, he, hM, hs.border]
  | error e =>
    rw [hc] at this
    obtain ⟨he', g', s', he, _, _⟩ := this
    simp only [step, he]
    exact ⟨he', trivial⟩

/-- `print_tty()` on an uncompiled object (fixed frame of one module) -/
theorem step_printTty {g : Global} {s : QRState} {l : Spec.Level} (h : Pre g s l) :
    match compile (freshCfg s) s.dataList with
    | .ok (_, _, M) => (step (g, s) .printTty).2 = .text 1 M.toLists
    | .error e => e = .dataOverflow ∧ (step (g, s) .printTty).2 = .err .dataOverflow := by
  have := ensureMade_fresh h
  cases hc : compile (freshCfg s) s.dataList with
  | ok r =>
    obtain ⟨v, m, M⟩ := r
    rw [hc] at this
    obtain ⟨g', s', he, _, hs, _, hM, _, _⟩ := this
    simp only [step, he, hM]
  | error e =>
    rw [hc] at this
    obtain ⟨he', g', s', he, _, _⟩ := this
    simp only [step, he]
    exact ⟨he', trivial⟩

/-- `make_image()` on an uncompiled object: ValueError for a non-positive box size before anything is compiled (state
    unchanged); otherwise the image is built from `border`, `modules_count = 4*version + 17`, `box_size` and the
    compiled modules -/
theorem step_makeImage {g : Global} {s : QRState} {l : Spec.Level} (h : Pre g s l) :
    if s.boxSize ≤ 0 then step (g, s) .makeImage = ((g, s), .err .valueError)
    else match compile (freshCfg s) s.dataList with
      | .ok (v, _, M) => (step (g, s) .makeImage).2 = .image s.border (v * 4 + 17) s.boxSize M.toLists
      | .error e => e = .dataOverflow ∧ (step (g, s) .makeImage).2 = .err .dataOverflow := by
  split
  · rename_i hb
    simp only [step, checkBoxSize, hb, if_true]
  · rename_i hb
    have := ensureMade_fresh h
    cases hc : compile (freshCfg s) s.dataList with
    | ok r =>
      obtain ⟨v, m, M⟩ := r
      rw [hc] at this
      obtain ⟨g', s', he, _, hs, hv, hM, hcnt, _⟩ := this
      simp only [step, checkBoxSize, hb, if_false, he, hM, hs.border, hs.boxSize, hcnt]
    | error e =>
      rw [hc] at this
      obtain ⟨he', g', s', he, _, _⟩ := this
      simp only [step, checkBoxSize, hb, if_false, he]
      exact ⟨he', trivial⟩

/-- the post-state of a successful implicit compile: compiled (`data_cache` filled), at the compiled version, holding
    the compiled modules, other settings untouched, blank cache still sound - the same for all four entry points -/
theorem step_state {g : Global} {s : QRState} {l : Spec.Level} (h : Pre g s l) (op : Op)
    (hop : op = .getMatrix ∨ (op = .makeImage ∧ 0 < s.boxSize) ∨ op = .printAscii ∨ op = .printTty)
    (v m : Nat) (M : Mat) (hc : compile (freshCfg s) s.dataList = .ok (v, m, M)) :
    GInv (step (g, s) op).1.1 ∧ SameButVersion s (step (g, s) op).1.2 ∧ (step (g, s) op).1.2.version = v ∧
      (step (g, s) op).1.2.modules = M ∧ (step (g, s) op).1.2.dataCache.isSome = true := by
  have := ensureMade_fresh h
  rw [hc] at this
  obtain ⟨g', s', he, hg, hs, hv, hM, _, hd⟩ := this
  rcases hop with rfl | ⟨rfl, hb⟩ | rfl | rfl
  · simp only [step, he]; exact ⟨hg, hs, hv, hM, hd⟩
  · have hb' : ¬ s.boxSize ≤ 0 := by omega
    simp only [step, checkBoxSize, hb', if_false, he]; exact ⟨hg, hs, hv, hM, hd⟩
  · simp only [step, he]; exact ⟨hg, hs, hv, hM, hd⟩
  · simp only [step, he]; exact ⟨hg, hs, hv, hM, hd⟩

/-- **no other exception escapes the entry points**: the only errors are DataOverflowError - exactly when the fresh
    compile overflows - and `make_image`'s ValueError for a non-positive box size -/
theorem entry_points {g : Global} {s : QRState} {l : Spec.Level} (h : Pre g s l) (op : Op)
    (hop : op = .getMatrix ∨ op = .makeImage ∨ op = .printAscii ∨ op = .printTty) (e : Err)
    (he : (step (g, s) op).2 = .err e) :
    (e = .dataOverflow ∧ compile (freshCfg s) s.dataList = .error .dataOverflow) ∨
    (e = .valueError ∧ op = .makeImage ∧ s.boxSize ≤ 0) := by
  have key : ∀ (o : Out),
      (match compile (freshCfg s) s.dataList with
       | .ok (v, _, M) => o = (match op with
            | .getMatrix => .matrix (framedOpt M.toLists s.border)
            | .makeImage => .image s.border (v * 4 + 17) s.boxSize M.toLists
            | .printAscii => .text s.border M.toLists
            | _ => .text 1 M.toLists)
       | .error e' => e' = .dataOverflow ∧ o = .err .dataOverflow) →
      o = .err e → e = .dataOverflow ∧ compile (freshCfg s) s.dataList = .error .dataOverflow := by
    intro o ho hoe
    cases hc : compile (freshCfg s) s.dataList with
    | ok r =>
      obtain ⟨v, m, M⟩ := r
      rw [hc] at ho
      simp only at ho
      rw [hoe] at ho
      rcases hop with rfl | rfl | rfl | rfl <;> cases ho
    | error e' =>
      rw [hc] at ho
      obtain ⟨h1, h2⟩ := ho
      subst h1
      rw [hoe] at h2
      cases h2
      exact ⟨rfl, rfl⟩
  rcases hop with rfl | rfl | rfl | rfl
  · exact Or.inl (key _ (by
      have := step_getMatrix h
      cases hc : compile (freshCfg s) s.dataList with
      | ok r => obtain ⟨v, m, M⟩ := r; rw [hc] at this; exact this
      | error e' => rw [hc] at this; exact this) he)
  · have hmi := step_makeImage h
    by_cases hb : s.boxSize ≤ 0
    · rw [if_pos hb] at hmi
      rw [hmi] at he
      cases he
      exact Or.inr ⟨rfl, rfl, hb⟩
    · rw [if_neg hb] at hmi
      exact Or.inl (key _ (by
        cases hc : compile (freshCfg s) s.dataList with
        | ok r => obtain ⟨v, m, M⟩ := r; rw [hc] at hmi; exact hmi
        | error e' => rw [hc] at hmi; exact hmi) he)
  · exact Or.inl (key _ (by
      have := step_printAscii h
      cases hc : compile (freshCfg s) s.dataList with
      | ok r => obtain ⟨v, m, M⟩ := r; rw [hc] at this; exact this
      | error e' => rw [hc] at this; exact this) he)
  · exact Or.inl (key _ (by
      have := step_printTty h
      cases hc : compile (freshCfg s) s.dataList with
      | ok r => obtain ⟨v, m, M⟩ := r; rw [hc] at this; exact this
      | error e' => rw [hc] at this; exact this) he)

end QR.Proofs.Implicit
