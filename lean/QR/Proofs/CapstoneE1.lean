import QR.Proofs.SourceTieB1
/-
Helpers for the C07 capstones (QR/Props/C07.lean, `section Capstone`).

`QR.Gen.Code` holds the translation of `QRCode.best_fit` statement by statement (`best_fit_*`), not as one function: the
bridge theorems `C07_source_bestFit_src` / `C07_source_segsBits_src` are unfolding equations whose right-hand sides still
mention the Model (the callees and the recursive call). Here the same right-hand sides are turned into functions of their
own - `bestFitSrc`, `segsBitsSrc` - with every callee that is NOT translated there as an explicit parameter and the
recursive call going to the function itself, and these are proved equal to the Model, given the Model's callees.
-/
namespace QR.CapstoneE1
open QR QR.Model QR.Gen.Code QR.SourceTieB

/-- the accumulation loop of `QRCode.best_fit`, `for data in self.data_list: buffer.put(data.mode, 4);
    buffer.put(len(data), mode_sizes[data.mode]); data.write(buffer)`, assembled from the translated fragments
    (`best_fit_put_mode`, `best_fit_put_len_key`, `best_fit_put_len`: value and width of both `put`s, the looked-up key);
    parameters: `write` = `data.write(buffer)` (the bits it appends), `width` = `mode_sizes[...]`.
    `bitsBE v w` is `BitBuffer.put(v, w)` (the bits it appends). -/
def segsBitsSrc (write : Seg → R (List Bool)) (width : Nat → R Nat) : List Seg → R (List Bool)
  | [] => .ok []
  | s :: rest => do
      let w ← width (best_fit_put_len_key s.mode s.data.length)
      let d ← write s
      let tl ← segsBitsSrc write width rest
      pure (bitsBE (best_fit_put_mode s.mode s.data.length).1 (best_fit_put_mode s.mode s.data.length).2
            ++ bitsBE (best_fit_put_len s.mode s.data.length w).1 (best_fit_put_len s.mode s.data.length w).2
            ++ d ++ tl)

/-- `QRCode.best_fit(start)` assembled from the translated fragments `best_fit_*`, `check_version_bad`, `mode_size_class`,
    every statement of the source in order (the right-hand side of `C07_source_bestFit_src` with the recursive call going
    to this function). Parameters, i.e. the callees not translated in this chain:
    `sizesFor` = `util.mode_sizes_for_version`, `accumulate` = the loop over `self.data_list` (see `segsBitsSrc`),
    `table` = `util.BIT_LIMIT_TABLE`, `bisect a x fuel lo hi` = `bisect.bisect_left(a, x, lo, hi)`,
    `setVersion` = the `version` property setter (its check). `start = 0` encodes `start=None` (`optStart`);
    `dictGet` / `idx` are Python's `d[k]` / `l[i]` (KeyError / IndexError); the first argument is recursion fuel
    (`.error .other` when exhausted, = RecursionError). -/
def bestFitSrc (sizesFor : Nat → List (Nat × Nat)) (accumulate : (Nat → R Nat) → List Seg → R (List Bool))
    (table : List (List Nat)) (bisect : List Nat → Nat → Nat → Nat → Nat → Nat) (setVersion : Int → R Unit) :
    Nat → Nat → Nat → List Seg → R Nat
  | 0, _, _, _ => .error .other
  | fuel + 1, start, level, segs => do
      let start := best_fit_start (optStart start)
      if check_version_bad (best_fit_check_arg start) then .error .valueError
      else do
        let sizes := sizesFor (best_fit_sizes_arg start)
        let buffer ← accumulate (fun m => dictGet sizes m) segs
        let row ← idx table (best_fit_bisect_row level)
        let version := bisect row (best_fit_bisect_x start buffer.length) (row.length + 1)
                          (best_fit_bisect_lo start buffer.length) row.length
        if best_fit_overflow version then .error .dataOverflow
        else do
          let stored := best_fit_store version
          setVersion stored
          if best_fit_refit mode_size_class start stored then
            bestFitSrc sizesFor accumulate table bisect setVersion fuel (best_fit_recurse_start stored) level segs
          else pure stored

/-- the assembled loop with `data.write` := `Model.segWrite` is `Model.segsBits` (by `segsBits_src`, each step) -/
theorem segsBitsSrc_eq (width : Nat → R Nat) (segs : List Seg) :
    segsBitsSrc segWrite width segs = segsBits width segs := by
  induction segs with
  | nil => rfl
  | cons s rest ih => rw [segsBits_src, segsBitsSrc, ih]

/-- the assembled `best_fit` with the Model's callees is `Model.bestFit` (by `bestFit_src`, each level of the recursion) -/
theorem bestFitSrc_eq (fuel start level : Nat) (segs : List Seg) :
    bestFitSrc modeSizes (segsBitsSrc segWrite) Gen.BIT_LIMIT_TABLE bisectLeft checkVersion fuel start level segs
      = bestFit fuel start level segs := by
  induction fuel generalizing start with
  | zero => rfl
  | succ fuel ih =>
    rw [bestFit_src, bestFitSrc]
    simp only [ih, segsBitsSrc_eq]

end QR.CapstoneE1
