import QR.Proofs.SegBasic
/-
C10 (segmentation), part 3: the run marker `Spec.markLong` (fuel irrelevance, prefixes of `false` / of a
`true` run, marked positions need `n` trues) and its relation to `findRun` / `splitRuns`.
-/
namespace QR.Seg
open QR QR.Model
open QR.Spec (markLong)

theorem markLong_true_cons (n f : Nat) (t : List Bool) :
    markLong n (f + 1) (true :: t) =
      List.replicate ((t.takeWhile id).length + 1) (decide (n ≤ (t.takeWhile id).length + 1)) ++
        markLong n f (t.drop (t.takeWhile id).length) := by
  simp only [markLong, List.takeWhile_cons, id, if_true, List.length_cons, List.drop_succ_cons, ge_iff_le]

theorem markLong_nil (n f : Nat) : markLong n f [] = [] := by cases f <;> simp [markLong]

theorem markLong_fuel {n : Nat} : ∀ (f : Nat) (l : List Bool) (f' : Nat), l.length ≤ f → l.length ≤ f' →
    markLong n f l = markLong n f' l := by
  intro f
  induction f with
  | zero =>
    intro l f' h _
    have : l = [] := List.length_eq_zero_iff.mp (by omega)
    subst this; simp [markLong_nil]
  | succ f ih =>
    intro l f' h h'
    cases l with
    | nil => simp [markLong_nil]
    | cons b t =>
      cases f' with
      | zero => simp at h'
      | succ f' =>
        simp only [List.length_cons] at h h'
        cases b with
        | false => simp only [markLong]; rw [ih t f' (by omega) (by omega)]
        | true =>
          rw [markLong_true_cons, markLong_true_cons]
          congr 1
          apply ih <;> simp only [List.length_drop] <;> omega

theorem markLong_length {n : Nat} : ∀ (f : Nat) (l : List Bool), l.length ≤ f → (markLong n f l).length = l.length := by
  intro f
  induction f with
  | zero =>
    intro l h
    have : l = [] := List.length_eq_zero_iff.mp (by omega)
    subst this; simp [markLong_nil]
  | succ f ih =>
    intro l h
    cases l with
    | nil => simp [markLong_nil]
    | cons b t =>
      simp only [List.length_cons] at h
      cases b with
      | false => simp only [markLong, List.length_cons]; rw [ih t (by omega)]
      | true =>
        rw [markLong_true_cons, List.length_append, List.length_replicate, ih _ (by simp only [List.length_drop]; omega)]
        have : (t.takeWhile id).length ≤ t.length := by
          have := congrArg List.length (List.takeWhile_append_dropWhile (p := id) (l := t))
          simp only [List.length_append] at this; omega
        simp only [List.length_drop, List.length_cons]; omega

/-- a marked position exists only if the list has at least `n` trues -/
theorem markLong_mem_true {n : Nat} : ∀ (f : Nat) (l : List Bool), true ∈ markLong n f l → n ≤ l.count true := by
  intro f
  induction f with
  | zero => intro l h; simp [markLong] at h
  | succ f ih =>
    intro l h
    cases l with
    | nil => simp [markLong_nil] at h
    | cons b t =>
      cases b with
      | false =>
        simp only [markLong, List.mem_cons, Bool.true_eq_false, false_or] at h
        have := ih t h
        simpa using this
      | true =>
        rw [markLong_true_cons] at h
        have hsplit : t.takeWhile id ++ t.drop (t.takeWhile id).length = t := by
          have h1 := List.takeWhile_append_dropWhile (p := id) (l := t)
          have h2 : t.drop (t.takeWhile id).length = t.dropWhile id := by
            conv => lhs; arg 2; rw [← h1]
            exact List.drop_left
          rw [h2, h1]
        have hcnt : (t.takeWhile id).count true = (t.takeWhile id).length := by
          rw [List.count_eq_length]
          intro b hb; have := mem_takeWhile hb; simpa using this.symm
        have hc : t.count true = (t.takeWhile id).length + (t.drop (t.takeWhile id).length).count true := by
          conv => lhs; rw [← hsplit]
          rw [List.count_append, hcnt]
        rcases List.mem_append.mp h with h | h
        · have := (List.mem_replicate.mp h).2
          simp only [Bool.true_eq, decide_eq_true_eq] at this
          simp only [List.count_cons_self]; omega
        · have := ih _ h
          simp only [List.count_cons_self]; omega

/-- `markLong` with exactly enough fuel -/
def ML (n : Nat) (l : List Bool) : List Bool := markLong n l.length l

theorem markLong_eq_ML {n f : Nat} {l : List Bool} (h : l.length ≤ f) : markLong n f l = ML n l :=
  markLong_fuel f l l.length h (Nat.le_refl _)

theorem ML_length (n : Nat) (l : List Bool) : (ML n l).length = l.length := markLong_length _ _ (Nat.le_refl _)

theorem ML_nil (n : Nat) : ML n [] = [] := rfl

theorem ML_false_cons (n : Nat) (B : List Bool) : ML n (false :: B) = false :: ML n B := by
  simp only [ML, List.length_cons, markLong]

theorem ML_false_append (n k : Nat) (B : List Bool) :
    ML n (List.replicate k false ++ B) = List.replicate k false ++ ML n B := by
  induction k with
  | zero => simp
  | succ k ih => rw [List.replicate_succ, List.cons_append, ML_false_cons, ih, List.cons_append]

/-- the list is empty or starts with `false` -/
def StartsFalse (B : List Bool) : Prop := B = [] ∨ ∃ t, B = false :: t

theorem takeWhile_replicate_true {k : Nat} {B : List Bool} (hB : StartsFalse B) :
    (List.replicate k true ++ B).takeWhile id = List.replicate k true := by
  rw [List.takeWhile_append_of_pos (by intro a ha; rw [(List.mem_replicate.mp ha).2]; rfl)]
  rcases hB with rfl | ⟨t, rfl⟩ <;> simp

theorem ML_true_append (n k : Nat) (B : List Bool) (hB : StartsFalse B) :
    ML n (List.replicate (k + 1) true ++ B) = List.replicate (k + 1) (decide (n ≤ k + 1)) ++ ML n B := by
  have h1 : ML n (List.replicate (k + 1) true ++ B) = markLong n (k + B.length + 1) (true :: (List.replicate k true ++ B)) := by
    rw [List.replicate_succ, List.cons_append]
    exact markLong_fuel _ _ _ (Nat.le_refl _) (by simp only [List.length_cons, List.length_append, List.length_replicate]; omega)
  rw [h1, markLong_true_cons, takeWhile_replicate_true hB, List.length_replicate, List.drop_left' (List.length_replicate ..)]
  rw [markLong_eq_ML (by omega)]

theorem ML_mem_true {n : Nat} {l : List Bool} (h : true ∈ ML n l) : n ≤ l.count true := markLong_mem_true _ _ h

/-- nothing is marked when there are fewer than `n` trues -/
theorem ML_eq_false {n : Nat} {l : List Bool} (h : l.count true < n) : ML n l = List.replicate l.length false := by
  rw [List.eq_replicate_iff]
  refine ⟨ML_length n l, fun b hb => ?_⟩
  cases b with
  | false => rfl
  | true => have := ML_mem_true hb; omega

/-! ### map of a class over takeWhile / dropWhile pieces -/

theorem map_eq_replicate {p : Nat → Bool} {b : Bool} {l : List Nat} (h : ∀ c ∈ l, p c = b) :
    l.map p = List.replicate l.length b := by
  rw [List.eq_replicate_iff]
  refine ⟨List.length_map .., fun x hx => ?_⟩
  obtain ⟨c, hc, rfl⟩ := List.mem_map.mp hx
  exact h c hc

theorem startsFalse_map_dropWhile (p : Nat → Bool) (l : List Nat) {B : List Bool} (hB : StartsFalse B) :
    StartsFalse ((l.dropWhile p).map p ++ B) := by
  cases h : l.dropWhile p with
  | nil => simpa using hB
  | cons c t => right; exact ⟨t.map p ++ B, by simp [dropWhile_head h]⟩

/-! ### findRun and splitRuns against ML -/

theorem findRun_ML {p : Nat → Bool} {n : Nat} : ∀ (fuel : Nat) (data : List Nat) (B : List Bool),
    data.length < fuel → StartsFalse B →
    (findRun p n fuel data = none → ML n (data.map p ++ B) = List.replicate data.length false ++ ML n B) ∧
    (∀ pre run after, findRun p n fuel data = some (pre, run, after) →
      ML n (data.map p ++ B) =
        List.replicate pre.length false ++ (List.replicate run.length true ++ ML n (after.map p ++ B))) := by
  intro fuel
  induction fuel with
  | zero => intro data B h; omega
  | succ fuel ih =>
    intro data B hfuel hB
    have hsplit : data.takeWhile (fun c => !p c) ++ data.dropWhile (fun c => !p c) = data :=
      List.takeWhile_append_dropWhile
    have hsplit2 : (data.dropWhile (fun c => !p c)).takeWhile p ++ (data.dropWhile (fun c => !p c)).dropWhile p
        = data.dropWhile (fun c => !p c) := List.takeWhile_append_dropWhile
    generalize htw : data.takeWhile (fun c => !p c) = tw at hsplit
    generalize hrest : data.dropWhile (fun c => !p c) = rest at hsplit hsplit2
    generalize hrun : rest.takeWhile p = run at hsplit2
    generalize hafter : rest.dropWhile p = after at hsplit2
    have htwmap : tw.map p = List.replicate tw.length false := by
      apply map_eq_replicate
      intro c hc; rw [← htw] at hc
      have := mem_takeWhile hc; simpa using this
    have hrunmap : run.map p = List.replicate run.length true := by
      apply map_eq_replicate
      intro c hc; rw [← hrun] at hc; exact mem_takeWhile hc
    have hSF : StartsFalse (after.map p ++ B) := by
      rw [← hafter]; exact startsFalse_map_dropWhile p rest hB
    have hdata : ML n (data.map p ++ B) = List.replicate tw.length false ++ ML n (rest.map p ++ B) := by
      rw [← hsplit, List.map_append, htwmap, List.append_assoc, ML_false_append]
    have hlen : data.length = tw.length + rest.length := by rw [← hsplit, List.length_append]
    have hlen2 : rest.length = run.length + after.length := by rw [← hsplit2, List.length_append]
    simp only [findRun, htw, hrest, hrun, hafter]
    by_cases hre : rest = []
    · subst hre
      simp only [List.isEmpty_nil, if_true, true_implies, reduceCtorEq, false_implies, implies_true, and_true]
      rw [hdata, hlen]; simp
    · have hrunne : run ≠ [] := by
        rw [← hrun, ← hrest]; apply takeWhile_ne_nil_of_dropWhile_not; rw [hrest]; exact hre
      obtain ⟨k, hk⟩ : ∃ k, run.length = k + 1 := ⟨run.length - 1, by have := List.length_pos_iff.mpr hrunne; omega⟩
      have hrestML : ML n (rest.map p ++ B) =
          List.replicate run.length (decide (n ≤ run.length)) ++ ML n (after.map p ++ B) := by
        rw [← hsplit2, List.map_append, hrunmap, List.append_assoc, hk, ML_true_append _ _ _ hSF]
      simp only [List.isEmpty_iff, hre, if_false]
      by_cases hge : run.length ≥ n
      · simp only [hge, if_true, reduceCtorEq, false_implies, true_and, Option.some.injEq, Prod.mk.injEq, and_imp]
        intro pre run' after' e1 e2 e3
        subst e1 e2 e3
        rw [hdata, hrestML]; simp [hge]
      · simp only [hge, if_false]
        have hge' : decide (n ≤ run.length) = false := by simpa using hge
        obtain ⟨ih1, ih2⟩ := ih after B (by omega) hB
        cases hrec : findRun p n fuel after with
        | none =>
          simp only [true_implies, reduceCtorEq, false_implies, implies_true, and_true]
          rw [hdata, hrestML, ih1 hrec, hge', hlen, hlen2]
          simp only [← List.append_assoc, List.replicate_append_replicate]
        | some r =>
          obtain ⟨b, r, a⟩ := r
          simp only [reduceCtorEq, false_implies, true_and, Option.some.injEq, Prod.mk.injEq, and_imp]
          intro pre run' after' e1 e2 e3
          subst e1 e2 e3
          rw [hdata, hrestML, ih2 _ _ _ hrec, hge']
          simp only [List.length_append, ← List.append_assoc, List.replicate_append_replicate, Nat.add_assoc]

/-- positions of the flags of a chunk list -/
def flagsOf (cs : List (Bool × List Nat)) : List Bool := cs.flatMap fun x => List.replicate x.2.length x.1

theorem splitRuns_ML {p : Nat → Bool} {n : Nat} : ∀ (fuel : Nat) (data : List Nat) (B : List Bool),
    data.length ≤ fuel → StartsFalse B →
    ML n (data.map p ++ B) = flagsOf (splitRuns p n fuel data) ++ ML n B := by
  intro fuel
  induction fuel with
  | zero =>
    intro data B h _
    have : data = [] := List.length_eq_zero_iff.mp (by omega)
    subst this; simp [splitRuns, flagsOf]
  | succ fuel ih =>
    intro data B hfuel hB
    simp only [splitRuns]
    by_cases hd : data = []
    · subst hd; simp [flagsOf]
    · simp only [List.isEmpty_iff, hd, if_false]
      obtain ⟨f1, f2⟩ := findRun_ML (p := p) (n := n) (data.length + 1) data B (by omega) hB
      cases hf : findRun p n (data.length + 1) data with
      | none => simp only [flagsOf, List.flatMap_cons, List.flatMap_nil, List.append_nil]; exact f1 hf
      | some r =>
        obtain ⟨pre, run, after⟩ := r
        obtain ⟨_, _, _, _, hlt⟩ := findRun_some _ _ _ _ _ hf
        rw [f2 _ _ _ hf, ih after B (by omega) hB]
        by_cases hp : pre = []
        · subst hp; simp [flagsOf]
        · simp [flagsOf, hp]

/-- chunk lists alternate: an unflagged chunk is last or followed by a non-empty flagged chunk -/
def Alt : List (Bool × List Nat) → Prop
  | [] => True
  | x :: rest => (x.1 = false → rest = [] ∨ ∃ c r, rest = (true, c) :: r ∧ c ≠ []) ∧ Alt rest

theorem splitRuns_alt {p : Nat → Bool} {n : Nat} : ∀ (fuel : Nat) (data : List Nat), Alt (splitRuns p n fuel data) := by
  intro fuel
  induction fuel with
  | zero => intro data; simp only [splitRuns]; split <;> simp [Alt]
  | succ fuel ih =>
    intro data
    simp only [splitRuns]
    split
    · simp [Alt]
    · cases hf : findRun p n (data.length + 1) data with
      | none => simp [Alt]
      | some r =>
        obtain ⟨pre, run, after⟩ := r
        obtain ⟨_, hne, _, _, _⟩ := findRun_some _ _ _ _ _ hf
        by_cases hp : pre = []
        · subst hp; simp [Alt, ih after]
        · simp [Alt, hp, hne, ih after]

end QR.Seg
