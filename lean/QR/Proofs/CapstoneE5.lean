import QR.Proofs.SourceTieD2
import QR.Proofs.SourceTieD2b
import QR.Proofs.SourceTieB2
import QR.Proofs.SourceTieB3
import QR.Proofs.CapstoneE3
import QR.Proofs.History
/-
Helpers for the sequence-level capstone theorems of QR/Props/C11.lean and C18.lean: the operations of `Model.Op` EXECUTED BY
THE TRANSLATED CODE (`QR.Gen.Code.ob_*`, `make_*`, `get_matrix_*`, `print_*_compile_test`) on the object record `ob_QR` the
translated code works on (`stepSrc`, `runSrc`), and the simulation of the Model's `step` / `run` through `toOb fac`
(`stepSrc_sim`, `runSrc_sim`), by induction from the single-step bridges of QR/Proofs/SourceTieD2*.lean, SourceTieB2/B3.lean.
-/
namespace QR.CapstoneE5
open QR QR.Model QR.Gen.Code QR.SourceTieD2 QR.CapstoneE3

/-- the state the translated code works on: the process-wide blank cache and the attribute record of the object -/
abbrev StSrc (F : Type) := Global × ob_QR Seg (List Nat) F

/-- what a `make_image(image_factory=arg, **kwargs)` call of the sequence is made with, and the environment the translated
    `make_image` is parameterised by (`issubclass(., BaseImage)`, truth value of a keyword argument, whether PIL imports, the
    two default classes, the three class flags `needs_drawrect`, `needs_context`, `needs_processing`) - the same for every
    `.makeImage` of a sequence (`Model.Op.makeImage` carries no argument) -/
structure ImgEnv (F K : Type) where
  issub : F → Bool
  truthy : K → Bool
  Image : Bool
  PilImage : F
  PyPNGImage : F
  nd : F → Bool
  nc : F → Bool
  np : F → Bool
  arg : Option F
  kwargs : List (String × K)

/-- `kwargs` carries an embedded image (`embeded_image_path` / `embeded_image` truthy): the test of `make_image` that the Model
    does not have (hypothesis `hk` of `SourceTieD2.makeImage_src`) -/
def ImgEnv.embedded {F K : Type} (E : ImgEnv F K) : Bool :=
  ob_py_truthy_opt E.truthy (ob_py_kwargs_get E.kwargs "embeded_image_path") ||
    ob_py_truthy_opt E.truthy (ob_py_kwargs_get E.kwargs "embeded_image")

/-- what an operation hands back, as the translated code produces it: exceptions by class name, the image as the call of the
    image class (`ob_Call`) and the method calls on it (`ob_Ev`) -/
inductive OutSrc (F K : Type) where
  | unit
  | err (name : String)
  | matrix (m : List (List (Option Bool)))
  | image (im : ob_Call F K) (evs : List ob_Ev)
  | text (border : Nat) (m : List (List (Option Bool)))

/-- the outputs that hand something out (`Props.isProduct` on the translated side) -/
def OutSrc.isProduct {F K : Type} : OutSrc F K → Bool
  | .matrix _ => true
  | .image .. => true
  | .text .. => true
  | _ => false

/-- an object with the given `border`, `modules_count`, `box_size`, `modules` (the other attributes are irrelevant to the draw
    loop of `make_image`, see `draw_congr`) -/
def imgOb {F : Type} (fac : Option F) (b n : Nat) (bs : Int) (m : List (List (Option Bool))) : ob_QR Seg (List Nat) F :=
  { _version := .none, error_correction := 0, box_size := bs, _border := b, _mask_pattern := .none, image_factory := fac,
    modules := m, modules_count := n, data_cache := none, data_list := [] }

/-- the Model's output as the translated code produces it: the exception by name; the Model's `.image b n bs m` as the call
    `cls(b, n, bs, qrcode_modules=m, **kwargs)` of the class `make_image` chooses, with the draw calls of the translated draw
    loop over `m` -/
def outSrc {F K : Type} (E : ImgEnv F K) (fac : Option F) : Out → OutSrc F K
  | .unit => .unit
  | .err e => .err e.name
  | .matrix m => .matrix m
  | .image b n bs m =>
    let im : ob_Call F K :=
      { cls := chosenFactory E.Image E.PilImage E.PyPNGImage fac E.arg, pos := [(b : Int), (n : Int), bs],
        kw := [("qrcode_modules", m)], star := E.kwargs }
    .image im (ob_make_image_draw E.nd E.nc E.np (imgOb fac b n bs m) im)
  | .text b m => .text b m

/-- `self.make(fit)` on the object, through `CapstoneE3.makeSrc` (`make` as assembled from its translated pieces; its callees
    `best_fit`, `best_mask_pattern`, `makeImpl` are the Model's `bestFitS`, `bestMaskS`, `makeImplS`) -/
def makeObSrc {F : Type} (fac : Option F) (fit : Bool) : StSrc F → StSrc F × Except String Unit :=
  fun p => (((makeSrc fit p.1 (ofOb p.2)).1.1, toOb fac (makeSrc fit p.1 (ofOb p.2)).1.2), liftR (makeSrc fit p.1 (ofOb p.2)).2)

/-- result of a translated setter (or of a translated method that cannot raise, wrapped in `.ok`): the new object, or the
    exception and the object unchanged -/
def ofExc {F K : Type} (g : Global) (o : ob_QR Seg (List Nat) F) (r : Except String (ob_QR Seg (List Nat) F)) :
    StSrc F × OutSrc F K :=
  match r with
  | .ok o' => ((g, o'), .unit)
  | .error e => ((g, o), .err e)

/-- `if self.data_cache is None: self.make()` with the translated test `test` (`get_matrix_compile_test`,
    `print_ascii_compile_test`, `print_tty_compile_test`) and `make`'s default `fit` (`make_fit_default`) -/
def ensureSrc {F : Type} (test : Bool → Bool) (st : StSrc F) : StSrc F × Except String Unit :=
  if test st.2.data_cache.isNone then makeObSrc st.2.image_factory make_fit_default st else (st, .ok ())

/-- explicit fallback for an operation without translated counterpart: the Model's `step` on the decoded object -/
def modelFallback {F K : Type} (E : ImgEnv F K) (st : StSrc F) (op : Op) : StSrc F × OutSrc F K :=
  (((step (st.1, ofOb st.2) op).1.1, toOb st.2.image_factory (step (st.1, ofOb st.2) op).1.2),
    outSrc E st.2.image_factory (step (st.1, ofOb st.2) op).2)

/-- the other object of the process that compiles in `.otherCompile cfg segs` (a fresh object with the default border and
    box size, as in `Model.step`) -/
def otherOb (cfg : Cfg) (segs : List Seg) : QRState :=
  { version := cfg.version, level := cfg.level, mask := cfg.mask, border := 4, boxSize := 10, dataList := segs,
    dataCache := none, modules := #[#[]], modulesCount := 0 }

/-- **one operation of `Model.Op` executed by the translated code** on `(blank cache, object record)`:
    * `.addData` / `.addSeg` : `ob_add_data` (`util.optimal_data_chunks` / `util.QRData` = the Model's `optimalDataChunks` / segment
      constructor, as in `SourceTieD2.addData_src`; `.addSeg` with the default `optimize`)
    * `.clear` : `ob_clear`
    * `.make fit` : `makeObSrc` (= `CapstoneE3.makeSrc`, the translated `make`)
    * `.setVersion` / `.setMask` / `.setBorder` : `ob_set_version` (with `util.check_version` = `checkVersionOb`), `ob_set_mask_pattern`,
      `ob_set_border`, on integer / `None` arguments
    * `.setLevel` / `.setBoxSize` : plain attribute assignments in Python (no function in the source): the record update itself
    * `.getMatrix` : the translated pieces of `get_matrix` - `get_matrix_compile_test`, the implicit `make()`, `get_matrix_early`,
      `get_matrix_code` with `False` = `some false`
    * `.makeImage` : `ob_make_image` with `self.make` = `makeObSrc . make_fit_default`, in the environment `E`
    * `.printAscii` / `.printTty` : the translated implicit-compile tests `print_ascii_compile_test` / `print_tty_compile_test` and
      the implicit `make()`; the output is the Model's abstract `.text border modules` (the rendered text is outside `Model.Out`)
    * `.otherCompile` : `makeSrc` on a fresh object sharing the blank cache
    * `.mutateModules` : NOT library code (the caller writes into `qr.modules`): explicit fallback to the Model's `step` -/
def stepSrc {F K : Type} (E : ImgEnv F K) (st : StSrc F) (op : Op) : StSrc F × OutSrc F K :=
  match op with
  | .addData d n =>
      ofExc st.1 st.2 (.ok (ob_add_data (fun d k => optimalDataChunks d k.toNat)
        (fun d => ({ mode := optimalMode d, data := d } : Seg)) st.2 (.inr d) (n : Int)))
  | .addSeg x =>
      ofExc st.1 st.2 (.ok (ob_add_data (fun (d : Bytes) k => optimalDataChunks d k.toNat)
        (fun d => ({ mode := optimalMode d, data := d } : Seg)) st.2 (.inl x) ob_add_data_optimize_default))
  | .clear => ofExc st.1 st.2 (.ok (ob_clear st.2))
  | .make fit =>
      match makeObSrc st.2.image_factory fit st with
      | (st', .ok _) => (st', .unit)
      | (st', .error e) => (st', .err e)
  | .setVersion x => ofExc st.1 st.2 (ob_set_version checkVersionOb st.2 (optVal x))
  | .setLevel l => ((st.1, { st.2 with error_correction := (l : Int) }), .unit)
  | .setMask x => ofExc st.1 st.2 (ob_set_mask_pattern st.2 (optVal x))
  | .setBorder x => ofExc st.1 st.2 (ob_set_border st.2 (.int x))
  | .setBoxSize x => ((st.1, { st.2 with box_size := x }), .unit)
  | .getMatrix =>
      match ensureSrc get_matrix_compile_test st with
      | (st', .error e) => (st', .err e)
      | (st', .ok _) =>
        (st', .matrix (if get_matrix_early st'.2._border.toNat then st'.2.modules
                       else get_matrix_code (some false) st'.2.modules st'.2._border.toNat))
  | .mutateModules r c x => modelFallback E st (.mutateModules r c x)
  | .makeImage =>
      match ob_make_image E.issub E.truthy E.Image E.PilImage E.PyPNGImage E.nd E.nc E.np
          (makeObSrc st.2.image_factory make_fit_default) st.1 st.2 E.arg E.kwargs with
      | (st', .ok (im, evs)) => (st', .image im evs)
      | (st', .error e) => (st', .err e)
  | .printAscii =>
      match ensureSrc print_ascii_compile_test st with
      | (st', .error e) => (st', .err e)
      | (st', .ok _) => (st', .text st'.2._border.toNat st'.2.modules)
  | .printTty =>
      match ensureSrc print_tty_compile_test st with
      | (st', .error e) => (st', .err e)
      | (st', .ok _) => (st', .text 1 st'.2.modules)
  | .otherCompile cfg segs =>
      (((makeSrc cfg.fit st.1 (otherOb cfg segs)).1.1, st.2), .unit)

/-- a sequence of operations executed by the translated code: the fold of `stepSrc`, collecting the outputs (same shape as
    `Model.run`) -/
def runSrc {F K : Type} (E : ImgEnv F K) (st : StSrc F) (ops : List Op) : StSrc F × List (OutSrc F K) :=
  ops.foldl (fun (acc : StSrc F × List (OutSrc F K)) op => let (st', o) := stepSrc E acc.1 op; (st', acc.2 ++ [o])) (st, [])

/-! ### lemmas -/

theorem toOb_image_factory {F : Type} (fac : Option F) (s : QRState) : (toOb fac s).image_factory = fac := rfl
theorem toOb_data_cache {F : Type} (fac : Option F) (s : QRState) : (toOb fac s).data_cache = s.dataCache := rfl
theorem toOb_modules {F : Type} (fac : Option F) (s : QRState) : (toOb fac s).modules = s.modules.toLists := rfl
theorem toOb_border {F : Type} (fac : Option F) (s : QRState) : (toOb fac s)._border.toNat = s.border := by
  simp [toOb]

/-- the draw loop of `make_image` reads the object through `modules` and `modules_count` only -/
theorem draw_congr {D C F K : Type} (nd nc np : F → Bool) (o o' : ob_QR D C F) (im : ob_Call F K)
    (h1 : o.modules = o'.modules) (h2 : o.modules_count = o'.modules_count) :
    ob_make_image_draw nd nc np o im = ob_make_image_draw nd nc np o' im := by
  simp only [ob_make_image_draw, ob_make_image_row, ob_make_image_cell, h1, h2]

/-- the translated `make` on the image of a state is the Model's `makeS` (from `SourceTieB.makeS_src`) -/
theorem makeObSrc_toOb {F : Type} (fac : Option F) (fit : Bool) (g : Global) (s : QRState) :
    makeObSrc fac fit (g, toOb fac s) =
      (((makeS fit (g, s)).1.1, toOb fac (makeS fit (g, s)).1.2), liftR (makeS fit (g, s)).2) := by
  simp only [makeObSrc, ofOb_toOb, ← makeS_eq_makeSrc]

/-- `self.make()` as `make_image` calls it: the parameter of the bridge `makeImage_src` -/
theorem makeObSrc_default {F : Type} (fac : Option F) : makeObSrc fac make_fit_default = makeOb fac := by
  funext p
  simp only [makeObSrc, makeOb, ← makeS_eq_makeSrc, make_fit_default]

/-- an `Agrees` bridge, read as an equation on `ofExc` -/
theorem agrees_ofExc {F K : Type} (E : ImgEnv F K) (fac : Option F) (g : Global) (s : QRState)
    (r : Except String (ob_QR Seg (List Nat) F)) (res : St × Out) (h : Agrees fac g s r res) :
    (ofExc g (toOb fac s) r : StSrc F × OutSrc F K) = ((res.1.1, toOb fac res.1.2), outSrc E fac res.2) := by
  obtain ⟨⟨g', s'⟩, o⟩ := res
  cases o with
  | unit =>
    simp only [Agrees] at h
    obtain ⟨h1, h2⟩ := h
    subst h1; subst h2; rfl
  | err e =>
    simp only [Agrees] at h
    obtain ⟨h1, h2⟩ := h
    injection h2 with h2 h3
    subst h1; subst h2; subst h3; rfl
  | matrix m => exact absurd h (by simp [Agrees])
  | image b n bs m => exact absurd h (by simp [Agrees])
  | text b m => exact absurd h (by simp [Agrees])

/-- the implicit compile with a translated test that is the identity on `data_cache is None` -/
theorem ensureSrc_toOb {F : Type} (test : Bool → Bool) (htest : ∀ b, test b = b) (fac : Option F) (g : Global) (s : QRState) :
    ensureSrc test (g, toOb fac s) =
      (((ensureMade (g, s)).1.1, toOb fac (ensureMade (g, s)).1.2), liftR (ensureMade (g, s)).2) := by
  simp only [ensureSrc, htest, toOb_data_cache, toOb_image_factory, makeObSrc_toOb]
  cases hd : s.dataCache with
  | some d => simp [ensureMade, hd, liftR]
  | none => simp [ensureMade, hd, make_fit_default]

/-- `make_image` hands out an image of the state it leaves, or raises -/
theorem step_makeImage_out (g : Global) (s : QRState) :
    (∃ e, (step (g, s) .makeImage).2 = .err e) ∨
    (step (g, s) .makeImage).2 = .image (step (g, s) .makeImage).1.2.border (step (g, s) .makeImage).1.2.modulesCount
      (step (g, s) .makeImage).1.2.boxSize (step (g, s) .makeImage).1.2.modules.toLists := by
  simp only [step]
  cases checkBoxSize s.boxSize with
  | error e => exact Or.inl ⟨e, rfl⟩
  | ok u =>
    cases he : ensureMade (g, s) with
    | mk st r =>
      cases r with
      | error e => exact Or.inl ⟨e, rfl⟩
      | ok u => exact Or.inr rfl

/-- **single-step simulation**: an operation executed by the translated code on the image of a Model state is the Model's
    `step`, through `toOb fac` on the state and `outSrc` on the output.  Hypotheses of the `make_image` bridge, needed for
    `.makeImage` only: no embedded image in `kwargs` unless the level is H (`hk`); the `image_factory` argument, if given, is a
    subclass of `BaseImage` (`hf`). -/
theorem stepSrc_sim {F K : Type} (E : ImgEnv F K) (fac : Option F) (g : Global) (s : QRState) (op : Op)
    (hk : op = .makeImage → (E.embedded = false ∨ s.level = 2))
    (hf : op = .makeImage → ∀ f, E.arg = some f → E.issub f = true) :
    stepSrc E (g, toOb fac s) op =
      (((step (g, s) op).1.1, toOb fac (step (g, s) op).1.2), outSrc E fac (step (g, s) op).2) := by
  cases op with
  | addData d n => exact agrees_ofExc E fac g s _ _ (addData_src fac g s d n)
  | addSeg x => exact agrees_ofExc E fac g s _ _ (addSeg_src fac g s x _ _ _)
  | clear => exact agrees_ofExc E fac g s _ _ (stepClear_src fac g s)
  | setVersion x => exact agrees_ofExc E fac g s _ _ (setVersion_src fac g s x)
  | setMask x => exact agrees_ofExc E fac g s _ _ (setMask_src fac g s x)
  | setBorder x => exact agrees_ofExc E fac g s _ _ (setBorder_src fac g s x)
  | setLevel l => rfl
  | setBoxSize x => rfl
  | make fit =>
    simp only [stepSrc, step, toOb_image_factory, makeObSrc_toOb]
    cases h : makeS fit (g, s) with
    | mk st r => cases r <;> simp [liftR, outSrc]
  | getMatrix =>
    simp only [stepSrc, step, ensureSrc_toOb get_matrix_compile_test (fun _ => rfl)]
    cases h : ensureMade (g, s) with
    | mk st r => cases r <;> simp [liftR, outSrc, QR.SourceTieB.framedOpt_src, toOb_border, toOb_modules]
  | printAscii =>
    simp only [stepSrc, step, ensureSrc_toOb print_ascii_compile_test (fun _ => rfl)]
    cases h : ensureMade (g, s) with
    | mk st r => cases r <;> simp [liftR, outSrc, toOb_border, toOb_modules]
  | printTty =>
    simp only [stepSrc, step, ensureSrc_toOb print_tty_compile_test (fun _ => rfl)]
    cases h : ensureMade (g, s) with
    | mk st r => cases r <;> simp [liftR, outSrc, toOb_modules]
  | mutateModules r c x => simp only [stepSrc, modelFallback, ofOb_toOb, toOb_image_factory]
  | otherCompile cfg segs =>
    simp only [stepSrc, step, ← makeS_eq_makeSrc]
    cases h : makeS cfg.fit (g, otherOb cfg segs) with
    | mk st r =>
      simp only [otherOb] at h
      rw [h]; rfl
  | makeImage =>
    have hb := makeImage_src E.issub E.truthy E.Image E.PilImage E.PyPNGImage E.nd E.nc E.np fac g s E.arg E.kwargs
      (hk rfl) (hf rfl)
    simp only [stepSrc, toOb_image_factory, makeObSrc_default]
    rw [hb]
    rcases step_makeImage_out g s with ⟨e, he⟩ | hi
    · cases hst : step (g, s) .makeImage with
      | mk st' o =>
        rw [hst] at he
        simp only at he
        subst he
        rfl
    · cases hst : step (g, s) .makeImage with
      | mk st' o =>
        rw [hst] at hi
        simp only at hi
        subst hi
        simp only [outSrc]
        rw [draw_congr E.nd E.nc E.np (toOb fac st'.2) (imgOb fac st'.2.border st'.2.modulesCount st'.2.boxSize
          st'.2.modules.toLists) _ rfl rfl]

/-- every operation other than an assignment to `error_correction` leaves the level as it is -/
theorem step_level (g : Global) (hg : GInv g) (s : QRState) (op : Op) (hop : ∀ l, op = .setLevel l → l = s.level) :
    (step (g, s) op).1.2.level = s.level := by
  cases op with
  | addData d n => rfl
  | addSeg x => rfl
  | clear => rfl
  | setLevel l => exact hop l rfl
  | setBoxSize x => rfl
  | mutateModules r c x => rfl
  | setVersion x =>
    cases x with
    | none => rfl
    | some v => simp only [step]; cases checkVersion v <;> rfl
  | setMask x => simp only [step]; cases checkMaskPattern x <;> rfl
  | setBorder x => simp only [step]; cases checkBorder x <;> rfl
  | make fit =>
    simp only [step]
    cases h : makeS fit (g, s) with
    | mk st r =>
      obtain ⟨g', s'⟩ := st
      have := (makeS_pres hg h).2.1.level
      cases r <;> exact this
  | getMatrix =>
    simp only [step]
    cases h : ensureMade (g, s) with
    | mk st r =>
      obtain ⟨g', s'⟩ := st
      have := (ensureMade_inv hg h).2.2.2.1.level
      cases r <;> exact this
  | printAscii =>
    simp only [step]
    cases h : ensureMade (g, s) with
    | mk st r =>
      obtain ⟨g', s'⟩ := st
      have := (ensureMade_inv hg h).2.2.2.1.level
      cases r <;> exact this
  | printTty =>
    simp only [step]
    cases h : ensureMade (g, s) with
    | mk st r =>
      obtain ⟨g', s'⟩ := st
      have := (ensureMade_inv hg h).2.2.2.1.level
      cases r <;> exact this
  | makeImage =>
    simp only [step]
    cases checkBoxSize s.boxSize with
    | error e => rfl
    | ok u =>
      cases h : ensureMade (g, s) with
      | mk st r =>
        obtain ⟨g', s'⟩ := st
        have := (ensureMade_inv hg h).2.2.2.1.level
        cases r <;> exact this
  | otherCompile cfg segs => rfl

/-- the constructor stores the level it is given -/
theorem construct_level {version : Option Int} {level : Nat} {box border : Int} {mask : Option Int} {s0 : QRState}
    (h : construct version level box border mask = .ok s0) : s0.level = level := by
  unfold construct at h
  cases hb : checkBoxSize box with
  | error e => rw [hb] at h; cases h
  | ok u1 =>
    rw [hb, R.bind_ok] at h
    cases hbo : checkBorder border with
    | error e => rw [hbo] at h; cases h
    | ok u2 =>
      rw [hbo, R.bind_ok] at h
      cases hm : checkMaskPattern mask with
      | error e =>
        cases version with
        | none => simp only [hm, R.pure_eq, R.bind_ok, R.bind_error] at h; cases h
        | some v =>
          cases hv : checkVersion v with
          | error e => simp only [hv, R.bind_error] at h; cases h
          | ok u3 => simp only [hv, hm, R.bind_ok, R.bind_error] at h; cases h
      | ok u4 =>
        cases version with
        | none =>
          simp only [hm, R.pure_eq, R.bind_ok] at h
          injection h with h; subst h; rfl
        | some v =>
          cases hv : checkVersion v with
          | error e => simp only [hv, R.bind_error] at h; cases h
          | ok u3 =>
            simp only [hv, hm, R.pure_eq, R.bind_ok] at h
            injection h with h; subst h; rfl

/-- the hypothesis `hk` of the `make_image` bridge along a sequence started in state `s`: `kwargs` carries no embedded image, or the
    level is H (= 2, `constants.ERROR_CORRECT_H`) at the start and no operation of the sequence assigns another level -/
def EmbeddedOK {F K : Type} (E : ImgEnv F K) (s : QRState) (ops : List Op) : Prop :=
  E.embedded = false ∨ (s.level = 2 ∧ ∀ l, Op.setLevel l ∈ ops → l = 2)

theorem EmbeddedOK.take {F K : Type} {E : ImgEnv F K} {s : QRState} {ops : List Op} (h : EmbeddedOK E s ops) (n : Nat) :
    EmbeddedOK E s (ops.take n) :=
  h.imp id fun ⟨a, b⟩ => ⟨a, fun l hl => b l (List.mem_of_mem_take hl)⟩

private theorem runSrc_sim_acc {F K : Type} (E : ImgEnv F K)
    (hf : ∀ f, E.arg = some f → E.issub f = true) (fac : Option F) (ops : List Op) (g : Global) (s : QRState)
    (hk : E.embedded = false ∨ (GInv g ∧ s.level = 2 ∧ ∀ l, Op.setLevel l ∈ ops → l = 2))
    (acc : List Out) :
    ops.foldl (fun (acc : StSrc F × List (OutSrc F K)) op => let (st', o) := stepSrc E acc.1 op; (st', acc.2 ++ [o]))
        ((g, toOb fac s), acc.map (outSrc E fac)) =
      (let r := ops.foldl (fun (acc : St × List Out) op => let (st', o) := step acc.1 op; (st', acc.2 ++ [o])) ((g, s), acc)
       ((r.1.1, toOb fac r.1.2), r.2.map (outSrc E fac))) := by
  induction ops generalizing g s acc with
  | nil => rfl
  | cons op ops ih =>
    simp only [List.foldl_cons]
    rw [stepSrc_sim E fac g s op (fun _ => hk.imp id fun h => h.2.1) (fun _ => hf)]
    have hk' : E.embedded = false ∨ (GInv (step (g, s) op).1.1 ∧ (step (g, s) op).1.2.level = 2 ∧
        ∀ l, Op.setLevel l ∈ ops → l = 2) := by
      rcases hk with hk | ⟨hg, hl, hops⟩
      · exact Or.inl hk
      · refine Or.inr ⟨(step_inv g s op hg).1, ?_, fun l hl' => hops l (List.mem_cons_of_mem _ hl')⟩
        rw [step_level g hg s op (fun l hop => by rw [hl]; exact hops l (by rw [hop]; exact List.mem_cons_self))]
        exact hl
    have := ih (step (g, s) op).1.1 (step (g, s) op).1.2 hk' (acc ++ [(step (g, s) op).2])
    simp only [List.map_append, List.map_cons, List.map_nil] at this
    exact this

/-- **simulation**: a sequence of operations executed by the translated code from the image of a Model state ends in the image
    of the state `Model.run` ends in, with the same process-wide cache, and has produced the images (`outSrc`) of the outputs of
    `Model.run`.  By induction over `ops` from `stepSrc_sim`.  Hypotheses (used by the `.makeImage` steps only): `kwargs` carries no
    embedded image (`hk`; for the alternative `level = H` of the single-step bridge see `runSrc_sim_gen`), and the
    `image_factory` argument, if given, is a subclass of `BaseImage` (`hf`). -/
theorem runSrc_sim {F K : Type} (E : ImgEnv F K) (hk : E.embedded = false)
    (hf : ∀ f, E.arg = some f → E.issub f = true) (fac : Option F) (g : Global) (s : QRState) (ops : List Op) :
    runSrc E (g, toOb fac s) ops =
      (((run (g, s) ops).1.1, toOb fac (run (g, s) ops).1.2), (run (g, s) ops).2.map (outSrc E fac)) :=
  runSrc_sim_acc E hf fac ops g s (Or.inl hk) []

/-- **simulation, with the full hypothesis of the `make_image` bridge**: `kwargs` carries no embedded image, OR the level is H at the
    start and stays H (`EmbeddedOK`; the level is invariant under every operation but `.setLevel`, `step_level`, which needs the
    invariant `GInv` of the blank cache) -/
theorem runSrc_sim_gen {F K : Type} (E : ImgEnv F K) (hf : ∀ f, E.arg = some f → E.issub f = true) (fac : Option F)
    (g : Global) (hg : GInv g) (s : QRState) (ops : List Op) (hk : EmbeddedOK E s ops) :
    runSrc E (g, toOb fac s) ops =
      (((run (g, s) ops).1.1, toOb fac (run (g, s) ops).1.2), (run (g, s) ops).2.map (outSrc E fac)) :=
  runSrc_sim_acc E hf fac ops g s (hk.imp id fun h => ⟨hg, h⟩) []

/-- `toOb fac` is injective (left inverse `ofOb`): the Model state an object stands for is determined by the object -/
theorem toOb_injective {F : Type} (fac : Option F) {s s' : QRState} (h : toOb fac s = toOb fac s') : s = s' := by
  rw [← ofOb_toOb fac s, h, ofOb_toOb]

/-! ### a concrete environment and start state for the `example`s of the Props files -/

/-- every class is a subclass of `BaseImage`, needs `drawrect` without context and needs processing; PIL imports; `make_image()`
    is called without arguments -/
def exampleEnv : ImgEnv Unit Unit :=
  { issub := fun _ => true, truthy := fun _ => false, Image := true, PilImage := (), PyPNGImage := (), nd := fun _ => true,
    nc := fun _ => false, np := fun _ => true, arg := none, kwargs := [] }

/-- the state of `QRCode()` (all defaults) -/
def exampleState : QRState :=
  { version := 0, level := 0, mask := none, border := 4, boxSize := 10, dataList := [], dataCache := none, modules := #[#[]],
    modulesCount := 0 }

end QR.CapstoneE5
