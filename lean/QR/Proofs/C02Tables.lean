import QR.Model.Data
import QR.Spec.GF
import QR.Spec.Tables
import QR.Proofs.Finite
/-
C02 - Reed-Solomon: the translated tables are the ISO field, generator polynomials and Table 9 (finite part).
-/
namespace QR.Props
open QR

def allLevels : List Spec.Level := [.L, .M, .Q, .H]

/-- every EC-codewords-per-block value that occurs in ISO Table 9 -/
def eccLengths : List Nat := [7, 10, 13, 15, 16, 17, 18, 20, 22, 24, 26, 28, 30]

set_option maxRecDepth 100000 in
theorem eccLengths_complete :
    ∀ v, v < 40 → ∀ l ∈ allLevels, Spec.eccLen (v + 1) l ∈ eccLengths := by
  have h : (List.range 40).all (fun v => allLevels.all fun l => eccLengths.contains (Spec.eccLen (v + 1) l)) = true := by
    decide +kernel
  intro v hv l hl
  have := forall_mem_of_all (forall_lt_of_all h v hv) l hl
  simpa using this

set_option maxRecDepth 100000 in
/-- `EXP_TABLE[i] = α^i` in GF(2)[x]/(x^8+x^4+x^3+x^2+1) for the 255 exponents `gexp` can reach -/
theorem C02_field_exp : ∀ i, i < 255 → Gen.EXP_TABLE[i]? = some (Spec.gfpow Spec.alpha i) := by
  have h : (List.range 255).all (fun i => Gen.EXP_TABLE[i]? == some (Spec.gfpow Spec.alpha i)) = true := by decide +kernel
  intro i hi; simpa using forall_lt_of_all h i hi

set_option maxRecDepth 100000 in
/-- `LOG_TABLE` inverts `EXP_TABLE` on the non-zero field elements, with logarithms below 255 -/
theorem C02_field_log :
    ∀ a, a < 255 → (Gen.LOG_TABLE[a + 1]?).bind (fun k => if k < 255 then Gen.EXP_TABLE[k]? else none) = some (a + 1) := by
  have h : (List.range 255).all (fun a =>
      (Gen.LOG_TABLE[a + 1]?).bind (fun k => if k < 255 then Gen.EXP_TABLE[k]? else none) == some (a + 1)) = true := by
    decide +kernel
  intro a ha; simpa using forall_lt_of_all h a ha

set_option maxRecDepth 100000 in
set_option maxHeartbeats 2000000 in
/-- the look-up table holds, for every block shape of Table 9, exactly the ISO generator ∏_{i<e}(x − α^i) -/
theorem C02_genpoly : ∀ e ∈ eccLengths, Gen.rsPoly_LUT.lookup e = some (Spec.generator e) := by
  have h : eccLengths.all (fun e => Gen.rsPoly_LUT.lookup e == some (Spec.generator e)) = true := by decide +kernel
  intro e he; simpa using forall_mem_of_all h e he

set_option maxRecDepth 100000 in
set_option maxHeartbeats 2000000 in
/-- the Spec generators really are monic of degree e, have no zero coefficient and vanish at α^0..α^(e-1) -/
theorem C02_generator_roots : ∀ e ∈ eccLengths,
    (Spec.generator e).length = e + 1 ∧ (Spec.generator e).head? = some 1 ∧ (∀ c ∈ Spec.generator e, c ≠ 0 ∧ c < 256) ∧
    ∀ i, i < e → Spec.peval (Spec.gfpow Spec.alpha i) (Spec.generator e) = 0 := by
  have h : eccLengths.all (fun e =>
      (Spec.generator e).length == e + 1 && (Spec.generator e).head? == some 1 &&
      (Spec.generator e).all (fun c => c != 0 && decide (c < 256)) &&
      (List.range e).all (fun i => Spec.peval (Spec.gfpow Spec.alpha i) (Spec.generator e) == 0)) = true := by
    decide +kernel
  intro e he
  have := forall_mem_of_all h e he
  simp only [Bool.and_eq_true, beq_iff_eq, List.all_eq_true, bne_iff_ne, ne_eq, decide_eq_true_eq, List.mem_range] at this
  exact ⟨this.1.1.1, this.1.1.2, this.1.2, this.2⟩

set_option maxRecDepth 100000 in
/-- `base.rs_blocks` returns ISO Table 9 (block count, total and data codewords, short blocks first) for all
    160 (version, level) pairs -/
theorem C02_table : ∀ v, v < 40 → ∀ l ∈ allLevels,
    Model.rsBlocks (v + 1) l.indicator = .ok (Spec.isoBlocks (v + 1) l) := by
  have h : (List.range 40).all (fun v => allLevels.all fun l =>
      match Model.rsBlocks (v + 1) l.indicator with
      | .ok b => b == Spec.isoBlocks (v + 1) l
      | .error _ => false) = true := by decide +kernel
  intro v hv l hl
  have := forall_mem_of_all (forall_lt_of_all h v hv) l hl
  revert this
  cases Model.rsBlocks (v + 1) l.indicator with
  | ok b => intro h; simp at h; rw [h]
  | error e => intro h; simp at h

end QR.Props
