import QR.Gen.Code
import QR.Model.Penalty
/-
Translation validation for C08: the hand-written Model is PROVED equal to the expressions tools/translate.py (T2) extracts from
the Python AST of the current source on every run (lean/QR/Gen/Code.lean).  One file per property, so that a fragment that
changed (or became untranslatable) breaks the obligations of the property it belongs to and of no other.
-/
namespace QR.SourceTie
open QR QR.Model QR.Gen.Code

/-- penalty rule 3: window test, skip test and weight of BOTH scanners (rows and columns) -/
theorem rule3_eq : ∀ a0 a1 a2 a3 a4 a5 a6 a7 a8 a9 a10 : Bool,
    l3_row_cond a0 a1 a2 a3 a4 a5 a6 a7 a8 a9 a10 = cond3 a0 a1 a2 a3 a4 a5 a6 a7 a8 a9 a10 ∧
    l3_col_cond a0 a1 a2 a3 a4 a5 a6 a7 a8 a9 a10 = cond3 a0 a1 a2 a3 a4 a5 a6 a7 a8 a9 a10 ∧
    l3_row_skip a0 a1 a2 a3 a4 a5 a6 a7 a8 a9 a10 = a10 ∧ l3_col_skip a0 a1 a2 a3 a4 a5 a6 a7 a8 a9 a10 = a10 := by decide

theorem rule_weights : l3_row_weight = 40 ∧ l3_col_weight = 40 ∧ l2_weight = 3 ∧ l1_threshold = 5 ∧
    (∀ cnt len, l1_term cnt len = cnt * (len - 2)) ∧ (∀ n, l1_range n = (5, n + 1)) :=
  ⟨rfl, rfl, rfl, rfl, fun _ _ => rfl, fun _ => rfl⟩


end QR.SourceTie
