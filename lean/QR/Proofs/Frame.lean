import QR.Model.Render
import QR.Spec.Render
/-
C16 helper lemmas: `Model.getMatrix` is the pointwise-defined `Spec.frame`.
-/
namespace QR.Proofs.Frame
open QR

/-- a row of the frame, given pointwise -/
def frameRow (M : Spec.Mods) (n border r : Nat) : List Bool :=
  (List.range (n + 2 * border)).map fun c => Spec.framed M n border r c

theorem frame_eq_map (M : Spec.Mods) (n border : Nat) :
    Spec.frame M n border = (List.range (n + 2 * border)).map (frameRow M n border) := rfl

theorem map_range_eq_replicate {α} (k : Nat) (f : Nat → α) (a : α) (h : ∀ i, i < k → f i = a) :
    (List.range k).map f = List.replicate k a := by
  apply List.ext_getElem
  · simp
  · intro i h1 h2
    simp at h1
    simp [h i h1]

theorem range_three (b n : Nat) :
    List.range (n + 2 * b) = List.range b ++ (List.range n).map (b + ·) ++ (List.range b).map (b + n + ·) := by
  have : n + 2 * b = b + n + b := by omega
  rw [this, List.range_add, List.range_add]

/-- a light row of the frame (above or below the symbol) -/
theorem frameRow_outside (M : Spec.Mods) (n border r : Nat) (h : r < border ∨ border + n ≤ r) :
    frameRow M n border r = List.replicate (n + 2 * border) false := by
  apply map_range_eq_replicate
  intro c _
  unfold Spec.framed
  rcases h with h | h
  · have : decide (border ≤ r) = false := by simp; omega
    simp [this]
  · have : decide (r < border + n) = false := by simp; omega
    simp [this]

/-- a symbol row of the frame -/
theorem frameRow_inside (M : Spec.Mods) (n border i : Nat) (h : i < n) :
    frameRow M n border (border + i) =
      List.replicate border false ++ (List.range n).map (Spec.modAt M i) ++ List.replicate border false := by
  unfold frameRow
  rw [range_three, List.map_append, List.map_append, List.map_map, List.map_map]
  congr 1
  · congr 1
    · apply map_range_eq_replicate
      intro c hc
      unfold Spec.framed
      have : decide (border ≤ c) = false := by simp; omega
      simp [this]
    · apply List.map_congr_left
      intro c hc
      simp at hc
      simp [Spec.framed, h, hc]
  · apply map_range_eq_replicate
    intro c hc
    unfold Spec.framed
    have : decide (border + n + c < border + n) = false := by simp
    simp [this]

/-- block decomposition of the frame: `border` light rows, the symbol rows padded left and right, `border` light rows -/
theorem frame_eq_blocks (M : Spec.Mods) (n border : Nat) :
    Spec.frame M n border =
      List.replicate border (List.replicate (n + 2 * border) false)
      ++ (List.range n).map (fun i =>
            List.replicate border false ++ (List.range n).map (Spec.modAt M i) ++ List.replicate border false)
      ++ List.replicate border (List.replicate (n + 2 * border) false) := by
  rw [frame_eq_map, range_three, List.map_append, List.map_append, List.map_map, List.map_map]
  congr 1
  · congr 1
    · apply map_range_eq_replicate
      intro r hr
      exact frameRow_outside M n border r (Or.inl hr)
    · apply List.map_congr_left
      intro i hi
      simp at hi
      exact frameRow_inside M n border i hi
  · apply map_range_eq_replicate
    intro r hr
    exact frameRow_outside M n border _ (Or.inr (by simp))

/-- an n x n matrix is the table of its own entries -/
theorem square_eq_table (M : Spec.Mods) (n : Nat) (hlen : M.length = n) (hrow : ∀ row ∈ M, row.length = n) :
    M = (List.range n).map fun i => (List.range n).map (Spec.modAt M i) := by
  apply List.ext_getElem
  · simp [hlen]
  · intro i h1 h2
    have hr : (M[i]).length = n := hrow _ (List.getElem_mem h1)
    apply List.ext_getElem
    · simp [hr]
    · intro j h3 h4
      simp [Spec.modAt, h1, h3]

/-- **C16**: `get_matrix()` of an n x n symbol is the symbol framed by exactly `border` light modules -/
theorem getMatrix_eq_frame (M : List (List Bool)) (n border : Nat)
    (hlen : M.length = n) (hrow : ∀ row ∈ M, row.length = n) :
    Model.getMatrix M border = Spec.frame M n border := by
  have htab := square_eq_table M n hlen hrow
  by_cases hb : border = 0
  · subst hb
    rw [frame_eq_blocks]
    simpa [Model.getMatrix] using htab
  · rw [frame_eq_blocks]
    have hmap : ∀ f : List Bool → List Bool,
        M.map f = (List.range n).map (fun i => f ((List.range n).map (Spec.modAt M i))) := by
      intro f
      have := congrArg (List.map f) htab
      rw [List.map_map] at this
      exact this
    have hw : M.length + border * 2 = n + 2 * border := by omega
    simp only [Model.getMatrix, hb, if_false, hw]
    rw [hmap]

/-- number of rows of `get_matrix()` -/
theorem getMatrix_length (M : List (List Bool)) (n border : Nat)
    (hlen : M.length = n) (hrow : ∀ row ∈ M, row.length = n) :
    (Model.getMatrix M border).length = n + 2 * border := by
  rw [getMatrix_eq_frame M n border hlen hrow]
  simp [Spec.frame]

/-- every row of `get_matrix()` has n + 2*border modules -/
theorem getMatrix_row_length (M : List (List Bool)) (n border : Nat)
    (hlen : M.length = n) (hrow : ∀ row ∈ M, row.length = n) :
    ∀ row ∈ Model.getMatrix M border, row.length = n + 2 * border := by
  rw [getMatrix_eq_frame M n border hlen hrow]
  intro row h
  simp only [Spec.frame, List.mem_map] at h
  obtain ⟨r, _, rfl⟩ := h
  simp

theorem frame_getD (M : Spec.Mods) (n border r c : Nat) :
    ((Spec.frame M n border).getD r []).getD c false = Spec.framed M n border r c := by
  unfold Spec.frame
  by_cases hr : r < n + 2 * border
  · by_cases hc : c < n + 2 * border
    · simp [List.getD, hr, hc]
    · have : Spec.framed M n border r c = false := by
        unfold Spec.framed
        have : decide (c < border + n) = false := by simp; omega
        simp [this]
      simp [List.getD, hr, hc, this]
  · have : Spec.framed M n border r c = false := by
      unfold Spec.framed
      have : decide (r < border + n) = false := by simp; omega
      simp [this]
    simp [List.getD, hr, this]

/-- pointwise form, total in `r c` (outside the matrix both sides are `false`) -/
theorem getMatrix_getD (M : List (List Bool)) (n border : Nat)
    (hlen : M.length = n) (hrow : ∀ row ∈ M, row.length = n) (r c : Nat) :
    ((Model.getMatrix M border).getD r []).getD c false = Spec.framed M n border r c := by
  rw [getMatrix_eq_frame M n border hlen hrow, frame_getD]

end QR.Proofs.Frame
