/-
Helpers to lift complete kernel enumerations (`decide +kernel` on a Bool) to ∀-statements.
-/
namespace QR

theorem forall_lt_of_all {n : Nat} {p : Nat → Bool} (h : (List.range n).all p = true) :
    ∀ i, i < n → p i = true := by
  intro i hi
  exact (List.all_eq_true.mp h) i (List.mem_range.mpr hi)

theorem forall_mem_of_all {α} {l : List α} {p : α → Bool} (h : l.all p = true) :
    ∀ x ∈ l, p x = true := List.all_eq_true.mp h

end QR
