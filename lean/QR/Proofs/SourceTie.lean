import QR.Gen.Code
import QR.Model.Compile
import QR.Model.QRObject
import QR.Model.Render
import QR.Model.Svg
/-
Translation validation: the hand-written Model is PROVED equal to the expressions that tools/translate.py (T2) extracts
from the Python AST of the current source on every run (lean/QR/Gen/Code.lean).  An edit of one of these expressions in
/repo therefore breaks one of these proofs deterministically.
-/
namespace QR.SourceTie
open QR QR.Model QR.Gen.Code

/-- the eight lambdas of `util.mask_func` -/
theorem masks (i j : Nat) :
    mask_func_0 i j = maskFunc 0 i j ∧ mask_func_1 i j = maskFunc 1 i j ∧ mask_func_2 i j = maskFunc 2 i j ∧
    mask_func_3 i j = maskFunc 3 i j ∧ mask_func_4 i j = maskFunc 4 i j ∧ mask_func_5 i j = maskFunc 5 i j ∧
    mask_func_6 i j = maskFunc 6 i j ∧ mask_func_7 i j = maskFunc 7 i j :=
  ⟨rfl, rfl, rfl, rfl, rfl, rfl, rfl, rfl⟩

/-- `util.mode_sizes_for_version`: class boundaries -/
theorem sizeClass_eq (v : Nat) : mode_size_class v = sizeClass v := by
  unfold mode_size_class sizeClass
  by_cases h1 : v < 10 <;> by_cases h2 : v < 27 <;> simp [h1, h2]

/-- the validators raise exactly where the model's do -/
theorem checkVersion_eq (x : Int) : checkVersion x = if check_version_bad x then .error .valueError else .ok () := by
  unfold checkVersion check_version_bad
  by_cases h1 : x < 1 <;> by_cases h2 : x > 40 <;> simp [h1, h2]

theorem checkBoxSize_eq (x : Int) : checkBoxSize x = if check_box_size_bad x then .error .valueError else .ok () := by
  unfold checkBoxSize check_box_size_bad
  by_cases h : x ≤ 0 <;> simp [h]

theorem checkBorder_eq (x : Int) : checkBorder x = if check_border_bad x then .error .valueError else .ok () := by
  unfold checkBorder check_border_bad
  by_cases h : x < 0 <;> simp [h]

theorem checkMask_eq (x : Int) :
    checkMaskPattern (some x) = if check_mask_pattern_bad x then .error .valueError else .ok () := by
  unfold checkMaskPattern check_mask_pattern_bad
  by_cases h1 : x < 0 <;> by_cases h2 : x > 7 <;> simp [h1, h2]

/-- `BaseImage.pixel_box` and `is_eye` -/
theorem pixelBox_eq (border box row col : Nat) : pixel_box border box row col = pixelBox border box row col := rfl

theorem isEye_eq (width row col : Nat) : is_eye width row col = isEye width row col := by
  unfold is_eye isEye
  simp [Bool.or_assoc]

/-- penalty rule 3: window test, skip test and weight of BOTH scanners (rows and columns) -/
theorem rule3_eq : ∀ a0 a1 a2 a3 a4 a5 a6 a7 a8 a9 a10 : Bool,
    l3_row_cond a0 a1 a2 a3 a4 a5 a6 a7 a8 a9 a10 = cond3 a0 a1 a2 a3 a4 a5 a6 a7 a8 a9 a10 ∧
    l3_col_cond a0 a1 a2 a3 a4 a5 a6 a7 a8 a9 a10 = cond3 a0 a1 a2 a3 a4 a5 a6 a7 a8 a9 a10 ∧
    l3_row_skip a0 a1 a2 a3 a4 a5 a6 a7 a8 a9 a10 = a10 ∧ l3_col_skip a0 a1 a2 a3 a4 a5 a6 a7 a8 a9 a10 = a10 := by decide

theorem rule_weights : l3_row_weight = 40 ∧ l3_col_weight = 40 ∧ l2_weight = 3 ∧ l1_threshold = 5 ∧
    (∀ cnt len, l1_term cnt len = cnt * (len - 2)) ∧ (∀ n, l1_range n = (5, n + 1)) :=
  ⟨rfl, rfl, rfl, rfl, fun _ _ => rfl, fun _ => rfl⟩

/-- `best_mask_pattern`: eight candidates built with `makeImpl(True, i)`, update test of the running minimum -/
theorem pick_eq (st : Nat × Nat) (i lost : Nat) :
    pickMask st i lost = if pick_update i st.1 lost then (lost, i) else st := by
  unfold pickMask pick_update
  by_cases h1 : i = 0 <;> by_cases h2 : st.1 > lost <;> simp [h1, h2]

theorem candidates : mask_candidates = 8 ∧ mask_trial_call = "self.makeImpl(True, i)" := ⟨rfl, rfl⟩

/-- `map_data`: columns `range(n - 1, 0, -2)` with the `if col <= 6: col -= 1` adjustment -/
theorem pairCol_eq (n k : Nat) : pairCol n k = map_col_adjust (n - 1 - 2 * k) := by
  unfold pairCol map_col_adjust
  by_cases h : n - 1 - 2 * k ≤ 6 <;> simp [h]

theorem colRange (n : Int) : map_col_range n = (n - 1, 0, -2) := rfl

/-- `create_data`: overflow test, terminator length, pad alternation -/
theorem createData_pieces :
    (∀ len limit, overflow_test len limit = decide (len > limit)) ∧
    (∀ len limit, terminator_len len limit = min (limit - len) 4) ∧
    (∀ i, pad_first i = decide (i % 2 = 0)) ∧ pad_names = ("PAD0", "PAD1") :=
  ⟨fun _ _ => rfl, fun _ _ => rfl, fun _ => rfl, rfl⟩

/-- structure of `makeImpl` and `make`: which helpers are called, in which order -/
theorem structure_eq :
    makeImpl_calls = ["self.setup_position_probe_pattern", "self.setup_position_probe_pattern",
      "self.setup_position_probe_pattern", "self.setup_position_adjust_pattern", "self.setup_timing_pattern",
      "self.setup_type_info", "self.setup_type_number", "util.create_data", "self.map_data"] ∧
    make_calls = ["self.best_fit", "self.makeImpl", "self.best_mask_pattern", "self.makeImpl"] := by decide

end QR.SourceTie

namespace QR.SourceTie
open QR QR.Model QR.Gen.Code

/-- the pad loop written with the translated alternation test -/
theorem padBytes_eq (n : Nat) :
    padBytes n = (List.range n).flatMap fun i => bitsBE (if pad_first i then Gen.PAD0 else Gen.PAD1) 8 := by
  unfold padBytes pad_first
  congr 1
  funext i
  by_cases h : i % 2 = 0 <;> simp [h]

/-- `create_data` up to `create_bytes`, written with the overflow test and terminator length translated from the source -/
theorem dataBits_eq (version level : Nat) (segs : List Seg) :
    dataBits version level segs = (do
      let buffer ← segsBits (fun m => lengthInBits m version) segs
      let blocks ← rsBlocks version level
      let bitLimit := (blocks.map fun b => b.2 * 8).sum
      if overflow_test buffer.length bitLimit then .error .dataOverflow
      else
        let buffer := buffer ++ List.replicate (terminator_len buffer.length bitLimit) false
        let delimit := buffer.length % 8
        let buffer := if delimit ≠ 0 then buffer ++ List.replicate (8 - delimit) false else buffer
        let bytesToFill := (bitLimit - buffer.length) / 8
        pure (buffer ++ padBytes bytesToFill)) := by
  unfold dataBits overflow_test terminator_len
  simp only [decide_eq_true_eq]

end QR.SourceTie
