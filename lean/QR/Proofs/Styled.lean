import QR.Model.Styled
/-
Helper lemmas for C14: the colour logic of `QRColorMask.apply_mask` on exact pixels, and the embedded-image geometry.
Mathlib-free: core `Rat` lemmas suffice.
-/
namespace QR.Proofs.Styled
open QR QR.Model

/-! ### `int()` on an integer-valued rational -/

theorem truncInt_intCast (z : Int) : truncInt (z : Rat) = z := by
  unfold truncInt
  by_cases h : (z : Rat) ≥ 0
  · rw [if_pos h, Rat.floor_intCast]
  · rw [if_neg h, ← Rat.intCast_neg, Rat.floor_intCast, Int.neg_neg]

/-! ### `interp_color` at the two end points -/

theorem interpColor_zero (back fg : Colour) (h : back.length ≤ fg.length) : interpColor back fg 0 = back := by
  induction back generalizing fg with
  | nil => cases fg <;> rfl
  | cons c1 t1 ih =>
    cases fg with
    | nil => simp at h
    | cons c2 t2 =>
      have e : ((c2 : Int) : Rat) * 0 + (c1 : Rat) * (1 - 0) = (c1 : Rat) := by grind
      simp only [interpColor, e, truncInt_intCast]
      rw [ih t2 (by simpa using h)]

theorem interpColor_one (back fg : Colour) (h : back.length = fg.length) : interpColor back fg 1 = fg := by
  induction back generalizing fg with
  | nil => cases fg with
    | nil => rfl
    | cons _ _ => simp at h
  | cons c1 t1 ih =>
    cases fg with
    | nil => simp at h
    | cons c2 t2 =>
      have e : ((c2 : Int) : Rat) * 1 + (c1 : Rat) * (1 - 1) = (c2 : Rat) := by grind
      simp only [interpColor, e, truncInt_intCast]
      rw [ih t2 (by simpa using h)]

/-! ### `extrap_color` on exact pixels -/

/-- with paint = background no channel differs: the list of coefficients is empty (Python: `norm is None`) -/
theorem extrapColor_self (back pix : Colour) : extrapColor back back pix = [] := by
  induction back generalizing pix with
  | nil => rfl
  | cons c t ih =>
    cases pix with
    | nil => rfl
    | cons p ps => simp only [extrapColor, if_true, ih]

/-- some channel differs, so the list of coefficients is not empty -/
theorem extrapColor_ne_nil (back paint pix : Colour) (hl : back.length = paint.length)
    (hp : back.length ≤ pix.length) (hne : paint ≠ back) : extrapColor back paint pix ≠ [] := by
  induction back generalizing paint pix with
  | nil => cases paint with
    | nil => exact absurd rfl hne
    | cons _ _ => simp at hl
  | cons c1 t1 ih =>
    cases paint with
    | nil => simp at hl
    | cons c2 t2 =>
      cases pix with
      | nil => simp at hp
      | cons ci ti =>
        by_cases hc : c2 = c1
        · simp only [extrapColor, if_pos hc]
          apply ih t2 ti (by simpa using hl) (by simpa using hp)
          intro h; exact hne (by rw [hc, h])
        · simp only [extrapColor, if_neg hc]; exact List.cons_ne_nil _ _

/-- a pixel that is exactly the background has coefficient 0 in every differing channel -/
theorem extrapColor_back (back paint : Colour) : ∀ x ∈ extrapColor back paint back, x = 0 := by
  induction back generalizing paint with
  | nil => intro x hx; simp [extrapColor] at hx
  | cons c1 t1 ih =>
    cases paint with
    | nil => intro x hx; simp [extrapColor] at hx
    | cons c2 t2 =>
      by_cases hc : c2 = c1
      · simp only [extrapColor, if_pos hc]; exact ih t2
      · simp only [extrapColor, if_neg hc]
        intro x hx
        rcases List.mem_cons.mp hx with rfl | hx
        · rw [Int.sub_self, Rat.intCast_zero, Rat.div_def, Rat.zero_mul]
        · exact ih t2 x hx

/-- a pixel that is exactly the paint colour has coefficient 1 in every differing channel -/
theorem extrapColor_paint (back paint : Colour) : ∀ x ∈ extrapColor back paint paint, x = 1 := by
  induction back generalizing paint with
  | nil => intro x hx; simp [extrapColor] at hx
  | cons c1 t1 ih =>
    cases paint with
    | nil => intro x hx; simp [extrapColor] at hx
    | cons c2 t2 =>
      by_cases hc : c2 = c1
      · simp only [extrapColor, if_pos hc]; exact ih t2
      · simp only [extrapColor, if_neg hc]
        intro x hx
        rcases List.mem_cons.mp hx with rfl | hx
        · have : ((c2 - c1 : Int) : Rat) ≠ 0 := by
            rw [Ne, Rat.intCast_eq_zero_iff]; omega
          rw [Rat.div_def, Rat.mul_inv_cancel _ this]
        · exact ih t2 x hx

/-! ### the mean -/

theorem sum_all_zero (l : List Rat) (h : ∀ x ∈ l, x = 0) : l.sum = 0 := by
  induction l with
  | nil => rfl
  | cons a t ih =>
    rw [List.sum_cons, h a (List.mem_cons_self ..), ih (fun x hx => h x (List.mem_cons_of_mem _ hx)), Rat.add_zero]

theorem sum_all_one (l : List Rat) (h : ∀ x ∈ l, x = 1) : l.sum = (l.length : Rat) := by
  induction l with
  | nil => rfl
  | cons a t ih =>
    rw [List.sum_cons, h a (List.mem_cons_self ..), ih (fun x hx => h x (List.mem_cons_of_mem _ hx)),
      List.length_cons, Rat.natCast_add, Rat.add_comm]
    rfl

theorem mean_all_zero (l : List Rat) (hne : l ≠ []) (h : ∀ x ∈ l, x = 0) : mean l = some 0 := by
  unfold mean
  rw [if_neg (by simpa using hne), sum_all_zero l h, Rat.div_def, Rat.zero_mul]

theorem mean_all_one (l : List Rat) (hne : l ≠ []) (h : ∀ x ∈ l, x = 1) : mean l = some 1 := by
  unfold mean
  have hl : (l.length : Rat) ≠ 0 := by
    rw [Ne, Rat.natCast_eq_zero_iff]; exact fun h0 => hne (List.length_eq_zero_iff.mp h0)
  rw [if_neg (by simpa using hne), sum_all_one l h, Rat.div_def, Rat.mul_inv_cancel _ hl]

/-! ### B1 - B3 -/

/-- **B1** a pixel that is exactly the background stays exactly the background (every light module and every quiet
    zone pixel), whenever the paint colour differs from the background in at least one channel -/
theorem light_pixel (back paint fg : Colour) (hl : back.length = paint.length) (hfg : back.length ≤ fg.length)
    (hne : paint ≠ back) : applyMaskPixel back paint fg back = back := by
  unfold applyMaskPixel
  rw [mean_all_zero _ (extrapColor_ne_nil back paint back hl (Nat.le_refl _) hne) (extrapColor_back back paint)]
  exact interpColor_zero back fg hfg

/-- B1 needs neither `paint ≠ back` nor equal lengths: a background pixel stays background for *any* paint colour -/
theorem light_pixel_strong (back paint fg : Colour) (hfg : back.length ≤ fg.length) :
    applyMaskPixel back paint fg back = back := by
  unfold applyMaskPixel
  by_cases h : extrapColor back paint back = []
  · rw [h]; rfl
  · rw [mean_all_zero _ h (extrapColor_back back paint)]
    exact interpColor_zero back fg hfg

/-- **B2** a pixel that is exactly the paint colour becomes exactly the foreground (what the square drawers paint) -/
theorem dark_pixel (back paint fg : Colour) (hl : back.length = paint.length) (hfg : back.length = fg.length)
    (hne : paint ≠ back) : applyMaskPixel back paint fg paint = fg := by
  unfold applyMaskPixel
  rw [mean_all_one _ (extrapColor_ne_nil back paint paint hl (Nat.le_of_eq hl) hne) (extrapColor_paint back paint)]
  exact interpColor_one back fg hfg

/-- **B3** (the D4 defect) with paint colour = background colour every pixel becomes background: the image is blank -/
theorem paint_eq_back (back paint fg pix : Colour) (h : paint = back) : applyMaskPixel back paint fg pix = back := by
  subst h
  unfold applyMaskPixel
  rw [extrapColor_self]
  rfl

/-! ### B4 - embedded image geometry -/

/-- the offset is a whole number of modules and never exceeds half the image (no truncation in `total - offset*2`) -/
theorem logo_offset (total box w : Nat) :
    box ∣ (logoGeometry total box w).1 ∧ (logoGeometry total box w).1 * 2 ≤ total := by
  refine ⟨Nat.dvd_mul_left _ _, ?_⟩
  show ((total / 2 - w / 2) / box) * box * 2 ≤ total
  have := Nat.div_mul_le_self (total / 2 - w / 2) box
  omega

/-- **B4** logo geometry: the offset is a multiple of the box size, the logo is centred (equal margins on both sides,
    `offset + side + offset = total`, no hypothesis needed), and its side is within `[w - 1, w + 2*box - 1]`
    (both bounds are attained, see the examples below) -/
theorem logo_geometry (total box w : Nat) (hbox : 0 < box) (hw : w ≤ total) :
    box ∣ (logoGeometry total box w).1 ∧
    (logoGeometry total box w).1 * 2 + (logoGeometry total box w).2 = total ∧
    w ≤ (logoGeometry total box w).2 + 1 ∧ (logoGeometry total box w).2 + 1 ≤ w + 2 * box := by
  refine ⟨Nat.dvd_mul_left _ _, ?_⟩
  show ((total / 2 - w / 2) / box) * box * 2 + (total - ((total / 2 - w / 2) / box) * box * 2) = total ∧
    w ≤ (total - ((total / 2 - w / 2) / box) * box * 2) + 1 ∧
    (total - ((total / 2 - w / 2) / box) * box * 2) + 1 ≤ w + 2 * box
  have h1 := Nat.div_add_mod (total / 2 - w / 2) box
  have h2 := Nat.mod_lt (total / 2 - w / 2) hbox
  rw [Nat.mul_comm] at h1
  generalize ((total / 2 - w / 2) / box) * box = o at *
  generalize (total / 2 - w / 2) % box = m at *
  omega

/-- when the image width is a whole number of modules (it always is: `(modules + 2*border) * box`), so is the logo side -/
theorem logo_side_dvd (total box w : Nat) (h : box ∣ total) : box ∣ (logoGeometry total box w).2 := by
  show box ∣ total - ((total / 2 - w / 2) / box) * box * 2
  apply Nat.dvd_sub h
  rw [Nat.mul_right_comm]; exact Nat.dvd_mul_left _ _

end QR.Proofs.Styled
