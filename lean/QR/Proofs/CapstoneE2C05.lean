import QR.Proofs.CapstoneE2C04
import QR.Proofs.SourceTieT1
import QR.Proofs.SourceTieD6b
/-
Helpers for the capstone theorems `Cxx_source_capstone_*` of C02, C04, C05, C06 (QR/Props).
The `…Src` definitions below only give NAMES to the right-hand sides of the bridge theorems (`Cxx_source_*_src`): each is the
Python function as assembled from the fragments translated into `QR.Gen.Code` (regenerated from the current Python AST on
every run) by the hand-written loop skeletons of `QR/Proofs/SourceTie*.lean`, with every callee that is not translated in place
turned into an explicit PARAMETER.  The capstones instantiate these parameters with the Model function the bridge names (or
with another `…Src` function).  No proof content here except determinism of the `while` semantics and the unfolding lemmas.
-/
namespace QR.CapstoneE2
open QR QR.Model QR.Gen.Code QR.SourceTieA
/-! ### C05 -/

/-- the eight translated lambdas of `util.mask_func`, selected by `pattern` (the `if pattern == k: return lambda …` dispatch
    itself is not translated; a pattern outside 0..7 - where Python raises TypeError - selects the constant `false`) -/
def maskFuncSrc (pattern : Nat) : Nat → Nat → Bool :=
  [mask_func_0, mask_func_1, mask_func_2, mask_func_3, mask_func_4, mask_func_5, mask_func_6, mask_func_7].getD pattern
    (fun _ _ => false)

open QR.SourceTieD6 in
/-- the function patterns of a fresh symbol (cache miss in `QRCode.makeImpl`): empty matrix, the three translated
    `setup_position_probe_pattern` calls, translated `setup_position_adjust_pattern` at the translated
    `pattern_position(version)`, translated `setup_timing_pattern` (all three writers translated whole) -/
def blankSrc (version : Nat) : R Mat :=
  match lo_pattern_position Gen.PATTERN_POSITION_TABLE (version : Int) with
  | none => .error .indexError
  | some pos =>
    let n := version * 4 + 17
    let P := fun (m : Mat) (row col : Nat) =>
      lo_setup_position_probe_pattern isSetM setM (n : Int) (row : Int) (col : Int) m
    .ok (lo_setup_timing_pattern isSetM setM (n : Int)
          (lo_setup_position_adjust_pattern isSetM setM (pos.map Int.ofNat)
            (P (P (P (Mat.empty n) 0 0) (n - 7) 0) 0 (n - 7))))

open QR.SourceTieT in
/-- `QRCode.makeImpl(test, mask_pattern)` given the codewords, assembled from source-assembled parts only: `blankSrc`,
    `setupTypeInfoSrc`, `setupTypeNumberSrc` (BCH functions source-assembled over `digit`), the translated call arguments and
    version test, and the translated `map_data` skeleton `srcMapData` run with the translated mask lambdas (fuel
    `modules_count` for its `while True` loops; running out of fuel would be reported as `.error .other`) -/
def makeImplSrc (digit : Nat → Nat) (version level : Nat) (test : Bool) (mask : Nat) (data : List Nat) : R Mat := do
  let n := makeImpl_modules_count version
  let m ← blankSrc version
  let m := setupTypeInfoSrc (bchTypeInfoSrc digit) n level m (makeImpl_type_info_args test mask).1
    (makeImpl_type_info_args test mask).2
  let m := if makeImpl_type_number_test version
    then setupTypeNumberSrc (bchTypeNumberSrc digit) n version m (makeImpl_type_number_arg test) else m
  if (makeImpl_map_args mask).2 > 7 then .error .typeError
  else
    match srcMapData n (maskFuncSrc (makeImpl_map_args mask).2) data n m with
    | some M => .ok M
    | none => .error .other

theorem maskFuncSrc_eq (p : Nat) (hp : p < 8) : maskFuncSrc p = maskFunc p := by
  match p, hp with
  | 0, _ | 1, _ | 2, _ | 3, _ | 4, _ | 5, _ | 6, _ | 7, _ => rfl

end QR.CapstoneE2
