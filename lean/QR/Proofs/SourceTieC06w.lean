import QR.Gen.Code
/-
Translation validation, literals as they stand in the source: QRData.write (C06).
-/
namespace QR.SourceTie
open QR.Gen.Code

/-- QRData.write: digits in groups of 3 (widths from NUMBER_LENGTH), alphanumerics in pairs 45·a+b in 11 bits / singles in 6,
    bytes in 8 -/
theorem write_literals :
    write_steps = [3, 2] ∧
    write_puts = ["buffer.put(int(chars), bit_length)", "buffer.put(c, 8)",
      "buffer.put(ALPHA_NUM.find(chars[0]) * 45 + ALPHA_NUM.find(chars[1]), 11)", "buffer.put(ALPHA_NUM.find(chars), 6)"] := by decide

end QR.SourceTie
