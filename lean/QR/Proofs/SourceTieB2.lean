import QR.Gen.Code
import QR.Model.QRObject
/-
Translation validation, list B2: `QRCode.make` and `QRCode.makeImpl` as they stand in the source (tests, which helper is
called in which branch with which arguments; translated into `QR.Gen.Code.make_*` / `makeImpl_*`) against the object model
`Model.makeS` / `Model.makeImplS` / `Model.blankG` / `Model.blank` and the functional `Model.makeImpl`.
-/
namespace QR.SourceTieB
open QR QR.Model QR.Gen.Code

/-- which callee stands where -/
theorem make_literals :
    make_fit_default = true ∧ make_reset_target = "self.data_cache" ∧ make_fit_call = "self.best_fit" ∧
    make_none_call = "self.makeImpl" ∧ make_none_mask_call = "self.best_mask_pattern()" ∧
    make_some_call = "self.makeImpl" := by decide

theorem makeImpl_literals :
    makeImpl_cache_name = "precomputed_qr_blanks" ∧ makeImpl_hit_copy = "copy_2d_array" ∧
    makeImpl_copy_body = "[row[:] for row in x]" ∧ makeImpl_empty_fill = "None" ∧
    makeImpl_setup_calls = ["self.setup_position_probe_pattern", "self.setup_position_probe_pattern",
      "self.setup_position_probe_pattern", "self.setup_position_adjust_pattern", "self.setup_timing_pattern"] ∧
    makeImpl_store_value = "copy_2d_array(self.modules)" ∧ makeImpl_type_info_call = "self.setup_type_info" ∧
    makeImpl_type_number_call = "self.setup_type_number" ∧ makeImpl_create_call = "util.create_data" ∧
    (∀ v l, (makeImpl_create_args v l).2.2 = "self.data_list") ∧ makeImpl_map_call = "self.map_data" ∧
    (∀ m, (makeImpl_map_args m).1 = "self.data_cache") := by
  refine ⟨by decide, by decide, by decide, by decide, by decide, by decide, by decide, by decide, by decide,
    fun _ _ => rfl, by decide, fun _ => rfl⟩

/-- `make(fit)`: `self.data_cache = None` first; reading the `version` property (in the test when `fit` is false, in the
    call's argument otherwise) runs `best_fit()` when `_version is None`, so that the value read is never `None`
    (second argument of `make_fit_test`); then the re-fit from the current version; then `makeImpl(False, ...)` with the
    mask of `best_mask_pattern()` when `mask_pattern is None`, the configured mask otherwise -/
theorem makeS_src (fit : Bool) (g : Global) (s : QRState) :
    makeS fit (g, s) =
      (let s := { s with dataCache := make_reset_value }
       let (s, r1) := if s.version = 0 then bestFitS 4 0 s else (s, .ok s.version)
       match r1 with
       | .error e => ((g, s), .error e)
       | .ok _ =>
         let (s, r2) := if make_fit_test fit false then bestFitS 4 (make_fit_start s.version) s else (s, .ok s.version)
         match r2 with
         | .error e => ((g, s), .error e)
         | .ok _ =>
           if make_mask_test s.mask.isNone then
             match bestMaskS (g, s) with
             | (st, .error e) => (st, .error e)
             | (st, .ok m) => makeImplS make_none_test_arg m st
           else makeImplS make_some_test_arg (make_some_mask_arg (s.mask.getD 0)) (g, s)) := by
  unfold makeS
  simp only [make_reset_value, make_fit_test, make_fit_start, make_mask_test, make_none_test_arg, make_some_test_arg,
    make_some_mask_arg, Bool.or_false]
  rcases h1 : (if s.version = 0 then bestFitS 4 0 { s with dataCache := none }
      else ({ s with dataCache := none }, Except.ok s.version) : QRState × R Nat) with ⟨s1, r1⟩
  dsimp only
  cases r1 with
  | error e => rfl
  | ok v =>
    dsimp only
    rcases h2 : (if fit = true then bestFitS 4 s1.version s1 else (s1, Except.ok s1.version) : QRState × R Nat)
      with ⟨s2, r2⟩
    dsimp only
    cases r2 with
    | error e => rfl
    | ok v2 => cases hm : s2.mask <;> simp <;> rfl

/-- the cache of blanks: the membership test, the key read on a hit and the key stored on a miss -/
theorem blankG_src (g : Global) (version : Nat) :
    blankG g version =
      (if (g.blanks.lookup (makeImpl_cache_key version)).isSome then
        .ok (g, (g.blanks.lookup (makeImpl_hit_key version)).getD default)
      else do
        let b ← blank version
        pure ({ blanks := (makeImpl_store_key version, b) :: g.blanks }, b)) := by
  unfold blankG makeImpl_cache_key makeImpl_hit_key makeImpl_store_key
  cases h : g.blanks.lookup version <;> simp

/-- a cache miss: `modules_count x modules_count` cells of `None`, the three finder patterns at the translated positions,
    then alignment and timing patterns -/
theorem blank_src (version : Nat) :
    blank version = (do
      let n := makeImpl_modules_count version
      let m : Mat := Array.replicate (makeImpl_empty_dims n).1 (Array.replicate (makeImpl_empty_dims n).2 none)
      let m := (makeImpl_probe_args n).foldl (fun m p => setupProbe n m p.1.toNat p.2.toNat) m
      let pos ← patternPosition version
      pure (setupTiming n (setupAdjust m pos))) := by
  unfold blank makeImpl_modules_count makeImpl_empty_dims makeImpl_probe_args Mat.empty
  simp only [List.foldl_cons, List.foldl_nil]
  have h : ((((version * 4 + 17 : Nat) : Int) - 7).toNat) = version * 4 + 17 - 7 := by omega
  simp only [h]
  rfl

/-- `makeImpl(test, mask_pattern)` on the object: every statement of the source, in order -/
theorem makeImplS_src (test : Bool) (mask : Nat) (g : Global) (s : QRState) :
    makeImplS test mask (g, s) =
      (let n := makeImpl_modules_count s.version
       let s := { s with modulesCount := n }
       match blankG g s.version with
       | .error e => ((g, s), .error e)
       | .ok (g, b) =>
         let m := setupTypeInfo n s.level b (makeImpl_type_info_args test mask).1 (makeImpl_type_info_args test mask).2
         let m := if makeImpl_type_number_test s.version then setupTypeNumber n s.version m (makeImpl_type_number_arg test)
                  else m
         let s := { s with modules := m }
         match (if makeImpl_data_test s.dataCache.isNone then
                  createData (makeImpl_create_args s.version s.level).1 (makeImpl_create_args s.version s.level).2.1 s.dataList
                else .ok (s.dataCache.getD [])) with
         | .error e => ((g, s), .error e)
         | .ok d =>
           let s := { s with dataCache := some d }
           if (makeImpl_map_args mask).2 > 7 then ((g, s), .error .typeError)
           else ((g, { s with modules := mapData n m d (makeImpl_map_args mask).2 }), .ok ())) := by
  unfold makeImplS
  simp only [makeImpl_modules_count, makeImpl_type_info_args, makeImpl_type_number_test, makeImpl_type_number_arg,
    makeImpl_data_test, makeImpl_create_args, makeImpl_map_args, decide_eq_true_eq]
  cases hb : blankG g s.version with
  | error e => rfl
  | ok gb =>
    obtain ⟨g', b⟩ := gb
    cases hc : s.dataCache <;> simp <;> rfl

/-- the functional `makeImpl` (given the codewords) performs the same steps -/
theorem makeImpl_src (version level : Nat) (test : Bool) (mask : Nat) (data : List Nat) :
    makeImpl version level test mask data = (do
      let n := makeImpl_modules_count version
      let m ← blank version
      let m := setupTypeInfo n level m (makeImpl_type_info_args test mask).1 (makeImpl_type_info_args test mask).2
      let m := if makeImpl_type_number_test version then setupTypeNumber n version m (makeImpl_type_number_arg test) else m
      if (makeImpl_map_args mask).2 > 7 then .error .typeError
      else pure (mapData n m data (makeImpl_map_args mask).2)) := by
  unfold makeImpl
  simp only [makeImpl_modules_count, makeImpl_type_info_args, makeImpl_type_number_test, makeImpl_type_number_arg,
    makeImpl_map_args, decide_eq_true_eq]

end QR.SourceTieB
