import QR.Proofs.PenaltyRule3
/-
C08 - `Model.lostPoint` (python's `util.lost_point`) equals the ISO penalty `Spec.penalty`, rule by rule.
-/
namespace QR.Proofs.Penalty
open QR QR.Model

/-! ### shared: columns, sums -/

theorem columns_eq_cols (M : BMat) (n : Nat) : columns M n = Spec.cols M n := rfl

theorem sum_map_mul (f g : α → Nat) (c : Nat) (L : List α) (h : ∀ x, f x = c * g x) :
    (L.map f).sum = c * (L.map g).sum := by
  induction L with
  | nil => rfl
  | cons x t ih => simp only [List.map_cons, List.sum_cons, ih, h, Nat.mul_add]

theorem sum_map_congr (f g : α → Nat) (L : List α) (h : ∀ x ∈ L, f x = g x) :
    (L.map f).sum = (L.map g).sum := by
  induction L with
  | nil => rfl
  | cons x t ih =>
    simp only [List.map_cons, List.sum_cons]
    rw [h x (List.mem_cons_self), ih (fun y hy => h y (List.mem_cons_of_mem _ hy))]

/-! ### rule 3 -/

theorem level3_eq (M : BMat) (n : Nat) : level3 M n = Spec.N3 M n := by
  unfold level3 Spec.N3
  rw [columns_eq_cols]
  exact sum_map_mul _ _ 40 _ QR.Proofs.Rule3.rule3_line

/-! ### rule 2 -/

/-- the first cells of the two rows differ (or a row is empty) -/
def headsDiffer : List Bool → List Bool → Prop
  | a :: _, c :: _ => a ≠ c
  | _, _ => True

/-- invariant of the `next(iter)` skip: a skip is only pending when the current column is not monochrome -/
theorem l2scan_gen (skip : Bool) (r1 r2 : List Bool) (h : skip = true → headsDiffer r1 r2) :
    l2scan skip r1 r2 = 3 * Spec.blocks2 r1 r2 := by
  fun_induction l2scan skip r1 r2 with
  | case1 a b ta c d tc ih =>
    have hac : a ≠ c := h rfl
    rw [ih (by intro h; cases h), Spec.blocks2, if_neg (fun hh => hac hh.2.1)]
    omega
  | case2 skip a b ta c d tc hs hbd ih =>
    rw [ih (fun _ => hbd), Spec.blocks2, if_neg (by
      rintro ⟨h1, h2, h3⟩; exact hbd (h1.symm.trans h3))]
    omega
  | case3 skip a b ta c d tc hs hbd hba ih =>
    rw [ih (by intro h; cases h), Spec.blocks2, if_neg (by
      rintro ⟨h1, h2, h3⟩; exact hba h1.symm)]
    omega
  | case4 skip a b ta c d tc hs hbd hba hbc ih =>
    rw [ih (by intro h; cases h), Spec.blocks2, if_neg (by
      rintro ⟨h1, h2, h3⟩; exact hbc (h1.symm.trans h2))]
    omega
  | case5 skip a b ta c d tc hs hbd hba hbc ih =>
    have e1 : b = d := by simpa using hbd
    have e2 : b = a := by simpa using hba
    have e3 : b = c := by simpa using hbc
    rw [ih (by intro h; cases h), Spec.blocks2, if_pos ⟨e2.symm, e2.symm.trans e3, e2.symm.trans e1⟩]
    omega
  | case6 skip r1 r2 hne =>
    rw [Spec.blocks2]
    · intro a b ta c d tc h1 h2; exact hne a b ta c d tc h1 h2


theorem l2scan_eq (r1 r2 : List Bool) : l2scan false r1 r2 = 3 * Spec.blocks2 r1 r2 :=
  l2scan_gen false r1 r2 (by intro h; cases h)

theorem level2_eq (M : BMat) : level2 M = Spec.N2 M := by
  fun_induction level2 M with
  | case1 r1 r2 rest ih => rw [Spec.N2, ih, l2scan_eq]
  | case2 M h =>
    rw [Spec.N2]
    intro r1 r2 rest hh; exact h r1 r2 rest hh

/-! ### rule 4 -/

theorem count_true_eq (row : List Bool) : row.count true = (row.filter id).length := by
  induction row with
  | nil => rfl
  | cons x t ih => cases x <;> simp [ih]

theorem darkCount_eq_dark (M : BMat) : darkCount M = Spec.dark M := by
  unfold darkCount Spec.dark
  exact sum_map_congr _ _ _ (fun row _ => count_true_eq row)

theorem steps_count : ∀ q, q ≤ 10 → ((List.range 11).filter fun k => decide (k ≤ q)).length = q + 1 := by
  decide

theorem level4_eq (M : BMat) (n : Nat) (hn : 0 < n) (hd : darkCount M ≤ n * n) :
    level4 M n = Spec.N4 M n := by
  unfold level4 Spec.N4
  rw [← darkCount_eq_dark]
  have ht : 0 < n * n := Nat.mul_pos hn hn
  generalize n * n = t at *
  generalize darkCount M = d at *
  simp only []
  generalize hx : (if 20 * d ≥ 10 * t then 20 * d - 10 * t else 10 * t - 20 * d) = x
  have hx10 : x ≤ 10 * t := by rw [← hx]; split <;> omega
  have hq : x / t ≤ 10 := by
    apply Nat.div_le_of_le_mul; rw [Nat.mul_comm]; exact hx10
  have hf : ((List.range 11).filter fun k => decide (k * t ≤ x)) =
      ((List.range 11).filter fun k => decide (k ≤ x / t)) := by
    apply List.filter_congr
    intro k _
    exact decide_eq_decide.mpr (Nat.le_div_iff_mul_le ht).symm
  rw [hf, steps_count _ hq]
  omega

theorem count_le_length (row : List Bool) : row.count true ≤ row.length := List.count_le_length

theorem darkCount_le (M : BMat) (n : Nat) (hlen : M.length = n) (hrow : ∀ row ∈ M, row.length = n) :
    darkCount M ≤ n * n := by
  have : ∀ (M : BMat), (∀ row ∈ M, row.length = n) → darkCount M ≤ M.length * n := by
    intro M
    induction M with
    | nil => intro _; simp [darkCount]
    | cons r t ih =>
      intro h
      have h1 : r.count true ≤ n := by
        rw [← h r List.mem_cons_self]; exact List.count_le_length
      have h2 := ih (fun y hy => h y (List.mem_cons_of_mem _ hy))
      simp only [darkCount, List.map_cons, List.sum_cons, List.length_cons] at *
      rw [Nat.add_mul]; omega
  rw [← hlen] at *
  exact (this M hrow)

/-! ### rule 1 -/

/-- left-to-right run lengths with an accumulator: the maximal runs of `replicate len prev ++ xs` -/
def rl : Bool → Nat → List Bool → List Nat
  | _, len, [] => [len]
  | prev, len, x :: xs => if x = prev then rl prev (len + 1) xs else len :: rl x 1 xs

/-- add `len` to the first run -/
def bump (len : Nat) : List Nat → List Nat
  | [] => []
  | k :: ks => (k + len) :: ks

theorem runLengths_ne_nil (x : Bool) (t : List Bool) : Spec.runLengths (x :: t) ≠ [] := by
  induction t generalizing x with
  | nil => simp [Spec.runLengths]
  | cons y t ih =>
    rw [Spec.runLengths]
    cases h : Spec.runLengths (y :: t) with
    | nil => simp
    | cons k ks => simp only []; split <;> simp

theorem rl_eq_bump (prev : Bool) (len : Nat) (t : List Bool) :
    rl prev (len + 1) t = bump len (Spec.runLengths (prev :: t)) := by
  induction t generalizing prev len with
  | nil => simp [rl, Spec.runLengths, bump, Nat.add_comm]
  | cons x xs ih =>
    rw [rl, Spec.runLengths]
    by_cases hx : x = prev
    · subst hx
      rw [if_pos rfl, ih]
      cases h : Spec.runLengths (x :: xs) with
      | nil => exact absurd h (runLengths_ne_nil x xs)
      | cons k ks => simp only [if_true, bump]; congr 1; omega
    · rw [if_neg hx, ih x 0]
      cases h : Spec.runLengths (x :: xs) with
      | nil => exact absurd h (runLengths_ne_nil x xs)
      | cons k ks =>
        simp only []
        rw [if_neg (fun e => hx e.symm)]
        simp [bump, Nat.add_comm]

theorem runLengths_eq_rl (x : Bool) (t : List Bool) : Spec.runLengths (x :: t) = rl x 1 t := by
  rw [rl_eq_bump x 0 t]
  cases h : Spec.runLengths (x :: t) with
  | nil => rfl
  | cons k ks => simp [bump]

theorem runScan_eq_filter (prev : Bool) (len : Nat) (xs : List Bool) :
    runScan prev len xs = (rl prev len xs).filter fun L => decide (L ≥ 5) := by
  induction xs generalizing prev len with
  | nil =>
    rw [runScan, rl]
    by_cases h : len ≥ 5 <;> simp [h]
  | cons x xs ih =>
    rw [runScan, rl]
    by_cases hx : x = prev
    · rw [if_pos hx, if_pos hx, ih]
    · rw [if_neg hx, if_neg hx, ih]
      by_cases h : len ≥ 5 <;> simp [h]

theorem lineRuns_eq_filter (l : List Bool) :
    lineRuns l = (Spec.runLengths l).filter fun L => decide (L ≥ 5) := by
  cases l with
  | nil => rfl
  | cons x xs =>
    rw [lineRuns, runScan, if_pos rfl, runScan_eq_filter, runLengths_eq_rl]

theorem rl_le (prev : Bool) (len : Nat) (xs : List Bool) : ∀ k ∈ rl prev len xs, k ≤ len + xs.length := by
  induction xs generalizing prev len with
  | nil => intro k hk; simp [rl] at hk; omega
  | cons x xs ih =>
    intro k hk
    rw [rl] at hk
    simp only [List.length_cons]
    by_cases hx : x = prev
    · rw [if_pos hx] at hk
      have := ih _ _ k hk; omega
    · rw [if_neg hx] at hk
      cases hk with
      | head => omega
      | tail _ hk => have := ih _ _ k hk; omega

theorem runLengths_le (l : List Bool) : ∀ k ∈ Spec.runLengths l, k ≤ l.length := by
  cases l with
  | nil => intro k hk; simp [Spec.runLengths] at hk
  | cons x xs =>
    intro k hk
    rw [runLengths_eq_rl] at hk
    have := rl_le _ _ _ k hk
    simp only [List.length_cons]; omega

/-- every run the Python loop records is between 5 and the line length -/
theorem lineRuns_bounds (l : List Bool) : ∀ k ∈ lineRuns l, 5 ≤ k ∧ k ≤ l.length := by
  intro k hk
  rw [lineRuns_eq_filter, List.mem_filter] at hk
  exact ⟨by simpa using hk.2, runLengths_le l k hk.1⟩

/-- per line: the recorded runs, each weighted `L - 2`, give the ISO line score -/
theorem lineRuns_score (l : List Bool) : ((lineRuns l).map fun L => L - 2).sum = Spec.n1Line l := by
  rw [lineRuns_eq_filter, Spec.n1Line]
  induction Spec.runLengths l with
  | nil => rfl
  | cons k ks ih =>
    by_cases h : k ≥ 5
    · rw [List.filter_cons_of_pos (by simpa using h)]
      simp only [List.map_cons, List.sum_cons, ih, if_pos h]
    · rw [List.filter_cons_of_neg (by simpa using h)]
      simp only [List.map_cons, List.sum_cons, ih, if_neg h, Nat.zero_add]

/-- reading one length off the histogram -/
theorem hist_single (x m : Nat) :
    ((List.range m).map fun k => (if x = k + 5 then 1 else 0) * (k + 5 - 2)).sum =
      if 5 ≤ x ∧ x < m + 5 then x - 2 else 0 := by
  induction m with
  | zero => simp; omega
  | succ m ih =>
    rw [List.range_succ, List.map_append, List.sum_append, ih]
    simp only [List.map_cons, List.map_nil, List.sum_cons, List.sum_nil]
    by_cases h1 : x = m + 5
    · subst h1; simp
    · rw [if_neg h1]
      by_cases h2 : 5 ≤ x ∧ x < m + 5
      · rw [if_pos h2, if_pos ⟨h2.1, by omega⟩]; omega
      · rw [if_neg h2, if_neg (by omega)]; omega

theorem sum_map_add (f g : Nat → Nat) (L : List Nat) :
    (L.map fun k => f k + g k).sum = (L.map f).sum + (L.map g).sum := by
  induction L with
  | nil => rfl
  | cons x t ih => simp only [List.map_cons, List.sum_cons, ih]; omega

/-- the histogram sum equals the plain sum when every recorded length is in `5..n` -/
theorem hist_sum (runs : List Nat) (n : Nat) (h : ∀ x ∈ runs, 5 ≤ x ∧ x ≤ n) :
    ((List.range (n + 1 - 5)).map fun k => runs.count (k + 5) * (k + 5 - 2)).sum =
      (runs.map fun L => L - 2).sum := by
  induction runs with
  | nil =>
    simp only [List.count_nil, Nat.zero_mul, List.map_nil, List.sum_nil]
    generalize List.range (n + 1 - 5) = L
    induction L with
    | nil => rfl
    | cons x t ih => simp only [List.map_cons, List.sum_cons, ih, Nat.add_zero]
  | cons x t ih =>
    have hx := h x List.mem_cons_self
    have e : ∀ k, (x :: t).count (k + 5) * (k + 5 - 2) =
        t.count (k + 5) * (k + 5 - 2) + (if x = k + 5 then 1 else 0) * (k + 5 - 2) := by
      intro k
      rw [List.count_cons, Nat.add_mul]
      congr 2
      by_cases hk : x = k + 5 <;> simp [hk]
    rw [sum_map_congr _ _ _ (fun k _ => e k), sum_map_add, ih (fun y hy => h y (List.mem_cons_of_mem _ hy)),
      hist_single, if_pos (by omega)]
    simp only [List.map_cons, List.sum_cons]; omega

theorem sum_flatMap (g : α → List Nat) (h : Nat → Nat) (L : List α) :
    ((L.flatMap g).map h).sum = (L.map fun l => ((g l).map h).sum).sum := by
  induction L with
  | nil => rfl
  | cons x t ih => simp only [List.flatMap_cons, List.map_append, List.sum_append, List.map_cons, List.sum_cons, ih]

theorem col_length (M : BMat) (c : Nat) : (Spec.col M c).length = M.length := by
  simp [Spec.col]

theorem level1_eq (M : BMat) (n : Nat) (hlen : M.length = n) (hrow : ∀ row ∈ M, row.length = n) :
    level1 M n = Spec.N1 M n := by
  unfold level1 Spec.N1
  rw [columns_eq_cols]
  simp only []
  have hl : ∀ l ∈ M ++ Spec.cols M n, l.length = n := by
    intro l hl
    rcases List.mem_append.mp hl with h | h
    · exact hrow l h
    · simp only [Spec.cols, List.mem_map] at h
      obtain ⟨c, _, rfl⟩ := h
      rw [col_length, hlen]
  rw [hist_sum _ n, sum_flatMap]
  · exact sum_map_congr _ _ _ (fun l _ => lineRuns_score l)
  · intro x hx
    obtain ⟨l, hlm, hxl⟩ := List.mem_flatMap.mp hx
    have := lineRuns_bounds l x hxl
    rw [hl l hlm] at this
    exact this

/-! ### all four rules -/

theorem lostPoint_eq_penalty (M : BMat) (n : Nat) (hn : 1 ≤ n) (hlen : M.length = n)
    (hrow : ∀ row ∈ M, row.length = n) : lostPoint M = Spec.penalty M := by
  unfold lostPoint Spec.penalty
  simp only []
  rw [hlen, level1_eq M n hlen hrow, level2_eq, level3_eq, level4_eq M n hn (darkCount_le M n hlen hrow)]

end QR.Proofs.Penalty
