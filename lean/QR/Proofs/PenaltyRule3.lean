import QR.Model.Penalty
import QR.Spec.Penalty
/-
C08 - Model.lostPoint = the ISO penalty for every matrix.  Rule 3 (Horspool-skipping scanner = plain window count)
is proved here for every line; rules 1, 2, 4 and the 2-D composition are under construction.
-/
namespace QR.Proofs.Rule3
open QR QR.Model

theorem windows3_short (l : List Bool) (h : l.length < 11) : Spec.windows3 l = 0 := by
  induction l with
  | nil => rfl
  | cons x t ih =>
    simp only [List.length_cons] at h
    have h1 : ((x :: t).take 11).length < 11 := by simp [List.length_take]; omega
    have e1 : (x :: t).take 11 ≠ Spec.pat1 := fun e => by rw [e] at h1; simp [Spec.pat1] at h1
    have e2 : (x :: t).take 11 ≠ Spec.pat2 := fun e => by rw [e] at h1; simp [Spec.pat2] at h1
    rw [Spec.windows3, if_neg (by intro h; cases h with | inl h => exact e1 h | inr h => exact e2 h), ih (by omega)]

theorem cond3_eq : ∀ a0 a1 a2 a3 a4 a5 a6 a7 a8 a9 a10 : Bool,
    decide ([a0,a1,a2,a3,a4,a5,a6,a7,a8,a9,a10] = Spec.pat1 ∨ [a0,a1,a2,a3,a4,a5,a6,a7,a8,a9,a10] = Spec.pat2)
      = cond3 a0 a1 a2 a3 a4 a5 a6 a7 a8 a9 a10 := by decide

theorem skip_sound : ∀ a1 a2 a3 a4 a5 a6 a7 a8 a9 a11 : Bool,
    cond3 a1 a2 a3 a4 a5 a6 a7 a8 a9 true a11 = false := by decide

theorem windows3_cons11 (a0 a1 a2 a3 a4 a5 a6 a7 a8 a9 a10 : Bool) (t : List Bool) :
    Spec.windows3 (a0::a1::a2::a3::a4::a5::a6::a7::a8::a9::a10::t) =
      (if cond3 a0 a1 a2 a3 a4 a5 a6 a7 a8 a9 a10 then 1 else 0) + Spec.windows3 (a1::a2::a3::a4::a5::a6::a7::a8::a9::a10::t) := by
  rw [Spec.windows3]
  have hc := cond3_eq a0 a1 a2 a3 a4 a5 a6 a7 a8 a9 a10
  have ht : (a0::a1::a2::a3::a4::a5::a6::a7::a8::a9::a10::t).take 11 = [a0,a1,a2,a3,a4,a5,a6,a7,a8,a9,a10] := by
    simp [List.take]
  rw [ht]
  by_cases hp : ([a0,a1,a2,a3,a4,a5,a6,a7,a8,a9,a10] = Spec.pat1 ∨ [a0,a1,a2,a3,a4,a5,a6,a7,a8,a9,a10] = Spec.pat2)
  · have : cond3 a0 a1 a2 a3 a4 a5 a6 a7 a8 a9 a10 = true := by rw [← hc]; exact decide_eq_true hp
    rw [if_pos hp, this]; rfl
  · have : cond3 a0 a1 a2 a3 a4 a5 a6 a7 a8 a9 a10 = false := by rw [← hc]; exact decide_eq_false hp
    rw [if_neg hp, this]; rfl

theorem windows3_after_dark (a1 a2 a3 a4 a5 a6 a7 a8 a9 : Bool) (t : List Bool) :
    Spec.windows3 (a1::a2::a3::a4::a5::a6::a7::a8::a9::true::t) = Spec.windows3 (a2::a3::a4::a5::a6::a7::a8::a9::true::t) := by
  cases t with
  | nil => rw [windows3_short _ (by simp), windows3_short _ (by simp)]
  | cons a11 t => rw [windows3_cons11, skip_sound]; simp

/-- rule 3, every line of every length: the scanner with the Horspool skip scores 40 per ISO window -/
theorem rule3_line (l : List Bool) : l3scan l = 40 * Spec.windows3 l := by
  induction l using l3scan.induct with
  | case1 a0 a1 a2 a3 a4 a5 a6 a7 a8 a9 a10 t ih1 ih2 =>
    rw [l3scan, windows3_cons11]
    cases a10 with
    | true =>
      simp only [if_true]
      rw [ih1, windows3_after_dark]
      split <;> omega
    | false =>
      simp only [Bool.false_eq_true, if_false]
      rw [ih2]
      split <;> omega
  | case2 l h =>
    rw [l3scan]
    · rw [windows3_short]
      match l, h with
      | [], _ | [_], _ | [_,_], _ | [_,_,_], _ | [_,_,_,_], _ | [_,_,_,_,_], _ | [_,_,_,_,_,_], _
      | [_,_,_,_,_,_,_], _ | [_,_,_,_,_,_,_,_], _ | [_,_,_,_,_,_,_,_,_], _ | [_,_,_,_,_,_,_,_,_,_], _ => simp
      | a0::a1::a2::a3::a4::a5::a6::a7::a8::a9::a10::t, h => exact absurd rfl (h a0 a1 a2 a3 a4 a5 a6 a7 a8 a9 a10 t)
    · exact h

end QR.Proofs.Rule3
