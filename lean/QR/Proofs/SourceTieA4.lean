import QR.Gen.Code
import QR.Model.GF
import QR.Proofs.Except
/-
Translation validation, list A4: `base.Polynomial.__init__`, `__mul__`, `__mod__`.
-/
namespace QR.SourceTieA
open QR QR.Model QR.Gen.Code

/-! ### Polynomial.__init__ -/

/-- Python `v = v0; for v in <indices>: if brk(v): break` : the value of `v` after the loop -/
def forBreak (brk : Nat → Bool) : List Nat → Nat → Nat
  | [], v => v
  | i :: rest, _ => if brk i then i else forBreak brk rest i

theorem stripZ_eq : ∀ (q p : List Nat) (v : Nat), q ≠ [] →
    (p ++ q).drop (forBreak (fun o => poly_init_break ((p ++ q).getD o 0)) (List.range' p.length q.length) v) = stripZ q
  | [], _, _, h => absurd rfl h
  | [a], p, v, _ => by
    simp only [List.length_cons, List.length_nil, List.range'_succ, List.range'_zero, forBreak, ite_self]
    simp [stripZ]
  | a :: b :: t, p, v, _ => by
    have ih := stripZ_eq (b :: t) (p ++ [a]) p.length (by simp)
    have e1 : p ++ [a] ++ b :: t = p ++ a :: b :: t := by simp
    have e2 : (p ++ [a]).length = p.length + 1 := by simp
    rw [e1, e2] at ih
    rw [show (a :: b :: t).length = (b :: t).length + 1 from rfl, List.range'_succ]
    simp only [forBreak]
    have hget : (p ++ a :: b :: t).getD p.length 0 = a := by simp
    simp only [hget]
    by_cases ha : a ≠ 0
    · have : poly_init_break a = true := by simp [poly_init_break, ha]
      rw [if_pos this]
      simp [stripZ, ha]
    · have : poly_init_break a = false := by simp [poly_init_break] at ha ⊢; exact ha
      rw [this]
      simp only [Bool.false_eq_true, if_false]
      rw [ih]
      simp only [stripZ, if_neg ha]

/-- **Polynomial.__init__**: `Model.polyMk num shift` is: the translated emptiness guard (`if not num: raise Exception`),
    then `num[offset:] + [0] * shift` where `offset` is the value left by the translated scan loop
    `offset = 0; for offset in range(len(num)): if num[offset] != 0: break`. -/
theorem polyMk_src (num : List Nat) (shift : Nat) :
    poly_init_exception = "Exception" ∧
    polyMk num shift =
      if poly_init_raises num.length then .error .other
      else
        let rng := poly_init_range num.length
        let offset := forBreak (fun o => poly_init_break (num.getD o 0)) (List.range' rng.1 (rng.2 - rng.1)) poly_init_offset0
        .ok (num.drop (poly_init_drop offset) ++ List.replicate (poly_init_pad shift).2 (poly_init_pad shift).1) := by
  refine ⟨rfl, ?_⟩
  unfold polyMk poly_init_raises
  cases num with
  | nil => simp
  | cons a t =>
    have h := stripZ_eq (a :: t) [] poly_init_offset0 (by simp)
    simp only [List.nil_append, List.length_nil] at h
    simp only [poly_init_range, poly_init_drop, poly_init_pad, Nat.sub_zero]
    rw [h]
    simp

/-! ### Polynomial.__mul__ -/

/-- **Polynomial.__mul__**: allocation `[0] * (len(self) + len(other) - 1)` (a negative count gives the empty list, hence
    `Int.toNat`), the double `enumerate` loop with the translated index `i + j`, exponent `glog(item) + glog(other_item)`,
    update `^=`, and `Polynomial(num, 0)`. -/
theorem polyMul_src (self other : List Nat) :
    poly_mul_glog_args = ["self", "other"] ∧
    polyMul self other =
      ((List.range self.length).foldlM (fun num i =>
          (List.range other.length).foldlM (fun num j =>
            glog (self.getD i 0) >>= fun l0 =>
            glog (other.getD j 0) >>= fun l1 =>
            gexp (poly_mul_exponent l0 l1) >>= fun e =>
            pure (num.set (poly_mul_index i j) (poly_mul_update (num.getD (poly_mul_index i j) 0) e))) num)
        (List.replicate (poly_mul_alloc_len self.length other.length).toNat poly_mul_alloc_elem)
        >>= fun num => polyMk num poly_mul_result_shift) := by
  refine ⟨rfl, ?_⟩
  have : (poly_mul_alloc_len self.length other.length).toNat = self.length + other.length - 1 := by
    unfold poly_mul_alloc_len; omega
  rw [this]
  rfl

/-! ### Polynomial.__mod__ -/

/-- Python `l[a:]` for any int `a` (a negative bound counts from the end, clipped at 0) -/
def pySliceFrom {α : Type} (l : List α) (a : Int) : List α :=
  if a < 0 then l.drop ((l.length : Int) + a).toNat else l.drop a.toNat

/-- the comprehension `[item ^ gexp(glog(other_item) + ratio) for item, other_item in zip(self, other)]` -/
def modComp (ratio : Int) (self other : List Nat) : R (List Nat) :=
  (self.zip other).mapM fun p =>
    glog p.2 >>= fun lo => gexp (poly_mod_exponent lo ratio) >>= fun e => pure (poly_mod_elt p.1 e)

theorem modStep_eq (ratio : Int) : ∀ xs ys : List Nat, modStep ratio xs ys = modComp ratio xs ys
  | [], _ => by simp [modStep, modComp]
  | _ :: _, [] => by simp [modStep, modComp]
  | x :: xs, y :: ys => by
    have ih := modStep_eq ratio xs ys
    unfold modComp at ih ⊢
    simp only [modStep, List.zip_cons_cons, List.mapM_cons, ih]
    cases glog y with
    | error e => rfl
    | ok ly =>
      simp only [R.bind_ok]
      have : poly_mod_exponent ly ratio = (ly : Int) + ratio := rfl
      rw [this]
      cases gexp ((ly : Int) + ratio) with
      | error e => rfl
      | ok e =>
        simp only [R.bind_ok, R.pure_eq]
        cases List.mapM (fun p : Nat × Nat =>
            glog p.2 >>= fun lo => gexp (poly_mod_exponent lo ratio) >>= fun e => pure (poly_mod_elt p.1 e)) (xs.zip ys) with
        | error e => rfl
        | ok r => rfl

theorem polyMod_succ (fuel : Nat) (self other : List Nat) :
    polyMod (fuel + 1) self other =
      if self.length < other.length then .ok self
      else
        idx self 0 >>= fun s0 =>
        if s0 = 0 then .ok self
        else
          glog s0 >>= fun ls =>
          idx other 0 >>= fun o0 =>
          glog o0 >>= fun lo =>
          modStep ((ls : Int) - (lo : Int)) self other >>= fun num =>
          polyMk (num ++ self.drop other.length) 0 >>= fun p =>
          polyMod fuel p other := by
  rw [polyMod]

/-- the first disjunct of the early return does not read `self[0]`, so the short-circuit `or` cannot raise there -/
theorem poly_mod_done_0_iff (ls lo : Nat) : poly_mod_done_0 (poly_mod_difference ls lo) = decide (ls < lo) := by
  unfold poly_mod_done_0 poly_mod_difference
  by_cases h : ls < lo
  · rw [decide_eq_true h]; exact decide_eq_true (by omega)
  · rw [decide_eq_false h]; exact decide_eq_false (by omega)

/-- **Polynomial.__mod__** (one unfolding of the recursion, `fuel` bounding Python's recursion depth):
    `difference = len(self) - len(other)`; `if difference < 0 or self[0] == 0: return self` (short-circuit: the second
    disjunct reads `self[0]`); `ratio = glog(self[0]) - glog(other[0])`; the zip comprehension; `if difference:
    num.extend(self[-difference:])`; `return Polynomial(num, 0) % other`. -/
theorem polyMod_src (fuel : Nat) (self other : List Nat) :
    polyMod (fuel + 1) self other =
      let difference := poly_mod_difference self.length other.length
      if poly_mod_done_0 difference then .ok self
      else
        idx self 0 >>= fun s0 =>
        if poly_mod_done_1 difference s0 then .ok self
        else
          glog s0 >>= fun ls0 =>
          idx other 0 >>= fun o0 =>
          glog o0 >>= fun lo0 =>
          modComp (poly_mod_ratio ls0 lo0) self other >>= fun num =>
          polyMk (if poly_mod_tail_test difference then num ++ pySliceFrom self (poly_mod_tail_lower difference) else num)
              poly_mod_rec_shift >>= fun p =>
          polyMod fuel p other := by
  rw [polyMod_succ]
  have hd1 : ∀ (d : Int) (s0 : Nat), poly_mod_done_1 d s0 = decide (s0 = 0) := fun _ _ => rfl
  have hr : ∀ a b : Nat, poly_mod_ratio a b = (a : Int) - (b : Int) := fun _ _ => rfl
  have hs : poly_mod_rec_shift = 0 := rfl
  simp only [poly_mod_done_0_iff, hd1, hr, hs, decide_eq_true_eq]
  by_cases hlt : self.length < other.length
  · rw [if_pos hlt, if_pos hlt]
  · rw [if_neg hlt, if_neg hlt]
    have htail : ∀ num : List Nat,
        (if poly_mod_tail_test (poly_mod_difference self.length other.length) then
            num ++ pySliceFrom self (poly_mod_tail_lower (poly_mod_difference self.length other.length)) else num)
          = num ++ self.drop other.length := by
      intro num
      unfold poly_mod_tail_test poly_mod_tail_lower pySliceFrom poly_mod_difference
      by_cases hd : (self.length : Int) - (other.length : Int) = 0
      · have : self.length ≤ other.length := by omega
        simp [hd, List.drop_eq_nil_of_le this]
      · have h1 : -((self.length : Int) - (other.length : Int)) < 0 := by omega
        have h2 : ((self.length : Int) + -((self.length : Int) - (other.length : Int))).toNat = other.length := by omega
        simp only [ne_eq, hd, not_false_eq_true, decide_true, if_true, h1, h2]
    simp only [htail, modStep_eq]

end QR.SourceTieA
