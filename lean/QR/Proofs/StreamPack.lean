import QR.Proofs.StreamBits
/-
Bonus for C06 / C01: packing a whole number of bytes (`BitBuffer.buffer`) loses nothing - the data codewords,
written out MSB first, are the bit stream again.
-/
namespace QR
open Model

theorem bitsBE_congr {x y w : Nat} (h : ∀ i, i < w → x.testBit i = y.testBit i) : bitsBE x w = bitsBE y w := by
  induction w with
  | zero => rfl
  | succ w ih =>
    rw [bitsBE, bitsBE, h w (Nat.lt_succ_self w), ih (fun i hi => h i (Nat.lt_succ_of_lt hi))]

/-- writing the value of a bit list back on as many bits gives the bit list -/
theorem bitsBE_bitsVal (bs : List Bool) : bitsBE (Spec.bitsVal bs) bs.length = bs := by
  induction bs with
  | nil => rfl
  | cons b bs ih =>
    have hlt := bitsVal_lt bs
    rw [bitsVal_cons, List.length_cons, bitsBE, Nat.mul_comm]
    congr 1
    · rw [Nat.testBit_two_pow_mul_add _ hlt]
      cases b <;> simp
    · refine Eq.trans (bitsBE_congr ?_) ih
      intro i hi
      rw [Nat.testBit_two_pow_mul_add _ hlt, if_pos hi]

theorem byteOfBits_lt (bs : List Bool) : byteOfBits bs < 256 := by
  have := bitsVal_lt (bs.take 8 ++ List.replicate (8 - (bs.take 8).length) false)
  have hl : (bs.take 8 ++ List.replicate (8 - (bs.take 8).length) false).length = 8 := by
    simp only [List.length_append, List.length_take, List.length_replicate]; omega
  rw [hl] at this
  exact this

theorem packBytesAux_unpack (k : Nat) (bs : List Bool) (h : bs.length = 8 * k) :
    writeBytes (packBytesAux k bs) = bs ∧ (packBytesAux k bs).length = k ∧ ∀ b ∈ packBytesAux k bs, b < 256 := by
  induction k generalizing bs with
  | zero =>
    have : bs = [] := List.eq_nil_of_length_eq_zero (by omega)
    subst this
    exact ⟨rfl, rfl, by simp [packBytesAux]⟩
  | succ k ih =>
    obtain ⟨h1, h2, h3⟩ := ih (bs.drop 8) (by rw [List.length_drop]; omega)
    have hl : (bs.take 8).length = 8 := by rw [List.length_take]; omega
    have hb : byteOfBits bs = Spec.bitsVal (bs.take 8) := by
      simp only [byteOfBits, hl, Nat.sub_self, List.replicate_zero, List.append_nil]
      rfl
    refine ⟨?_, by simp [packBytesAux, h2], ?_⟩
    · simp only [packBytesAux, writeBytes, List.flatMap_cons]
      have := bitsBE_bitsVal (bs.take 8)
      rw [hl] at this
      rw [hb, this]
      have h1' : (packBytesAux k (bs.drop 8)).flatMap (fun c => bitsBE c 8) = bs.drop 8 := h1
      rw [h1', List.take_append_drop]
    · intro b hb'
      simp only [packBytesAux, List.mem_cons] at hb'
      rcases hb' with rfl | hb'
      · exact byteOfBits_lt bs
      · exact h3 b hb'

/-- a bit buffer holding a whole number of bytes is recovered from its packed bytes -/
theorem writeBytes_packBytes {bs : List Bool} (h : bs.length % 8 = 0) :
    writeBytes (packBytes bs) = bs ∧ (packBytes bs).length = bs.length / 8 ∧ ∀ b ∈ packBytes bs, b < 256 := by
  have hk : (bs.length + 7) / 8 = bs.length / 8 := by omega
  rw [packBytes, hk]
  exact packBytesAux_unpack _ bs (by omega)

end QR
