import QR.Model.Matrix
import QR.Spec.Geometry
import QR.Proofs.Finite
/-
C04 - format and version information are the correct BCH codewords (finite part: the two codes, the level
indicators).  Spec side: "top bits = data, divisible by the generator" computed by fixed-length long division;
Model side: the `while BCH_digit(d) - BCH_digit(G) >= 0` loops over the constants translated from the source.
-/
namespace QR.Props
open QR

set_option maxRecDepth 100000 in
/-- `util.BCH_type_info(d)` is the ISO format word for all 32 (level, mask) inputs -/
theorem C04_bch15 : ∀ d, d < 32 → Model.bchTypeInfo d = Spec.formatWord d := by
  have h : (List.range 32).all (fun d => Model.bchTypeInfo d == Spec.formatWord d) = true := by decide +kernel
  intro d hd; simpa using forall_lt_of_all h d hd

set_option maxRecDepth 100000 in
/-- `util.BCH_type_number(v)` is the ISO version word for every version (in particular 7..40) -/
theorem C04_bch18 : ∀ v, v < 64 → Model.bchTypeNumber v = Spec.versionWord v := by
  have h : (List.range 64).all (fun v => Model.bchTypeNumber v == Spec.versionWord v) = true := by decide +kernel
  intro v hv; simpa using forall_lt_of_all h v hv

set_option maxRecDepth 100000 in
/-- the Spec's format words are BCH(15,5) codewords (divisible by the generator once the mask is removed),
    carry their data in the top five bits and are pairwise distinct: the spec is self-consistent -/
theorem C04_spec_format_sound :
    ∀ d, d < 32 → Spec.gf2rem 0x537 10 5 (Spec.formatWord d ^^^ 0x5412) = 0
      ∧ (Spec.formatWord d ^^^ 0x5412) >>> 10 = d ∧ Spec.formatWord d < 2 ^ 15 := by
  have h : (List.range 32).all (fun d => Spec.gf2rem 0x537 10 5 (Spec.formatWord d ^^^ 0x5412) == 0
      && (Spec.formatWord d ^^^ 0x5412) >>> 10 == d && decide (Spec.formatWord d < 2 ^ 15)) = true := by decide +kernel
  intro d hd; simpa [Bool.and_eq_true, and_assoc] using forall_lt_of_all h d hd

set_option maxRecDepth 100000 in
theorem C04_spec_version_sound :
    ∀ v, v < 64 → Spec.gf2rem 0x1F25 12 6 (Spec.versionWord v) = 0 ∧ Spec.versionWord v >>> 12 = v := by
  have h : (List.range 64).all (fun v => Spec.gf2rem 0x1F25 12 6 (Spec.versionWord v) == 0
      && Spec.versionWord v >>> 12 == v) = true := by decide +kernel
  intro v hv; simpa [Bool.and_eq_true] using forall_lt_of_all h v hv

/-- the integers the library uses for the levels are the ISO two-bit indicators (L=01 M=00 Q=11 H=10) -/
theorem C04_level :
    Gen.ERROR_CORRECT_L = Spec.Level.L.indicator ∧ Gen.ERROR_CORRECT_M = Spec.Level.M.indicator ∧
    Gen.ERROR_CORRECT_Q = Spec.Level.Q.indicator ∧ Gen.ERROR_CORRECT_H = Spec.Level.H.indicator := by decide

/-- published examples (tests of the Spec, not proofs): format word for M / mask 101, version words 7 and 40 -/
example : Spec.formatWord 0b00101 = 0b100000011001110 := by decide
example : Spec.versionWord 7 = 0x07C94 ∧ Spec.versionWord 40 = 0x28C69 := by decide

end QR.Props
