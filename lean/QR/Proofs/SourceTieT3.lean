import QR.Gen.Code
import QR.Model.Penalty
import QR.Proofs.Penalty
/-
Translation validation, list C item 3: `util._lost_point_level2` (complete), `util._lost_point_level4` (complete, the float
expression as an exact fraction) and the remaining parts of `util._lost_point_level1` (container, scanners, final sum).
The fragments `QR.Gen.Code.lp1_*`, `lp2_*`, `lp4_*` are produced by tools/t2_fragments/frag_c3.py from the Python AST (and
`l1_term`, `l1_range` by translate.py); here the generic loop semantics (`for` over a `range`, `for` over an iterator with
`next(it, None)`) is instantiated with them and the hand-written Model is proved equal to the result.
-/
namespace QR.SourceTieT
open QR QR.Model QR.Gen.Code

/-- `modules[r][c]` on an `n × n` matrix (all indices the scanners use are in range there; see the bridging theorems'
    hypotheses `hlen`, `hrow`) -/
def lp_cell (M : BMat) (r c : Nat) : Bool := (M.getD r []).getD c false

/-! ## `_lost_point_level2` -/

/-- Python `for col in it: <body>` over an iterator `it` of the index list, where the body may call `next(it, None)`:
    `body col acc = (skip, acc')`, `skip` = the body advanced the iterator once more (no effect when it is exhausted) -/
def lp2_iterLoop (body : Nat → Nat → Bool × Nat) : Bool → List Nat → Nat → Nat
  | _, [], acc => acc
  | true, _ :: t, acc => lp2_iterLoop body false t acc
  | false, c :: t, acc => lp2_iterLoop body (body c acc).1 t (body c acc).2

/-- `_lost_point_level2(modules, modules_count)` assembled from the translated fragments -/
def level2Src (M : BMat) (n : Nat) : Nat :=
  let R := List.range (lp2_range_stop n).toNat
  R.foldl (fun lost row =>
    lp2_iterLoop (lp2_body (lp_cell M (lp2_this_row row)) (lp_cell M (lp2_next_row row))) false R lost) lp2_init

/-- the four comparisons, the skip and the weight of the translated body, spelled out -/
theorem lp2_body_src (f g : Nat → Bool) (col lost : Nat) :
    lp2_body f g col lost =
      if f (col + 1) ≠ g (col + 1) then (true, lost)
      else if f (col + 1) ≠ f col then (false, lost)
      else if f (col + 1) ≠ g col then (false, lost)
      else (false, lost + l2_weight) := by
  unfold lp2_body l2_weight
  cases f (col + 1) <;> cases g (col + 1) <;> cases f col <;> cases g col <;> rfl

private theorem lp2_inner (r1 : List Bool) : ∀ (r2 : List Bool) (f g : Nat → Bool) (k : Nat) (skip : Bool) (acc : Nat),
    r1.length = r2.length →
    (∀ i, i < r1.length → f (k + i) = r1.getD i false) → (∀ i, i < r2.length → g (k + i) = r2.getD i false) →
    lp2_iterLoop (lp2_body f g) skip (List.range' k (r1.length - 1)) acc = acc + l2scan skip r1 r2 := by
  induction r1 with
  | nil => intro r2 f g k skip acc _ _ _; cases skip <;> simp [lp2_iterLoop, l2scan]
  | cons a t ih =>
    intro r2 f g k skip acc hl hf hg
    cases t with
    | nil =>
      cases r2 with
      | nil => simp at hl
      | cons c tc =>
        have : tc = [] := by simpa using hl.symm
        subst this
        cases skip <;> simp [lp2_iterLoop, l2scan]
    | cons b ta =>
      cases r2 with
      | nil => simp at hl
      | cons c tc =>
        cases tc with
        | nil => simp at hl
        | cons d tc =>
          have hl' : (b :: ta).length = (d :: tc).length := by simpa using hl
          have hf' : ∀ i, i < (b :: ta).length → f (k + 1 + i) = (b :: ta).getD i false := by
            intro i hi
            have := hf (i + 1) (by simp only [List.length_cons] at hi ⊢; omega)
            rw [show k + 1 + i = k + (i + 1) by omega, this]; simp
          have hg' : ∀ i, i < (d :: tc).length → g (k + 1 + i) = (d :: tc).getD i false := by
            intro i hi
            have := hg (i + 1) (by simp only [List.length_cons] at hi ⊢; omega)
            rw [show k + 1 + i = k + (i + 1) by omega, this]; simp
          have fa : f k = a := by simpa using hf 0 (by simp)
          have fb : f (k + 1) = b := by simpa using hf 1 (by simp)
          have gc : g k = c := by simpa using hg 0 (by simp)
          have gd : g (k + 1) = d := by simpa using hg 1 (by simp)
          have hr : List.range' k ((a :: b :: ta).length - 1) = k :: List.range' (k + 1) ((b :: ta).length - 1) := by
            simp [List.range'_succ]
          rw [hr]
          cases skip with
          | true =>
            rw [lp2_iterLoop, l2scan, if_pos rfl]
            exact ih (d :: tc) f g (k + 1) false acc hl' hf' hg'
          | false =>
            rw [lp2_iterLoop, l2scan, if_neg (show ¬ (false = true) by decide)]
            have hb := lp2_body_src f g k acc
            rw [fa, fb, gc, gd] at hb
            by_cases h1 : b ≠ d
            · rw [if_pos h1] at hb
              rw [hb, if_pos h1]
              exact ih (d :: tc) f g (k + 1) true acc hl' hf' hg'
            · rw [if_neg h1] at hb
              rw [if_neg h1]
              by_cases h2 : b ≠ a
              · rw [if_pos h2] at hb
                rw [hb, if_pos h2]
                exact ih (d :: tc) f g (k + 1) false acc hl' hf' hg'
              · rw [if_neg h2] at hb
                rw [if_neg h2]
                by_cases h3 : b ≠ c
                · rw [if_pos h3] at hb
                  rw [hb, if_pos h3]
                  exact ih (d :: tc) f g (k + 1) false acc hl' hf' hg'
                · rw [if_neg h3] at hb
                  rw [hb, if_neg h3]
                  have := ih (d :: tc) f g (k + 1) false (acc + l2_weight) hl' hf' hg'
                  simp only [l2_weight] at this ⊢
                  rw [this]
                  omega

private theorem lp2_outer (n : Nat) (R : Nat → List Bool) : ∀ (M : BMat) (k acc : Nat),
    (∀ row ∈ M, row.length = n) → (∀ i, i < M.length → R (k + i) = M.getD i []) →
    (List.range' k (M.length - 1)).foldl (fun lost row =>
      lp2_iterLoop (lp2_body (fun c => (R (lp2_this_row row)).getD c false) (fun c => (R (lp2_next_row row)).getD c false))
        false (List.range' 0 (n - 1)) lost) acc = acc + level2 M := by
  intro M
  induction M with
  | nil => intro k acc _ _; simp [level2]
  | cons r1 t ih =>
    intro k acc hrow hR
    cases t with
    | nil => simp [level2]
    | cons r2 rest =>
      have hr : List.range' k ((r1 :: r2 :: rest).length - 1) = k :: List.range' (k + 1) ((r2 :: rest).length - 1) := by
        simp [List.range'_succ]
      have h1 : r1.length = n := hrow r1 (by simp)
      have h2 : r2.length = n := hrow r2 (by simp)
      have e1 : R k = r1 := by simpa using hR 0 (by simp)
      have e2 : R (k + 1) = r2 := by simpa using hR 1 (by simp)
      rw [hr, List.foldl_cons, level2]
      have hin := lp2_inner r1 r2 (fun c => r1.getD c false) (fun c => r2.getD c false) 0 false acc (h1.trans h2.symm)
        (by intro i _; simp) (by intro i _; simp)
      have ea : R (lp2_this_row k) = r1 := e1
      have eb : R (lp2_next_row k) = r2 := e2
      simp only [ea, eb]
      rw [h1] at hin
      rw [hin]
      rw [ih (k + 1) (acc + l2scan false r1 r2) (fun row hr => hrow row (List.mem_cons_of_mem _ hr)) (by
        intro i hi
        have := hR (i + 1) (by simp only [List.length_cons] at hi ⊢; omega)
        rw [show k + 1 + i = k + (i + 1) by omega, this]; simp)]
      omega

/-- **`_lost_point_level2`**: on an `n × n` matrix the Model's list recursion equals the translated source (outer `for row in
    range(n - 1)`, inner `for col in iter(range(n - 1))` with the translated body, `lost_point` threaded through) -/
theorem lostPointLevel2_src (M : BMat) (n : Nat) (hlen : M.length = n) (hrow : ∀ row ∈ M, row.length = n) :
    level2 M = level2Src M n := by
  unfold level2Src
  have hs : (lp2_range_stop n).toNat = n - 1 := by unfold lp2_range_stop; omega
  simp only [hs, List.range_eq_range', lp2_init]
  have := lp2_outer n (fun r => M.getD r []) M 0 0 hrow (by intro i _; simp)
  rw [hlen] at this
  simp only [Nat.zero_add] at this
  exact this.symm

/-! ## `_lost_point_level1` -/

/-- Python `range(a, b)` as a list -/
def lp1_pyRange (r : Nat × Nat) : List Nat := List.range' r.1 (r.2 - r.1)

/-- one line of `_lost_point_level1`: `prologue; for i in range: step; flush`, the loop-carried variables are
    `(previous_color, length, container)` -/
def lp1_line (init : Bool × Nat) (step : Nat → Bool → Nat → List Nat → Bool × Nat × List Nat)
    (flush : Bool → Nat → List Nat → List Nat) (rng : Nat × Nat) (container : List Nat) : List Nat :=
  let s := (lp1_pyRange rng).foldl (fun s i => step i s.1 s.2.1 s.2.2) (init.1, init.2, container)
  flush s.1 s.2.1 s.2.2

/-- `_lost_point_level1(modules, modules_count)` assembled from the translated fragments: the row scanners, then the column
    scanners on the same `container`, then `lost_point += sum(container[i] * (i - 2) for i in range(5, n + 1))` -/
def level1Src (M : BMat) (n : Nat) : Nat :=
  let c1 := (lp1_pyRange (lp1_range n)).foldl (fun c row =>
    lp1_line (lp1_row_init (lp_cell M) row) (lp1_row_step (lp_cell M) row) (lp1_row_flush (lp_cell M) row) (lp1_range n) c)
    (lp1_container n)
  let c2 := (lp1_pyRange (lp1_range n)).foldl (fun c col =>
    lp1_line (lp1_col_init (lp_cell M) col) (lp1_col_step (lp_cell M) col) (lp1_col_flush (lp_cell M) col) (lp1_range n) c)
    c1
  lp1_total lp1_init (((lp1_pyRange (l1_range n)).map fun len => l1_term (c2.getD (lp1_sum_index len) 0) len).sum)

/-- `container[L] += 1` for every recorded run, in order -/
private def addRuns (c : List Nat) (runs : List Nat) : List Nat := runs.foldl (fun c L => c.modify L (fun x => x + 1)) c

def lp1_lineStep (x : Bool) (s : Bool × Nat × List Nat) : Bool × Nat × List Nat :=
  if x = s.1 then (s.1, s.2.1 + 1, s.2.2)
  else (x, 1, if s.2.1 ≥ 5 then s.2.2.modify s.2.1 (fun x => x + 1) else s.2.2)

def lp1_lineFlush (s : Bool × Nat × List Nat) : List Nat :=
  if s.2.1 ≥ 5 then s.2.2.modify s.2.1 (fun x => x + 1) else s.2.2

/-- the translated step / flush of both scanners are the same function of the cell they read -/
theorem lp1_step_src (m : Nat → Nat → Bool) (o i : Nat) (p : Bool) (len : Nat) (c : List Nat) :
    lp1_row_step m o i p len c = lp1_lineStep (m o i) (p, len, c) ∧ lp1_col_step m o i p len c = lp1_lineStep (m i o) (p, len, c) ∧
    lp1_row_flush m o p len c = lp1_lineFlush (p, len, c) ∧ lp1_col_flush m o p len c = lp1_lineFlush (p, len, c) ∧
    lp1_row_init m o = (m o 0, 0) ∧ lp1_col_init m o = (m 0 o, 0) := by
  unfold lp1_row_step lp1_col_step lp1_row_flush lp1_col_flush lp1_lineStep lp1_lineFlush lp1_row_init lp1_col_init
  refine ⟨?_, ?_, ?_, ?_, rfl, rfl⟩
  · by_cases h : m o i = p <;> by_cases h5 : len ≥ 5 <;> simp [h, h5]
  · by_cases h : m i o = p <;> by_cases h5 : len ≥ 5 <;> simp [h, h5]
  · by_cases h5 : len ≥ 5 <;> simp [h5]
  · by_cases h5 : len ≥ 5 <;> simp [h5]

private theorem addRuns_append (c : List Nat) (a b : List Nat) : addRuns c (a ++ b) = addRuns (addRuns c a) b := by
  simp [addRuns, List.foldl_append]

private theorem scan_runs (xs : List Bool) : ∀ (prev : Bool) (len : Nat) (c : List Nat),
    lp1_lineFlush (xs.foldl (fun s x => lp1_lineStep x s) (prev, len, c)) = addRuns c (runScan prev len xs) := by
  induction xs with
  | nil =>
    intro prev len c
    simp only [List.foldl_nil, lp1_lineFlush, runScan]
    by_cases h : len ≥ 5 <;> simp [h, addRuns]
  | cons x xs ih =>
    intro prev len c
    rw [List.foldl_cons, runScan]
    by_cases hx : x = prev
    · rw [if_pos hx]
      have : lp1_lineStep x (prev, len, c) = (prev, len + 1, c) := by simp [lp1_lineStep, hx]
      rw [this, ih]
    · rw [if_neg hx, addRuns_append]
      have : lp1_lineStep x (prev, len, c) = (x, 1, if len ≥ 5 then c.modify len (fun x => x + 1) else c) := by
        simp [lp1_lineStep, hx]
      rw [this, ih]
      by_cases h : len ≥ 5 <;> simp [h, addRuns]

private theorem map_getD_range' {α : Type} (l : List α) (d : α) :
    (List.range' 0 l.length).map (fun i => l.getD i d) = l := by
  apply List.ext_getElem
  · simp
  · intro i h1 h2
    simp [List.getElem?_eq_getElem h2]

private theorem foldl_congr_mem {α β : Type} (f g : β → α → β) (L : List α) (h : ∀ x ∈ L, ∀ b, f b x = g b x) :
    ∀ b, L.foldl f b = L.foldl g b := by
  induction L with
  | nil => intro b; rfl
  | cons x t ih =>
    intro b
    rw [List.foldl_cons, List.foldl_cons, h x List.mem_cons_self, ih (fun y hy => h y (List.mem_cons_of_mem _ hy))]

/-- a line read through an accessor -/
private theorem line_runs (l : List Bool) (n : Nat) (hl : l.length = n) (get : Nat → Bool)
    (hget : ∀ i, i < n → get i = l.getD i false) (c : List Nat) :
    lp1_lineFlush ((lp1_pyRange (0, n)).foldl (fun s i => lp1_lineStep (get i) s) (get 0, 0, c)) = addRuns c (lineRuns l) := by
  have e : (lp1_pyRange (0, n)).foldl (fun s i => lp1_lineStep (get i) s) (get 0, 0, c) =
      l.foldl (fun s x => lp1_lineStep x s) (get 0, 0, c) := by
    conv => rhs; rw [← map_getD_range' l false]
    rw [List.foldl_map, hl]
    apply foldl_congr_mem
    intro i hi b
    have : i < n := by simpa [lp1_pyRange] using hi
    rw [hget i this]
  rw [e]
  cases l with
  | nil => simp [lp1_lineFlush, lineRuns, addRuns]
  | cons x xs =>
    have : get 0 = x := by rw [hget 0 (by rw [← hl]; simp)]; simp
    rw [this, scan_runs, lineRuns]

private theorem lines_runs (Ls : List (List Bool)) : ∀ c : List Nat,
    Ls.foldl (fun c l => addRuns c (lineRuns l)) c = addRuns c (Ls.flatMap lineRuns) := by
  induction Ls with
  | nil => intro c; simp [addRuns]
  | cons l t ih => intro c; rw [List.foldl_cons, ih, List.flatMap_cons, addRuns_append]

private theorem addRuns_length (runs : List Nat) : ∀ c : List Nat, (addRuns c runs).length = c.length := by
  induction runs with
  | nil => intro c; rfl
  | cons x t ih => intro c; simp only [addRuns, List.foldl_cons] at ih ⊢; rw [ih, List.length_modify]

private theorem addRuns_hist (runs : List Nat) : ∀ (c : List Nat), (∀ x ∈ runs, x < c.length) → ∀ j,
    (addRuns c runs).getD j 0 = c.getD j 0 + runs.count j := by
  induction runs with
  | nil => intro c _ j; simp [addRuns]
  | cons x t ih =>
    intro c h j
    have hx : x < c.length := h x List.mem_cons_self
    have := ih (c.modify x (fun y => y + 1)) (by
      intro y hy; rw [List.length_modify]; exact h y (List.mem_cons_of_mem _ hy)) j
    simp only [addRuns, List.foldl_cons] at this ⊢
    rw [this, List.count_cons, List.getD_eq_getElem?_getD, List.getD_eq_getElem?_getD, List.getElem?_modify]
    by_cases hj : x = j
    · subst hj
      rw [List.getElem?_eq_getElem hx]
      simp; omega
    · have : (x == j) = false := by simpa using hj
      simp [hj, this]

/-- **`_lost_point_level1`**: on an `n × n` matrix the Model (`lineRuns` of all rows and columns, histogram by `count`,
    weighted sum) equals the translated source (row scanners and column scanners updating `container`, final sum) -/
theorem lostPointLevel1_src (M : BMat) (n : Nat) (hlen : M.length = n) (hrow : ∀ row ∈ M, row.length = n) :
    level1 M n = level1Src M n := by
  have s1 : ∀ m o i p len c, lp1_row_step m o i p len c = lp1_lineStep (m o i) (p, len, c) :=
    fun m o i p len c => (lp1_step_src m o i p len c).1
  have s2 : ∀ m o i p len c, lp1_col_step m o i p len c = lp1_lineStep (m i o) (p, len, c) :=
    fun m o i p len c => (lp1_step_src m o i p len c).2.1
  have s3 : ∀ m o p len c, lp1_row_flush m o p len c = lp1_lineFlush (p, len, c) :=
    fun m o p len c => (lp1_step_src m o 0 p len c).2.2.1
  have s4 : ∀ m o p len c, lp1_col_flush m o p len c = lp1_lineFlush (p, len, c) :=
    fun m o p len c => (lp1_step_src m o 0 p len c).2.2.2.1
  have s5 : ∀ m o, lp1_row_init m o = (m o 0, 0) := fun m o => (lp1_step_src m o 0 false 0 []).2.2.2.2.1
  have s6 : ∀ m o, lp1_col_init m o = (m 0 o, 0) := fun m o => (lp1_step_src m o 0 false 0 []).2.2.2.2.2
  have hmem : ∀ i, i < n → (M.getD i []) ∈ M := by
    intro i hi
    have hi' : i < M.length := by omega
    rw [List.getD_eq_getElem?_getD, List.getElem?_eq_getElem hi']
    exact List.getElem_mem _
  -- the row scanners
  have hrows : ∀ c, (lp1_pyRange (0, n)).foldl (fun c row =>
      lp1_line (lp1_row_init (lp_cell M) row) (lp1_row_step (lp_cell M) row) (lp1_row_flush (lp_cell M) row) (0, n) c) c =
      addRuns c (M.flatMap lineRuns) := by
    intro c
    rw [foldl_congr_mem _ (fun c row => addRuns c (lineRuns (M.getD row []))) _ ?_ c]
    · have : (lp1_pyRange (0, n)).foldl (fun c row => addRuns c (lineRuns (M.getD row []))) c =
          ((List.range' 0 M.length).map (fun i => M.getD i [])).foldl (fun c l => addRuns c (lineRuns l)) c := by
        rw [List.foldl_map, hlen]; rfl
      rw [this, map_getD_range', lines_runs]
    · intro row hr c
      have hlt : row < n := by simpa [lp1_pyRange] using hr
      have := line_runs (M.getD row []) n (hrow _ (hmem row hlt)) (fun i => lp_cell M row i) (by intro i _; rfl) c
      simp only [lp1_line, s1, s3, s5]
      exact this
  -- the column scanners
  have hcols : ∀ c, (lp1_pyRange (0, n)).foldl (fun c col =>
      lp1_line (lp1_col_init (lp_cell M) col) (lp1_col_step (lp_cell M) col) (lp1_col_flush (lp_cell M) col) (0, n) c) c =
      addRuns c ((columns M n).flatMap lineRuns) := by
    intro c
    rw [foldl_congr_mem _ (fun c col => addRuns c (lineRuns (M.map fun r => r.getD col false))) _ ?_ c]
    · have : (lp1_pyRange (0, n)).foldl (fun c col => addRuns c (lineRuns (M.map fun r => r.getD col false))) c =
          ((lp1_pyRange (0, n)).map (fun col => M.map fun r => r.getD col false)).foldl
            (fun c l => addRuns c (lineRuns l)) c := by
        rw [List.foldl_map]
      have hc : (lp1_pyRange (0, n)).map (fun col => M.map fun r => r.getD col false) = columns M n := by
        simp [lp1_pyRange, columns, List.range_eq_range']
      rw [this, hc, lines_runs]
    · intro col hr c
      have hlt : col < n := by simpa [lp1_pyRange] using hr
      have := line_runs (M.map fun r => r.getD col false) n (by simp [hlen]) (fun i => lp_cell M i col) (by
        intro i hi
        have hi' : i < M.length := by omega
        simp [lp_cell, List.getD_eq_getElem?_getD, List.getElem?_eq_getElem hi']) c
      simp only [lp1_line, s2, s4, s6]
      exact this
  have hl : ∀ l ∈ M ++ columns M n, l.length = n := by
    intro l hl
    rcases List.mem_append.mp hl with h | h
    · exact hrow l h
    · simp only [columns, List.mem_map] at h
      obtain ⟨c, _, rfl⟩ := h
      simp [hlen]
  have hb : ∀ x ∈ (M ++ columns M n).flatMap lineRuns, x < (lp1_container n).length := by
    intro x hx
    obtain ⟨l, hlm, hxl⟩ := List.mem_flatMap.mp hx
    have := QR.Proofs.Penalty.lineRuns_bounds l x hxl
    rw [hl l hlm] at this
    simp [lp1_container]; omega
  unfold level1 level1Src
  simp only [show lp1_range n = (0, n) from rfl]
  rw [hrows, hcols, ← addRuns_append, ← List.flatMap_append]
  simp only [lp1_total, lp1_init, Nat.zero_add, lp1_sum_index, l1_term, l1_range, lp1_pyRange]
  rw [List.range'_eq_map_range, List.map_map]
  apply QR.Proofs.Penalty.sum_map_congr
  intro k _
  simp only [Function.comp]
  rw [addRuns_hist _ _ hb]
  have h0 : (lp1_container n).getD (5 + k) 0 = 0 := by
    simp [lp1_container, List.getD_eq_getElem?_getD, List.getElem?_replicate]
    split <;> rfl
  rw [h0, Nat.zero_add, Nat.add_comm 5 k]

/-! ## `_lost_point_level4` -/

private theorem lp4_row (l : List Bool) : (l.map Bool.toNat).sum = l.count true := by
  induction l with
  | nil => rfl
  | cons x t ih => cases x <;> simp [ih] <;> omega

/-- `sum(map(sum, modules))` is the Model's dark count -/
theorem lp4_dark_count_src (M : BMat) : lp4_dark_count M = darkCount M := by
  unfold lp4_dark_count darkCount
  exact QR.Proofs.Penalty.sum_map_congr _ _ _ (fun row _ => lp4_row row)

/-- **`_lost_point_level4`**: the Model's integer form equals the EXACT (rational-arithmetic) value of the translated Python
    expression `int(abs(float(dark_count) / modules_count ** 2 * 100 - 50) / 5) * 10`, for every matrix and every `n`.
    (Assumption outside Lean: the IEEE double evaluation yields the same integer as the exact evaluation.) -/
theorem lostPointLevel4_src (M : BMat) (n : Nat) :
    (level4 M n : Int) = lp4_result (lp4_dark_count M) n := by
  rw [lp4_dark_count_src]
  unfold level4 lp4_result lp4_rating lp4_percent_num lp4_percent_den
  generalize darkCount M = d
  simp only [Int.mul_one, Int.one_mul]
  have ht : ((n : Int) ^ 2) = ((n * n : Nat) : Int) := by rw [Int.pow_succ, Int.pow_succ, Int.pow_zero, Int.one_mul]; simp
  rw [ht]
  generalize n * n = t
  have e1 : ((((d : Int) * 100 - 50 * (t : Int)).natAbs : Nat)) =
      5 * (if 20 * d ≥ 10 * t then 20 * d - 10 * t else 10 * t - 20 * d) := by split <;> omega
  have e2 : (((t : Int).natAbs : Nat)) = t := by omega
  rw [e1, e2]
  generalize (if 20 * d ≥ 10 * t then 20 * d - 10 * t else 10 * t - 20 * d) = x
  have e3 : Int.tdiv ((5 * x : Nat) : Int) ((t : Int) * 5) = ((x / t : Nat) : Int) := by
    rw [show ((t : Int) * 5) = ((5 * t : Nat) : Int) by simp [Int.mul_comm]]
    rw [← Int.ofNat_tdiv]
    congr 1
    cases t with
    | zero => simp
    | succ t => exact Nat.mul_div_mul_left _ _ (by omega)
  rw [e3]
  simp

end QR.SourceTieT
