import QR.Gen.Code
import QR.Model.QRObject
/-
Translation validation, list B3: `QRCode.get_matrix` as it stands in the source (implicit-compile test, the `not self.border`
early return, `width`, the three list constructions; translated into `QR.Gen.Code.get_matrix_*`) against `Model.getMatrix`
(definite modules), `Model.framedOpt` (the object model's `Optional[bool]` cells) and `Model.ensureMade`.
-/
namespace QR.SourceTieB
open QR QR.Model QR.Gen.Code

theorem getMatrix_literals :
    get_matrix_compile_call = "self.make()" ∧ get_matrix_early_value = "self.modules" ∧
    (∀ len border, get_matrix_width len border = len + border * 2) :=
  ⟨by decide, by decide, fun _ _ => rfl⟩

/-- the early-return test is `border = 0` -/
theorem get_matrix_early_eq (border : Nat) : get_matrix_early border = decide (border = 0) := by
  unfold get_matrix_early; by_cases h : border = 0 <;> simp [h]

/-- `get_matrix()` once compiled, for every matrix (of any shape) and every border -/
theorem getMatrix_src (M : Mods) (border : Nat) :
    getMatrix M border = if get_matrix_early border then M else get_matrix_code false M border := by
  unfold getMatrix get_matrix_code
  rw [get_matrix_early_eq]
  by_cases h : border = 0 <;> simp [h]

/-- the same on the object model's cells (`None` possible before compilation, `False` fill = `some false`) -/
theorem framedOpt_src (m : List (List (Option Bool))) (border : Nat) :
    framedOpt m border = if get_matrix_early border then m else get_matrix_code (some false) m border := by
  unfold framedOpt get_matrix_code
  rw [get_matrix_early_eq]
  by_cases h : border = 0 <;> simp [h]

/-- `if self.data_cache is None: self.make()` - with `make`'s default `fit` -/
theorem ensureMade_src (st : St) :
    ensureMade st = if get_matrix_compile_test st.2.dataCache.isNone then makeS make_fit_default st else (st, .ok ()) := by
  unfold ensureMade get_matrix_compile_test make_fit_default
  cases h : st.2.dataCache <;> simp

end QR.SourceTieB
