import QR.Proofs.Frame
/-
C15 helper lemmas: the texts written by `Model.printTty` / `Model.printAscii`, read by the independent readers of
`QR.Spec.Render`, give back the framed module matrix.
-/
namespace QR.Proofs.Text
open QR

theorem esc_light : Model.esc "[1;47m" = [27, 91, 49, 59, 52, 55, 109] := by decide
theorem esc_dark : Model.esc "[40m" = [27, 91, 52, 48, 109] := by decide
theorem esc_reset : Model.esc "[0m" = [27, 91, 48, 109] := by decide
theorem esc_bg232 : Model.esc "[48;5;232m" = [27, 91, 52, 56, 59, 53, 59, 50, 51, 50, 109] := by decide
theorem esc_fg255 : Model.esc "[38;5;255m" = [27, 91, 51, 56, 59, 53, 59, 50, 53, 53, 109] := by decide

/-! ### generic list lemmas -/

theorem takeWhile_stop (x : Nat) (l rest : List Nat) (h : x ∉ l) :
    (l ++ x :: rest).takeWhile (· ≠ x) = l := by
  induction l with
  | nil => simp
  | cons a l ih =>
    simp at h
    have : a ≠ x := fun e => h.1 e.symm
    simpa [this] using ih h.2

theorem dropWhile_stop (x : Nat) (l rest : List Nat) (h : x ∉ l) :
    (l ++ x :: rest).dropWhile (· ≠ x) = x :: rest := by
  induction l with
  | nil => simp
  | cons a l ih =>
    simp at h
    have : a ≠ x := fun e => h.1 e.symm
    simpa [this] using ih h.2

theorem length_le_flatMap {α β} (l : List α) (f : α → List β) (h : ∀ x ∈ l, 1 ≤ (f x).length) :
    l.length ≤ (l.flatMap f).length := by
  induction l with
  | nil => simp
  | cons a l ih =>
    simp only [List.flatMap_cons, List.length_append, List.length_cons]
    have h1 := h a (by simp)
    have h2 := ih (fun x hx => h x (by simp [hx]))
    omega

theorem mapM_option_eq_some {α β} (f : α → Option β) (g : α → β) (l : List α)
    (h : ∀ x ∈ l, f x = some (g x)) : l.mapM f = some (l.map g) := by
  induction l with
  | nil => simp
  | cons a l ih =>
    have h1 := h a (by simp)
    have h2 := ih (fun x hx => h x (by simp [hx]))
    simp [List.mapM_cons, h1, h2]

theorem mapM_map_option_eq_some {α β γ} (h : α → γ) (f : γ → Option β) (g : α → β) (l : List α)
    (H : ∀ x ∈ l, f (h x) = some (g x)) : (l.map h).mapM f = some (l.map g) := by
  induction l with
  | nil => simp
  | cons a l ih =>
    have h1 := H a (by simp)
    have h2 := ih (fun x hx => H x (by simp [hx]))
    simp [List.mapM_cons, h1, h2]

/-! ### splitLines -/

theorem splitLines_lines (ls : List (List Nat)) (h : ∀ l ∈ ls, 10 ∉ l) (fuel : Nat) (hf : ls.length ≤ fuel) :
    Spec.splitLines fuel (ls.flatMap (· ++ [10])) = ls := by
  induction ls generalizing fuel with
  | nil => cases fuel <;> simp [Spec.splitLines]
  | cons l ls ih =>
    cases fuel with
    | zero => simp at hf
    | succ f =>
      have hl : 10 ∉ l := h l (by simp)
      have hne : ∀ rest, l ++ 10 :: rest ≠ [] := by intro rest; simp
      simp only [List.flatMap_cons, List.append_assoc, List.singleton_append]
      generalize hrest : ls.flatMap (· ++ [10]) = rest
      have step : Spec.splitLines (f + 1) (l ++ 10 :: rest) =
          (l ++ 10 :: rest).takeWhile (· ≠ 10) ::
            Spec.splitLines f (((l ++ 10 :: rest).dropWhile (· ≠ 10)).drop 1) := by
        cases hs : l ++ 10 :: rest with
        | nil => exact absurd hs (hne rest)
        | cons a t => simp [Spec.splitLines]
      rw [step, takeWhile_stop 10 l rest hl, dropWhile_stop 10 l rest hl]
      simp only [List.drop_succ_cons, List.drop_zero]
      rw [← hrest, ih (fun x hx => h x (by simp [hx])) f (by simp at hf; omega)]

/-! ### readTtyLine -/

theorem readTtyLine_esc (fuel : Nat) (bg : Option Bool) (t : List Nat) :
    Spec.readTtyLine (fuel + 1) bg (0x1B :: t) =
      (let params := (t.drop 1).takeWhile (· ≠ 109)
       let rest := (t.dropWhile (· ≠ 109)).drop 1
       let ps := String.ofList (params.map Char.ofNat)
       let bg' := if ps = "0" then none else if ps = "40" then some true else if ps = "1;47" then some false else bg
       Spec.readTtyLine fuel bg' rest) := by
  simp [Spec.readTtyLine]

theorem readTtyLine_sp (fuel : Nat) (b : Bool) (t : List Nat) :
    Spec.readTtyLine (fuel + 1) (some b) (32 :: 32 :: t) = (Spec.readTtyLine fuel (some b) t).map (b :: ·) := by
  simp [Spec.readTtyLine]

theorem readTtyLine_mono (fuel : Nat) (bg : Option Bool) (s : List Nat) (r : List Bool)
    (h : Spec.readTtyLine fuel bg s = some r) : Spec.readTtyLine (fuel + 1) bg s = some r := by
  induction fuel generalizing bg s r with
  | zero => simp [Spec.readTtyLine] at h
  | succ f ih =>
    cases s with
    | nil => simp [Spec.readTtyLine] at h ⊢; exact h
    | cons c t =>
      by_cases hc : c = 0x1B
      · subst hc
        rw [readTtyLine_esc] at h ⊢
        exact ih _ _ _ h
      · by_cases h32 : c = 32
        · subst h32
          cases t with
          | nil => simp [Spec.readTtyLine] at h
          | cons d t' =>
            by_cases hd : d = 32
            · subst hd
              cases bg with
              | none => simp [Spec.readTtyLine] at h
              | some b =>
                rw [readTtyLine_sp] at h ⊢
                cases hq : Spec.readTtyLine f (some b) t' with
                | none => simp [hq] at h
                | some q =>
                  simp [hq] at h
                  simp [ih _ _ _ hq, h]
            · simp [Spec.readTtyLine, hd] at h
        · simp [Spec.readTtyLine, hc, h32] at h

theorem readTtyLine_mono_add (fuel k : Nat) (bg : Option Bool) (s : List Nat) (r : List Bool)
    (h : Spec.readTtyLine fuel bg s = some r) : Spec.readTtyLine (fuel + k) bg s = some r := by
  induction k with
  | zero => exact h
  | succ k ih => exact readTtyLine_mono _ _ _ _ ih

/-- `Reads bg s bg' out`: starting with background `bg`, the reader consumes the text `s`, emits the modules `out`
and continues with background `bg'` -/
def Reads (bg : Option Bool) (s : List Nat) (bg' : Option Bool) (out : List Bool) : Prop :=
  ∀ fuel rest R, Spec.readTtyLine fuel bg' rest = some R →
    Spec.readTtyLine (fuel + s.length) bg (s ++ rest) = some (out ++ R)

theorem Reads.nil (bg : Option Bool) : Reads bg [] bg [] := by
  intro fuel rest R h; simpa using h

theorem Reads.append {bg bg1 bg2 : Option Bool} {s1 s2 : List Nat} {o1 o2 : List Bool}
    (h1 : Reads bg s1 bg1 o1) (h2 : Reads bg1 s2 bg2 o2) : Reads bg (s1 ++ s2) bg2 (o1 ++ o2) := by
  intro fuel rest R h
  have := h1 _ _ _ (h2 fuel rest R h)
  simpa [Nat.add_assoc, Nat.add_comm s1.length] using this

theorem Reads.light (bg : Option Bool) : Reads bg (Model.esc "[1;47m") (some false) [] := by
  intro fuel rest R h
  rw [esc_light]
  have h' := readTtyLine_mono_add fuel 6 _ _ _ h
  show Spec.readTtyLine (fuel + 6 + 1) bg _ = _
  rw [List.cons_append, readTtyLine_esc]
  simp [List.takeWhile, List.dropWhile, h']

theorem Reads.dark (bg : Option Bool) : Reads bg (Model.esc "[40m") (some true) [] := by
  intro fuel rest R h
  rw [esc_dark]
  have h' := readTtyLine_mono_add fuel 4 _ _ _ h
  show Spec.readTtyLine (fuel + 4 + 1) bg _ = _
  rw [List.cons_append, readTtyLine_esc]
  simp [List.takeWhile, List.dropWhile, h']

theorem Reads.reset (bg : Option Bool) : Reads bg (Model.esc "[0m") none [] := by
  intro fuel rest R h
  rw [esc_reset]
  have h' := readTtyLine_mono_add fuel 3 _ _ _ h
  show Spec.readTtyLine (fuel + 3 + 1) bg _ = _
  rw [List.cons_append, readTtyLine_esc]
  simp [List.takeWhile, List.dropWhile, h']

theorem Reads.sp2 (b : Bool) : Reads (some b) (Model.sp 2) (some b) [b] := by
  intro fuel rest R h
  have h' := readTtyLine_mono_add fuel 1 _ _ _ h
  show Spec.readTtyLine (fuel + 1 + 1) (some b) (32 :: 32 :: rest) = _
  rw [readTtyLine_sp]
  simp [h']

theorem Reads.sp (b : Bool) (k : Nat) : Reads (some b) (Model.sp (k * 2)) (some b) (List.replicate k b) := by
  induction k with
  | zero => simpa [Model.sp] using Reads.nil (some b)
  | succ k ih =>
    have : Model.sp ((k + 1) * 2) = Model.sp 2 ++ Model.sp (k * 2) := by
      simp only [Model.sp, List.replicate_append_replicate]; congr 1; omega
    rw [this, List.replicate_succ]
    exact Reads.append (Reads.sp2 b) ih

/-- a complete line -/
theorem Reads.line {s : List Nat} {bg' : Option Bool} {out : List Bool} (h : Reads none s bg' out) :
    Spec.readTtyLine (s.length + 1) none s = some out := by
  have := h 1 [] [] (by simp [Spec.readTtyLine])
  simpa [Nat.add_comm] using this

/-! ### print_tty -/

/-- the text of one module of `print_tty` -/
def ttyCell (M : Model.Mods) (r c : Nat) : List Nat :=
  if (M.getD r []).getD c false then Model.sp 2 else Model.esc "[1;47m" ++ Model.sp 2 ++ Model.esc "[40m"

def ttyFrameLine (n : Nat) : List Nat := Model.esc "[1;47m" ++ Model.sp (n * 2 + 4) ++ Model.esc "[0m"

def ttyRowLine (M : Model.Mods) (n r : Nat) : List Nat :=
  Model.esc "[1;47m" ++ Model.sp 2 ++ Model.esc "[40m" ++ (List.range n).flatMap (ttyCell M r)
    ++ Model.esc "[1;47m" ++ Model.sp 2 ++ Model.esc "[0m"

def ttyLines (M : Model.Mods) (n : Nat) : List (List Nat) :=
  [ttyFrameLine n] ++ (List.range n).map (ttyRowLine M n) ++ [ttyFrameLine n]

theorem printTty_eq_lines (M : Model.Mods) (n : Nat) :
    Model.printTty M n = (ttyLines M n).flatMap (· ++ [10]) := by
  simp only [Model.printTty, ttyLines, List.flatMap_append, List.flatMap_cons, List.flatMap_nil,
    List.flatMap_map, List.append_nil]
  rfl

theorem ttyCell_no_nl (M : Model.Mods) (r c : Nat) : 10 ∉ ttyCell M r c := by
  unfold ttyCell
  split <;> simp [esc_light, esc_dark, Model.sp]

theorem ttyLines_no_nl (M : Model.Mods) (n : Nat) : ∀ l ∈ ttyLines M n, 10 ∉ l := by
  intro l hl
  simp only [ttyLines, List.mem_append, List.mem_singleton, List.mem_map, List.mem_range] at hl
  have hf : 10 ∉ ttyFrameLine n := by simp [ttyFrameLine, esc_light, esc_reset, Model.sp]
  rcases hl with (rfl | ⟨r, _, rfl⟩) | rfl
  · exact hf
  · simp only [ttyRowLine, esc_light, esc_dark, esc_reset, Model.sp, List.mem_append, List.mem_flatMap, not_or]
    refine ⟨⟨⟨⟨⟨⟨by simp, by simp⟩, by simp⟩, ?_⟩, by simp⟩, by simp⟩, by simp⟩
    rintro ⟨c, _, hc⟩
    exact ttyCell_no_nl M r c hc
  · exact hf

theorem Reads.cells (M : Model.Mods) (r : Nat) (l : List Nat) :
    Reads (some true) (l.flatMap (ttyCell M r)) (some true) (l.map (Spec.modAt M r)) := by
  induction l with
  | nil => simpa using Reads.nil (some true)
  | cons c l ih =>
    rw [List.flatMap_cons, List.map_cons]
    have hc : Reads (some true) (ttyCell M r c) (some true) [Spec.modAt M r c] := by
      unfold ttyCell Spec.modAt
      cases h : (M.getD r []).getD c false with
      | true => simpa using Reads.sp2 true
      | false =>
        simpa using Reads.append (Reads.append (Reads.light (some true)) (Reads.sp2 false)) (Reads.dark (some false))
    exact Reads.append hc ih

theorem readTtyLine_frameLine (n : Nat) :
    Spec.readTtyLine ((ttyFrameLine n).length + 1) none (ttyFrameLine n) = some (List.replicate (n + 2) false) := by
  apply Reads.line (bg' := none)
  have h := Reads.append (Reads.append (Reads.light none) (Reads.sp false (n + 2))) (Reads.reset (some false))
  have e : (n + 2) * 2 = n * 2 + 4 := by omega
  simpa [ttyFrameLine, e] using h

theorem readTtyLine_rowLine (M : Model.Mods) (n r : Nat) :
    Spec.readTtyLine ((ttyRowLine M n r).length + 1) none (ttyRowLine M n r)
      = some ([false] ++ (List.range n).map (Spec.modAt M r) ++ [false]) := by
  apply Reads.line (bg' := none)
  have h := Reads.append (Reads.append (Reads.append (Reads.append (Reads.append (Reads.append
    (Reads.light none) (Reads.sp2 false)) (Reads.dark (some false))) (Reads.cells M r (List.range n)))
    (Reads.light (some true))) (Reads.sp2 false)) (Reads.reset (some false))
  simpa [ttyRowLine] using h

/-- **C15 (tty)** for an arbitrary matrix read through `getD`: the colour-escape text reads back to the symbol framed
by one light module -/
theorem readTty_printTty_any (M : Model.Mods) (n : Nat) :
    Spec.readTty (Model.printTty M n) = some (Spec.frame M n 1) := by
  unfold Spec.readTty
  rw [printTty_eq_lines, splitLines_lines _ (ttyLines_no_nl M n)]
  · rw [Frame.frame_eq_blocks]
    have hrows := mapM_map_option_eq_some (ttyRowLine M n)
      (fun line => Spec.readTtyLine (line.length + 1) none line)
      (fun r => [false] ++ (List.range n).map (Spec.modAt M r) ++ [false]) (List.range n)
      (fun r _ => readTtyLine_rowLine M n r)
    simp only [ttyLines, List.mapM_append, List.mapM_cons, List.mapM_nil, readTtyLine_frameLine, hrows]
    simp
  · have := length_le_flatMap (ttyLines M n) (· ++ [10]) (by intro x _; simp)
    omega

theorem readTty_printTty (M : List (List Bool)) (n : Nat)
    (_hlen : M.length = n) (_hrow : ∀ row ∈ M, row.length = n) :
    Spec.readTty (Model.printTty M n) = some (Spec.frame M n 1) := readTty_printTty_any M n

/-! ### stripSgr -/

theorem stripSgr_esc (f : Nat) (t : List Nat) :
    Spec.stripSgr (f + 1) (0x1B :: t) = Spec.stripSgr f ((t.dropWhile (· ≠ 109)).drop 1) := by
  simp [Spec.stripSgr]

theorem stripSgr_plain (f c : Nat) (t : List Nat) (h : c ≠ 0x1B) :
    Spec.stripSgr (f + 1) (c :: t) = c :: Spec.stripSgr f t := by
  simp [Spec.stripSgr, h]

theorem length_drop_dropWhile_le (p : Nat → Bool) (t : List Nat) : ((t.dropWhile p).drop 1).length ≤ t.length := by
  have := (List.dropWhile_sublist (l := t) p).length_le
  simp only [List.length_drop]
  omega

/-- with enough fuel the result of `stripSgr` does not depend on the fuel -/
theorem stripSgr_fuel (f1 f2 : Nat) (s : List Nat) (h1 : s.length ≤ f1) (h2 : s.length ≤ f2) :
    Spec.stripSgr f1 s = Spec.stripSgr f2 s := by
  induction f1 generalizing f2 s with
  | zero =>
    cases s with
    | nil => cases f2 <;> simp [Spec.stripSgr]
    | cons c t => simp at h1
  | succ f ih =>
    cases s with
    | nil => cases f2 <;> simp [Spec.stripSgr]
    | cons c t =>
      cases f2 with
      | zero => simp at h2
      | succ g =>
        simp only [List.length_cons, Nat.add_le_add_iff_right] at h1 h2
        by_cases hc : c = 0x1B
        · subst hc
          rw [stripSgr_esc, stripSgr_esc]
          have := length_drop_dropWhile_le (· ≠ 109) t
          apply ih <;> omega
        · rw [stripSgr_plain _ _ _ hc, stripSgr_plain _ _ _ hc, ih _ _ h1 h2]

/-- `Strips s out`: the escape stripper turns the text `s` into `out`, whatever follows -/
def Strips (s out : List Nat) : Prop :=
  ∀ fuel rest, (s ++ rest).length ≤ fuel → Spec.stripSgr fuel (s ++ rest) = out ++ Spec.stripSgr rest.length rest

theorem Strips.nil : Strips [] [] := by
  intro fuel rest h
  simpa using stripSgr_fuel _ _ _ (by simpa using h) (Nat.le_refl _)

theorem Strips.append {s1 s2 o1 o2 : List Nat} (h1 : Strips s1 o1) (h2 : Strips s2 o2) :
    Strips (s1 ++ s2) (o1 ++ o2) := by
  intro fuel rest h
  rw [List.append_assoc] at h ⊢
  rw [h1 fuel (s2 ++ rest) h, h2 _ rest (Nat.le_refl _), List.append_assoc]

theorem Strips.plain (g : List Nat) (h : 27 ∉ g) : Strips g g := by
  induction g with
  | nil => exact Strips.nil
  | cons c g ih =>
    intro fuel rest hf
    simp only [List.mem_cons, not_or] at h
    cases fuel with
    | zero => simp at hf
    | succ f =>
      have hc : c ≠ 0x1B := fun e => h.1 e.symm
      rw [List.cons_append, stripSgr_plain _ _ _ hc, ih h.2 f rest (by simpa using hf), List.cons_append]

/-- an SGR sequence `ESC body m` is removed -/
theorem Strips.sgr (body : List Nat) (h : 109 ∉ body) : Strips (27 :: body ++ [109]) [] := by
  intro fuel rest hf
  cases fuel with
  | zero => simp at hf
  | succ f =>
    simp only [List.cons_append, List.append_assoc, List.nil_append]
    rw [stripSgr_esc, dropWhile_stop 109 body rest h]
    simp only [List.drop_succ_cons, List.drop_zero]
    apply stripSgr_fuel _ _ _ _ (Nat.le_refl _)
    simp at hf; omega

theorem Strips.flatMap {α} (l : List α) (f g : α → List Nat) (h : ∀ x ∈ l, Strips (f x) (g x)) :
    Strips (l.flatMap f) (l.flatMap g) := by
  induction l with
  | nil => simpa using Strips.nil
  | cons a l ih =>
    rw [List.flatMap_cons, List.flatMap_cons]
    exact Strips.append (h a (by simp)) (ih (fun x hx => h x (by simp [hx])))

theorem Strips.run {s out : List Nat} (h : Strips s out) (fuel : Nat) (hf : s.length ≤ fuel) :
    Spec.stripSgr fuel s = out := by
  have := h fuel [] (by simpa using hf)
  simpa [Spec.stripSgr] using this

theorem Strips.bg232 : Strips (Model.esc "[48;5;232m") [] := by
  rw [esc_bg232]; exact Strips.sgr [91, 52, 56, 59, 53, 59, 50, 51, 50] (by decide)
theorem Strips.fg255 : Strips (Model.esc "[38;5;255m") [] := by
  rw [esc_fg255]; exact Strips.sgr [91, 51, 56, 59, 53, 59, 50, 53, 53] (by decide)
theorem Strips.reset : Strips (Model.esc "[0m") [] := by
  rw [esc_reset]; exact Strips.sgr [91, 48] (by decide)

/-! ### print_ascii -/

/-- the module shown at display row `R`, column `j` by `print_ascii`: the framed symbol, or the phantom half-row
below it when the height is odd -/
def aDark (M : Model.Mods) (n b : Nat) (inv : Bool) (R j : Nat) : Bool :=
  if R < n + 2 * b then Spec.framed M n b R j else (inv && decide (b ≠ 0))

theorem getModule_eq (M : Model.Mods) (n b : Nat) (inv : Bool) (R j : Nat) (x y : Int)
    (hx : x = (R : Int) - b) (hy : y = (j : Int) - b) (hR : R ≤ n + 2 * b) (hj : j < n + 2 * b) :
    Model.getModule M n b inv x y = if aDark M n b inv R j then 1 else 0 := by
  subst hx hy
  unfold Model.getModule aDark Spec.framed Spec.modAt
  by_cases hR' : R < n + 2 * b
  · have h1 : ¬ (inv = true ∧ b ≠ 0 ∧ max ((R : Int) - b) ((j : Int) - b) ≥ (n : Int) + b) := by
      rintro ⟨_, _, h⟩; omega
    rw [if_neg h1]
    simp only [hR', if_true]
    by_cases hin : (b ≤ R ∧ R < b + n) ∧ (b ≤ j ∧ j < b + n)
    · have h2 : ¬ (min ((R : Int) - b) ((j : Int) - b) < 0 ∨ max ((R : Int) - b) ((j : Int) - b) ≥ (n : Int)) := by
        omega
      rw [if_neg h2]
      have e1 : ((R : Int) - b).toNat = R - b := by omega
      have e2 : ((j : Int) - b).toNat = j - b := by omega
      rw [e1, e2]
      simp [hin]
    · have h2 : (min ((R : Int) - b) ((j : Int) - b) < 0 ∨ max ((R : Int) - b) ((j : Int) - b) ≥ (n : Int)) := by
        omega
      rw [if_pos h2]
      have : (decide (b ≤ R) && decide (R < b + n) && decide (b ≤ j) && decide (j < b + n)) = false := by
        simp only [Bool.and_eq_false_iff, decide_eq_false_iff_not]; omega
      simp [this]
  · have hRe : R = n + 2 * b := by omega
    simp only [hR', if_false]
    by_cases hc : inv = true ∧ b ≠ 0
    · have h1 : (inv = true ∧ b ≠ 0 ∧ max ((R : Int) - b) ((j : Int) - b) ≥ (n : Int) + b) :=
        ⟨hc.1, hc.2, by omega⟩
      rw [if_pos h1]
      simp [hc.1, hc.2]
    · have h1 : ¬ (inv = true ∧ b ≠ 0 ∧ max ((R : Int) - b) ((j : Int) - b) ≥ (n : Int) + b) := by
        rintro ⟨h, h', _⟩; exact hc ⟨h, h'⟩
      rw [if_neg h1]
      have h2 : (min ((R : Int) - b) ((j : Int) - b) < 0 ∨ max ((R : Int) - b) ((j : Int) - b) ≥ (n : Int)) := by
        omega
      rw [if_pos h2]
      have : (inv && decide (b ≠ 0)) = false := by
        cases inv <;> simp_all
      rw [this]; rfl


/-- the glyph for an (upper, lower) pair of modules -/
def glyph (inv x y : Bool) : Nat :=
  (if inv then Model.asciiCodes.reverse else Model.asciiCodes).getD
    ((if x then 1 else 0) + 2 * (if y then 1 else 0)) 0

theorem glyph_ne_esc (inv x y : Bool) : glyph inv x y ≠ 27 := by
  cases inv <;> cases x <;> cases y <;> decide
theorem glyph_ne_nl (inv x y : Bool) : glyph inv x y ≠ 10 := by
  cases inv <;> cases x <;> cases y <;> decide
/-- reading a glyph with the convention ink = dark (normal) or ink = light (inverted) gives back the two modules -/
theorem glyphInk_glyph (inv x y : Bool) : Spec.glyphInk (glyph inv x y) = some (x != inv, y != inv) := by
  cases inv <;> cases x <;> cases y <;> decide
def asciiPre (n b : Nat) (tty inv : Bool) (k : Nat) : List Nat :=
  if tty then
    (if !inv ∨ (((2 * k : Nat) : Int) - (b : Int)) < (n : Int) + b - 1 then Model.esc "[48;5;232m" else [])
      ++ Model.esc "[38;5;255m"
  else []

def asciiPost (tty : Bool) : List Nat := if tty then Model.esc "[0m" else []

/-- the glyphs of text line `k` -/
def asciiGlyphs (M : Model.Mods) (n b : Nat) (inv : Bool) (k : Nat) : List Nat :=
  (List.range (n + 2 * b)).map fun j => glyph inv (aDark M n b inv (2 * k) j) (aDark M n b inv (2 * k + 1) j)

theorem printAscii_eq (M : Model.Mods) (n b : Nat) (tty invert : Bool) :
    Model.printAscii M n b tty invert =
      (List.range ((n + 2 * b + 1) / 2)).flatMap fun k =>
        asciiPre n b tty (invert || tty) k ++ asciiGlyphs M n b (invert || tty) k ++ asciiPost tty ++ [10] := by
  unfold Model.printAscii
  simp only []
  unfold List.flatMap
  congr 1
  apply List.map_congr_left
  intro k hk
  simp only [List.mem_range] at hk
  unfold asciiPre asciiPost asciiGlyphs
  congr 3
  apply List.map_congr_left
  intro j hj
  simp only [List.mem_range] at hj
  rw [getModule_eq M n b (invert || tty) (2 * k) j _ _ rfl rfl (by omega) hj,
    getModule_eq M n b (invert || tty) (2 * k + 1) j _ _ (by omega) rfl (by omega) hj]
  rfl

theorem asciiGlyphs_length (M : Model.Mods) (n b : Nat) (inv : Bool) (k : Nat) :
    (asciiGlyphs M n b inv k).length = n + 2 * b := by
  simp [asciiGlyphs]

theorem asciiGlyphs_no_esc (M : Model.Mods) (n b : Nat) (inv : Bool) (k : Nat) : 27 ∉ asciiGlyphs M n b inv k := by
  simp only [asciiGlyphs, List.mem_map, not_exists, not_and]
  intro j _ h
  exact glyph_ne_esc _ _ _ h

theorem asciiGlyphs_no_nl (M : Model.Mods) (n b : Nat) (inv : Bool) (k : Nat) : 10 ∉ asciiGlyphs M n b inv k := by
  simp only [asciiGlyphs, List.mem_map, not_exists, not_and]
  intro j _ h
  exact glyph_ne_nl _ _ _ h

theorem Strips.asciiPre (n b : Nat) (tty inv : Bool) (k : Nat) : Strips (asciiPre n b tty inv k) [] := by
  unfold Text.asciiPre
  cases tty with
  | false => exact Strips.nil
  | true =>
    simp only [if_true]
    split
    · exact Strips.append Strips.bg232 Strips.fg255
    · exact Strips.append Strips.nil Strips.fg255

theorem Strips.asciiPost (tty : Bool) : Strips (asciiPost tty) [] := by
  unfold Text.asciiPost
  cases tty with
  | false => exact Strips.nil
  | true => exact Strips.reset

/-- the escape-free text: the glyph lines, each terminated by a newline -/
theorem stripSgr_printAscii (M : Model.Mods) (n b : Nat) (tty invert : Bool) (fuel : Nat)
    (hf : (Model.printAscii M n b tty invert).length ≤ fuel) :
    Spec.stripSgr fuel (Model.printAscii M n b tty invert) =
      ((List.range ((n + 2 * b + 1) / 2)).map (asciiGlyphs M n b (invert || tty))).flatMap (· ++ [10]) := by
  apply Strips.run _ fuel hf
  rw [printAscii_eq, List.flatMap_map]
  apply Strips.flatMap
  intro k _
  have h := Strips.append (Strips.append (Strips.append (Strips.asciiPre n b tty (invert || tty) k)
    (Strips.plain _ (asciiGlyphs_no_esc M n b (invert || tty) k))) (Strips.asciiPost tty))
    (Strips.plain [10] (by decide))
  simpa using h

/-- the lines the reader sees are exactly the glyph rows -/
theorem asciiLines (M : Model.Mods) (n b : Nat) (tty invert : Bool) :
    Spec.splitLines ((Model.printAscii M n b tty invert).length + 1)
      (Spec.stripSgr ((Model.printAscii M n b tty invert).length + 1) (Model.printAscii M n b tty invert))
      = (List.range ((n + 2 * b + 1) / 2)).map (asciiGlyphs M n b (invert || tty)) := by
  rw [stripSgr_printAscii M n b tty invert _ (Nat.le_succ _)]
  apply splitLines_lines
  · intro l hl
    simp only [List.mem_map] at hl
    obtain ⟨k, _, rfl⟩ := hl
    exact asciiGlyphs_no_nl M n b _ k
  · have := length_le_flatMap (List.range ((n + 2 * b + 1) / 2))
      (fun k => asciiPre n b tty (invert || tty) k ++ asciiGlyphs M n b (invert || tty) k ++ asciiPost tty ++ [10])
      (by intro x _; simp only [List.length_append, List.length_singleton]; omega)
    rw [← printAscii_eq] at this
    simp only [List.length_map] at this ⊢
    omega

/-- **C15**: every text line of `print_ascii` has exactly n + 2*border glyphs (escapes stripped) -/
theorem printAscii_line_length (M : List (List Bool)) (n border : Nat) (tty invert : Bool) :
    ∀ line ∈ Spec.splitLines ((Model.printAscii M n border tty invert).length + 1)
        (Spec.stripSgr ((Model.printAscii M n border tty invert).length + 1) (Model.printAscii M n border tty invert)),
      line.length = n + 2 * border := by
  rw [asciiLines]
  intro line hl
  simp only [List.mem_map] at hl
  obtain ⟨k, _, rfl⟩ := hl
  exact asciiGlyphs_length M n border _ k

/-- number of text lines of `print_ascii`: half the framed height, rounded up -/
theorem printAscii_line_count (M : List (List Bool)) (n border : Nat) (tty invert : Bool) :
    (Spec.splitLines ((Model.printAscii M n border tty invert).length + 1)
        (Spec.stripSgr ((Model.printAscii M n border tty invert).length + 1)
          (Model.printAscii M n border tty invert))).length = (n + 2 * border + 1) / 2 := by
  rw [asciiLines]; simp

/-- display row `R` (the framed symbol, plus the phantom half-row at `R = n + 2*b`) -/
def aRow (M : Model.Mods) (n b : Nat) (inv : Bool) (R : Nat) : List Bool :=
  (List.range (n + 2 * b)).map (aDark M n b inv R)

theorem flatMap_pairs {α} (F : Nat → α) (m : Nat) :
    (List.range m).flatMap (fun k => [F (2 * k), F (2 * k + 1)]) = (List.range (2 * m)).map F := by
  induction m with
  | zero => simp
  | succ m ih =>
    have e : 2 * (m + 1) = (2 * m + 1) + 1 := by omega
    rw [List.range_succ, List.flatMap_append, ih, e, List.range_succ, List.range_succ]
    simp

/-- the reader's result before dropping the phantom row: the 2 * ceil(height / 2) display rows -/
theorem readHalfBlocks_printAscii_rows (M : Model.Mods) (n b : Nat) (tty invert : Bool) :
    Spec.readHalfBlocks (invert || tty) (Model.printAscii M n b tty invert)
      = some ((List.range (2 * ((n + 2 * b + 1) / 2))).map (aRow M n b (invert || tty))) := by
  unfold Spec.readHalfBlocks
  simp only []
  rw [asciiLines]
  generalize (invert || tty) = inv
  have hline : ∀ k ∈ List.range ((n + 2 * b + 1) / 2),
      (asciiGlyphs M n b inv k).mapM Spec.glyphInk =
        some ((List.range (n + 2 * b)).map fun j =>
          (aDark M n b inv (2 * k) j != inv, aDark M n b inv (2 * k + 1) j != inv)) := by
    intro k _
    exact mapM_map_option_eq_some _ Spec.glyphInk _ _ (fun j _ => glyphInk_glyph inv _ _)
  rw [mapM_map_option_eq_some (asciiGlyphs M n b inv) (fun line => line.mapM Spec.glyphInk) _ _ hline]
  simp only [Option.map_some, List.flatMap_map, List.map_map]
  rw [← flatMap_pairs]
  congr 2
  funext k
  simp [aRow, Function.comp_def]

theorem aRow_eq_frameRow (M : Model.Mods) (n b : Nat) (inv : Bool) (R : Nat) (h : R < n + 2 * b) :
    aRow M n b inv R = Frame.frameRow M n b R := by
  unfold aRow Frame.frameRow aDark
  simp [h]

/-- **C15 (ascii)** for an arbitrary matrix read through `getD` -/
theorem readHalfBlocks_printAscii_any (M : Model.Mods) (n border : Nat) (tty invert : Bool) :
    (Spec.readHalfBlocks (invert || tty) (Model.printAscii M n border tty invert)).map (·.take (n + 2 * border))
      = some (Spec.frame M n border) := by
  rw [readHalfBlocks_printAscii_rows, Option.map_some, ← List.map_take, List.take_range,
    Nat.min_eq_left (by omega), Frame.frame_eq_map]
  congr 1
  apply List.map_congr_left
  intro R hR
  exact aRow_eq_frameRow M n border _ R (by simpa using hR)

/-- **C15 (ascii)**: the half-block text, read back with the glyph conventions (ink = dark normally, ink = light when
inverted; tty forces invert; SGR escapes stripped), reproduces the matrix framed by `border`; when the height
n + 2*border is odd the reader yields one extra phantom half-row, which `take` drops -/
theorem readHalfBlocks_printAscii (M : List (List Bool)) (n border : Nat)
    (_hlen : M.length = n) (_hrow : ∀ row ∈ M, row.length = n) (tty invert : Bool) :
    (Spec.readHalfBlocks (invert || tty) (Model.printAscii M n border tty invert)).map (·.take (n + 2 * border))
      = some (Spec.frame M n border) := readHalfBlocks_printAscii_any M n border tty invert

end QR.Proofs.Text
