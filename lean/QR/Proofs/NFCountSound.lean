import QR.Proofs.NFCountDefs
/-
C05: `nfCount v` is the number of cells of the version-v symbol with `Spec.isFunction v r c = false`.
-/
namespace QR.GeoC
open QR

/-! ### plumbing -/

theorem forceN_eq {α : Type} (a : Nat) (k : Nat → α) : forceN a k = k a := by cases a <;> rfl

theorem forceL_eq {α : Type} (l : List Nat) (k : List Nat → α) : forceL l k = k l := by
  induction l generalizing k with
  | nil => rfl
  | cons a t ih => simp only [forceL, forceN_eq, ih]

theorem cntRow_eq (f : Nat → Bool) (k : Nat) : cntRow f k = (List.range k).countP fun c => !f c := by
  induction k with
  | zero => rfl
  | succ k ih =>
    rw [cntRow, ih, List.range_succ, List.countP_append, List.countP_singleton]
    cases f k <;> simp

theorem cntRow_congr {f g : Nat → Bool} {k : Nat} (h : ∀ c, c < k → f c = g c) : cntRow f k = cntRow g k := by
  induction k with
  | zero => rfl
  | succ k ih =>
    rw [cntRow, cntRow, ih (fun c hc => h c (by omega)), h k (by omega)]

theorem beq_false_of_ne {a b : Nat} (h : a ≠ b) : Nat.beq a b = false := by
  rw [← Bool.not_eq_true, Nat.beq_eq]; exact h

theorem cntRow_beq6 (n : Nat) : cntRow (fun c => Nat.beq c 6) n = if n ≤ 6 then n else n - 1 := by
  induction n with
  | zero => rfl
  | succ n ih =>
    rw [cntRow, ih]
    by_cases h : n = 6
    · subst h; rfl
    · rw [beq_false_of_ne h]
      simp only [cond_false]
      split <;> split <;> omega

/-! ### the alignment test -/

/-- `Spec.inAlignment` with Bool primitives, over an explicit centre list -/
def alignF (cs : List Nat) (last r c : Nat) : Bool :=
  cs.any fun r0 => nearB r r0 && cs.any fun c0 => nearB c c0 && !exclB last r0 c0

theorem alignRow_filter (cs : List Nat) (last r c : Nat) :
    alignRow (cs.filter (nearB r)) cs last c = alignF cs last r c := by
  rw [Bool.eq_iff_iff]
  simp only [alignRow, alignF, List.any_eq_true, Bool.and_eq_true, List.mem_filter]
  constructor
  · rintro ⟨c0, hc0, hn, r0, ⟨hr0, hnr⟩, he⟩
    exact ⟨r0, hr0, hnr, c0, hc0, hn, he⟩
  · rintro ⟨r0, hr0, hnr, c0, hc0, hn, he⟩
    exact ⟨c0, hc0, hn, r0, ⟨hr0, hnr⟩, he⟩

theorem alignF_of_filter_nil (cs : List Nat) (last r c : Nat) (h : cs.filter (nearB r) = []) :
    alignF cs last r c = false := by
  rw [← alignRow_filter, h]
  simp [alignRow]

theorem dist_le_iff (a b k : Nat) : Spec.dist a b ≤ k ↔ a ≤ b + k ∧ b ≤ a + k := by
  unfold Spec.dist; split <;> omega

theorem nearB_iff (a b : Nat) : nearB a b = true ↔ Spec.dist a b ≤ 2 := by
  simp only [nearB, Bool.and_eq_true, Nat.ble_eq, dist_le_iff]

theorem natbeq_eq_beq (a b : Nat) : Nat.beq a b = (a == b) := by
  rw [Bool.eq_iff_iff, Nat.beq_eq, beq_iff_eq]

theorem exclB_eq (last r0 c0 : Nat) :
    exclB last r0 c0 = ((r0 == 6 && c0 == 6) || (r0 == 6 && c0 == last) || (r0 == last && c0 == 6)) := by
  simp only [exclB, natbeq_eq_beq]

theorem isSome_ite_prop {α : Type} (p : Prop) [Decidable p] (o : Option α) :
    (if p then o else none).isSome = true ↔ p ∧ o.isSome = true := by
  by_cases h : p <;> simp [h]

theorem inAlignment_eq (v r c : Nat) :
    Spec.inAlignment v r c = alignF (Spec.alignmentCentres v) (4 * v + 10) r c := by
  rw [Bool.eq_iff_iff]
  unfold Spec.inAlignment Spec.alignOf alignF
  simp only [List.findSome?_isSome_iff, isSome_ite_prop, List.any_eq_true, Bool.and_eq_true,
    nearB_iff, exclB_eq, decide_eq_true_eq, Option.isSome_some, and_true]

/-! ### the other function patterns -/

theorem cheb_le_iff (r c r0 c0 k : Nat) : Spec.cheb r c r0 c0 ≤ k ↔ Spec.dist r r0 ≤ k ∧ Spec.dist c c0 ≤ k := by
  unfold Spec.cheb; exact Nat.max_le

theorem inFinderArea_eq (n r c : Nat) (hn : 21 ≤ n) (hr : r < n) (hc : c < n) :
    Spec.inFinderArea n r c = finderF n r c := by
  rw [Bool.eq_iff_iff]
  simp only [Spec.inFinderArea, Spec.finderCentres, List.any_cons, List.any_nil, Bool.or_false, Bool.or_eq_true,
    decide_eq_true_eq, cheb_le_iff, dist_le_iff, finderF, Bool.and_eq_true, Nat.ble_eq]
  omega

theorem ble_false_iff (a b : Nat) : Nat.ble a b = false ↔ b < a := by
  rw [← Bool.not_eq_true, Nat.ble_eq]; omega

/-- `Spec.isFunction` in terms of the Bool-primitive tests -/
theorem isFunction_eq (v r c : Nat) (hv : 1 ≤ v) (hr : r < Spec.size v) (hc : c < Spec.size v) :
    Spec.isFunction v r c =
      (baseF v (Spec.size v) r c || alignF (Spec.alignmentCentres v) (Spec.size v - 7) r c) := by
  have hn : 21 ≤ Spec.size v := by unfold Spec.size; omega
  have hl : Spec.size v - 7 = 4 * v + 10 := by unfold Spec.size; omega
  unfold Spec.isFunction Spec.inTiming
  simp only []
  rw [inFinderArea_eq _ r c hn hr hc, inAlignment_eq, hl]
  generalize alignF (Spec.alignmentCentres v) (4 * v + 10) r c = A
  generalize Spec.size v = n at *
  rw [Bool.eq_iff_iff]
  cases A <;>
    simp only [baseF, finderF, formatF, versionF, Spec.isDarkModule, Spec.inFormat, Spec.inVersion, Bool.or_eq_true,
      Bool.and_eq_true, Nat.ble_eq, Nat.beq_eq, beq_iff_eq, bne_iff_ne, decide_eq_true_eq, Bool.not_eq_true',
      Bool.or_false, Bool.or_true, true_or, ge_iff_le, ne_eq,
      Bool.or_eq_false_iff, Bool.and_eq_false_imp, ble_false_iff] <;> omega

/-! ### rows and grid -/

theorem baseF_mid (v n r c : Nat) (h9 : 9 ≤ r) (hn : r + 12 ≤ n) : baseF v n r c = Nat.beq c 6 := by
  rw [Bool.eq_iff_iff]
  simp only [baseF, finderF, formatF, versionF, Bool.or_eq_true, Bool.and_eq_true, Nat.ble_eq, Nat.beq_eq]
  omega

theorem rowCount_eq (cs : List Nat) (v n r : Nat) :
    rowCount cs v n r = cntRow (fun c => baseF v n r c || alignF cs (n - 7) r c) n := by
  unfold rowCount
  rw [forceL_eq]
  split
  · next hmid hrs =>
    simp only [Bool.and_eq_true, Nat.ble_eq] at hmid
    rw [cntRow_congr (g := fun c => Nat.beq c 6), cntRow_beq6]
    · split <;> omega
    · intro c _
      simp only [baseF_mid v n r c hmid.1 hmid.2, alignF_of_filter_nil cs _ r c hrs, Bool.or_false]
  · next a t hmid hrs =>
    simp only [Bool.and_eq_true, Nat.ble_eq] at hmid
    apply cntRow_congr
    intro c _
    simp only [baseF_mid v n r c hmid.1 hmid.2, alignRow_filter]
  · next hmid hrs =>
    apply cntRow_congr
    intro c _
    simp only [alignF_of_filter_nil cs _ r c hrs, Bool.or_false]
  · next a t hmid hrs =>
    apply cntRow_congr
    intro c _
    simp only [alignRow_filter]

theorem gridCount_eq (cs : List Nat) (v n k : Nat) :
    gridCount cs v n k =
      ((List.range k).map fun r => (List.range n).countP fun c => !(baseF v n r c || alignF cs (n - 7) r c)).sum := by
  induction k with
  | zero => rfl
  | succ k ih =>
    rw [gridCount, ih, rowCount_eq, cntRow_eq, List.range_succ, List.map_append, List.sum_append]
    simp

/-- the cells of an n x n square, row by row -/
def grid (n : Nat) : List (Nat × Nat) := (List.range n).flatMap fun r => (List.range n).map fun c => (r, c)

theorem mem_grid (n r c : Nat) : (r, c) ∈ grid n ↔ r < n ∧ c < n := by
  simp only [grid, List.mem_flatMap, List.mem_map, List.mem_range, Prod.mk.injEq]
  constructor
  · rintro ⟨r', hr', c', hc', rfl, rfl⟩; exact ⟨hr', hc'⟩
  · rintro ⟨hr, hc⟩; exact ⟨r, hr, c, hc, rfl, rfl⟩

theorem grid_nodup (n : Nat) : (grid n).Nodup := by
  unfold grid List.Nodup
  rw [List.pairwise_flatMap]
  constructor
  · intro r _
    rw [List.pairwise_map]
    exact (List.nodup_range (n := n)).imp fun h e => h (by simpa using e)
  · refine (List.nodup_range (n := n)).imp ?_
    intro r1 r2 hne x hx y hy
    simp only [List.mem_map] at hx hy
    obtain ⟨_, _, rfl⟩ := hx
    obtain ⟨_, _, rfl⟩ := hy
    intro e
    exact hne (Prod.mk.inj e).1

/-- `nfCount v` counts the cells with `isFunction v r c = false` -/
theorem nfCount_eq (v : Nat) (hv : 1 ≤ v) :
    nfCount v = (grid (Spec.size v)).countP fun p => !Spec.isFunction v p.1 p.2 := by
  unfold nfCount
  rw [forceL_eq, forceN_eq, gridCount_eq, grid, List.countP_flatMap]
  congr 1
  apply List.map_congr_left
  intro r hr
  have hr := List.mem_range.mp hr
  simp only [Function.comp, List.countP_map]
  apply List.countP_congr
  intro c hc
  have hc := List.mem_range.mp hc
  simp only [Function.comp, isFunction_eq v r c hv hr hc]

end QR.GeoC
