import QR.Proofs.Blank
import QR.Proofs.TypeInfo
import QR.Proofs.PlacementSpec
/-
C05 / C01, composition: the matrix `makeImpl` returns, cell by cell.
  blank (finder, separator, timing, alignment)  = `Spec.blankCell`     (Blank.lean)
  setup_type_info / setup_type_number            = `Spec.infoCell`      (TypeInfo.lean)
  map_data                                       = zig-zag placement    (PlacementSpec.lean)
glued by: a cell is a function module iff `blankCell` or `infoCell` is defined there.
-/
namespace QR.Sym
open QR

theorem size_eq (v : Nat) : v * 4 + 17 = Spec.size v := by unfold Spec.size; omega

theorem blankCell_isSome_iff (v r c : Nat) :
    (Spec.blankCell v r c).isSome = true ↔
      (Spec.inFinderArea (Spec.size v) r c = true ∨ Spec.inAlignment v r c = true ∨
        Spec.inTiming (Spec.size v) r c = true) := by
  unfold Spec.blankCell
  simp only []
  cases Spec.inFinderArea (Spec.size v) r c <;> cases Spec.inAlignment v r c <;>
    cases Spec.inTiming (Spec.size v) r c <;> simp

/-- inside the symbol, the function modules are exactly the cells of the blank matrix plus the format / version /
    dark-module cells -/
theorem isFunction_iff (v level mask : Nat) (hv : 1 ≤ v) (test : Bool) (r c : Nat)
    (hr : r < Spec.size v) (hc : c < Spec.size v) :
    Spec.isFunction v r c = true ↔
      ((Spec.blankCell v r c).isSome = true ∨ (Spec.infoCell v level mask test r c).isSome = true) := by
  rw [blankCell_isSome_iff, GeoB.infoCell_isSome_iff v level mask hv test r c hr hc]
  unfold Spec.isFunction
  simp only [Bool.or_eq_true]
  grind

/-- a cell of the blank matrix is not a format / version / dark-module cell -/
theorem infoCell_none_of_blank (v level mask : Nat) (h1 : 1 ≤ v) (h40 : v ≤ 40) (test : Bool) (r c : Nat)
    (hr : r < Spec.size v) (hc : c < Spec.size v) (h : (Spec.blankCell v r c).isSome = true) :
    Spec.infoCell v level mask test r c = none := by
  cases hi : Spec.infoCell v level mask test r c with
  | none => rfl
  | some b =>
    have := (GeoB.infoCell_isSome_iff v level mask h1 test r c hr hc).mp (by rw [hi]; rfl)
    have hb : Spec.blankCell v r c = none := by
      apply GeoB.blankCell_none_of_info v r c h1 h40
      grind
    rw [hb] at h; cases h

/-- the dark module is an `infoCell` holding `!test` -/
theorem infoCell_dark (v level mask : Nat) (hv : 1 ≤ v) (test : Bool) (r c : Nat)
    (h : Spec.isDarkModule (Spec.size v) r c = true) : Spec.infoCell v level mask test r c = some (!test) := by
  have hn : 21 ≤ Spec.size v := by simp only [Spec.size]; omega
  rw [GeoB.infoCell_eq v level mask hv]
  simp only [Spec.isDarkModule, Bool.and_eq_true, beq_iff_eq] at h
  obtain ⟨hr, hc⟩ := h
  subst hr hc
  generalize Spec.size v = n at *
  have e1 : GeoB.inv1 (n - 8) 8 = none := by unfold GeoB.inv1; grind
  have e2 : GeoB.inv2 n (n - 8) 8 = none := by unfold GeoB.inv2; grind
  simp only [e1, e2, and_self, if_true]

/-- `fixedColour` = `blankCell`, plus the dark module -/
theorem fixedColour_cases (v r c : Nat) (b : Bool) (h : Spec.fixedColour v r c = some b) :
    Spec.blankCell v r c = some b ∨ (Spec.isDarkModule (Spec.size v) r c = true ∧ b = true) := by
  unfold Spec.fixedColour at h
  unfold Spec.blankCell
  simp only [] at h ⊢
  cases h1 : Spec.inFinderArea (Spec.size v) r c <;> cases h2 : Spec.inAlignment v r c <;>
    cases h3 : Spec.inTiming (Spec.size v) r c <;> cases h4 : Spec.isDarkModule (Spec.size v) r c <;>
    simp_all

/-- `makeImpl` = `map_data` on a matrix `T` (blank + type info + type number) whose `None` cells are exactly the
    non-function modules and whose other cells hold `blankCell` / `infoCell` -/
theorem makeImpl_eq (v level mask : Nat) (test : Bool) (data : List Nat)
    (h1 : 1 ≤ v) (h40 : v ≤ 40) (hl : level < 4) (hk : mask < 8) :
    ∃ T, Model.makeImpl v level test mask data = .ok (Model.mapData (Spec.size v) T data mask) ∧
      MatShape T (Spec.size v) ∧ GeoC.NoneIffData v T ∧
      (∀ r c b, r < Spec.size v → c < Spec.size v → Spec.blankCell v r c = some b → T.get r c = some b) ∧
      (∀ r c b, r < Spec.size v → c < Spec.size v → Spec.infoCell v level mask test r c = some b →
        T.get r c = some b) := by
  obtain ⟨B, hB, hBs, hBg⟩ := blank_spec v h1 h40
  obtain ⟨hTs, hTg⟩ := GeoB.typeInfo_get v level mask test B h1 h40 hl hk hBs
  generalize hT : (if v ≥ 7 then Model.setupTypeNumber (Spec.size v) v
      (Model.setupTypeInfo (Spec.size v) level B test mask) test
    else Model.setupTypeInfo (Spec.size v) level B test mask) = T at hTs hTg
  refine ⟨T, ?_, hTs, ?_, ?_, ?_⟩
  · unfold Model.makeImpl
    rw [hB, R.bind_ok, if_neg (by omega)]
    simp only [size_eq, hT]
    rfl
  · intro r c hr hc
    rw [hTg r c hr hc, ← Bool.not_eq_true, isFunction_iff v level mask h1 test r c hr hc, hBg r c hr hc]
    cases Spec.infoCell v level mask test r c <;> cases Spec.blankCell v r c <;> simp
  · intro r c b hr hc hb
    rw [hTg r c hr hc, infoCell_none_of_blank v level mask h1 h40 test r c hr hc (by rw [hb]; rfl), hBg r c hr hc, hb]
  · intro r c b hr hc hb
    rw [hTg r c hr hc, hb]

/-- **S1**: `makeImpl`, for every version, level, mask, test flag and codeword list, returns a full-size matrix in
    which every module is definite, the finder / separator / timing / alignment modules hold their ISO colours, the
    format / version / dark-module cells hold the bits of the ISO words, and the remaining cells, read in zig-zag
    order and unmasked, are the codeword bits followed by zeros -/
theorem makeImpl_spec (v level mask : Nat) (test : Bool) (data : List Nat)
    (h1 : 1 ≤ v) (h40 : v ≤ 40) (hl : level < 4) (hk : mask < 8) :
    ∃ M, Model.makeImpl v level test mask data = .ok M ∧ MatShape M (Spec.size v) ∧
      (∀ r c, r < Spec.size v → c < Spec.size v → (M.get r c).isSome = true) ∧
      (∀ r c b, r < Spec.size v → c < Spec.size v → Spec.blankCell v r c = some b → M.get r c = some b) ∧
      (∀ r c b, r < Spec.size v → c < Spec.size v → Spec.infoCell v level mask test r c = some b →
        M.get r c = some b) ∧
      (∀ S : Spec.Sym, GeoC.Shows S (Spec.size v) M →
        Spec.readRaw S v mask = GeoC.padTake (Spec.rawModules v) (Model.codewordBits data)) ∧
      (∀ S : Spec.Sym, GeoC.Shows S (Spec.size v) M → data.length = Spec.totalCodewords v →
        (∀ b ∈ data, b < 256) →
        (Spec.readRaw S v mask).length = Spec.rawModules v ∧
        Spec.bytesOfBits (Spec.totalCodewords v) (Spec.readRaw S v mask) = data ∧
        (Spec.readRaw S v mask).drop (8 * Spec.totalCodewords v) = List.replicate (Spec.remainderBits v) false) := by
  obtain ⟨T, hM, hTs, hnone, hblank, hinfo⟩ := makeImpl_eq v level mask test data h1 h40 hl hk
  refine ⟨Model.mapData (Spec.size v) T data mask, hM, GeoC.mapData_shape _ _ _ hTs _, ?_, ?_, ?_, ?_, ?_⟩
  · exact fun r c hr hc => GeoC.mapData_all_some v mask T hTs hnone data r c hr hc
  · exact fun r c b hr hc hb => GeoC.mapData_keeps _ _ _ hTs _ r c b (hblank r c b hr hc hb)
  · exact fun r c b hr hc hb => GeoC.mapData_keeps _ _ _ hTs _ r c b (hinfo r c b hr hc hb)
  · exact fun S hS => GeoC.readRaw_mapData v mask h1 h40 hk T hTs hnone data S hS
  · exact fun S hS hlen hby => GeoC.readRaw_codewords v mask h1 h40 hk T hTs hnone data hlen hby S hS

/-- cell-level form of the placement: the `i`-th cell of the ISO zig-zag order, when it is not a function module, holds
    bit `k` of the codeword stream (zero past its end) xor the mask condition, `k` = number of non-function cells
    before it in the zig-zag order -/
theorem makeImpl_cell (v level mask : Nat) (test : Bool) (data : List Nat) (M : Model.Mat)
    (h1 : 1 ≤ v) (h40 : v ≤ 40) (hl : level < 4) (hk : mask < 8)
    (hM : Model.makeImpl v level test mask data = .ok M)
    (i : Nat) (hi : i < (Spec.zigzag (Spec.size v)).length)
    (hf : Spec.isFunction v (Spec.zigzag (Spec.size v))[i].1 (Spec.zigzag (Spec.size v))[i].2 = false) :
    M.get (Spec.zigzag (Spec.size v))[i].1 (Spec.zigzag (Spec.size v))[i].2 =
      some (xor ((Model.codewordBits data).getD
                  (((Spec.zigzag (Spec.size v)).take i).countP fun p => !Spec.isFunction v p.1 p.2) false)
                (Spec.maskCond mask (Spec.zigzag (Spec.size v))[i].1 (Spec.zigzag (Spec.size v))[i].2)) := by
  obtain ⟨T, hM', hTs, hnone, _, _⟩ := makeImpl_eq v level mask test data h1 h40 hl hk
  rw [hM] at hM'
  have hM'' := Except.ok.inj hM'
  subst hM''
  exact GeoC.mapData_nth v mask hk T hTs hnone data i hi hf

/-- the raw bit count: codewords plus remainder bits -/
theorem rawModules_eq (v : Nat) : Spec.rawModules v = 8 * Spec.totalCodewords v + Spec.remainderBits v := by
  unfold Spec.totalCodewords Spec.remainderBits
  omega

end QR.Sym
