import QR.Gen.Code
import QR.Model.Matrix
/-
Translation validation, list A1: `util.BCH_digit`, `util.BCH_type_info`, `util.BCH_type_number`.
The fragments `QR.Gen.Code.bch_*` / `const_G*` are produced by tools/t2_fragments/frag_a.py from the Python AST; here the
hand-written Model (`bchDigit`, `bchRem`, `bchTypeInfo`, `bchTypeNumber`) is proved equal to the generic `while` loop
instantiated with the translated condition / update / result.
-/
namespace QR.SourceTieA
open QR QR.Model QR.Gen.Code

/-- generic fuel-bounded Python `while cond(s): s = step(s)` -/
def whileFuel {σ : Type} (cond : σ → Bool) (step : σ → σ) : Nat → σ → σ
  | 0, s => s
  | fuel + 1, s => if cond s then whileFuel cond step fuel (step s) else s

/-- big-step semantics of the `while` statement (no fuel): the loop started in `s` terminates in `s'` -/
inductive While {σ : Type} (cond : σ → Bool) (step : σ → σ) : σ → σ → Prop
  | exit {s} : cond s = false → While cond step s s
  | iter {s s'} : cond s = true → While cond step (step s) s' → While cond step s s'

/-- a fuel-bounded run that ends in a state refuting the condition is a terminating run of the `while` statement -/
theorem While.of_fuel {σ : Type} (cond : σ → Bool) (step : σ → σ) :
    ∀ (fuel : Nat) (s : σ), cond (whileFuel cond step fuel s) = false → While cond step s (whileFuel cond step fuel s)
  | 0, s, h => .exit h
  | fuel + 1, s, h => by
    unfold whileFuel at h ⊢
    by_cases hc : cond s = true
    · rw [if_pos hc] at h ⊢
      exact .iter hc (While.of_fuel cond step fuel (step s) h)
    · rw [if_neg hc] at h ⊢
      exact .exit h

/-! ### the module-level constants -/

theorem consts_src : const_G15 = Gen.G15 ∧ const_G18 = Gen.G18 ∧ const_G15_MASK = Gen.G15_MASK := by decide

/-! ### BCH_digit -/

theorem bchDigit_zero : bchDigit 0 = 0 := by simp [bchDigit]

theorem bchDigit_succ_shift (d : Nat) (h : d ≠ 0) : bchDigit d = bchDigit (d >>> 1) + 1 := by
  unfold bchDigit
  rw [if_neg h, Nat.shiftRight_eq_div_pow, Nat.pow_one]
  by_cases h2 : d / 2 = 0
  · rw [if_pos h2]
    have : d = 1 := by omega
    subst this; decide
  · rw [if_neg h2]
    rw [Nat.log2_def d]
    have : 2 ≤ d := by omega
    rw [if_pos this]

/-- `bchDigit d ≤ k ↔ d < 2 ^ k` -/
theorem bchDigit_le_iff (d k : Nat) : bchDigit d ≤ k ↔ d < 2 ^ k := by
  unfold bchDigit
  by_cases h : d = 0
  · subst h; simp [Nat.two_pow_pos]
  · rw [if_neg h]
    have := Nat.log2_lt (n := d) (k := k) h
    omega

theorem lt_two_pow_bchDigit (d : Nat) : d < 2 ^ bchDigit d := (bchDigit_le_iff d _).1 (Nat.le_refl _)

/-- state of the `BCH_digit` loop is `(data, digit)` -/
def digitCond (s : Nat × Nat) : Bool := bch_digit_cond s.1 s.2
def digitStep (s : Nat × Nat) : Nat × Nat := bch_digit_step s.1 s.2

theorem digitLoop (fuel : Nat) : ∀ data digit : Nat, bchDigit data ≤ fuel →
    whileFuel digitCond digitStep fuel (data, digit) = (0, digit + bchDigit data) := by
  induction fuel with
  | zero =>
    intro data digit h
    have h0 : data = 0 := by
      have := (bchDigit_le_iff data 0).1 h
      omega
    subst h0
    simp [whileFuel, bchDigit_zero]
  | succ fuel ih =>
    intro data digit h
    unfold whileFuel
    by_cases h0 : data = 0
    · subst h0
      simp [digitCond, bch_digit_cond, bchDigit_zero]
    · have hs := bchDigit_succ_shift data h0
      have hc : digitCond (data, digit) = true := by simp [digitCond, bch_digit_cond, h0]
      rw [if_pos hc]
      have : digitStep (data, digit) = (data >>> 1, digit + 1) := rfl
      rw [this, ih (data >>> 1) (digit + 1) (by omega)]
      simp only [Prod.mk.injEq, true_and]
      omega

/-- **BCH_digit**: for every argument and every sufficient fuel (`data < 2 ^ fuel`), running the translated loop
    (`digit = 0; while data != 0: digit += 1; data >>= 1; return digit`) yields `Model.bchDigit data`, and the loop has
    exited (its condition is false in the final state). -/
theorem bchDigit_src (data fuel : Nat) (h : data < 2 ^ fuel) :
    let s := whileFuel digitCond digitStep fuel (bch_digit_init data)
    bchDigit data = bch_digit_result s.1 s.2 ∧ digitCond s = false := by
  have := digitLoop fuel data 0 ((bchDigit_le_iff data fuel).2 h)
  simp only [bch_digit_init]
  rw [this]
  simp [bch_digit_result, digitCond, bch_digit_cond]

/-- fuel-free form: the Python `while` statement of `BCH_digit`, started in `(data, 0)`, terminates in a state whose
    `digit` is `Model.bchDigit data` -/
theorem bchDigit_src_while (data : Nat) :
    ∃ s, While digitCond digitStep (bch_digit_init data) s ∧ bch_digit_result s.1 s.2 = bchDigit data := by
  have h := bchDigit_src data data Nat.lt_two_pow_self
  exact ⟨_, While.of_fuel _ _ _ _ h.2, h.1.symm⟩

/-! ### the division loop shared by BCH_type_info / BCH_type_number -/

theorem bchRem_eq_while (g : Nat) (cond : Nat → Bool) (step : Nat → Nat)
    (hc : ∀ d, cond d = decide (bchDigit d ≥ bchDigit g))
    (hs : ∀ d, step d = d ^^^ (g <<< (bchDigit d - bchDigit g))) :
    ∀ fuel d, bchRem g fuel d = whileFuel cond step fuel d := by
  intro fuel
  induction fuel with
  | zero => intro d; rfl
  | succ fuel ih =>
    intro d
    unfold bchRem whileFuel
    rw [hc d]
    by_cases h : bchDigit d ≥ bchDigit g
    · rw [if_pos h, if_pos (by simpa using h), hs d, ih]
    · rw [if_neg h, if_neg (by simpa using h)]

theorem infoCond_eq (data d : Nat) :
    bch_type_info_cond bchDigit data d = decide (bchDigit d ≥ bchDigit Gen.G15) := by
  unfold bch_type_info_cond
  rw [consts_src.1]
  by_cases h : bchDigit d ≥ bchDigit Gen.G15
  · rw [decide_eq_true h]; exact decide_eq_true (by omega)
  · rw [decide_eq_false h]; exact decide_eq_false (by omega)

theorem infoStep_eq (data d : Nat) :
    bch_type_info_step bchDigit data d = d ^^^ (Gen.G15 <<< (bchDigit d - bchDigit Gen.G15)) := by
  unfold bch_type_info_step
  rw [consts_src.1]
  have : ((bchDigit d : Int) - (bchDigit Gen.G15 : Int)).toNat = bchDigit d - bchDigit Gen.G15 := by omega
  simp only [this]

theorem numberCond_eq (data d : Nat) :
    bch_type_number_cond bchDigit data d = decide (bchDigit d ≥ bchDigit Gen.G18) := by
  unfold bch_type_number_cond
  rw [consts_src.2.1]
  by_cases h : bchDigit d ≥ bchDigit Gen.G18
  · rw [decide_eq_true h]; exact decide_eq_true (by omega)
  · rw [decide_eq_false h]; exact decide_eq_false (by omega)

theorem numberStep_eq (data d : Nat) :
    bch_type_number_step bchDigit data d = d ^^^ (Gen.G18 <<< (bchDigit d - bchDigit Gen.G18)) := by
  unfold bch_type_number_step
  rw [consts_src.2.1]
  have : ((bchDigit d : Int) - (bchDigit Gen.G18 : Int)).toNat = bchDigit d - bchDigit Gen.G18 := by omega
  simp only [this]

/-! ### termination of the division loop within the Model's fuel -/

theorem testBit_top (d k : Nat) (h1 : 2 ^ k ≤ d) (h2 : d < 2 ^ (k + 1)) : d.testBit k = true := by
  rw [Nat.testBit_eq_decide_div_mod_eq]
  have hp : 0 < 2 ^ k := Nat.two_pow_pos k
  have : d / 2 ^ k = 1 := by
    apply Nat.div_eq_of_lt_le
    · omega
    · rw [Nat.pow_succ] at h2; omega
  simp [this]

theorem two_pow_le_of_digit (d k : Nat) (h : bchDigit d = k + 1) : 2 ^ k ≤ d := by
  apply Nat.le_of_not_lt
  intro hlt
  have := (bchDigit_le_iff d k).2 hlt
  omega

/-- one step of the division strictly lowers the degree -/
theorem bchDigit_xor_lt (g d : Nat) (hg : g ≠ 0) (h : bchDigit d ≥ bchDigit g) :
    bchDigit (d ^^^ (g <<< (bchDigit d - bchDigit g))) < bchDigit d := by
  have hgpos : 1 ≤ bchDigit g := by
    apply Nat.le_of_not_lt
    intro hlt
    have := (bchDigit_le_iff g 0).1 (by omega)
    omega
  obtain ⟨k, hk⟩ : ∃ k, bchDigit d = k + 1 := ⟨bchDigit d - 1, by omega⟩
  obtain ⟨j, hj⟩ : ∃ j, bchDigit g = j + 1 := ⟨bchDigit g - 1, by omega⟩
  have hjk : j ≤ k := by omega
  rw [hk, hj]
  have hd1 := two_pow_le_of_digit d k hk
  have hd2 : d < 2 ^ (k + 1) := hk ▸ lt_two_pow_bchDigit d
  have hg1 := two_pow_le_of_digit g j hj
  have hg2 : g < 2 ^ (j + 1) := hj ▸ lt_two_pow_bchDigit g
  have hsh : k + 1 - (j + 1) = k - j := by omega
  rw [hsh]
  have e1 : 2 ^ k = 2 ^ j * 2 ^ (k - j) := by rw [← Nat.pow_add]; congr 1; omega
  have e2 : 2 ^ (k + 1) = 2 ^ (j + 1) * 2 ^ (k - j) := by rw [← Nat.pow_add]; congr 1; omega
  have hp : 0 < 2 ^ (k - j) := Nat.two_pow_pos _
  have hs1 : 2 ^ k ≤ g <<< (k - j) := by
    rw [Nat.shiftLeft_eq, e1]; exact Nat.mul_le_mul_right _ hg1
  have hs2 : g <<< (k - j) < 2 ^ (k + 1) := by
    rw [Nat.shiftLeft_eq, e2]; exact Nat.mul_lt_mul_of_pos_right hg2 hp
  have hx : d ^^^ (g <<< (k - j)) < 2 ^ k := by
    apply Nat.lt_pow_two_of_testBit
    intro i hi
    rw [Nat.testBit_xor]
    by_cases hik : i = k
    · subst hik
      rw [testBit_top d i hd1 hd2, testBit_top _ i hs1 hs2]; rfl
    · have hlt : 2 ^ (k + 1) ≤ 2 ^ i := Nat.pow_le_pow_right (by omega) (by omega)
      rw [Nat.testBit_lt_two_pow (Nat.lt_of_lt_of_le hd2 hlt),
          Nat.testBit_lt_two_pow (Nat.lt_of_lt_of_le hs2 hlt)]; rfl
  have := (bchDigit_le_iff (d ^^^ (g <<< (k - j))) k).2 hx
  omega

/-- with fuel above the degree of `d` the Model's loop has exited: the result has degree below `g` -/
theorem bchRem_exit (g : Nat) (hg : g ≠ 0) : ∀ fuel d, bchDigit d < fuel →
    ¬ (bchDigit (bchRem g fuel d) ≥ bchDigit g) := by
  intro fuel
  induction fuel with
  | zero => intro d h; omega
  | succ fuel ih =>
    intro d h
    unfold bchRem
    by_cases hc : bchDigit d ≥ bchDigit g
    · rw [if_pos hc]
      exact ih _ (by have := bchDigit_xor_lt g d hg hc; omega)
    · rw [if_neg hc]; exact hc

/-! ### BCH_type_info, BCH_type_number -/

/-- **BCH_type_info**: `Model.bchTypeInfo data` is the translated result expression `((data << 10) | d) ^ G15_MASK`
    applied to the final state of the translated loop
    `d = data << 10; while BCH_digit(d) - BCH_digit(G15) >= 0: d ^= G15 << (BCH_digit(d) - BCH_digit(G15))`
    (run with the Model's fuel), and that loop has exited. -/
theorem bchTypeInfo_src (data : Nat) :
    let d0 := bch_type_info_init bchDigit data
    let d := whileFuel (bch_type_info_cond bchDigit data) (bch_type_info_step bchDigit data) (bchDigit d0 + 1) d0
    bchTypeInfo data = bch_type_info_result bchDigit data d ∧ bch_type_info_cond bchDigit data d = false := by
  have hw := bchRem_eq_while Gen.G15 _ _ (infoCond_eq data) (infoStep_eq data)
  simp only [bch_type_info_init]
  refine ⟨?_, ?_⟩
  · unfold bchTypeInfo bch_type_info_result
    rw [hw, consts_src.2.2]
  · rw [← hw, infoCond_eq]
    exact decide_eq_false (bchRem_exit Gen.G15 (by decide) _ _ (Nat.lt_succ_self _))

/-- **BCH_type_number**: same for `d = data << 12`, `G18`, result `(data << 12) | d`. -/
theorem bchTypeNumber_src (data : Nat) :
    let d0 := bch_type_number_init bchDigit data
    let d := whileFuel (bch_type_number_cond bchDigit data) (bch_type_number_step bchDigit data) (bchDigit d0 + 1) d0
    bchTypeNumber data = bch_type_number_result bchDigit data d ∧ bch_type_number_cond bchDigit data d = false := by
  have hw := bchRem_eq_while Gen.G18 _ _ (numberCond_eq data) (numberStep_eq data)
  simp only [bch_type_number_init]
  refine ⟨?_, ?_⟩
  · unfold bchTypeNumber bch_type_number_result
    rw [hw]
  · rw [← hw, numberCond_eq]
    exact decide_eq_false (bchRem_exit Gen.G18 (by decide) _ _ (Nat.lt_succ_self _))

/-- fuel-free forms: the Python `while` statements terminate, and the returned expression is the Model's value -/
theorem bchTypeInfo_src_while (data : Nat) :
    ∃ d, While (bch_type_info_cond bchDigit data) (bch_type_info_step bchDigit data) (bch_type_info_init bchDigit data) d ∧
      bch_type_info_result bchDigit data d = bchTypeInfo data := by
  have h := bchTypeInfo_src data
  exact ⟨_, While.of_fuel _ _ _ _ h.2, h.1.symm⟩

theorem bchTypeNumber_src_while (data : Nat) :
    ∃ d, While (bch_type_number_cond bchDigit data) (bch_type_number_step bchDigit data)
        (bch_type_number_init bchDigit data) d ∧
      bch_type_number_result bchDigit data d = bchTypeNumber data := by
  have h := bchTypeNumber_src data
  exact ⟨_, While.of_fuel _ _ _ _ h.2, h.1.symm⟩

end QR.SourceTieA
