import QR.Gen.Code
import QR.Model.Data
import QR.Proofs.Except
/-
Translation validation, list A3: `base.gexp`, `base.glog`, `base.rs_blocks`.
-/
namespace QR.SourceTieA
open QR QR.Model QR.Gen.Code

/-! ### gexp / glog -/

/-- **gexp**: `return EXP_TABLE[n % 255]` for every Python int `n`; the index is never negative -/
theorem gexp_src (n : Int) :
    gexp_table = "EXP_TABLE" ∧ gexp n = idx Gen.EXP_TABLE (gexp_index n).toNat ∧ 0 ≤ gexp_index n := by
  refine ⟨rfl, rfl, ?_⟩
  unfold gexp_index
  omega

/-- **glog**: `if n < 1: raise ValueError` / `return LOG_TABLE[n]` -/
theorem glog_src (n : Nat) :
    glog_exception = "ValueError" ∧ glog_table = "LOG_TABLE" ∧
    glog n = if glog_raises n then .error .valueError else idx Gen.LOG_TABLE (glog_index n).toNat := by
  refine ⟨rfl, rfl, ?_⟩
  unfold glog glog_raises glog_index
  by_cases h : n < 1
  · rw [if_pos h, if_pos (by simp; omega)]
  · rw [if_neg h, if_neg (by simp; omega)]
    simp

/-- for a negative Python int the translated guard raises as well (the Model's argument type is `Nat`) -/
theorem glog_raises_neg (n : Int) (h : n < 0) : glog_raises n = true := by
  unfold glog_raises
  exact decide_eq_true (by omega)

/-! ### rs_blocks -/

/-- the indices visited by Python's `range(a, b, s)` for `s > 0` -/
def rangeStep (r : Nat × Nat × Nat) : List Nat := List.range' r.1 ((r.2.1 - r.1 + r.2.2 - 1) / r.2.2) r.2.2

/-- Python's `l[a:b]` for `0 ≤ a ≤ b` -/
def slice {α : Type} (l : List α) (ab : Nat × Nat) : List α := (l.drop ab.1).take (ab.2 - ab.1)

/-- body of the outer loop: unpack the slice into three names (ValueError otherwise) and append `count` blocks -/
def rsBody (row : List Nat) (blocks : List (Nat × Nat)) (i : Nat) : R (List (Nat × Nat)) :=
  match slice row (rs_blocks_slice i) with
  | [x0, x1, x2] => pure (blocks ++ List.replicate (rs_blocks_block x0 x1 x2).1 (rs_blocks_block x0 x1 x2).2)
  | _ => .error .valueError

/-- `blocks = []; for i in range(0, len(rs_block), 3): …; return blocks` built from the translated pieces -/
def rsLoop (row : List Nat) : R (List (Nat × Nat)) :=
  (rangeStep (rs_blocks_range row.length)).foldlM (rsBody row) []

theorem rsRow_aux : ∀ (fuel : Nat) (p l : List Nat) (acc : List (Nat × Nat)), l.length ≤ fuel →
    (List.range' p.length ((l.length + 2) / 3) 3).foldlM (rsBody (p ++ l)) acc =
      (rsRow fuel l >>= fun tl => pure (acc ++ tl)) := by
  intro fuel
  induction fuel with
  | zero =>
    intro p l acc h
    have : l = [] := List.eq_nil_of_length_eq_zero (by omega)
    subst this
    simp [rsRow]
  | succ fuel ih =>
    intro p l acc h
    match l, h with
    | [], _ => simp [rsRow]
    | [a], _ =>
      simp [rsRow, rsBody, slice, rs_blocks_slice]
    | [a, b], _ =>
      simp [rsRow, rsBody, slice, rs_blocks_slice]
    | x0 :: x1 :: x2 :: rest, h =>
      have hc : ((x0 :: x1 :: x2 :: rest).length + 2) / 3 = (rest.length + 2) / 3 + 1 := by
        simp only [List.length_cons]; omega
      rw [hc, List.range'_succ, List.foldlM_cons]
      have hb : rsBody (p ++ x0 :: x1 :: x2 :: rest) acc p.length
          = .ok (acc ++ List.replicate (rs_blocks_block x0 x1 x2).1 (rs_blocks_block x0 x1 x2).2) := by
        simp [rsBody, slice, rs_blocks_slice]
      rw [hb]
      have hp : p ++ x0 :: x1 :: x2 :: rest = (p ++ [x0, x1, x2]) ++ rest := by simp
      have hl : p.length + 3 = (p ++ [x0, x1, x2]).length := by simp
      simp only [R.bind_ok]
      rw [hp, hl, ih (p ++ [x0, x1, x2]) rest _ (by simp only [List.length_cons] at h; omega)]
      simp only [rsRow]
      cases rsRow fuel rest with
      | error e => rfl
      | ok tl => simp [rs_blocks_block, List.append_assoc]

/-- the row loop: `Model.rsRow` equals the loop assembled from the translated range `(0, len(rs_block), 3)`, slice
    `rs_block[i : i + 3]`, unpacking order and `RSBlock(total_count, data_count)` argument order -/
theorem rsRow_src (row : List Nat) : rsRow row.length row = rsLoop row := by
  have h := rsRow_aux row.length [] row [] (Nat.le_refl _)
  unfold rsLoop rangeStep rs_blocks_range
  simp only [List.length_nil, List.nil_append, Nat.sub_zero] at h ⊢
  have e : (row.length + 3 - 1) / 3 = (row.length + 2) / 3 := by omega
  rw [e, h]
  cases rsRow row.length row <;> simp

theorem rs_blocks_literals : rs_blocks_guard = ("error_correction not in RS_BLOCK_OFFSET", "Exception") ∧
    rs_blocks_offset_lookup = "RS_BLOCK_OFFSET[error_correction]" ∧ rs_blocks_table = "RS_BLOCK_TABLE" ∧
    rs_blocks_block_fields = ["total_count", "data_count"] := ⟨rfl, rfl, rfl, rfl⟩

/-- **rs_blocks**: for every level and every `version ≥ 1` (`check_version` guarantees it; for `version = 0` Python's
    negative index would wrap around) the Model is: dictionary lookup, row `RS_BLOCK_TABLE[(version - 1) * 4 + offset]`
    with the translated (Int) index expression, then the translated row loop. -/
theorem rsBlocks_src (version level : Nat) (hv : 1 ≤ version) :
    rsBlocks version level =
      match Gen.RS_BLOCK_OFFSET.lookup level with
      | none => .error .other
      | some offset => idx Gen.RS_BLOCK_TABLE (rs_blocks_row_index version offset).toNat >>= rsLoop := by
  unfold rsBlocks
  cases Gen.RS_BLOCK_OFFSET.lookup level with
  | none => rfl
  | some offset =>
    have : (rs_blocks_row_index version offset).toNat = (version - 1) * 4 + offset := by
      unfold rs_blocks_row_index; omega
    simp only [this]
    congr 1
    funext row
    exact rsRow_src row

/-- the translated index is non-negative exactly under the stated bound -/
theorem rs_blocks_row_index_nonneg (version offset : Nat) (hv : 1 ≤ version) : 0 ≤ rs_blocks_row_index version offset := by
  unfold rs_blocks_row_index; omega

end QR.SourceTieA
