import QR.Gen.Code
import QR.Gen.Tables
import QR.Model.Cli
/-
Translation validation, item C6: qrcode/console_scripts.py.

`QR.Gen.Code.cli_main` is main() after `parser.parse_args`, compiled statement by statement from the AST by
tools/t2_fragments/frag_c6.py (plus the module-level dicts, the option table and `get_factory`).  Here the hand-written
decision model `Model.cli` is proved equal to it, for every input.
-/
set_option linter.unusedSimpArgs false
namespace QR.SourceTieT
open QR QR.Model QR.Gen.Code

/-! ### tables -/

/-- `default_factories`, read from the AST, is the table the Model uses (gen_tables imports the module at run time) -/
theorem cli_default_factories_src : Gen.CLI_FACTORIES = cli_default_factories := by decide

theorem cli_levels_consts_src :
    cli_ERROR_CORRECT_L = Gen.ERROR_CORRECT_L ∧ cli_ERROR_CORRECT_M = Gen.ERROR_CORRECT_M ∧
    cli_ERROR_CORRECT_Q = Gen.ERROR_CORRECT_Q ∧ cli_ERROR_CORRECT_H = Gen.ERROR_CORRECT_H := by decide

private theorem level_cases (s : String) :
    s = "L" ∨ s = "M" ∨ s = "Q" ∨ s = "H" ∨ (s ≠ "L" ∧ s ≠ "M" ∧ s ≠ "Q" ∧ s ≠ "H") := by
  by_cases h1 : s = "L"
  · exact Or.inl h1
  by_cases h2 : s = "M"
  · exact Or.inr (Or.inl h2)
  by_cases h3 : s = "Q"
  · exact Or.inr (Or.inr (Or.inl h3))
  by_cases h4 : s = "H"
  · exact Or.inr (Or.inr (Or.inr (Or.inl h4)))
  exact Or.inr (Or.inr (Or.inr (Or.inr ⟨h1, h2, h3, h4⟩)))

/-- the `error_correction` dict of the source (key order of the source) and the Model's table (sorted) agree on every key -/
theorem cli_error_correction_src (s : String) : Gen.CLI_LEVELS.lookup s = cli_error_correction.lookup s := by
  rcases level_cases s with h | h | h | h | ⟨h1, h2, h3, h4⟩
  · subst h; decide
  · subst h; decide
  · subst h; decide
  · subst h; decide
  · have b1 := beq_eq_false_iff_ne.2 h1
    have b2 := beq_eq_false_iff_ne.2 h2
    have b3 := beq_eq_false_iff_ne.2 h3
    have b4 := beq_eq_false_iff_ne.2 h4
    simp only [Gen.CLI_LEVELS, cli_error_correction, List.lookup_cons, List.lookup_nil, b1, b2, b3, b4]

/-- `choices=sorted(error_correction.keys())`: membership -/
theorem cli_choices_mem (s : String) : s ∈ cli_choices_error_correction ↔ s ∈ ["L", "M", "Q", "H"] := by
  unfold cli_choices_error_correction cli_sorted
  rw [List.mem_mergeSort]
  exact Iff.rfl

/-- optparse accepts the level letter iff the Model's table has it -/
theorem cli_choices_src (s : String) : cli_choices_error_correction.contains s = (Gen.CLI_LEVELS.lookup s).isSome := by
  have hm := cli_choices_mem s
  rcases level_cases s with h | h | h | h | ⟨h1, h2, h3, h4⟩
  · have : s ∈ cli_choices_error_correction := hm.2 (by subst h; decide)
    rw [List.contains_iff_mem.2 this]; subst h; decide
  · have : s ∈ cli_choices_error_correction := hm.2 (by subst h; decide)
    rw [List.contains_iff_mem.2 this]; subst h; decide
  · have : s ∈ cli_choices_error_correction := hm.2 (by subst h; decide)
    rw [List.contains_iff_mem.2 this]; subst h; decide
  · have : s ∈ cli_choices_error_correction := hm.2 (by subst h; decide)
    rw [List.contains_iff_mem.2 this]; subst h; decide
  · have hn : ¬ s ∈ cli_choices_error_correction := by
      intro hc
      have := hm.1 hc
      simp [h1, h2, h3, h4] at this
    have hc : cli_choices_error_correction.contains s = false := by
      cases hcc : cli_choices_error_correction.contains s with
      | false => rfl
      | true => exact absurd (List.contains_iff_mem.1 hcc) hn
    rw [hc]
    have b1 := beq_eq_false_iff_ne.2 h1
    have b2 := beq_eq_false_iff_ne.2 h2
    have b3 := beq_eq_false_iff_ne.2 h3
    have b4 := beq_eq_false_iff_ne.2 h4
    simp only [Gen.CLI_LEVELS, List.lookup_cons, List.lookup_nil, b1, b2, b3, b4]
    rfl

/-- the option table: option strings, `dest`, action, type and default of every `parser.add_option` call, in order; these are
    the fields of `Model.CliInput` (factory, drawer, optimize, level, ascii, output) with their types and defaults -/
theorem cli_options_src :
    cli_options.map (fun o => (o.names, o.dest, o.action, o.type, o.default)) =
      [(["--factory"], "factory", "store", "string", "None"),
       (["--factory-drawer"], "factory_drawer", "store", "string", "None"),
       (["--optimize"], "optimize", "store", "int", "None"),
       (["--error-correction"], "error_correction", "store", "choice", "'M'"),
       (["--ascii"], "ascii", "store_true", "", "None"),
       (["--output"], "output", "store", "string", "None")] ∧
    (cli_default_factory, cli_default_factory_drawer, cli_default_optimize, cli_default_error_correction, cli_default_ascii,
      cli_default_output) = (none, none, none, "M", false, none) ∧
    cli_add_data_optimize_default = 20 ∧ cli_print_ascii_tty_default = false := by decide

/-! ### the environment of a `Model.CliInput` -/

/-- the import in `get_factory`: a built-in dotted path imports; any other one does iff the input says so -/
def cliImport (i : CliInput) (path : String) : Option String :=
  if (Gen.CLI_FACTORIES.any fun (_, p) => p == path) || i.importable then some path else none

/-- `getattr(cls, "drawer_aliases", None)` of the class at a dotted path: a dict whose keys are the Model's alias list for that
    path (an entry is identified with its alias) -/
def cliAliases (i : CliInput) (path : String) : Option (List (String × String)) :=
  some ((drawerAliases (some path) i.importedAliases).map fun a => (a, a))

/-- `qr.add_data` calls as Model segments: `optimize` not passed = the default of `QRCode.add_data` read from main.py -/
def cliSegs (qr : cli_QRCode String) : List Seg :=
  qr.add_data_calls.flatMap fun c => addData c.1 ((c.2.map Int.toNat).getD cli_add_data_optimize_default)

/-- what the Model calls the outcome of a run of the translated main(): `parser.error` and an uncaught exception are both a
    failure (non-zero exit status) provided nothing was written before; one `print_ascii`; one `save` to `open(path, "wb")`;
    a flush of stdout followed by one `save` to `sys.stdout.buffer`.  Any other trace of effects has no Model outcome. -/
def cliInterp : cli_Result String String → Option CliOutcome
  | .error [] _ => some .fail
  | .uncaught [] => some .fail
  | .done [.print_ascii qr tty] => some (.ascii tty qr.error_correction (cliSegs qr))
  | .done [.save img (.opened path mode)] =>
      if mode = "wb" then
        some (.image img.qr.image_factory (img.kwargs.lookup "module_drawer") img.qr.error_correction (cliSegs img.qr) (.file path))
      else none
  | .done [.stdout_flush, .save img .stdout_buffer] =>
      some (.image img.qr.image_factory (img.kwargs.lookup "module_drawer") img.qr.error_correction (cliSegs img.qr) .stdout)
  | _ => none

/-- the Model echoes the `--factory` value; the source knows the class it resolved to: compare modulo `resolveFactory` -/
def cliNormalize : CliOutcome → CliOutcome
  | .image f d l s k => .image (f.map resolveFactory) d l s k
  | o => o

/-! ### lemmas -/

private theorem ifTruthyStr_some {R : Type} (v : String) (t : String → R) (e : R) (h : ¬ v = "") :
    cli_ifTruthyStr (some v) t e = t v := by
  simp [cli_ifTruthyStr, h]

private theorem ifTruthyStr_none {R : Type} (t : String → R) (e : R) : cli_ifTruthyStr none t e = e := rfl

private theorem lookup_diag (L : List String) (d : String) :
    (L.map fun a => (a, a)).lookup d = if L.contains d then some d else none := by
  induction L with
  | nil => rfl
  | cons a L ih =>
    simp only [List.map_cons, List.lookup_cons, List.contains_cons]
    by_cases h : d = a
    · subst h; simp
    · have : (d == a) = false := by simpa using h
      rw [this, ih]; simp

private theorem ifTruthyDict_diag {R : Type} (L : List String) (t : List (String × String) → R) (e : R) :
    cli_ifTruthyDict (some (L.map fun a => (a, a))) t e = if L.isEmpty then e else t (L.map fun a => (a, a)) := by
  cases L <;> rfl

/-- the alias list of a `--factory` value is the alias list of the dotted path it resolves to -/
theorem drawerAliases_resolve (f : String) (imp : List String) :
    drawerAliases (some f) imp = drawerAliases (some (resolveFactory f)) imp := by
  by_cases h1 : f = "pil"
  · subst h1; rfl
  by_cases h2 : f = "png"
  · subst h2; rfl
  by_cases h3 : f = "svg"
  · subst h3; rfl
  by_cases h4 : f = "svg-fragment"
  · subst h4; rfl
  by_cases h5 : f = "svg-path"
  · subst h5; rfl
  by_cases h6 : f = "pymaging"
  · subst h6; rfl
  have : resolveFactory f = f := by
    have b1 := beq_eq_false_iff_ne.2 h1
    have b2 := beq_eq_false_iff_ne.2 h2
    have b3 := beq_eq_false_iff_ne.2 h3
    have b4 := beq_eq_false_iff_ne.2 h4
    have b5 := beq_eq_false_iff_ne.2 h5
    have b6 := beq_eq_false_iff_ne.2 h6
    simp only [resolveFactory, Gen.CLI_FACTORIES, List.lookup_cons, List.lookup_nil, b1, b2, b3, b4, b5, b6]
    rfl
  rw [this]

private theorem resolve_eq (f : String) : (cli_default_factories.lookup f).getD f = resolveFactory f := by
  rw [← cli_default_factories_src]; rfl

private theorem ifTruthyDict_none {R α : Type} (t : List (String × α) → R) (e : R) : cli_ifTruthyDict none t e = e := rfl

private theorem drawerAliases_none (imp : List String) : drawerAliases none imp = [] := rfl

private theorem contains_isEmpty (L : List String) (d : String) (h : L.contains d = true) : L.isEmpty = false := by
  cases L with
  | nil => simp at h
  | cons => rfl

private theorem optimize_default_eq : cli_add_data_optimize_default = 20 := rfl

/-! ### main() -/

local macro "cli_stage1" : tactic =>
  `(tactic| simp only [cli_main, cli_choices_src, ← cli_error_correction_src, *, Option.isSome_some, Option.isSome_none, Bool.not_true,
      Bool.not_false, Bool.false_eq_true, if_false, if_true, ifTruthyStr_some, ifTruthyStr_none, not_false_eq_true, resolve_eq,
      cli_get_factory, cliImport, cliAliases, cli, factoryOK, drawerOK, Option.bind_some, Option.bind_none,
      ← drawerAliases_resolve, cli_QRCode.add_data, Option.map_some, Option.map_none, List.isEmpty_cons, List.isEmpty_nil])

local macro "cli_stage2" : tactic =>
  `(tactic| simp [*, cli, cliInterp, cliNormalize, lookup_diag, ifTruthyDict_diag, segsOf, payloadOf, cliSegs, cli_dict_set, optimize_default_eq,
      ifTruthyDict_none, drawerAliases_none])

/-- **console_scripts.main** as it stands in the source = `Model.cli`, for every input, every list of positional arguments and
    every `str.encode`.  Hypotheses: the Model's `arg` is the encoded first argument; the three string options are not the
    empty string (Python treats `--factory ""`, `--factory-drawer ""`, `--output ""` as absent, the Model does not: see
    `cli_empty_option_disagreement`). -/
theorem cli_src {PyStr : Type} (i : CliInput) (args : List PyStr) (str_encode : PyStr → String → String → List Nat)
    (harg : i.arg = args.head?.map fun a => str_encode a "utf-8" "surrogateescape")
    (hf : i.factory ≠ some "") (hd : i.drawer ≠ some "") (ho : i.output ≠ some "") :
    cliInterp (cli_main i.factory i.drawer (i.optimize.map Int.ofNat) i.level i.ascii i.output args
        (cliImport i) str_encode i.stdin (cliAliases i) id i.stdoutIsTty)
      = some (cliNormalize (Model.cli i)) := by
  rcases i with ⟨fac, drw, opt, lvl, asc, out, arg, stdin, tty, importable, imported⟩
  simp only at harg hf hd ho
  subst harg
  cases hl : Gen.CLI_LEVELS.lookup lvl with
  | none => cli_stage1; cli_stage2
  | some l =>
    cases fac with
    | none =>
      -- no factory (a drawer is then rejected): text when stdout is a terminal or --ascii, else the default image
      cases drw <;> cases out <;> cases args <;> cases opt <;> cases tty <;> cases asc <;>
        (try simp only [ne_eq, Option.some.injEq] at hd ho) <;> cli_stage1 <;> cli_stage2
    | some f =>
      simp only [ne_eq, Option.some.injEq] at hf
      cases hdot : (resolveFactory f).contains '.'
      · -- not a dotted path: get_factory raises ValueError, main reports it through parser.error
        cases drw <;> cases out <;> cases args <;> cases opt <;>
          (try simp only [ne_eq, Option.some.injEq] at hd ho) <;> cli_stage1 <;> cli_stage2
      · cases drw with
        | none =>
          cases out <;> cases args <;> cases opt <;> (try simp only [ne_eq, Option.some.injEq] at ho) <;> cli_stage1 <;>
            cases hk : ((Gen.CLI_FACTORIES.any fun x => x.snd == resolveFactory f) || importable) <;>
            simp only [Bool.not_true, Bool.not_false, Bool.false_eq_true, if_false, if_true, Bool.and_true, Bool.and_false,
              Bool.true_and, Bool.false_and] <;>
            cli_stage2
        | some d =>
          simp only [ne_eq, Option.some.injEq] at hd
          cases out <;> cases args <;> cases opt <;> (try simp only [ne_eq, Option.some.injEq] at ho) <;> cli_stage1 <;>
            cases hk : ((Gen.CLI_FACTORIES.any fun x => x.snd == resolveFactory f) || importable) <;>
            simp only [Bool.not_true, Bool.not_false, Bool.false_eq_true, if_false, if_true, Bool.and_true, Bool.and_false,
              Bool.true_and, Bool.false_and, ← drawerAliases_resolve] <;>
            first
            | (cli_stage2; done)
            | (simp only [ifTruthyDict_diag, lookup_diag]
               rcases Bool.eq_false_or_eq_true ((drawerAliases (some f) imported).contains d) with hc | hc
               · have he := contains_isEmpty _ _ hc
                 simp only [hc, he]
                 cli_stage2
               · rcases Bool.eq_false_or_eq_true (drawerAliases (some f) imported).isEmpty with he | he <;>
                   simp only [hc, he] <;> cli_stage2)

/-! ### the excluded inputs: empty option values (Model and source DISAGREE) -/

/-- source: `--factory ""`, `--factory-drawer ""`, `--output ""` behave exactly as if the option were absent (`if opts.x:`) -/
theorem cli_main_empty_option_src {PyStr Fac D Drawer : Type} (fac drw out : Option String) (opt : Option Int) (lvl : String)
    (asc : Bool) (args : List PyStr) (imp : String → Option Fac) (enc : PyStr → String → String → List Nat) (stdin : List Nat)
    (al : Fac → Option (List (String × D))) (mk : D → Drawer) (tty : Bool) :
    cli_main (some "") drw opt lvl asc out args imp enc stdin al mk tty = cli_main none drw opt lvl asc out args imp enc stdin al mk tty ∧
    cli_main fac (some "") opt lvl asc out args imp enc stdin al mk tty = cli_main fac none opt lvl asc out args imp enc stdin al mk tty ∧
    cli_main fac drw opt lvl asc (some "") args imp enc stdin al mk tty = cli_main fac drw opt lvl asc none args imp enc stdin al mk tty := by
  refine ⟨?_, ?_, ?_⟩ <;> simp [cli_main, cli_ifTruthyStr]

/-- Model: `--factory ""` and `--factory-drawer ""` are failures, `--output ""` writes to the file "" -/
theorem cli_empty_option_model (i : CliInput) (l : Nat) (hl : Gen.CLI_LEVELS.lookup i.level = some l) :
    (i.factory = some "" → Model.cli i = .fail) ∧
    (i.drawer = some "" → i.factory = none → Model.cli i = .fail) ∧
    (i.output = some "" → i.factory = none → i.drawer = none →
      Model.cli i = .image none none l (segsOf i) (.file "")) := by
  refine ⟨fun h => ?_, fun h h' => ?_, fun h h' h'' => ?_⟩
  · have : factoryOK i = false := by
      simp only [factoryOK, h]
      have : resolveFactory "" = "" := by decide
      rw [this]; simp
    simp [cli, hl, this]
  · have h1 : factoryOK i = true := by simp [factoryOK, h']
    have h2 : drawerOK i = false := by simp [drawerOK, h, h', drawerAliases]
    simp [cli, hl, h1, h2]
  · have h1 : factoryOK i = true := by simp [factoryOK, h']
    have h2 : drawerOK i = true := by simp [drawerOK, h'']
    simp [cli, hl, h1, h2, h, h', h'']

end QR.SourceTieT
