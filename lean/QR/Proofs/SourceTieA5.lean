import QR.Gen.Code
import QR.Model.Data
import QR.Proofs.Except
/-
Translation validation, list A5 (first part): `util.length_in_bits`, `util._data_count`, the `BIT_LIMIT_TABLE`
comprehension, `QRData.__len__`.  (create_bytes: SourceTieA5b.lean)
-/
namespace QR.SourceTieA
open QR QR.Model QR.Gen.Code

/-! ### length_in_bits -/

theorem mode_consts_src : const_MODE_NUMBER = Gen.MODE_NUMBER ∧ const_MODE_ALPHA_NUM = Gen.MODE_ALPHA_NUM ∧
    const_MODE_8BIT_BYTE = Gen.MODE_8BIT_BYTE ∧ const_MODE_KANJI = Gen.MODE_KANJI := by decide

theorem length_in_bits_literals : length_in_bits_exception = "TypeError" ∧
    length_in_bits_check = "check_version(version)" ∧ length_in_bits_table = "mode_sizes_for_version(version)" :=
  ⟨rfl, rfl, rfl⟩

/-- **length_in_bits**: the translated mode test (`mode not in (MODE_NUMBER, MODE_ALPHA_NUM, MODE_8BIT_BYTE,
    MODE_KANJI)` → TypeError), then `check_version(version)` (translated by T2 as `check_version_bad`), then the lookup
    `mode_sizes_for_version(version)[mode]` with T2's `mode_size_class` choosing the dictionary. -/
theorem lengthInBits_src (mode version : Nat) :
    lengthInBits mode version =
      if length_in_bits_bad_mode mode then .error .typeError
      else if check_version_bad (version : Int) then .error .valueError
      else dictGet (match mode_size_class version with
                    | 0 => Gen.MODE_SIZE_SMALL
                    | 1 => Gen.MODE_SIZE_MEDIUM
                    | _ => Gen.MODE_SIZE_LARGE) (length_in_bits_key mode) := by
  have hc : mode_size_class version = sizeClass version := by
    unfold mode_size_class sizeClass
    by_cases h1 : version < 10 <;> by_cases h2 : version < 27 <;> simp [h1, h2]
  have hbad : length_in_bits_bad_mode mode = true ↔
      ¬ (mode = Gen.MODE_NUMBER ∨ mode = Gen.MODE_ALPHA_NUM ∨ mode = Gen.MODE_8BIT_BYTE ∨ mode = Gen.MODE_KANJI) := by
    unfold length_in_bits_bad_mode
    rw [mode_consts_src.1, mode_consts_src.2.1, mode_consts_src.2.2.1, mode_consts_src.2.2.2]
    simp [and_assoc]
  have hver : check_version_bad (version : Int) = true ↔ ((version : Int) < 1 ∨ (version : Int) > 40) := by
    unfold check_version_bad; simp
  unfold lengthInBits length_in_bits_key checkVersion modeSizes
  rw [hc]
  by_cases hm : mode = Gen.MODE_NUMBER ∨ mode = Gen.MODE_ALPHA_NUM ∨ mode = Gen.MODE_8BIT_BYTE ∨ mode = Gen.MODE_KANJI
  · rw [if_neg (not_not_intro hm), if_neg (fun h => hbad.1 h hm)]
    by_cases hv : (version : Int) < 1 ∨ (version : Int) > 40
    · rw [if_pos hv, if_pos (hver.2 hv)]; rfl
    · rw [if_neg hv, if_neg (fun h => hv (hver.1 h))]; rfl
  · rw [if_pos hm, if_pos (hbad.2 hm)]

/-! ### _data_count, QRData.__len__ -/

/-- `_data_count(block) = block.data_count`: the second field of `RSBlock(total_count, data_count)` -/
theorem data_count_src (total data : Nat) : data_count_proj total data = data := rfl

/-- `QRData.__len__` returns `len(self.data)` (the Model uses `s.data.length` for the character count) -/
theorem qrdata_len_src (n : Nat) : qrdata_len n = n := rfl

/-! ### BIT_LIMIT_TABLE -/

/-- one row of the comprehension: `[0] + [8 * sum(map(_data_count, base.rs_blocks(version, error_correction)))
    for version in range(1, 41)]`, every piece taken from the translation -/
def bitLimitRow (ec : Nat) : R (List Nat) :=
  (List.range' bit_limit_version_range.1 (bit_limit_version_range.2 - bit_limit_version_range.1)).mapM (fun v =>
      rsBlocks v ec >>= fun bs => pure (bit_limit_entry ((bs.map fun b => data_count_proj b.1 b.2).sum)))
    >>= fun rest => pure (bit_limit_head ++ rest)

def okEq {α} [BEq α] (x : R α) (a : α) : Bool := match x with | .ok b => b == a | .error _ => false

theorem okEq_iff {α} [BEq α] [LawfulBEq α] (x : R α) (a : α) : okEq x a = true ↔ x = .ok a := by
  cases x <;> simp [okEq]

theorem bit_limit_literals : bit_limit_summand = "_data_count" ∧
    bit_limit_blocks = ("base.rs_blocks", ["version", "level"]) := ⟨rfl, rfl⟩

set_option maxRecDepth 100000 in
/-- **BIT_LIMIT_TABLE**: the table dumped from the running library (`Gen.BIT_LIMIT_TABLE`, the one `Model.bestFit`
    bisects) is exactly the translated comprehension evaluated with `Model.rsBlocks`:
    `[row(ec) for ec in range(4)]`. -/
theorem bitLimitTable_src :
    (List.range' bit_limit_level_range.1 (bit_limit_level_range.2 - bit_limit_level_range.1)).mapM bitLimitRow
      = .ok Gen.BIT_LIMIT_TABLE := by
  rw [← okEq_iff]
  decide +kernel

/-- `Model.dataBits` computes `bit_limit` as `sum(block.data_count * 8)`; the table entry is `8 * sum(data_count)` -/
theorem bit_limit_entry_src (bs : List (Nat × Nat)) :
    (bs.map fun b => b.2 * 8).sum = bit_limit_entry ((bs.map fun b => data_count_proj b.1 b.2).sum) := by
  unfold bit_limit_entry
  induction bs with
  | nil => rfl
  | cons b t ih => simp only [List.map_cons, List.sum_cons, ih, data_count_proj]; omega

end QR.SourceTieA
