import QR.Proofs.Conv
import QR.Proofs.SourceTieD1
import QR.Proofs.SourceTieD2
import QR.Proofs.SourceTieB2
/-
Helpers for the capstone theorems `Cxx_source_capstone_*` of QR/Props/C10.lean, C18.lean, C11.lean (definitions and lemmas only).
-/
namespace QR.CapstoneE3
open QR QR.Model QR.Gen.Code QR.SourceTieD1

/-- Spec view of a TRANSLATED `QRData` object (`QR.Gen.Code.sg_QRData`): the same reading as `QR.toPSeg` for a Model
    segment (`none` for an unsupported mode number) -/
def qToPSeg (q : sg_QRData) : Option Spec.PSeg :=
  (Spec.Mode.ofIndicator q.mode).map fun m => { mode := m, data := q.data }

def qToPSegs (qs : List sg_QRData) : Option (List Spec.PSeg) := qs.mapM qToPSeg

theorem qToPSeg_segQ (s : Seg) : qToPSeg (segQ s) = toPSeg s := rfl

theorem qToPSegs_map_segQ (segs : List Seg) : qToPSegs (segs.map segQ) = toPSegs segs := by
  unfold qToPSegs toPSegs
  induction segs with
  | nil => rfl
  | cons s t ih => simp only [List.map_cons, List.mapM_cons, ih, qToPSeg_segQ]

theorem flatMap_data_map_segQ (segs : List Seg) : (segs.map segQ).flatMap (·.data) = segs.flatMap (·.data) := by
  induction segs with
  | nil => rfl
  | cons s t ih => simp only [List.map_cons, List.flatMap_cons, ih]; rfl

/-- `liftR` (Model error -> name of the Python exception class) yields "ValueError" exactly for `Err.valueError` -/
theorem liftR_error_iff {α : Type} (r : R α) :
    QR.SourceTieD2.liftR r = .error "ValueError" ↔ r = .error .valueError := by
  cases r with
  | ok a => simp [QR.SourceTieD2.liftR]
  | error e => cases e <;> simp [QR.SourceTieD2.liftR, Err.name]

/-- `QRCode.make(fit)` as assembled from the translated pieces (`QR.Gen.Code.make_*`): verbatim the right-hand side of
    `SourceTieB.makeS_src`; the callees `best_fit`, `best_mask_pattern`, `makeImpl` are the Model's `bestFitS`, `bestMaskS`,
    `makeImplS` (tied to the source by their own bridge theorems) -/
def makeSrc (fit : Bool) (g : Global) (s : QRState) : St × R Unit :=
  (let s := { s with dataCache := make_reset_value }
   let (s, r1) := if s.version = 0 then bestFitS 4 0 s else (s, .ok s.version)
   match r1 with
   | .error e => ((g, s), .error e)
   | .ok _ =>
     let (s, r2) := if make_fit_test fit false then bestFitS 4 (make_fit_start s.version) s else (s, .ok s.version)
     match r2 with
     | .error e => ((g, s), .error e)
     | .ok _ =>
       if make_mask_test s.mask.isNone then
         match bestMaskS (g, s) with
         | (st, .error e) => (st, .error e)
         | (st, .ok m) => makeImplS make_none_test_arg m st
       else makeImplS make_some_test_arg (make_some_mask_arg (s.mask.getD 0)) (g, s))

theorem makeS_eq_makeSrc (fit : Bool) (g : Global) (s : QRState) : makeS fit (g, s) = makeSrc fit g s :=
  QR.SourceTieB.makeS_src fit g s

end QR.CapstoneE3
