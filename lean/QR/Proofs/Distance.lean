import QR.Proofs.RSDiv
import Mathlib.Tactic.Ring
import Mathlib.Algebra.Field.Defs
import Mathlib.Algebra.Ring.Basic
/-
C02, last clause: the ISO Reed-Solomon code with `e` check symbols has minimum distance `e + 1` (BCH bound), hence
any `≤ ⌊e/2⌋` damaged codewords per block are correctable (unique decoding).

Plan
  * `GF256` : the bytes with xor / `Spec.gfmul` form a `Field` (laws from `QR.Proofs.GF256`; inverses from the log table);
  * `vandermonde_elim` : in any commutative ring without zero divisors, `w ≤ e` pairwise distinct nodes `x_j` and
    coefficients `c_j` with `Σ_j c_j x_j^i = 0` for all `i < e` force every `c_j = 0` (elimination of one node and one
    equation at a time: `S'_i = S_{i+1} − x_1 S_i`) - this is the non-singularity of the Vandermonde system;
  * `α = 2` has order 255: `α^i ≠ α^j` for `i < j < 255` (from the exp/log tables);
  * `Spec.peval (α^i) cw` is the `i`-th power sum over the support of `cw` with nodes `α^(position)`.
-/
namespace QR.Proofs
open QR QR.Spec

/-! ### GF(256) as a field -/

/-- the bytes, as a type -/
@[ext] structure GF256 where
  val : Nat
  lt : val < 256

namespace GF256

instance : Zero GF256 := ⟨⟨0, by omega⟩⟩
instance : One GF256 := ⟨⟨1, by omega⟩⟩
/-- addition = xor -/
instance : Add GF256 := ⟨fun a b => ⟨a.val ^^^ b.val, xor_lt_256 a.lt b.lt⟩⟩
/-- characteristic 2 -/
instance : Neg GF256 := ⟨fun a => a⟩
/-- multiplication = the specification's shift-and-xor product modulo x^8+x^4+x^3+x^2+1 -/
instance : Mul GF256 := ⟨fun a b => ⟨gfmul a.val b.val, gfmul_lt _ a.lt⟩⟩

theorem ex_lt (k : Nat) : ex k < 256 := by
  by_cases h : k < 255
  · exact (lg_ex k h).2.1
  · unfold ex
    rw [List.getD_eq_getElem?_getD]
    by_cases h2 : k < 256
    · have : k = 255 := by omega
      subst this
      decide
    · rw [List.getElem?_eq_none (by rw [exp_length]; omega)]
      simp

/-- `a⁻¹ = α^(255 − log a)`, `0⁻¹ = 0` -/
instance : Inv GF256 := ⟨fun a => if a.val = 0 then 0 else ⟨ex ((255 - lg a.val) % 255), ex_lt _⟩⟩

@[simp] theorem val_zero : (0 : GF256).val = 0 := rfl
@[simp] theorem val_one : (1 : GF256).val = 1 := rfl
@[simp] theorem val_add (a b : GF256) : (a + b).val = a.val ^^^ b.val := rfl
@[simp] theorem val_neg (a : GF256) : (-a).val = a.val := rfl
@[simp] theorem val_mul (a b : GF256) : (a * b).val = gfmul a.val b.val := rfl

theorem ex_zero : ex 0 = 1 := by decide

instance : CommRing GF256 where
  add_assoc a b c := by ext; simp [Nat.xor_assoc]
  zero_add a := by ext; simp
  add_zero a := by ext; simp
  add_comm a b := by ext; simp [Nat.xor_comm]
  neg_add_cancel a := by ext; simp
  mul_assoc a b c := by ext; simp [gfmul_assoc a.lt b.lt c.lt]
  one_mul a := by ext; simp [one_gfmul a.lt]
  mul_one a := by ext; simp
  left_distrib a b c := by ext; simp [gfmul_xor_right]
  right_distrib a b c := by ext; simp [gfmul_xor_left a.lt b.lt c.lt]
  zero_mul a := by ext; simp
  mul_zero a := by ext; simp
  mul_comm a b := by ext; simp [gfmul_comm a.lt b.lt]
  nsmul := nsmulRec
  zsmul := zsmulRec

theorem ne_zero_iff (a : GF256) : a ≠ 0 ↔ 1 ≤ a.val := by
  constructor
  · intro h
    have : a.val ≠ 0 := fun h0 => h (GF256.ext h0)
    omega
  · intro h h0
    rw [h0] at h
    simp at h

instance : Nontrivial GF256 := ⟨⟨0, 1, by intro h; have := congrArg GF256.val h; simp at this⟩⟩

instance : NoZeroDivisors GF256 where
  eq_zero_or_eq_zero_of_mul_eq_zero := by
    intro a b h
    by_cases ha : a = 0
    · exact Or.inl ha
    by_cases hb : b = 0
    · exact Or.inr hb
    exfalso
    have := gfmul_ne_zero ((ne_zero_iff a).mp ha) a.lt ((ne_zero_iff b).mp hb) b.lt
    exact this (congrArg GF256.val h)

instance : IsDomain GF256 := NoZeroDivisors.to_isDomain _

theorem mul_inv_cancel' (a : GF256) (h : a ≠ 0) : a * a⁻¹ = 1 := by
  have h1 := (ne_zero_iff a).mp h
  obtain ⟨hl, he⟩ := ex_lg a.val h1 a.lt
  have hk : (255 - lg a.val) % 255 < 255 := Nat.mod_lt _ (by omega)
  ext
  show gfmul a.val (a⁻¹).val = 1
  have hinv : (a⁻¹).val = ex ((255 - lg a.val) % 255) := by
    show (if a.val = 0 then (0 : GF256) else _).val = _
    rw [if_neg (by omega)]
  rw [hinv]
  have := gfmul_ex_ex hl hk
  rw [he] at this
  rw [this]
  have : (lg a.val + (255 - lg a.val) % 255) % 255 = 0 := by omega
  rw [this, ex_zero]

theorem inv_zero' : (0 : GF256)⁻¹ = 0 := by
  exact if_pos rfl

/-- **GF(256) is a field** under xor and `Spec.gfmul` -/
instance : Field GF256 where
  inv := Inv.inv
  mul_inv_cancel := mul_inv_cancel'
  inv_zero := inv_zero'
  exists_pair_ne := ⟨0, 1, by intro h; have := congrArg GF256.val h; simp at this⟩
  nnqsmul := _
  qsmul := _
  nnratCast_def := fun _ => rfl
  ratCast_def := fun _ => rfl
  nnqsmul_def := fun _ _ => rfl
  qsmul_def := fun _ _ => rfl

end GF256

namespace Dist

/-! ### bytes to field elements -/

/-- a natural number as a field element (reduced mod 256; the identity on bytes) -/
def toF (a : Nat) : GF256 := ⟨a % 256, Nat.mod_lt _ (by omega)⟩

theorem toF_val {a : Nat} (h : a < 256) : (toF a).val = a := Nat.mod_eq_of_lt h

@[simp] theorem toF_zero : toF 0 = 0 := rfl
@[simp] theorem toF_one : toF 1 = 1 := rfl

theorem toF_xor (a b : Nat) : toF (a ^^^ b) = toF a + toF b := by
  ext
  exact Nat.xor_mod_two_pow (n := 8)

theorem toF_gfmul {a b : Nat} (ha : a < 256) (hb : b < 256) : toF (gfmul a b) = toF a * toF b := by
  ext
  simp [toF_val ha, toF_val hb, toF_val (gfmul_lt b ha)]

theorem toF_eq_zero {a : Nat} (ha : a < 256) : toF a = 0 ↔ a = 0 := by
  constructor
  · intro h
    have := congrArg GF256.val h
    rwa [toF_val ha] at this
  · intro h; rw [h]; rfl

theorem toF_inj {a b : Nat} (ha : a < 256) (hb : b < 256) (h : toF a = toF b) : a = b := by
  have := congrArg GF256.val h
  rwa [toF_val ha, toF_val hb] at this

theorem toF_gfpow {a : Nat} (ha : a < 256) (n : Nat) : toF (gfpow a n) = toF a ^ n := by
  induction n with
  | zero => simp [gfpow]
  | succ n ih => rw [gfpow, toF_gfmul (gfpow_lt _ _) ha, ih, pow_succ]

/-! ### `α` has order 255 -/

theorem ex_eq_gfpow {i : Nat} (hi : i < 255) : ex i = gfpow alpha i := by
  have h1 := Props.C02_field_exp i hi
  rw [exp_getElem? (by omega)] at h1
  exact Option.some.inj h1

/-- the powers `α^0 .. α^254` are pairwise distinct (as natural numbers) -/
theorem gfpow_alpha_inj {i j : Nat} (hi : i < 255) (hj : j < 255) (h : gfpow alpha i = gfpow alpha j) : i = j := by
  rw [← ex_eq_gfpow hi, ← ex_eq_gfpow hj] at h
  have := congrArg lg h
  rwa [(lg_ex i hi).2.2, (lg_ex j hj).2.2] at this

/-- the powers `α^0 .. α^254` are pairwise distinct (in the field) -/
theorem alpha_pow_inj {i j : Nat} (hi : i < 255) (hj : j < 255) (h : toF alpha ^ i = toF alpha ^ j) : i = j := by
  have ha : alpha < 256 := by decide
  rw [← toF_gfpow ha, ← toF_gfpow ha] at h
  exact gfpow_alpha_inj hi hj (toF_inj (gfpow_lt _ _) (gfpow_lt _ _) h)

/-! ### non-singularity of Vandermonde systems, by elimination -/

section Elim
variable {R : Type} [CommRing R]

/-- the `i`-th power sum `Σ_j c_j x_j^i` of a list of (node, coefficient) pairs -/
def syn (i : Nat) (l : List (R × R)) : R := (l.map fun p => p.2 * p.1 ^ i).sum

@[simp] theorem syn_nil (i : Nat) : syn i ([] : List (R × R)) = 0 := rfl
@[simp] theorem syn_cons (i : Nat) (p : R × R) (l : List (R × R)) : syn i (p :: l) = p.2 * p.1 ^ i + syn i l := by
  simp [syn]

theorem syn_of_coef_zero (i : Nat) (l : List (R × R)) (h : ∀ p ∈ l, p.2 = 0) : syn i l = 0 := by
  induction l with
  | nil => rfl
  | cons p t ih =>
    rw [syn_cons, h p (List.mem_cons_self ..), ih (fun q hq => h q (List.mem_cons_of_mem _ hq))]
    ring

/-- multiplying each coefficient by `(x_j − x)` turns the power sums into `S_{i+1} − x·S_i` -/
theorem syn_elim (x : R) (i : Nat) (l : List (R × R)) :
    syn i (l.map fun q => (q.1, q.2 * (q.1 - x))) = syn (i + 1) l - x * syn i l := by
  induction l with
  | nil => simp
  | cons p t ih =>
    rw [List.map_cons, syn_cons, ih, syn_cons, syn_cons]
    ring

/-- **Vandermonde non-singularity** (elimination form): `w ≤ e` pairwise distinct nodes, all of the first `e` power
    sums vanish: then every coefficient vanishes -/
theorem vandermonde_elim [NoZeroDivisors R] :
    ∀ (e : Nat) (l : List (R × R)), (l.map Prod.fst).Pairwise (· ≠ ·) → l.length ≤ e → (∀ i, i < e → syn i l = 0) →
      ∀ p ∈ l, p.2 = 0 := by
  intro e
  induction e with
  | zero =>
    intro l _ hlen _ p hp
    rw [List.eq_nil_of_length_eq_zero (by omega : l.length = 0)] at hp
    cases hp
  | succ e' ih =>
    intro l hpw hlen hs
    cases l with
    | nil => intro p hp; cases hp
    | cons p t =>
    simp only [List.map_cons, List.pairwise_cons] at hpw
    obtain ⟨hp1, hpt⟩ := hpw
    -- the reduced system
    have ht' : ∀ q' ∈ t.map (fun q => (q.1, q.2 * (q.1 - p.1))), q'.2 = 0 := by
      apply ih
      · rw [List.map_map]
        exact hpt
      · simp only [List.length_map, List.length_cons] at hlen ⊢; omega
      · intro i hi
        have h1 := hs (i + 1) (by omega)
        have h0 := hs i (by omega)
        rw [syn_cons] at h1 h0
        rw [syn_elim]
        have e1 : syn (i + 1) t = -(p.2 * p.1 ^ (i + 1)) := eq_neg_of_add_eq_zero_right h1
        have e0 : syn i t = -(p.2 * p.1 ^ i) := eq_neg_of_add_eq_zero_right h0
        rw [e1, e0]
        ring
    have ht : ∀ q ∈ t, q.2 = 0 := by
      intro q hq
      have := ht' (q.1, q.2 * (q.1 - p.1)) (List.mem_map.mpr ⟨q, hq, rfl⟩)
      rcases mul_eq_zero.mp this with h | h
      · exact h
      · exact absurd (sub_eq_zero.mp h).symm (hp1 q.1 (List.mem_map.mpr ⟨q, hq, rfl⟩))
    intro q hq
    rcases List.mem_cons.mp hq with rfl | hq
    · have h0 := hs 0 (by omega)
      rw [syn_cons, syn_of_coef_zero 0 t ht] at h0
      simpa using h0
    · exact ht q hq

end Elim

/-! ### a word as a list of (node, coefficient) pairs over its support -/

/-- the support of `cw` (highest-order coefficient first): `(α^(exponent of x), coefficient)` for each non-zero entry -/
def pairs : List Nat → List (GF256 × GF256)
  | [] => []
  | c :: t => if c = 0 then pairs t else (toF alpha ^ t.length, toF c) :: pairs t

theorem pairs_length (cw : List Nat) : (pairs cw).length = (cw.filter (· ≠ 0)).length := by
  induction cw with
  | nil => rfl
  | cons c t ih =>
    by_cases hc : c = 0
    · simp [pairs, hc, ih]
    · simp [pairs, hc, ih]

theorem pairs_nodes (cw : List Nat) : ∀ x ∈ (pairs cw).map Prod.fst, ∃ j, j < cw.length ∧ x = toF alpha ^ j := by
  induction cw with
  | nil => intro x hx; simp [pairs] at hx
  | cons c t ih =>
    intro x hx
    by_cases hc : c = 0
    · rw [pairs, if_pos hc] at hx
      obtain ⟨j, hj, rfl⟩ := ih x hx
      exact ⟨j, by simp only [List.length_cons]; omega, rfl⟩
    · rw [pairs, if_neg hc, List.map_cons, List.mem_cons] at hx
      rcases hx with rfl | hx
      · exact ⟨t.length, by simp, rfl⟩
      · obtain ⟨j, hj, rfl⟩ := ih x hx
        exact ⟨j, by simp only [List.length_cons]; omega, rfl⟩

theorem pairs_pairwise (cw : List Nat) (hlen : cw.length ≤ 255) : ((pairs cw).map Prod.fst).Pairwise (· ≠ ·) := by
  induction cw with
  | nil => simp [pairs]
  | cons c t ih =>
    simp only [List.length_cons] at hlen
    by_cases hc : c = 0
    · rw [pairs, if_pos hc]
      exact ih (by omega)
    · rw [pairs, if_neg hc, List.map_cons, List.pairwise_cons]
      refine ⟨?_, ih (by omega)⟩
      intro x hx heq
      obtain ⟨j, hj, rfl⟩ := pairs_nodes t x hx
      have := alpha_pow_inj (by omega) (by omega) heq
      omega

theorem pairs_coef_ne (cw : List Nat) (hb : Bytes cw) : ∀ p ∈ pairs cw, p.2 ≠ 0 := by
  induction cw with
  | nil => intro p hp; simp [pairs] at hp
  | cons c t ih =>
    intro p hp
    by_cases hc : c = 0
    · rw [pairs, if_pos hc] at hp
      exact ih hb.tail p hp
    · rw [pairs, if_neg hc, List.mem_cons] at hp
      rcases hp with rfl | hp
      · exact fun h => hc ((toF_eq_zero hb.head).mp h)
      · exact ih hb.tail p hp

theorem pairs_ne_nil (cw : List Nat) (hnz : ∃ c ∈ cw, c ≠ 0) : pairs cw ≠ [] := by
  induction cw with
  | nil => obtain ⟨c, hc, _⟩ := hnz; cases hc
  | cons c t ih =>
    by_cases hc : c = 0
    · rw [pairs, if_pos hc]
      apply ih
      obtain ⟨d, hd, hd0⟩ := hnz
      rcases List.mem_cons.mp hd with rfl | hd
      · exact absurd hc hd0
      · exact ⟨d, hd, hd0⟩
    · rw [pairs, if_neg hc]
      simp

/-- Horner evaluation from an accumulator, in the field -/
theorem toF_pevalAcc {r : Nat} (hr : r < 256) :
    ∀ (p : List Nat) (acc : Nat), acc < 256 → Bytes p →
      toF (pevalAcc r acc p) = toF acc * toF r ^ p.length + toF (pevalAcc r 0 p) := by
  intro p
  induction p with
  | nil => intro acc _ _; simp
  | cons a p ih =>
    intro acc hacc hp
    rw [pevalAcc_cons, pevalAcc_cons, ih _ (xor_lt_256 (gfmul_lt _ hacc) hp.head) hp.tail,
      ih (gfmul 0 r ^^^ a) (by simpa using hp.head) hp.tail, toF_xor, toF_gfmul hacc hr, gfmul_zero_left,
      Nat.zero_xor, List.length_cons]
    ring

theorem toF_peval_cons {r : Nat} (hr : r < 256) {c : Nat} {t : List Nat} (hb : Bytes (c :: t)) :
    toF (peval r (c :: t)) = toF c * toF r ^ t.length + toF (peval r t) := by
  rw [peval_eq, pevalAcc_cons, toF_pevalAcc hr t _ (by simpa using hb.head) hb.tail, gfmul_zero_left, Nat.zero_xor,
    ← peval_eq]

/-- the syndromes of a word are the power sums over its support -/
theorem syn_pairs (i : Nat) (cw : List Nat) (hb : Bytes cw) :
    syn i (pairs cw) = toF (peval (gfpow alpha i) cw) := by
  induction cw with
  | nil => rfl
  | cons c t ih =>
    rw [toF_peval_cons (gfpow_lt _ _) hb, ← ih hb.tail, toF_gfpow (by decide : alpha < 256)]
    by_cases hc : c = 0
    · rw [pairs, if_pos hc, hc]
      simp
    · rw [pairs, if_neg hc, syn_cons]
      show toF c * (toF alpha ^ t.length) ^ i + _ = _
      rw [pow_right_comm]

end Dist
open Dist

/-! ### the BCH bound -/

/-- **minimum weight** of the ISO Reed-Solomon code with `e` check symbols: a non-zero word of length `≤ 255` all of
    whose syndromes `cw(α^0), …, cw(α^(e-1))` vanish has at least `e + 1` non-zero symbols -/
theorem codeword_weight (e : Nat) (cw : List Nat) (hlen : cw.length ≤ 255) (hb : ∀ c ∈ cw, c < 256)
    (hcw : Spec.isCodeword e cw = true) (hnz : ∃ c ∈ cw, c ≠ 0) :
    e + 1 ≤ (cw.filter (· ≠ 0)).length := by
  refine Nat.lt_of_not_le fun hle => ?_
  rw [← pairs_length] at hle
  simp only [isCodeword, List.all_eq_true, List.mem_range, beq_iff_eq] at hcw
  have hz := vandermonde_elim e (pairs cw) (pairs_pairwise cw hlen) hle (by
    intro i hi
    rw [syn_pairs i cw hb, hcw i hi]
    rfl)
  apply pairs_ne_nil cw hnz
  apply List.eq_nil_iff_forall_not_mem.mpr
  intro p hp
  exact pairs_coef_ne cw hb p hp (hz p hp)

/-! ### linearity and distance -/

namespace Dist

theorem pevalAcc_zipWith_xor {r : Nat} (hr : r < 256) :
    ∀ (p q : List Nat) (a b : Nat), a < 256 → b < 256 → Bytes p → Bytes q → p.length = q.length →
      pevalAcc r (a ^^^ b) (List.zipWith (· ^^^ ·) p q) = pevalAcc r a p ^^^ pevalAcc r b q := by
  intro p
  induction p with
  | nil =>
    intro q a b _ _ _ _ hl
    cases q with
    | nil => simp
    | cons y q => simp at hl
  | cons x p ih =>
    intro q a b ha hb hp hq hl
    cases q with
    | nil => simp at hl
    | cons y q =>
      simp only [List.length_cons, Nat.add_right_cancel_iff] at hl
      simp only [List.zipWith_cons_cons, pevalAcc_cons]
      rw [← ih q _ _ (xor_lt_256 (gfmul_lt _ ha) hp.head) (xor_lt_256 (gfmul_lt _ hb) hq.head) hp.tail hq.tail hl]
      congr 1
      rw [gfmul_xor_left ha hb hr]
      ac_rfl

/-- Horner evaluation is xor-linear in the word -/
theorem peval_zipWith_xor {r : Nat} (hr : r < 256) {p q : List Nat} (hp : Bytes p) (hq : Bytes q)
    (hl : p.length = q.length) : peval r (List.zipWith (· ^^^ ·) p q) = peval r p ^^^ peval r q := by
  have := pevalAcc_zipWith_xor hr p q 0 0 (by omega) (by omega) hp hq hl
  simpa [peval_eq] using this

/-- the position-wise xor of two codewords is a codeword -/
theorem isCodeword_zipWith_xor (e : Nat) {p q : List Nat} (hp : Bytes p) (hq : Bytes q) (hl : p.length = q.length)
    (h1 : isCodeword e p = true) (h2 : isCodeword e q = true) :
    isCodeword e (List.zipWith (· ^^^ ·) p q) = true := by
  simp only [isCodeword, List.all_eq_true, List.mem_range, beq_iff_eq] at h1 h2 ⊢
  intro i hi
  rw [peval_zipWith_xor (gfpow_lt _ _) hp hq hl, h1 i hi, h2 i hi]
  rfl

end Dist

/-- Hamming distance: the number of positions where two words (of the same length) differ -/
def hdist (a b : List Nat) : Nat := ((a.zip b).filter fun p => p.1 ≠ p.2).length

@[simp] theorem hdist_nil_left (b : List Nat) : hdist [] b = 0 := by simp [hdist]
@[simp] theorem hdist_nil_right (a : List Nat) : hdist a [] = 0 := by simp [hdist]
theorem hdist_cons (x y : Nat) (a b : List Nat) :
    hdist (x :: a) (y :: b) = (if x ≠ y then 1 else 0) + hdist a b := by
  by_cases h : x = y
  · simp [hdist, h]
  · simp [hdist, h, Nat.add_comm]

namespace Dist

theorem xor_eq_zero_iff' {x y : Nat} : x ^^^ y = 0 ↔ x = y := by
  constructor
  · intro h
    have : (x ^^^ y) ^^^ y = 0 ^^^ y := by rw [h]
    rwa [Nat.xor_assoc, Nat.xor_self, Nat.xor_zero, Nat.zero_xor] at this
  · intro h; rw [h, Nat.xor_self]

theorem weight_zipWith_xor : ∀ (a b : List Nat),
    ((List.zipWith (· ^^^ ·) a b).filter (· ≠ 0)).length = hdist a b := by
  intro a
  induction a with
  | nil => intro b; simp
  | cons x a ih =>
    intro b
    cases b with
    | nil => simp
    | cons y b =>
      rw [List.zipWith_cons_cons, hdist_cons, ← ih b]
      by_cases h : x = y
      · simp [h]
      · have : x ^^^ y ≠ 0 := fun h0 => h (xor_eq_zero_iff'.mp h0)
        simp [h, this, Nat.add_comm]

theorem hdist_eq_zero : ∀ (a b : List Nat), a.length = b.length → hdist a b = 0 → a = b := by
  intro a
  induction a with
  | nil => intro b hl _; cases b with
    | nil => rfl
    | cons y b => simp at hl
  | cons x a ih =>
    intro b hl h
    cases b with
    | nil => simp at hl
    | cons y b =>
      simp only [List.length_cons, Nat.add_right_cancel_iff] at hl
      rw [hdist_cons] at h
      by_cases hxy : x = y
      · rw [if_neg (by simpa using hxy)] at h
        rw [hxy, ih b hl (by omega)]
      · rw [if_pos hxy] at h; omega

theorem hdist_comm : ∀ (a b : List Nat), hdist a b = hdist b a := by
  intro a
  induction a with
  | nil => intro b; simp
  | cons x a ih =>
    intro b
    cases b with
    | nil => simp
    | cons y b =>
      rw [hdist_cons, hdist_cons, ih b]
      by_cases h : x = y
      · simp [h]
      · have : ¬ y = x := fun h' => h h'.symm
        simp [h, this]

/-- triangle inequality (all three words of the same length) -/
theorem hdist_triangle : ∀ (a r b : List Nat), a.length = r.length → r.length = b.length →
    hdist a b ≤ hdist a r + hdist r b := by
  intro a
  induction a with
  | nil => intro r b _ _; simp
  | cons x a ih =>
    intro r b h1 h2
    cases r with
    | nil => simp at h1
    | cons z r =>
      cases b with
      | nil => simp at h2
      | cons y b =>
        simp only [List.length_cons, Nat.add_right_cancel_iff] at h1 h2
        have := ih r b h1 h2
        rw [hdist_cons, hdist_cons, hdist_cons]
        by_cases hxy : x = y <;> by_cases hxz : x = z <;> by_cases hzy : z = y <;>
          simp only [hxy, hxz, hzy, ne_eq, not_true_eq_false, not_false_eq_true, if_true, if_false] <;>
          omega

end Dist

/-- **minimum distance** of the ISO Reed-Solomon code with `e` check symbols: two distinct codewords of the same
    length `≤ 255` differ in at least `e + 1` positions -/
theorem codeword_distance (e : Nat) (c1 c2 : List Nat) (hl : c1.length = c2.length) (hlen : c1.length ≤ 255)
    (hb1 : ∀ c ∈ c1, c < 256) (hb2 : ∀ c ∈ c2, c < 256)
    (h1 : Spec.isCodeword e c1 = true) (h2 : Spec.isCodeword e c2 = true) (hne : c1 ≠ c2) :
    e + 1 ≤ hdist c1 c2 := by
  rw [← weight_zipWith_xor]
  apply codeword_weight e
  · simp only [List.length_zipWith]; omega
  · intro c hc
    obtain ⟨i, hi, rfl⟩ := List.getElem_of_mem hc
    simp only [List.length_zipWith] at hi
    rw [List.getElem_zipWith]
    exact xor_lt_256 (hb1 _ (List.getElem_mem _)) (hb2 _ (List.getElem_mem _))
  · exact isCodeword_zipWith_xor e hb1 hb2 hl h1 h2
  · apply Classical.byContradiction
    intro hall
    apply hne
    apply hdist_eq_zero c1 c2 hl
    rw [← weight_zipWith_xor]
    rw [List.length_eq_zero_iff, List.filter_eq_nil_iff]
    intro c hc hc0
    exact hall ⟨c, hc, by simpa using hc0⟩

/-- **unique decoding**: a received word `r` is within `⌊e/2⌋` symbol errors of at most one codeword, i.e. any
    `≤ ⌊e/2⌋` damaged codewords per block are correctable -/
theorem unique_decoding (e : Nat) (r c1 c2 : List Nat) (hr1 : r.length = c1.length) (hr2 : r.length = c2.length)
    (hlen : r.length ≤ 255) (hb1 : ∀ c ∈ c1, c < 256) (hb2 : ∀ c ∈ c2, c < 256)
    (h1 : Spec.isCodeword e c1 = true) (h2 : Spec.isCodeword e c2 = true)
    (hd1 : hdist r c1 ≤ e / 2) (hd2 : hdist r c2 ≤ e / 2) : c1 = c2 := by
  apply Classical.byContradiction
  intro hne
  have hd := codeword_distance e c1 c2 (by omega) (by omega) hb1 hb2 h1 h2 hne
  have ht := hdist_triangle c1 r c2 hr1.symm hr2
  rw [hdist_comm c1 r] at ht
  omega

/-! ### every block of ISO Table 9 is short enough -/

set_option maxRecDepth 100000 in
/-- every Reed-Solomon block of every (version, level) has at most 255 codewords (in fact at most 153) -/
theorem isoBlocks_total_le : ∀ v, v < 40 → ∀ l ∈ Props.allLevels, ∀ b ∈ Spec.isoBlocks (v + 1) l, b.1 ≤ 153 := by
  have h : (List.range 40).all (fun v => Props.allLevels.all fun l =>
      (Spec.isoBlocks (v + 1) l).all fun b => decide (b.1 ≤ 153)) = true := by decide +kernel
  intro v hv l hl b hb
  have := forall_mem_of_all (forall_mem_of_all (forall_lt_of_all h v hv) l hl) b hb
  simpa using this

/-- **C02 (correctability)**: in every block of every (version, level) symbol, a received block `r` is within
    `⌊e/2⌋` symbol errors (`e` = error-correction codewords per block of ISO Table 9) of at most one codeword -/
theorem C02_unique_decoding (v : Nat) (hv : v < 40) (l : Spec.Level) (b : Nat × Nat) (hbl : b ∈ Spec.isoBlocks (v + 1) l)
    (r c1 c2 : List Nat) (hr : r.length = b.1) (hc1 : c1.length = b.1) (hc2 : c2.length = b.1)
    (hb1 : ∀ c ∈ c1, c < 256) (hb2 : ∀ c ∈ c2, c < 256)
    (h1 : Spec.isCodeword (Spec.eccLen (v + 1) l) c1 = true) (h2 : Spec.isCodeword (Spec.eccLen (v + 1) l) c2 = true)
    (hd1 : hdist r c1 ≤ Spec.eccLen (v + 1) l / 2) (hd2 : hdist r c2 ≤ Spec.eccLen (v + 1) l / 2) : c1 = c2 := by
  have := isoBlocks_total_le v hv l (by cases l <;> simp [Props.allLevels]) b hbl
  exact unique_decoding _ r c1 c2 (by omega) (by omega) (by omega) hb1 hb2 h1 h2 hd1 hd2

end QR.Proofs
