import QR.Model.Data
import QR.Spec.Stream
import QR.Proofs.Finite
/-
C06 - data bit stream (finite part so far: character-count widths, mode indicators, pad codewords).
-/
namespace QR.Props
open QR

def allModes : List Spec.Mode := [.numeric, .alnum, .byte]

set_option maxRecDepth 100000 in
/-- `length_in_bits(mode, v)` is ISO Table 3 for all 40 versions and the three modes (class boundaries 9|10, 26|27) -/
theorem C06_widths : ∀ v, v < 40 → ∀ m ∈ allModes,
    Model.lengthInBits m.indicator (v + 1) = .ok (Spec.countWidth (v + 1) m) := by
  have h : (List.range 40).all (fun v => allModes.all fun m =>
      match Model.lengthInBits m.indicator (v + 1) with
      | .ok w => w == Spec.countWidth (v + 1) m
      | .error _ => false) = true := by decide +kernel
  intro v hv m hm
  have := forall_mem_of_all (forall_lt_of_all h v hv) m hm
  revert this
  cases Model.lengthInBits m.indicator (v + 1) with
  | ok b => intro h; simp at h; rw [h]
  | error e => intro h; simp at h

/-- mode indicators, pad codewords, numeric group widths and the alphanumeric table are the ISO ones -/
theorem C06_constants :
    Gen.MODE_NUMBER = Spec.Mode.numeric.indicator ∧ Gen.MODE_ALPHA_NUM = Spec.Mode.alnum.indicator ∧
    Gen.MODE_8BIT_BYTE = Spec.Mode.byte.indicator ∧ Gen.PAD0 = 0xEC ∧ Gen.PAD1 = 0x11 ∧
    Gen.NUMBER_LENGTH = [(1, 4), (2, 7), (3, 10)] ∧ Gen.ALPHA_NUM = Spec.alnumTable := by decide

end QR.Props
