import QR.Model.Segment
import QR.Spec.Segmentation
import QR.Proofs.Conv
/-
C10 (segmentation), part 1: structural facts about the run scanners `findRun`, `splitRuns`, `splitAnchored`
(lossless, flagged chunks satisfy the class, flagged chunks are long), the shape of `addData`, and the
conversion `toPSegs`.
-/
namespace QR.Seg
open QR QR.Model

/-! ### vocabulary bridges -/

theorem isDigitChar_eq : Spec.isDigitChar = Model.isDigit := rfl

theorem alnum_tables : Gen.ALPHA_NUM = Spec.alnumTable := by decide

theorem isAlnumChar_eq : Spec.isAlnumChar = Model.isAlnum := by
  funext c; simp only [Spec.isAlnumChar, Model.isAlnum, alnum_tables]

theorem isAlnum_of_isDigit {c : Nat} (h : isDigit c = true) : isAlnum c = true := by
  simp only [isDigit, Bool.and_eq_true, decide_eq_true_eq] at h
  obtain ⟨h1, h2⟩ := h
  have : c = 48 ∨ c = 49 ∨ c = 50 ∨ c = 51 ∨ c = 52 ∨ c = 53 ∨ c = 54 ∨ c = 55 ∨ c = 56 ∨ c = 57 := by omega
  rcases this with h | h | h | h | h | h | h | h | h | h <;> subst h <;> decide

theorem isAlnum_10 : isAlnum 10 = false := by decide
theorem isDigit_10 : isDigit 10 = false := by decide

/-! ### takeWhile / dropWhile helpers -/

theorem mem_takeWhile {α} {p : α → Bool} {x : α} : ∀ {l : List α}, x ∈ l.takeWhile p → p x = true
  | [], h => by simp at h
  | a :: l, h => by
    rw [List.takeWhile_cons] at h
    split at h
    · rcases List.mem_cons.mp h with h | h
      · subst h; assumption
      · exact mem_takeWhile h
    · simp at h

theorem dropWhile_head {α} {p : α → Bool} {c : α} {t : List α} : ∀ {l : List α}, l.dropWhile p = c :: t → p c = false
  | [], h => by simp at h
  | a :: l, h => by
    rw [List.dropWhile_cons] at h
    split at h
    · exact dropWhile_head h
    · rename_i hp
      injection h with h1 h2
      subst h1; simpa using hp

theorem takeWhile_ne_nil_of_dropWhile_not {α} {p : α → Bool} {l : List α}
    (h : l.dropWhile (fun c => !p c) ≠ []) : (l.dropWhile (fun c => !p c)).takeWhile p ≠ [] := by
  cases hl : l.dropWhile (fun c => !p c) with
  | nil => exact absurd hl h
  | cons c t =>
    have := dropWhile_head hl
    simp only [Bool.not_eq_false'] at this
    simp [this]

theorem takeWhile_eq_self {α} {p : α → Bool} : ∀ {l : List α}, l.dropWhile p = [] → l.takeWhile p = l
  | [], _ => rfl
  | a :: l, h => by
    rw [List.dropWhile_cons] at h
    split at h
    · rename_i hp
      rw [List.takeWhile_cons, if_pos hp, takeWhile_eq_self h]
    · simp at h

/-! ### findRun -/

/-- what `findRun` returns: a decomposition of the data whose middle is a non-empty run of the class of length ≥ n -/
theorem findRun_some {p : Nat → Bool} {n : Nat} : ∀ (fuel : Nat) (data pre run after : List Nat),
    findRun p n fuel data = some (pre, run, after) →
    pre ++ run ++ after = data ∧ run ≠ [] ∧ (∀ c ∈ run, p c = true) ∧ n ≤ run.length ∧ after.length < data.length := by
  intro fuel
  induction fuel with
  | zero => intro data pre run after h; simp [findRun] at h
  | succ fuel ih =>
    intro data pre run after h
    simp only [findRun] at h
    have hsplit : data.takeWhile (fun c => !p c) ++ data.dropWhile (fun c => !p c) = data :=
      List.takeWhile_append_dropWhile
    have hsplit2 : (data.dropWhile (fun c => !p c)).takeWhile p ++ (data.dropWhile (fun c => !p c)).dropWhile p
        = data.dropWhile (fun c => !p c) := List.takeWhile_append_dropWhile
    split at h
    · simp at h
    · rename_i hne
      have hne' : data.dropWhile (fun c => !p c) ≠ [] := by simpa using hne
      have hrun := takeWhile_ne_nil_of_dropWhile_not hne'
      have hlen : ((data.dropWhile (fun c => !p c)).dropWhile p).length < data.length := by
        have h1 := congrArg List.length hsplit
        have h2 := congrArg List.length hsplit2
        simp only [List.length_append] at h1 h2
        have : 0 < ((data.dropWhile (fun c => !p c)).takeWhile p).length := List.length_pos_iff.mpr hrun
        omega
      split at h
      · rename_i hge
        simp only [Option.some.injEq, Prod.mk.injEq] at h
        obtain ⟨h1, h2, h3⟩ := h
        subst h1 h2 h3
        refine ⟨?_, hrun, fun c hc => mem_takeWhile hc, hge, hlen⟩
        rw [List.append_assoc, hsplit2, hsplit]
      · cases hrec : findRun p n fuel ((data.dropWhile (fun c => !p c)).dropWhile p) with
        | none => simp [hrec] at h
        | some r =>
          obtain ⟨b, r, a⟩ := r
          simp only [hrec, Option.some.injEq, Prod.mk.injEq] at h
          obtain ⟨h1, h2, h3⟩ := h
          subst h1 h2 h3
          obtain ⟨e1, e2, e3, e4, e5⟩ := ih _ _ _ _ hrec
          refine ⟨?_, e2, e3, e4, by omega⟩
          calc data.takeWhile (fun c => !p c) ++ (data.dropWhile (fun c => !p c)).takeWhile p ++ b ++ r ++ a
              = data.takeWhile (fun c => !p c) ++ ((data.dropWhile (fun c => !p c)).takeWhile p ++ (b ++ r ++ a)) := by
                simp only [List.append_assoc]
            _ = data := by rw [e1, hsplit2, hsplit]

/-! ### chunk lists -/

/-- the properties of a chunk list that hold for every fuel: concatenation, flagged chunks are in the class, are
    non-empty and have length ≥ n -/
def ChunksOK (p : Nat → Bool) (n : Nat) (data : List Nat) (cs : List (Bool × List Nat)) : Prop :=
  cs.flatMap (·.2) = data ∧ ∀ x ∈ cs, x.2 ≠ [] ∧ (x.1 = true → (∀ c ∈ x.2, p c = true) ∧ n ≤ x.2.length)

theorem splitRuns_ok {p : Nat → Bool} {n : Nat} : ∀ (fuel : Nat) (data : List Nat),
    ChunksOK p n data (splitRuns p n fuel data) := by
  intro fuel
  induction fuel with
  | zero =>
    intro data
    simp only [splitRuns]
    split
    · rename_i h; simp only [List.isEmpty_iff] at h; subst h; simp [ChunksOK]
    · rename_i h; simp only [List.isEmpty_iff] at h; simp [ChunksOK, h]
  | succ fuel ih =>
    intro data
    simp only [splitRuns]
    split
    · rename_i h; simp only [List.isEmpty_iff] at h; subst h; simp [ChunksOK]
    · rename_i h
      simp only [List.isEmpty_iff] at h
      cases hf : findRun p n (data.length + 1) data with
      | none => simp [ChunksOK, h]
      | some r =>
        obtain ⟨pre, run, after⟩ := r
        obtain ⟨e1, e2, e3, e4, _⟩ := findRun_some _ _ _ _ _ hf
        obtain ⟨i1, i2⟩ := ih after
        simp only
        constructor
        · simp only [List.flatMap_append, List.flatMap_cons, i1]
          rw [← e1]
          by_cases hp : pre = []
          · subst hp; simp
          · simp [hp]
        · intro x hx
          rcases List.mem_append.mp hx with hx | hx
          · by_cases hp : pre = []
            · subst hp; simp at hx
            · simp only [List.isEmpty_iff, hp, if_false, List.mem_singleton] at hx
              subst hx; simp [hp]
          · rcases List.mem_cons.mp hx with hx | hx
            · subst hx; exact ⟨e2, fun _ => ⟨e3, e4⟩⟩
            · exact i2 x hx

theorem splitAnchored_ok {p : Nat → Bool} (data : List Nat) : ChunksOK p 0 data (splitAnchored p data) := by
  simp only [splitAnchored]
  have hsplit : data.takeWhile p ++ data.dropWhile p = data := List.takeWhile_append_dropWhile
  split
  · rename_i h
    simp only [Bool.and_eq_true, Bool.not_eq_true', List.isEmpty_eq_false_iff] at h
    obtain ⟨h1, _⟩ := h
    constructor
    · by_cases hr : data.dropWhile p = []
      · simp only [hr, List.isEmpty_nil, if_true, List.flatMap_cons, List.flatMap_nil, List.append_nil]
        rw [hr, List.append_nil] at hsplit; exact hsplit
      · simp [hr, hsplit]
    · intro x hx
      rcases List.mem_cons.mp hx with hx | hx
      · subst hx; exact ⟨h1, fun _ => ⟨fun c hc => mem_takeWhile hc, Nat.zero_le _⟩⟩
      · by_cases hr : data.dropWhile p = []
        · simp [hr] at hx
        · simp only [List.isEmpty_iff, hr, if_false, List.mem_singleton] at hx
          subst hx; simp [hr]
  · split
    · rename_i h; simp only [List.isEmpty_iff] at h; subst h; simp [ChunksOK]
    · rename_i h; simp only [List.isEmpty_iff] at h; simp [ChunksOK, h]

end QR.Seg
