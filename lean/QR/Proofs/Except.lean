import QR.Model.Basic
/-
Lemmas about the `Except Err` monad the model is written in.
-/
namespace QR

@[simp] theorem R.bind_ok {α β} (a : α) (f : α → R β) : ((Except.ok a : R α) >>= f) = f a := rfl
@[simp] theorem R.bind_error {α β} (e : Err) (f : α → R β) : ((Except.error e : R α) >>= f) = Except.error e := rfl
@[simp] theorem R.pure_eq {α} (a : α) : (pure a : R α) = Except.ok a := rfl

theorem R.bind_eq_ok {α β} {x : R α} {f : α → R β} {b : β} :
    (x >>= f) = Except.ok b ↔ ∃ a, x = Except.ok a ∧ f a = Except.ok b := by
  cases x with
  | error e => simp
  | ok a => simp

theorem R.bind_eq_error {α β} {x : R α} {f : α → R β} {e : Err} :
    (x >>= f) = Except.error e ↔ x = Except.error e ∨ ∃ a, x = Except.ok a ∧ f a = Except.error e := by
  cases x with
  | error e' => simp
  | ok a => simp

theorem R.map_eq_ok {α β} {x : R α} {f : α → β} {b : β} :
    (f <$> x) = Except.ok b ↔ ∃ a, x = Except.ok a ∧ f a = b := by
  cases x with
  | error e => simp [Functor.map, Except.map]
  | ok a => simp [Functor.map, Except.map]

end QR
