import QR.Proofs.StreamPad
import QR.Proofs.StreamPack
/-
C06 main theorems: the bit buffer built by `create_data` (before `create_bytes`) is a conformant ISO/IEC 18004 data
bit stream whose segments are exactly the input segments; DataOverflowError is raised exactly when the closed-form
stream length exceeds the ISO data capacity.

Layout of the development:
  QR/Proofs/StreamBits.lean   item 1  bit-level lemmas
  QR/Proofs/StreamModes.lean  item 2  per-mode round trips
  QR/Proofs/StreamSegs.lean   item 3  segment lists
  QR/Proofs/StreamFit.lean    item 4  count-field bound from fitting
  QR/Proofs/StreamPad.lean    item 5  terminator / zero fill / pad codewords
  QR/Proofs/StreamPack.lean   bonus   packBytes loses nothing on whole bytes
  QR/Proofs/Stream.lean       items 5-6  statements about `dataBits`, main theorem
-/
namespace QR
open Model

theorem capacityBits_mod8 (v : Nat) (l : Spec.Level) : Spec.capacityBits v l % 8 = 0 := by
  simp only [Spec.capacityBits, Nat.mul_mod_right]

theorem length_le_streamBits (v : Nat) (ps : List Spec.PSeg) : ps.length ≤ Spec.streamBits v (segCounts ps) := by
  induction ps with
  | nil => exact Nat.zero_le _
  | cons p ps ih => rw [streamBits_cons, List.length_cons]; omega

/-- item 5: the buffer has exactly the ISO capacity, and is the segment bits followed by a conformant tail
    (terminator of min(4, room) zeros, zeros to the byte boundary, alternating 0xEC / 0x11) -/
theorem dataBits_padding {v : Nat} (h1 : 1 ≤ v) (h40 : v ≤ 40) (l : Spec.Level) {segs : List Seg} {all : List Bool}
    (h : dataBits v l.indicator segs = .ok all) :
    all.length = Spec.capacityBits v l ∧
    ∃ bits tail, segsBits (fun m => lengthInBits m v) segs = .ok bits ∧ all = bits ++ tail ∧
      bits.length ≤ Spec.capacityBits v l ∧ tail = tailBits (Spec.capacityBits v l) bits.length ∧
      Spec.tailOK bits.length tail = true ∧ StopsParse tail := by
  rw [dataBits_eq h1 h40, R.bind_eq_ok] at h
  obtain ⟨bits, hbits, hrest⟩ := h
  by_cases hov : bits.length > Spec.capacityBits v l
  · simp [hov] at hrest
  · simp only [hov, ↓reduceIte, Except.ok.injEq] at hrest
    have hle : bits.length ≤ Spec.capacityBits v l := by omega
    have h8 := capacityBits_mod8 v l
    refine ⟨?_, bits, _, hbits, hrest.symm, hle, rfl, tailOK_tailBits h8 hle, tailBits_stops h8 hle⟩
    rw [← hrest, List.length_append, tailBits_length h8 hle]; omega

/-- item 6, main theorem: reading the data bit stream with the ISO grammar returns exactly the input segments, and the
    terminator / padding are conformant -/
theorem C06_stream {v : Nat} (h1 : 1 ≤ v) (h40 : v ≤ 40) (l : Spec.Level) {segs : List Seg}
    (hvalid : ∀ s ∈ segs, s.Valid) {ps : List Spec.PSeg} (hps : toPSegs segs = some ps) {all : List Bool}
    (h : dataBits v l.indicator segs = .ok all) :
    Spec.readStream v all = some { segs := ps, tailConformant := true } := by
  obtain ⟨_, bits, tail, hbits, hall, hle, _, htail, hstop⟩ := dataBits_padding h1 h40 l h
  have hlen := segsBits_length h1 h40 hvalid hbits hps
  have hfit := count_fits_of_fits h1 h40 l (ps := ps) (by rw [← hlen]; exact hle)
  have hpl : ps.length = segs.length := by
    obtain ⟨_, ps', _, hps', hl', _⟩ := segsBits_ok h1 h40 segs hvalid
    rw [hps] at hps'; cases hps'; exact hl'
  have hfuel : segs.length < all.length + 1 := by
    have := length_le_streamBits v ps
    rw [hall, List.length_append]; omega
  have hparse := parseSegs_segsBits h1 h40 segs hvalid hbits hps hfit hstop hfuel
  subst hall
  rw [Spec.readStream, hparse]
  simp only [List.length_append, Nat.add_sub_cancel, htail]

/-- field-wise form of `C06_stream` -/
theorem C06_stream_fields {v : Nat} (h1 : 1 ≤ v) (h40 : v ≤ 40) (l : Spec.Level) {segs : List Seg}
    (hvalid : ∀ s ∈ segs, s.Valid) {ps : List Spec.PSeg} (hps : toPSegs segs = some ps) {all : List Bool}
    (h : dataBits v l.indicator segs = .ok all) :
    ∃ r, Spec.readStream v all = some r ∧ r.segs = ps ∧ r.tailConformant = true :=
  ⟨_, C06_stream h1 h40 l hvalid hps h, rfl, rfl⟩

/-- item 6, converse: `create_data` raises DataOverflowError exactly when the closed-form ISO stream length exceeds the
    ISO data capacity -/
theorem C06_overflow_iff {v : Nat} (h1 : 1 ≤ v) (h40 : v ≤ 40) (l : Spec.Level) {segs : List Seg}
    (hvalid : ∀ s ∈ segs, s.Valid) {ps : List Spec.PSeg} (hps : toPSegs segs = some ps) :
    dataBits v l.indicator segs = .error .dataOverflow ↔
      Spec.streamBits v (segCounts ps) > Spec.capacityBits v l := by
  obtain ⟨bits, ps', hbits, hps', _, hlen⟩ := segsBits_ok h1 h40 segs hvalid
  rw [hps] at hps'; cases hps'
  rw [dataBits_eq h1 h40, hbits, R.bind_ok, ← hlen]
  by_cases hov : bits.length > Spec.capacityBits v l
  · simp [hov]
  · simp [hov]

/-- and otherwise it succeeds (no other exception is possible on valid segments) -/
theorem C06_ok_of_fits {v : Nat} (h1 : 1 ≤ v) (h40 : v ≤ 40) (l : Spec.Level) {segs : List Seg}
    (hvalid : ∀ s ∈ segs, s.Valid) {ps : List Spec.PSeg} (hps : toPSegs segs = some ps)
    (hfit : Spec.streamBits v (segCounts ps) ≤ Spec.capacityBits v l) :
    ∃ all, dataBits v l.indicator segs = .ok all := by
  obtain ⟨bits, ps', hbits, hps', _, hlen⟩ := segsBits_ok h1 h40 segs hvalid
  rw [hps] at hps'; cases hps'
  rw [← hlen] at hfit
  rw [dataBits_eq h1 h40, hbits, R.bind_ok]
  have : ¬ bits.length > Spec.capacityBits v l := by omega
  exact ⟨bits ++ tailBits (Spec.capacityBits v l) bits.length, by simp only [this, ↓reduceIte]⟩

/-- valid segments always have a Spec view -/
theorem toPSegs_of_valid {segs : List Seg} (hvalid : ∀ s ∈ segs, s.Valid) : ∃ ps, toPSegs segs = some ps := by
  obtain ⟨_, ps, _, hps, _, _⟩ := segsBits_ok (v := 1) (Nat.le_refl 1) (by decide) segs hvalid
  exact ⟨ps, hps⟩

/-- item 3, packaged: valid segments are written successfully, the length is the closed form, and (when the counts
    fit their count fields) the ISO parser recovers exactly the segments before any stopping continuation -/
theorem segs_roundtrip {v : Nat} (h1 : 1 ≤ v) (h40 : v ≤ 40) (segs : List Seg) (hvalid : ∀ s ∈ segs, s.Valid) :
    ∃ bits ps, segsBits (fun m => lengthInBits m v) segs = .ok bits ∧ toPSegs segs = some ps ∧
      bits.length = Spec.streamBits v (segCounts ps) ∧
      ((∀ p ∈ ps, p.data.length < 2 ^ Spec.countWidth v p.mode) →
        ∀ rest, (rest.length < 4 ∨ rest.take 4 = [false, false, false, false]) →
        ∀ fuel, segs.length < fuel → Spec.parseSegs v fuel (bits ++ rest) = some (ps, rest)) := by
  obtain ⟨bits, ps, hbits, hps, _, hlen⟩ := segsBits_ok h1 h40 segs hvalid
  exact ⟨bits, ps, hbits, hps, hlen, fun hfit rest hrest fuel hfuel =>
    parseSegs_segsBits h1 h40 segs hvalid hbits hps hfit hrest hfuel⟩

/-- C06 on the data codewords themselves: the bytes handed to `create_bytes` (`packBytes all`), written out MSB first,
    form a conformant ISO data bit stream carrying exactly the input segments; there are exactly the ISO number of data
    codewords, each below 256 -/
theorem C06_codewords {v : Nat} (h1 : 1 ≤ v) (h40 : v ≤ 40) (l : Spec.Level) {segs : List Seg}
    (hvalid : ∀ s ∈ segs, s.Valid) {ps : List Spec.PSeg} (hps : toPSegs segs = some ps) {all : List Bool}
    (h : dataBits v l.indicator segs = .ok all) :
    Spec.readStream v (writeBytes (packBytes all)) = some { segs := ps, tailConformant := true } ∧
    (packBytes all).length = Spec.dataCodewords v l ∧ ∀ b ∈ packBytes all, b < 256 := by
  have hlen := (dataBits_padding h1 h40 l h).1
  have h8 : all.length % 8 = 0 := by rw [hlen]; exact capacityBits_mod8 v l
  obtain ⟨hw, hl, hb⟩ := writeBytes_packBytes h8
  refine ⟨by rw [hw]; exact C06_stream h1 h40 l hvalid hps h, ?_, hb⟩
  rw [hl, hlen, Spec.capacityBits]; omega

end QR
