import QR.Gen.Code
import QR.Model.Matrix
/-
Translation validation, list A2: `QRCode.setup_type_info`, `QRCode.setup_type_number`.
For every loop the translator emits the range and ONE function of the loop index giving the written cell (Int coordinates,
exactly as Python computes them) and the written value; the fixed dark module likewise.  The Model's functions are proved
equal to the generic "write loop" over these fragments.
-/
namespace QR.SourceTieA
open QR QR.Model QR.Gen.Code

/-- the statement `self.modules[r][c] = v` for non-negative `r`, `c` -/
def writeCell (m : Mat) (w : (Int × Int) × Bool) : Mat := m.set w.1.1.toNat w.1.2.toNat (some w.2)

/-- `for i in range(a, b): self.modules[r(i)][c(i)] = v(i)` -/
def writeLoop (rng : Nat × Nat) (f : Nat → (Int × Int) × Bool) (m : Mat) : Mat :=
  (List.range' rng.1 (rng.2 - rng.1)).foldl (fun m i => writeCell m (f i)) m

theorem foldl_congr_mem {α β : Type} (f g : α → β → α) : ∀ (l : List β) (a : α),
    (∀ a, ∀ b ∈ l, f a b = g a b) → l.foldl f a = l.foldl g a
  | [], _, _ => rfl
  | b :: l, a, h => by
    simp only [List.foldl_cons]
    rw [h a b (by simp)]
    exact foldl_congr_mem f g l _ (fun a b hb => h a b (by simp [hb]))

theorem writeLoop_eq (k : Nat) (f : Nat → (Int × Int) × Bool) (g : Mat → Nat → Mat) (m : Mat)
    (h : ∀ m i, i < k → writeCell m (f i) = g m i) :
    writeLoop (0, k) f m = (List.range k).foldl g m := by
  unfold writeLoop
  simp only [Nat.sub_zero, ← List.range_eq_range']
  exact foldl_congr_mem _ _ _ _ (fun a b hb => h a b (by simpa using hb))

theorem bit_eq (bits i : Nat) : decide (((bits >>> i) &&& 1) = 1) = bits.testBit i := by
  rw [Nat.testBit, Nat.and_comm, Nat.one_and_eq_mod_two]
  by_cases h : (bits >>> i) % 2 = 1 <;> simp [h]

/-! ### setup_type_info -/

/-- the data word `(self.error_correction << 3) | mask_pattern` -/
theorem type_info_data_src (level mask : Nat) : type_info_data level mask = (level <<< 3) ||| mask := rfl

theorem type_info_calls : type_info_bits_call = "util.BCH_type_info(data)" ∧
    type_number_bits_call = "util.BCH_type_number(self.version)" := ⟨rfl, rfl⟩

theorem type_info_ranges : type_info_v_range = (0, 15) ∧ type_info_h_range = (0, 15) ∧
    type_number_a_range = (0, 18) ∧ type_number_b_range = (0, 18) := ⟨rfl, rfl, rfl, rfl⟩

/-- vertical strip: for every loop index the translated (row, col, value) is the Model's -/
theorem type_info_v_src (n : Nat) (hn : 15 ≤ n) (test : Bool) (bits i : Nat) :
    type_info_v n test bits i =
      (((((if i < 6 then i else if i < 8 then i + 1 else n - 15 + i : Nat) : Int)), 8), (!test && bits.testBit i)) := by
  unfold type_info_v
  simp only [bit_eq]
  by_cases h6 : i < 6
  · simp [h6]
  · by_cases h8 : i < 8
    · simp [h6, h8]
    · simp only [h6, h8, decide_false, Bool.false_eq_true, if_false, Prod.mk.injEq, and_true]
      omega

/-- horizontal strip -/
theorem type_info_h_src (n : Nat) (i : Nat) (hi : i < 15) (hn : i < 8 → i + 1 ≤ n) (test : Bool) (bits : Nat) :
    type_info_h n test bits i =
      ((8, (((if i < 8 then n - i - 1 else if i < 9 then 15 - i - 1 + 1 else 15 - i - 1 : Nat) : Int))),
        (!test && bits.testBit i)) := by
  unfold type_info_h
  simp only [bit_eq]
  by_cases h8 : i < 8
  · have := hn h8
    simp only [h8, decide_true, if_true, Prod.mk.injEq, and_true, true_and]
    omega
  · by_cases h9 : i < 9
    · simp only [h8, h9, decide_true, decide_false, Bool.false_eq_true, if_false, if_true, Prod.mk.injEq, and_true, true_and]
      omega
    · simp only [h8, h9, decide_false, Bool.false_eq_true, if_false, Prod.mk.injEq, and_true, true_and]
      omega

theorem type_info_fixed_src (n : Nat) (hn : 8 ≤ n) (test : Bool) :
    type_info_fixed n test = ((((n - 8 : Nat) : Int), 8), !test) := by
  unfold type_info_fixed
  simp only [Prod.mk.injEq, and_true]
  omega

/-- all cells written by `setup_type_info` have non-negative coordinates inside the matrix (so Python's negative-index
    wrap-around never applies and `Int.toNat` in `writeCell` is exact) -/
theorem type_info_cells_inside (n : Nat) (hn : 15 ≤ n) (test : Bool) (bits i : Nat) (hi : i < 15) :
    let v := type_info_v n test bits i
    let h := type_info_h n test bits i
    let f := type_info_fixed n test
    (0 ≤ v.1.1 ∧ v.1.1 < n ∧ 0 ≤ v.1.2 ∧ v.1.2 < n) ∧ (0 ≤ h.1.1 ∧ h.1.1 < n ∧ 0 ≤ h.1.2 ∧ h.1.2 < n) ∧
      (0 ≤ f.1.1 ∧ f.1.1 < n ∧ 0 ≤ f.1.2 ∧ f.1.2 < n) := by
  rw [type_info_v_src n hn, type_info_h_src n i hi (by omega), type_info_fixed_src n (by omega)]
  simp only
  split <;> split <;> (try split) <;> (try split) <;> omega

/-- **setup_type_info**: the Model function is the translated data word, the two translated write loops over the
    translated ranges, then the translated fixed module (`self.modules[self.modules_count - 8][8] = not test`).
    `15 ≤ n` is guaranteed by Python (`modules_count = 4 * version + 17 ≥ 21`). -/
theorem setupTypeInfo_src (n level : Nat) (hn : 15 ≤ n) (m : Mat) (test : Bool) (mask : Nat) :
    setupTypeInfo n level m test mask =
      let bits := bchTypeInfo (type_info_data level mask)
      writeCell
        (writeLoop type_info_h_range (type_info_h n test bits)
          (writeLoop type_info_v_range (type_info_v n test bits) m))
        (type_info_fixed n test) := by
  unfold setupTypeInfo
  simp only [type_info_data_src, type_info_ranges.1, type_info_ranges.2.1]
  rw [writeLoop_eq 15 (type_info_v n test _) (fun m i =>
        if i < 6 then m.set i 8 (some (!test && (bchTypeInfo ((level <<< 3) ||| mask)).testBit i))
        else if i < 8 then m.set (i + 1) 8 (some (!test && (bchTypeInfo ((level <<< 3) ||| mask)).testBit i))
        else m.set (n - 15 + i) 8 (some (!test && (bchTypeInfo ((level <<< 3) ||| mask)).testBit i)))]
  · rw [writeLoop_eq 15 (type_info_h n test _) (fun m i =>
        if i < 8 then m.set 8 (n - i - 1) (some (!test && (bchTypeInfo ((level <<< 3) ||| mask)).testBit i))
        else if i < 9 then m.set 8 (15 - i - 1 + 1) (some (!test && (bchTypeInfo ((level <<< 3) ||| mask)).testBit i))
        else m.set 8 (15 - i - 1) (some (!test && (bchTypeInfo ((level <<< 3) ||| mask)).testBit i)))]
    · rw [type_info_fixed_src n (by omega)]
      rfl
    · intro m i hi
      rw [type_info_h_src n i hi (by omega)]
      unfold writeCell
      simp only [Int.toNat_natCast]
      split <;> (try split) <;> rfl
  · intro m i hi
    rw [type_info_v_src n hn]
    unfold writeCell
    simp only [Int.toNat_natCast]
    split <;> (try split) <;> rfl

/-! ### setup_type_number -/

theorem type_number_a_src (n : Nat) (hn : 11 ≤ n) (test : Bool) (bits i : Nat) :
    type_number_a n test bits i = ((((i / 3 : Nat) : Int), ((i % 3 + n - 8 - 3 : Nat) : Int)), (!test && bits.testBit i)) := by
  unfold type_number_a
  simp only [bit_eq, Prod.mk.injEq, and_true]
  omega

theorem type_number_b_src (n : Nat) (hn : 11 ≤ n) (test : Bool) (bits i : Nat) :
    type_number_b n test bits i = ((((i % 3 + n - 8 - 3 : Nat) : Int), ((i / 3 : Nat) : Int)), (!test && bits.testBit i)) := by
  unfold type_number_b
  simp only [bit_eq, Prod.mk.injEq, and_true]
  omega

theorem type_number_cells_inside (n : Nat) (hn : 11 ≤ n) (test : Bool) (bits i : Nat) (hi : i < 18) :
    let a := type_number_a n test bits i
    let b := type_number_b n test bits i
    (0 ≤ a.1.1 ∧ a.1.1 < n ∧ 0 ≤ a.1.2 ∧ a.1.2 < n) ∧ (0 ≤ b.1.1 ∧ b.1.1 < n ∧ 0 ≤ b.1.2 ∧ b.1.2 < n) := by
  rw [type_number_a_src n hn, type_number_b_src n hn]
  simp only
  omega

/-- **setup_type_number**: the Model function is the two translated write loops over the translated ranges, with
    `bits = BCH_type_number(version)`.  `11 ≤ n` is guaranteed by Python (`modules_count ≥ 21`). -/
theorem setupTypeNumber_src (n version : Nat) (hn : 11 ≤ n) (m : Mat) (test : Bool) :
    setupTypeNumber n version m test =
      let bits := bchTypeNumber version
      writeLoop type_number_b_range (type_number_b n test bits)
        (writeLoop type_number_a_range (type_number_a n test bits) m) := by
  unfold setupTypeNumber
  simp only [type_info_ranges.2.2.1, type_info_ranges.2.2.2]
  rw [writeLoop_eq 18 (type_number_a n test _) (fun m i =>
        m.set (i / 3) (i % 3 + n - 8 - 3) (some (!test && (bchTypeNumber version).testBit i)))]
  · rw [writeLoop_eq 18 (type_number_b n test _) (fun m i =>
        m.set (i % 3 + n - 8 - 3) (i / 3) (some (!test && (bchTypeNumber version).testBit i)))]
    intro m i _
    rw [type_number_b_src n hn]
    unfold writeCell
    simp only [Int.toNat_natCast]
  · intro m i _
    rw [type_number_a_src n hn]
    unfold writeCell
    simp only [Int.toNat_natCast]

end QR.SourceTieA
