import QR.Gen.Code
import QR.Model.Matrix
import QR.Model.Data
import QR.Proofs.Except
import QR.Proofs.SourceTieA1
import QR.Proofs.SourceTieA2
/-
Helpers for the capstone theorems `Cxx_source_capstone_*` of C02, C04, C05, C06 (QR/Props).
The `…Src` definitions below only give NAMES to the right-hand sides of the bridge theorems (`Cxx_source_*_src`): each is the
Python function as assembled from the fragments translated into `QR.Gen.Code` (regenerated from the current Python AST on
every run) by the hand-written loop skeletons of `QR/Proofs/SourceTie*.lean`, with every callee that is not translated in place
turned into an explicit PARAMETER.  The capstones instantiate these parameters with the Model function the bridge names (or
with another `…Src` function).  No proof content here except determinism of the `while` semantics and the unfolding lemmas.
-/
namespace QR.CapstoneE2
open QR QR.Model QR.Gen.Code QR.SourceTieA

/-! ### `while` statements are deterministic -/

/-- the big-step semantics of the Python `while` statement is deterministic: two terminating runs end in the same state -/
theorem While.det {σ : Type} {cond : σ → Bool} {step : σ → σ} {s a b : σ}
    (ha : While cond step s a) (hb : While cond step s b) : a = b := by
  induction ha with
  | exit h =>
    cases hb with
    | exit _ => rfl
    | iter h' _ => rw [h] at h'; cases h'
  | iter h _ ih =>
    cases hb with
    | exit h' => rw [h] at h'; cases h'
    | iter _ hb' => exact ih hb'

/-! ### C04 -/

/-- `util.BCH_type_info(data)` assembled from the translated initialisation, loop condition, loop body and result expression;
    `digit` = the callee `BCH_digit` (parameter); the `while` statement is run with the fuel of the bridge theorem -/
def bchTypeInfoSrc (digit : Nat → Nat) (data : Nat) : Nat :=
  bch_type_info_result digit data
    (whileFuel (bch_type_info_cond digit data) (bch_type_info_step digit data)
      (digit (bch_type_info_init digit data) + 1) (bch_type_info_init digit data))

/-- `util.BCH_type_number(data)`, same assembly -/
def bchTypeNumberSrc (digit : Nat → Nat) (data : Nat) : Nat :=
  bch_type_number_result digit data
    (whileFuel (bch_type_number_cond digit data) (bch_type_number_step digit data)
      (digit (bch_type_number_init digit data) + 1) (bch_type_number_init digit data))

/-- `QRCode.setup_type_info(test, mask_pattern)` assembled from the translated data word, the two translated write loops and
    the translated fixed module; `bchInfo` = the callee `util.BCH_type_info` (parameter) -/
def setupTypeInfoSrc (bchInfo : Nat → Nat) (n level : Nat) (m : Mat) (test : Bool) (mask : Nat) : Mat :=
  writeCell
    (writeLoop type_info_h_range (type_info_h n test (bchInfo (type_info_data level mask)))
      (writeLoop type_info_v_range (type_info_v n test (bchInfo (type_info_data level mask))) m))
    (type_info_fixed n test)

/-- `QRCode.setup_type_number(test)` assembled from the two translated write loops; `bchNumber` = the callee
    `util.BCH_type_number` (parameter) -/
def setupTypeNumberSrc (bchNumber : Nat → Nat) (n version : Nat) (m : Mat) (test : Bool) : Mat :=
  writeLoop type_number_b_range (type_number_b n test (bchNumber version))
    (writeLoop type_number_a_range (type_number_a n test (bchNumber version)) m)

end QR.CapstoneE2
