import QR.Proofs.SourceTieD2
/-
Translation validation, package D2, part 2: `QRCode.make_image` (the implementation), `QRCode.is_constrained`,
`QRCode.active_with_neighbors`, as translated from the current Python AST into `QR.Gen.Code.ob_make_image*`,
`ob_is_constrained`, `ob_awn*`, against the Model's `step .makeImage` (with `checkBoxSize`, `ensureMade`) and against closed
forms over the matrix (`getD`), for what the Model has no function of its own (the draw loop, the 3x3 neighbourhood).
-/
namespace QR.SourceTieD2
open QR QR.Model QR.Gen.Code

/-! ### what is only recorded as text -/

theorem make_image_literals_src :
    ob_make_image_pure_import = "from qrcode.image.pure import PyPNGImage" ∧
    ob_make_image_import = "from qrcode.image.pil import Image, PilImage" ∧
    ob_make_image_raise0 =
      "ValueError('Error correction level must be ERROR_CORRECT_H if an embedded image is provided')" ∧
    ob_awn_fields = ["NW", "N", "NE", "W", "me", "E", "SW", "S", "SE"] ∧ ob_awn_bool_field = "me" := by decide

/-! ### `make_image` up to the factory call -/

/-- `self.make()` as `make_image` calls it (no argument: `fit=True`), through the Model's `makeS true` -/
def makeOb {F : Type} (fac : Option F) :
    Global × ob_QR Seg (List Nat) F → (Global × ob_QR Seg (List Nat) F) × Except String Unit :=
  fun p => (((makeS true (p.1, ofOb p.2)).1.1, toOb fac (makeS true (p.1, ofOb p.2)).1.2), liftR (makeS true (p.1, ofOb p.2)).2)

/-- the class `make_image` instantiates: the argument if given, else the object's `image_factory`, else `PilImage` if PIL
    can be imported (`Image` truthy), else `PyPNGImage` -/
def chosenFactory {F : Type} (Image : Bool) (PilImage PyPNGImage : F) (fac arg : Option F) : F :=
  match arg with
  | some f => f
  | none => match fac with
    | some f => f
    | none => if Image then PilImage else PyPNGImage

/-- the factory selection, the call of the class and the draw loops, on any object -/
theorem make_image_rest_src {D C F K W : Type} (issub : F → Bool) (Image : Bool) (PilImage PyPNGImage : F)
    (nd nc np : F → Bool) (w : W) (o : ob_QR D C F) (arg : Option F) (kwargs : List (String × K))
    (hf : ∀ f, arg = some f → issub f = true) :
    ob_make_image_rest issub Image PilImage PyPNGImage nd nc np w o arg kwargs =
      (let im : ob_Call F K :=
         { cls := chosenFactory Image PilImage PyPNGImage o.image_factory arg,
           pos := [o._border, (o.modules_count : Int), o.box_size], kw := [("qrcode_modules", o.modules)], star := kwargs }
       ((w, o), .ok (im, ob_make_image_draw nd nc np o im))) := by
  rcases arg with _ | f
  · rcases h : o.image_factory with _ | f' <;>
      simp [ob_make_image_rest, h, chosenFactory, ob_make_image_new, ob_get_border]
  · simp [ob_make_image_rest, hf f rfl, chosenFactory, ob_make_image_new, ob_get_border]

/-- an `image_factory` argument that is not a subclass of `BaseImage` fails the assertion - after the box-size check and
    the implicit compile (the Model has no factory argument) -/
theorem make_image_rest_bad_factory_src {D C F K W : Type} (issub : F → Bool) (Image : Bool) (PilImage PyPNGImage : F)
    (nd nc np : F → Bool) (w : W) (o : ob_QR D C F) (f : F) (kwargs : List (String × K)) (hf : issub f = false) :
    ob_make_image_rest issub Image PilImage PyPNGImage nd nc np w o (some f) kwargs = ((w, o), .error "AssertionError") := by
  simp [ob_make_image_rest, hf]

/-- **`make_image`** = the Model's `step .makeImage`: the box-size check on the CURRENT `box_size` attribute first, then the
    implicit compile when `data_cache is None`; the same exception class and state in the error cases; otherwise the image
    class receives exactly `(border, modules_count, box_size, qrcode_modules=modules, **kwargs)` of the state after the
    compile - the fields of the Model's `.image` output, in this order.
    Hypotheses: no embedded image in `kwargs` unless the level is H (the Model has no `kwargs`; see
    `make_image_embedded_src`), and the `image_factory` argument, if given, is a subclass of `BaseImage`. -/
theorem makeImage_src {F K : Type} (issub : F → Bool) (truthy : K → Bool) (Image : Bool) (PilImage PyPNGImage : F)
    (nd nc np : F → Bool) (fac : Option F) (g : Global) (s : QRState) (arg : Option F) (kwargs : List (String × K))
    (hk : (ob_py_truthy_opt truthy (ob_py_kwargs_get kwargs "embeded_image_path") ||
            ob_py_truthy_opt truthy (ob_py_kwargs_get kwargs "embeded_image")) = false ∨ s.level = 2)
    (hf : ∀ f, arg = some f → issub f = true) :
    ob_make_image issub truthy Image PilImage PyPNGImage nd nc np (makeOb fac) g (toOb fac s) arg kwargs =
      match step (g, s) .makeImage with
      | (st', .err e) => ((st'.1, toOb fac st'.2), .error e.name)
      | (st', .image b n bs m) =>
        (let im : ob_Call F K :=
           { cls := chosenFactory Image PilImage PyPNGImage fac arg, pos := [(b : Int), (n : Int), bs],
             kw := [("qrcode_modules", m)], star := kwargs }
         ((st'.1, toOb fac st'.2), .ok (im, ob_make_image_draw nd nc np (toOb fac st'.2) im)))
      | (st', _) => ((st'.1, toOb fac st'.2), .error "unreachable") := by
  have hguard : ((ob_py_truthy_opt truthy (ob_py_kwargs_get kwargs "embeded_image_path") ||
      ob_py_truthy_opt truthy (ob_py_kwargs_get kwargs "embeded_image")) &&
      decide ((toOb fac s).error_correction ≠ 2)) = false := by
    rcases hk with hk | hk
    · rw [hk]; rfl
    · simp [toOb, hk]
  unfold ob_make_image
  rw [hguard]
  simp only [Bool.false_eq_true, if_false]
  have hbox : (toOb fac s).box_size = s.boxSize := rfl
  rw [hbox, checkBoxSize_src]
  by_cases hb : s.boxSize ≤ 0
  · simp [step, checkBoxSize, hb, liftR]
  · have hcache : (toOb fac s).data_cache = s.dataCache := rfl
    simp only [checkBoxSize, hb, if_false, liftR, hcache]
    cases hc : s.dataCache with
    | some d =>
      simp only [Option.isNone_some, Bool.false_eq_true, if_false]
      rw [make_image_rest_src issub Image PilImage PyPNGImage nd nc np g (toOb fac s) arg kwargs hf]
      simp [step, checkBoxSize, hb, ensureMade, hc, toOb]
    | none =>
      simp only [Option.isNone_none, if_true, makeOb, ofOb_toOb]
      cases hm : makeS true (g, s) with
      | mk st' r =>
        cases r with
        | error e => simp [step, checkBoxSize, hb, ensureMade, hc, hm, liftR]
        | ok u =>
          simp only [liftR]
          rw [make_image_rest_src issub Image PilImage PyPNGImage nd nc np st'.1 (toOb fac st'.2) arg kwargs hf]
          simp [step, checkBoxSize, hb, ensureMade, hc, hm, toOb]

/-- the test the Model does not have: an embedded image (`embeded_image_path` or `embeded_image` truthy in `kwargs`) with a
    level other than `ERROR_CORRECT_H` (= 2, read from `constants.py`) is a ValueError BEFORE anything else happens -/
theorem make_image_embedded_src {D C F K W : Type} (issub : F → Bool) (truthy : K → Bool) (Image : Bool)
    (PilImage PyPNGImage : F) (nd nc np : F → Bool) (mk : W × ob_QR D C F → (W × ob_QR D C F) × Except String Unit)
    (w : W) (o : ob_QR D C F) (arg : Option F) (kwargs : List (String × K))
    (hk : (ob_py_truthy_opt truthy (kwargs.lookup "embeded_image_path") ||
            ob_py_truthy_opt truthy (kwargs.lookup "embeded_image")) = true) (hl : o.error_correction ≠ 2) :
    ob_make_image issub truthy Image PilImage PyPNGImage nd nc np mk w o arg kwargs = ((w, o), .error "ValueError") := by
  unfold ob_make_image
  simp only [ob_py_kwargs_get, hk, Bool.true_and, decide_eq_true_eq.mpr hl, if_true]

/-! ### the draw loop -/

/-- cells `(r, c)`, `r, c < n`, row-major, that are dark (`None` and out-of-range count as light) -/
def darkCells (M : List (List (Option Bool))) (n : Nat) : List (Nat × Nat) :=
  (List.range n).flatMap fun r => ((List.range n).filter fun c => ((M.getD r []).getD c none).getD false).map fun c => (r, c)

/-- all cells `(r, c)`, `r, c < n`, row-major -/
def allCells (n : Nat) : List (Nat × Nat) := (List.range n).flatMap fun r => (List.range n).map fun c => (r, c)

theorem truthy_cell_eq (x : Option Bool) : ob_py_truthy_cell x = x.getD false := by cases x <;> rfl

private theorem foldl_filter_append {α β : Type} (l : List α) (p : α → Bool) (f : α → β) (init : List β) :
    l.foldl (fun acc a => if p a then acc ++ [f a] else acc) init = init ++ (l.filter p).map f := by
  induction l generalizing init with
  | nil => simp
  | cons a l ih =>
    simp only [List.foldl_cons, ih]
    by_cases h : p a <;> simp [h]

private theorem foldl_map_append {α β : Type} (l : List α) (f : α → β) (init : List β) :
    l.foldl (fun acc a => acc ++ [f a]) init = init ++ l.map f := by
  induction l generalizing init with
  | nil => simp
  | cons a l ih => simp only [List.foldl_cons, ih, List.map_cons, List.append_assoc, List.singleton_append]

private theorem foldl_append_flatMap {α β : Type} (l : List α) (h : α → List β) (init : List β) :
    l.foldl (fun acc a => acc ++ h a) init = init ++ l.flatMap h := by
  induction l generalizing init with
  | nil => simp
  | cons a l ih => simp only [List.foldl_cons, ih, List.flatMap_cons, List.append_assoc]

/-- one row of the double loop, without `needs_context`: a `drawrect(r, c)` for every dark cell of the row, in order -/
theorem make_image_row_src {D C F K : Type} (nd nc np : F → Bool) (o : ob_QR D C F) (im : ob_Call F K) (r : Nat)
    (evs : List ob_Ev) (hc : nc im.cls = false) :
    ob_make_image_row nd nc np o im r evs =
      evs ++ (((List.range o.modules_count).filter fun c => ((o.modules.getD r []).getD c none).getD false).map
        fun (c : Nat) => ({ method := "drawrect", args := [(r : Int), (c : Int)], kw := [] } : ob_Ev)) := by
  unfold ob_make_image_row
  have : (fun evs c => ob_make_image_cell nd nc np o im r c evs) =
      (fun (acc : List ob_Ev) (c : Nat) => if ((o.modules.getD r []).getD c none).getD false
        then acc ++ [({ method := "drawrect", args := [(r : Int), (c : Int)], kw := [] } : ob_Ev)] else acc) := by
    funext evs c
    simp [ob_make_image_cell, hc, truthy_cell_eq]
  rw [this, foldl_filter_append]

/-- **the draw loop of `make_image`** for an image class that needs `drawrect` calls without context: the calls on the
    image are exactly `drawrect(r, c)` for the dark cells of the matrix in row-major order, followed by `process()` iff the
    class needs processing -/
theorem make_image_draw_src {D C F K : Type} (nd nc np : F → Bool) (o : ob_QR D C F) (im : ob_Call F K)
    (hd : nd im.cls = true) (hc : nc im.cls = false) :
    ob_make_image_draw nd nc np o im =
      (darkCells o.modules o.modules_count).map
        (fun (p : Nat × Nat) => ({ method := "drawrect", args := [(p.1 : Int), (p.2 : Int)], kw := [] } : ob_Ev)) ++
      (if np im.cls then [({ method := "process", args := [], kw := [] } : ob_Ev)] else []) := by
  unfold ob_make_image_draw
  have : (fun evs r => ob_make_image_row nd nc np o im r evs) =
      (fun (acc : List ob_Ev) (r : Nat) => acc ++ (((List.range o.modules_count).filter
        fun c => ((o.modules.getD r []).getD c none).getD false).map
        fun (c : Nat) => ({ method := "drawrect", args := [(r : Int), (c : Int)], kw := [] } : ob_Ev))) := by
    funext evs r
    exact make_image_row_src nd nc np o im r evs hc
  simp only [hd, if_true, this, foldl_append_flatMap, List.nil_append]
  have hmap : (List.range o.modules_count).flatMap (fun (r : Nat) => ((List.range o.modules_count).filter
        fun c => ((o.modules.getD r []).getD c none).getD false).map
        fun (c : Nat) => ({ method := "drawrect", args := [(r : Int), (c : Int)], kw := [] } : ob_Ev)) =
      (darkCells o.modules o.modules_count).map
        (fun (p : Nat × Nat) => ({ method := "drawrect", args := [(p.1 : Int), (p.2 : Int)], kw := [] } : ob_Ev)) := by
    simp [darkCells, List.map_flatMap, List.map_map, Function.comp_def]
  rw [hmap]
  by_cases h : np im.cls <;> simp [h]

/-- with `needs_context` every cell gets a `drawrect_context(r, c, qr=self)`, dark or not -/
theorem make_image_draw_context_src {D C F K : Type} (nd nc np : F → Bool) (o : ob_QR D C F) (im : ob_Call F K)
    (hd : nd im.cls = true) (hc : nc im.cls = true) :
    ob_make_image_draw nd nc np o im =
      (allCells o.modules_count).map
        (fun (p : Nat × Nat) => ({ method := "drawrect_context", args := [(p.1 : Int), (p.2 : Int)], kw := [("qr", "self")] } : ob_Ev)) ++
      (if np im.cls then [({ method := "process", args := [], kw := [] } : ob_Ev)] else []) := by
  unfold ob_make_image_draw
  have hrow : (fun evs r => ob_make_image_row nd nc np o im r evs) =
      (fun (acc : List ob_Ev) (r : Nat) => acc ++ ((List.range o.modules_count).map
        fun (c : Nat) => ({ method := "drawrect_context", args := [(r : Int), (c : Int)], kw := [("qr", "self")] } : ob_Ev))) := by
    funext evs r
    unfold ob_make_image_row
    have : (fun evs c => ob_make_image_cell nd nc np o im r c evs) =
        (fun (acc : List ob_Ev) (c : Nat) =>
          acc ++ [({ method := "drawrect_context", args := [(r : Int), (c : Int)], kw := [("qr", "self")] } : ob_Ev)]) := by
      funext evs c
      simp [ob_make_image_cell, hc]
    rw [this, foldl_map_append]
  simp only [hd, if_true, hrow, foldl_append_flatMap, List.nil_append]
  have hmap : (List.range o.modules_count).flatMap (fun (r : Nat) => (List.range o.modules_count).map
        fun (c : Nat) => ({ method := "drawrect_context", args := [(r : Int), (c : Int)], kw := [("qr", "self")] } : ob_Ev)) =
      (allCells o.modules_count).map
        (fun (p : Nat × Nat) => ({ method := "drawrect_context", args := [(p.1 : Int), (p.2 : Int)], kw := [("qr", "self")] } : ob_Ev)) := by
    simp [allCells, List.map_flatMap, List.map_map, Function.comp_def]
  rw [hmap]
  by_cases h : np im.cls <;> simp [h]

/-- a class that does not need `drawrect` gets no draw call at all -/
theorem make_image_draw_none_src {D C F K : Type} (nd nc np : F → Bool) (o : ob_QR D C F) (im : ob_Call F K)
    (hd : nd im.cls = false) :
    ob_make_image_draw nd nc np o im =
      (if np im.cls then [({ method := "process", args := [], kw := [] } : ob_Ev)] else []) := by
  unfold ob_make_image_draw
  by_cases h : np im.cls <;> simp [hd, h]

/-! ### `is_constrained`, `active_with_neighbors` -/

/-- `is_constrained(row, col)` is the bounds test against the matrix -/
theorem is_constrained_src {D C F : Type} (o : ob_QR D C F) (row col : Int) :
    ob_is_constrained o row col =
      decide (0 ≤ row ∧ row < o.modules.length ∧ 0 ≤ col ∧ col < (o.modules.getD row.toNat []).length) := by
  simp [ob_is_constrained, Bool.decide_and, Bool.and_assoc]

/-- the module at signed coordinates: out of range (either side) and `None` are `False` -/
def cellAt (M : List (List (Option Bool))) (r c : Int) : Bool :=
  decide (0 ≤ r) && decide (0 ≤ c) && ((M.getD r.toNat []).getD c.toNat none).getD false

/-- the expression `active_with_neighbors` appends: `is_constrained(r, c) and bool(modules[r][c])` -/
theorem awn_cell_src {D C F : Type} (o : ob_QR D C F) (r c : Int) (ctx : List Bool) :
    ob_awn_cell o r c ctx = ctx ++ [cellAt o.modules r c] := by
  unfold ob_awn_cell cellAt
  rw [is_constrained_src, truthy_cell_eq]
  congr 2
  by_cases h1 : 0 ≤ r <;> by_cases h2 : 0 ≤ c <;> simp [h1, h2]
  intro hx
  refine ⟨?_, ?_⟩
  · apply Classical.byContradiction; intro hlt
    have : o.modules.length ≤ r.toNat := by omega
    rw [List.getElem?_eq_none this] at hx
    simp at hx
  · apply Classical.byContradiction; intro hlt
    have : (o.modules[r.toNat]?.getD []).length ≤ c.toNat := by omega
    rw [List.getElem?_eq_none this] at hx
    simp at hx

theorem py_range3 (a : Int) : ob_py_range (a - 1) (a + 2) = [a - 1, a, a + 1] := by
  have h : (a + 2 - (a - 1)).toNat = 3 := by omega
  simp only [ob_py_range, h]
  simp [List.range_succ]
  omega

/-- **`active_with_neighbors(row, col)`**: the nine values passed to `ActiveWithNeighbors(*context)` are the modules of the
    3x3 neighbourhood in the order NW, N, NE, W, me, E, SW, S, SE (`ob_awn_fields`, see `make_image_literals_src`), with
    everything outside the matrix `False` -/
theorem awn_src {D C F : Type} (o : ob_QR D C F) (row col : Int) :
    ob_awn o row col =
      [cellAt o.modules (row - 1) (col - 1), cellAt o.modules (row - 1) col, cellAt o.modules (row - 1) (col + 1),
       cellAt o.modules row (col - 1), cellAt o.modules row col, cellAt o.modules row (col + 1),
       cellAt o.modules (row + 1) (col - 1), cellAt o.modules (row + 1) col, cellAt o.modules (row + 1) (col + 1)] := by
  simp [ob_awn, ob_awn_row, py_range3, awn_cell_src]

end QR.SourceTieD2
