import QR.Proofs.SegShape
import QR.Proofs.SegRuns
/-
C10 - segmentation (`QRCode.add_data` with `optimize = n` on a byte string `d`) is lossless, valid, most compact
for threshold 0, honours the minimum chunk length and carries every long digit / alphanumeric run in its mode.
Main theorems, for ALL byte lists and ALL thresholds.  (Helper lemmas: SegBasic, SegShape, SegMark, SegRuns.)
-/
namespace QR
open QR.Seg

/-- the modes `add_data` produces are always 1, 2 or 4 -/
theorem addData_toPSegs (d : List Nat) (n : Nat) : ∃ ps, toPSegs (Model.addData d n) = some ps :=
  ⟨_, addData_toPSegs_eq d n⟩

/-- model level: the concatenation of the segments' data is the input -/
theorem addData_flatMap_data (d : List Nat) (n : Nat) : (Model.addData d n).flatMap (·.data) = d :=
  addData_lossless d n

private theorem ps_eq {d : List Nat} {n : Nat} {ps : List Spec.PSeg} (h : toPSegs (Model.addData d n) = some ps) :
    ps = (Model.addData d n).map conv := by
  rw [addData_toPSegs_eq] at h
  exact (Option.some.inj h).symm

theorem segmentation_lossless (d : List Nat) (n : Nat) :
    ∀ ps, toPSegs (Model.addData d n) = some ps → (Spec.segmentation n d ps).lossless = true := by
  intro ps h; rw [ps_eq h]; exact conv_lossless d n

theorem segmentation_valid (d : List Nat) (n : Nat) :
    ∀ ps, toPSegs (Model.addData d n) = some ps → (Spec.segmentation n d ps).valid = true := by
  intro ps h; rw [ps_eq h]; exact conv_valid d n

theorem segmentation_thresholdZero (d : List Nat) (n : Nat) :
    ∀ ps, toPSegs (Model.addData d n) = some ps → (Spec.segmentation n d ps).thresholdZero = true := by
  intro ps h; rw [ps_eq h]; exact conv_thresholdZero d n

theorem segmentation_minLength (d : List Nat) (n : Nat) :
    ∀ ps, toPSegs (Model.addData d n) = some ps → (Spec.segmentation n d ps).minLength = true := by
  intro ps h; rw [ps_eq h]; exact conv_minLength d n

theorem segmentation_runsCarried (d : List Nat) (n : Nat) :
    ∀ ps, toPSegs (Model.addData d n) = some ps → (Spec.segmentation n d ps).runsCarried = true := by
  intro ps h; rw [ps_eq h]; exact conv_runsCarried d n

/-- C10: every clause of the segmentation property holds -/
theorem C10_segmentation (d : List Nat) (n : Nat) :
    ∀ ps, toPSegs (Model.addData d n) = some ps → (Spec.segmentation n d ps).ok = true := by
  intro ps h
  simp only [Spec.SegVerdict.ok, segmentation_lossless d n ps h, segmentation_valid d n ps h,
    segmentation_thresholdZero d n ps h, segmentation_runsCarried d n ps h, segmentation_minLength d n ps h,
    Bool.and_self]

/-- a requested mode that cannot represent the data is rejected -/
theorem mkQRData_rejects (d : List Nat) (m : Nat) (hm : m = 1 ∨ m = 2 ∨ m = 4) :
    (∃ md, Spec.Mode.ofIndicator m = some md ∧ Spec.canRepresent md d = false) →
    Model.mkQRData d (some m) true = .error .valueError := by
  rintro ⟨md, hmd, hrep⟩
  have hdig_alnum : d.all Model.isAlnum = false → d.all Model.isDigit = false := by
    intro h
    cases hd : d.all Model.isDigit with
    | false => rfl
    | true =>
      have : d.all Model.isAlnum = true :=
        List.all_eq_true.mpr fun c hc => isAlnum_of_isDigit (List.all_eq_true.mp hd c hc)
      rw [h] at this; cases this
  rcases hm with rfl | rfl | rfl
  · -- numeric requested, some non-digit present
    simp only [Spec.Mode.ofIndicator, Option.some.injEq] at hmd
    subst hmd
    simp only [Spec.canRepresent, isDigitChar_eq] at hrep
    have hopt : 1 < Model.optimalMode d := by
      rcases optimalMode_cases d with ⟨_, _, h⟩ | ⟨h, _, _⟩ | ⟨h, _, _⟩
      · rw [hrep] at h; cases h
      · omega
      · omega
    simp [Model.mkQRData, Gen.MODE_NUMBER, hopt]
  · -- alphanumeric requested, some character outside the 45-set
    simp only [Spec.Mode.ofIndicator, Option.some.injEq] at hmd
    subst hmd
    simp only [Spec.canRepresent, isAlnumChar_eq] at hrep
    have hopt : 2 < Model.optimalMode d := by
      rcases optimalMode_cases d with ⟨_, _, h⟩ | ⟨_, _, h⟩ | ⟨h, _, _⟩
      · rw [hdig_alnum hrep] at h; cases h
      · rw [hrep] at h; cases h
      · omega
    simp [Model.mkQRData, Gen.MODE_ALPHA_NUM, hopt]
  · -- byte mode represents everything
    simp only [Spec.Mode.ofIndicator, Option.some.injEq] at hmd
    subst hmd
    simp [Spec.canRepresent] at hrep

end QR

