import QR.Gen.Code
import QR.Model.Release
import QR.Proofs.Release
/-
Translation validation, item C7: `qrcode/release.py update_manpage` as it stands in the source - the name test, the `.TH `
prefix test, `re.split` with the pattern `"([^"]*)"`, `len(parts) < 5`, `parts[3] != data["new_version"]`, the two
assignments `parts[3] = ...`, `parts[1] = ...`, `'"'.join(parts)`, `continue` / `break`, the final `if changed:` write -
translated statement by statement into `QR.Gen.Code.manpage_body / manpage_loop / manpage_update`, against
`Model.processLines` / `Model.updateManpage`; and the fixed Lean meaning the translator gives to the Python builtins
(`manpage_py_startswith`, `manpage_py_join`, `manpage_py_readlines`, `manpage_py_re_split`) against the model's
`startsWithTH`, `joinQuote`, `readLines`, `reSplit`.
-/
namespace QR.SourceTieT
open QR QR.Model QR.Spec QR.Gen.Code QR.Proofs.Release

/-! ### what is only recorded as text (change detection, no semantics) -/

theorem manpage_literals_src :
    manpage_path_base_dir = "os.path.dirname(os.path.dirname(os.path.abspath(__file__)))" ∧
    manpage_path_filename = "os.path.join(base_dir, 'doc', 'qr.1')" ∧
    manpage_read_open = "open(filename)" ∧ manpage_write_open = "open(filename, 'w')" ∧
    manpage_split_pattern = "\"([^\"]*)\"" ∧ manpage_date_format = "%-d %b %Y" := by decide

/-! ### the builtins -/

/-- `line.startswith(".TH ")` -/
theorem startsWithTH_src (line : List Char) :
    startsWithTH line = manpage_py_startswith line ['.', 'T', 'H', ' '] := by
  rcases line with _ | ⟨a, _ | ⟨b, _ | ⟨c, _ | ⟨d, t⟩⟩⟩⟩ <;>
    simp [startsWithTH, manpage_py_startswith, List.isPrefixOf]
  rw [Bool.eq_iff_iff]; simp only [Bool.and_eq_true, beq_iff_eq]
  constructor <;> rintro ⟨rfl, rfl, rfl, rfl⟩ <;> simp

/-- `'"'.join(parts)` -/
theorem joinQuote_src (parts : List (List Char)) : joinQuote parts = manpage_py_join ['"'] parts := by
  induction parts with
  | nil => rfl
  | cons p rest ih =>
    cases rest with
    | nil => rfl
    | cons q rest =>
      rw [joinQuote_cons _ _ (by simp), ih]
      simp [manpage_py_join]

/-- `re.split(r'"([^"]*)"', s)`: the scanner for the pattern family `d([^d]*)d` at `d = '"'` -/
theorem reSplit_src (fuel : Nat) (s : List Char) : reSplit fuel s = manpage_py_re_split '"' fuel s := by
  induction fuel generalizing s with
  | zero => rfl
  | succ f ih =>
    cases h1 : s.dropWhile (· ≠ '"') with
    | nil =>
      have ht : s.takeWhile (· ≠ '"') = s := by
        have := List.takeWhile_append_dropWhile (p := (· ≠ '"')) (l := s)
        rw [h1] at this; simpa using this
      simp only [reSplit, manpage_py_re_split, h1, ht]
    | cons a r1 =>
      cases h2 : r1.dropWhile (· ≠ '"') with
      | nil => simp only [reSplit, manpage_py_re_split, h1, h2]
      | cons b r2 => simp only [reSplit, manpage_py_re_split, h1, h2, ih]

/-- the fuel `s.length + 1` the translator passes to the scanner is enough: any two sufficient fuels give the same result
(so the `0, s => [s]` clause of the scanner is never reached from the translated code) -/
theorem manpage_re_split_fuel (d : Char) (f1 f2 : Nat) (s : List Char) (h1 : s.length < f1) (h2 : s.length < f2) :
    manpage_py_re_split d f1 s = manpage_py_re_split d f2 s := by
  induction f1 generalizing f2 s with
  | zero => omega
  | succ f1 ih =>
    cases f2 with
    | zero => omega
    | succ f2 =>
      rcases split_first d s with ⟨_, hd, _⟩ | ⟨t, r, rfl, ht, _, hd⟩
      · simp only [manpage_py_re_split, hd]
      · rcases split_first d r with ⟨_, hd', _⟩ | ⟨q, r', rfl, hq, _, hd'⟩
        · simp only [manpage_py_re_split, hd, hd']
        · simp only [manpage_py_re_split, hd, hd']
          rw [ih f2 r' (by simp at h1; omega) (by simp at h2; omega)]

private theorem rl_term (b R : List Char) (hb : ∀ c ∈ b, c ≠ '\n') :
    manpage_py_readlines (b ++ '\n' :: R) = (b ++ ['\n']) :: manpage_py_readlines R := by
  induction b with
  | nil => simp [manpage_py_readlines]
  | cons a b ih =>
    have ha : a ≠ '\n' := hb a (by simp)
    have hb' : ∀ c ∈ b, c ≠ '\n' := fun c hc => hb c (by simp [hc])
    simp only [List.cons_append, manpage_py_readlines, ha, if_false, ih hb']

private theorem rl_unterm (l : List Char) (hl : ∀ c ∈ l, c ≠ '\n') (hne : l ≠ []) :
    manpage_py_readlines l = [l] := by
  induction l with
  | nil => exact absurd rfl hne
  | cons a l ih =>
    have ha : a ≠ '\n' := hl a (by simp)
    have hl' : ∀ c ∈ l, c ≠ '\n' := fun c hc => hl c (by simp [hc])
    cases l with
    | nil => simp [manpage_py_readlines, ha]
    | cons b l => simp only [manpage_py_readlines, ha, if_false] at ih ⊢; rw [ih hl' (by simp)]

/-- `f.readlines()`: the model's fuel-bounded line splitter equals the structural one, for every sufficient fuel -/
theorem readLines_fuel_src (fuel : Nat) (s : List Char) (hf : s.length < fuel) :
    readLines fuel s = manpage_py_readlines s := by
  rw [readLines_eq_lineSplit]
  induction fuel generalizing s with
  | zero => omega
  | succ n ih =>
    by_cases hs : s = []
    · subst hs; simp [lineSplit, manpage_py_readlines]
    · rcases split_first '\n' s with ⟨_, _, h3⟩ | ⟨t, r, h1, h2, _, _⟩
      · rw [lineSplit_unterm n s h3 hs, rl_unterm s h3 hs]
      · subst h1
        have : r.length < n := by simp at hf; omega
        rw [lineSplit_term n t r h2, rl_term t r h2, ih r this]

theorem readLines_src (page : List Char) : readLines (page.length + 1) page = manpage_py_readlines page :=
  readLines_fuel_src _ page (Nat.lt_succ_self _)

/-! ### the loop body -/

/-- the translated body of `for i, line in enumerate(lines)` in terms of the model's primitives -/
theorem manpage_body_eq (name v d : List Char) (changed : Bool) (line : List Char) :
    manpage_body name v d changed line =
      if !startsWithTH line then (false, changed, line)
      else if (reSplit (line.length + 1) line).length < 5 then (false, changed, line)
      else if (reSplit (line.length + 1) line).getD 3 [] != v then
        (true, true, joinQuote (((reSplit (line.length + 1) line).set 3 v).set 1 d))
      else (true, false, line) := by
  simp only [manpage_body, ← startsWithTH_src, ← reSplit_src, ← joinQuote_src]
  cases h1 : startsWithTH line
  · simp
  · by_cases h2 : (reSplit (line.length + 1) line).length < 5
    · simp [h2]
    · cases h3 : ((reSplit (line.length + 1) line).getD 3 [] != v) <;> simp [h2]

/-- the loop `for i, line in enumerate(lines): ...` with its `continue`s and its `break`: `Model.processLines` is the translated
loop started with `changed = False`, for every list of lines -/
theorem processLines_src (name v d : List Char) (L : List (List Char)) :
    processLines v d L = manpage_loop name v d false L := by
  induction L with
  | nil => rfl
  | cons line rest ih =>
    simp only [processLines, manpage_loop, manpage_body_eq, ih]
    cases h1 : startsWithTH line
    · simp
    · by_cases h2 : (reSplit (line.length + 1) line).length < 5
      · simp [h2]
      · cases h3 : ((reSplit (line.length + 1) line).getD 3 [] != v) <;> simp [h2]

/-! ### the function -/

/-- `update_manpage(data)`: the model equals the translated function - the `data["name"] != "qrcode"` early return, `readlines`,
`changed = False`, the loop, and the final `if changed:` write of all lines - for every name, version, date and page text -/
theorem updateManpage_src (name v d page : List Char) :
    updateManpage name v d page = manpage_update name v d page := by
  have hq : "qrcode".toList = ['q', 'r', 'c', 'o', 'd', 'e'] := by decide
  simp only [updateManpage, manpage_update, hq, readLines_src, processLines_src name]

end QR.SourceTieT
