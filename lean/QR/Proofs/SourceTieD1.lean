import QR.Gen.Code
import QR.Model.Segment
import QR.Proofs.SegBasic
/-
Translation validation, package D1 (segmentation), part 1: the regex engine of the Model as a value (`searchModel`,
`matchModel`), the interpreter record `pyModel`, and the bridges for `to_bytestring`, `optimal_mode`, `QRData.__init__`
and `_optimal_split` (both pattern families) as translated by tools/t2_fragments/frag_d1.py into `QR.Gen.Code.sg_*`.
-/
namespace QR.SourceTieD1
open QR QR.Model QR.Gen.Code

/-! ### the Model's reading of `re` (the ASSUMPTION stated in the header of Model/Segment.lean), as an engine -/

/-- the byte predicate of a character class: `\d` = ASCII digits, `[re.escape(bs)]` = membership in `bs` -/
def clsPred : sg_Cls → Nat → Bool
  | .digits => isDigit
  | .set bs => fun c => bs.contains c

/-- `re.search(pattern, data)` as the Model reads it: `(m.start(), m.end())`.
    `C{n,}`: first maximal run of length ≥ n (`findRun`); `^C+$`: the whole string is a non-empty run, optionally followed by
    one final "\n"; `^C*\Z`: the whole string is in the class.  (For `n = 0` this is NOT what `re` does - `C{0,}` matches the
    empty string at 0 - the Model is for `minimum ≥ 1`, and `add_data` never passes 0.) -/
def searchModel : sg_Pat → List Nat → Option (Nat × Nat)
  | .atLeast c n, data =>
    match findRun (clsPred c) n (data.length + 1) data with
    | none => none
    | some (pre, run, _) => some (pre.length, pre.length + run.length)
  | .anchoredPlus c, data =>
    if !(data.takeWhile (clsPred c)).isEmpty && ((data.dropWhile (clsPred c)).isEmpty || data.dropWhile (clsPred c) == [10])
    then some (0, (data.takeWhile (clsPred c)).length) else none
  | .anchoredStarZ c, data => if data.all (clsPred c) then some (0, data.length) else none

/-- `pattern.match(data)`: a `search` result that starts at 0 -/
def matchModel (p : sg_Pat) (data : List Nat) : Option (Nat × Nat) :=
  match searchModel p data with
  | some (0, e) => some (0, e)
  | _ => none

/-- the interpreter record the Model corresponds to: its two exceptions, its regex engine, arguments that ARE byte strings
    (`isinstance(data, bytes)`), `fuel d` iterations granted to `while data:` started on `d`; `enc` is never called -/
def pyModel (fuel : List Nat → Nat) (enc : List Nat → List Nat) : sg_Py Err :=
  { TypeError := .typeError, ValueError := .valueError, re_search := searchModel, re_match := matchModel,
    isinstance_bytes := fun _ => true, str_encode := enc, fuel := fuel }

/-- a Model segment as a translated `QRData` object -/
def segQ (s : Seg) : sg_QRData := { mode := s.mode, data := s.data }

/-! ### constants -/

theorem consts_src : sg_MODE_NUMBER = Gen.MODE_NUMBER ∧ sg_MODE_ALPHA_NUM = Gen.MODE_ALPHA_NUM ∧
    sg_MODE_8BIT_BYTE = Gen.MODE_8BIT_BYTE ∧ sg_ALPHA_NUM = Gen.ALPHA_NUM ∧
    sg_RE_ALPHA_NUM = .anchoredStarZ (.set Gen.ALPHA_NUM) ∧
    sg_optimal_data_chunks_default_minimum = 4 ∧ sg_add_data_default_optimize = 20 := by decide

theorem clsPred_digits : clsPred .digits = isDigit := rfl
theorem clsPred_alnum : clsPred (.set sg_ALPHA_NUM) = isAlnum := by
  funext c; simp only [clsPred, isAlnum, consts_src.2.2.2.1]

/-! ### `to_bytestring`, `optimal_mode`, `QRData.__init__` -/

/-- `to_bytestring(data)` returns a bytes object unchanged -/
theorem toBytestring_src {ε : Type} (py : sg_Py ε) (data : List Nat) (hb : py.isinstance_bytes data = true) :
    sg_to_bytestring py data = data := by
  simp [sg_to_bytestring, hb]

theorem toBytestring_model (fuel enc) (data : List Nat) : sg_to_bytestring (pyModel fuel enc) data = data :=
  toBytestring_src _ _ rfl

theorem isdigit_src (data : List Nat) : sg_py_isdigit data = (!data.isEmpty && data.all isDigit) := by
  unfold sg_py_isdigit; rfl

theorem match_alnum (data : List Nat) : (matchModel sg_RE_ALPHA_NUM data).isSome = data.all isAlnum := by
  have h : sg_RE_ALPHA_NUM = .anchoredStarZ (.set sg_ALPHA_NUM) := rfl
  rw [h]
  simp only [matchModel, searchModel, clsPred_alnum]
  cases data.all isAlnum <;> simp

/-- **`util.optimal_mode`** = `Model.optimalMode`, for every byte string -/
theorem optimalMode_src (fuel enc) (data : Bytes) :
    optimalMode data = sg_optimal_mode (pyModel fuel enc) data := by
  have hm : (pyModel fuel enc).re_match = matchModel := rfl
  simp only [optimalMode, sg_optimal_mode, isdigit_src, hm, match_alnum, consts_src.1, consts_src.2.1, consts_src.2.2.1]

/-- **`QRData.__init__(data, mode, check_data)`** on a byte string = `Model.mkQRData`: same object, same exception -/
theorem mkQRData_src (fuel enc) (data : Bytes) (mode : Option Nat) (checkData : Bool) :
    sg_qrdata_init (pyModel fuel enc) data mode checkData = (mkQRData data mode checkData).map segQ := by
  have hd : (if checkData = true then sg_to_bytestring (pyModel fuel enc) data else data) = data := by
    split
    · exact toBytestring_model fuel enc data
    · rfl
  cases mode with
  | none =>
    simp only [sg_qrdata_init, mkQRData, hd, ← optimalMode_src]
    rfl
  | some m =>
    simp only [sg_qrdata_init, mkQRData, hd, ← optimalMode_src, consts_src.1, consts_src.2.1, consts_src.2.2.1]
    by_cases h1 : m = Gen.MODE_NUMBER ∨ m = Gen.MODE_ALPHA_NUM ∨ m = Gen.MODE_8BIT_BYTE
    · by_cases h2 : checkData = true ∧ m < optimalMode data
      · have h2' : (checkData && decide (m < optimalMode data)) = true := by simp [h2.1, h2.2]
        have h1' : (!(decide (m = Gen.MODE_NUMBER) || decide (m = Gen.MODE_ALPHA_NUM) || decide (m = Gen.MODE_8BIT_BYTE))) = false := by
          rcases h1 with h | h | h <;> simp [h]
        simp only [h1', h1, h2]
        rfl
      · have h2' : (checkData && decide (m < optimalMode data)) = false := by
          simpa using h2
        have h1' : (!(decide (m = Gen.MODE_NUMBER) || decide (m = Gen.MODE_ALPHA_NUM) || decide (m = Gen.MODE_8BIT_BYTE))) = false := by
          rcases h1 with h | h | h <;> simp [h]
        simp only [h1', h2', h1, h2]
        rfl
    · have h1' : (!(decide (m = Gen.MODE_NUMBER) || decide (m = Gen.MODE_ALPHA_NUM) || decide (m = Gen.MODE_8BIT_BYTE))) = true := by
        have h3 := h1
        simp only [not_or] at h3
        simp [h3.1, h3.2.1, h3.2.2]
      simp only [h1', h1]
      rfl

/-! ### `_optimal_split`: the loop, for any engine -/

section loop
variable {ε : Type} (py : sg_Py ε) (pat : sg_Pat)

theorem body_none (data : List Nat) (h : py.re_search pat data = none) :
    sg_split_body py pat data = (true, data, []) := by
  simp only [sg_split_body, h]

theorem body_some (data : List Nat) (s e : Nat) (h : py.re_search pat data = some (s, e)) :
    sg_split_body py pat data =
      (false, data.drop e, (if s ≠ 0 then [(false, data.take s)] else []) ++ [(true, (data.take e).drop s)]) := by
  simp [sg_split_body, h, sg_slice, sg_slice_to, sg_slice_from]

theorem loop_zero (data : List Nat) : sg_split_loop py pat 0 data = (data, []) := by
  simp only [sg_split_loop]

theorem loop_nil (fuel : Nat) : sg_split_loop py pat fuel [] = ([], []) := by
  cases fuel <;> simp [sg_split_loop, sg_split_cond]

theorem loop_break (fuel : Nat) (data : List Nat) (hne : data ≠ []) (h : py.re_search pat data = none) :
    sg_split_loop py pat (fuel + 1) data = (data, []) := by
  have hc : sg_split_cond data = true := by simp [sg_split_cond, hne]
  simp only [sg_split_loop, hc, body_none py pat data h, if_true]

theorem loop_step (fuel : Nat) (data : List Nat) (s e : Nat) (hne : data ≠ []) (h : py.re_search pat data = some (s, e)) :
    sg_split_loop py pat (fuel + 1) data =
      ((sg_split_loop py pat fuel (data.drop e)).1,
       ((if s ≠ 0 then [(false, data.take s)] else []) ++ [(true, (data.take e).drop s)])
         ++ (sg_split_loop py pat fuel (data.drop e)).2) := by
  have hc : sg_split_cond data = true := by simp [sg_split_cond, hne]
  simp only [sg_split_loop, hc, body_some py pat data s e h, if_true]

/-- what `_optimal_split` yields, from the loop result: the values yielded in the loop, then the final `if data: yield` -/
def splitOut (fuel : Nat) (data : List Nat) : List (Bool × List Nat) :=
  (sg_split_loop py pat fuel data).2 ++
    (if !(sg_split_loop py pat fuel data).1.isEmpty then [(false, (sg_split_loop py pat fuel data).1)] else [])

theorem optimalSplit_eq (data : List Nat) : sg_optimal_split py data pat = splitOut py pat (py.fuel data) data := rfl

theorem splitOut_zero (data : List Nat) :
    splitOut py pat 0 data = if data.isEmpty then [] else [(false, data)] := by
  cases data <;> simp [splitOut, loop_zero]

theorem splitOut_nil (fuel : Nat) : splitOut py pat fuel [] = [] := by
  simp [splitOut, loop_nil]

theorem splitOut_break (fuel : Nat) (data : List Nat) (hne : data ≠ []) (h : py.re_search pat data = none) :
    splitOut py pat (fuel + 1) data = [(false, data)] := by
  simp [splitOut, loop_break py pat fuel data hne h, hne]

theorem splitOut_step (fuel : Nat) (data : List Nat) (s e : Nat) (hne : data ≠ []) (h : py.re_search pat data = some (s, e)) :
    splitOut py pat (fuel + 1) data =
      (if s ≠ 0 then [(false, data.take s)] else []) ++ (true, (data.take e).drop s) :: splitOut py pat fuel (data.drop e) := by
  simp only [splitOut, loop_step py pat fuel data s e hne h, List.append_assoc, List.cons_append,
    List.nil_append]

/-- the loop ends by itself: if every match on non-empty data ends after position 0, then any fuel ≥ `len(data)` gives the
    same result as fuel `len(data)` (no yielded value is cut off by the fuel) -/
theorem splitOut_fuel (hprog : ∀ d s e, d ≠ [] → py.re_search pat d = some (s, e) → 0 < e) :
    ∀ (fuel : Nat) (data : List Nat), data.length ≤ fuel → splitOut py pat fuel data = splitOut py pat data.length data := by
  intro fuel
  induction fuel using Nat.strongRecOn with
  | ind fuel ih =>
    intro data hle
    cases hd : data with
    | nil => simp [splitOut_nil]
    | cons a t =>
      have hne : data ≠ [] := by simp [hd]
      rw [← hd]
      have hpos0 : 0 < data.length := by simp [hd]
      obtain ⟨f, rfl⟩ : ∃ f, fuel = f + 1 := ⟨fuel - 1, by omega⟩
      obtain ⟨g, hg⟩ : ∃ g, data.length = g + 1 := ⟨data.length - 1, by omega⟩
      rw [hg]
      cases hs : py.re_search pat data with
      | none => rw [splitOut_break py pat f data hne hs, splitOut_break py pat g data hne hs]
      | some m =>
        obtain ⟨s, e⟩ := m
        have hpos := hprog data s e hne hs
        rw [splitOut_step py pat f data s e hne hs, splitOut_step py pat g data s e hne hs]
        have hlen : (data.drop e).length ≤ g := by simp only [List.length_drop]; omega
        rw [ih f (by omega) (data.drop e) (by omega)]
        by_cases hg0 : g = (data.drop e).length
        · rw [← hg0]
        · rw [ih g (by omega) (data.drop e) hlen]
end loop

/-! ### `_optimal_split` with the Model's engine -/

theorem take_drop_of_eq {pre run after data : List Nat} (h : pre ++ run ++ after = data) :
    data.take pre.length = pre ∧ (data.take (pre.length + run.length)).drop pre.length = run ∧
    data.drop (pre.length + run.length) = after := by
  subst h
  refine ⟨by simp [List.append_assoc], ?_, ?_⟩
  · have : pre.length + run.length = (pre ++ run).length := by simp
    rw [this, List.take_left' rfl, List.drop_left' rfl]
  · have : pre.length + run.length = (pre ++ run).length := by simp
    rw [this, List.drop_left' rfl]

/-- `splitRuns` is the translated loop + final yield run with the Model's engine (the `fuel` field plays no role here) -/
theorem splitRuns_out (F enc) (c : sg_Cls) (n : Nat) : ∀ (fuel : Nat) (data : List Nat),
    splitRuns (clsPred c) n fuel data = splitOut (pyModel F enc) (.atLeast c n) fuel data := by
  intro fuel
  induction fuel with
  | zero => intro data; rw [splitOut_zero]; simp only [splitRuns]
  | succ f ih =>
    intro data
    cases hd : data with
    | nil => simp [splitRuns, splitOut_nil]
    | cons a t =>
      have hne : data ≠ [] := by simp [hd]
      rw [← hd]
      have hemp : data.isEmpty = false := by simp [hd]
      cases hf : findRun (clsPred c) n (data.length + 1) data with
      | none =>
        have hs : (pyModel F enc).re_search (.atLeast c n) data = none := by
          have hrs : (pyModel F enc).re_search = searchModel := rfl
          rw [hrs]; simp only [searchModel, hf]
        rw [splitOut_break _ _ f data hne hs]
        simp only [splitRuns, hemp, hf]
        rfl
      | some r =>
        obtain ⟨pre, run, after⟩ := r
        have hs : (pyModel F enc).re_search (.atLeast c n) data = some (pre.length, pre.length + run.length) := by
          have hrs : (pyModel F enc).re_search = searchModel := rfl
          rw [hrs]; simp only [searchModel, hf]
        obtain ⟨hdec, -, -, -, -⟩ := Seg.findRun_some _ _ _ _ _ hf
        obtain ⟨t1, t2, t3⟩ := take_drop_of_eq hdec
        rw [splitOut_step _ _ f data _ _ hne hs, t1, t2, t3, ← ih after]
        simp only [splitRuns, hemp, hf]
        cases pre <;> simp

/-- **`_optimal_split(data, compile(C{n,}))`** = `Model.splitRuns`, for every class, threshold, fuel and byte string -/
theorem splitRuns_src (enc) (c : sg_Cls) (n : Nat) (fuel : Nat) (data : List Nat) :
    splitRuns (clsPred c) n fuel data = sg_optimal_split (pyModel (fun _ => fuel) enc) data (.atLeast c n) := by
  rw [optimalSplit_eq]
  exact splitRuns_out _ enc c n fuel data

theorem dropWhile_head_false {p : Nat → Bool} : ∀ {l : List Nat} {x : Nat} {t : List Nat}, l.dropWhile p = x :: t → p x = false
  | [], _, _, h => by simp at h
  | a :: l, x, t, h => by
    rw [List.dropWhile_cons] at h
    split at h
    · exact dropWhile_head_false h
    · rename_i hp
      simp only [List.cons.injEq] at h
      rw [← h.1]; simpa using hp

theorem take_takeWhile (p : Nat → Bool) (l : List Nat) :
    l.take (l.takeWhile p).length = l.takeWhile p ∧ l.drop (l.takeWhile p).length = l.dropWhile p := by
  have h : l.takeWhile p ++ l.dropWhile p = l := List.takeWhile_append_dropWhile
  constructor
  · conv => lhs; arg 2; rw [← h]
    exact List.take_left' rfl
  · conv => lhs; arg 2; rw [← h]
    exact List.drop_left' rfl

/-- `splitAnchored` is the translated loop + final yield run with the Model's engine, as soon as one iteration is granted -/
theorem splitAnchored_out (F enc) (c : sg_Cls) (f : Nat) (data : List Nat) :
    splitAnchored (clsPred c) data = splitOut (pyModel F enc) (.anchoredPlus c) (f + 1) data := by
  have hrs : ∀ F, (pyModel F enc).re_search = searchModel := fun _ => rfl
  cases hd : data with
  | nil => simp [splitAnchored, splitOut_nil]
  | cons a t =>
    have hne : data ≠ [] := by simp [hd]
    have hemp : data.isEmpty = false := by simp [hd]
    rw [← hd]
    by_cases hc : (!(data.takeWhile (clsPred c)).isEmpty &&
        ((data.dropWhile (clsPred c)).isEmpty || data.dropWhile (clsPred c) == [10])) = true
    · have hs : (pyModel F enc).re_search (.anchoredPlus c) data
          = some (0, (data.takeWhile (clsPred c)).length) := by
        rw [hrs]; simp only [searchModel, hc, if_true]
      obtain ⟨t1, t2⟩ := take_takeWhile (clsPred c) data
      rw [splitOut_step _ _ f data _ _ hne hs, t1, t2]
      simp only [splitAnchored, hc, if_true, ne_eq, not_true_eq_false, if_false, List.nil_append, List.drop_zero]
      congr 1
      simp only [Bool.and_eq_true, Bool.or_eq_true] at hc
      rcases hc.2 with h0 | h10
      · have : data.dropWhile (clsPred c) = [] := by simpa using h0
        rw [this, splitOut_nil]; rfl
      · have h10' : data.dropWhile (clsPred c) = [10] := by simpa using h10
        have hp : clsPred c 10 = false := dropWhile_head_false h10'
        rw [h10']
        cases f with
        | zero => rw [splitOut_zero]
        | succ f' =>
          have hs2 : (pyModel F enc).re_search (.anchoredPlus c) [10] = none := by
            rw [hrs]; simp [searchModel, hp]
          rw [splitOut_break _ _ f' [10] (by simp) hs2]; rfl
    · have hc' : (!(data.takeWhile (clsPred c)).isEmpty &&
          ((data.dropWhile (clsPred c)).isEmpty || data.dropWhile (clsPred c) == [10])) = false := by
        simpa using hc
      have hs : (pyModel F enc).re_search (.anchoredPlus c) data = none := by
        rw [hrs]; simp only [searchModel, hc']; rfl
      rw [splitOut_break _ _ f data hne hs]
      simp only [splitAnchored, hc', hemp]; rfl

/-- **`_optimal_split(data, compile(^C+$))`** = `Model.splitAnchored`, as soon as one iteration is granted -/
theorem splitAnchored_src (enc) (c : sg_Cls) (fuel : Nat) (hfuel : 1 ≤ fuel) (data : List Nat) :
    splitAnchored (clsPred c) data = sg_optimal_split (pyModel (fun _ => fuel) enc) data (.anchoredPlus c) := by
  rw [optimalSplit_eq]
  obtain ⟨f, rfl⟩ : ∃ f, fuel = f + 1 := ⟨fuel - 1, by omega⟩
  exact splitAnchored_out _ enc c f data

/-! ### the loops end by themselves (the fuel never cuts a result short) -/

theorem searchModel_progress (p : sg_Pat) (d : List Nat) (s e : Nat) (hne : d ≠ []) (h : searchModel p d = some (s, e)) : 0 < e := by
  cases p with
  | atLeast c n =>
    simp only [searchModel] at h
    cases hf : findRun (clsPred c) n (d.length + 1) d with
    | none => simp [hf] at h
    | some r =>
      obtain ⟨pre, run, after⟩ := r
      simp only [hf, Option.some.injEq, Prod.mk.injEq] at h
      obtain ⟨-, hr, -, -, -⟩ := Seg.findRun_some _ _ _ _ _ hf
      have : 0 < run.length := List.length_pos_iff.mpr hr
      omega
  | anchoredPlus c =>
    simp only [searchModel] at h
    split at h
    · rename_i hc
      simp only [Option.some.injEq, Prod.mk.injEq] at h
      simp only [Bool.and_eq_true, Bool.not_eq_true', List.isEmpty_eq_false_iff] at hc
      have : 0 < (d.takeWhile (clsPred c)).length := List.length_pos_iff.mpr hc.1
      omega
    · simp at h
  | anchoredStarZ c =>
    simp only [searchModel] at h
    split at h
    · simp only [Option.some.injEq, Prod.mk.injEq] at h
      have : 0 < d.length := List.length_pos_iff.mpr hne
      omega
    · simp at h

/-- with the Model's engine every fuel ≥ `len(data)` gives the result of fuel `len(data)`: `_optimal_split` terminates and
    `Model.splitRuns … d.length d` is its complete output -/
theorem optimalSplit_fuel (F enc) (p : sg_Pat) (fuel : Nat) (data : List Nat) (h : data.length ≤ fuel) :
    splitOut (pyModel F enc) p fuel data = splitOut (pyModel F enc) p data.length data :=
  splitOut_fuel _ _ (fun d s e hne hs => searchModel_progress p d s e hne hs) fuel data h

end QR.SourceTieD1
