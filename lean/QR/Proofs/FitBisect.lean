import QR.Model.Data
/-
C07 (fitting), part 1: `bisectLeft` is Python's `bisect_left` on a sorted list.
-/
namespace QR.Proofs
open QR

/-- `bisect_left` on a non-decreasing list: the result `r` lies in `[lo, hi]`, everything in `[lo, r)` is `< x`
    and everything in `[r, hi)` is `≥ x`. -/
theorem bisectLeft_spec (a : List Nat) (x : Nat)
    (hs : ∀ i j, i ≤ j → j < a.length → a.getD i 0 ≤ a.getD j 0) :
    ∀ (fuel lo hi : Nat), lo ≤ hi → hi ≤ a.length → hi - lo ≤ fuel →
      lo ≤ Model.bisectLeft a x fuel lo hi ∧ Model.bisectLeft a x fuel lo hi ≤ hi ∧
      (∀ i, lo ≤ i → i < Model.bisectLeft a x fuel lo hi → a.getD i 0 < x) ∧
      (∀ i, Model.bisectLeft a x fuel lo hi ≤ i → i < hi → x ≤ a.getD i 0) := by
  intro fuel
  induction fuel with
  | zero =>
    intro lo hi h1 h2 h3
    simp only [Model.bisectLeft]
    refine ⟨Nat.le_refl _, h1, ?_, ?_⟩ <;> intro i hi1 hi2 <;> omega
  | succ fuel ih =>
    intro lo hi h1 h2 h3
    simp only [Model.bisectLeft]
    by_cases hlt : lo < hi
    · simp only [hlt, if_true]
      have hm1 : lo ≤ (lo + hi) / 2 := by omega
      have hm2 : (lo + hi) / 2 < hi := by omega
      by_cases hc : a.getD ((lo + hi) / 2) 0 < x
      · simp only [hc, if_true]
        obtain ⟨r1, r2, r3, r4⟩ := ih ((lo + hi) / 2 + 1) hi (by omega) h2 (by omega)
        refine ⟨by omega, r2, ?_, r4⟩
        intro i hi1 hi2
        by_cases hle : i ≤ (lo + hi) / 2
        · exact Nat.lt_of_le_of_lt (hs i _ hle (by omega)) hc
        · exact r3 i (by omega) hi2
      · simp only [hc, if_false]
        obtain ⟨r1, r2, r3, r4⟩ := ih lo ((lo + hi) / 2) hm1 (by omega) (by omega)
        refine ⟨r1, by omega, r3, ?_⟩
        intro i hi1 hi2
        by_cases hle : i < (lo + hi) / 2
        · exact r4 i hi1 hle
        · exact Nat.le_trans (Nat.le_of_not_lt hc) (hs _ i (by omega) (by omega))
    · simp only [hlt, if_false]
      refine ⟨Nat.le_refl _, h1, ?_, ?_⟩ <;> intro i hi1 hi2 <;> omega

end QR.Proofs
