import QR.Proofs.MatLemmas
import QR.Proofs.Finite
import QR.Proofs.Except
/-
The cached blank matrix of `makeImpl` (finder patterns + separators, alignment patterns, timing patterns) is, cell by
cell, the ISO geometry of QR/Spec/Geometry.lean - for all 40 versions (`blank_spec`).
-/
namespace QR
open Model

/-! ### the Spec's distances as linear arithmetic -/

theorem Spec.dist_le_iff (a b k : Nat) : Spec.dist a b ≤ k ↔ a ≤ b + k ∧ b ≤ a + k := by
  unfold Spec.dist; split <;> omega

theorem Spec.cheb_le_iff (r c r0 c0 k : Nat) :
    Spec.cheb r c r0 c0 ≤ k ↔ r ≤ r0 + k ∧ r0 ≤ r + k ∧ c ≤ c0 + k ∧ c0 ≤ c + k := by
  unfold Spec.cheb
  rw [Nat.max_le, Spec.dist_le_iff, Spec.dist_le_iff]; omega

theorem Spec.eq_iff_le (d k : Nat) : d = k + 1 ↔ d ≤ k + 1 ∧ ¬ d ≤ k := by omega

theorem Spec.inFinderArea_iff (n r c : Nat) :
    Spec.inFinderArea n r c = true ↔
      Spec.cheb r c 3 3 ≤ 4 ∨ Spec.cheb r c 3 (n - 4) ≤ 4 ∨ Spec.cheb r c (n - 4) 3 ≤ 4 := by
  simp [Spec.inFinderArea, Spec.finderCentres]

theorem Spec.finderColour_iff (n r c : Nat) :
    Spec.finderColour n r c = true ↔
      ((Spec.cheb r c 3 3 ≤ 1 ∨ Spec.cheb r c 3 3 = 3) ∨
       (Spec.cheb r c 3 (n - 4) ≤ 1 ∨ Spec.cheb r c 3 (n - 4) = 3) ∨
       (Spec.cheb r c (n - 4) 3 ≤ 1 ∨ Spec.cheb r c (n - 4) 3 = 3)) := by
  simp [Spec.finderColour, Spec.finderCentres]

/-! ### finder patterns -/

/-- the three-clause test of `setup_position_probe_pattern`, on the offsets `r, c ∈ -1..7` -/
def probeDark (r c : Int) : Bool :=
  decide ((0 ≤ r ∧ r ≤ 6 ∧ (c = 0 ∨ c = 6)) ∨ (0 ≤ c ∧ c ≤ 6 ∧ (r = 0 ∨ r = 6)) ∨ (2 ≤ r ∧ r ≤ 4 ∧ 2 ≤ c ∧ c ≤ 4))

/-- the 9x9 window rows row-1..row+7, columns col-1..col+7 -/
def inProbeWindow (row col r c : Nat) : Prop := row ≤ r + 1 ∧ r ≤ row + 7 ∧ col ≤ c + 1 ∧ c ≤ col + 7

/-- `setup_position_probe_pattern(row, col)` overwrites exactly its 9x9 window (clipped to the matrix) with the
    value of the three-clause test -/
theorem paints_setupProbe (n row col : Nat) :
    Paints n (fun m => setupProbe n m row col) (inProbeWindow row col)
      (fun r c => some (probeDark ((r : Int) - row) ((c : Int) - col))) := by
  have inner : ∀ r' ∈ List.range 9, Paints n
      (fun m => (List.range 9).foldl (fun m (c' : Nat) =>
        m.setI n ((row : Int) + (Int.ofNat r' - 1)) ((col : Int) + (Int.ofNat c' - 1))
          (probeDark (Int.ofNat r' - 1) (Int.ofNat c' - 1))) m)
      (fun r c => (r : Int) = (row : Int) + ((r' : Int) - 1) ∧ col ≤ c + 1 ∧ c ≤ col + 7)
      (fun r c => some (probeDark ((r : Int) - row) ((c : Int) - col))) := by
    intro r' _
    refine (Paints.foldl (List.range 9) (g := fun r c => some (probeDark ((r : Int) - row) ((c : Int) - col)))
      (P := fun c' r c =>
      (r : Int) = (row : Int) + (Int.ofNat r' - 1) ∧ (c : Int) = (col : Int) + (Int.ofNat c' - 1)) ?_).congr ?_ ?_
    · intro c' _
      refine Paints.setI _ _ _ ?_
      intro r c _ _ h1 h2
      have e1 : (r : Int) - row = Int.ofNat r' - 1 := by omega
      have e2 : (c : Int) - col = Int.ofNat c' - 1 := by omega
      rw [e1, e2]
    · intro r c _ _
      simp only [List.mem_range, Int.ofNat_eq_natCast]
      constructor
      · rintro ⟨h1, h2, h3⟩
        exact ⟨c + 1 - col, by omega, h1, by omega⟩
      · rintro ⟨c', h1, h2, h3⟩
        exact ⟨h2, by omega, by omega⟩
    · intros; rfl
  refine (Paints.foldl (List.range 9) inner).congr ?_ ?_
  · intro r c _ _
    simp only [List.mem_range, inProbeWindow]
    constructor
    · rintro ⟨h1, h2, h3, h4⟩
      exact ⟨r + 1 - row, by omega, by omega, h3, h4⟩
    · rintro ⟨r', h1, h2, h3, h4⟩
      exact ⟨by omega, by omega, h3, h4⟩
  · intros; rfl

instance (row col r c : Nat) : Decidable (inProbeWindow row col r c) := by unfold inProbeWindow; infer_instance

theorem matShape_setupProbe {n : Nat} {m : Mat} (hm : MatShape m n) (row col : Nat) :
    MatShape (setupProbe n m row col) n := (paints_setupProbe n row col).shape hm

/-- get-lemma for one finder pattern, `if` form -/
theorem get_setupProbe {n : Nat} {m : Mat} (hm : MatShape m n) (row col : Nat) {r c : Nat} (hr : r < n) (hc : c < n) :
    (setupProbe n m row col).get r c =
      if inProbeWindow row col r c then some (probeDark ((r : Int) - row) ((c : Int) - col)) else m.get r c :=
  (paints_setupProbe n row col).get_ite hm hr hc

/-- the window is the part of the Spec's finder area around the centre (row+3, col+3) -/
theorem inProbeWindow_iff_cheb (row col r c : Nat) :
    inProbeWindow row col r c ↔ Spec.cheb r c (row + 3) (col + 3) ≤ 4 := by
  rw [Spec.cheb_le_iff]; unfold inProbeWindow; omega

/-- the three-clause test draws the rings of the ISO finder pattern: Chebyshev distance 0, 1, 3 from the centre dark,
    2 and 4 (separator) light -/
theorem probeDark_eq_cheb (row col r c : Nat) (h : inProbeWindow row col r c) :
    probeDark ((r : Int) - row) ((c : Int) - col) =
      (let d := Spec.cheb r c (row + 3) (col + 3); decide (d ≤ 1) || d == 3) := by
  rw [Bool.eq_iff_iff]
  simp only [probeDark, decide_eq_true_eq, Bool.or_eq_true, beq_iff_eq, Spec.eq_iff_le _ 2, Spec.cheb_le_iff]
  unfold inProbeWindow at h
  omega

/-- a finder corner of an n x n symbol -/
def IsCorner (n row col : Nat) : Prop := (row = 0 ∧ col = 0) ∨ (row = n - 7 ∧ col = 0) ∨ (row = 0 ∧ col = n - 7)

/-- inside the window of one corner the code's colour is the Spec's `finderColour` (the other two finder centres are
    too far away to contribute) -/
theorem probeDark_eq_finderColour {n row col r c : Nat} (hn : 21 ≤ n) (hk : IsCorner n row col)
    (hr : r < n) (hc : c < n) (h : inProbeWindow row col r c) :
    probeDark ((r : Int) - row) ((c : Int) - col) = Spec.finderColour n r c := by
  rw [probeDark_eq_cheb row col r c h, Bool.eq_iff_iff, Spec.finderColour_iff]
  simp only [decide_eq_true_eq, Bool.or_eq_true, beq_iff_eq]
  have key : ∀ d, (d ≤ 1 ∨ d = 3) → d ≤ 4 := by omega
  have hw := (inProbeWindow_iff_cheb row col r c).1 h
  have e : n - 7 + 3 = n - 4 := by omega
  rcases hk with ⟨rfl, rfl⟩ | ⟨rfl, rfl⟩ | ⟨rfl, rfl⟩
  · simp only [Nat.zero_add] at hw ⊢
    have n2 : ¬ Spec.cheb r c 3 (n - 4) ≤ 4 := by rw [Spec.cheb_le_iff] at hw ⊢; omega
    have n3 : ¬ Spec.cheb r c (n - 4) 3 ≤ 4 := by rw [Spec.cheb_le_iff] at hw ⊢; omega
    constructor
    · exact Or.inl
    · rintro (h | h | h)
      · exact h
      · exact (n2 (key _ h)).elim
      · exact (n3 (key _ h)).elim
  · simp only [Nat.zero_add, e] at hw ⊢
    have n1 : ¬ Spec.cheb r c 3 3 ≤ 4 := by rw [Spec.cheb_le_iff] at hw ⊢; omega
    have n2 : ¬ Spec.cheb r c 3 (n - 4) ≤ 4 := by rw [Spec.cheb_le_iff] at hw ⊢; omega
    constructor
    · exact fun h => Or.inr (Or.inr h)
    · rintro (h | h | h)
      · exact (n1 (key _ h)).elim
      · exact (n2 (key _ h)).elim
      · exact h
  · simp only [Nat.zero_add, e] at hw ⊢
    have n1 : ¬ Spec.cheb r c 3 3 ≤ 4 := by rw [Spec.cheb_le_iff] at hw ⊢; omega
    have n3 : ¬ Spec.cheb r c (n - 4) 3 ≤ 4 := by rw [Spec.cheb_le_iff] at hw ⊢; omega
    constructor
    · exact fun h => Or.inr (Or.inl h)
    · rintro (h | h | h)
      · exact (n1 (key _ h)).elim
      · exact h
      · exact (n3 (key _ h)).elim

/-- the finder area of the Spec is the union of the three windows -/
theorem inFinderArea_iff_windows {n r c : Nat} (hn : 21 ≤ n) :
    Spec.inFinderArea n r c = true ↔
      (inProbeWindow 0 0 r c ∨ inProbeWindow (n - 7) 0 r c) ∨ inProbeWindow 0 (n - 7) r c := by
  rw [Spec.inFinderArea_iff]
  simp only [inProbeWindow_iff_cheb, Spec.cheb_le_iff]
  omega

/-- finder area as plain inequalities -/
theorem inFinderArea_iff_lin {n r c : Nat} (hn : 21 ≤ n) (hr : r < n) (hc : c < n) :
    Spec.inFinderArea n r c = true ↔ (r ≤ 7 ∧ c ≤ 7) ∨ (r ≤ 7 ∧ n ≤ c + 8) ∨ (n ≤ r + 8 ∧ c ≤ 7) := by
  rw [Spec.inFinderArea_iff]
  simp only [Spec.cheb_le_iff]
  omega

/-- one finder pattern, in Spec vocabulary -/
theorem paints_setupProbe_spec {n row col : Nat} (hn : 21 ≤ n) (hk : IsCorner n row col) :
    Paints n (fun m => setupProbe n m row col) (fun r c => Spec.cheb r c (row + 3) (col + 3) ≤ 4)
      (fun r c => some (Spec.finderColour n r c)) :=
  (paints_setupProbe n row col).congr
    (fun r c _ _ => (inProbeWindow_iff_cheb row col r c).symm)
    (fun r c hr hc h => by rw [probeDark_eq_finderColour hn hk hr hc h])

/-- the three calls of `setup_position_probe_pattern` in `makeImpl` -/
def setupFinders (n : Nat) (m : Mat) : Mat :=
  setupProbe n (setupProbe n (setupProbe n m 0 0) (n - 7) 0) 0 (n - 7)

/-- the three finder patterns together overwrite exactly the Spec's finder area with the Spec's finder colour -/
theorem paints_setupFinders {n : Nat} (hn : 21 ≤ n) :
    Paints n (setupFinders n) (fun r c => Spec.inFinderArea n r c = true)
      (fun r c => some (Spec.finderColour n r c)) := by
  have h1 := paints_setupProbe_spec (row := 0) (col := 0) hn (Or.inl ⟨rfl, rfl⟩)
  have h2 := paints_setupProbe_spec (row := n - 7) (col := 0) hn (Or.inr (Or.inl ⟨rfl, rfl⟩))
  have h3 := paints_setupProbe_spec (row := 0) (col := n - 7) hn (Or.inr (Or.inr ⟨rfl, rfl⟩))
  refine ((h1.comp h2).comp h3).congr ?_ (fun _ _ _ _ _ => rfl)
  intro r c _ _
  rw [Spec.inFinderArea_iff]
  simp only [Spec.cheb_le_iff]
  omega

/-! ### timing patterns: a loop that writes only cells that are still `None` -/

/-- a loop `for i in l: if modules[cell i] is None: modules[cell i] = g (cell i)` -/
theorem fill_foldl {ι : Type} (n : Nat) (g : Nat → Nat → Bool) (cell : ι → Nat × Nat) (f : Mat → ι → Mat)
    (hf : ∀ m i, f m i = if (m.get (cell i).1 (cell i).2).isSome then m
      else m.set (cell i).1 (cell i).2 (some (g (cell i).1 (cell i).2))) (l : List ι) :
    ∀ m, MatShape m n → MatShape (l.foldl f m) n ∧ ∀ r c, r < n → c < n →
      (l.foldl f m).get r c =
        if m.get r c = none ∧ ∃ i ∈ l, cell i = (r, c) then some (g r c) else m.get r c := by
  induction l with
  | nil => intro m hm; exact ⟨hm, fun r c _ _ => by simp⟩
  | cons i l ih =>
    intro m hm
    simp only [List.foldl_cons]
    have step : MatShape (f m i) n ∧ ∀ r c, r < n → c < n →
        (f m i).get r c = if m.get r c = none ∧ cell i = (r, c) then some (g r c) else m.get r c := by
      rw [hf]
      split
      · next hs =>
        refine ⟨hm, fun r c _ _ => ?_⟩
        by_cases hc : cell i = (r, c)
        · rw [hc] at hs
          have : m.get r c ≠ none := by intro h; simp [h] at hs
          simp [this]
        · simp [hc]
      · next hs =>
        refine ⟨matShape_set hm _ _ _, fun r c hr hc => ?_⟩
        rw [Mat.get_set_in hm _ _ _ hr hc]
        by_cases hcell : cell i = (r, c)
        · rw [hcell] at hs ⊢
          have : m.get r c = none := by simpa using hs
          simp [this]
        · have : ¬ (r = (cell i).1 ∧ c = (cell i).2) := by
            rintro ⟨rfl, rfl⟩; exact hcell rfl
          simp [hcell, this]
    obtain ⟨hm1, hget1⟩ := step
    obtain ⟨hm2, hget2⟩ := ih (f m i) hm1
    refine ⟨hm2, fun r c hr hc => ?_⟩
    rw [hget2 r c hr hc, hget1 r c hr hc]
    by_cases hnone : m.get r c = none
    · by_cases hi : cell i = (r, c)
      · simp [hnone, hi]
      · simp [hnone, hi]
    · simp [hnone]

/-- `setup_timing_pattern()`: row 6 and column 6, indices 8..n-9, only cells still `None`, even index dark -/
theorem setupTiming_spec {n : Nat} {m : Mat} (hm : MatShape m n) :
    MatShape (setupTiming n m) n ∧ ∀ r c, r < n → c < n →
      (setupTiming n m).get r c =
        if m.get r c = none ∧ ((c = 6 ∧ 8 ≤ r ∧ r + 8 < n) ∨ (r = 6 ∧ 8 ≤ c ∧ c + 8 < n))
        then some (decide ((r + c) % 2 = 0)) else m.get r c := by
  unfold setupTiming
  obtain ⟨hm1, hget1⟩ := fill_foldl n (fun r _ => decide (r % 2 = 0)) (fun k => (k + 8, 6))
    (fun m k => if (m.get (k + 8) 6).isSome then m else m.set (k + 8) 6 (some (decide ((k + 8) % 2 = 0))))
    (fun _ _ => rfl) (List.range (n - 16)) m hm
  obtain ⟨hm2, hget2⟩ := fill_foldl n (fun _ c => decide (c % 2 = 0)) (fun k => (6, k + 8))
    (fun m k => if (m.get 6 (k + 8)).isSome then m else m.set 6 (k + 8) (some (decide ((k + 8) % 2 = 0))))
    (fun _ _ => rfl) (List.range (n - 16)) _ hm1
  refine ⟨hm2, fun r c hr hc => ?_⟩
  show (List.foldl _ (List.foldl _ m _) _).get r c = _
  rw [hget2 r c hr hc, hget1 r c hr hc]
  have e1 : (∃ i ∈ List.range (n - 16), (i + 8, 6) = (r, c)) ↔ (c = 6 ∧ 8 ≤ r ∧ r + 8 < n) := by
    simp only [List.mem_range, Prod.mk.injEq]
    constructor
    · rintro ⟨i, h1, h2, h3⟩; omega
    · rintro ⟨h1, h2, h3⟩; exact ⟨r - 8, by omega, by omega, h1.symm⟩
  have e2 : (∃ i ∈ List.range (n - 16), (6, i + 8) = (r, c)) ↔ (r = 6 ∧ 8 ≤ c ∧ c + 8 < n) := by
    simp only [List.mem_range, Prod.mk.injEq]
    constructor
    · rintro ⟨i, h1, h2, h3⟩; omega
    · rintro ⟨h1, h2, h3⟩; exact ⟨c - 8, by omega, h1.symm, by omega⟩
  simp only [e1, e2]
  by_cases hnone : m.get r c = none
  · simp only [hnone, true_and]
    by_cases h1 : (c = 6 ∧ 8 ≤ r ∧ r + 8 < n)
    · have e : decide ((r + c) % 2 = 0) = decide (r % 2 = 0) := by
        rw [decide_eq_decide]; omega
      rw [if_pos h1, if_pos (Or.inl h1), e]
      simp
    · rw [if_neg h1]
      by_cases h2 : (r = 6 ∧ 8 ≤ c ∧ c + 8 < n)
      · have e : decide ((r + c) % 2 = 0) = decide (c % 2 = 0) := by
          rw [decide_eq_decide]; omega
        rw [if_pos ⟨rfl, h2⟩, if_pos (Or.inr h2), e]
      · have h3 : ¬ ((c = 6 ∧ 8 ≤ r ∧ r + 8 < n) ∨ (r = 6 ∧ 8 ≤ c ∧ c + 8 < n)) := by
          rintro (h | h)
          · exact h1 h
          · exact h2 h
        rw [if_neg (fun h => h2 h.2), if_neg h3]
  · simp [hnone]

/-! ### alignment patterns -/

/-- ring colours of an alignment pattern centred at (row, col): Chebyshev distance 0 and 2 dark, 1 light -/
def alignDark (row col r c : Nat) : Bool :=
  let d := Spec.cheb r c row col; d == 0 || d == 2

/-- the 5x5 drawing loop of `setup_position_adjust_pattern` overwrites exactly the cells within Chebyshev distance 2
    of the centre with the ring colours -/
theorem paints_drawAlign (n : Nat) {row col : Nat} (h2r : 2 ≤ row) (h2c : 2 ≤ col) :
    Paints n (fun m => drawAlign m row col) (fun r c => Spec.cheb r c row col ≤ 2)
      (fun r c => some (alignDark row col r c)) := by
  have inner : ∀ r' ∈ List.range 5, Paints n
      (fun m => (List.range 5).foldl (fun m (c' : Nat) =>
        m.set (row + r' - 2) (col + c' - 2)
          (some (decide (r' = 0 ∨ r' = 4 ∨ c' = 0 ∨ c' = 4 ∨ (r' = 2 ∧ c' = 2))))) m)
      (fun r c => r = row + r' - 2 ∧ col ≤ c + 2 ∧ c ≤ col + 2)
      (fun r c => some (alignDark row col r c)) := by
    intro r' hr'
    refine (Paints.foldl (List.range 5) (g := fun r c => some (alignDark row col r c))
      (P := fun c' r c => r = row + r' - 2 ∧ c = col + c' - 2) ?_).congr ?_ ?_
    · intro c' hc'
      refine Paints.set _ _ _ ?_
      intro _ _
      simp only [List.mem_range] at hr' hc'
      simp only [alignDark, Option.some.injEq]
      rw [Bool.eq_iff_iff]
      simp only [Bool.or_eq_true, beq_iff_eq, decide_eq_true_eq]
      have z : ∀ d : Nat, d = 0 ↔ d ≤ 0 := by omega
      rw [z, Spec.eq_iff_le _ 1]
      simp only [Spec.cheb_le_iff]
      omega
    · intro r c _ _
      simp only [List.mem_range]
      constructor
      · rintro ⟨h1, h2, h3⟩
        exact ⟨c + 2 - col, by omega, h1, by omega⟩
      · rintro ⟨c', h1, h2, h3⟩
        exact ⟨h2, by omega, by omega⟩
    · intros; rfl
  refine (Paints.foldl (List.range 5) inner).congr ?_ ?_
  · intro r c _ _
    simp only [List.mem_range, Spec.cheb_le_iff]
    constructor
    · rintro ⟨h1, h2, h3, h4⟩
      exact ⟨r + 2 - row, by omega, by omega, by omega, by omega⟩
    · rintro ⟨r', h1, h2, h3, h4⟩
      exact ⟨by omega, by omega, by omega, by omega⟩
  · intros; rfl

/-- get-lemma for one alignment pattern, `if` form -/
theorem get_drawAlign {n : Nat} {m : Mat} (hm : MatShape m n) {row col : Nat} (h2r : 2 ≤ row) (h2c : 2 ≤ col)
    {r c : Nat} (hr : r < n) (hc : c < n) :
    (drawAlign m row col).get r c =
      if Spec.cheb r c row col ≤ 2 then some (alignDark row col r c) else m.get r c :=
  (paints_drawAlign n h2r h2c).get_ite hm hr hc

/-- one iteration of the double loop of `setup_position_adjust_pattern` -/
def adjStep (m : Mat) (p : Nat × Nat) : Mat :=
  if (m.get p.1 p.2).isSome then m else drawAlign m p.1 p.2

/-- the double loop is a single loop over all pairs of coordinates, row-major -/
theorem setupAdjust_eq_foldl (m : Mat) (pos : List Nat) :
    setupAdjust m pos = (pos.flatMap fun row => pos.map fun col => (row, col)).foldl adjStep m := by
  unfold setupAdjust
  rw [List.foldl_flatMap]
  simp only [List.foldl_map]
  rfl

/-- The loop over candidate centres `S`, started on `m`.  If any two distinct candidates are at Chebyshev distance ≥ 5
    (so neither a centre nor any cell of a window lies in another candidate's window), then exactly the candidates
    whose centre cell is `None` in the *initial* matrix are drawn, each in full, and nothing else changes. -/
theorem adjust_foldl (n : Nat) (S : List (Nat × Nat))
    (hS : ∀ p ∈ S, 2 ≤ p.1 ∧ 2 ≤ p.2 ∧ p.1 < n ∧ p.2 < n)
    (hfar : ∀ p ∈ S, ∀ q ∈ S, p = q ∨ ¬ Spec.cheb p.1 p.2 q.1 q.2 ≤ 4) :
    ∀ m, MatShape m n → MatShape (S.foldl adjStep m) n ∧ ∀ r c, r < n → c < n →
      (∀ q ∈ S, m.get q.1 q.2 = none → Spec.cheb r c q.1 q.2 ≤ 2 →
          (S.foldl adjStep m).get r c = some (alignDark q.1 q.2 r c)) ∧
      ((∀ q ∈ S, m.get q.1 q.2 = none → ¬ Spec.cheb r c q.1 q.2 ≤ 2) →
          (S.foldl adjStep m).get r c = m.get r c) := by
  induction S with
  | nil => intro m hm; exact ⟨hm, fun r c _ _ => ⟨fun q hq => by simp at hq, fun _ => rfl⟩⟩
  | cons p S ih =>
    have ih := ih (fun q hq => hS q (by simp [hq])) (fun a ha b hb => hfar a (by simp [ha]) b (by simp [hb]))
    obtain ⟨hp1, hp2, hp3, hp4⟩ := hS p (by simp)
    intro m hm
    simp only [List.foldl_cons]
    by_cases hsome : (m.get p.1 p.2).isSome
    · -- centre already occupied: skipped
      have e : adjStep m p = m := by simp [adjStep, hsome]
      rw [e]
      obtain ⟨hm2, hget2⟩ := ih m hm
      refine ⟨hm2, fun r c hr hc => ⟨fun q hq hnone hwin => ?_, fun hno => ?_⟩⟩
      · rcases List.mem_cons.1 hq with rfl | hq
        · rw [hnone] at hsome; simp at hsome
        · exact (hget2 r c hr hc).1 q hq hnone hwin
      · exact (hget2 r c hr hc).2 (fun q hq => hno q (by simp [hq]))
    · -- centre free: drawn
      have hpnone : m.get p.1 p.2 = none := by simpa using hsome
      have e : adjStep m p = drawAlign m p.1 p.2 := by simp [adjStep, hsome]
      rw [e]
      have hd := paints_drawAlign n hp1 hp2
      have hm1 : MatShape (drawAlign m p.1 p.2) n := hd.shape hm
      obtain ⟨hm2, hget2⟩ := ih _ hm1
      -- the centre of p is now occupied
      have hpc : (drawAlign m p.1 p.2).get p.1 p.2 ≠ none := by
        rw [hd.get_in hm hp3 hp4 (by rw [Spec.cheb_le_iff]; omega)]; simp
      -- other candidates' centres are untouched
      have hother : ∀ q ∈ S, q ≠ p → (drawAlign m p.1 p.2).get q.1 q.2 = m.get q.1 q.2 := by
        intro q hq hne
        obtain ⟨_, _, hq3, hq4⟩ := hS q (by simp [hq])
        have := (hfar p (by simp) q (by simp [hq])).resolve_left (fun h => hne h.symm)
        exact hd.get_out hm hq3 hq4 (by rw [Spec.cheb_le_iff] at this ⊢; omega)
      refine ⟨hm2, fun r c hr hc => ⟨fun q hq hnone hwin => ?_, fun hno => ?_⟩⟩
      · by_cases hqp : q = p
        · subst hqp
          rw [(hget2 r c hr hc).2 ?_]
          · exact hd.get_in hm hr hc hwin
          · intro q' hq' hnone' hwin'
            by_cases hq'p : q' = q
            · subst hq'p; exact hpc hnone'
            · have := (hfar q (by simp) q' (by simp [hq'])).resolve_left (fun h => hq'p h.symm)
              rw [Spec.cheb_le_iff] at this hwin hwin'
              omega
        · have hq' : q ∈ S := by
            rcases List.mem_cons.1 hq with h | h
            · exact (hqp h).elim
            · exact h
          exact (hget2 r c hr hc).1 q hq' (by rw [hother q hq' hqp]; exact hnone) hwin
      · have hnp : ¬ Spec.cheb r c p.1 p.2 ≤ 2 := hno p (by simp) hpnone
        rw [(hget2 r c hr hc).2 ?_]
        · exact hd.get_out hm hr hc hnp
        · intro q' hq' hnone'
          by_cases hq'p : q' = p
          · subst hq'p; exact (hpc hnone').elim
          · exact hno q' (by simp [hq']) (by rw [← hother q' hq' hq'p]; exact hnone')

/-- What the proof needs to know about a row `pos` of the alignment table for an n x n symbol: every coordinate is 6,
    n-7 or at least 6 away from both, and two different coordinates are at least 6 apart.  (Implied by: strictly
    increasing with gaps ≥ 6, first entry 6, last entry n-7 - see `AlignOK.of_sorted`.) -/
structure AlignOK (n : Nat) (pos : List Nat) : Prop where
  mem : ∀ a ∈ pos, a = 6 ∨ a + 7 = n ∨ (12 ≤ a ∧ a + 13 ≤ n)
  gap : ∀ a ∈ pos, ∀ b ∈ pos, a = b ∨ a + 6 ≤ b ∨ b + 6 ≤ a

/-- `AlignOK` from the natural description of a table row: strictly increasing with gaps ≥ 6, first entry 6 and last
    entry n-7 (when non-empty) -/
theorem AlignOK.of_sorted {n : Nat} {pos : List Nat} (hs : pos.Pairwise (fun a b => a + 6 ≤ b))
    (hh : ∀ a, pos.head? = some a → a = 6) (hl : ∀ a, pos.getLast? = some a → a + 7 = n) : AlignOK n pos := by
  have gap : ∀ (l : List Nat), l.Pairwise (fun a b => a + 6 ≤ b) →
      ∀ a ∈ l, ∀ b ∈ l, a = b ∨ a + 6 ≤ b ∨ b + 6 ≤ a := by
    intro l hl
    induction l with
    | nil => intro a ha; simp at ha
    | cons x l ih =>
      rw [List.pairwise_cons] at hl
      intro a ha b hb
      rcases List.mem_cons.1 ha with ea | ha' <;> rcases List.mem_cons.1 hb with eb | hb'
      · exact Or.inl (ea.trans eb.symm)
      · exact Or.inr (Or.inl (ea ▸ hl.1 b hb'))
      · exact Or.inr (Or.inr (eb ▸ hl.1 a ha'))
      · exact ih hl.2 a ha' b hb'
  refine ⟨fun a ha => ?_, gap pos hs⟩
  have hfirst : a = 6 ∨ 12 ≤ a := by
    cases pos with
    | nil => simp at ha
    | cons x l =>
      have hx : x = 6 := hh x rfl
      rw [List.pairwise_cons] at hs
      rcases List.mem_cons.1 ha with rfl | ha
      · exact Or.inl hx
      · have := hs.1 a ha; omega
  have hlast : a + 7 = n ∨ a + 13 ≤ n := by
    cases hz : pos.getLast? with
    | none => rw [List.getLast?_eq_none_iff] at hz; subst hz; simp at ha
    | some z =>
      have hzn := hl z hz
      obtain ⟨l', rfl⟩ := List.getLast?_eq_some_iff.1 hz
      rw [List.pairwise_append] at hs
      rcases List.mem_append.1 ha with ha | ha
      · have := hs.2.2 a ha z (by simp); omega
      · simp at ha; omega
  omega

/-- the three pairs of coordinates that are not alignment centres (they lie inside the finder patterns) -/
def Excluded (n r0 c0 : Nat) : Prop := (r0 = 6 ∧ c0 = 6) ∨ (r0 = 6 ∧ c0 + 7 = n) ∨ (r0 + 7 = n ∧ c0 = 6)

/-- a pair of table coordinates lies in the finder area iff it is one of the three excluded pairs -/
theorem AlignOK.inFinder_iff {n : Nat} {pos : List Nat} (hn : 21 ≤ n) (h : AlignOK n pos) {a b : Nat}
    (ha : a ∈ pos) (hb : b ∈ pos) : Spec.inFinderArea n a b = true ↔ Excluded n a b := by
  have h1 := h.mem a ha
  have h2 := h.mem b hb
  rw [inFinderArea_iff_lin hn (by omega) (by omega)]
  unfold Excluded
  omega

/-- the window of a non-excluded centre is disjoint from the finder area -/
theorem AlignOK.window_not_finder {n : Nat} {pos : List Nat} (hn : 21 ≤ n) (h : AlignOK n pos) {a b r c : Nat}
    (ha : a ∈ pos) (hb : b ∈ pos) (hx : ¬ Excluded n a b) (hr : r < n) (hc : c < n)
    (hw : Spec.cheb r c a b ≤ 2) : Spec.inFinderArea n r c = false := by
  have h1 := h.mem a ha
  have h2 := h.mem b hb
  rw [← Bool.not_eq_true, inFinderArea_iff_lin hn hr hc]
  rw [Spec.cheb_le_iff] at hw
  unfold Excluded at hx
  omega

/-- `setup_position_adjust_pattern()` on a matrix whose occupied cells are exactly the finder area: every pair of table
    coordinates except the three excluded ones gets a complete alignment pattern; nothing else changes; the
    patterns do not touch the finder area. -/
theorem setupAdjust_spec {n : Nat} (hn : 21 ≤ n) {pos : List Nat} (hpos : AlignOK n pos) {m : Mat} (hm : MatShape m n)
    (hfin : ∀ r c, r < n → c < n → (m.get r c = none ↔ Spec.inFinderArea n r c = false)) :
    MatShape (setupAdjust m pos) n ∧ ∀ r c, r < n → c < n →
      (∀ r0 ∈ pos, ∀ c0 ∈ pos, ¬ Excluded n r0 c0 → Spec.cheb r c r0 c0 ≤ 2 →
          (setupAdjust m pos).get r c = some (alignDark r0 c0 r c)) ∧
      ((∀ r0 ∈ pos, ∀ c0 ∈ pos, ¬ Excluded n r0 c0 → ¬ Spec.cheb r c r0 c0 ≤ 2) →
          (setupAdjust m pos).get r c = m.get r c) := by
  rw [setupAdjust_eq_foldl]
  have hmem : ∀ p : Nat × Nat, p ∈ (pos.flatMap fun row => pos.map fun col => (row, col)) ↔
      p.1 ∈ pos ∧ p.2 ∈ pos := by
    intro p
    simp only [List.mem_flatMap, List.mem_map]
    constructor
    · rintro ⟨a, ha, b, hb, rfl⟩; exact ⟨ha, hb⟩
    · rintro ⟨ha, hb⟩; exact ⟨p.1, ha, p.2, hb, rfl⟩
  have hrange : ∀ a ∈ pos, 2 ≤ a ∧ a < n := fun a ha => by have := hpos.mem a ha; omega
  have hnone : ∀ a ∈ pos, ∀ b ∈ pos, (m.get a b = none ↔ ¬ Excluded n a b) := by
    intro a ha b hb
    rw [hfin a b (hrange a ha).2 (hrange b hb).2, ← hpos.inFinder_iff hn ha hb]
    simp
  obtain ⟨hm2, hget2⟩ := adjust_foldl n _
    (fun p hp => by
      obtain ⟨h1, h2⟩ := (hmem p).1 hp
      exact ⟨(hrange _ h1).1, (hrange _ h2).1, (hrange _ h1).2, (hrange _ h2).2⟩)
    (fun p hp q hq => by
      obtain ⟨h1, h2⟩ := (hmem p).1 hp
      obtain ⟨h3, h4⟩ := (hmem q).1 hq
      have g1 := hpos.gap _ h1 _ h3
      have g2 := hpos.gap _ h2 _ h4
      by_cases e1 : p.1 = q.1
      · by_cases e2 : p.2 = q.2
        · exact Or.inl (Prod.ext e1 e2)
        · right; rw [Spec.cheb_le_iff]; omega
      · right; rw [Spec.cheb_le_iff]; omega)
    m hm
  refine ⟨hm2, fun r c hr hc => ⟨fun r0 hr0 c0 hc0 hx hw => ?_, fun hno => ?_⟩⟩
  · exact (hget2 r c hr hc).1 (r0, c0) ((hmem _).2 ⟨hr0, hc0⟩) ((hnone r0 hr0 c0 hc0).2 hx) hw
  · refine (hget2 r c hr hc).2 (fun q hq hqn => ?_)
    obtain ⟨h1, h2⟩ := (hmem q).1 hq
    exact hno q.1 h1 q.2 h2 ((hnone _ h1 _ h2).1 hqn)

/-! ### the Spec's `alignOf` -/

theorem alignOf_some {v r c r0 c0 : Nat} (h : Spec.alignOf v r c = some (r0, c0)) :
    r0 ∈ Spec.alignmentCentres v ∧ c0 ∈ Spec.alignmentCentres v ∧ Spec.cheb r c r0 c0 ≤ 2 ∧
      ¬ Excluded (4 * v + 17) r0 c0 := by
  unfold Spec.alignOf at h
  obtain ⟨a, ha, h1⟩ := List.exists_of_findSome?_eq_some h
  split at h1
  · next hd1 =>
    obtain ⟨b, hb, h2⟩ := List.exists_of_findSome?_eq_some h1
    split at h2
    · next hd2 =>
      simp only [Option.some.injEq, Prod.mk.injEq] at h2
      obtain ⟨rfl, rfl⟩ := h2
      simp only [Bool.and_eq_true, decide_eq_true_eq, Bool.not_eq_true', Bool.or_eq_false_iff,
        Bool.and_eq_false_iff, beq_eq_false_iff_ne, ne_eq] at hd2
      refine ⟨ha, hb, ?_, ?_⟩
      · unfold Spec.cheb; exact Nat.max_le.2 ⟨hd1, hd2.1⟩
      · unfold Excluded; omega
    · simp at h2
  · simp at h1

theorem alignOf_none {v r c : Nat} (h : Spec.alignOf v r c = none) :
    ∀ r0 ∈ Spec.alignmentCentres v, ∀ c0 ∈ Spec.alignmentCentres v,
      ¬ Excluded (4 * v + 17) r0 c0 → ¬ Spec.cheb r c r0 c0 ≤ 2 := by
  intro r0 hr0 c0 hc0 hx hw
  unfold Spec.alignOf at h
  rw [List.findSome?_eq_none_iff] at h
  have h1 := h r0 hr0
  unfold Spec.cheb at hw
  rw [Nat.max_le] at hw
  rw [if_pos hw.1, List.findSome?_eq_none_iff] at h1
  have h2 := h1 c0 hc0
  split at h2
  · simp at h2
  · next hd2 =>
    apply hd2
    simp only [Bool.and_eq_true, decide_eq_true_eq, Bool.not_eq_true', Bool.or_eq_false_iff,
        Bool.and_eq_false_iff, beq_eq_false_iff_ne, ne_eq]
    refine ⟨hw.2, ?_⟩
    unfold Excluded at hx
    omega

/-! ### the 40 rows of the alignment table -/

/-- `AlignOK` as a Boolean test -/
def alignOKb (n : Nat) (pos : List Nat) : Bool :=
  pos.all (fun a => a == 6 || a + 7 == n || (decide (12 ≤ a) && decide (a + 13 ≤ n))) &&
  pos.all (fun a => pos.all fun b => a == b || decide (a + 6 ≤ b) || decide (b + 6 ≤ a))

theorem alignOK_of_b {n : Nat} {pos : List Nat} (h : alignOKb n pos = true) : AlignOK n pos := by
  simp only [alignOKb, Bool.and_eq_true, List.all_eq_true, Bool.or_eq_true, beq_iff_eq, decide_eq_true_eq] at h
  exact ⟨fun a ha => by have := h.1 a ha; omega, fun a ha b hb => by have := h.2 a ha b hb; omega⟩

set_option maxRecDepth 100000 in
/-- all 40 rows of the Annex E closed form satisfy `AlignOK` (finite check on 40 lists of at most 7 numbers) -/
theorem alignOK_table (v : Nat) (h1 : 1 ≤ v) (h40 : v ≤ 40) : AlignOK (4 * v + 17) (Spec.alignmentCentres v) := by
  have h : (List.range 40).all (fun v => alignOKb (4 * (v + 1) + 17) (Spec.alignmentCentres (v + 1))) = true := by
    decide +kernel
  have := forall_lt_of_all h (v - 1) (by omega)
  rw [show v - 1 + 1 = v by omega] at this
  exact alignOK_of_b this

set_option maxRecDepth 100000 in
/-- `PATTERN_POSITION_TABLE` is the Annex E closed form (same finite check as `Props.C05_alignment`) -/
theorem patternPosition_eq (v : Nat) (h1 : 1 ≤ v) (h40 : v ≤ 40) :
    Model.patternPosition v = .ok (Spec.alignmentCentres v) := by
  have h : (List.range 40).all (fun v =>
      match Model.patternPosition (v + 1) with
      | .ok p => p == Spec.alignmentCentres (v + 1)
      | .error _ => false) = true := by decide +kernel
  have := forall_lt_of_all h (v - 1) (by omega)
  rw [show v - 1 + 1 = v by omega] at this
  revert this
  cases Model.patternPosition v with
  | ok b => intro h; simp at h; rw [h]
  | error e => intro h; simp at h

/-! ### main theorem -/

/-- the blank matrix as a composition of the three stages -/
theorem blank_eq (v : Nat) (h1 : 1 ≤ v) (h40 : v ≤ 40) :
    Model.blank v = .ok (setupTiming (Spec.size v)
      (setupAdjust (setupFinders (Spec.size v) (Mat.empty (Spec.size v))) (Spec.alignmentCentres v))) := by
  have e : v * 4 + 17 = Spec.size v := by unfold Spec.size; omega
  unfold Model.blank
  simp only [e, patternPosition_eq v h1 h40]
  rfl

/-- MAIN: for every version 1..40 the cached blank matrix exists, is size x size, and each of its cells is exactly
    what the ISO geometry prescribes: finder patterns + separators, alignment patterns at the Annex E centres, timing
    patterns, and `None` everywhere else. -/
theorem blank_spec (v : Nat) (h1 : 1 ≤ v) (h40 : v ≤ 40) :
    ∃ B, Model.blank v = .ok B ∧ MatShape B (Spec.size v) ∧
      ∀ r c, r < Spec.size v → c < Spec.size v → B.get r c = Spec.blankCell v r c := by
  refine ⟨_, blank_eq v h1 h40, ?_⟩
  have hn : 21 ≤ Spec.size v := by unfold Spec.size; omega
  have hsz : Spec.size v = 4 * v + 17 := rfl
  generalize hN : Spec.size v = n at hn hsz ⊢
  have hpos : AlignOK n (Spec.alignmentCentres v) := by rw [hsz]; exact alignOK_table v h1 h40
  -- stage 1: finder patterns
  have hF := paints_setupFinders hn
  have hm3 : MatShape (setupFinders n (Mat.empty n)) n := hF.shape (matShape_empty n)
  have hget3 : ∀ r c, r < n → c < n → (setupFinders n (Mat.empty n)).get r c =
      if Spec.inFinderArea n r c = true then some (Spec.finderColour n r c) else none := by
    intro r c hr hc
    by_cases hf : Spec.inFinderArea n r c = true
    · rw [if_pos hf]; exact hF.get_in (matShape_empty n) hr hc hf
    · rw [if_neg hf, hF.get_out (matShape_empty n) hr hc hf, Mat.get_empty]
  -- stage 2: alignment patterns
  obtain ⟨hm4, hget4⟩ := setupAdjust_spec hn hpos hm3 (fun r c hr hc => by
    rw [hget3 r c hr hc]
    by_cases hf : Spec.inFinderArea n r c = true <;> simp [hf])
  -- stage 3: timing patterns
  obtain ⟨hm5, hget5⟩ := setupTiming_spec hm4
  refine ⟨hm5, fun r c hr hc => ?_⟩
  rw [hget5 r c hr hc]
  unfold Spec.blankCell
  simp only [hN]
  by_cases hf : Spec.inFinderArea n r c = true
  · -- finder area: no alignment window reaches it
    have h4 : (setupAdjust (setupFinders n (Mat.empty n)) (Spec.alignmentCentres v)).get r c =
        some (Spec.finderColour n r c) := by
      rw [(hget4 r c hr hc).2 ?_, hget3 r c hr hc, if_pos hf]
      intro r0 hr0 c0 hc0 hx hw
      have := hpos.window_not_finder hn hr0 hc0 hx hr hc hw
      rw [hf] at this; exact Bool.noConfusion this
    rw [h4, if_pos hf]; simp
  · rw [if_neg hf]
    cases ha : Spec.alignOf v r c with
    | some p =>
      obtain ⟨r0, c0⟩ := p
      obtain ⟨hr0, hc0, hw, hx⟩ := alignOf_some ha
      rw [← hsz] at hx
      have h4 := (hget4 r c hr hc).1 r0 hr0 c0 hc0 hx hw
      rw [h4]
      simp only [Spec.inAlignment, Spec.alignColour, ha, Option.isSome_some, if_true]
      simp [alignDark]
    | none =>
      have hno := alignOf_none ha
      rw [← hsz] at hno
      have h4 : (setupAdjust (setupFinders n (Mat.empty n)) (Spec.alignmentCentres v)).get r c = none := by
        rw [(hget4 r c hr hc).2 hno, hget3 r c hr hc, if_neg hf]
      rw [h4]
      simp only [Spec.inAlignment, ha, Option.isSome_none, Bool.false_eq_true, if_false, true_and]
      have hlin := inFinderArea_iff_lin hn hr hc
      have hT : ((c = 6 ∧ 8 ≤ r ∧ r + 8 < n) ∨ (r = 6 ∧ 8 ≤ c ∧ c + 8 < n)) ↔ Spec.inTiming n r c = true := by
        have : Spec.inFinderArea n r c = false := by simpa using hf
        simp only [Spec.inTiming, this, Bool.not_false, Bool.and_true, Bool.or_eq_true, beq_iff_eq]
        rw [hlin] at hf
        omega
      by_cases ht : Spec.inTiming n r c = true
      · rw [if_pos (hT.2 ht), if_pos ht]
        simp only [Spec.timingColour, Option.some.injEq]
        rw [Bool.eq_iff_iff]; simp
      · rw [if_neg (fun h => ht (hT.1 h)), if_neg ht]
