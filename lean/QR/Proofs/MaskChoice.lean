import QR.Proofs.ReadBack
import QR.Proofs.Penalty
import QR.Spec.MaskChoice
/-
C09, the automatic mask against the Spec: the trial symbols `best_mask_pattern` scores (`makeImpl(test = True, i)`) are
exactly the ISO candidate symbols `Spec.candidate` derived from the finished symbol alone, so the mask recorded in a
compiled symbol is `Spec.chooseMask` of that symbol.
  * `trial_blank`       format / version / dark-module cells of a trial symbol are light
  * `trial_cell`        every cell of the trial symbol for mask `i` = the Spec candidate cell computed from the final symbol
  * `trial_candidate`   `Mi.toBMat = Spec.candidate S v m i`
  * `argminFirst_congr` `argminFirst k` only looks at `f 0 .. f (k-1)`
  * `trial_score`       `lostPoint Mi.toBMat = Spec.penalty (Spec.candidate S v m i)`
  * `chooseMask_of_trials`  `Spec.chooseMask S v m = argminFirst 8 (lostPoint ∘ toBMat ∘ trial)`
-/
namespace QR.MaskChoice
open QR

/-! ### item 1: the information areas of a trial symbol are light -/

/-- with `test = true` every format / version / dark-module cell is written light -/
theorem infoCell_test (v level mask : Nat) (h1 : 1 ≤ v) (r c : Nat) (b : Bool)
    (h : Spec.infoCell v level mask true r c = some b) : b = false := by
  rw [GeoB.infoCell_eq v level mask h1] at h
  simp only [Bool.not_true, Bool.false_and] at h
  grind

/-- the information cells, with the three areas in any order -/
theorem infoCell_of_area (v level mask : Nat) (h1 : 1 ≤ v) (test : Bool) (r c : Nat)
    (hr : r < Spec.size v) (hc : c < Spec.size v)
    (h : Spec.inFormat (Spec.size v) r c = true ∨ Spec.inVersion v (Spec.size v) r c = true ∨
      Spec.isDarkModule (Spec.size v) r c = true) :
    (Spec.infoCell v level mask test r c).isSome = true :=
  (GeoB.infoCell_isSome_iff v level mask h1 test r c hr hc).mpr (by
    rcases h with h | h | h
    · exact Or.inl h
    · exact Or.inr (Or.inr h)
    · exact Or.inr (Or.inl h))

/-- **item 1**: in a trial symbol (`test = True`) every format cell, every version cell and the dark module is light -/
theorem trial_blank (v level mask : Nat) (data : List Nat)
    (h1 : 1 ≤ v) (h40 : v ≤ 40) (hl : level < 4) (hk : mask < 8)
    (M : Model.Mat) (h : Model.makeImpl v level true mask data = .ok M)
    (r c : Nat) (hr : r < Spec.size v) (hc : c < Spec.size v)
    (ha : Spec.inFormat (Spec.size v) r c = true ∨ Spec.inVersion v (Spec.size v) r c = true ∨
      Spec.isDarkModule (Spec.size v) r c = true) :
    M.get r c = some false := by
  obtain ⟨M', hM', _, _, _, hinfo, _⟩ := Sym.makeImpl_spec v level mask true data h1 h40 hl hk
  rw [h] at hM'
  have hM'' := Except.ok.inj hM'
  subst hM''
  have hs := infoCell_of_area v level mask h1 true r c hr hc ha
  cases hb : Spec.infoCell v level mask true r c with
  | none => rw [hb] at hs; cases hs
  | some b =>
    have := infoCell_test v level mask h1 r c b hb
    subst this
    exact hinfo r c false hr hc hb

/-! ### item 2: trial symbol = Spec candidate -/

theorem xor_cancel (a b c : Bool) : xor (xor (xor a b) b) c = xor a c := by
  cases a <;> cases b <;> cases c <;> rfl

/-- a non-function cell inside the symbol is met by the zig-zag -/
theorem exists_zigzag_index (v r c : Nat) (hr : r < Spec.size v) (hc : c < Spec.size v)
    (hf : Spec.isFunction v r c = false) :
    ∃ k, ∃ hk : k < (Spec.zigzag (Spec.size v)).length, (Spec.zigzag (Spec.size v))[k] = (r, c) := by
  have h6 : c ≠ 6 := fun e => by rw [e, GeoC.col6_isFunction] at hf; cases hf
  have hmem : (r, c) ∈ Spec.zigzag (Spec.size v) :=
    (GeoC.mem_zigzag_iff (Spec.size v) (by unfold Spec.size; omega) (by unfold Spec.size; omega) r c).mpr ⟨hr, hc, h6⟩
  obtain ⟨k, hk, e⟩ := List.getElem_of_mem hmem
  exact ⟨k, hk, e⟩

/-- a data cell of `makeImpl`'s result: stream bit (independent of `test` and of the mask) xor the mask condition -/
theorem data_cell (v level mask : Nat) (test : Bool) (data : List Nat) (M : Model.Mat)
    (h1 : 1 ≤ v) (h40 : v ≤ 40) (hl : level < 4) (hk : mask < 8)
    (hM : Model.makeImpl v level test mask data = .ok M)
    (k : Nat) (hk' : k < (Spec.zigzag (Spec.size v)).length) (r c : Nat)
    (e : (Spec.zigzag (Spec.size v))[k] = (r, c)) (hf : Spec.isFunction v r c = false) :
    M.get r c = some (xor ((Model.codewordBits data).getD
        (((Spec.zigzag (Spec.size v)).take k).countP fun p => !Spec.isFunction v p.1 p.2) false)
      (Spec.maskCond mask r c)) := by
  have := Sym.makeImpl_cell v level mask test data M h1 h40 hl hk hM k hk' (by rw [e]; exact hf)
  rw [e] at this
  exact this

/-- **item 2, cell form**: inside the symbol, the trial symbol for mask `i` holds at every cell what the Spec's candidate
    prescribes from the final symbol built with mask `m`: information areas light, other function modules as in the final
    symbol, data modules re-masked from `m` to `i` -/
theorem trial_cell (v level m i : Nat) (data : List Nat)
    (h1 : 1 ≤ v) (h40 : v ≤ 40) (hl : level < 4) (hm : m < 8) (hi : i < 8)
    (M Mi : Model.Mat) (hM : Model.makeImpl v level false m data = .ok M)
    (hMi : Model.makeImpl v level true i data = .ok Mi)
    (r c : Nat) (hr : r < Spec.size v) (hc : c < Spec.size v) :
    (Mi.get r c).getD false =
      if (Spec.inFormat (Spec.size v) r c || Spec.inVersion v (Spec.size v) r c ||
          Spec.isDarkModule (Spec.size v) r c) = true then false
      else if Spec.isFunction v r c = true then (M.get r c).getD false
      else xor (xor ((M.get r c).getD false) (Spec.maskCond m r c)) (Spec.maskCond i r c) := by
  by_cases ha : (Spec.inFormat (Spec.size v) r c || Spec.inVersion v (Spec.size v) r c ||
      Spec.isDarkModule (Spec.size v) r c) = true
  · rw [if_pos ha]
    have ha' : Spec.inFormat (Spec.size v) r c = true ∨ Spec.inVersion v (Spec.size v) r c = true ∨
        Spec.isDarkModule (Spec.size v) r c = true := by
      simpa only [Bool.or_eq_true, or_assoc] using ha
    rw [trial_blank v level i data h1 h40 hl hi Mi hMi r c hr hc ha']
    rfl
  · rw [if_neg ha]
    by_cases hf : Spec.isFunction v r c = true
    · rw [if_pos hf]
      -- a function module outside the information areas is a cell of the blank matrix
      have hb : (Spec.blankCell v r c).isSome = true := by
        rcases (Sym.isFunction_iff v level i h1 true r c hr hc).mp hf with hb | hinf
        · exact hb
        · exfalso
          apply ha
          have := (GeoB.infoCell_isSome_iff v level i h1 true r c hr hc).mp hinf
          simp only [Bool.or_eq_true]
          rcases this with h | h | h
          · exact Or.inl (Or.inl h)
          · exact Or.inr h
          · exact Or.inl (Or.inr h)
      cases hbc : Spec.blankCell v r c with
      | none => rw [hbc] at hb; cases hb
      | some b =>
        obtain ⟨M', hM', _, _, hblank, _⟩ := Sym.makeImpl_spec v level m false data h1 h40 hl hm
        rw [hM] at hM'
        have e1 := Except.ok.inj hM'
        subst e1
        obtain ⟨Mi', hMi', _, _, hblanki, _⟩ := Sym.makeImpl_spec v level i true data h1 h40 hl hi
        rw [hMi] at hMi'
        have e2 := Except.ok.inj hMi'
        subst e2
        rw [hblank r c b hr hc hbc, hblanki r c b hr hc hbc]
    · rw [if_neg hf]
      have hf' : Spec.isFunction v r c = false := by
        cases h : Spec.isFunction v r c
        · rfl
        · exact absurd h hf
      obtain ⟨k, hk, e⟩ := exists_zigzag_index v r c hr hc hf'
      rw [data_cell v level m false data M h1 h40 hl hm hM k hk r c e hf',
        data_cell v level i true data Mi h1 h40 hl hi hMi k hk r c e hf']
      simp only [Option.getD_some]
      rw [xor_cancel]

/-- the Boolean matrix of an n x n model matrix, as a table of its cells -/
theorem toBMat_eq (M : Model.Mat) (n : Nat) (hs : MatShape M n) :
    M.toBMat = (List.range n).map fun r => (List.range n).map fun c => (M.get r c).getD false := by
  have hsize := hs.1
  apply List.ext_getElem
  · simp [Model.Mat.toBMat, hsize]
  · intro r hr1 hr2
    have hr : r < n := by simpa using hr2
    obtain ⟨row, hrow, hrs⟩ := Model.matShape_row hs hr
    have hrM : r < M.size := by omega
    have hrow' : M[r] = row := by
      rw [Array.getElem?_eq_getElem hrM] at hrow
      exact Option.some.inj hrow
    simp only [Model.Mat.toBMat, List.getElem_map, List.getElem_range, Array.getElem_toList, hrow']
    apply List.ext_getElem
    · simp [hrs]
    · intro c hc1 hc2
      have hc : c < n := by simpa using hc2
      have hcR : c < row.size := by omega
      simp only [List.getElem_map, List.getElem_range, Array.getElem_toList, Model.Mat.get_eq, hrow,
        Option.getD_some, Array.getElem?_eq_getElem hcR]

/-- shape of the Boolean matrix handed to `lost_point` -/
theorem toBMat_shape (M : Model.Mat) (n : Nat) (hs : MatShape M n) :
    M.toBMat.length = n ∧ ∀ row ∈ M.toBMat, row.length = n := by
  rw [toBMat_eq M n hs]
  refine ⟨by simp, ?_⟩
  intro row hrow
  obtain ⟨r, _, rfl⟩ := List.mem_map.mp hrow
  simp

/-- **item 2**: the trial symbol `best_mask_pattern` builds for mask `i` is the ISO candidate symbol for mask `i` derived
    from the final symbol (built with mask `m`) alone.  `S` is any Boolean view of the final matrix. -/
theorem trial_candidate (v level m i : Nat) (data : List Nat)
    (h1 : 1 ≤ v) (h40 : v ≤ 40) (hl : level < 4) (hm : m < 8) (hi : i < 8)
    (M Mi : Model.Mat) (hM : Model.makeImpl v level false m data = .ok M)
    (hMi : Model.makeImpl v level true i data = .ok Mi)
    (S : Spec.Sym) (hS : GeoC.Shows S (Spec.size v) M) :
    Mi.toBMat = Spec.candidate S v m i := by
  obtain ⟨Mi', hMi', hshape, _⟩ := Sym.makeImpl_spec v level i true data h1 h40 hl hi
  rw [hMi] at hMi'
  have e2 := Except.ok.inj hMi'
  subst e2
  obtain ⟨hSn, hSg⟩ := hS
  rw [toBMat_eq Mi (Spec.size v) hshape]
  unfold Spec.candidate
  rw [hSn]
  apply List.map_congr_left
  intro r hr
  apply List.map_congr_left
  intro c hc
  have hr' := List.mem_range.mp hr
  have hc' := List.mem_range.mp hc
  rw [trial_cell v level m i data h1 h40 hl hm hi M Mi hM hMi r c hr' hc', hSg r c hr' hc']

/-! ### item 3: the arg-min -/

theorem argmin_fold_congr (k : Nat) (f g : Nat → Nat) (h : ∀ i, i < k → f i = g i) (is : List Nat) :
    ∀ best, best < k → (∀ i ∈ is, i < k) →
      is.foldl (fun best i => if f i < f best then i else best) best =
        is.foldl (fun best i => if g i < g best then i else best) best := by
  induction is with
  | nil => intros; rfl
  | cons i is ih =>
    intro best hb his
    have hi : i < k := his i (List.mem_cons_self ..)
    simp only [List.foldl_cons]
    rw [h i hi, h best hb]
    apply ih
    · by_cases hlt : g i < g best
      · rw [if_pos hlt]; exact hi
      · rw [if_neg hlt]; exact hb
    · exact fun j hj => his j (List.mem_cons_of_mem _ hj)

/-- `argminFirst k` only depends on the scores of `0 .. k-1` -/
theorem argminFirst_congr (k : Nat) (f g : Nat → Nat) (h : ∀ i, i < k → f i = g i) :
    Spec.argminFirst k f = Spec.argminFirst k g := by
  unfold Spec.argminFirst
  cases k with
  | zero => rfl
  | succ k =>
    exact argmin_fold_congr (k + 1) f g h _ 0 (by omega) (fun i hi => List.mem_range.mp hi)

/-- the score `best_mask_pattern` gives the trial symbol for mask `i` is the ISO penalty of the candidate symbol for
    mask `i` derived from the final symbol -/
theorem trial_score (v level m i : Nat) (data : List Nat)
    (h1 : 1 ≤ v) (h40 : v ≤ 40) (hl : level < 4) (hm : m < 8) (hi : i < 8)
    (M Mi : Model.Mat) (hM : Model.makeImpl v level false m data = .ok M)
    (hMi : Model.makeImpl v level true i data = .ok Mi)
    (S : Spec.Sym) (hS : GeoC.Shows S (Spec.size v) M) :
    Model.lostPoint Mi.toBMat = Spec.penalty (Spec.candidate S v m i) := by
  obtain ⟨Mi', hMi', hshape, _⟩ := Sym.makeImpl_spec v level i true data h1 h40 hl hi
  rw [hMi] at hMi'
  have e2 := Except.ok.inj hMi'
  subst e2
  obtain ⟨hlen, hrow⟩ := toBMat_shape Mi (Spec.size v) hshape
  rw [Proofs.Penalty.lostPoint_eq_penalty Mi.toBMat (Spec.size v) (by unfold Spec.size; omega) hlen hrow,
    trial_candidate v level m i data h1 h40 hl hm hi M Mi hM hMi S hS]

/-- **item 3, core**: the ISO choice computed from the final symbol alone is the first arg-min of the code's `lost_point`
    over the eight trial symbols -/
theorem chooseMask_of_trials (v level m : Nat) (data : List Nat)
    (h1 : 1 ≤ v) (h40 : v ≤ 40) (hl : level < 4) (hm : m < 8)
    (M : Model.Mat) (hM : Model.makeImpl v level false m data = .ok M)
    (Ms : Nat → Model.Mat) (hMs : ∀ i, i < 8 → Model.makeImpl v level true i data = .ok (Ms i))
    (S : Spec.Sym) (hS : GeoC.Shows S (Spec.size v) M) :
    Spec.chooseMask S v m = Spec.argminFirst 8 fun i => Model.lostPoint (Ms i).toBMat := by
  unfold Spec.chooseMask
  apply argminFirst_congr
  intro i hi
  exact (trial_score v level m i data h1 h40 hl hm hi M (Ms i) hM (hMs i hi) S hS).symm

/-- the eight trial symbols exist, as a function of the mask number -/
theorem trials_exist (v level : Nat) (data : List Nat) (h1 : 1 ≤ v) (h40 : v ≤ 40) :
    ∃ Ms : Nat → Model.Mat, ∀ i, i < 8 → Model.makeImpl v level true i data = .ok (Ms i) := by
  refine ⟨fun i => match Model.makeImpl v level true i data with | .ok M => M | .error _ => #[], ?_⟩
  intro i hi
  obtain ⟨Mi, h⟩ := Proofs.makeImpl_total v h1 h40 level i (by omega) true data
  simp only [h]

/-- `makeImpl` only succeeds for one of the eight mask patterns -/
theorem mask_lt_of_makeImpl (v level mask : Nat) (test : Bool) (data : List Nat) (M : Model.Mat)
    (h : Model.makeImpl v level test mask data = .ok M) : mask < 8 := by
  by_cases hgt : mask > 7
  · exfalso
    obtain ⟨B, _, h⟩ := R.bind_eq_ok.mp (show (Model.blank v >>= fun B => _) = _ from h)
    simp only [if_pos hgt] at h
    cases h
  · omega

end QR.MaskChoice
