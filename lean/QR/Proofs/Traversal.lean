import QR.Model.Matrix
import QR.Spec.Geometry
/-
C05, traversal: the cells `map_data` visits (`Model.trav`) are the ISO zig-zag order (`Spec.zigzag`), without
repetition, and cover exactly the cells outside column 6.
-/
namespace QR.GeoC
open QR

/-! ### the strip columns -/

theorem rightCols_step (n : Nat) (hodd : n % 2 = 1) :
    Spec.rightCols (n + 2) = Model.pairCol (n + 2) 0 :: Spec.rightCols n := by
  unfold Spec.rightCols Model.pairCol
  simp only [List.range_succ, List.reverse_append, List.reverse_cons, List.reverse_nil, List.nil_append,
    List.cons_append, List.filter_cons]
  have h1 : (n + 1) % 2 = 0 := by omega
  by_cases h : 5 < n
  · have h2 : 6 < n := by omega
    have h3 : ¬ (n + 1 ≤ 6) := by omega
    simp [h1, h2, h3, hodd]
  · have h2 : ¬ 6 < n := by omega
    have h3 : n + 1 ≤ 6 := by omega
    simp [h1, h2, h3, hodd]

theorem pairCol_step (n k : Nat) : Model.pairCol (n + 2) (k + 1) = Model.pairCol n k := by
  unfold Model.pairCol
  have : n + 2 - 1 - 2 * (k + 1) = n - 1 - 2 * k := by omega
  simp only [this]

/-- the strips of the Spec are the column pairs of the code, for every odd size -/
theorem rightCols_eq (j : Nat) : Spec.rightCols (2 * j + 1) = (List.range ((2 * j + 1) / 2)).map (Model.pairCol (2 * j + 1)) := by
  induction j with
  | zero => rfl
  | succ j ih =>
    have e : 2 * (j + 1) + 1 = (2 * j + 1) + 2 := by omega
    rw [e, rightCols_step _ (by omega), ih]
    have e2 : (2 * j + 1 + 2) / 2 = (2 * j + 1) / 2 + 1 := by omega
    rw [e2, List.range_succ_eq_map, List.map_cons, List.map_map]
    congr 1
    apply List.map_congr_left
    intro k _
    simp only [Function.comp, pairCol_step]

theorem rightCols_eq' (n : Nat) (hodd : n % 2 = 1) :
    Spec.rightCols n = (List.range (n / 2)).map (Model.pairCol n) := by
  have : n = 2 * (n / 2) + 1 := by omega
  rw [this]; exact rightCols_eq _

theorem reverse_range_eq (n : Nat) : (List.range n).reverse = (List.range n).map fun x => n - 1 - x := by
  conv => lhs; rw [List.range_eq_range', List.reverse_range']
  apply List.map_congr_left
  intro x _
  omega

theorem flatMap_congr' {α β} {l : List α} {f g : α → List β} (h : ∀ a ∈ l, f a = g a) :
    l.flatMap f = l.flatMap g := by
  induction l with
  | nil => rfl
  | cons a l ih =>
    simp only [List.flatMap_cons]
    rw [h a (List.mem_cons_self ..), ih fun b hb => h b (List.mem_cons_of_mem _ hb)]

/-- **traversal order**: for every size n ≡ 1 (mod 4) (all QR sizes 4v+17) the code's traversal is the ISO zig-zag -/
theorem trav_eq_zigzag (n : Nat) (h4 : n % 4 = 1) : Model.trav n = Spec.zigzag n := by
  unfold Model.trav Spec.zigzag
  rw [rightCols_eq' n (by omega), List.flatMap_map]
  apply flatMap_congr'
  intro k hk
  have hk : k < n / 2 := List.mem_range.mp hk
  have hpar : ((Model.pairCol n k + 1) / 2) % 2 = k % 2 := by
    unfold Model.pairCol
    by_cases h : n - 1 - 2 * k ≤ 6
    · simp only [h, if_true]; omega
    · simp only [h, if_false]; omega
  by_cases hk2 : k % 2 = 0
  · have : (((Model.pairCol n k + 1) / 2) % 2 == 0) = true := by rw [hpar, hk2]; rfl
    simp only [hk2, if_true, this, reverse_range_eq, List.flatMap_map]
  · have : (((Model.pairCol n k + 1) / 2) % 2 == 0) = false := by
      rw [hpar]; simp [hk2]
    simp only [hk2, if_false, this]
    rfl

theorem trav_eq_zigzag_size (v : Nat) : Model.trav (Spec.size v) = Spec.zigzag (Spec.size v) :=
  trav_eq_zigzag _ (by unfold Spec.size; omega)

/-! ### membership -/

theorem mem_trav_iff' (n r c : Nat) :
    (r, c) ∈ Model.trav n ↔ ∃ k, k < n / 2 ∧ r < n ∧ (c = Model.pairCol n k ∨ c = Model.pairCol n k - 1) := by
  unfold Model.trav
  simp only [List.mem_flatMap, List.mem_range]
  constructor
  · rintro ⟨k, hk, r', hr', hm⟩
    refine ⟨k, hk, ?_⟩
    have hr'' : r' < n := by
      by_cases h : k % 2 = 0
      · simp only [h, if_true, List.mem_reverse, List.mem_range] at hr'; exact hr'
      · simp only [h, if_false, List.mem_range] at hr'; exact hr'
    simp only [List.mem_cons, Prod.mk.injEq, List.not_mem_nil, or_false] at hm
    rcases hm with ⟨rfl, rfl⟩ | ⟨rfl, rfl⟩
    · exact ⟨hr'', Or.inl rfl⟩
    · exact ⟨hr'', Or.inr rfl⟩
  · rintro ⟨k, hk, hr, hc⟩
    refine ⟨k, hk, r, ?_, ?_⟩
    · by_cases h : k % 2 = 0
      · simp only [h, if_true, List.mem_reverse, List.mem_range]; exact hr
      · simp only [h, if_false, List.mem_range]; exact hr
    · simp only [List.mem_cons, Prod.mk.injEq, List.not_mem_nil, or_false, true_and]
      exact hc

/-- **coverage**: for odd n ≥ 7 the traversal visits exactly the in-bounds cells outside column 6 -/
theorem mem_trav_iff (n : Nat) (hodd : n % 2 = 1) (h7 : 7 ≤ n) (r c : Nat) :
    (r, c) ∈ Model.trav n ↔ r < n ∧ c < n ∧ c ≠ 6 := by
  rw [mem_trav_iff']
  constructor
  · rintro ⟨k, hk, hr, hc⟩
    refine ⟨hr, ?_⟩
    unfold Model.pairCol at hc
    by_cases h : n - 1 - 2 * k ≤ 6
    · simp only [h, if_true] at hc; omega
    · simp only [h, if_false] at hc; omega
  · rintro ⟨hr, hc, h6⟩
    by_cases h : c > 6
    · refine ⟨(n - 1 - c) / 2, by omega, hr, ?_⟩
      unfold Model.pairCol
      have : ¬ n - 1 - 2 * ((n - 1 - c) / 2) ≤ 6 := by omega
      simp only [this, if_false]; omega
    · refine ⟨(n - 2 - c) / 2, by omega, hr, ?_⟩
      unfold Model.pairCol
      have : n - 1 - 2 * ((n - 2 - c) / 2) ≤ 6 := by omega
      simp only [this, if_true]; omega

theorem trav_inBounds (n : Nat) (hodd : n % 2 = 1) (h7 : 7 ≤ n) :
    ∀ p ∈ Model.trav n, p.1 < n ∧ p.2 < n ∧ p.2 ≠ 6 := by
  intro ⟨r, c⟩ hp
  exact (mem_trav_iff n hodd h7 r c).mp hp

/-! ### no repetition -/

/-- **no cell is visited twice** (odd n) -/
theorem trav_nodup (n : Nat) (hodd : n % 2 = 1) : (Model.trav n).Nodup := by
  unfold Model.trav List.Nodup
  rw [List.pairwise_flatMap]
  constructor
  · intro k hk
    have hk : k < n / 2 := List.mem_range.mp hk
    have hcol : Model.pairCol n k ≠ Model.pairCol n k - 1 := by
      unfold Model.pairCol
      by_cases h : n - 1 - 2 * k ≤ 6
      · simp only [h, if_true]; omega
      · simp only [h, if_false]; omega
    have hrows : List.Pairwise (· ≠ ·) (if k % 2 = 0 then (List.range n).reverse else List.range n) := by
      by_cases h : k % 2 = 0
      · simp only [h, if_true, List.pairwise_reverse]
        exact (List.nodup_range (n := n)).imp fun h => h.symm
      · simp only [h, if_false]; exact List.nodup_range
    show List.Pairwise (· ≠ ·) _
    rw [List.pairwise_flatMap]
    constructor
    · intro r _
      simp only [List.pairwise_cons, List.mem_cons, List.not_mem_nil, or_false, forall_eq, ne_eq, Prod.mk.injEq,
        true_and, List.Pairwise.nil, and_true, false_imp_iff, implies_true]
      exact hcol
    · refine hrows.imp ?_
      intro r1 r2 hne x hx y hy
      simp only [List.mem_cons, List.not_mem_nil, or_false] at hx hy
      rcases hx with rfl | rfl <;> rcases hy with rfl | rfl <;> simp [hne]
  · refine (List.pairwise_lt_range (n := n / 2)).imp_of_mem ?_
    intro k1 k2 hk1 hk2 hlt x hx y hy
    have hk1 : k1 < n / 2 := List.mem_range.mp hk1
    have hk2 : k2 < n / 2 := List.mem_range.mp hk2
    have key : ∀ (k : Nat) (z : Nat × Nat),
        z ∈ ((if k % 2 = 0 then (List.range n).reverse else List.range n).flatMap fun r =>
          [(r, Model.pairCol n k), (r, Model.pairCol n k - 1)]) →
        z.2 = Model.pairCol n k ∨ z.2 = Model.pairCol n k - 1 := by
      intro k z hz
      simp only [List.mem_flatMap, List.mem_cons, List.not_mem_nil, or_false] at hz
      obtain ⟨r, _, rfl | rfl⟩ := hz
      · exact Or.inl rfl
      · exact Or.inr rfl
    have hx' := key k1 x hx
    have hy' := key k2 y hy
    intro hxy
    subst hxy
    unfold Model.pairCol at hx' hy'
    by_cases h1 : n - 1 - 2 * k1 ≤ 6 <;> by_cases h2 : n - 1 - 2 * k2 ≤ 6 <;>
      simp only [h1, h2, if_true, if_false] at hx' hy' <;> omega

/-! ### the same facts for the Spec's zig-zag (sizes n ≡ 1 mod 4, n ≥ 9; all QR sizes) -/

theorem zigzag_nodup (n : Nat) (h4 : n % 4 = 1) : (Spec.zigzag n).Nodup := by
  rw [← trav_eq_zigzag n h4]; exact trav_nodup n (by omega)

theorem mem_zigzag_iff (n : Nat) (h4 : n % 4 = 1) (h9 : 9 ≤ n) (r c : Nat) :
    (r, c) ∈ Spec.zigzag n ↔ r < n ∧ c < n ∧ c ≠ 6 := by
  rw [← trav_eq_zigzag n h4]; exact mem_trav_iff n (by omega) (by omega) r c

end QR.GeoC
