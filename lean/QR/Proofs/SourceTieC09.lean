import QR.Gen.Code
import QR.Model.Compile
/-
Translation validation for C09: the hand-written Model is PROVED equal to the expressions tools/translate.py (T2) extracts from
the Python AST of the current source on every run (lean/QR/Gen/Code.lean).  One file per property, so that a fragment that
changed (or became untranslatable) breaks the obligations of the property it belongs to and of no other.
-/
namespace QR.SourceTie
open QR QR.Model QR.Gen.Code

/-- `best_mask_pattern`: eight candidates built with `makeImpl(True, i)`, update test of the running minimum -/
theorem pick_eq (st : Nat × Nat) (i lost : Nat) :
    pickMask st i lost = if pick_update i st.1 lost then (lost, i) else st := by
  unfold pickMask pick_update
  by_cases h1 : i = 0 <;> by_cases h2 : st.1 > lost <;> simp [h1, h2]

theorem candidates : mask_candidates = 8 ∧ mask_trial_call = "self.makeImpl(True, i)" := ⟨rfl, rfl⟩


end QR.SourceTie
