import QR.Gen.Code
import QR.Model.QRObject
import QR.Proofs.SourceTieC06
/-
Translation validation, list B1: `QRCode.best_fit` as it stands in the source (statement by statement, translated by
tools/t2_fragments/frag_b.py into `QR.Gen.Code.best_fit_*`) against the hand-written `Model.bestFit` / `Model.bestFitS` and the
bit accumulation `Model.segsBits`.  `start = None` is the model's `start = 0`.
-/
namespace QR.SourceTieB
open QR QR.Model QR.Gen.Code

/-- the model's encoding of the optional `start` argument -/
def optStart (start : Nat) : Option Nat := if start = 0 then none else some start

/-- the literals the model relies on: which functions are called, on what -/
theorem bestFit_literals :
    best_fit_check_func = "util.check_version" ∧ best_fit_sizes_func = "util.mode_sizes_for_version" ∧
    best_fit_buffer_init = "util.BitBuffer()" ∧ best_fit_loop_iter = "self.data_list" ∧
    best_fit_write_call = "data.write(buffer)" ∧ best_fit_bisect_func = "bisect.bisect_left" ∧
    best_fit_bisect_table = "util.BIT_LIMIT_TABLE" ∧ best_fit_overflow_exc = "exceptions.DataOverflowError()" ∧
    best_fit_return = "self.version" := by decide

/-- the accumulation loop `buffer.put(data.mode, 4); buffer.put(len(data), mode_sizes[data.mode]); data.write(buffer)`:
    one step of `segsBits`, with both `put`s (value, width) and the looked-up key taken from the source -/
theorem segsBits_src (width : Nat → R Nat) (s : Seg) (rest : List Seg) :
    segsBits width (s :: rest) = (do
      let w ← width (best_fit_put_len_key s.mode s.data.length)
      let d ← segWrite s
      let tl ← segsBits width rest
      pure (bitsBE (best_fit_put_mode s.mode s.data.length).1 (best_fit_put_mode s.mode s.data.length).2
            ++ bitsBE (best_fit_put_len s.mode s.data.length w).1 (best_fit_put_len s.mode s.data.length w).2
            ++ d ++ tl)) := rfl

theorem segsBits_nil (width : Nat → R Nat) : segsBits width [] = .ok [] := rfl

/-- `best_fit(start)`: every statement of the source, in order -/
theorem bestFit_src (fuel start level : Nat) (segs : List Seg) :
    bestFit (fuel + 1) start level segs = (do
      let start := best_fit_start (optStart start)
      if check_version_bad (best_fit_check_arg start) then .error .valueError
      else do
        let sizes := modeSizes (best_fit_sizes_arg start)
        let buffer ← segsBits (fun m => dictGet sizes m) segs
        let row ← idx Gen.BIT_LIMIT_TABLE (best_fit_bisect_row level)
        let version := bisectLeft row (best_fit_bisect_x start buffer.length) (row.length + 1)
                          (best_fit_bisect_lo start buffer.length) row.length
        if best_fit_overflow version then .error .dataOverflow
        else do
          let stored := best_fit_store version
          checkVersion stored          -- the `version` setter
          if best_fit_refit mode_size_class start stored then bestFit fuel (best_fit_recurse_start stored) level segs
          else pure stored) := by
  have hs : best_fit_start (optStart start) = if start = 0 then 1 else start := by
    by_cases h : start = 0 <;> simp [best_fit_start, optStart, h]
  have hc : ∀ x : Nat, check_version_bad x = decide ((x : Int) < 1 ∨ (x : Int) > 40) := by
    intro x; unfold check_version_bad; simp
  rw [bestFit]
  simp only [hs, hc, best_fit_check_arg, best_fit_sizes_arg, best_fit_bisect_row, best_fit_bisect_x, best_fit_bisect_lo,
    best_fit_overflow, best_fit_store, best_fit_refit, best_fit_recurse_start, QR.SourceTie.sizeClass_eq, checkVersion,
    decide_eq_true_eq, bind, Except.bind, pure, Except.pure]
  generalize (if start = 0 then 1 else start) = st
  by_cases hv : ((st : Int) < 1 ∨ (st : Int) > 40) <;> simp only [hv, if_true, if_false]

/-- the stateful variant used by the object model performs the same steps -/
theorem bestFitS_src (fuel start : Nat) (s : QRState) :
    bestFitS (fuel + 1) start s =
      (let start := best_fit_start (optStart start)
       if check_version_bad (best_fit_check_arg start) then (s, .error .valueError)
       else
        let sizes := modeSizes (best_fit_sizes_arg start)
        match segsBits (fun m => dictGet sizes m) s.dataList with
        | .error e => (s, .error e)
        | .ok buffer =>
          match idx Gen.BIT_LIMIT_TABLE (best_fit_bisect_row s.level) with
          | .error e => (s, .error e)
          | .ok row =>
            let version := bisectLeft row (best_fit_bisect_x start buffer.length) (row.length + 1)
                              (best_fit_bisect_lo start buffer.length) row.length
            if best_fit_overflow version then (s, .error .dataOverflow)
            else
              let stored := best_fit_store version
              match checkVersion stored with
              | .error e => (s, .error e)
              | .ok _ =>
                let s := { s with version := stored }
                if best_fit_refit mode_size_class start stored then bestFitS fuel (best_fit_recurse_start stored) s
                else (s, .ok stored)) := by
  have hs : best_fit_start (optStart start) = if start = 0 then 1 else start := by
    by_cases h : start = 0 <;> simp [best_fit_start, optStart, h]
  have hc : ∀ x : Nat, check_version_bad x = decide ((x : Int) < 1 ∨ (x : Int) > 40) := by
    intro x; unfold check_version_bad; simp
  rw [bestFitS]
  simp only [hs, hc, best_fit_check_arg, best_fit_sizes_arg, best_fit_bisect_row, best_fit_bisect_x, best_fit_bisect_lo,
    best_fit_overflow, best_fit_store, best_fit_refit, best_fit_recurse_start, QR.SourceTie.sizeClass_eq, checkVersion,
    decide_eq_true_eq]
  generalize (if start = 0 then 1 else start) = st
  by_cases hv : ((st : Int) < 1 ∨ (st : Int) > 40) <;> simp only [hv, if_true, if_false] <;> rfl

end QR.SourceTieB
