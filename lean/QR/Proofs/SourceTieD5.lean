import QR.Gen.Code

/-! # Tie to the source, work package D5: the six Pillow module drawers (`moduledrawers/pil.py`)

The Model (`QR/Model/Styled.lean`) has no stamp model.  This file defines the Model-side **closed form** of what each
drawer paints for one dark module (`paints`), reads the same thing off the *translated source* (`sourcePaints`:
`initialize` -> `setup_*` -> `drawrect`, all generated from the Python AST into `QR.Gen.Code.dr_*`), and proves them equal.

Rectangles are **closed (inclusive) pixel ranges** `x0..x1 × y0..y1`, as in `ImageDraw.rectangle` and in `pixel_box`;
`paste(im, (x, y))` of a `w × h` stamp covers `x .. x+w-1`, `y .. y+h-1`. -/

namespace QR.SourceTieD5
open QR.Gen.Code

/-- closed pixel rectangle (real coordinates: the gapped drawer hands non-integers to Pillow) -/
structure RectQ where
  (x0 y0 x1 y1 : Rat)
deriving DecidableEq, Repr

/-- a rectangle with integer corners -/
def RectQ.ofInt (x0 y0 x1 y1 : Int) : RectQ := ⟨(x0 : Rat), (y0 : Rat), (x1 : Rat), (y1 : Rat)⟩

/-- the rectangle lies inside the closed pixel box (any rounding of its corners to integers between floor and ceiling stays inside) -/
def RectQ.inside (r : RectQ) (b : dr_Box) : Prop :=
  (b.1.1 : Rat) ≤ r.x0 ∧ r.x1 ≤ (b.2.1 : Rat) ∧ (b.1.2 : Rat) ≤ r.y0 ∧ r.y1 ≤ (b.2.2 : Rat)

/-- the pixel `(px, py)` is covered -/
def RectQ.covers (r : RectQ) (px py : Int) : Prop :=
  r.x0 ≤ (px : Rat) ∧ (px : Rat) ≤ r.x1 ∧ r.y0 ≤ (py : Rat) ∧ (py : Rat) ≤ r.y1

inductive Drawer where
  | square | gapped | circle | rounded | vbars | hbars
deriving DecidableEq, Repr

/-- `pixel_box` of a module whose top-left pixel is `(x, y)`: `((x, y), (x + box_size - 1, y + box_size - 1))` -/
def moduleBox (x y bs : Int) : dr_Box := ((x, y), (x + bs - 1, y + bs - 1))

/-- value of an attribute in a generated `_ints` list (the last store wins) -/
def getInt (l : List (String × Int)) (k : String) : Int :=
  ((l.reverse.find? (fun p => p.1 == k)).map (·.2)).getD 0
def getReal (l : List (String × Rat)) (k : String) : Rat :=
  ((l.reverse.find? (fun p => p.1 == k)).map (·.2)).getD 0
/-- size of an image built by a generated `_stamps` list (the last store wins) -/
def stampSize (l : List (String × (Int × Int) × String)) (k : String) : Int × Int :=
  ((l.reverse.find? (fun p => p.1 == k)).map (·.2.1)).getD (0, 0)

/-- (what is painted: the fill colour or the stamp, the pixels it covers) -/
def opPaint (stamps : List (String × (Int × Int) × String)) : dr_Op → String × RectQ
  | .rectangle _ (a, b, c, d) fill => (fill, ⟨a, b, c, d⟩)
  | .paste _ s (px, py) => (s, RectQ.ofInt px py (px + (stampSize stamps s).1 - 1) (py + (stampSize stamps s).2 - 1))

/-- **the translated source**: what the drawer paints for the module `a` in `box`, after `initialize` (and `setup_*`) ran
    with `self.img.box_size = bs` and the constructor ratio `ratio` -/
def sourcePaints (d : Drawer) (bs : Int) (ratio : Rat) (box : dr_Box) (a : dr_Active) : List (String × RectQ) :=
  match d with
  | .square => (dr_square_drawrect box a.truth).map (opPaint (dr_square_initialize_stamps bs))
  | .gapped =>
      (dr_gapped_drawrect (getReal (dr_gapped_initialize_reals bs ratio) "self.delta") box a.truth).map
        (opPaint (dr_gapped_initialize_stamps bs ratio))
  | .circle => (dr_circle_drawrect box a.truth).map (opPaint (dr_circle_initialize_stamps bs))
  | .rounded =>
      let cw := getInt (dr_rounded_initialize_ints bs) "self.corner_width"
      (dr_rounded_drawrect cw box a).map (opPaint (dr_rounded_setup_corners_stamps cw ratio))
  | .vbars =>
      let hh := getInt (dr_vbars_initialize_ints bs ratio) "self.half_height"
      let dl := getInt (dr_vbars_initialize_ints bs ratio) "self.delta"
      (dr_vbars_drawrect hh dl box a).map (opPaint (dr_vbars_setup_edges_stamps hh ratio))
  | .hbars =>
      let hw := getInt (dr_hbars_initialize_ints bs ratio) "self.half_width"
      let dl := getInt (dr_hbars_initialize_ints bs ratio) "self.delta"
      (dr_hbars_drawrect hw dl box a).map (opPaint (dr_hbars_setup_edges_stamps hw ratio))

/-- Python `int()` of a real: truncation toward zero (same as `Model.truncInt`) -/
def truncQ (q : Rat) : Int := if q ≥ 0 then q.floor else -((-q).floor)

/-- **Model-side closed form**: the painted rectangles of one module with top-left pixel `(x, y)`, box size `bs`:
    * square: the whole box; circle: a `bs × bs` stamp at the origin of the box;
    * gapped: the box shrunk by `δ = (1 - ratio)·bs/2` on every side (real coordinates);
    * rounded: four `c × c` corner stamps, `c = bs / 2` (floor), in the order NW, NE, SE, SW; a corner is round iff both
      adjacent neighbours are light;
    * vertical bars: two `w × h` stamps, `h = bs / 2`, `w = int(2h·ratio)`, shifted right by `int((1 - ratio)·h)`;
      horizontal bars: the transpose.
    A light module paints nothing. -/
def paints (d : Drawer) (bs : Int) (ratio : Rat) (x y : Int) (a : dr_Active) : List (String × RectQ) :=
  if !a.me then [] else
  match d with
  | .square => [("self.img.paint_color", RectQ.ofInt x y (x + bs - 1) (y + bs - 1))]
  | .circle => [("self.circle", RectQ.ofInt x y (x + bs - 1) (y + bs - 1))]
  | .gapped =>
      let δ : Rat := (1 - ratio) * (bs : Rat) / 2
      [("self.img.paint_color", ⟨(x : Rat) + δ, (y : Rat) + δ, ((x + bs - 1 : Int) : Rat) - δ, ((y + bs - 1 : Int) : Rat) - δ⟩)]
  | .rounded =>
      let c := bs / 2
      [(if !a.W && !a.N then "self.NW_ROUND" else "self.SQUARE", RectQ.ofInt x y (x + c - 1) (y + c - 1)),
       (if !a.N && !a.E then "self.NE_ROUND" else "self.SQUARE", RectQ.ofInt (x + c) y (x + c + c - 1) (y + c - 1)),
       (if !a.E && !a.S then "self.SE_ROUND" else "self.SQUARE", RectQ.ofInt (x + c) (y + c) (x + c + c - 1) (y + c + c - 1)),
       (if !a.S && !a.W then "self.SW_ROUND" else "self.SQUARE", RectQ.ofInt x (y + c) (x + c - 1) (y + c + c - 1))]
  | .vbars =>
      let h := bs / 2
      let dl := truncQ ((1 - ratio) * (h : Rat))
      let w := truncQ (((h * 2 : Int) : Rat) * ratio)
      [(if !a.N then "self.ROUND_TOP" else "self.SQUARE", RectQ.ofInt (x + dl) y (x + dl + w - 1) (y + h - 1)),
       (if !a.S then "self.ROUND_BOTTOM" else "self.SQUARE", RectQ.ofInt (x + dl) (y + h) (x + dl + w - 1) (y + h + h - 1))]
  | .hbars =>
      let w := bs / 2
      let dl := truncQ ((1 - ratio) * (w : Rat))
      let h := truncQ (((w * 2 : Int) : Rat) * ratio)
      [(if !a.W then "self.ROUND_LEFT" else "self.SQUARE", RectQ.ofInt x (y + dl) (x + w - 1) (y + dl + h - 1)),
       (if !a.E then "self.ROUND_RIGHT" else "self.SQUARE", RectQ.ofInt (x + w) (y + dl) (x + w + w - 1) (y + dl + h - 1))]

theorem dr_pyInt_eq (q : Rat) : dr_pyInt q = truncQ q := rfl

private theorem tdiv2 (bs : Int) (h : 0 ≤ bs) : Int.tdiv bs 2 = bs / 2 := by
  rw [Int.tdiv_eq_ediv_of_nonneg h]

/-- **bridge**: for every drawer, every box size `≥ 0` (the library checks `box_size > 0`), every ratio, position and
    neighbourhood, the translated source (`initialize`, `setup_*`, `drawrect` of `moduledrawers/pil.py`) paints exactly
    the rectangles of the closed form `paints`.  (`0 ≤ bs`: `int(box_size / 2)` truncates toward zero, `bs / 2` is the floor.) -/
theorem paints_src (d : Drawer) (bs : Int) (hbs : 0 ≤ bs) (ratio : Rat) (x y : Int) (a : dr_Active) :
    sourcePaints d bs ratio (moduleBox x y bs) a = paints d bs ratio x y a := by
  obtain ⟨NW, N, NE, W, me, E, SW, S, SE⟩ := a
  have h2 := tdiv2 bs hbs
  cases d <;> cases me <;> cases N <;> cases W <;> cases E <;> cases S <;>
    simp [sourcePaints, paints, moduleBox, dr_Active.truth, opPaint, stampSize, getInt, getReal, RectQ.ofInt,
      dr_square_drawrect, dr_square_initialize_stamps,
      dr_gapped_drawrect, dr_gapped_initialize_reals, dr_gapped_initialize_stamps,
      dr_circle_drawrect, dr_circle_initialize_stamps,
      dr_rounded_drawrect, dr_rounded_initialize_ints, dr_rounded_setup_corners_stamps,
      dr_vbars_drawrect, dr_vbars_initialize_ints, dr_vbars_setup_edges_stamps,
      dr_hbars_drawrect, dr_hbars_initialize_ints, dr_hbars_setup_edges_stamps, dr_pyInt_eq, h2]


end QR.SourceTieD5
