import QR.Proofs.SegShape
import QR.Proofs.SegMark
/-
C10 (segmentation), part 4: clause `runsCarried` - long digit runs are carried numerically, long alphanumeric
runs outside them alphanumerically.
-/
namespace QR.Seg
open QR QR.Model

/-! ### generic zip / flatMap helpers -/

theorem zip_flatMap_all {α β γ} {P : α × β → Bool} {F : γ → List α} {G : γ → List β} : ∀ (cs : List γ),
    (∀ x ∈ cs, (F x).length = (G x).length ∧ ((F x).zip (G x)).all P = true) →
    ((cs.flatMap F).zip (cs.flatMap G)).all P = true
  | [], _ => by simp
  | x :: cs, h => by
    have hx := h x List.mem_cons_self
    have ih := zip_flatMap_all cs (fun y hy => h y (List.mem_cons_of_mem _ hy))
    simp only [List.flatMap_cons]
    rw [List.zip_append hx.1, List.all_append, hx.2, ih]; rfl

theorem zip_all_left {α β} {P : α × β → Bool} {l : List α} {m : List β} (h : ∀ a ∈ l, ∀ b, P (a, b) = true) :
    (l.zip m).all P = true := by
  rw [List.all_eq_true]
  rintro ⟨a, b⟩ hab
  exact h a (List.of_mem_zip hab).1 b

theorem zip_all_right {α β} {P : α × β → Bool} {l : List α} {m : List β} (h : ∀ b ∈ m, ∀ a, P (a, b) = true) :
    (l.zip m).all P = true := by
  rw [List.all_eq_true]
  rintro ⟨a, b⟩ hab
  exact h b (List.of_mem_zip hab).2 a

theorem zip_replicate_map {α β γ} (g : α × β → γ) (b : β) : ∀ (l : List α),
    (l.zip (List.replicate l.length b)).map g = l.map (fun c => g (c, b))
  | [] => rfl
  | a :: l => by simp [List.replicate_succ, zip_replicate_map g b l]

theorem zip_flags_map {γ} (g : Nat × Bool → γ) : ∀ (cs : List (Bool × List Nat)),
    ((cs.flatMap (·.2)).zip (flagsOf cs)).map g = cs.flatMap (fun x => x.2.map (fun c => g (c, x.1)))
  | [] => rfl
  | x :: cs => by
    have ih := zip_flags_map g cs
    simp only [flagsOf] at ih ⊢
    simp only [List.flatMap_cons]
    rw [List.zip_append (by simp), List.map_append, ih, zip_replicate_map]

theorem length_flatMap_replicate {β} (f : Bool × List Nat → β) : ∀ (cs : List (Bool × List Nat)),
    (cs.flatMap fun y => List.replicate y.2.length (f y)).length = (cs.flatMap (·.2)).length
  | [] => rfl
  | x :: cs => by simp [length_flatMap_replicate f cs]

theorem count_true_lt_of_mem_false : ∀ {l : List Bool}, false ∈ l → l.count true < l.length
  | [], h => by simp at h
  | b :: l, h => by
    cases b with
    | false => simp only [List.length_cons]; have := List.count_le_length (a := true) (l := l); simp; omega
    | true =>
      have := count_true_lt_of_mem_false (l := l) (by simpa using h)
      simp only [List.count_cons_self, List.length_cons]; omega

/-- a list no longer than `n` containing a `false` has no marked position -/
theorem ML_short {n : Nat} {l : List Bool} (hl : l.length ≤ n) (hf : false ∈ l) :
    ML n l = List.replicate l.length false :=
  ML_eq_false (by have := count_true_lt_of_mem_false hf; omega)

/-! ### positions' modes -/

/-- the mode of each position, computed from the chunk lists -/
def modesOf (cs : List (Bool × List Nat)) (inner : List Nat → List (Bool × List Nat)) : List Spec.Mode :=
  cs.flatMap fun x =>
    if x.1 then List.replicate x.2.length Spec.Mode.numeric
    else (inner x.2).flatMap fun y => List.replicate y.2.length (if y.1 then Spec.Mode.alnum else Spec.Mode.byte)

theorem posModes_segsOf (cs : List (Bool × List Nat)) (inner : List Nat → List (Bool × List Nat)) :
    Spec.posModes ((segsOf cs inner).map conv) = modesOf cs inner := by
  simp only [Spec.posModes, segsOf, modesOf, List.flatMap_map, List.flatMap_assoc]
  congr 1
  funext x
  by_cases hx : x.1 = true
  · simp [hx, conv, modeOf]
  · simp only [hx, if_false, Bool.false_eq_true, List.flatMap_map]
    congr 1
    funext y
    by_cases hy : y.1 = true <;> simp [hy, conv, modeOf]

/-! ### the un-anchored case -/

/-- the alphanumeric candidate positions, computed from the digit chunk list -/
def marksOf (cs : List (Bool × List Nat)) : List Bool :=
  cs.flatMap fun x => x.2.map fun c => isAlnum c && !x.1

theorem marksOf_cons_true (c : List Nat) (rest : List (Bool × List Nat)) :
    marksOf ((true, c) :: rest) = List.replicate c.length false ++ marksOf rest := by
  simp only [marksOf, List.flatMap_cons, Bool.not_true, Bool.and_false]
  congr 1
  exact map_eq_replicate (p := fun _ => false) (fun _ _ => rfl)

theorem marksOf_cons_false (c : List Nat) (rest : List (Bool × List Nat)) :
    marksOf ((false, c) :: rest) = c.map isAlnum ++ marksOf rest := by
  simp only [marksOf, List.flatMap_cons, Bool.not_false, Bool.and_true]

theorem ML_marksOf {n : Nat} : ∀ (cs : List (Bool × List Nat)), Alt cs →
    ML n (marksOf cs) = cs.flatMap fun x =>
      if x.1 then List.replicate x.2.length false else flagsOf (splitRuns isAlnum n x.2.length x.2)
  | [], _ => rfl
  | (true, c) :: rest, h => by
    rw [marksOf_cons_true, ML_false_append, ML_marksOf rest h.2]
    simp
  | (false, c) :: rest, h => by
    have hB : StartsFalse (marksOf rest) := by
      rcases h.1 rfl with h | ⟨c', r, h, hc'⟩
      · subst h; left; rfl
      · subst h
        right
        cases c' with
        | nil => exact absurd rfl hc'
        | cons a t =>
          rw [marksOf_cons_true]
          refine ⟨List.replicate t.length false ++ marksOf r, ?_⟩
          simp [List.replicate_succ]
    rw [marksOf_cons_false, splitRuns_ML _ _ _ (Nat.le_refl _) hB, ML_marksOf rest h.2]
    simp

theorem longDigit_eq_ML (n : Nat) (d : List Nat) : Spec.longDigit n d = ML n (d.map isDigit) := by
  simp only [Spec.longDigit, isDigitChar_eq]
  exact markLong_eq_ML (by simp)

theorem longAlnum_eq_ML (n : Nat) (d : List Nat) :
    Spec.longAlnum n d = ML n ((d.zip (Spec.longDigit n d)).map fun x => isAlnum x.1 && !x.2) := by
  simp only [Spec.longAlnum, isAlnumChar_eq]
  exact markLong_eq_ML (by simp only [List.length_map, List.length_zip]; omega)

theorem longDigit_splitRuns (n : Nat) (d : List Nat) :
    Spec.longDigit n d = flagsOf (splitRuns isDigit n d.length d) := by
  rw [longDigit_eq_ML]
  have := splitRuns_ML (p := isDigit) (n := n) d.length d [] (Nat.le_refl _) (Or.inl rfl)
  simpa [ML_nil] using this

theorem longAlnum_splitRuns (n : Nat) (d : List Nat) :
    Spec.longAlnum n d = (splitRuns isDigit n d.length d).flatMap fun x =>
      if x.1 then List.replicate x.2.length false else flagsOf (splitRuns isAlnum n x.2.length x.2) := by
  rw [longAlnum_eq_ML, longDigit_splitRuns]
  have hcat : (splitRuns isDigit n d.length d).flatMap (·.2) = d := (splitRuns_ok (p := isDigit) (n := n) d.length d).1
  have := zip_flags_map (fun x : Nat × Bool => isAlnum x.1 && !x.2) (splitRuns isDigit n d.length d)
  rw [hcat] at this
  rw [this]
  exact ML_marksOf _ (splitRuns_alt _ _)

/-- the two `runsCarried` conjuncts -/
def Carried (n : Nat) (d : List Nat) (pm : List Spec.Mode) : Prop :=
  ((Spec.longDigit n d).zip pm).all (fun (ld, m) => !ld || m == .numeric) = true ∧
  ((Spec.longAlnum n d).zip pm).all (fun (la, m) => !la || m == .alnum) = true

theorem carried_unanchored (n : Nat) (d : List Nat) :
    Carried n d (modesOf (splitRuns isDigit n d.length d) fun c => splitRuns isAlnum n c.length c) := by
  have hinner : ∀ c : List Nat, ((splitRuns isAlnum n c.length c).flatMap fun y =>
      List.replicate y.2.length (if y.1 then Spec.Mode.alnum else Spec.Mode.byte)).length = c.length := by
    intro c
    rw [length_flatMap_replicate, (splitRuns_ok (p := isAlnum) (n := n) c.length c).1]
  constructor
  · rw [longDigit_splitRuns]
    unfold flagsOf modesOf
    apply zip_flatMap_all
    intro x _
    by_cases hx : x.1 = true
    · simp only [hx, if_true, List.length_replicate, true_and]
      exact zip_all_right (fun b hb a => by rw [(List.mem_replicate.mp hb).2]; simp)
    · simp only [hx, if_false, Bool.false_eq_true, List.length_replicate, hinner, true_and]
      exact zip_all_left (fun a ha b => by rw [(List.mem_replicate.mp ha).2]; simp)
  · rw [longAlnum_splitRuns]
    unfold modesOf
    apply zip_flatMap_all
    intro x _
    by_cases hx : x.1 = true
    · simp only [hx, if_true, List.length_replicate, true_and]
      exact zip_all_left (fun a ha b => by rw [(List.mem_replicate.mp ha).2]; simp)
    · simp only [hx, if_false, Bool.false_eq_true]
      constructor
      · rw [hinner, flagsOf, length_flatMap_replicate, (splitRuns_ok (p := isAlnum) (n := n) x.2.length x.2).1]
      · unfold flagsOf
        apply zip_flatMap_all
        intro y _
        simp only [List.length_replicate, true_and]
        by_cases hy : y.1 = true
        · exact zip_all_right (fun b hb a => by rw [(List.mem_replicate.mp hb).2]; simp [hy])
        · exact zip_all_left (fun a ha b => by rw [(List.mem_replicate.mp ha).2]; simp [hy])

/-! ### the anchored case -/

theorem takeWhile_all {p : Nat → Bool} : ∀ {d : List Nat}, (∀ c ∈ d, p c = true) → d.takeWhile p = d ∧ d.dropWhile p = []
  | [], _ => ⟨rfl, rfl⟩
  | a :: d, h => by
    have ha := h a List.mem_cons_self
    have ih := takeWhile_all (d := d) (fun c hc => h c (List.mem_cons_of_mem _ hc))
    simp [ha, ih]

theorem splitAnchored_all {p : Nat → Bool} {d : List Nat} (hd : d ≠ []) (h : ∀ c ∈ d, p c = true) :
    splitAnchored p d = [(true, d)] := by
  simp [splitAnchored, takeWhile_all h, hd]

theorem dropWhile_ne_nil {p : Nat → Bool} : ∀ {d : List Nat}, (∃ c ∈ d, p c = false) → d.dropWhile p ≠ []
  | [], h => by simp at h
  | a :: d, h => by
    rw [List.dropWhile_cons]
    split
    · rename_i ha
      apply dropWhile_ne_nil
      obtain ⟨c, hc, hpc⟩ := h
      rcases List.mem_cons.mp hc with rfl | hc
      · rw [ha] at hpc; cases hpc
      · exact ⟨c, hc, hpc⟩
    · simp

theorem mem_dropWhile {p : Nat → Bool} {x : Nat} {d : List Nat} (h : x ∈ d.dropWhile p) : x ∈ d := by
  rw [← List.takeWhile_append_dropWhile (p := p) (l := d)]
  exact List.mem_append_right _ h

theorem splitAnchored_none {p : Nat → Bool} {d : List Nat} (h : ∃ c ∈ d, p c = false) (h10 : 10 ∉ d) :
    splitAnchored p d = [(false, d)] := by
  have hd : d ≠ [] := by obtain ⟨c, hc, _⟩ := h; exact List.ne_nil_of_mem hc
  have h1 := dropWhile_ne_nil h
  have h2 : d.dropWhile p ≠ [10] := by
    intro he
    exact h10 (mem_dropWhile (p := p) (by rw [he]; simp))
  simp [splitAnchored, h1, h2, hd]

theorem exists_false_of_not_all {p : Nat → Bool} {d : List Nat} (h : ¬ ∀ c ∈ d, p c = true) :
    ∃ c ∈ d, p c = false := by
  apply Classical.byContradiction
  intro hne
  apply h
  intro c hc
  cases hp : p c with
  | true => rfl
  | false => exact absurd ⟨c, hc, hp⟩ hne

theorem carried_anchored (n : Nat) (d : List Nat) (hn : 1 ≤ n) (hd : d.length ≤ n) :
    Carried n d (modesOf (splitAnchored isDigit d) (splitAnchored isAlnum)) := by
  by_cases hnil : d = []
  · subst hnil
    simp [Carried, splitAnchored, modesOf]
  by_cases hdig : ∀ c ∈ d, isDigit c = true
  · -- all digits: one numeric segment
    rw [splitAnchored_all hnil hdig]
    have hpm : modesOf [(true, d)] (splitAnchored isAlnum) = List.replicate d.length Spec.Mode.numeric := by
      simp [modesOf]
    rw [hpm]
    constructor
    · exact zip_all_right (fun b hb a => by rw [(List.mem_replicate.mp hb).2]; simp)
    · -- no alphanumeric position is marked
      have hld : Spec.longDigit n d = List.replicate d.length (decide (n ≤ d.length)) := by
        rw [longDigit_eq_ML, map_eq_replicate hdig]
        obtain ⟨k, hk⟩ : ∃ k, d.length = k + 1 := ⟨d.length - 1, by have := List.length_pos_iff.mpr hnil; omega⟩
        have := ML_true_append n k [] (Or.inl rfl)
        simpa [hk, ML_nil] using this
      have hla : Spec.longAlnum n d = List.replicate d.length false := by
        rw [longAlnum_eq_ML, hld, zip_replicate_map]
        have hcount : (d.map fun c => isAlnum c && !decide (n ≤ d.length)).count true < n := by
          by_cases hge : n ≤ d.length
          · have : (d.map fun c => isAlnum c && !decide (n ≤ d.length)) = List.replicate d.length false :=
              map_eq_replicate (fun c _ => by simp [hge])
            rw [this, List.count_replicate]; simp; omega
          · have := List.count_le_length (a := true) (l := d.map fun c => isAlnum c && !decide (n ≤ d.length))
            simp only [List.length_map] at this
            omega
        have := ML_eq_false hcount
        simpa using this
      rw [hla]
      exact zip_all_left (fun a ha b => by rw [(List.mem_replicate.mp ha).2]; simp)
  · -- some non-digit: no digit position is marked
    have hdig' : ∃ c ∈ d, isDigit c = false := exists_false_of_not_all hdig
    have hld : Spec.longDigit n d = List.replicate d.length false := by
      rw [longDigit_eq_ML]
      have := ML_short (n := n) (l := d.map isDigit) (by simpa using hd)
        (by obtain ⟨c, hc, h⟩ := hdig'; exact List.mem_map.mpr ⟨c, hc, h⟩)
      simpa using this
    constructor
    · rw [hld]
      exact zip_all_left (fun a ha b => by rw [(List.mem_replicate.mp ha).2]; simp)
    · have hmarks : Spec.longAlnum n d = ML n (d.map isAlnum) := by
        rw [longAlnum_eq_ML, hld, zip_replicate_map]; simp
      by_cases hal : ∀ c ∈ d, isAlnum c = true
      · have h10 : 10 ∉ d := fun h => by have := hal 10 h; rw [isAlnum_10] at this; cases this
        rw [splitAnchored_none hdig' h10]
        have hpm : modesOf [(false, d)] (splitAnchored isAlnum) = List.replicate d.length Spec.Mode.alnum := by
          simp [modesOf, splitAnchored_all hnil hal]
        rw [hpm]
        exact zip_all_right (fun b hb a => by rw [(List.mem_replicate.mp hb).2]; simp)
      · have hal' : ∃ c ∈ d, isAlnum c = false := exists_false_of_not_all hal
        have hla : Spec.longAlnum n d = List.replicate d.length false := by
          rw [hmarks]
          have := ML_short (n := n) (l := d.map isAlnum) (by simpa using hd)
            (by obtain ⟨c, hc, h⟩ := hal'; exact List.mem_map.mpr ⟨c, hc, h⟩)
          simpa using this
        rw [hla]
        exact zip_all_left (fun a ha b => by rw [(List.mem_replicate.mp ha).2]; simp)

/-! ### clause 5 -/

theorem conv_runsCarried (d : List Nat) (n : Nat) :
    (Spec.segmentation n d ((addData d n).map conv)).runsCarried = true := by
  simp only [Spec.segmentation]
  by_cases hn : n = 0
  · simp [hn]
  · have hc : Carried n d (Spec.posModes ((addData d n).map conv)) := by
      simp only [addData, ne_eq, hn, not_false_eq_true, if_true]
      rw [optimalDataChunks_eq, posModes_segsOf]
      by_cases hd : d.length ≤ n
      · simp only [splitBy, hd, if_true]
        have : splitBy (d.length ≤ n) n isAlnum = splitAnchored isAlnum := by
          funext c; simp [splitBy, hd]
        rw [this]
        exact carried_anchored n d (by omega) hd
      · simp only [splitBy, hd, if_false]
        have : splitBy (d.length ≤ n) n isAlnum = fun c => splitRuns isAlnum n c.length c := by
          funext c; simp [splitBy, hd]
        rw [this]
        exact carried_unanchored n d
    obtain ⟨h1, h2⟩ := hc
    rw [h1, h2]; simp

end QR.Seg
