import QR.Gen.Code
import QR.Model.Styled
import QR.Proofs.Styled
/-
Source tie, list C item 4: qrcode/image/styles/colormasks.py.
The `cm_*` definitions of QR.Gen.Code are translated from the Python AST on every run (tools/t2_fragments/frag_c4.py);
here the hand-written model QR/Model/Styled.lean is proved equal to them.

Number representation.  Model/Styled.lean: "Python's float arithmetic is replaced by rationals: on exact pixels the floats
are exactly 0.0 / 1.0."  The translation makes the same reading: every float operation is the exact operation on `Rat`.
-/
namespace QR.SourceTieT
open QR QR.Model QR.Gen

/-! ### `int()`, `extrap_num`, `interp_num` -/

/-- the translator's reading of Python `int()` on a float is the Model's `truncInt` -/
theorem truncInt_src (q : Rat) : truncInt q = Code.cm_py_int q := rfl

/-- independent description of that reading: `int(q)` is the T-division (rounding toward zero) of numerator by denominator -/
theorem truncIntTdiv_src (q : Rat) : Code.cm_py_int q = q.num.tdiv q.den := by
  unfold Code.cm_py_int
  by_cases h : q ≥ 0
  · rw [if_pos h, Rat.floor_def, Int.tdiv_eq_ediv_of_nonneg (Rat.num_nonneg.mpr h)]
  · rw [if_neg h, Rat.floor_def, Rat.neg_num, Rat.neg_den]
    have hn : 0 ≤ -q.num := by
      have : ¬ 0 ≤ q.num := fun h' => h (Rat.num_nonneg.mp h')
      omega
    rw [← Int.tdiv_eq_ediv_of_nonneg hn, Int.neg_tdiv, Int.neg_neg]

/-- `extrap_num`: `None` when the two numbers coincide, else the quotient (the Model inlines this in `extrapColor`) -/
theorem extrapNum_src (n1 n2 v : Int) :
    Code.cm_extrap_num n1 n2 v = if n2 = n1 then none else some ((v - n1 : Int) / (n2 - n1 : Int) : Rat) := by
  unfold Code.cm_extrap_num
  by_cases h : n2 = n1 <;> simp [h]

/-- `interp_num` is one channel of the Model's `interpColor` -/
theorem interpNum_src (n1 n2 : Int) (norm : Rat) :
    truncInt (n2 * norm + n1 * (1 - norm)) = Code.cm_interp_num n1 n2 norm := rfl

/-! ### `extrap_color` -/

private theorem zip3_fold_eq (acc : List Rat) (c1 c2 ci : Colour) :
    Code.cm_zip3_foldl Code.cm_extrap_color_step acc c1 c2 ci = acc ++ extrapColor c1 c2 ci := by
  induction c1 generalizing acc c2 ci with
  | nil => simp [Code.cm_zip3_foldl, extrapColor]
  | cons a t1 ih =>
    cases c2 with
    | nil => simp [Code.cm_zip3_foldl, extrapColor]
    | cons b t2 =>
      cases ci with
      | nil => simp [Code.cm_zip3_foldl, extrapColor]
      | cons c ti =>
        simp only [Code.cm_zip3_foldl, extrapColor, ih, Code.cm_extrap_color_step, extrapNum_src]
        by_cases h : b = a <;> simp [h]

/-- the list of coefficients collected by the loop of `extrap_color` is the Model's `extrapColor`, for all (also ragged)
    arguments: Python's `zip` and the Model's pattern match both stop at the shortest colour -/
theorem extrapColor_src (c1 c2 ci : Colour) :
    extrapColor c1 c2 ci = Code.cm_zip3_foldl Code.cm_extrap_color_step Code.cm_extrap_color_init c1 c2 ci := by
  rw [zip3_fold_eq]; rfl

/-- the result computation of `extrap_color` (`if not normed: return None` / `sum(normed) / len(normed)`) -/
theorem mean_src (l : List Rat) : mean l = Code.cm_extrap_color_result l := by
  unfold mean Code.cm_extrap_color_result
  rw [Rat.intCast_natCast]

/-- **`extrap_color` complete** -/
theorem extrapColorMean_src (c1 c2 ci : Colour) :
    mean (extrapColor c1 c2 ci) = Code.cm_extrap_color c1 c2 ci := by
  rw [mean_src, extrapColor_src]; rfl

/-! ### `interp_color` -/

private theorem range_map_succ (n : Nat) (f : Nat → Int) :
    (List.range' 0 (n + 1)).map f = f 0 :: (List.range' 0 n).map (fun i => f (i + 1)) := by
  rw [List.range'_succ, List.map_cons]
  congr 1
  have e : List.range' (0 + 1) n = (List.range' 0 n).map (fun x => 1 + x) := by
    rw [List.map_add_range']
  rw [e, List.map_map]
  apply List.map_congr_left
  intro i _
  simp [Nat.add_comm]

/-- **`interp_color`**, for every `col2` that has a channel for every channel of `col1` (otherwise Python raises
    IndexError at `col2[i]`) -/
theorem interpColor_src (c1 c2 : Colour) (norm : Rat) (h : c1.length ≤ c2.length) :
    interpColor c1 c2 norm = Code.cm_interp_color c1 c2 norm := by
  unfold Code.cm_interp_color Code.cm_range
  induction c1 generalizing c2 with
  | nil => cases c2 <;> rfl
  | cons a t1 ih =>
    cases c2 with
    | nil => simp at h
    | cons b t2 =>
      have := ih t2 (by simpa using h)
      simp only [Nat.sub_zero] at this ⊢
      rw [List.length_cons, range_map_succ]
      simp only [interpColor, List.getElem!_cons_zero, List.getElem!_cons_succ, this]
      rfl

/-! ### `get_bg_pixel`, `QRColorMask.apply_mask` -/

theorem getBgPixel_src (back : Colour) (x y : Nat) : Code.cm_get_bg_pixel back x y = back := rfl

/-- **the loop body of `QRColorMask.apply_mask`**: it reads pixel (x, y) and writes, at (x, y), the Model's `applyMaskPixel`
    of what it read (`fg x y` stands for `self.get_fg_pixel(image, x, y)`; the hypothesis is the one of `interp_color`) -/
theorem applyMaskPixel_src (back paint : Colour) (fg : Nat → Nat → Colour) (image : Nat → Nat → Colour) (x y : Nat)
    (h : back.length ≤ (fg x y).length) :
    Code.cm_apply_mask_body back paint fg image x y
      = Code.cm_putpixel image (x, y) (applyMaskPixel back paint (fg x y) (image x y)) := by
  unfold Code.cm_apply_mask_body applyMaskPixel
  rw [extrapColorMean_src]
  simp only [Code.cm_getpixel, Code.cm_get_bg_pixel]
  cases hh : Code.cm_extrap_color back paint (image x y) with
  | none => rfl
  | some norm => simp only [interpColor_src back (fg x y) norm h]

private theorem inner_fold (G : Nat → Nat → Colour → Colour) (x n : Nat) (im : Nat → Nat → Colour) :
    ∀ a b, ((List.range' 0 n).foldl (fun image y => Code.cm_putpixel image (x, y) (G x y (image x y))) im) a b
      = if a = x ∧ b < n then G x b (im a b) else im a b := by
  induction n with
  | zero => intro a b; simp
  | succ n ih =>
    intro a b
    rw [List.range'_1_concat, List.foldl_append, List.foldl_cons, List.foldl_nil]
    simp only [Code.cm_putpixel, Nat.zero_add, ih]
    by_cases h1 : a = x
    · by_cases h2 : b = n
      · subst h1; subst h2; simp
      · have : (b < n + 1) = (b < n) := by apply propext; omega
        simp [h1, h2, this]
    · simp [h1]

private theorem outer_fold (G : Nat → Nat → Colour → Colour) (w h : Nat) (im : Nat → Nat → Colour) :
    ∀ a b, ((List.range' 0 w).foldl (fun image x =>
        (List.range' 0 h).foldl (fun image y => Code.cm_putpixel image (x, y) (G x y (image x y))) image) im) a b
      = if a < w ∧ b < h then G a b (im a b) else im a b := by
  induction w with
  | zero => intro a b; simp
  | succ w ih =>
    intro a b
    rw [List.range'_1_concat, List.foldl_append, List.foldl_cons, List.foldl_nil]
    simp only [Nat.zero_add, inner_fold, ih]
    by_cases h1 : a = w
    · subst h1; simp
    · have : (a < w + 1) = (a < w) := by apply propext; omega
      simp [h1, this]

/-- **`QRColorMask.apply_mask`, the whole loop nest** (`for x in range(width): for y in range(height): ...` on an image
    seen as a function of x and y): every pixel inside `width × height` is replaced by the Model's `applyMaskPixel` of
    its *original* value, every other pixel is untouched.  `fg x y` is `get_fg_pixel(image, x, y)` (for all masks of
    colormasks.py it does not depend on the pixels of `image`). -/
theorem applyMask_src (back paint : Colour) (fg : Nat → Nat → Colour) (width height : Nat) (image : Nat → Nat → Colour)
    (hfg : ∀ x y, back.length ≤ (fg x y).length) (a b : Nat) :
    Code.cm_apply_mask back paint fg width height image a b
      = if a < width ∧ b < height then applyMaskPixel back paint (fg a b) (image a b) else image a b := by
  have e : ∀ image x y, Code.cm_apply_mask_body back paint fg image x y
      = Code.cm_putpixel image (x, y) ((fun x y pix => applyMaskPixel back paint (fg x y) pix) x y (image x y)) :=
    fun image x y => applyMaskPixel_src back paint fg image x y (hfg x y)
  unfold Code.cm_apply_mask Code.cm_range
  simp only [e, Nat.sub_zero]
  exact outer_fold (fun x y pix => applyMaskPixel back paint (fg x y) pix) width height image a b

/-! ### `SolidFillColorMask.apply_mask` -/

/-- the branch structure: nothing happens iff back = (255, 255, 255) and front = (0, 0, 0); otherwise the base class's loop
    runs with the constant foreground `front_color` -/
theorem solidApplyMask_src (back front paint : Colour) (w h : Nat) (image : Nat → Nat → Colour) :
    Code.cm_solid_apply_mask back front paint w h image
      = if back = [255, 255, 255] ∧ front = [0, 0, 0] then image
        else Code.cm_apply_mask back paint (fun _ _ => front) w h image := by
  unfold Code.cm_solid_apply_mask Code.cm_solid_fast_path
  by_cases h1 : back = [255, 255, 255] <;> by_cases h2 : front = [0, 0, 0] <;> simp [h1, h2] <;> rfl

/-- on a grey pixel (v, v, v) the black-on-white mask changes nothing (exact arithmetic) -/
theorem solid_grey_pixel (v : Int) : applyMaskPixel [255, 255, 255] [0, 0, 0] [0, 0, 0] [v, v, v] = [v, v, v] := by
  have hq : ∀ q : Rat, (q + (q + (q + 0))) / ((3 : Nat) : Rat) = q := by
    intro q
    have : ((3 : Nat) : Rat) = 3 := rfl
    rw [this]; grind
  have hv : ((0 : Int) : Rat) * (((v - 255 : Int) : Rat) / ((0 - 255 : Int) : Rat))
      + ((255 : Int) : Rat) * (1 - ((v - 255 : Int) : Rat) / ((0 - 255 : Int) : Rat)) = (v : Rat) := by
    have e1 : ((v - 255 : Int) : Rat) = (v : Rat) - 255 := by rw [Rat.intCast_sub]; rfl
    have e2 : ((0 - 255 : Int) : Rat) = -255 := rfl
    have e3 : ((255 : Int) : Rat) = 255 := rfl
    have e4 : ((0 : Int) : Rat) = 0 := rfl
    rw [e1, e2, e3, e4]; grind
  have hne : ¬ ((0 : Int) = 255) := by decide
  simp only [applyMaskPixel, extrapColor, hne, if_false, mean, List.isEmpty_cons, Bool.false_eq_true, List.sum_cons,
    List.sum_nil, List.length_cons, List.length_nil, hq, interpColor, hv, Proofs.Styled.truncInt_intCast]

/-- **the fast path is sound on grey images** (what the drawers produce: black, white, and antialiasing greys): when
    the fast-path condition holds and the paint colour is black, skipping the loop (`pass`) gives the same image as
    running the base class's loop - in exact arithmetic -/
theorem solidFastPath_src (back front paint : Colour) (w h : Nat) (image : Nat → Nat → Colour)
    (hc : Code.cm_solid_fast_path back front = true) (hp : paint = [0, 0, 0])
    (hg : ∀ a b, ∃ v, image a b = [v, v, v]) :
    Code.cm_solid_apply_mask back front paint w h image
      = Code.cm_apply_mask back paint (Code.cm_solid_get_fg_pixel front) w h image := by
  unfold Code.cm_solid_fast_path at hc
  simp only [Bool.and_eq_true, decide_eq_true_eq] at hc
  obtain ⟨hb, hf⟩ := hc
  subst hb; subst hf; subst hp
  rw [solidApplyMask_src, if_pos ⟨rfl, rfl⟩]
  funext a b
  rw [applyMask_src [255, 255, 255] [0, 0, 0] (Code.cm_solid_get_fg_pixel [0, 0, 0]) w h image
    (fun _ _ => Nat.le_refl 3)]
  obtain ⟨v, hv⟩ := hg a b
  split
  · rw [hv]; exact (solid_grey_pixel v).symm
  · rfl

/-! ### the gradient masks' `get_fg_pixel`

The Model has no definitions for the four normalisation expressions: its theorems (`C14_fg_range`, `C14_gradient_dark`)
take the interpolation parameter `t` with the hypotheses `0 ≤ t`, `t ≤ 1`.  Proved here: the foreground pixel is the
Model's `interpColor` at the translated normalisation expression, and that expression satisfies those hypotheses for
every pixel of a square image (`0 ≤ x, y < width`; `image.size[1]` is not used by the Python code). -/

private theorem div_nonneg' (a b : Rat) (ha : 0 ≤ a) (hb : 0 < b) : 0 ≤ a / b := by
  rw [Rat.div_def]; exact Rat.mul_nonneg ha (by have := Rat.inv_pos.mpr hb; grind)

private theorem div_le_one' (a b : Rat) (hb : 0 < b) (h : a ≤ b) : a / b ≤ 1 := by
  have hi : 0 < b⁻¹ := Rat.inv_pos.mpr hb
  have h1 := Rat.mul_le_mul_of_nonneg_left h (c := b⁻¹) (by grind)
  have h2 : b⁻¹ * b = 1 := by rw [Rat.mul_comm]; exact Rat.mul_inv_cancel b (by grind)
  rw [Rat.div_def, Rat.mul_comm]; rw [h2] at h1; exact h1

private theorem cast_bounds (w x : Int) (h0 : 0 ≤ x) (h1 : x < w) : (0 : Rat) ≤ (x : Rat) ∧ (x : Rat) ≤ (w : Rat) ∧ (0 : Rat) < (w : Rat) := by
  refine ⟨Rat.intCast_nonneg.mpr h0, Rat.intCast_le_intCast.mpr (by omega), ?_⟩
  have : ((0 : Int) : Rat) < (w : Rat) := Rat.intCast_lt_intCast.mpr (by omega)
  exact this

theorem horizontalFg_src (back left right : Colour) (width height x y : Int) (hl : left.length ≤ right.length) :
    Code.cm_horizontal_fg back left right width height x y = interpColor left right ((x : Rat) / (width : Rat)) :=
  (interpColor_src left right _ hl).symm

theorem verticalFg_src (back top bottom : Colour) (width height x y : Int) (hl : top.length ≤ bottom.length) :
    Code.cm_vertical_fg back top bottom width height x y = interpColor top bottom ((y : Rat) / (width : Rat)) :=
  (interpColor_src top bottom _ hl).symm

theorem squareFg_src (back c e : Colour) (width height x y : Int) (hl : c.length ≤ e.length) :
    Code.cm_square_fg back c e width height x y = interpColor c e (Code.cm_square_norm width height x y) :=
  (interpColor_src c e _ hl).symm

theorem radialFg_src (back c e : Colour) (norm : Rat) (hl : c.length ≤ e.length) :
    Code.cm_radial_fg back c e norm = interpColor c e norm :=
  (interpColor_src c e _ hl).symm

/-- `x / width` is in [0, 1] for every column of the image -/
theorem horizontalNorm_src (width height x y : Int) (h0 : 0 ≤ x) (h1 : x < width) :
    0 ≤ Code.cm_horizontal_norm width height x y ∧ Code.cm_horizontal_norm width height x y ≤ 1 := by
  obtain ⟨a, b, c⟩ := cast_bounds width x h0 h1
  exact ⟨div_nonneg' _ _ a c, div_le_one' _ _ c b⟩

/-- `y / width` (the source divides by the *width*) is in [0, 1] for every row `y < width` -/
theorem verticalNorm_src (width height x y : Int) (h0 : 0 ≤ y) (h1 : y < width) :
    0 ≤ Code.cm_vertical_norm width height x y ∧ Code.cm_vertical_norm width height x y ≤ 1 := by
  obtain ⟨a, b, c⟩ := cast_bounds width y h0 h1
  exact ⟨div_nonneg' _ _ a c, div_le_one' _ _ c b⟩

private theorem abs_half (w x : Rat) (h0 : 0 ≤ x) (h1 : x ≤ w) :
    0 ≤ Code.cm_abs (x - w / 2) ∧ Code.cm_abs (x - w / 2) ≤ w / 2 := by
  unfold Code.cm_abs
  split <;> constructor <;> grind

/-- `max(abs(x - width / 2), abs(y - width / 2)) / (width / 2)` is in [0, 1] for `0 ≤ x, y < width` -/
theorem squareNorm_src (width height x y : Int) (hx0 : 0 ≤ x) (hx1 : x < width) (hy0 : 0 ≤ y) (hy1 : y < width) :
    0 ≤ Code.cm_square_norm width height x y ∧ Code.cm_square_norm width height x y ≤ 1 := by
  obtain ⟨a, b, c⟩ := cast_bounds width x hx0 hx1
  obtain ⟨a', b', _⟩ := cast_bounds width y hy0 hy1
  have hx := abs_half _ _ a b
  have hy := abs_half _ _ a' b'
  have hw : (0 : Rat) < (width : Rat) / 2 := by grind
  unfold Code.cm_square_norm
  have e2 : ((2 : Rat)) = 2 := rfl
  refine ⟨div_nonneg' _ _ ?_ hw, div_le_one' _ _ hw ?_⟩
  · rw [Rat.max_def]; split <;> grind
  · rw [Rat.max_def]; split <;> grind

private theorem sq_le_sq' (X H : Rat) (h1 : -H ≤ X) (h2 : X ≤ H) : X ^ 2 ≤ H ^ 2 := by
  have := Rat.mul_nonneg (a := H - X) (b := H + X) (by grind) (by grind)
  grind

private theorem sq_nonneg' (a : Rat) : 0 ≤ a ^ 2 := by
  by_cases h : 0 ≤ a
  · have := Rat.mul_nonneg h h; grind
  · have := Rat.mul_nonneg (a := -a) (b := -a) (by grind) (by grind); grind

/-- the radial normalisation `sqrt(A) / (sqrt(2) * width / 2)`, translated as the pair (q, r) meaning q·√r: for
    `0 ≤ x, y < width` we have `0 ≤ q`, `0 ≤ r` and `q² · r ≤ 1`, i.e. with a real square root the value q·√r is in [0, 1] -/
theorem radialNorm_src (width height x y : Int) (hx0 : 0 ≤ x) (hx1 : x < width) (hy0 : 0 ≤ y) (hy1 : y < width) :
    0 ≤ (Code.cm_radial_norm_surd width height x y).1 ∧ 0 ≤ (Code.cm_radial_norm_surd width height x y).2 ∧
    (Code.cm_radial_norm_surd width height x y).1 * (Code.cm_radial_norm_surd width height x y).1
      * (Code.cm_radial_norm_surd width height x y).2 ≤ 1 := by
  obtain ⟨a, b, c⟩ := cast_bounds width x hx0 hx1
  obtain ⟨a', b', _⟩ := cast_bounds width y hy0 hy1
  unfold Code.cm_radial_norm_surd
  simp only
  generalize (width : Rat) = W at *
  generalize (x : Rat) = X at *
  generalize (y : Rat) = Y at *
  have hX := sq_le_sq' (X - W / 2) (W / 2) (by grind) (by grind)
  have hY := sq_le_sq' (Y - W / 2) (W / 2) (by grind) (by grind)
  have hX0 := sq_nonneg' (X - W / 2)
  have hY0 := sq_nonneg' (Y - W / 2)
  have hi : 0 < W⁻¹ := Rat.inv_pos.mpr c
  have hWi : W * W⁻¹ = 1 := Rat.mul_inv_cancel W (by grind)
  have hq : (1 : Rat) / ((1 : Rat) * W / 2) = 2 * W⁻¹ := by grind
  refine ⟨?_, ?_, ?_⟩
  · rw [hq]; grind
  · grind
  · rw [hq]
    have hc : 0 ≤ 2 * W⁻¹ * W⁻¹ := by
      have := Rat.mul_nonneg (Rat.le_of_lt hi) (Rat.le_of_lt hi); grind
    have hS : (X - W / 2) ^ 2 + (Y - W / 2) ^ 2 ≤ 2 * (W / 2) ^ 2 := by grind
    have := Rat.mul_le_mul_of_nonneg_left hS hc
    have e1 : 2 * W⁻¹ * W⁻¹ * (2 * (W / 2) ^ 2) = (W * W⁻¹) * (W * W⁻¹) := by grind
    rw [e1, hWi] at this
    grind

/-- the square normalisation expression, pinned -/
theorem squareNormValue_src (width height x y : Int) :
    Code.cm_square_norm width height x y
      = max (Code.cm_abs ((x : Rat) - (width : Rat) / 2)) (Code.cm_abs ((y : Rat) - (width : Rat) / 2))
          / ((width : Rat) / 2) := rfl

/-- the radial normalisation expression, pinned: the square of q·√r is the squared distance to the centre
    (width/2, width/2) divided by the squared half diagonal `(√2·width/2)² = width²/2` -/
theorem radialNormValue_src (width height x y : Int) (hw : width ≠ 0) :
    (Code.cm_radial_norm_surd width height x y).1 * (Code.cm_radial_norm_surd width height x y).1
      * (Code.cm_radial_norm_surd width height x y).2
      = (((x : Rat) - (width : Rat) / 2) ^ 2 + ((y : Rat) - (width : Rat) / 2) ^ 2) / ((width : Rat) ^ 2 / 2) := by
  have hW : (width : Rat) ≠ 0 := by rw [Ne, Rat.intCast_eq_zero_iff]; exact hw
  unfold Code.cm_radial_norm_surd
  simp only
  generalize (width : Rat) = W at *
  generalize (x : Rat) = X at *
  generalize (y : Rat) = Y at *
  grind

end QR.SourceTieT

