import QR.Spec.Geometry
/-
C05, the count of non-function modules: a kernel-friendly (Bool primitives, structural recursion, rows classified once)
counting function.  `QR/Proofs/NFCount*.lean` evaluate it per version with `decide +kernel`;
`QR/Proofs/NFCountSound.lean` proves that it counts the cells with `Spec.isFunction v r c = false`.
-/
namespace QR.GeoC
open QR

/-- `dist a b ≤ 2` -/
def nearB (a b : Nat) : Bool := Nat.ble a (b + 2) && Nat.ble b (a + 2)

/-- the three centre pairs that would overlap the finder patterns -/
def exclB (last r0 c0 : Nat) : Bool :=
  (Nat.beq r0 6 && Nat.beq c0 6) || (Nat.beq r0 6 && Nat.beq c0 last) || (Nat.beq r0 last && Nat.beq c0 6)

/-- alignment test in a row whose nearby centre rows are `rs` -/
def alignRow (rs cs : List Nat) (last c : Nat) : Bool :=
  cs.any fun c0 => nearB c c0 && rs.any fun r0 => !exclB last r0 c0

def finderF (n r c : Nat) : Bool :=
  (Nat.ble r 7 && (Nat.ble c 7 || Nat.ble (n - 8) c)) || (Nat.ble (n - 8) r && Nat.ble c 7)

/-- format information and dark module -/
def formatF (n r c : Nat) : Bool :=
  (Nat.beq r 8 && (Nat.ble c 8 || Nat.ble (n - 8) c)) || (Nat.beq c 8 && (Nat.ble r 8 || Nat.ble (n - 8) r))

def versionF (v n r c : Nat) : Bool :=
  Nat.ble 7 v && ((Nat.ble r 5 && Nat.ble (n - 11) c && Nat.ble c (n - 9)) ||
                  (Nat.ble c 5 && Nat.ble (n - 11) r && Nat.ble r (n - 9)))

/-- every function module except the alignment patterns -/
def baseF (v n r c : Nat) : Bool :=
  finderF n r c || Nat.beq r 6 || Nat.beq c 6 || formatF n r c || versionF v n r c

/-- number of `c < k` with `f c = false` -/
def cntRow (f : Nat → Bool) : Nat → Nat
  | 0 => 0
  | c + 1 => cntRow f c + cond (f c) 0 1

/-- evaluate a number / a list of numbers once, then continue with the value -/
def forceN {α : Type} (a : Nat) (k : Nat → α) : α :=
  match a with
  | 0 => k 0
  | m + 1 => k (m + 1)

def forceL {α : Type} : List Nat → (List Nat → α) → α
  | [], k => k []
  | a :: t, k => forceN a fun a' => forceL t fun t' => k (a' :: t')

/-- non-function cells in row r: rows 9 .. n-12 contain, apart from alignment patterns, only the timing cell -/
def rowCount (cs : List Nat) (v n r : Nat) : Nat :=
  forceL (cs.filter (nearB r)) fun rs =>
    match Nat.ble 9 r && Nat.ble (r + 12) n, rs with
    | true, [] => n - 1
    | true, _ :: _ => cntRow (fun c => Nat.beq c 6 || alignRow rs cs (n - 7) c) n
    | false, [] => cntRow (baseF v n r) n
    | false, _ :: _ => cntRow (fun c => baseF v n r c || alignRow rs cs (n - 7) c) n

def gridCount (cs : List Nat) (v n : Nat) : Nat → Nat
  | 0 => 0
  | r + 1 => gridCount cs v n r + rowCount cs v n r

/-- number of non-function modules of version v -/
def nfCount (v : Nat) : Nat :=
  forceL (Spec.alignmentCentres v) fun cs => forceN (Spec.size v) fun n => gridCount cs v n n

/-- versions `lo+1 .. lo+k` have `nfCount v = Spec.rawModules v` (evaluated by the kernel in `NFCountA/B/C.lean`) -/
def nfCheck (lo k : Nat) : Bool :=
  (List.range k).all fun i => Nat.beq (nfCount (lo + i + 1)) (Spec.rawModules (lo + i + 1))

end QR.GeoC
