import QR.Gen.Code
import QR.Model.Render
import QR.Proofs.SourceTieC15
/-
Translation validation, list B4: `QRCode.print_ascii` and `QRCode.print_tty` as they stand in the source (tty refusal tests, the
cp437 code list and its reversal, the row / column loops with their bounds, the index expression, every escape string;
translated into `QR.Gen.Code.print_ascii_*` / `print_tty_*`) against `Model.printAscii`, `Model.printTty` and the `...Out`
variants.  `get_module` itself is tied in SourceTieC15.
-/
namespace QR.SourceTieB
open QR QR.Model QR.Gen.Code

/-! ### loops -/

theorem flatMap_congr' {α β : Type} (l : List α) (f g : α → List β) (h : ∀ a, f a = g a) : l.flatMap f = l.flatMap g := by
  have : f = g := funext h
  rw [this]

/-- `range(-border, modcount + border)` -/
theorem colRange_eq (modcount border : Nat) :
    pyRange (-(border : Int)) ((modcount : Int) + border) = (List.range (modcount + 2 * border)).map fun (j : Nat) => (j : Int) - border := by
  unfold pyRange
  have h : ((modcount : Int) + border - -(border : Int)).toNat = modcount + 2 * border := by omega
  rw [h]
  apply List.map_congr_left
  intro j _
  omega

/-- `range(-border, modcount + border, 2)` -/
theorem rowRange_eq (modcount border : Nat) :
    pyRangeStep (-(border : Int)) ((modcount : Int) + border) 2 =
      (List.range ((modcount + 2 * border + 1) / 2)).map fun (k : Nat) => ((2 * k : Nat) : Int) - border := by
  unfold pyRangeStep
  have h : (((modcount : Int) + border - -(border : Int) + 2 - 1) / 2).toNat = (modcount + 2 * border + 1) / 2 := by omega
  rw [h]
  apply List.map_congr_left
  intro k _
  omega

/-! ### print_ascii -/

theorem printAscii_literals :
    print_ascii_default_stream = "sys.stdout" ∧ print_ascii_refuse_exc = "OSError" ∧
    print_ascii_compile_call = "self.make()" ∧ print_ascii_modcount = "self.modules_count" ∧
    print_ascii_code_bytes = [255, 223, 220, 219] ∧ print_ascii_codec = "cp437" ∧ print_ascii_tail = "out.flush()" := by
  decide

/-- the four cp437 bytes decode to the model's code points, in the same order -/
theorem asciiCodes_src : print_ascii_code_points = asciiCodes := by decide

theorem print_ascii_invert_eq (tty invert : Bool) : print_ascii_invert tty invert = (invert || tty) := by
  cases tty <;> cases invert <;> rfl

theorem print_ascii_codes_eq (inv : Bool) : print_ascii_codes inv = if inv then asciiCodes.reverse else asciiCodes := by
  cases inv <;> rfl

/-- the text of `print_ascii(out, tty, invert)`, for every matrix, size, border and flag combination -/
theorem printAscii_src (M : Mods) (modcount border : Nat) (tty invert : Bool) :
    printAscii M modcount border tty invert =
      (let inv := print_ascii_invert tty invert
       print_ascii_text (getModule M modcount border inv) (print_ascii_codes inv) modcount border tty inv) := by
  unfold printAscii print_ascii_text
  simp only [print_ascii_invert_eq, print_ascii_codes_eq, rowRange_eq, colRange_eq, List.flatMap_map]
  apply flatMap_congr'
  intro k
  have e1 : cps "\x1b[48;5;232m" = esc "[48;5;232m" := by decide
  have e2 : cps "\x1b[38;5;255m" = esc "[38;5;255m" := by decide
  have e3 : cps "\x1b[0m" = esc "[0m" := by decide
  have e4 : cps "\n" = [10] := by decide
  simp only [e1, e2, e3, e4, List.map_eq_flatMap, Nat.shiftLeft_eq, Nat.pow_one, Nat.mul_comm _ 2]
  cases tty <;> cases (invert) <;> simp

/-- `print_ascii` including its tty check -/
theorem printAsciiOut_src (M : Mods) (modcount border : Nat) (tty invert isatty : Bool) :
    printAsciiOut M modcount border tty invert isatty =
      if print_ascii_refuse tty isatty then .error .osError else .ok (printAscii M modcount border tty invert) := rfl

/-! ### print_tty -/

theorem printTty_literals :
    print_tty_default_stream = "sys.stdout" ∧ print_tty_refuse_exc = "OSError" ∧
    print_tty_compile_call = "self.make()" ∧ print_tty_modcount = "self.modules_count" ∧ print_tty_tail = "out.flush()" := by
  decide

/-- the text of `print_tty(out)`, for every matrix and size -/
theorem printTty_src (M : Mods) (modcount : Nat) :
    printTty M modcount = print_tty_text (fun r c => (M.getD r []).getD c false) modcount := by
  unfold printTty print_tty_text sp
  have e1 : cps "\x1b[1;47m" = esc "[1;47m" := by decide
  have e2 : cps "\x1b[0m\n" = esc "[0m" ++ [10] := by decide
  have e3 : cps "\x1b[1;47m  \x1b[40m" = esc "[1;47m" ++ List.replicate 2 32 ++ esc "[40m" := by decide
  have e4 : cps "\x1b[1;47m  \x1b[0m\n" = esc "[1;47m" ++ List.replicate 2 32 ++ esc "[0m" ++ [10] := by decide
  have e5 : cps "  " = List.replicate 2 32 := by decide
  simp only [e1, e2, e3, e4, e5, List.append_assoc]

/-- `print_tty` including its tty check -/
theorem printTtyOut_src (M : Mods) (modcount : Nat) (isatty : Bool) :
    printTtyOut M modcount isatty =
      if print_tty_refuse isatty then .error .osError else .ok (printTty M modcount) := rfl

end QR.SourceTieB
