import QR.Gen.Code
import QR.Model.Data
import QR.Proofs.Except
/-
Translation validation, list A5 (second part): the index arithmetic of `util.create_bytes`.
`ecCount = rs_block.total_count - dcCount` is a signed Python int, so everything derived from it (`maxEcCount`,
`mod_offset`, `modIndex`, the ranges over `ecCount` / `maxEcCount`) is translated over Int.
-/
namespace QR.SourceTieA
open QR QR.Model QR.Gen.Code

/-- indices of Python's `range(a, b)` for ints `0 ≤ a` (empty when `b ≤ a`) -/
def rangeI (r : Int × Int) : List Nat := List.range' r.1.toNat (r.2 - r.1).toNat

/-- indices of `range(a, b)` over naturals -/
def rangeN (r : Nat × Nat) : List Nat := List.range' r.1 (r.2 - r.1)

theorem rangeI_zero (n : Nat) : rangeI ((0 : Int), (n : Int)) = List.range n := by
  unfold rangeI
  simp [List.range_eq_range']

theorem rangeN_zero (n : Nat) : rangeN (0, n) = List.range n := by
  unfold rangeN
  simp [List.range_eq_range']

/-! ### the generator polynomial and the error-correction codewords of one block -/

theorem cb_literals :
    cb_lut = ("ecCount in LUT.rsPoly_LUT", "base.Polynomial(LUT.rsPoly_LUT[ecCount], 0)") ∧
    cb_fallback = ("base.Polynomial([1], 0)", "rsPoly * base.Polynomial([1, base.gexp(i)], 0)") ∧
    cb_ec_then = "modPoly[modIndex]" := ⟨rfl, rfl, rfl⟩

/-- the fallback loop `for i in range(ecCount): rsPoly = rsPoly * Polynomial([1, gexp(i)], 0)` over the translated range -/
theorem rsPolyFallback_src (ecCount : Nat) :
    rsPolyFallback ecCount =
      (rangeI (cb_fallback_range ecCount)).foldlM (fun p (i : Nat) =>
        gexp (Int.ofNat i) >>= fun e => polyMk [1, e] 0 >>= fun q => polyMul p q) [1] := by
  unfold rsPolyFallback cb_fallback_range
  rw [rangeI_zero]

/-- **current_ec**: `rawPoly = Polynomial(current_dc, len(rsPoly) - 1)` (a negative count pads nothing, hence `toNat`),
    `modPoly = rawPoly % rsPoly`, `mod_offset = len(modPoly) - ecCount`, and for `i in range(ecCount)`:
    `modIndex = i + mod_offset`, `modPoly[modIndex] if modIndex >= 0 else 0`. -/
theorem ecOfBlock_src (dc : List Nat) (ecCount : Nat) :
    ecOfBlock dc ecCount =
      rsPolyFor ecCount >>= fun rsPoly =>
      polyMk dc (cb_raw_shift rsPoly.length).toNat >>= fun rawPoly =>
      polyMod (rawPoly.length + 1) rawPoly rsPoly >>= fun modPoly =>
      pure ((rangeI (cb_ec_range ecCount)).map fun i =>
        if cb_ec_guard (cb_mod_index i (cb_mod_offset modPoly.length ecCount))
        then modPoly.getD (cb_mod_index i (cb_mod_offset modPoly.length ecCount)).toNat 0
        else cb_ec_else) := by
  have h1 : ∀ n : Nat, (cb_raw_shift n).toNat = n - 1 := by
    intro n; unfold cb_raw_shift; omega
  have h2 : cb_ec_range (ecCount : Int) = ((0 : Int), (ecCount : Int)) := rfl
  have h3 : ∀ x : Int, cb_ec_guard x = decide (x ≥ 0) := fun _ => rfl
  have h6 : cb_ec_else = 0 := rfl
  have h4 : ∀ (i : Nat) (o : Int), cb_mod_index i o = (i : Int) + o := fun _ _ => rfl
  have h5 : ∀ n : Nat, cb_mod_offset n (ecCount : Int) = (n : Int) - (ecCount : Int) := fun _ => rfl
  simp only [h1, h2, rangeI_zero, h3, h4, h5, h6, decide_eq_true_eq]
  rfl

theorem ecOfBlock_length (dc : List Nat) (ecCount : Nat) (ec : List Nat) (h : ecOfBlock dc ecCount = .ok ec) :
    ec.length = ecCount := by
  unfold ecOfBlock at h
  obtain ⟨_, _, h⟩ := R.bind_eq_ok.1 h
  obtain ⟨_, _, h⟩ := R.bind_eq_ok.1 h
  obtain ⟨_, _, h⟩ := R.bind_eq_ok.1 h
  have := Except.ok.inj h
  rw [← this]
  simp

/-! ### the main loop: cutting the buffer into blocks -/

/-- `[0xFF & buffer.buffer[i + offset] for i in range(dcCount)]`: IndexError when the buffer is too short -/
def dcRead (buf : List Nat) (offset dcCount : Nat) : R (List Nat) :=
  (rangeN (cb_dc_range dcCount)).mapM fun i => idx buf (cb_dc_index i offset) >>= fun b => pure (cb_dc_elt b)

/-- the main loop of `create_bytes` over `rs_blocks`, state `offset` -/
def cbLoop (buf : List Nat) : Nat → List (Nat × Nat) → R (List (List Nat × List Nat))
  | _, [] => .ok []
  | offset, (total, data) :: rest =>
    dcRead buf offset (cb_dc_count total data) >>= fun dc =>
    ecOfBlock dc (cb_ec_count total data (cb_dc_count total data)).toNat >>= fun ec =>
    cbLoop buf (cb_offset_step offset (cb_dc_count total data)) rest >>= fun tl =>
    pure ((dc, ec) :: tl)

theorem cb_dc_elt_src (b : Nat) : cb_dc_elt b = b % 256 := by
  unfold cb_dc_elt
  rw [Nat.and_comm]
  exact Nat.and_two_pow_sub_one_eq_mod b 8

theorem mapM_idx_range' (l : List Nat) (off : Nat) : ∀ (k s : Nat),
    (List.range' s k).mapM (fun i => idx l (i + off) >>= fun b => pure (cb_dc_elt b)) =
      if (l.drop (s + off)).length < k then .error .indexError
      else .ok (((l.drop (s + off)).take k).map (· % 256))
  | 0, s => by simp
  | k + 1, s => by
    rw [List.range'_succ, List.mapM_cons, mapM_idx_range' l off k (s + 1)]
    have hd : s + 1 + off = s + off + 1 := by omega
    rw [hd]
    unfold idx
    cases hg : l[s + off]? with
    | none =>
      have hlen : l.length ≤ s + off := by
        rcases Nat.lt_or_ge (s + off) l.length with h | h
        · rw [List.getElem?_eq_getElem h] at hg; cases hg
        · exact h
      have : (l.drop (s + off)).length < k + 1 := by simp only [List.length_drop]; omega
      rw [if_pos this]; rfl
    | some a =>
      have hlt : s + off < l.length := by
        rcases Nat.lt_or_ge (s + off) l.length with h | h
        · exact h
        · rw [List.getElem?_eq_none h] at hg; cases hg
      have ha : l[s + off] = a := by
        rw [List.getElem?_eq_getElem hlt] at hg; exact Option.some.inj hg
      have hdrop : l.drop (s + off) = a :: l.drop (s + off + 1) := by
        rw [← ha]; exact List.drop_eq_getElem_cons hlt
      rw [hdrop]
      simp only [R.bind_ok, R.pure_eq, List.length_cons, List.take_succ_cons, List.map_cons, cb_dc_elt_src]
      by_cases hk : (l.drop (s + off + 1)).length < k
      · rw [if_pos hk, if_pos (by omega)]; rfl
      · rw [if_neg hk, if_neg (by omega)]; rfl

theorem dcRead_src (buf : List Nat) (offset dcCount : Nat) :
    dcRead buf offset dcCount =
      if (buf.drop offset).length < dcCount then .error .indexError
      else .ok (((buf.drop offset).take dcCount).map (· % 256)) := by
  unfold dcRead rangeN cb_dc_range cb_dc_index
  have := mapM_idx_range' buf offset dcCount 0
  simp only [Nat.zero_add, Nat.sub_zero] at this ⊢
  exact this

/-- **main loop**: `Model.splitBlocks` on the buffer suffix starting at `offset` is the loop over `rs_blocks` with the
    translated `dcCount = rs_block.data_count`, `ecCount = rs_block.total_count - dcCount`, the comprehension
    `0xFF & buffer.buffer[i + offset] for i in range(dcCount)` and `offset += dcCount`. -/
theorem splitBlocks_src (buf : List Nat) : ∀ (blocks : List (Nat × Nat)) (offset : Nat),
    splitBlocks (buf.drop offset) blocks = cbLoop buf offset blocks
  | [], _ => by
    unfold splitBlocks cbLoop; rfl
  | (total, data) :: rest, offset => by
    unfold splitBlocks cbLoop
    rw [dcRead_src]
    have h1 : cb_dc_count total data = data := rfl
    have h2 : (cb_ec_count total data data).toNat = total - data := by unfold cb_ec_count; omega
    have h3 : cb_offset_step offset data = offset + data := rfl
    rw [h1, h2, h3, ← splitBlocks_src buf rest (offset + data), List.drop_drop]
    by_cases hlt : (buf.drop offset).length < data
    · simp only [hlt, if_true]; rfl
    · simp only [hlt, if_false]; rfl

theorem splitBlocks_lengths : ∀ (blocks : List (Nat × Nat)) (buf : List Nat) (bs : List (List Nat × List Nat)),
    splitBlocks buf blocks = .ok bs →
    bs.map (fun b => b.1.length) = blocks.map (fun b => b.2) ∧
    bs.map (fun b => b.2.length) = blocks.map (fun b => b.1 - b.2)
  | [], buf, bs, h => by
    unfold splitBlocks at h
    cases Except.ok.inj h
    exact ⟨rfl, rfl⟩
  | (total, data) :: rest, buf, bs, h => by
    unfold splitBlocks at h
    by_cases hlt : buf.length < data
    · simp [hlt] at h
    · simp only [hlt, if_false] at h
      obtain ⟨ec, hec, h⟩ := R.bind_eq_ok.1 h
      obtain ⟨tl, htl, h⟩ := R.bind_eq_ok.1 h
      cases Except.ok.inj h
      have ih := splitBlocks_lengths rest _ tl htl
      have hl := ecOfBlock_length _ _ _ hec
      refine ⟨?_, ?_⟩
      · simp only [List.map_cons, ih.1, List.length_map, List.length_take]
        congr 1
        omega
      · simp only [List.map_cons, ih.2, hl]

/-! ### the two interleaving loops -/

/-- `for i in <indices>: for b in blocks: if guard(i, len(b)): data.append(b[i])` -/
def ilLoop (idxs : List Nat) (guard : Nat → Nat → Bool) (blocks : List (List Nat)) : List Nat :=
  idxs.flatMap fun i => blocks.flatMap fun b => if guard i b.length then [b.getD i 0] else []

theorem filterMap_getElem? (i : Nat) : ∀ blocks : List (List Nat),
    blocks.filterMap (fun b => b[i]?) = blocks.flatMap fun b => if decide (i < b.length) then [b.getD i 0] else []
  | [] => rfl
  | b :: t => by
    rw [List.flatMap_cons, ← filterMap_getElem? i t]
    by_cases h : i < b.length
    · simp [h, List.getD]
    · simp [h]

theorem interleave_eq (blocks : List (List Nat)) :
    interleave blocks = ilLoop (List.range ((blocks.map List.length).foldl max 0)) (fun i len => decide (i < len)) blocks := by
  unfold interleave ilLoop
  simp only [filterMap_getElem?, List.foldl_map]

theorem foldl_max_toNat : ∀ (l : List Int) (a : Int), 0 ≤ a →
    (l.foldl max a).toNat = (l.map Int.toNat).foldl max a.toNat
  | [], _, _ => rfl
  | x :: t, a, ha => by
    simp only [List.foldl_cons, List.map_cons]
    rw [foldl_max_toNat t (max a x) (by omega)]
    congr 1
    omega

/-- `maxDcCount` / `maxEcCount` as the main loop accumulates them from the block specifications -/
def cbMaxDc (blocks : List (Nat × Nat)) : Nat :=
  blocks.foldl (fun m b => cb_max_dc m (cb_dc_count b.1 b.2)) cb_max_dc0
def cbMaxEc (blocks : List (Nat × Nat)) : Int :=
  blocks.foldl (fun m b => cb_max_ec m (cb_ec_count b.1 b.2 (cb_dc_count b.1 b.2))) cb_max_ec0

/-- **create_bytes**: the Model is the translated main loop started at `offset = 0`, followed by the two interleaving
    loops over `range(maxDcCount)` / `range(maxEcCount)` with the translated guards `i < len(dc)` / `i < len(ec)`,
    where `maxDcCount`, `maxEcCount` are accumulated with the translated `max(…)` updates. -/
theorem createBytes_src (buf : List Nat) (blocks : List (Nat × Nat)) :
    createBytes buf blocks =
      cbLoop buf cb_offset0 blocks >>= fun bs =>
      pure (ilLoop (rangeN (cb_il_dc_range (cbMaxDc blocks))) cb_il_dc_guard (bs.map (·.1)) ++
            ilLoop (rangeI (cb_il_ec_range (cbMaxEc blocks))) cb_il_ec_guard (bs.map (·.2))) := by
  unfold createBytes
  have h0 : cbLoop buf cb_offset0 blocks = splitBlocks buf blocks := by
    rw [← splitBlocks_src]; rfl
  rw [h0]
  cases hs : splitBlocks buf blocks with
  | error e => rfl
  | ok bs =>
    obtain ⟨hl1, hl2⟩ := splitBlocks_lengths blocks buf bs hs
    have hdc : (cb_il_dc_range (cbMaxDc blocks)) = (0, ((bs.map (·.1)).map List.length).foldl max 0) := by
      unfold cb_il_dc_range cbMaxDc
      rw [List.map_map]
      have : (List.length ∘ fun b : List Nat × List Nat => b.1) = fun b => b.1.length := rfl
      rw [this, hl1, List.foldl_map]
      rfl
    have hec : rangeI (cb_il_ec_range (cbMaxEc blocks)) = List.range (((bs.map (·.2)).map List.length).foldl max 0) := by
      unfold cb_il_ec_range
      have hto : (cbMaxEc blocks).toNat = ((bs.map (·.2)).map List.length).foldl max 0 := by
        unfold cbMaxEc
        have e1 : blocks.foldl (fun m b => cb_max_ec m (cb_ec_count b.1 b.2 (cb_dc_count b.1 b.2))) cb_max_ec0
            = (blocks.map fun b => ((b.1 : Int) - (b.2 : Int))).foldl max 0 := by
          rw [List.foldl_map]; rfl
        rw [e1, foldl_max_toNat _ 0 (Int.le_refl 0), List.map_map, List.map_map]
        have : (List.length ∘ fun b : List Nat × List Nat => b.2) = fun b => b.2.length := rfl
        rw [this, hl2]
        congr 1
        apply List.map_congr_left
        intro b _
        simp only [Function.comp]
        omega
      rw [← hto]
      unfold rangeI
      simp [List.range_eq_range']
    rw [hdc, rangeN_zero, hec]
    simp only [R.bind_ok, R.pure_eq, interleave_eq]
    rfl

end QR.SourceTieA
