import QR.Proofs.Placement
import QR.Proofs.NFCount
import QR.Proofs.StreamBits
import QR.Spec.Reader
/-
C05, data placement against the Spec reader: `Model.mapData` on a matrix whose `None` cells are exactly the
non-function modules, read back by `Spec.readRaw`, gives the codeword bit stream followed by zero remainder bits.
-/
namespace QR.GeoC
open QR QR.Model

theorem maskFunc_eq_maskCond (p i j : Nat) (hp : p < 8) : maskFunc p i j = Spec.maskCond p i j := by
  match p, hp with
  | 0, _ | 1, _ | 2, _ | 3, _ | 4, _ | 5, _ | 6, _ => rfl
  | 7, _ => show decide (_ = 0) = (_ == 0); rw [Nat.add_comm]; rfl

/-- the hypothesis on the matrix handed to `map_data` (to be supplied by the function-pattern theorems):
    a cell is still `None` iff it is not a function module -/
def NoneIffData (v : Nat) (m : Mat) : Prop :=
  ∀ r c, r < Spec.size v → c < Spec.size v → (m.get r c = none ↔ Spec.isFunction v r c = false)

/-- the symbol `S` shows the matrix `m` (`None` would be rendered light, but there is none left) -/
def Shows (S : Spec.Sym) (n : Nat) (m : Mat) : Prop :=
  S.n = n ∧ ∀ r c, r < n → c < n → S.get r c = (m.get r c).getD false

/-- **placement vs reader**, any version ≥ 1: the reader's raw bit sequence is the codeword bit stream cut /
    zero-padded to the number of non-function cells met by the zig-zag -/
theorem readRaw_mapData_general (v mask : Nat) (hmask : mask < 8) (m : Mat)
    (hs : MatShape m (Spec.size v)) (hm : NoneIffData v m) (data : List Nat) (S : Spec.Sym)
    (hS : Shows S (Spec.size v) (mapData (Spec.size v) m data mask)) :
    Spec.readRaw S v mask =
      padTake ((Spec.zigzag (Spec.size v)).countP fun p => !Spec.isFunction v p.1 p.2) (codewordBits data) := by
  have hodd : Spec.size v % 2 = 1 := by unfold Spec.size; omega
  have h7 : 7 ≤ Spec.size v := by unfold Spec.size; omega
  obtain ⟨hSn, hSg⟩ := hS
  have hin := trav_inBounds _ hodd h7
  have hin' : ∀ p ∈ trav (Spec.size v), p.1 < Spec.size v ∧ p.2 < Spec.size v :=
    fun p hp => ⟨(hin p hp).1, (hin p hp).2.1⟩
  unfold Spec.readRaw
  rw [hSn, pairLam_eq, ← trav_eq_zigzag_size]
  rw [← read_place mask (fun r c => !Spec.isFunction v r c) (trav (Spec.size v)) (trav_nodup _ hodd) hs hin'
    (codewordBits data)]
  · apply List.map_congr_left
    intro ⟨r, c⟩ hp
    have hb := hin' _ (List.mem_filter.mp hp).1
    show xor (S.get r c) (Spec.maskCond mask r c) = _
    rw [hSg r c hb.1 hb.2, ← maskFunc_eq_maskCond mask r c hmask, mapData_eq_place]
  · intro p hp
    have hb := hin' p hp
    rw [hm p.1 p.2 hb.1 hb.2]
    simp

/-- **placement vs reader**, versions 1..40: `readRaw` returns exactly `rawModules v` bits -/
theorem readRaw_mapData (v mask : Nat) (h1 : 1 ≤ v) (h40 : v ≤ 40) (hmask : mask < 8) (m : Mat)
    (hs : MatShape m (Spec.size v)) (hm : NoneIffData v m) (data : List Nat) (S : Spec.Sym)
    (hS : Shows S (Spec.size v) (mapData (Spec.size v) m data mask)) :
    Spec.readRaw S v mask = padTake (Spec.rawModules v) (codewordBits data) := by
  rw [readRaw_mapData_general v mask hmask m hs hm data S hS, zigzag_countP, nonFunction_count v h1 h40]

/-- `map_data` keeps the shape -/
theorem mapData_shape (n mask : Nat) (m : Mat) (hs : MatShape m n) (data : List Nat) :
    MatShape (mapData n m data mask) n := place_shape mask _ hs _

/-- `map_data` never overwrites a cell that already holds a value -/
theorem mapData_keeps (n mask : Nat) (m : Mat) (hs : MatShape m n) (data : List Nat) (r c : Nat) (b : Bool)
    (h : m.get r c = some b) : (mapData n m data mask).get r c = some b :=
  place_keeps_some mask _ hs _ r c b h

/-- function modules are unchanged by `map_data` -/
theorem mapData_function_unchanged (v mask : Nat) (m : Mat) (hs : MatShape m (Spec.size v)) (hm : NoneIffData v m)
    (data : List Nat) (r c : Nat) (hr : r < Spec.size v) (hc : c < Spec.size v) (hf : Spec.isFunction v r c = true) :
    (mapData (Spec.size v) m data mask).get r c = m.get r c := by
  cases h : m.get r c with
  | some b => exact mapData_keeps _ _ _ hs _ r c b h
  | none => rw [(hm r c hr hc).mp h] at hf; cases hf

/-- after `map_data` every cell of the symbol holds a value -/
theorem mapData_all_some (v mask : Nat) (m : Mat) (hs : MatShape m (Spec.size v)) (hm : NoneIffData v m)
    (data : List Nat) (r c : Nat) (hr : r < Spec.size v) (hc : c < Spec.size v) :
    ((mapData (Spec.size v) m data mask).get r c).isSome = true := by
  have hodd : Spec.size v % 2 = 1 := by unfold Spec.size; omega
  have h7 : 7 ≤ Spec.size v := by unfold Spec.size; omega
  cases h : m.get r c with
  | some b => rw [mapData_keeps _ _ _ hs _ r c b h]; rfl
  | none =>
    have hf := (hm r c hr hc).mp h
    have h6 : c ≠ 6 := fun e => by rw [e, col6_isFunction] at hf; cases hf
    exact place_isSome_of_mem mask _ hs _ r c hr hc ((mem_trav_iff _ hodd h7 r c).mpr ⟨hr, hc, h6⟩)

/-- the data cells hold the stream bits in zig-zag order: the k-th non-function cell of the zig-zag carries bit k of
    the codeword stream (zero past its end) xor the mask condition -/
theorem mapData_nth (v mask : Nat) (hmask : mask < 8) (m : Mat) (hs : MatShape m (Spec.size v)) (hm : NoneIffData v m)
    (data : List Nat) (i : Nat) (hi : i < (Spec.zigzag (Spec.size v)).length)
    (hf : Spec.isFunction v (Spec.zigzag (Spec.size v))[i].1 (Spec.zigzag (Spec.size v))[i].2 = false) :
    (mapData (Spec.size v) m data mask).get (Spec.zigzag (Spec.size v))[i].1 (Spec.zigzag (Spec.size v))[i].2 =
      some (xor ((codewordBits data).getD
                  (((Spec.zigzag (Spec.size v)).take i).countP fun p => !Spec.isFunction v p.1 p.2) false)
                (Spec.maskCond mask (Spec.zigzag (Spec.size v))[i].1 (Spec.zigzag (Spec.size v))[i].2)) := by
  have hodd : Spec.size v % 2 = 1 := by unfold Spec.size; omega
  have h7 : 7 ≤ Spec.size v := by unfold Spec.size; omega
  have hin := trav_inBounds _ hodd h7
  have hin' : ∀ p ∈ trav (Spec.size v), p.1 < Spec.size v ∧ p.2 < Spec.size v :=
    fun p hp => ⟨(hin p hp).1, (hin p hp).2.1⟩
  revert hi hf
  rw [← trav_eq_zigzag_size]
  intro hi hf
  have hb := hin' _ (List.getElem_mem hi)
  have hnone := (hm _ _ hb.1 hb.2).mpr hf
  rw [mapData_eq_place, place_nth mask _ (trav_nodup _ hodd) hs hin' _ i hi hnone,
    maskFunc_eq_maskCond mask _ _ hmask]
  congr 3
  apply List.countP_congr
  intro p hp
  have hb' := hin' p (List.mem_of_mem_take hp)
  have := hm p.1 p.2 hb'.1 hb'.2
  cases hg : m.get p.1 p.2 <;> cases hq : Spec.isFunction v p.1 p.2 <;> simp_all

/-! ### codewords and remainder bits -/

theorem codewordBits_length (data : List Nat) : (codewordBits data).length = 8 * data.length := by
  induction data with
  | nil => rfl
  | cons b data ih =>
    simp only [codewordBits, List.flatMap_cons, List.length_append, bitsBE_length, List.length_cons] at ih ⊢
    omega

theorem bytesOfBits_codewordBits (data : List Nat) (hb : ∀ b ∈ data, b < 256) (rest : List Bool) :
    Spec.bytesOfBits data.length (codewordBits data ++ rest) = data := by
  unfold Spec.bytesOfBits
  induction data with
  | nil => rfl
  | cons b data ih =>
    have hb0 : b < 2 ^ 8 := hb b (List.mem_cons_self ..)
    have e : codewordBits (b :: data) ++ rest = bitsBE b 8 ++ (codewordBits data ++ rest) := by
      simp only [codewordBits, List.flatMap_cons, List.append_assoc]
    rw [e, List.length_cons, Spec.bytesOfBitsAux, take_bitsBE_append, drop_bitsBE_append, bitsVal_bitsBE hb0,
      ih fun x hx => hb x (List.mem_cons_of_mem _ hx)]

/-- **C05 placement, reader form** (versions 1..40, all eight masks): for a full codeword sequence
    (`totalCodewords v` bytes), the reader's raw sequence has `rawModules v` bits, cutting it into codewords returns
    `data`, and the `remainderBits v` bits after them are all zero -/
theorem readRaw_codewords (v mask : Nat) (h1 : 1 ≤ v) (h40 : v ≤ 40) (hmask : mask < 8) (m : Mat)
    (hs : MatShape m (Spec.size v)) (hm : NoneIffData v m) (data : List Nat)
    (hlen : data.length = Spec.totalCodewords v) (hbytes : ∀ b ∈ data, b < 256) (S : Spec.Sym)
    (hS : Shows S (Spec.size v) (mapData (Spec.size v) m data mask)) :
    (Spec.readRaw S v mask).length = Spec.rawModules v ∧
    Spec.bytesOfBits (Spec.totalCodewords v) (Spec.readRaw S v mask) = data ∧
    (Spec.readRaw S v mask).drop (8 * Spec.totalCodewords v) = List.replicate (Spec.remainderBits v) false := by
  have hraw : Spec.rawModules v = (codewordBits data).length + Spec.remainderBits v := by
    rw [codewordBits_length, hlen]
    unfold Spec.totalCodewords Spec.remainderBits
    omega
  have hR : Spec.readRaw S v mask = codewordBits data ++ List.replicate (Spec.remainderBits v) false := by
    rw [readRaw_mapData v mask h1 h40 hmask m hs hm data S hS, hraw, padTake_append]
  refine ⟨?_, ?_, ?_⟩
  · rw [readRaw_mapData v mask h1 h40 hmask m hs hm data S hS, padTake_length]
  · rw [hR, ← hlen, bytesOfBits_codewordBits data hbytes]
  · rw [hR, ← hlen, ← codewordBits_length, List.drop_left]

end QR.GeoC
