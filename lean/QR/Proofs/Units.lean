import QR.Model.Svg
/-
C13 "units": the text `SvgFragmentImage.units` produces denotes exactly the value quantised (half-even) to 0.001 mm.
A strict reader `parseThousandths` for decimal literals with at most three decimals is defined here, independent of the
printer, and shown to be a left inverse of `fmtThousandths`.
-/
namespace QR.Proofs.Units
open QR QR.Model

/-- read a run of decimal digits (most significant first) onto an accumulator; `none` on any other character -/
def parseNat : List Char → Nat → Option Nat
  | [], acc => some acc
  | c :: cs, acc => if c.isDigit then parseNat cs (10 * acc + (c.toNat - 48)) else none

/-- strict reader for `digits` or `digits.d`, `digits.dd`, `digits.ddd`: the value in thousandths.  The whole part must
be a non-empty run of digits; a point must be followed by one to three digits; anything else is rejected. -/
def parseChars (cs : List Char) : Option Nat :=
  let w := cs.takeWhile (· != '.')
  let r := cs.dropWhile (· != '.')
  if w = [] then none else
  match parseNat w 0 with
  | none => none
  | some W =>
    match r with
    | [] => some (1000 * W)
    | _ :: ds =>
      if ds = [] ∨ 3 < ds.length then none
      else (parseNat ds 0).map fun f => 1000 * W + f * 10 ^ (3 - ds.length)

def parseThousandths (s : String) : Option Nat := parseChars s.toList

/-! sanity -/
example : parseThousandths "12.5" = some 12500 := by decide
example : parseThousandths "0.001" = some 1 := by decide
example : parseThousandths "7" = some 7000 := by decide
example : parseThousandths "7." = none := by decide
example : parseThousandths ".5" = none := by decide
example : parseThousandths "1.2345" = none := by decide
example : parseThousandths "1.2.3" = none := by decide
example : parseThousandths "1a" = none := by decide

theorem parseNat_eq_ofDigitChars (ds : List Char) (acc : Nat) (h : ∀ c ∈ ds, c.isDigit = true) :
    parseNat ds acc = some (Nat.ofDigitChars 10 ds acc) := by
  induction ds generalizing acc with
  | nil => rfl
  | cons c cs ih =>
    have hc := h c (List.mem_cons_self)
    simp only [parseNat, hc, if_true, Nat.ofDigitChars_cons]
    exact ih _ (fun d hd => h d (List.mem_cons_of_mem _ hd))

theorem parseNat_toDigits (n : Nat) : parseNat (Nat.toDigits 10 n) 0 = some n := by
  rw [parseNat_eq_ofDigitChars _ _ (fun c hc => Nat.isDigit_of_mem_toDigits (by decide) (by decide) hc),
    Nat.ofDigitChars_ten_toDigits]

theorem isDigit_digitChar {d : Nat} (h : d < 10) : (Nat.digitChar d).isDigit = true := by
  revert d; decide

theorem digitChar_val {d : Nat} (h : d < 10) : (Nat.digitChar d).toNat - 48 = d :=
  Nat.toNat_digitChar_sub_48_of_lt_ten h

theorem parseNat_append (a b : List Char) (acc : Nat) :
    parseNat (a ++ b) acc = (parseNat a acc).bind (parseNat b) := by
  induction a generalizing acc with
  | nil => rfl
  | cons c cs ih =>
    simp only [List.cons_append, parseNat]
    split
    · exact ih _
    · rfl

theorem parseNat_digitsK (x k acc : Nat) :
    parseNat (digitsK x k) acc = some (10 ^ k * acc + x % 10 ^ k) := by
  induction k generalizing x acc with
  | zero => simp [digitsK, parseNat, Nat.mod_one]
  | succ k ih =>
    have hd : x % 10 < 10 := Nat.mod_lt _ (by decide)
    simp only [digitsK, parseNat_append, ih, Option.bind_some, parseNat, isDigit_digitChar hd, if_true,
      digitChar_val hd]
    congr 1
    have h1 : x % 10 ^ (k + 1) = 10 * (x / 10 % 10 ^ k) + x % 10 := by
      rw [Nat.pow_succ, Nat.mul_comm, Nat.mod_mul]
      omega
    rw [h1, Nat.pow_succ]
    generalize 10 ^ k = p
    rw [Nat.mul_add, Nat.mul_comm p 10, Nat.mul_assoc]
    omega

theorem length_digitsK (x k : Nat) : (digitsK x k).length = k := by
  induction k generalizing x with
  | zero => rfl
  | succ k ih => simp [digitsK, ih]

theorem toDigits_no_point (n : Nat) : ∀ c ∈ Nat.toDigits 10 n, (c != '.') = true := by
  intro c hc
  have := Nat.isDigit_of_mem_toDigits (by decide) (by decide) hc
  rw [bne_iff_ne]; rintro rfl; exact absurd this (by decide)

/-- whole part alone -/
theorem parseChars_whole (n : Nat) : parseChars (Nat.toDigits 10 n) = some (1000 * n) := by
  have htw : (Nat.toDigits 10 n).takeWhile (· != '.') = Nat.toDigits 10 n := by
    have := List.takeWhile_append_of_pos (l₂ := []) (toDigits_no_point n)
    simpa only [List.append_nil, List.takeWhile_nil] using this
  have hdw : (Nat.toDigits 10 n).dropWhile (· != '.') = [] := by
    have := List.dropWhile_append_of_pos (l₂ := []) (toDigits_no_point n)
    simpa only [List.append_nil, List.dropWhile_nil] using this
  simp only [parseChars, htw, hdw, Nat.toDigits_ne_nil, if_false, parseNat_toDigits]

/-- whole part, point, `k` decimals (1 ≤ k ≤ 3) -/
theorem parseChars_frac (n x k : Nat) (hk : 0 < k) (hk3 : k ≤ 3) :
    parseChars (Nat.toDigits 10 n ++ '.' :: digitsK x k) = some (1000 * n + x % 10 ^ k * 10 ^ (3 - k)) := by
  have htw : (Nat.toDigits 10 n ++ '.' :: digitsK x k).takeWhile (· != '.') = Nat.toDigits 10 n := by
    rw [List.takeWhile_append_of_pos (toDigits_no_point n)]; simp
  have hdw : (Nat.toDigits 10 n ++ '.' :: digitsK x k).dropWhile (· != '.') = '.' :: digitsK x k := by
    rw [List.dropWhile_append_of_pos (toDigits_no_point n)]; simp
  have hne : digitsK x k ≠ [] := by
    intro h; have := length_digitsK x k; rw [h] at this; simp at this; omega
  simp only [parseChars, htw, hdw, Nat.toDigits_ne_nil, if_false, parseNat_toDigits, length_digitsK, hne,
    false_or, Nat.not_lt.mpr hk3, parseNat_digitsK, Option.map_some, Nat.mul_zero, Nat.zero_add]

theorem fmt_toList (t : Nat) :
    (fmtThousandths t).toList =
      if t % 1000 = 0 then Nat.toDigits 10 (t / 1000)
      else if t % 1000 % 100 = 0 then Nat.toDigits 10 (t / 1000) ++ '.' :: digitsK (t % 1000 / 100) 1
      else if t % 1000 % 10 = 0 then Nat.toDigits 10 (t / 1000) ++ '.' :: digitsK (t % 1000 / 10) 2
      else Nat.toDigits 10 (t / 1000) ++ '.' :: digitsK (t % 1000) 3 := by
  have hp : ".".toList = ['.'] := rfl
  unfold fmtThousandths
  simp only [Nat.toString_eq_repr]
  split
  · simp
  · split
    · simp [String.toList_append, hp]
    · split <;> simp [String.toList_append, hp]

/-- **the text denotes exactly the quantised value** -/
theorem parse_fmt (t : Nat) : parseThousandths (fmtThousandths t) = some t := by
  unfold parseThousandths
  rw [fmt_toList]
  split
  · rw [parseChars_whole]; congr 1; omega
  · split
    · rw [parseChars_frac _ _ 1 (by decide) (by decide)]; congr 1; simp only [Nat.reducePow, Nat.reduceSub]; omega
    · split
      · rw [parseChars_frac _ _ 2 (by decide) (by decide)]; congr 1; simp only [Nat.reducePow, Nat.reduceSub]; omega
      · rw [parseChars_frac _ _ 3 (by decide) (by decide)]; congr 1; simp only [Nat.reducePow, Nat.reduceSub]; omega

/-- different quantised values print differently -/
theorem fmtThousandths_injective {a b : Nat} (h : fmtThousandths a = fmtThousandths b) : a = b := by
  have := parse_fmt a
  rw [h, parse_fmt] at this
  exact (Option.some.inj this).symm

/-- `units` texts are equal only for equal quantised values -/
theorem units_injective {n1 d1 n2 d2 : Nat} (h : units n1 d1 = units n2 d2) :
    roundHalfEven (100 * n1) d1 = roundHalfEven (100 * n2) d2 := by
  unfold units at h
  exact fmtThousandths_injective (String.append_left_inj _ |>.mp h)

/-- half-even rounding is within half a unit of the exact quotient -/
theorem roundHalfEven_close (a b : Nat) (hb : 0 < b) :
    2 * (roundHalfEven a b * b) ≤ 2 * a + b ∧ 2 * a ≤ 2 * (roundHalfEven a b * b) + b := by
  have hdm : a = a / b * b + a % b := by rw [Nat.mul_comm]; exact (Nat.div_add_mod a b).symm
  have hr : a % b < b := Nat.mod_lt _ hb
  unfold roundHalfEven
  simp only
  generalize a / b = q at *
  generalize a % b = r at *
  have hs : (q + 1) * b = q * b + b := Nat.succ_mul _ _
  split
  · omega
  · split
    · omega
    · split <;> omega

/-- rounding is exact whenever the value is a whole number of thousandths -/
theorem units_exact (num den : Nat) (hd : 0 < den) (h : den ∣ 100 * num) :
    roundHalfEven (100 * num) den = 100 * num / den ∧ (100 * num / den) * den = 100 * num := by
  refine ⟨?_, Nat.div_mul_cancel h⟩
  have : 100 * num % den = 0 := Nat.mod_eq_zero_of_dvd h
  unfold roundHalfEven
  simp only [this]
  rw [if_pos (by omega)]

end QR.Proofs.Units
