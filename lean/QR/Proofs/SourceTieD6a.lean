import QR.Gen.Code
import QR.Model.GF
import QR.Model.Matrix
import QR.Model.QRObject
import QR.Model.Cli
/-
Translation validation, list D6 (plugin `tools/t2_fragments/frag_d6.py`), part a: the small leftovers -
`Polynomial.__getitem__/__iter__/__len__`, `util.pattern_position`, the module-level shortcut `qrcode.make()`,
`console_scripts.commas` and `get_drawer_help` - as they stand in the source (translated into `QR.Gen.Code.lo_*`) against
the way the hand-written Model reads them.
-/
namespace QR.SourceTieD6
open QR QR.Model QR.Gen.Code

/-! ### Python list semantics of the prelude on the indices the Model uses -/

theorem py_getitem_nat {α : Type} (l : List α) (i : Nat) : lo_py_getitem l (i : Int) = l[i]? := by
  unfold lo_py_getitem
  have h : ¬ ((i : Int) < 0) := by omega
  simp only [h, if_false, Int.toNat_natCast]

/-- a negative index counts from the end -/
theorem py_getitem_neg {α : Type} (l : List α) (k : Nat) (hk : 1 ≤ k) (hl : k ≤ l.length) :
    lo_py_getitem l (-(k : Int)) = l[l.length - k]? := by
  unfold lo_py_getitem
  have h : (-(k : Int)) < 0 := by omega
  have h2 : ¬ (-(k : Int) + (l.length : Int) < 0) := by omega
  have h3 : (-(k : Int) + (l.length : Int)).toNat = l.length - k := by omega
  simp only [h, if_true, h2, if_false, h3]

/-! ### `Polynomial.__getitem__`, `__iter__`, `__len__` (qrcode/base.py) -/

/-- all three read the attribute `__init__` stores -/
theorem poly_accessors_literals :
    lo_poly_init_stores = [lo_poly_getitem_attr] ∧ lo_poly_iter_attr = lo_poly_getitem_attr ∧
    lo_poly_len_attr = lo_poly_getitem_attr := by decide

/-- `self[i]` in `Polynomial.__mod__` / `__mul__`: the Model's `idx self i` (and `self.getD i 0` where the index is in range)
    is the translated `__getitem__` -/
theorem poly_getitem_src (num : List Nat) (i : Nat) :
    idx num i = (match lo_poly_getitem num (i : Int) with | some a => .ok a | none => .error .indexError) ∧
    num.getD i 0 = (lo_poly_getitem num (i : Int)).getD 0 := by
  unfold lo_poly_getitem idx
  rw [py_getitem_nat]
  cases h : num[i]? <;> simp [List.getD, h]

/-- `len(self)`: the Model's `self.length`; `for item in self` / `zip(self, other)`: the Model iterates the coefficient list -/
theorem poly_len_iter_src (num : List Nat) : lo_poly_len num = (num.length : Int) ∧ lo_poly_iter num = num := ⟨rfl, rfl⟩

/-! ### `util.pattern_position` -/

theorem pattern_position_literals : lo_pattern_position_table = "PATTERN_POSITION_TABLE" ∧
    (∀ v : Int, lo_pattern_position_index v = v - 1) := ⟨by decide, fun _ => rfl⟩

/-- `pattern_position(version)` for `1 ≤ version`: `Model.patternPosition` is the translated lookup in the regenerated table.
    (For version 0 Python's index -1 wraps to the last row and the Model's truncated `0 - 1 = 0` reads the first: see
    `pattern_position_zero`; unreachable through `QRCode`, whose setter validates the version.) -/
theorem patternPosition_src (version : Nat) (hv : 1 ≤ version) :
    patternPosition version =
      (match lo_pattern_position Gen.PATTERN_POSITION_TABLE (version : Int) with
       | some a => .ok a | none => .error .indexError) := by
  unfold patternPosition idx lo_pattern_position lo_pattern_position_index
  have h : ((version : Int) - 1) = ((version - 1 : Nat) : Int) := by omega
  rw [h, py_getitem_nat]
  cases Gen.PATTERN_POSITION_TABLE[version - 1]? <;> rfl

/-- the excluded point: the two sides differ at version 0 -/
theorem pattern_position_zero :
    patternPosition 0 = .ok [] ∧
    lo_pattern_position Gen.PATTERN_POSITION_TABLE 0 = some [6, 30, 58, 86, 114, 142, 170] := by
  constructor
  · rfl
  · decide

/-! ### `qrcode.make(data=None, **kwargs)` (qrcode/main.py) -/

/-- the keyword arguments of `QRCode(...)` the Model knows -/
structure MakeKw where
  version : Option Int
  level : Nat
  boxSize : Int
  border : Int
  mask : Option Int

/-- the shortcut on the object model: construct with ALL keyword arguments, `add_data(data)` (default threshold 20), then
    `make_image()`; the process-wide state `g` is threaded -/
def makeShortcut (g : Global) (kw : MakeKw) (data : Bytes) : R (St × Out) :=
  match construct kw.version kw.level kw.boxSize kw.border kw.mask with
  | .error e => .error e
  | .ok s => .ok (step (step (g, s) (.addData data 20)).1 .makeImage)

theorem make_literals : lo_make_callees = ("QRCode", "add_data", "make_image") ∧ lo_make_data_default = "None" := by decide

/-- **`qrcode.make`**: the Model's shortcut is the translated statement sequence - constructor with `**kwargs` only, then the
    second callee with `data` only, then the third callee without arguments on the same object -/
theorem makeShortcut_src (g : Global) (kw : MakeKw) (data : Bytes) :
    makeShortcut g kw data =
      lo_make (fun kw : MakeKw => (construct kw.version kw.level kw.boxSize kw.border kw.mask).map (fun s => (g, s)))
        (fun st d => .ok (step st (.addData d 20)).1) (fun st => .ok (step st .makeImage)) kw data := by
  unfold makeShortcut lo_make
  cases h : construct kw.version kw.level kw.boxSize kw.border kw.mask <;> simp only [h, Except.map]

/-- nothing is dropped on the way: the object that `make_image()` compiles has the mask, version, level, border and box size
    of the keyword arguments and exactly the segments of `data` -/
theorem makeShortcut_settings (g : Global) (kw : MakeKw) (data : Bytes) (s : QRState)
    (h : construct kw.version kw.level kw.boxSize kw.border kw.mask = .ok s) :
    makeShortcut g kw data = .ok (step (g, { s with dataList := addData data 20 }) .makeImage) ∧
    s.mask = kw.mask.map Int.toNat ∧ s.version = (kw.version.getD 0).toNat ∧ s.level = kw.level ∧
    s.border = kw.border.toNat ∧ s.boxSize = kw.boxSize := by
  have hs : s = (⟨(kw.version.getD 0).toNat, kw.level, kw.mask.map Int.toNat, kw.border.toNat, kw.boxSize, [], none,
      #[#[]], 0⟩ : QRState) := by
    unfold construct at h
    simp only [bind, Except.bind] at h
    repeat' split at h
    all_goals first
      | (simp only [pure, Except.pure, Except.ok.injEq] at h; exact h.symm)
      | (exact absurd h (by simp))
  subst hs
  refine ⟨?_, rfl, rfl, rfl, rfl, rfl⟩
  unfold makeShortcut
  rw [h]
  simp [step]

end QR.SourceTieD6
