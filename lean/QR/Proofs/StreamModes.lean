import QR.Proofs.StreamBits
import QR.Proofs.Conv
import QR.Proofs.Except
/-
Per-mode round trips (C06): what `QRData.write` emits for a numeric / alphanumeric / byte segment body is parsed back
by the ISO grammar (`Spec.parseNumeric`, `Spec.parseAlnum`, `Spec.parseBytes`), for any continuation `rest`.
-/
namespace QR
open Model

/-! ### numeric mode -/

private theorem isDigit_iff {c : Nat} : isDigit c = true ↔ 48 ≤ c ∧ c ≤ 57 := by
  simp [isDigit]

theorem intOfDigits_one {a : Nat} (ha : isDigit a = true) : intOfDigits [a] = .ok (a - 48) := by
  have := isDigit_iff.mp ha
  simp [intOfDigits, this]

theorem intOfDigits_two {a b : Nat} (ha : isDigit a = true) (hb : isDigit b = true) :
    intOfDigits [a, b] = .ok ((a - 48) * 10 + (b - 48)) := by
  have := isDigit_iff.mp ha
  have := isDigit_iff.mp hb
  simp [intOfDigits, *]

theorem intOfDigits_three {a b c : Nat} (ha : isDigit a = true) (hb : isDigit b = true) (hc : isDigit c = true) :
    intOfDigits [a, b, c] = .ok (((a - 48) * 10 + (b - 48)) * 10 + (c - 48)) := by
  have := isDigit_iff.mp ha
  have := isDigit_iff.mp hb
  have := isDigit_iff.mp hc
  simp [intOfDigits, *]

theorem digitsOf_one (x : Nat) : Spec.digitsOf x 1 = [48 + x % 10] := rfl
theorem digitsOf_two (x : Nat) : Spec.digitsOf x 2 = [48 + x / 10 % 10, 48 + x % 10] := rfl
theorem digitsOf_three (x : Nat) : Spec.digitsOf x 3 = [48 + x / 10 / 10 % 10, 48 + x / 10 % 10, 48 + x % 10] := rfl

@[simp] theorem writeNumeric_nil (fuel : Nat) : writeNumeric fuel [] = .ok [] := by
  cases fuel <;> rfl

theorem bodyBits_numeric_add_three (n : Nat) : Spec.bodyBits .numeric (n + 3) = 10 + Spec.bodyBits .numeric n := by
  simp only [Spec.bodyBits]
  have h1 : (n + 3) / 3 = n / 3 + 1 := by omega
  have h2 : (n + 3) % 3 = n % 3 := by omega
  rw [h1, h2]; omega

/-- numeric round trip: `writeNumeric` succeeds on ASCII digits, emits `bodyBits .numeric n` bits, and the ISO
    numeric-mode parser recovers the digits and leaves the continuation untouched -/
theorem writeNumeric_roundtrip : ∀ (ds : List Nat) (fuel : Nat), (∀ c ∈ ds, isDigit c = true) → ds.length ≤ fuel →
    ∃ bits, writeNumeric fuel ds = .ok bits ∧ bits.length = Spec.bodyBits .numeric ds.length ∧
      ∀ rest, Spec.parseNumeric ds.length (bits ++ rest) = some (ds, rest)
  | [], fuel, _, _ => ⟨[], writeNumeric_nil fuel, rfl, fun _ => rfl⟩
  | [a], fuel + 1, hd, _ => by
    have ha : isDigit a = true := hd a (by simp)
    have ha' := isDigit_iff.mp ha
    refine ⟨bitsBE (a - 48) 4, ?_, by simp [Spec.bodyBits], fun rest => ?_⟩
    · have hl : dictGet Gen.NUMBER_LENGTH 1 = .ok 4 := rfl
      simp [writeNumeric, hl, intOfDigits_one ha]
    · have hv : Spec.bitsVal (bitsBE (a - 48) 4) = a - 48 := bitsVal_bitsBE (by omega)
      simp only [List.length_singleton, Spec.parseNumeric, take_bitsBE_append, drop_bitsBE_append, bitsBE_length, hv,
        digitsOf_one]
      have : ¬ (a - 48 > 9) := by omega
      have h2 : 48 + (a - 48) % 10 = a := by omega
      simp only [this, ↓reduceIte, h2, Nat.lt_irrefl]
  | [a, b], fuel + 1, hd, _ => by
    have ha : isDigit a = true := hd a (by simp)
    have hb : isDigit b = true := hd b (by simp)
    have ha' := isDigit_iff.mp ha
    have hb' := isDigit_iff.mp hb
    refine ⟨bitsBE ((a - 48) * 10 + (b - 48)) 7, ?_, by simp [Spec.bodyBits], fun rest => ?_⟩
    · have hl : dictGet Gen.NUMBER_LENGTH 2 = .ok 7 := rfl
      simp [writeNumeric, hl, intOfDigits_two ha hb]
    · have hv : Spec.bitsVal (bitsBE ((a - 48) * 10 + (b - 48)) 7) = (a - 48) * 10 + (b - 48) :=
        bitsVal_bitsBE (by omega)
      simp only [List.length_cons, List.length_nil, Spec.parseNumeric, take_bitsBE_append, drop_bitsBE_append,
        bitsBE_length, hv, digitsOf_two]
      have : ¬ ((a - 48) * 10 + (b - 48) > 99) := by omega
      have h1 : 48 + ((a - 48) * 10 + (b - 48)) / 10 % 10 = a := by omega
      have h2 : 48 + ((a - 48) * 10 + (b - 48)) % 10 = b := by omega
      simp only [this, ↓reduceIte, h1, h2, Nat.lt_irrefl]
  | a :: b :: c :: ds, fuel + 1, hd, hf => by
    have ha : isDigit a = true := hd a (by simp)
    have hb : isDigit b = true := hd b (by simp)
    have hc : isDigit c = true := hd c (by simp)
    have ha' := isDigit_iff.mp ha
    have hb' := isDigit_iff.mp hb
    have hc' := isDigit_iff.mp hc
    obtain ⟨tl, htl, hlen, hparse⟩ := writeNumeric_roundtrip ds fuel (fun x hx => hd x (by simp [hx]))
      (by simp only [List.length_cons] at hf; omega)
    refine ⟨bitsBE (((a - 48) * 10 + (b - 48)) * 10 + (c - 48)) 10 ++ tl, ?_, ?_, fun rest => ?_⟩
    · have hl : dictGet Gen.NUMBER_LENGTH 3 = .ok 10 := rfl
      simp [writeNumeric, hl, intOfDigits_three ha hb hc, htl]
    · simp only [List.length_append, bitsBE_length, hlen, List.length_cons, bodyBits_numeric_add_three]
    · have hv : Spec.bitsVal (bitsBE (((a - 48) * 10 + (b - 48)) * 10 + (c - 48)) 10) =
          ((a - 48) * 10 + (b - 48)) * 10 + (c - 48) := bitsVal_bitsBE (by omega)
      simp only [List.length_cons, Spec.parseNumeric, List.append_assoc, take_bitsBE_append, drop_bitsBE_append,
        bitsBE_length, hv, digitsOf_three, hparse]
      have : ¬ (((a - 48) * 10 + (b - 48)) * 10 + (c - 48) > 999) := by omega
      have h0 : 48 + (((a - 48) * 10 + (b - 48)) * 10 + (c - 48)) / 10 / 10 % 10 = a := by omega
      have h1 : 48 + (((a - 48) * 10 + (b - 48)) * 10 + (c - 48)) / 10 % 10 = b := by omega
      have h2 : 48 + (((a - 48) * 10 + (b - 48)) * 10 + (c - 48)) % 10 = c := by omega
      simp only [this, ↓reduceIte, h0, h1, h2, List.cons_append, List.nil_append, Nat.lt_irrefl]

/-! ### alphanumeric mode -/

theorem alnumTable_eq : Gen.ALPHA_NUM = Spec.alnumTable := by decide

/-- the 45 table entries are pairwise distinct (not needed for the write → parse direction, recorded for C06) -/
theorem alnumTable_nodup : Spec.alnumTable.Nodup ∧ Spec.alnumTable.length = 45 := by decide

/-- `ALPHA_NUM.find(c)` of an alphanumeric character is its ISO Table 5 value -/
theorem alphaFind_of_isAlnum {c : Nat} (h : isAlnum c = true) :
    ∃ i, alphaFind c = .ok i ∧ i < 45 ∧ Spec.alnumTable.getD i 0 = c := by
  unfold alphaFind
  cases hi : Gen.ALPHA_NUM.idxOf? c with
  | none =>
    rw [List.idxOf?_eq_none_iff] at hi
    simp only [isAlnum, List.contains_iff_mem] at h
    exact absurd h hi
  | some i =>
    rw [List.idxOf?, List.findIdx?_eq_some_iff_getElem] at hi
    obtain ⟨hlt, heq, _⟩ := hi
    have hlt' : i < Spec.alnumTable.length := alnumTable_eq ▸ hlt
    refine ⟨i, rfl, hlt, ?_⟩
    have : Spec.alnumTable[i] = c := by
      have := eq_of_beq heq
      simpa only [alnumTable_eq] using this
    rw [List.getD_eq_getElem?_getD, List.getElem?_eq_getElem hlt', Option.getD_some, this]

theorem bodyBits_alnum_add_two (n : Nat) : Spec.bodyBits .alnum (n + 2) = 11 + Spec.bodyBits .alnum n := by
  simp only [Spec.bodyBits]
  have h1 : (n + 2) / 2 = n / 2 + 1 := by omega
  have h2 : (n + 2) % 2 = n % 2 := by omega
  rw [h1, h2]; omega

/-- alphanumeric round trip -/
theorem writeAlnum_roundtrip : ∀ (cs : List Nat), (∀ c ∈ cs, isAlnum c = true) →
    ∃ bits, writeAlnum cs = .ok bits ∧ bits.length = Spec.bodyBits .alnum cs.length ∧
      ∀ rest, Spec.parseAlnum cs.length (bits ++ rest) = some (cs, rest)
  | [], _ => ⟨[], rfl, rfl, fun _ => rfl⟩
  | [a], hc => by
    obtain ⟨x, hx, hx45, hxa⟩ := alphaFind_of_isAlnum (hc a (by simp))
    refine ⟨bitsBE x 6, by simp [writeAlnum, hx], by simp [Spec.bodyBits], fun rest => ?_⟩
    have hv : Spec.bitsVal (bitsBE x 6) = x := bitsVal_bitsBE (by omega)
    have : ¬ (x ≥ 45) := by omega
    simp only [List.length_singleton, Spec.parseAlnum, take_bitsBE_append, drop_bitsBE_append, bitsBE_length, hv,
      this, ↓reduceIte, hxa, Nat.lt_irrefl]
  | a :: b :: cs, hc => by
    obtain ⟨x, hx, hx45, hxa⟩ := alphaFind_of_isAlnum (hc a (by simp))
    obtain ⟨y, hy, hy45, hyb⟩ := alphaFind_of_isAlnum (hc b (by simp))
    obtain ⟨tl, htl, hlen, hparse⟩ := writeAlnum_roundtrip cs (fun c h => hc c (by simp [h]))
    refine ⟨bitsBE (x * 45 + y) 11 ++ tl, by simp [writeAlnum, hx, hy, htl], ?_, fun rest => ?_⟩
    · simp only [List.length_append, bitsBE_length, hlen, List.length_cons, bodyBits_alnum_add_two]
    · have hv : Spec.bitsVal (bitsBE (x * 45 + y) 11) = x * 45 + y := bitsVal_bitsBE (by omega)
      have : ¬ (x * 45 + y ≥ 45 * 45) := by omega
      have h1 : (x * 45 + y) / 45 = x := by omega
      have h2 : (x * 45 + y) % 45 = y := by omega
      simp only [List.length_cons, Spec.parseAlnum, List.append_assoc, take_bitsBE_append, drop_bitsBE_append,
        bitsBE_length, hv, this, ↓reduceIte, h1, h2, hxa, hyb, hparse, Nat.lt_irrefl]

/-! ### byte mode -/

theorem writeBytes_cons (b : Nat) (bs : List Nat) : writeBytes (b :: bs) = bitsBE b 8 ++ writeBytes bs := by
  simp [writeBytes]

theorem writeBytes_length (bs : List Nat) : (writeBytes bs).length = Spec.bodyBits .byte bs.length := by
  induction bs with
  | nil => rfl
  | cons b bs ih =>
    rw [writeBytes_cons, List.length_append, bitsBE_length, ih]
    simp only [Spec.bodyBits, List.length_cons]; omega

/-- byte round trip -/
theorem writeBytes_roundtrip (bs : List Nat) (hb : ∀ b ∈ bs, b < 256) (rest : List Bool) :
    Spec.parseBytes bs.length (writeBytes bs ++ rest) = some (bs, rest) := by
  induction bs with
  | nil => rfl
  | cons b bs ih =>
    have hv : Spec.bitsVal (bitsBE b 8) = b := bitsVal_bitsBE (hb b (by simp))
    simp only [List.length_cons, Spec.parseBytes, writeBytes_cons, List.append_assoc, take_bitsBE_append,
      drop_bitsBE_append, bitsBE_length, hv, Nat.lt_irrefl, ↓reduceIte, ih (fun x hx => hb x (by simp [hx]))]

end QR
