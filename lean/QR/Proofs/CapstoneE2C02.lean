import QR.Gen.Code
import QR.Model.Matrix
import QR.Model.Data
import QR.Proofs.Except
import QR.Proofs.SourceTieA5b
import QR.Proofs.SourceTieA3
/-
Helpers for the capstone theorems `Cxx_source_capstone_*` of C02, C04, C05, C06 (QR/Props).
The `…Src` definitions below only give NAMES to the right-hand sides of the bridge theorems (`Cxx_source_*_src`): each is the
Python function as assembled from the fragments translated into `QR.Gen.Code` (regenerated from the current Python AST on
every run) by the hand-written loop skeletons of `QR/Proofs/SourceTie*.lean`, with every callee that is not translated in place
turned into an explicit PARAMETER.  The capstones instantiate these parameters with the Model function the bridge names (or
with another `…Src` function).  No proof content here except determinism of the `while` semantics and the unfolding lemmas.
-/
namespace QR.CapstoneE2
open QR QR.Model QR.Gen.Code QR.SourceTieA
/-! ### C02 -/

/-- `base.rs_blocks(version, error_correction)` assembled from the translated dictionary lookup, row index and row loop -/
def rsBlocksSrc (version level : Nat) : R (List (Nat × Nat)) :=
  match Gen.RS_BLOCK_OFFSET.lookup level with
  | none => .error .other
  | some offset => idx Gen.RS_BLOCK_TABLE (rs_blocks_row_index version offset).toNat >>= rsLoop

/-- the `current_ec` computation of `util.create_bytes` assembled from the translated shift, offset, range, index, guard and
    else-value; parameters: `rsPolyFor` (the LUT lookup / fallback loop for the generator), `polyMk` (`Polynomial.__init__`),
    `polyMod` (`Polynomial.__mod__`, fuel = recursion depth) -/
def ecOfBlockSrc (rsPolyFor : Nat → R (List Nat)) (polyMk : List Nat → Nat → R (List Nat))
    (polyMod : Nat → List Nat → List Nat → R (List Nat)) (dc : List Nat) (ecCount : Nat) : R (List Nat) :=
  rsPolyFor ecCount >>= fun rsPoly =>
  polyMk dc (cb_raw_shift rsPoly.length).toNat >>= fun rawPoly =>
  polyMod (rawPoly.length + 1) rawPoly rsPoly >>= fun modPoly =>
  pure ((rangeI (cb_ec_range ecCount)).map fun i =>
    if cb_ec_guard (cb_mod_index i (cb_mod_offset modPoly.length ecCount))
    then modPoly.getD (cb_mod_index i (cb_mod_offset modPoly.length ecCount)).toNat 0
    else cb_ec_else)

/-- the main loop of `util.create_bytes` (`QR.SourceTieA.cbLoop`) with the per-block EC computation as a parameter -/
def cbLoopP (ec : List Nat → Nat → R (List Nat)) (buf : List Nat) : Nat → List (Nat × Nat) → R (List (List Nat × List Nat))
  | _, [] => .ok []
  | offset, (total, data) :: rest =>
    dcRead buf offset (cb_dc_count total data) >>= fun dc =>
    ec dc (cb_ec_count total data (cb_dc_count total data)).toNat >>= fun e =>
    cbLoopP ec buf (cb_offset_step offset (cb_dc_count total data)) rest >>= fun tl =>
    pure ((dc, e) :: tl)

/-- `util.create_bytes(buffer, rs_blocks)` assembled from the translated main loop and the two translated interleaving loops;
    `ec` = the per-block EC computation (parameter) -/
def createBytesSrc (ec : List Nat → Nat → R (List Nat)) (buf : List Nat) (blocks : List (Nat × Nat)) : R (List Nat) :=
  cbLoopP ec buf cb_offset0 blocks >>= fun bs =>
  pure (ilLoop (rangeN (cb_il_dc_range (cbMaxDc blocks))) cb_il_dc_guard (bs.map (·.1)) ++
        ilLoop (rangeI (cb_il_ec_range (cbMaxEc blocks))) cb_il_ec_guard (bs.map (·.2)))

theorem cbLoopP_ecOfBlock (buf : List Nat) : ∀ (blocks : List (Nat × Nat)) (offset : Nat),
    cbLoopP ecOfBlock buf offset blocks = cbLoop buf offset blocks
  | [], _ => rfl
  | (total, data) :: rest, offset => by
    unfold cbLoopP cbLoop
    simp only [cbLoopP_ecOfBlock buf rest]

end QR.CapstoneE2
