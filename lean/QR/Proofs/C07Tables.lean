import QR.Model.Data
import QR.Spec.Stream
import QR.Proofs.Finite
import QR.Proofs.C02Tables
/-
C07 - fitting (finite part so far: the capacity table the bisect runs on is 8 x ISO data codewords, increasing).
-/
namespace QR.Props
open QR

set_option maxRecDepth 100000 in
/-- `BIT_LIMIT_TABLE[level][v]` = 8 · (ISO data codewords of (v, level)); entry 0 is 0 -/
theorem C07_capacity_table : ∀ l ∈ allLevels,
    ∃ row, Gen.BIT_LIMIT_TABLE[l.indicator]? = some row ∧ row.length = 41 ∧ row[0]? = some 0 ∧
      ∀ v, v < 40 → row[v + 1]? = some (Spec.capacityBits (v + 1) l) := by
  have h : allLevels.all (fun l =>
      match Gen.BIT_LIMIT_TABLE[l.indicator]? with
      | some row => row.length == 41 && row[0]? == some 0 &&
          (List.range 40).all fun v => row[v + 1]? == some (Spec.capacityBits (v + 1) l)
      | none => false) = true := by decide +kernel
  intro l hl
  have := forall_mem_of_all h l hl
  revert this
  cases Gen.BIT_LIMIT_TABLE[l.indicator]? with
  | none => intro h; simp at h
  | some row =>
    intro h
    simp only [Bool.and_eq_true, beq_iff_eq, List.all_eq_true, List.mem_range] at h
    exact ⟨row, rfl, h.1.1, h.1.2, h.2⟩

set_option maxRecDepth 100000 in
/-- capacities strictly increase with the version at every level (the bisect precondition) -/
theorem C07_capacity_monotone : ∀ l ∈ allLevels, ∀ v, v < 39 →
    Spec.capacityBits (v + 1) l < Spec.capacityBits (v + 2) l := by
  have h : allLevels.all (fun l => (List.range 39).all fun v =>
      decide (Spec.capacityBits (v + 1) l < Spec.capacityBits (v + 2) l)) = true := by decide +kernel
  intro l hl v hv
  simpa using forall_lt_of_all (forall_mem_of_all h l hl) v hv

/-- published capacities (tests of the Spec): 40-L 7089/4296/2953, 40-H 3057/1852/1273, 1-L 41/25/17, 1-H 17/10/7 -/
example : Spec.isoCapacity .numeric 40 .L = 7089 ∧ Spec.isoCapacity .alnum 40 .L = 4296 ∧ Spec.isoCapacity .byte 40 .L = 2953 := by decide
example : Spec.isoCapacity .numeric 40 .H = 3057 ∧ Spec.isoCapacity .alnum 40 .H = 1852 ∧ Spec.isoCapacity .byte 40 .H = 1273 := by decide
example : Spec.isoCapacity .numeric 1 .L = 41 ∧ Spec.isoCapacity .alnum 1 .L = 25 ∧ Spec.isoCapacity .byte 1 .L = 17 := by decide
example : Spec.isoCapacity .numeric 1 .H = 17 ∧ Spec.isoCapacity .alnum 1 .H = 10 ∧ Spec.isoCapacity .byte 1 .H = 7 := by decide
example : Spec.isoCapacity .numeric 10 .L = 652 ∧ Spec.isoCapacity .alnum 10 .L = 395 ∧ Spec.isoCapacity .byte 10 .L = 271 := by decide

end QR.Props
