import QR.Gen.Code
import QR.Model.Render
/-
Translation validation, list B5: the PyPNG row generators `PyPNGImage.rows_iter` / `border_rows_iter` (translated from the
generator bodies into the lists they yield: `QR.Gen.Code.pypng_rows` / `pypng_border_rows`), the `PngWriter` arguments of
`new_image`, and `BaseImage.__init__`'s `pixel_size`, against `Model.pypngRows` and `Model.pixelSize`.
-/
namespace QR.SourceTieB
open QR QR.Model QR.Gen.Code

/-- `for _ in range(n): yield x` yields `x` n times -/
theorem flatMap_range_const {α : Type} (n : Nat) (x : α) : ((List.range n).flatMap fun _ => [x]) = List.replicate n x := by
  induction n with
  | zero => rfl
  | succ n ih => rw [List.range_succ, List.flatMap_append, ih, List.replicate_succ']; rfl

/-- `border_rows_iter()`: `border * box_size` rows of `box_size * (width + border * 2)` ones -/
theorem pypngBorderRows_src (width border boxSize : Nat) :
    pypng_border_rows width border boxSize =
      List.replicate (border * boxSize) (List.replicate (boxSize * (width + border * 2)) 1) := by
  unfold pypng_border_rows
  rw [flatMap_range_const]

/-- `rows_iter()`: for every matrix (any shape), width, border and box size -/
theorem pypngRows_src (M : Mods) (width border boxSize : Nat) :
    pypngRows M width border boxSize = pypng_rows M width border boxSize := by
  unfold pypngRows pypng_rows
  simp only [pypngBorderRows_src, flatMap_range_const]
  have h : ∀ p : Bool, (if (!p) = true then 1 else 0 : Nat) = if p = true then 0 else 1 := by
    intro p; cases p <;> rfl
  simp only [h]

/-- `new_image`: a square greyscale image of `pixel_size`, one bit per pixel; `save` feeds it `rows_iter()` -/
theorem pypngWriter_src :
    pypng_writer = "qrcode.compat.png.PngWriter" ∧ (∀ p, pypng_writer_args p = (p, p, true, 1)) ∧
    pypng_save_call = "self._img.write(stream, self.rows_iter())" := ⟨by decide, fun _ => rfl, by decide⟩

/-- `BaseImage.__init__`: `pixel_size` -/
theorem pixelSize_src (width border boxSize : Nat) : pixelSize width border boxSize = pixel_size border width boxSize := rfl

/-- every row of the PNG has `pixel_size` entries when the matrix is `width` wide, and there are `pixel_size` rows when it
    is `width` high: the image handed to `PngWriter(pixel_size, pixel_size, ...)` has the declared size -/
theorem pypngRows_dims (M : Mods) (width border boxSize : Nat) (hlen : M.length = width)
    (hrow : ∀ row ∈ M, row.length = width) :
    (pypng_rows M width border boxSize).length = (pypng_writer_args (pixel_size border width boxSize)).2.1 ∧
    ∀ row ∈ pypng_rows M width border boxSize, row.length = (pypng_writer_args (pixel_size border width boxSize)).1 := by
  rw [← pypngRows_src]
  unfold pypng_writer_args pixel_size pypngRows
  have hsum : ∀ (l : List Bool), (l.flatMap fun point => List.replicate boxSize (if point then 0 else 1 : Nat)).length
      = boxSize * l.length := by
    intro l
    induction l with
    | nil => simp
    | cons a t ih => simp only [List.flatMap_cons, List.length_append, List.length_replicate, ih, List.length_cons]; rw [Nat.mul_succ]; omega
  have hrows : ∀ (L : List (List Bool)) (f : List Bool → List Nat),
      (L.flatMap fun r => List.replicate boxSize (f r)).length = boxSize * L.length := by
    intro L f
    induction L with
    | nil => simp
    | cons a t ih => simp only [List.flatMap_cons, List.length_append, List.length_replicate, ih, List.length_cons]; rw [Nat.mul_succ]; omega
  constructor
  · simp only [List.length_append, List.length_replicate, hrows, hlen]
    rw [Nat.add_mul, Nat.mul_comm boxSize width]
    have : border * 2 * boxSize = border * boxSize + border * boxSize := by rw [Nat.mul_right_comm, Nat.mul_two]
    omega
  · intro row hr
    simp only [List.mem_append, List.mem_replicate, List.mem_flatMap] at hr
    have hb : boxSize * (width + border * 2) = (width + border * 2) * boxSize := Nat.mul_comm _ _
    rcases hr with (⟨_, rfl⟩ | ⟨mr, hmr, _, rfl⟩) | ⟨_, rfl⟩
    · simp [hb]
    · simp only [List.length_append, List.length_replicate, hsum, hrow mr hmr]
      rw [← hb, Nat.mul_add, Nat.mul_comm border 2, ← Nat.mul_assoc, Nat.mul_comm boxSize 2, Nat.mul_assoc, Nat.two_mul]
      omega
    · simp [hb]

end QR.SourceTieB
