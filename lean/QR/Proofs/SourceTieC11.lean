import QR.Gen.Code
import QR.Model.Basic
/-
Translation validation for C11: the hand-written Model is PROVED equal to the expressions tools/translate.py (T2) extracts from
the Python AST of the current source on every run (lean/QR/Gen/Code.lean).  One file per property, so that a fragment that
changed (or became untranslatable) breaks the obligations of the property it belongs to and of no other.
-/
namespace QR.SourceTie
open QR QR.Gen.Code

/-- structure of `make`: which methods are called, in which order -/
theorem structure_make :
    make_calls = ["self.best_fit", "self.makeImpl", "self.best_mask_pattern", "self.makeImpl"] := by decide

end QR.SourceTie
