import QR.Gen.Code
import QR.Model.Render
/-
Translation validation for C15: `get_module` of print_ascii as it stands in the source.
-/
namespace QR.SourceTie
open QR QR.Model QR.Gen.Code

theorem getModule_eq (M : Mods) (modcount border : Nat) (invert : Bool) (x y : Int) :
    getModule M modcount border invert x y =
      if get_module_phantom modcount border invert x y then get_module_phantom_value
      else if get_module_outside modcount x y then get_module_outside_value
      else if (M.getD x.toNat []).getD y.toNat false then 1 else 0 := by
  unfold getModule get_module_phantom get_module_outside get_module_phantom_value get_module_outside_value
  by_cases hi : invert = true <;> by_cases hb : border = 0 <;>
    by_cases h1 : max x y ≥ (modcount : Int) + border <;>
    by_cases h2 : min x y < 0 <;> by_cases h3 : max x y ≥ (modcount : Int) <;> simp_all <;> omega

theorem getModule_inside : get_module_inside = "cast(int, self.modules[x][y])" := rfl

end QR.SourceTie
