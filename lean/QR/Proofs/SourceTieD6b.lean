import QR.Gen.Code
import QR.Model.Matrix
import QR.Proofs.SourceTieD6a
/-
Translation validation, list D6, part b: `QRCode.setup_position_probe_pattern`, `setup_timing_pattern`,
`setup_position_adjust_pattern` translated WHOLE (loops, `continue` tests, colour expressions, cell coordinates; over an abstract
matrix with `isSet m r c` = `self.modules[r][c] is not None` and `set m r c v` = `self.modules[r][c] = v`) against
`Model.setupProbe`, `Model.setupTiming`, `Model.setupAdjust`, for every size, matrix, position and position list.
-/
namespace QR.SourceTieD6
open QR QR.Model QR.Gen.Code

/-- `self.modules[r][c] is not None` on the Model's matrix (coordinates are non-negative where the source reads) -/
def isSetM (m : Mat) (r c : Int) : Bool := (m.get r.toNat c.toNat).isSome
/-- `self.modules[r][c] = v` on the Model's matrix -/
def setM (m : Mat) (r c : Int) (x : Bool) : Mat := m.set r.toNat c.toNat (some x)

theorem foldl_lo_range {β : Type} (a b : Int) (f : β → Int → β) (m : β) :
    (lo_range a b).foldl f m = (List.range (b - a).toNat).foldl (fun m (k : Nat) => f m (a + (k : Int))) m := by
  unfold lo_range
  rw [List.foldl_map]

theorem foldl_const {β ι : Type} (l : List ι) (m : β) : l.foldl (fun m _ => m) m = m := by
  induction l with
  | nil => rfl
  | cons a l ih => simpa using ih

theorem foldl_congr {β ι : Type} (l : List ι) (f g : β → ι → β) (h : ∀ m i, i ∈ l → f m i = g m i) (m : β) :
    l.foldl f m = l.foldl g m := by
  induction l generalizing m with
  | nil => rfl
  | cons a l ih =>
    simp only [List.foldl_cons]
    rw [h m a (by simp)]
    exact ih (fun m i hi => h m i (by simp [hi])) _

theorem set_congr (m : Mat) {a a' b b' : Nat} {x x' : Bool} (ha : a = a') (hb : b = b') (hx : x = x') :
    m.set a b (some x) = m.set a' b' (some x') := by subst ha hb hx; rfl

/-- **`setup_position_probe_pattern(row, col)`** -/
theorem setupProbe_src (n : Nat) (m : Mat) (row col : Nat) :
    setupProbe n m row col = lo_setup_position_probe_pattern isSetM setM (n : Int) (row : Int) (col : Int) m := by
  unfold setupProbe lo_setup_position_probe_pattern
  simp only [foldl_lo_range]
  have h9 : ((8 : Int) - (-1)).toNat = 9 := by decide
  rw [h9]
  apply foldl_congr
  intro m r' _
  simp only [Int.ofNat_eq_natCast]
  by_cases hr : ((row : Int) + (-1 + (r' : Int)) ≤ -1 ∨ (n : Int) ≤ (row : Int) + (-1 + (r' : Int)))
  · have hs : (decide ((row : Int) + (-1 + (r' : Int)) ≤ -1) || decide ((n : Int) ≤ (row : Int) + (-1 + (r' : Int)))) = true := by
      simpa using hr
    rw [if_pos hs, foldl_congr _ _ (fun m _ => m) (fun m c' _ => ?_), foldl_const]
    simp only [Mat.setI]
    rw [if_pos]
    rcases hr with h | h
    · left; omega
    · right; left; omega
  · have hs : ¬ (decide ((row : Int) + (-1 + (r' : Int)) ≤ -1) || decide ((n : Int) ≤ (row : Int) + (-1 + (r' : Int)))) = true := by
      simpa using hr
    rw [if_neg hs]
    apply foldl_congr
    intro m c' _
    by_cases hc : ((col : Int) + (-1 + (c' : Int)) ≤ -1 ∨ (n : Int) ≤ (col : Int) + (-1 + (c' : Int)))
    · have hs2 : (decide ((col : Int) + (-1 + (c' : Int)) ≤ -1) || decide ((n : Int) ≤ (col : Int) + (-1 + (c' : Int)))) = true := by
        simpa using hc
      rw [if_pos hs2]
      simp only [Mat.setI]
      rw [if_pos]
      rcases hc with h | h
      · right; right; left; omega
      · right; right; right; omega
    · have hs2 : ¬ (decide ((col : Int) + (-1 + (c' : Int)) ≤ -1) || decide ((n : Int) ≤ (col : Int) + (-1 + (c' : Int)))) = true := by
        simpa using hc
      rw [if_neg hs2]
      simp only [Mat.setI]
      rw [if_neg (by omega)]
      simp only [setM]
      split
      · next hd =>
        simp only [Bool.or_eq_true, Bool.and_eq_true, decide_eq_true_eq] at hd
        refine set_congr m (by omega) (by omega) ?_
        simp only [decide_eq_true_eq]; omega
      · next hd =>
        simp only [Bool.or_eq_true, Bool.and_eq_true, decide_eq_true_eq] at hd
        refine set_congr m (by omega) (by omega) ?_
        simp only [decide_eq_false_iff_not]; omega

/-- **`setup_timing_pattern()`**: column 6 first (rows 8 .. n-9), then row 6, only cells still `None`, even index dark -/
theorem setupTiming_src (n : Nat) (m : Mat) :
    setupTiming n m = lo_setup_timing_pattern isSetM setM (n : Int) m := by
  unfold setupTiming lo_setup_timing_pattern
  simp only [foldl_lo_range]
  have h : ((n : Int) - 8 - 8).toNat = n - 16 := by omega
  rw [h]
  have t6 : (6 : Int).toNat = 6 := rfl
  have e1 : ∀ m : Mat, (List.range (n - 16)).foldl (fun m k =>
        let r := k + 8
        if (m.get r 6).isSome then m else m.set r 6 (some (r % 2 = 0))) m =
      (List.range (n - 16)).foldl (fun (m : Mat) (k : Nat) =>
        if isSetM m (8 + (k : Int)) 6 then m else
        let m : Mat := setM m (8 + (k : Int)) 6 (decide ((8 + (k : Int)) % 2 = 0))
        m) m := by
    intro m
    apply foldl_congr
    intro m k _
    have t1 : (8 + (k : Int)).toNat = k + 8 := by omega
    have t2 : decide ((8 + (k : Int)) % 2 = 0) = decide ((k + 8) % 2 = 0) := decide_eq_decide.mpr (by omega)
    simp only [isSetM, setM, t1, t2, t6]
  have e2 : ∀ m : Mat, (List.range (n - 16)).foldl (fun m k =>
        let c := k + 8
        if (m.get 6 c).isSome then m else m.set 6 c (some (c % 2 = 0))) m =
      (List.range (n - 16)).foldl (fun (m : Mat) (k : Nat) =>
        if isSetM m 6 (8 + (k : Int)) then m else
        let m : Mat := setM m 6 (8 + (k : Int)) (decide ((8 + (k : Int)) % 2 = 0))
        m) m := by
    intro m
    apply foldl_congr
    intro m k _
    have t1 : (8 + (k : Int)).toNat = k + 8 := by omega
    have t2 : decide ((8 + (k : Int)) % 2 = 0) = decide ((k + 8) % 2 = 0) := decide_eq_decide.mpr (by omega)
    simp only [isSetM, setM, t1, t2, t6]
  show List.foldl _ (List.foldl _ m _) _ = List.foldl _ (List.foldl _ m _) _
  rw [e2, e1]

/-! ### `setup_position_adjust_pattern` -/

theorem map_getD_range (l : List Nat) : (List.range l.length).map (fun k => l.getD k 0) = l := by
  apply List.ext_getElem
  · simp
  · intro i h1 h2
    simp at h1
    simp [List.getD, h1]

theorem getitemD_map_nat (l : List Nat) (k : Nat) : lo_py_getitemD (l.map Int.ofNat) (0 + (k : Int)) = ((l.getD k 0 : Nat) : Int) := by
  unfold lo_py_getitemD lo_py_getitem
  have h : ¬ (0 + (k : Int) < 0) := by omega
  have h2 : (0 + (k : Int)).toNat = k := by omega
  simp only [h, if_false, h2, List.getElem?_map, List.getD]
  cases l[k]? <;> rfl

/-- `for i in range(len(pos)): x = pos[i]; ...` is the fold over the list -/
theorem foldl_index_map {β : Type} (l : List Nat) (f : β → Nat → β) (m : β) :
    l.foldl f m =
      (lo_range 0 (lo_py_len (l.map Int.ofNat))).foldl (fun m i => f m (lo_py_getitemD (l.map Int.ofNat) i).toNat) m := by
  rw [foldl_lo_range]
  have h : (lo_py_len (l.map Int.ofNat) - 0).toNat = l.length := by simp [lo_py_len]
  rw [h]
  simp only [getitemD_map_nat, Int.toNat_natCast]
  conv => lhs; rw [← map_getD_range l]
  rw [List.foldl_map]

theorem getitemD_nonneg (l : List Nat) (i : Int) : 0 ≤ lo_py_getitemD (l.map Int.ofNat) i := by
  unfold lo_py_getitemD
  cases h : lo_py_getitem (l.map Int.ofNat) i with
  | none => decide
  | some a =>
    unfold lo_py_getitem at h
    by_cases hc : (if i < 0 then i + ((l.map Int.ofNat).length : Int) else i) < 0
    · rw [if_pos hc] at h; exact absurd h (by simp)
    · rw [if_neg hc, List.getElem?_map] at h
      simp only [Option.map_eq_some_iff] at h
      obtain ⟨b, _, rfl⟩ := h
      exact Int.natCast_nonneg b

/-- **`setup_position_adjust_pattern()`** (given `pos = util.pattern_position(self.version)`): both index loops, the
    `is not None` skip, the 5x5 loops over -2..2 and the colour expression -/
theorem setupAdjust_src (m : Mat) (pos : List Nat) :
    setupAdjust m pos = lo_setup_position_adjust_pattern isSetM setM (pos.map Int.ofNat) m := by
  unfold setupAdjust lo_setup_position_adjust_pattern
  simp only [foldl_index_map pos]
  apply foldl_congr
  intro m i _
  apply foldl_congr
  intro m j _
  have hi := getitemD_nonneg pos i
  have hj := getitemD_nonneg pos j
  generalize lo_py_getitemD (pos.map Int.ofNat) i = R at hi
  generalize lo_py_getitemD (pos.map Int.ofNat) j = C at hj
  have hu : (m.get R.toNat C.toNat).isSome = isSetM m R C := rfl
  rw [hu]
  by_cases hs : isSetM m R C = true
  · rw [if_pos hs, if_pos hs]
  · rw [if_neg hs, if_neg hs]
    unfold drawAlign
    simp only [foldl_lo_range]
    have h5 : ((3 : Int) - (-2)).toNat = 5 := by decide
    rw [h5]
    apply foldl_congr
    intro m r' hr
    apply foldl_congr
    intro m c' hc
    simp only [List.mem_range] at hr hc
    simp only [setM]
    split
    · next hd =>
      simp only [Bool.or_eq_true, Bool.and_eq_true, decide_eq_true_eq] at hd
      refine set_congr m (by omega) (by omega) ?_
      simp only [decide_eq_true_eq]; omega
    · next hd =>
      simp only [Bool.or_eq_true, Bool.and_eq_true, decide_eq_true_eq] at hd
      refine set_congr m (by omega) (by omega) ?_
      simp only [decide_eq_false_iff_not]; omega

theorem adjust_literals : lo_adjust_positions_call = ("util.pattern_position", "self.version") := by decide

/-- every centre in the regenerated table is at least 6, so the writes at `row + r`, `col + c` (`r, c ≥ -2`) never use a
    negative index (where Python would wrap and `setM` truncates) -/
theorem adjust_positions_ge : ∀ row ∈ Gen.PATTERN_POSITION_TABLE, ∀ p ∈ row, 6 ≤ p := by decide

/-- **the blank of every version** (`makeImpl` on a cache miss) is: the three translated finder patterns at the corners, the
    translated alignment patterns at the translated `pattern_position(version)`, the translated timing patterns -/
theorem blank_patterns_src (version : Nat) (hv : 1 ≤ version) :
    blank version =
      (match lo_pattern_position Gen.PATTERN_POSITION_TABLE (version : Int) with
       | none => .error .indexError
       | some pos =>
         let n := version * 4 + 17
         let P := fun (m : Mat) (row col : Nat) =>
           lo_setup_position_probe_pattern isSetM setM (n : Int) (row : Int) (col : Int) m
         .ok (lo_setup_timing_pattern isSetM setM (n : Int)
               (lo_setup_position_adjust_pattern isSetM setM (pos.map Int.ofNat)
                 (P (P (P (Mat.empty n) 0 0) (n - 7) 0) 0 (n - 7))))) := by
  unfold blank
  rw [patternPosition_src version hv]
  cases lo_pattern_position Gen.PATTERN_POSITION_TABLE (version : Int) with
  | none => rfl
  | some pos =>
    simp only [bind, Except.bind, pure, Except.pure, setupProbe_src, setupAdjust_src, setupTiming_src]

end QR.SourceTieD6
