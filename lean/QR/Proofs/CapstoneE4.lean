import QR.Proofs.CapstoneE1
import QR.Proofs.CapstoneE2C05
import QR.Proofs.CapstoneE2C06
import QR.Proofs.CapstoneE3
import QR.Proofs.SourceTieC09
import QR.Proofs.SourceTieD1b
import QR.Proofs.SourceTieD3
import QR.Proofs.History
import QR.Proofs.Symbol
import QR.Proofs.ReadBack
import QR.Proofs.Penalty
import QR.Props.C04
import QR.Props.C06
/-
Helpers for the capstone theorems `Cxx_source_capstone_*` of QR/Props/C01.lean, C03.lean, C09.lean: THE WHOLE COMPILE assembled
from translated parts (definitions and the equations with the Model only; the capstones themselves are in the Props files).

`compileSrc` is the cache-free compile of a fresh object (`QRCode(version, error_correction, mask_pattern)`, `data_list = segs`,
`make(fit)`), i.e. `Model.compile`, with every stage replaced by the function assembled from the `QR.Gen.Code` fragments
(regenerated from the current Python AST on every run):
  make()               its translated tests / arguments `make_fit_test`, `make_fit_start`, `make_mask_test`, `make_none_test_arg`,
                       `make_some_test_arg`, `make_some_mask_arg` (the same ones `CapstoneE3.makeSrc` / `SourceTieB.makeS_src` use)
  best_fit             `CapstoneE1.bestFitSrc` over `CapstoneE1.segsBitsSrc`
  create_data          `createDataSrc` = `CapstoneE2.dataBitsSrc` (+ `lengthInBitsSrc`, `rsBlocksSrc`) -> `rsBlocksSrc` -> `createBytesSrc`
                       over `ecOfBlockSrc`
  best_mask_pattern    `bestMaskSrc` = the loop over `mask_candidates` candidates with the translated update test `pick_update`
  makeImpl             `CapstoneE2.makeImplSrc` (`blankSrc`, `setupTypeInfoSrc`, `setupTypeNumberSrc`, `srcMapData` + `maskFuncSrc`)
  lost_point           `lostPointSrc` = the translated `util.lost_point` over the four translated scanners
  add_data             `addAllSrc` = the translated `QRCode.add_data` (`sg_add_data`) called once per payload
The stages are PARAMETERS of `compileSrc`; the capstones instantiate them explicitly, so that every Model function that is
left (a callee not translated in place) is visible in the statement.  Three layers of instantiation are proved equal to
`Model.compile`: `compileSrc_eq_lostModel` (`lost_point` the Model's), `compileSrc_eq` (`lostPointSrc`), and
`compileSrc_eq_refined` (in addition `segsBitsBufSrc` / `writeBufSrc`: the segment loop of `create_data` and the `data.write` of
`best_fit` on the translated BitBuffer; `modeSizesSrc`, `checkVersionSrc`, `bchDigitSrc`), the last one leaving as Model callees only
`bisectLeft`, `rsPolyFor`, `polyMk`, `polyMod`, `intOfDigits` and the parameter `find_bytes` (with `alphaFind` in its hypothesis).
-/
namespace QR.CapstoneE4
open QR QR.Model QR.Gen.Code QR.SourceTieA QR.SourceTieB QR.SourceTieT QR.SourceTieD1 QR.CapstoneE1 QR.CapstoneE2 QR.CapstoneE3

/-! ### create_data, whole -/

/-- `util.create_data(version, error_correction, data_list)` assembled from source-assembled parts: the bit stream
    (`dataBitsSrc`: translated overflow test, terminator length, pad alternation, with the source-assembled `length_in_bits`
    and `rs_blocks`), then `rs_blocks` and `create_bytes` (`createBytesSrc`: translated main loop and interleaving loops).
    Parameters: `segs_bits` = the segment loop (headers and `QRData.write`), `ec` = the `current_ec` computation of one block.
    `packBytes` reads the bit list as `buffer.buffer`. -/
def createDataSrc (segs_bits : (Nat → R Nat) → List Seg → R (List Bool)) (ec : List Nat → Nat → R (List Nat))
    (version level : Nat) (segs : List Seg) : R (List Nat) := do
  let bits ← dataBitsSrc segs_bits lengthInBitsSrc rsBlocksSrc version level segs
  let blocks ← rsBlocksSrc version level
  createBytesSrc ec (packBytes bits) blocks

theorem createDataSrc_eq (v level : Nat) (segs : List Seg) (hv : 1 ≤ v) :
    createDataSrc segsBits (ecOfBlockSrc rsPolyFor polyMk polyMod) v level segs = createData v level segs := by
  unfold createDataSrc createData
  rw [QR.Props.C06_source_dataBitsSrc_eq v level segs hv, QR.Props.C02_source_rsBlocksSrc_eq v level hv]
  simp only [QR.Props.C02_source_createBytesSrc_eq]

/-! ### makeImpl (the equation of Props/C05.lean, re-proved here from the same bridges: Props/C05 imports Props/C03, which
    imports this file) -/

theorem makeImplSrc_eq (v level : Nat) (test : Bool) (mask : Nat) (data : List Nat) (hv : 1 ≤ v) :
    makeImplSrc bchDigit v level test mask data = makeImpl v level test mask data := by
  rw [QR.SourceTieB.makeImpl_src]
  unfold makeImplSrc
  rw [show blankSrc v = blank v from (QR.SourceTieD6.blank_patterns_src v hv).symm]
  cases hB : blank v with
  | error e => rfl
  | ok B =>
    have hn : 15 ≤ makeImpl_modules_count v := by unfold makeImpl_modules_count; omega
    simp only [R.bind_ok, QR.Props.C04_source_setupTypeInfoSrc_eq _ _ hn,
      QR.Props.C04_source_setupTypeNumberSrc_eq _ _ (Nat.le_trans (by omega) hn)]
    by_cases hm : (makeImpl_map_args mask).2 > 7
    · simp only [if_pos hm]
    · simp only [if_neg hm]
      have hk : mask < 8 := by simp only [makeImpl_map_args] at hm; omega
      rw [show (makeImpl_map_args mask).2 = mask from rfl, maskFuncSrc_eq mask hk]
      rw [show makeImpl_modules_count v = v * 4 + 17 from rfl, QR.SourceTieT.mapData_src_version]
      rfl

/-! ### best_mask_pattern -/

/-- `QRCode.best_mask_pattern()` assembled from its translated fragments: `for i in range(mask_candidates)`, the trial symbol
    `self.makeImpl(True, i)` (`mask_trial_call`), its score, the translated update test `pick_update` of the running
    `(min_lost_point, pattern)`. Parameters: `makeImplF test mask` = `self.makeImpl(test, mask)` (returning `self.modules`),
    `lost` = `util.lost_point(self.modules)`. -/
def bestMaskSrc (makeImplF : Bool → Nat → R Mat) (lost : Mat → Nat) : R Nat := do
  let (_, pattern) ← (List.range mask_candidates).foldlM (fun (st : Nat × Nat) i => do
      let m ← makeImplF true i
      pure (if pick_update i st.1 (lost m) then (lost m, i) else st)) (0, 0)
  pure pattern

theorem bestMaskSrc_eq (v level : Nat) (data : List Nat) :
    bestMaskSrc (fun t i => makeImpl v level t i data) (fun m => lostPoint m.toBMat) = bestMaskPattern v level data := by
  unfold bestMaskSrc bestMaskPattern
  simp only [QR.SourceTie.pick_eq]
  rfl

/-- the loop only looks at `makeImplF true i`, `i < mask_candidates`, and at `lost` of the matrices these return -/
theorem bestMaskSrc_congr (f f' : Bool → Nat → R Mat) (lost lost' : Mat → Nat)
    (hf : ∀ i, i < mask_candidates → f true i = f' true i)
    (hl : ∀ i m, i < mask_candidates → f' true i = .ok m → lost m = lost' m) :
    bestMaskSrc f lost = bestMaskSrc f' lost' := by
  unfold bestMaskSrc
  congr 1
  generalize ((0, 0) : Nat × Nat) = st
  have hmem : ∀ i ∈ List.range mask_candidates, i < mask_candidates := fun i hi => List.mem_range.mp hi
  generalize List.range mask_candidates = is at hmem
  induction is generalizing st with
  | nil => rfl
  | cons i is ih =>
    simp only [List.foldlM_cons]
    rw [hf i (hmem i (List.mem_cons_self ..))]
    cases hm : f' true i with
    | error e => rfl
    | ok m =>
      simp only [R.bind_ok, R.pure_eq, hl i m (hmem i (List.mem_cons_self ..)) hm]
      exact ih _ (fun j hj => hmem j (List.mem_cons_of_mem _ hj))

/-! ### lost_point -/

/-- `util.lost_point(modules)` on the module matrix of a compiled symbol: the translated function (`len(modules)`, the four
    calls, their sum) over the four translated scanners (`level1Src`, `level2Src`, `l3f_level3`, the rule-4 value);
    `Mat.toBMat` reads `self.modules` as Booleans (no `None` is left in a compiled symbol) -/
def lostPointSrc (m : Mat) : Nat :=
  l3f_lost_point List.length level1Src level2Src (fun M n => l3f_level3 (lp_cell M) n)
    (fun M n => (lp4_result (lp4_dark_count M) n).toNat) m.toBMat

theorem toBMat_square (m : Mat) (n : Nat) (h : MatShape m n) : ∀ row ∈ m.toBMat, row.length = m.toBMat.length := by
  intro row hrow
  unfold Mat.toBMat at hrow ⊢
  rw [List.mem_map] at hrow
  obtain ⟨r, hr, rfl⟩ := hrow
  rw [List.length_map, List.length_map, Array.length_toList, Array.length_toList]
  obtain ⟨i, hi, rfl⟩ := List.getElem_of_mem hr
  rw [Array.length_toList] at hi
  have := h.2 i (h.1 ▸ hi)
  rw [h.1]
  simpa [Array.getD, hi] using this

theorem lostPointSrc_eq (m : Mat) (n : Nat) (h : MatShape m n) : lostPointSrc m = lostPoint m.toBMat :=
  (QR.SourceTieD3.lost_point_src m.toBMat (toBMat_square m n h)).symm

/-- on a non-empty square module matrix the translated `lost_point` is the ISO penalty (C08) -/
theorem lostPointSrc_eq_penalty (m : Mat) (n : Nat) (h : MatShape m n) (hn : 1 ≤ n) :
    lostPointSrc m = Spec.penalty m.toBMat := by
  rw [lostPointSrc_eq m n h]
  have hlen : m.toBMat.length = n := by
    unfold Mat.toBMat
    rw [List.length_map, Array.length_toList]
    exact h.1
  exact QR.Proofs.Penalty.lostPoint_eq_penalty m.toBMat n hn hlen (fun row hrow => (toBMat_square m n h row hrow).trans hlen)

/-! ### make(fit) on a fresh object: the whole compile -/

/-- THE WHOLE COMPILE, cache-free, of a fresh object: `QRCode(version, error_correction, mask_pattern)`, `data_list = segs`,
    `make(fit)`; returns (version, mask used, `self.modules`).  Statement order and tests of `QRCode.make` as translated
    (`make_*`): reading `self.version` while `_version is None` runs `best_fit()` first (the `version` property); then
    `if fit or (self.version is None): self.best_fit(start=self.version)` (`make_fit_test`, `make_fit_start`; the second
    disjunct is `false` after the read); then `if self.mask_pattern is None` (`make_mask_test`):
    `self.makeImpl(False, self.best_mask_pattern())` (`make_none_test_arg`, `bestMaskSrc`), else
    `self.makeImpl(False, self.mask_pattern)` (`make_some_test_arg`, `make_some_mask_arg`).  As in `Model.compile`, the
    `data_cache` that the first `makeImpl` fills is computed once, before the mask is chosen, and the
    `precomputed_qr_blanks` cache is not modelled (every `makeImpl` is a cache miss).
    Parameters (the callees): `bestFitF start level segs` = `self.best_fit(start)` (0 = `None`),
    `createDataF version level segs` = `util.create_data`, `makeImplF version level test mask data` = `self.makeImpl(test, mask)`
    given the codewords, `lost` = `util.lost_point(self.modules)`. -/
def compileSrc (bestFitF : Nat → Nat → List Seg → R Nat) (createDataF : Nat → Nat → List Seg → R (List Nat))
    (makeImplF : Nat → Nat → Bool → Nat → List Nat → R Mat) (lost : Mat → Nat)
    (cfg : Cfg) (segs : List Seg) : R (Nat × Nat × Mat) := do
  let v0 ← (if cfg.version = 0 then bestFitF 0 cfg.level segs else pure cfg.version : R Nat)
  let v ← (if make_fit_test cfg.fit false then bestFitF (make_fit_start v0) cfg.level segs else pure v0 : R Nat)
  let data ← createDataF v cfg.level segs
  if make_mask_test cfg.mask.isNone then do
    let mask ← bestMaskSrc (fun t i => makeImplF v cfg.level t i data) lost
    let m ← makeImplF v cfg.level make_none_test_arg mask data
    pure (v, mask, m)
  else do
    let m ← makeImplF v cfg.level make_some_test_arg (make_some_mask_arg (cfg.mask.getD 0)) data
    pure (v, make_some_mask_arg (cfg.mask.getD 0), m)

/-- the Model's `best_fit` returns a version in 1..40 when it returns -/
theorem bestFit_ok_range {fuel start level : Nat} {segs : List Seg} {v : Nat}
    (h : bestFit fuel start level segs = .ok v) : 1 ≤ v ∧ v ≤ 40 := by
  obtain ⟨h1, _, _, _, h4⟩ := bestFitS_spec fuel start
    ({ (default : QRState) with level := level, dataList := segs } : QRState)
  exact (h4 v (by rw [h1]; exact h)).2

/-- with the Model's callees, `compileSrc` is `Model.compile` (by unfolding; the translated tests are the Model's) -/
theorem compileSrc_model (cfg : Cfg) (segs : List Seg) :
    compileSrc (bestFit 4) createData makeImpl (fun m => lostPoint m.toBMat) cfg segs = compile cfg segs := by
  obtain ⟨version, level, mask, fit⟩ := cfg
  unfold compileSrc compile chooseVersion
  simp only [make_fit_test, make_fit_start, make_mask_test, make_none_test_arg, make_some_test_arg, make_some_mask_arg,
    Bool.or_false, bestMaskSrc_eq]
  by_cases hz : version = 0 <;> cases fit <;> cases mask <;>
    simp only [hz, if_true, if_false, Option.isNone_none, Option.isNone_some, Option.getD_some, R.pure_eq, R.bind_ok,
      Bool.false_eq_true] <;>
    first
      | rfl
      | (cases bestFit 4 0 level segs <;> rfl)

/-- `compileSrc` only depends on its callees at versions ≥ 1 (whatever `best_fit` returns and the configured version
    when there is one), at the eight trial masks, and at `lost` of the matrices `makeImpl` returns -/
theorem compileSrc_congr (bf bf' : Nat → Nat → List Seg → R Nat) (cd cd' : Nat → Nat → List Seg → R (List Nat))
    (mi mi' : Nat → Nat → Bool → Nat → List Nat → R Mat) (lost lost' : Mat → Nat) (cfg : Cfg) (segs : List Seg)
    (hbf : ∀ start, bf start cfg.level segs = bf' start cfg.level segs)
    (hbf1 : ∀ start v, bf' start cfg.level segs = .ok v → 1 ≤ v)
    (hcd : ∀ v, 1 ≤ v → cd v cfg.level segs = cd' v cfg.level segs)
    (hmi : ∀ v t k data, 1 ≤ v → mi v cfg.level t k data = mi' v cfg.level t k data)
    (hlost : ∀ v k data m, 1 ≤ v → k < mask_candidates → mi' v cfg.level true k data = .ok m → lost m = lost' m) :
    compileSrc bf cd mi lost cfg segs = compileSrc bf' cd' mi' lost' cfg segs := by
  unfold compileSrc
  simp only [hbf]
  cases hv0 : (if cfg.version = 0 then bf' 0 cfg.level segs else pure cfg.version : R Nat) with
  | error e => rfl
  | ok v0 =>
    have h0 : 1 ≤ v0 := by
      by_cases hz : cfg.version = 0
      · rw [if_pos hz] at hv0; exact hbf1 0 v0 hv0
      · rw [if_neg hz] at hv0
        have : cfg.version = v0 := Except.ok.inj hv0
        exact this ▸ Nat.pos_of_ne_zero hz
    simp only [R.bind_ok]
    cases hv : (if make_fit_test cfg.fit false = true then bf' (make_fit_start v0) cfg.level segs else pure v0 : R Nat) with
    | error e => rfl
    | ok v =>
      have h1 : 1 ≤ v := by
        by_cases hf : make_fit_test cfg.fit false = true
        · rw [if_pos hf] at hv; exact hbf1 _ v hv
        · rw [if_neg hf] at hv
          have : v0 = v := Except.ok.inj hv
          omega
      simp only [R.bind_ok]
      rw [hcd v h1]
      cases hd : cd' v cfg.level segs with
      | error e => rfl
      | ok data =>
        simp only [R.bind_ok]
        have hm : ∀ t k, mi v cfg.level t k data = mi' v cfg.level t k data := fun t k => hmi v t k data h1
        rw [bestMaskSrc_congr (fun t i => mi v cfg.level t i data) (fun t i => mi' v cfg.level t i data) lost lost'
          (fun i _ => hm true i) (fun i m hi hmk => hlost v i data m h1 hi hmk)]
        simp only [hm]

/-- the Model's `makeImpl` returns a square matrix when it returns (version ≥ 1, level one of the four indicators, one of
    the eight masks) -/
theorem makeImpl_shape {v level k : Nat} {t : Bool} {data : List Nat} {m : Mat} (h1 : 1 ≤ v) (hl : level < 4) (hk : k < 8)
    (h : makeImpl v level t k data = .ok m) : MatShape m (Spec.size v) := by
  have h40 : v ≤ 40 := by
    rw [makeImpl_eq] at h
    cases hb : blank v with
    | ok b => exact le_of_blank_ok hb
    | error e => rw [hb] at h; cases h
  obtain ⟨M, hM, hshape, _⟩ := QR.Sym.makeImpl_spec v level k t data h1 h40 hl hk
  rw [h] at hM
  exact (Except.ok.inj hM) ▸ hshape

/-- **the whole compile from translated parts = `Model.compile`** (layer 1: `lost_point` still the Model's), for EVERY
    configuration and segment list, no hypothesis: by `bestFitSrc_eq`, `createDataSrc_eq`, `makeImplSrc_eq`,
    `SourceTie.pick_eq` (the versions at which the callees are compared are ≥ 1 by `bestFit_ok_range`) -/
theorem compileSrc_eq_lostModel (cfg : Cfg) (segs : List Seg) :
    compileSrc (bestFitSrc modeSizes (segsBitsSrc segWrite) Gen.BIT_LIMIT_TABLE bisectLeft checkVersion 4)
      (createDataSrc segsBits (ecOfBlockSrc rsPolyFor polyMk polyMod)) (makeImplSrc bchDigit)
      (fun m => lostPoint m.toBMat) cfg segs = compile cfg segs := by
  rw [← compileSrc_model]
  exact compileSrc_congr _ _ _ _ _ _ _ _ cfg segs (fun start => bestFitSrc_eq 4 start cfg.level segs)
    (fun start v h => (bestFit_ok_range h).1) (fun v hv => createDataSrc_eq v cfg.level segs hv)
    (fun v t k data hv => makeImplSrc_eq v cfg.level t k data hv) (fun _ _ _ _ _ _ _ => rfl)

/-- **the whole compile from translated parts = `Model.compile`** (layer 2: `util.lost_point` and its four scanners
    translated as well), for every configuration whose level is one of the four indicators and every segment list -/
theorem compileSrc_eq (cfg : Cfg) (hl : cfg.level < 4) (segs : List Seg) :
    compileSrc (bestFitSrc modeSizes (segsBitsSrc segWrite) Gen.BIT_LIMIT_TABLE bisectLeft checkVersion 4)
      (createDataSrc segsBits (ecOfBlockSrc rsPolyFor polyMk polyMod)) (makeImplSrc bchDigit)
      lostPointSrc cfg segs = compile cfg segs := by
  rw [← compileSrc_model]
  exact compileSrc_congr _ _ _ _ _ _ _ _ cfg segs (fun start => bestFitSrc_eq 4 start cfg.level segs)
    (fun start v h => (bestFit_ok_range h).1) (fun v hv => createDataSrc_eq v cfg.level segs hv)
    (fun v t k data hv => makeImplSrc_eq v cfg.level t k data hv)
    (fun v k data m hv hk h => lostPointSrc_eq m _ (makeImpl_shape hv hl hk h))

/-- the version a successful `Model.compile` reports is ≥ 1 (the configured one, or what `best_fit` returned) -/
theorem chooseVersion_pos {cfg : Cfg} {segs : List Seg} {v : Nat} (h : chooseVersion cfg segs = .ok v) : 1 ≤ v := by
  obtain ⟨h1, _, _, _, h4⟩ := versionStage_spec cfg.fit
    ({ (default : QRState) with version := cfg.version, level := cfg.level, mask := cfg.mask, dataList := segs } : QRState)
  exact (h4 v (by rw [h1]; exact h)).2.1

theorem compile_ok_version_pos {cfg : Cfg} {segs : List Seg} {v m : Nat} {M : Mat}
    (h : compile cfg segs = .ok (v, m, M)) : 1 ≤ v := by
  rw [compile_eq] at h
  obtain ⟨v', hv', h⟩ := R.bind_eq_ok.mp h
  obtain ⟨data, _, h⟩ := R.bind_eq_ok.mp h
  obtain ⟨k, _, h⟩ := R.bind_eq_ok.mp h
  obtain ⟨M', _, h⟩ := R.bind_eq_ok.mp h
  have : v' = v := by injection h with h; injection h
  exact this ▸ chooseVersion_pos hv'

/-! ### refinement: fewer Model callees - the translated BitBuffer / QRData.write, mode_sizes_for_version, check_version, BCH_digit -/

/-- `[get(i) for i in range(n)]` -/
def readBits (get : Nat → R Bool) : Nat → R (List Bool)
  | 0 => .ok []
  | n + 1 => readBits get n >>= fun l => get n >>= fun b => .ok (l ++ [b])

/-- the content of the Python object `(buffer.buffer, buffer.length)` as the translated `BitBuffer.__len__` / `BitBuffer.get`
    report it: `[buffer.get(i) for i in range(len(buffer))]` -/
def bufBits (o : List Nat × Nat) : R (List Bool) := readBits (bb_get Err.indexError o.1 o.2) (bb_len o.1 o.2)

theorem readBits_bbRep (bits : List Bool) : ∀ n, n ≤ bits.length →
    readBits (bb_get Err.indexError (bbRep bits).1 (bbRep bits).2) n = .ok (bits.take n)
  | 0, _ => by simp [readBits]
  | n + 1, h => by
    unfold readBits
    rw [readBits_bbRep bits n (by omega), R.bind_ok, get_src Err.indexError bits n (by omega), R.bind_ok]
    rw [List.take_add_one, List.getElem?_eq_getElem (by omega)]
    rfl

theorem bufBits_bbRep (bits : List Bool) : bufBits (bbRep bits) = .ok bits := by
  unfold bufBits
  rw [bbLen_src, readBits_bbRep bits bits.length (Nat.le_refl _), List.take_length]

/-- the segment loop of `util.create_data` run on the translated `BitBuffer()` (`CapstoneE2.segsLoopSrc`: translated
    `BitBuffer.put` over `put_bit`, translated `QRData.__len__` and `QRData.write`), its bits read back by the translated
    `__len__` / `get`; `find_bytes` = `ALPHA_NUM.find` on a one-character bytes object, `int(chars)` = `Model.intOfDigits` -/
def segsBitsBufSrc (find_bytes : List Nat → R Nat) (width : Nat → R Nat) (segs : List Seg) : R (List Bool) :=
  segsLoopSrc width find_bytes segs bb_init >>= bufBits

theorem segsBitsBufSrc_eq (find_bytes : List Nat → R Nat) (hfb : ∀ a, find_bytes [a] = alphaFind a) (width : Nat → R Nat)
    (segs : List Seg) : segsBitsBufSrc find_bytes width segs = segsBits width segs := by
  unfold segsBitsBufSrc
  rw [bbInit_src, segsLoopSrc_eq width find_bytes hfb segs []]
  cases segsBits width segs with
  | error e => rfl
  | ok bits => simp only [Except.map, R.bind_ok, List.nil_append, bufBits_bbRep]

/-- `data.write(buffer)` as `best_fit` uses it (the bits it appends): the translated `QRData.write` run on the translated
    `BitBuffer()`, bits read back by the translated `__len__` / `get` -/
def writeBufSrc (find_bytes : List Nat → R Nat) (s : Seg) : R (List Bool) :=
  qw_write Err.keyError Err.indexError Err.other intOfDigits find_bytes
      (fun self n l => bb_put (fun (st : List Nat × Nat) b => bb_put_bit Err.indexError st.1 st.2 b) self n l)
      s.mode s.data bb_init >>= bufBits

theorem writeBufSrc_eq (find_bytes : List Nat → R Nat) (hfb : ∀ a, find_bytes [a] = alphaFind a) (s : Seg) :
    writeBufSrc find_bytes s = segWrite s := by
  unfold writeBufSrc
  rw [bbInit_src, segWrite_bytes_src find_bytes hfb s []]
  cases segWrite s with
  | error e => rfl
  | ok bits => simp only [Except.map, R.bind_ok, List.nil_append, bufBits_bbRep]

/-- `util.mode_sizes_for_version(version)`: the translated class boundaries choose among the three dumped dictionaries -/
def modeSizesSrc (version : Nat) : List (Nat × Nat) :=
  match mode_size_class version with
  | 0 => Gen.MODE_SIZE_SMALL
  | 1 => Gen.MODE_SIZE_MEDIUM
  | _ => Gen.MODE_SIZE_LARGE

theorem modeSizesSrc_eq : modeSizesSrc = modeSizes := by
  funext v
  unfold modeSizesSrc modeSizes
  rw [QR.SourceTie.sizeClass_eq]
  rcases sizeClass v with _ | _ | n <;> rfl

/-- `util.check_version(version)` (also what the `version` setter runs): the translated test, ValueError when it holds -/
def checkVersionSrc (version : Int) : R Unit := if check_version_bad version then .error .valueError else .ok ()

theorem checkVersionSrc_eq : checkVersionSrc = checkVersion := by
  funext x
  have hver : check_version_bad x = true ↔ (x < 1 ∨ x > 40) := by
    unfold check_version_bad; simp
  unfold checkVersionSrc checkVersion
  by_cases h : x < 1 ∨ x > 40
  · rw [if_pos h, if_pos (hver.2 h)]
  · rw [if_neg h, if_neg (fun hh => h (hver.1 hh))]

/-- `util.BCH_digit(data)`: translated initialisation, `while` condition, body and result; the loop is given `data`
    iterations (it needs `data.bit_length()`) -/
def bchDigitSrc (data : Nat) : Nat :=
  bch_digit_result (whileFuel digitCond digitStep data (bch_digit_init data)).1
    (whileFuel digitCond digitStep data (bch_digit_init data)).2

theorem bchDigitSrc_eq : bchDigitSrc = bchDigit := by
  funext d
  exact ((bchDigit_src d d Nat.lt_two_pow_self).1).symm

theorem createDataSrc_eq_refined (find_bytes : List Nat → R Nat) (hfb : ∀ a, find_bytes [a] = alphaFind a)
    (v level : Nat) (segs : List Seg) (hv : 1 ≤ v) :
    createDataSrc (segsBitsBufSrc find_bytes) (ecOfBlockSrc rsPolyFor polyMk polyMod) v level segs = createData v level segs := by
  have e2 : segsBitsBufSrc find_bytes = segsBits := by
    funext width segs; exact segsBitsBufSrc_eq find_bytes hfb width segs
  rw [e2]
  exact createDataSrc_eq v level segs hv

theorem makeImplSrc_eq_refined (v level : Nat) (test : Bool) (mask : Nat) (data : List Nat) (hv : 1 ≤ v) :
    makeImplSrc bchDigitSrc v level test mask data = makeImpl v level test mask data := by
  rw [bchDigitSrc_eq]
  exact makeImplSrc_eq v level test mask data hv

/-- `ALPHA_NUM.find(c)` for a one-character bytes object `c` (the only arguments `QRData.write` passes): the instance of the
    parameter `find_bytes` used in the evaluated examples -/
def findBytes1 : List Nat → R Nat
  | [a] => alphaFind a
  | _ => .error .other

/-- **the whole compile from translated parts = `Model.compile`** (layer 3: in addition the segment loop of `create_data` and the
    `data.write` of `best_fit` on the translated BitBuffer, `mode_sizes_for_version`, `check_version`, `BCH_digit` translated);
    Model callees left: `bisectLeft` (bisect.bisect_left), `rsPolyFor` / `polyMk` / `polyMod` (generator lookup,
    `Polynomial.__init__` / `__mod__`), `intOfDigits` (`int(chars)`), and `find_bytes` with its hypothesis -/
theorem compileSrc_eq_refined (find_bytes : List Nat → R Nat) (hfb : ∀ a, find_bytes [a] = alphaFind a)
    (cfg : Cfg) (hl : cfg.level < 4) (segs : List Seg) :
    compileSrc (bestFitSrc modeSizesSrc (segsBitsSrc (writeBufSrc find_bytes)) Gen.BIT_LIMIT_TABLE bisectLeft checkVersionSrc 4)
      (createDataSrc (segsBitsBufSrc find_bytes) (ecOfBlockSrc rsPolyFor polyMk polyMod)) (makeImplSrc bchDigitSrc)
      lostPointSrc cfg segs = compile cfg segs := by
  have e1 : writeBufSrc find_bytes = segWrite := funext (writeBufSrc_eq find_bytes hfb)
  have e2 : segsBitsBufSrc find_bytes = segsBits := by
    funext width segs; exact segsBitsBufSrc_eq find_bytes hfb width segs
  rw [e1, e2, modeSizesSrc_eq, checkVersionSrc_eq, bchDigitSrc_eq]
  exact compileSrc_eq cfg hl segs

/-! ### add_data calls, then make(fit) -/

/-- a translated `QRData` object read as a Model segment (inverse of `SourceTieD1.segQ`) -/
def qSeg (q : sg_QRData) : Seg := { mode := q.mode, data := q.data }

theorem map_qSeg_map_segQ (segs : List Seg) : (segs.map segQ).map qSeg = segs := by
  induction segs with
  | nil => rfl
  | cons s t ih => simp only [List.map_cons, ih]; rfl

/-- `qr.add_data(d, optimize=n)` for every `(d, n)` of `calls`, in order, on an object whose `data_list` is `dl`: the
    translated `QRCode.add_data` (`sg_add_data`, with `optimal_data_chunks`, `_optimal_split`, `QRData.__init__`, `optimal_mode`,
    `to_bytestring` translated below it); `py` = what is left to the interpreter (`SourceTieD1.pyModel F enc`: the `re` engine as
    `searchModel` / `matchModel`, `F d ≥ len(d)` iterations for each `while data:`); returns `self.data_list` -/
def addAllSrc (py : sg_Py Err) : List (List Nat × Nat) → List sg_QRData → R (List sg_QRData)
  | [], dl => .ok dl
  | p :: rest, dl => sg_add_data py dl (none : Option Unit) (.inr p.1) p.2 >>= fun r => addAllSrc py rest r.1

theorem addAllSrc_eq (F enc) (hF : ∀ d : List Nat, d.length ≤ F d) (calls : List (List Nat × Nat)) (dl : List sg_QRData) :
    addAllSrc (pyModel F enc) calls dl = .ok (dl ++ (calls.flatMap fun p => addData p.1 p.2).map segQ) := by
  induction calls generalizing dl with
  | nil => simp [addAllSrc]
  | cons p rest ih =>
    unfold addAllSrc
    rw [addData_src F enc hF dl none p.1 p.2, R.bind_ok, ih]
    simp only [List.flatMap_cons, List.map_append, List.append_assoc]

/-- `qr = QRCode(version, error_correction, mask_pattern)`; `qr.add_data(d, optimize=n)` for each call; `qr.make(fit)`:
    the translated `add_data` calls on the empty `data_list`, then `compileSrc` on the objects they leave -/
def compileCallsSrc (py : sg_Py Err) (bestFitF : Nat → Nat → List Seg → R Nat)
    (createDataF : Nat → Nat → List Seg → R (List Nat)) (makeImplF : Nat → Nat → Bool → Nat → List Nat → R Mat)
    (lost : Mat → Nat) (cfg : Cfg) (calls : List (List Nat × Nat)) : R (Nat × Nat × Mat) :=
  addAllSrc py calls [] >>= fun qs => compileSrc bestFitF createDataF makeImplF lost cfg (qs.map qSeg)

theorem compileCallsSrc_eq (F enc) (hF : ∀ d : List Nat, d.length ≤ F d) (cfg : Cfg) (hl : cfg.level < 4)
    (calls : List (List Nat × Nat)) :
    compileCallsSrc (pyModel F enc) (bestFitSrc modeSizes (segsBitsSrc segWrite) Gen.BIT_LIMIT_TABLE bisectLeft checkVersion 4)
      (createDataSrc segsBits (ecOfBlockSrc rsPolyFor polyMk polyMod)) (makeImplSrc bchDigit) lostPointSrc cfg calls
      = compile cfg (calls.flatMap fun p => addData p.1 p.2) := by
  unfold compileCallsSrc
  rw [addAllSrc_eq F enc hF, R.bind_ok, List.nil_append, map_qSeg_map_segQ, compileSrc_eq cfg hl]

theorem compileCallsSrc_eq_refined (F enc) (hF : ∀ d : List Nat, d.length ≤ F d)
    (find_bytes : List Nat → R Nat) (hfb : ∀ a, find_bytes [a] = alphaFind a) (cfg : Cfg) (hl : cfg.level < 4)
    (calls : List (List Nat × Nat)) :
    compileCallsSrc (pyModel F enc)
      (bestFitSrc modeSizesSrc (segsBitsSrc (writeBufSrc find_bytes)) Gen.BIT_LIMIT_TABLE bisectLeft checkVersionSrc 4)
      (createDataSrc (segsBitsBufSrc find_bytes) (ecOfBlockSrc rsPolyFor polyMk polyMod)) (makeImplSrc bchDigitSrc)
      lostPointSrc cfg calls
      = compile cfg (calls.flatMap fun p => addData p.1 p.2) := by
  unfold compileCallsSrc
  rw [addAllSrc_eq F enc hF, R.bind_ok, List.nil_append, map_qSeg_map_segQ, compileSrc_eq_refined find_bytes hfb cfg hl]

end QR.CapstoneE4
