import QR.Proofs.SourceTieD1
/-
Translation validation, package D1 (segmentation), part 2: `util.optimal_data_chunks` (pattern choice, nested generator
loops, the `QRData(...)` calls) and `QRCode.add_data` as translated into `QR.Gen.Code.sg_optimal_data_chunks` /
`sg_add_data`, against `Model.optimalDataChunks` / `Model.addData`.
-/
namespace QR.SourceTieD1
open QR QR.Model QR.Gen.Code

/-- a generator loop none of whose passes raises yields the concatenation -/
theorem for_yield_ok {ε α β : Type} (f : α → Except ε (List β)) (g : α → List β) :
    ∀ (l : List α), (∀ a ∈ l, f a = .ok (g a)) → sg_for_yield l f = .ok (l.flatMap g)
  | [], _ => rfl
  | a :: l, h => by
    have h1 := h a (by simp)
    have h2 := for_yield_ok f g l (fun b hb => h b (by simp [hb]))
    simp only [sg_for_yield, h1, h2, List.flatMap_cons]
    rfl

/-- a generator loop stops at the first pass that raises -/
theorem for_yield_error {ε α β : Type} (f : α → Except ε (List β)) (a : α) (l : List α) (e : ε) (h : f a = .error e) :
    sg_for_yield (a :: l) f = .error e := by
  simp only [sg_for_yield, h]; rfl

/-- `QRData(chunk, mode=m, check_data=False)` for one of the three modes never raises -/
theorem qrdata_unchecked (F enc) (d : List Nat) (m : Nat)
    (hm : m = Gen.MODE_NUMBER ∨ m = Gen.MODE_ALPHA_NUM ∨ m = Gen.MODE_8BIT_BYTE) :
    sg_qrdata_init (pyModel F enc) d (some m) false = .ok { mode := m, data := d } := by
  rw [mkQRData_src]
  simp [mkQRData, hm, segQ, Except.map]

/-- `QRData(data)` never raises and picks the optimal mode -/
theorem qrdata_default (F enc) (d : List Nat) :
    sg_qrdata_init (pyModel F enc) d none true = .ok { mode := optimalMode d, data := d } := by
  rw [mkQRData_src]
  simp [mkQRData, segQ, Except.map]

/-- the Model's `split` (the local function of `optimalDataChunks`) is `_optimal_split` with the pattern the source builds in
    the corresponding branch, the loop being granted at least `len(d)` iterations -/
theorem split_model (F enc) (hF : ∀ d : List Nat, d.length ≤ F d) (c : sg_Cls) (anchored : Bool) (minimum : Nat) (d : List Nat) :
    sg_optimal_split (pyModel F enc) d (if anchored = true then .anchoredPlus c else .atLeast c minimum) =
      if anchored = true then splitAnchored (clsPred c) d else splitRuns (clsPred c) minimum d.length d := by
  rw [optimalSplit_eq]
  show splitOut _ _ (F d) d = _
  rw [optimalSplit_fuel F enc _ (F d) d (hF d)]
  cases anchored with
  | false => simp only [Bool.false_eq_true, if_false]; exact (splitRuns_out _ enc c minimum d.length d).symm
  | true =>
    simp only [if_true]
    cases d with
    | nil => simp [splitOut_nil, splitAnchored]
    | cons a t => exact (splitAnchored_out _ enc c t.length (a :: t)).symm

/-- **`util.optimal_data_chunks(data, minimum)`** on a byte string, run with the Model's regex engine and ANY number
    `F d ≥ len(d)` of iterations granted to each `_optimal_split(d, …)`, raises nothing and yields exactly
    `Model.optimalDataChunks data minimum` -/
theorem optimalDataChunks_src (F enc) (hF : ∀ d : List Nat, d.length ≤ F d) (data : Bytes) (minimum : Nat) :
    sg_optimal_data_chunks (pyModel F enc) data minimum = .ok ((optimalDataChunks data minimum).map segQ) := by
  obtain ⟨c1, c2, c3, c4, -⟩ := consts_src
  unfold sg_optimal_data_chunks
  simp only [toBytestring_model]
  rw [split_model F enc hF .digits (decide (data.length ≤ minimum)) minimum data]
  have hinner : ∀ (chunk : List Nat),
      sg_for_yield (sg_optimal_split (pyModel F enc) chunk
          (if decide (data.length ≤ minimum) = true then .anchoredPlus (.set sg_ALPHA_NUM) else .atLeast (.set sg_ALPHA_NUM) minimum))
        (fun (x : Bool × List Nat) =>
          sg_qrdata_init (pyModel F enc) x.2 (some (if x.1 = true then sg_MODE_ALPHA_NUM else sg_MODE_8BIT_BYTE)) false
            >>= fun q => pure [q]) =
      .ok ((if decide (data.length ≤ minimum) = true then splitAnchored isAlnum chunk else splitRuns isAlnum minimum chunk.length chunk).flatMap
        (fun x => [({ mode := if x.1 = true then Gen.MODE_ALPHA_NUM else Gen.MODE_8BIT_BYTE, data := x.2 } : sg_QRData)])) := by
    intro chunk
    rw [split_model F enc hF (.set sg_ALPHA_NUM) (decide (data.length ≤ minimum)) minimum chunk, clsPred_alnum]
    apply for_yield_ok
    intro x _
    rw [qrdata_unchecked _ enc x.2 _ (by rw [c2, c3]; split <;> simp), c2, c3]
    rfl
  rw [for_yield_ok _ (fun (x : Bool × List Nat) =>
      if x.1 = true then [({ mode := Gen.MODE_NUMBER, data := x.2 } : sg_QRData)]
      else (if decide (data.length ≤ minimum) = true then splitAnchored isAlnum x.2 else splitRuns isAlnum minimum x.2.length x.2).flatMap
        (fun y => [({ mode := if y.1 = true then Gen.MODE_ALPHA_NUM else Gen.MODE_8BIT_BYTE, data := y.2 } : sg_QRData)]))]
  · -- the two lists agree
    congr 1
    simp only [optimalDataChunks, clsPred_digits, List.map_flatMap, decide_eq_true_eq]
    congr 1
    funext x
    obtain ⟨b, ch⟩ := x
    cases b with
    | true => simp [segQ]
    | false =>
      simp only [Bool.false_eq_true, if_false, List.map_map]
      rw [← List.map_eq_flatMap]
      congr 1
  · intro x _
    obtain ⟨b, ch⟩ := x
    cases b with
    | true =>
      simp only [if_true]
      rw [qrdata_unchecked _ enc ch _ (by rw [c1]; simp), c1]
      rfl
    | false =>
      simp only [Bool.false_eq_true, if_false]
      exact hinner ch

/-- **`QRCode.add_data(data, optimize)`** for a byte string: `self.data_list` is extended by exactly `Model.addData data optimize`
    and `self.data_cache` is reset, for every `optimize ≥ 0` (truthiness of `optimize` = `≠ 0`) -/
theorem addData_src (F enc) (hF : ∀ d : List Nat, d.length ≤ F d) {κ : Type} (dl : List sg_QRData) (cache : Option κ) (data : Bytes) (optimize : Nat) :
    sg_add_data (pyModel F enc) dl cache (.inr data) optimize =
      .ok (dl ++ (addData data optimize).map segQ, none) := by
  unfold sg_add_data
  by_cases h : optimize = 0
  · subst h
    simp only [ne_eq, not_true_eq_false, decide_false, Bool.false_eq_true, if_false, qrdata_default, addData]
    rfl
  · simp only [ne_eq, h, not_false_eq_true, decide_true, if_true, optimalDataChunks_src F enc hF, addData]
    rfl

/-- **`QRCode.add_data(qrdata_object)`**: the object itself is appended, whatever `optimize` is, and the cache is reset -/
theorem addData_object_src (F enc) {κ : Type} (dl : List sg_QRData) (cache : Option κ) (q : sg_QRData) (optimize : Nat) :
    sg_add_data (pyModel F enc) dl cache (.inl q) optimize = .ok (dl ++ [q], none) := by
  unfold sg_add_data
  rfl

end QR.SourceTieD1
