import QR.Model.Data
import QR.Spec.Stream
/-
Bit-level lemmas for the data bit stream (C06): `bitsBE`, `Spec.bitsVal`, `natOfBits`, take/drop of a written field.
-/
namespace QR

/-- the Spec and the Model read a big-endian bit list the same way -/
theorem bitsVal_eq_natOfBits (bs : List Bool) : Spec.bitsVal bs = natOfBits bs := rfl

@[simp] theorem bitsBE_length (x w : Nat) : (bitsBE x w).length = w := by
  induction w with
  | zero => rfl
  | succ w ih => simp [bitsBE, ih]

private theorem bitsVal_foldl (bs : List Bool) (acc : Nat) :
    bs.foldl (fun acc b => 2 * acc + (if b then 1 else 0)) acc = acc * 2 ^ bs.length + Spec.bitsVal bs := by
  induction bs generalizing acc with
  | nil => simp [Spec.bitsVal]
  | cons b bs ih =>
    simp only [List.foldl_cons, List.length_cons, Spec.bitsVal]
    rw [ih, ih (2 * 0 + _), Nat.pow_succ, Nat.add_mul, Nat.add_mul, Nat.mul_comm 2 acc, Nat.mul_assoc,
      Nat.mul_comm 2 (2 ^ bs.length)]
    omega

@[simp] theorem bitsVal_nil : Spec.bitsVal [] = 0 := rfl

theorem bitsVal_cons (b : Bool) (bs : List Bool) :
    Spec.bitsVal (b :: bs) = b.toNat * 2 ^ bs.length + Spec.bitsVal bs := by
  show (b :: bs).foldl _ 0 = _
  rw [List.foldl_cons, bitsVal_foldl]
  cases b <;> simp

theorem bitsVal_append (as bs : List Bool) :
    Spec.bitsVal (as ++ bs) = Spec.bitsVal as * 2 ^ bs.length + Spec.bitsVal bs := by
  show (as ++ bs).foldl _ 0 = _
  rw [List.foldl_append, bitsVal_foldl]
  rfl

theorem bitsVal_lt (bs : List Bool) : Spec.bitsVal bs < 2 ^ bs.length := by
  induction bs with
  | nil => simp
  | cons b bs ih =>
    rw [bitsVal_cons, List.length_cons, Nat.pow_succ]
    cases b <;> simp <;> omega

/-- `bitsBE x w` is the `w`-bit big-endian representation of `x mod 2^w` -/
theorem bitsVal_bitsBE_mod (x w : Nat) : Spec.bitsVal (bitsBE x w) = x % 2 ^ w := by
  induction w with
  | zero => simp [bitsBE, Nat.mod_one]
  | succ w ih =>
    rw [bitsBE, bitsVal_cons, bitsBE_length, ih, Nat.toNat_testBit, Nat.mod_pow_succ, Nat.mul_comm]
    omega

theorem bitsVal_bitsBE {x w : Nat} (h : x < 2 ^ w) : Spec.bitsVal (bitsBE x w) = x := by
  rw [bitsVal_bitsBE_mod, Nat.mod_eq_of_lt h]

theorem natOfBits_bitsBE {x w : Nat} (h : x < 2 ^ w) : natOfBits (bitsBE x w) = x :=
  bitsVal_bitsBE h

@[simp] theorem take_bitsBE_append (x w : Nat) (rest : List Bool) : (bitsBE x w ++ rest).take w = bitsBE x w :=
  List.take_left' (bitsBE_length x w)

@[simp] theorem drop_bitsBE_append (x w : Nat) (rest : List Bool) : (bitsBE x w ++ rest).drop w = rest :=
  List.drop_left' (bitsBE_length x w)

theorem bitsVal_replicate_false (n : Nat) : Spec.bitsVal (List.replicate n false) = 0 := by
  induction n with
  | zero => rfl
  | succ n ih => rw [List.replicate_succ, bitsVal_cons, ih]; simp

theorem bitsBE_zero (w : Nat) : bitsBE 0 w = List.replicate w false := by
  induction w with
  | zero => rfl
  | succ w ih => simp [bitsBE, ih, List.replicate_succ]

end QR
