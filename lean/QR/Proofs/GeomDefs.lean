import QR.Model.Matrix
import QR.Spec.Geometry
/-
Shared vocabulary for the geometry proofs (C04, C05, C01): matrix shape, the expected content of the blank matrix,
the expected content of a finished symbol.  Definitions only.
-/
namespace QR

/-- an n x n matrix -/
def MatShape (m : Model.Mat) (n : Nat) : Prop := m.size = n ∧ ∀ i, i < n → (m.getD i #[]).size = n

namespace Spec

/-- what the cached blank of version v holds at (r, c): the level/mask-independent function patterns, `none` elsewhere
    (format, version, dark module and data cells are still `None`) -/
def blankCell (v r c : Nat) : Option Bool :=
  let n := size v
  if inFinderArea n r c then some (finderColour n r c)
  else if inAlignment v r c then some (alignColour v r c)
  else if inTiming n r c then some (timingColour r c)
  else none

/-- index of a position in a list of positions -/
def posIdx (ps : List (Nat × Nat)) (r c : Nat) : Option Nat := ps.idxOf? (r, c)

/-- the value `makeImpl(test, mask)` writes into a format / version / dark-module cell -/
def infoCell (v level mask : Nat) (test : Bool) (r c : Nat) : Option Bool :=
  let n := size v
  let fw := formatWord (level * 8 + mask)
  match posIdx fmtPos1 r c with
  | some i => some (!test && fw.testBit i)
  | none =>
    match posIdx (fmtPos2 n) r c with
    | some i => some (!test && fw.testBit i)
    | none =>
      if isDarkModule n r c then some (!test)
      else if v ≥ 7 then
        match posIdx (verPos1 n) r c with
        | some i => some (!test && (versionWord v).testBit i)
        | none =>
          match posIdx (verPos2 n) r c with
          | some i => some (!test && (versionWord v).testBit i)
          | none => none
      else none

end Spec
end QR
