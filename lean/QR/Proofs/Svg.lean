import QR.Model.Svg
import QR.Spec.Svg
/-
Helper lemmas for C13: every SVG factory emits exactly one shape per dark module, in row-major order, none for light
modules; each shape is centred on its module's cell and is not larger than the cell.
-/
namespace QR.Proofs.Svg
open QR QR.Model

/-- centre and full extent of an emitted shape, over the denominator `2 * p.1` (`p.1 = 2 * den` is the denominator of
    the shape's own coordinates, doubled once more so that centres of rectangles are integral).
    For the path circle the two arcs span the chord `x0..x1` at height `yh`; SVG scales a too-small radius up to half
    the chord, so the extent is the chord in both directions. -/
def blobOf (p : Nat × SvgShape) : Spec.Blob :=
  match p.2 with
  | .rect x y w h => { den := 2 * p.1, cx := 2 * x + w, cy := 2 * y + h, w := 2 * w, h := 2 * h }
  | .circle cx cy r => { den := 2 * p.1, cx := 2 * cx, cy := 2 * cy, w := 4 * r, h := 4 * r }
  | .pathSquare x0 y0 x1 y1 => { den := 2 * p.1, cx := x0 + x1, cy := y0 + y1, w := 2 * (x1 - x0), h := 2 * (y1 - y0) }
  | .pathCircle x0 yh x1 _ => { den := 2 * p.1, cx := x0 + x1, cy := 2 * yh, w := 2 * (x1 - x0), h := 2 * (x1 - x0) }

/-- the drawer used for module (r, c): the eye drawer exactly on the three 7x7 eyes -/
def drawerAt (md ed : SvgDrawer) (n r c : Nat) : SvgDrawer := if isEye n r c then ed else md

/-- the entry emitted for the dark module (r, c) -/
def shapeAt (f : SvgFactory) (md ed : SvgDrawer) (n border box : Nat) (rc : Nat × Nat) : Nat × SvgShape :=
  (2 * (drawerAt md ed n rc.1 rc.2).den,
   drawShape f.isPath (drawerAt md ed n rc.1 rc.2) box ((rc.2 + border) * box) ((rc.1 + border) * box))

/-- **structure of the output**: the shape list is the image of the row-major list of dark modules under `shapeAt` -
    one shape per dark module, none for light modules, in row-major order, eye drawer exactly where `isEye` -/
theorem shapes_eq (f : SvgFactory) (md ed : SvgDrawer) (M : Mods) (n border box : Nat) :
    (svgDoc f md ed M n border box).shapes = (Spec.darkCells M n).map (shapeAt f md ed n border box) := by
  simp only [svgDoc, Spec.darkCells, List.map_flatMap, List.map_filterMap]
  congr 1; funext r; congr 1; funext c
  by_cases h : (M.getD r []).getD c false = true
  · simp only [h, if_true, Option.map_some, shapeAt, drawerAt]
  · simp only [h]; rfl

/-- the blob of any drawer's shape at pixel box (X, Y): centre `(X + box/2, Y + box/2)`, extent `ratio * box` -/
theorem blobOf_drawShape (isPath : Bool) (d : SvgDrawer) (box X Y : Nat) (h : d.num ≤ d.den) :
    blobOf (2 * d.den, drawShape isPath d box X Y) =
      { den := 4 * d.den, cx := 4 * (d.den * X) + 2 * (d.den * box), cy := 4 * (d.den * Y) + 2 * (d.den * box),
        w := 4 * (d.num * box), h := 4 * (d.num * box) } := by
  have hb : d.num * box ≤ d.den * box := Nat.mul_le_mul_right _ h
  have e1 : (d.den - d.num) * box = d.den * box - d.num * box := Nat.sub_mul ..
  have e2 : 2 * d.num * box = 2 * (d.num * box) := Nat.mul_assoc ..
  have e3 : X * (2 * d.den) = 2 * (d.den * X) := by rw [Nat.mul_comm, Nat.mul_assoc]
  have e4 : Y * (2 * d.den) = 2 * (d.den * Y) := by rw [Nat.mul_comm, Nat.mul_assoc]
  cases isPath <;> cases hk : d.kind <;>
    simp only [blobOf, drawShape, hk, e1, e2, e3, e4, Spec.Blob.mk.injEq] <;>
    generalize d.num * box = a at * <;> generalize d.den * box = b at * <;>
    generalize d.den * X = x at * <;> generalize d.den * Y = y at * <;>
    refine ⟨?_, ?_, ?_, ?_, ?_⟩ <;> first | trivial | omega

theorem centred_fits (isPath : Bool) (d : SvgDrawer) (border box r c : Nat) (h : d.num ≤ d.den) :
    (blobOf (2 * d.den, drawShape isPath d box ((c + border) * box) ((r + border) * box))).centredOn border box r c = true ∧
    (blobOf (2 * d.den, drawShape isPath d box ((c + border) * box) ((r + border) * box))).fitsCell box = true := by
  rw [blobOf_drawShape _ _ _ _ _ h]
  have hb : d.num * box ≤ d.den * box := Nat.mul_le_mul_right _ h
  simp only [Spec.Blob.centredOn, Spec.Blob.fitsCell, Bool.and_eq_true, beq_iff_eq, decide_eq_true_eq, and_self]
  have e1 : ∀ k, 4 * d.den * (2 * (k + border) * box + box) = 8 * (d.den * ((k + border) * box)) + 4 * (d.den * box) := by
    intro k
    rw [Nat.mul_add, Nat.mul_assoc 2, Nat.mul_assoc 4, Nat.mul_assoc 4, Nat.mul_left_comm d.den 2]
    omega
  rw [e1, e1, Nat.mul_assoc 4]
  refine ⟨⟨by omega, by omega⟩, by omega⟩


/-! ### the row-major list of dark modules (what the shapes are indexed by) -/

/-- `darkCells` lists exactly the dark modules inside the `n x n` square (so: no entry for a light module) -/
theorem mem_darkCells (M : List (List Bool)) (n r c : Nat) :
    (r, c) ∈ Spec.darkCells M n ↔ r < n ∧ c < n ∧ (M.getD r []).getD c false = true := by
  simp only [Spec.darkCells, List.mem_flatMap, List.mem_filterMap, List.mem_range]
  constructor
  · rintro ⟨r', hr, c', hc, h⟩
    by_cases hd : (M.getD r' []).getD c' false = true
    · rw [if_pos hd] at h
      cases h
      exact ⟨hr, hc, hd⟩
    · rw [if_neg hd] at h; cases h
  · rintro ⟨hr, hc, hd⟩
    exact ⟨r, hr, c, hc, by rw [if_pos hd]⟩

/-- ... each exactly once, in strictly increasing row-major order -/
theorem darkCells_sorted (M : List (List Bool)) (n : Nat) :
    (Spec.darkCells M n).Pairwise fun a b => a.1 < b.1 ∨ (a.1 = b.1 ∧ a.2 < b.2) := by
  unfold Spec.darkCells
  rw [List.pairwise_flatMap]
  constructor
  · intro r _
    refine List.Pairwise.filterMap _ ?_ (List.pairwise_lt_range (n := n))
    intro c c' hcc b hb b' hb'
    by_cases hd : (M.getD r []).getD c false = true <;> by_cases hd' : (M.getD r []).getD c' false = true <;>
      simp only [hd, hd', if_true, if_false, Option.some.injEq, reduceCtorEq] at hb hb'
    subst hb hb'
    exact Or.inr ⟨rfl, hcc⟩
  · refine List.Pairwise.imp ?_ (List.pairwise_lt_range (n := n))
    intro r r' hrr x hx y hy
    rw [List.mem_filterMap] at hx hy
    obtain ⟨c, _, hx⟩ := hx
    obtain ⟨c', _, hy⟩ := hy
    by_cases hd : (M.getD r []).getD c false = true <;> by_cases hd' : (M.getD r' []).getD c' false = true <;>
      simp only [hd, hd', if_true, if_false, Option.some.injEq, reduceCtorEq] at hx hy
    subst hx hy
    exact Or.inl hrr

/-! ### the main statements -/

theorem drawerAt_le (md ed : SvgDrawer) (n r c : Nat) (hm : md.num ≤ md.den) (he : ed.num ≤ ed.den) :
    (drawerAt md ed n r c).num ≤ (drawerAt md ed n r c).den := by
  unfold drawerAt; split <;> assumption

/-- the eye drawer is used exactly on the modules with `isEye = true` -/
theorem drawerAt_eye (md ed : SvgDrawer) (n r c : Nat) :
    (isEye n r c = true → drawerAt md ed n r c = ed) ∧ (isEye n r c = false → drawerAt md ed n r c = md) := by
  unfold drawerAt; constructor <;> intro h <;> simp [h]

/-- every emitted shape is centred on its module's cell and fits the cell -/
theorem shapeAt_ok (f : SvgFactory) (md ed : SvgDrawer) (n border box : Nat) (rc : Nat × Nat)
    (hm : md.num ≤ md.den) (he : ed.num ≤ ed.den) :
    (blobOf (shapeAt f md ed n border box rc)).centredOn border box rc.1 rc.2 = true ∧
    (blobOf (shapeAt f md ed n border box rc)).fitsCell box = true :=
  centred_fits f.isPath (drawerAt md ed n rc.1 rc.2) border box rc.1 rc.2 (drawerAt_le md ed n rc.1 rc.2 hm he)

/-- the number of shapes is the number of dark modules -/
theorem svg_count (f : SvgFactory) (md ed : SvgDrawer) (M : Mods) (n border box : Nat) :
    (svgDoc f md ed M n border box).shapes.length = (Spec.darkCells M n).length := by
  rw [shapes_eq, List.length_map]

/-- the k-th shape belongs to the k-th dark module in row-major order: it is drawn by the eye drawer iff that module
    is in an eye, at that module's pixel box, is centred on that module's cell and fits the cell -/
theorem svg_kth (f : SvgFactory) (md ed : SvgDrawer) (M : Mods) (n border box : Nat)
    (hm : md.num ≤ md.den) (he : ed.num ≤ ed.den) (k : Nat) (hk : k < (Spec.darkCells M n).length) :
    let rc := (Spec.darkCells M n)[k]
    let d := if isEye n rc.1 rc.2 then ed else md
    (svgDoc f md ed M n border box).shapes[k]? =
        some (2 * d.den, drawShape f.isPath d box ((rc.2 + border) * box) ((rc.1 + border) * box)) ∧
    (∀ p, (svgDoc f md ed M n border box).shapes[k]? = some p →
        (blobOf p).centredOn border box rc.1 rc.2 = true ∧ (blobOf p).fitsCell box = true) := by
  intro rc d
  have e : (svgDoc f md ed M n border box).shapes[k]? = some (shapeAt f md ed n border box rc) := by
    rw [shapes_eq, List.getElem?_map, List.getElem?_eq_getElem hk]; rfl
  refine ⟨e, ?_⟩
  intro p hp
  rw [e] at hp
  cases hp
  exact shapeAt_ok f md ed n border box rc hm he

theorem all_zip_map_self {α β : Type} (g : α → β) (P : β × α → Bool) (l : List α) :
    ((l.map g).zip l).all P = l.all fun x => P (g x, x) := by
  induction l with
  | nil => rfl
  | cons a t ih => simp only [List.map_cons, List.zip_cons_cons, List.all_cons, ih]

/-- **C13 (shapes)**: for every factory and every pair of drawers with size ratio ≤ 1, the emitted shapes are exactly
    one per dark module in row-major order (none for light modules), each centred on its module's cell and not larger
    than the cell.  (`0 < den`, `0 < num` are not needed: a zero ratio gives a degenerate, still centred, shape.) -/
theorem svg_shapesOK (f : SvgFactory) (md ed : SvgDrawer) (M : Mods) (n border box : Nat)
    (hm : md.num ≤ md.den) (he : ed.num ≤ ed.den) :
    Spec.shapesOK M n border box ((svgDoc f md ed M n border box).shapes.map blobOf) = true := by
  rw [shapes_eq, List.map_map]
  unfold Spec.shapesOK
  simp only [List.length_map, beq_self_eq_true, Bool.true_and]
  rw [all_zip_map_self, List.all_eq_true]
  intro rc _
  have := shapeAt_ok f md ed n border box rc hm he
  simp only [Function.comp, Bool.and_eq_true]
  exact this

end QR.Proofs.Svg
