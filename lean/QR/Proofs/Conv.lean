import QR.Model.Segment
import QR.Spec.Stream
/-
Conversions between Model-side and Spec-side vocabulary, and the validity predicates used as hypotheses.
(Definitions only; shared by the property statements.)
-/
namespace QR

/-- a segment as `add_data` / `QRData(check_data=True)` produce it: the mode is one of the three supported ones and
    can represent the content; bytes are < 256 -/
def Model.Seg.Valid (s : Model.Seg) : Prop :=
  (s.mode = 1 ∧ ∀ c ∈ s.data, Model.isDigit c = true) ∨
  (s.mode = 2 ∧ ∀ c ∈ s.data, Model.isAlnum c = true) ∨
  (s.mode = 4 ∧ ∀ c ∈ s.data, c < 256)

/-- Spec view of a model segment (`none` for an unsupported mode number) -/
def toPSeg (s : Model.Seg) : Option Spec.PSeg :=
  (Spec.Mode.ofIndicator s.mode).map fun m => { mode := m, data := s.data }

def toPSegs (segs : List Model.Seg) : Option (List Spec.PSeg) := segs.mapM toPSeg

/-- (mode, character count) of each segment, for the closed-form stream length -/
def segCounts (segs : List Spec.PSeg) : List (Spec.Mode × Nat) := segs.map fun s => (s.mode, s.data.length)

end QR
