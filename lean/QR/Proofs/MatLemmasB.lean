import QR.Proofs.GeomDefs
/-
Generic get/set lemmas for `Model.Mat` (used by the format/version information proofs, C04).
Everything lives in the namespace `QR.GeoB`.
-/
namespace QR.GeoB
open QR QR.Model

theorem get_eq (m : Mat) (r c : Nat) : m.get r c = (m[r]?.getD #[])[c]?.getD none := by
  simp only [Mat.get, Array.getD_eq_getD_getElem?]

/-- writing a cell keeps the shape -/
theorem matShape_set {m : Mat} {n : Nat} (h : MatShape m n) (r c : Nat) (x : Option Bool) :
    MatShape (m.set r c x) n := by
  obtain ⟨hs, hrow⟩ := h
  refine ⟨by simp only [Mat.set, Array.size_modify, hs], ?_⟩
  intro i hi
  have hi' : i < m.size := by omega
  have h1 := hrow i hi
  simp only [Array.getD_eq_getD_getElem?, Array.getElem?_eq_getElem hi', Option.getD_some] at h1
  simp only [Mat.set, Array.getD_eq_getD_getElem?, Array.getElem?_modify]
  split
  · next hri =>
    simp only [Array.getElem?_eq_getElem hi', Option.map_some, Option.getD_some,
      Array.size_setIfInBounds, h1]
  · simp only [Array.getElem?_eq_getElem hi', Option.getD_some, h1]

/-- reading after a write -/
theorem get_set {m : Mat} {n : Nat} (h : MatShape m n) (r c : Nat) (x : Option Bool) (r' c' : Nat) :
    (m.set r c x).get r' c' = if r' = r ∧ c' = c ∧ r < n ∧ c < n then x else m.get r' c' := by
  obtain ⟨hs, hrow⟩ := h
  simp only [get_eq, Mat.set, Array.getElem?_modify]
  by_cases hr : r = r'
  · subst hr
    simp only [if_true, true_and]
    by_cases hrn : r < n
    · have hr' : r < m.size := by omega
      have h1 := hrow r hrn
      simp only [Array.getD_eq_getD_getElem?, Array.getElem?_eq_getElem hr', Option.getD_some] at h1
      simp only [Array.getElem?_eq_getElem hr', Option.map_some, Option.getD_some,
        Array.getElem?_setIfInBounds, h1, hrn, true_and]
      by_cases hc : c = c'
      · subst hc
        by_cases hcn : c < n
        · simp only [if_true, hcn, Option.getD_some, and_self]
        · have : m[r][c]? = none := by
            apply Array.getElem?_eq_none; omega
          simp only [if_true, hcn, if_false, Option.getD_none, and_false, this]
      · have hc' : ¬ c' = c := fun h => hc h.symm
        simp only [hc, if_false, hc', false_and]
    · have hr' : ¬ r < m.size := by omega
      have : m[r]? = none := by apply Array.getElem?_eq_none; omega
      simp only [this, Option.map_none, hrn, false_and, and_false, if_false]
  · have hr' : ¬ r' = r := fun h => hr h.symm
    simp only [hr, if_false, hr', false_and]

/-- a loop of `k` writes at positions `pos i` with values `val i`; `inv` is a closed-form inverse of `pos` on
    `0..k-1` (its existence makes the positions pairwise distinct) -/
theorem loop_get {m : Mat} {n : Nat} (h : MatShape m n) (pos : Nat → Nat × Nat) (val : Nat → Option Bool)
    (inv : Nat → Nat → Option Nat) (k : Nat)
    (hin : ∀ i, i < k → (pos i).1 < n ∧ (pos i).2 < n)
    (hinv : ∀ r c i, inv r c = some i ↔ i < k ∧ pos i = (r, c)) :
    MatShape ((List.range k).foldl (fun m i => m.set (pos i).1 (pos i).2 (val i)) m) n ∧
    ∀ r c, ((List.range k).foldl (fun m i => m.set (pos i).1 (pos i).2 (val i)) m).get r c =
      match inv r c with
      | some i => val i
      | none => m.get r c := by
  -- generalise over a prefix length j ≤ k
  suffices H : ∀ j, j ≤ k →
      MatShape ((List.range j).foldl (fun m i => m.set (pos i).1 (pos i).2 (val i)) m) n ∧
      ∀ r c, ((List.range j).foldl (fun m i => m.set (pos i).1 (pos i).2 (val i)) m).get r c =
        match inv r c with
        | some i => if i < j then val i else m.get r c
        | none => m.get r c by
    obtain ⟨h1, h2⟩ := H k (Nat.le_refl k)
    refine ⟨h1, ?_⟩
    intro r c
    rw [h2 r c]
    cases hi : inv r c with
    | none => rfl
    | some i =>
      have := ((hinv r c i).mp hi).1
      simp only [this, if_true]
  intro j
  induction j with
  | zero =>
    intro _
    refine ⟨by simpa using h, ?_⟩
    intro r c
    simp only [List.range_zero, List.foldl_nil]
    cases inv r c with
    | none => rfl
    | some i => simp only [Nat.not_lt_zero, if_false]
  | succ j ih =>
    intro hj
    obtain ⟨ih1, ih2⟩ := ih (by omega)
    simp only [List.range_succ, List.foldl_append, List.foldl_cons, List.foldl_nil]
    refine ⟨matShape_set ih1 _ _ _, ?_⟩
    intro r c
    rw [get_set ih1, ih2 r c]
    have hjk : j < k := by omega
    obtain ⟨hb1, hb2⟩ := hin j hjk
    cases hi : inv r c with
    | none =>
      have hne : ¬ (r = (pos j).1 ∧ c = (pos j).2 ∧ (pos j).1 < n ∧ (pos j).2 < n) := by
        rintro ⟨e1, e2, _, _⟩
        have : inv r c = some j := (hinv r c j).mpr ⟨hjk, by rw [e1, e2]⟩
        rw [hi] at this; cases this
      simp only [hne, if_false]
    | some i =>
      obtain ⟨hik, hpi⟩ := (hinv r c i).mp hi
      by_cases hij : i = j
      · subst hij
        have e1 : r = (pos i).1 := by rw [hpi]
        have e2 : c = (pos i).2 := by rw [hpi]
        have : (r = (pos i).1 ∧ c = (pos i).2 ∧ (pos i).1 < n ∧ (pos i).2 < n) := ⟨e1, e2, hb1, hb2⟩
        simp only [this, and_self, if_true, Nat.lt_succ_self]
      · have hne : ¬ (r = (pos j).1 ∧ c = (pos j).2 ∧ (pos j).1 < n ∧ (pos j).2 < n) := by
          rintro ⟨e1, e2, _, _⟩
          have : inv r c = some j := (hinv r c j).mpr ⟨hjk, by rw [e1, e2]⟩
          rw [hi] at this; injection this with this; exact hij this
        simp only [hne, if_false]
        by_cases hlt : i < j
        · have : i < j + 1 := by omega
          simp only [hlt, this, if_true]
        · have : ¬ i < j + 1 := by omega
          simp only [hlt, this, if_false]

end QR.GeoB
