import QR.Proofs.MatLemmasC
/-
C05, placement: `map_data` over an arbitrary duplicate-free in-bounds traversal writes the bit stream (padded with
zero bits) into exactly the cells that were still `None`, masked by `maskFunc`; reading the same traversal back and
unmasking returns the stream.
-/
namespace QR.GeoC
open QR QR.Model

/-- the first `k` bits of `bits`, padded with `false` when `bits` is shorter -/
def padTake : Nat → List Bool → List Bool
  | 0, _ => []
  | k + 1, bits => bits.headD false :: padTake k bits.tail

/-- `map_data` with an arbitrary traversal -/
def place (mask : Nat) (ps : List (Nat × Nat)) (m : Mat) (bits : List Bool) : Mat :=
  (ps.foldl (placeCell mask) (m, bits)).1

theorem mapData_eq_place (n : Nat) (m : Mat) (data : List Nat) (mask : Nat) :
    mapData n m data mask = place mask (trav n) m (codewordBits data) := rfl

theorem placeCell_some {mask : Nat} {m : Mat} {bits : List Bool} {p : Nat × Nat} {b : Bool}
    (h : m.get p.1 p.2 = some b) : placeCell mask (m, bits) p = (m, bits) := by
  simp only [placeCell, h]

theorem placeCell_none {mask : Nat} {m : Mat} {bits : List Bool} {p : Nat × Nat}
    (h : m.get p.1 p.2 = none) :
    placeCell mask (m, bits) p =
      (m.set p.1 p.2 (some (xor (bits.headD false) (maskFunc mask p.1 p.2))), bits.tail) := by
  simp only [placeCell, h]

theorem place_nil (mask : Nat) (m : Mat) (bits : List Bool) : place mask [] m bits = m := rfl

theorem place_cons_some {mask : Nat} {m : Mat} {bits : List Bool} {p : Nat × Nat} {b : Bool} (ps : List (Nat × Nat))
    (h : m.get p.1 p.2 = some b) : place mask (p :: ps) m bits = place mask ps m bits := by
  simp only [place, List.foldl_cons, placeCell_some h]

theorem place_cons_none {mask : Nat} {m : Mat} {bits : List Bool} {p : Nat × Nat} (ps : List (Nat × Nat))
    (h : m.get p.1 p.2 = none) :
    place mask (p :: ps) m bits =
      place mask ps (m.set p.1 p.2 (some (xor (bits.headD false) (maskFunc mask p.1 p.2)))) bits.tail := by
  simp only [place, List.foldl_cons, placeCell_none h]

/-- the shape is preserved -/
theorem place_shape (mask : Nat) (ps : List (Nat × Nat)) {m : Mat} {n : Nat} (hs : MatShape m n) (bits : List Bool) :
    MatShape (place mask ps m bits) n := by
  induction ps generalizing m bits with
  | nil => exact hs
  | cons p ps ih =>
    cases hm : m.get p.1 p.2 with
    | some b => rw [place_cons_some ps hm]; exact ih hs bits
    | none => rw [place_cons_none ps hm]; exact ih (shape_set hs ..) _

/-- cells outside the traversal are untouched -/
theorem place_other (mask : Nat) (ps : List (Nat × Nat)) {m : Mat} {n : Nat} (hs : MatShape m n) (bits : List Bool)
    (r c : Nat) (hq : (r, c) ∉ ps) : (place mask ps m bits).get r c = m.get r c := by
  induction ps generalizing m bits with
  | nil => rfl
  | cons p ps ih =>
    simp only [List.mem_cons, not_or] at hq
    cases hm : m.get p.1 p.2 with
    | some b => rw [place_cons_some ps hm]; exact ih hs bits hq.2
    | none =>
      rw [place_cons_none ps hm, ih (shape_set hs ..) _ hq.2]
      exact get_set_ne hs hq.1 _

/-- cells that already hold a value (function patterns, format and version information) are untouched -/
theorem place_keeps_some (mask : Nat) (ps : List (Nat × Nat)) {m : Mat} {n : Nat} (hs : MatShape m n) (bits : List Bool)
    (r c : Nat) (b : Bool) (hq : m.get r c = some b) : (place mask ps m bits).get r c = some b := by
  induction ps generalizing m bits with
  | nil => exact hq
  | cons p ps ih =>
    cases hm : m.get p.1 p.2 with
    | some v => rw [place_cons_some ps hm]; exact ih hs bits hq
    | none =>
      rw [place_cons_none ps hm]
      apply ih (shape_set hs ..)
      have hne : (r, c) ≠ (p.1, p.2) := by
        intro e
        simp only [Prod.mk.injEq] at e
        rw [e.1, e.2, hm] at hq
        cases hq
      rw [get_set_ne hs hne]; exact hq

/-- a cell holds a value afterwards iff it did before or it is an (in-bounds) cell of the traversal -/
theorem place_isSome_of_mem (mask : Nat) (ps : List (Nat × Nat)) {m : Mat} {n : Nat} (hs : MatShape m n)
    (bits : List Bool) (r c : Nat) (hr : r < n) (hc : c < n) (hq : (r, c) ∈ ps) :
    ((place mask ps m bits).get r c).isSome = true := by
  induction ps generalizing m bits with
  | nil => cases hq
  | cons p ps ih =>
    cases hm : m.get p.1 p.2 with
    | some v =>
      rw [place_cons_some ps hm]
      rcases List.mem_cons.mp hq with e | hq'
      · subst e
        rw [place_keeps_some mask ps hs bits _ _ v hm]; rfl
      · exact ih hs bits hq'
    | none =>
      rw [place_cons_none ps hm]
      rcases List.mem_cons.mp hq with e | hq'
      · subst e
        rw [place_keeps_some mask ps (shape_set hs ..) _ _ _ _ (get_set_self hs hr hc _)]; rfl
      · exact ih (shape_set hs ..) _ hq'

theorem getD_tail (bits : List Bool) (k : Nat) : bits.tail.getD k false = bits.getD (k + 1) false := by
  cases bits <;> simp

theorem getD_zero (bits : List Bool) : bits.getD 0 false = bits.headD false := by
  cases bits <;> simp

/-- the i-th cell of the traversal, if it was still `None`, receives bit number k (zero past the end of the stream)
    xor the mask, where k is the number of `None` cells met before it -/
theorem place_nth (mask : Nat) (ps : List (Nat × Nat)) (hnd : ps.Nodup) {m : Mat} {n : Nat} (hs : MatShape m n)
    (hin : ∀ p ∈ ps, p.1 < n ∧ p.2 < n) (bits : List Bool) (i : Nat) (hi : i < ps.length)
    (hnone : m.get ps[i].1 ps[i].2 = none) :
    (place mask ps m bits).get ps[i].1 ps[i].2 =
      some (xor (bits.getD ((ps.take i).countP fun p => (m.get p.1 p.2).isNone) false)
                (maskFunc mask ps[i].1 ps[i].2)) := by
  induction ps generalizing m bits i with
  | nil => cases hi
  | cons p ps ih =>
    have hp : p ∉ ps := (List.nodup_cons.mp hnd).1
    have hnd' := (List.nodup_cons.mp hnd).2
    have hin' : ∀ q ∈ ps, q.1 < n ∧ q.2 < n := fun q hq => hin q (List.mem_cons_of_mem _ hq)
    have hpin := hin p (List.mem_cons_self ..)
    cases i with
    | zero =>
      simp only [List.getElem_cons_zero] at hnone ⊢
      rw [place_cons_none ps hnone, place_other mask ps (shape_set hs ..) _ _ _ hp,
        get_set_self hs hpin.1 hpin.2]
      simp only [List.take_zero, List.countP_nil, getD_zero]
    | succ i =>
      have hi' : i < ps.length := by simpa using hi
      simp only [List.getElem_cons_succ] at hnone ⊢
      have hmem : ps[i] ∈ ps := List.getElem_mem hi'
      cases hm : m.get p.1 p.2 with
      | some b =>
        rw [place_cons_some ps hm, ih hnd' hs hin' bits i hi' hnone]
        simp [List.take_succ_cons, hm]
      | none =>
        rw [place_cons_none ps hm]
        have hne : ∀ q ∈ ps, (q.1, q.2) ≠ (p.1, p.2) := fun q hq e => hp (by
          have : q = p := by cases q; cases p; simpa using e
          exact this ▸ hq)
        have hnone' : (m.set p.1 p.2 (some (xor (bits.headD false) (maskFunc mask p.1 p.2)))).get ps[i].1 ps[i].2 = none := by
          rw [get_set_ne hs (hne _ hmem)]; exact hnone
        rw [ih hnd' (shape_set hs ..) hin' _ i hi' hnone']
        have hcount : ((ps.take i).countP fun q =>
              ((m.set p.1 p.2 (some (xor (bits.headD false) (maskFunc mask p.1 p.2)))).get q.1 q.2).isNone) =
            (ps.take i).countP fun q => (m.get q.1 q.2).isNone := by
          apply List.countP_congr
          intro q hq
          rw [get_set_ne hs (hne q (List.mem_of_mem_take hq))]
        rw [hcount, getD_tail]
        simp [List.take_succ_cons, hm, Nat.add_comm]

/-- **write-then-read round trip**: reading the traversal back at the cells selected by an independent predicate
    `free` (which agrees with "was `None`" on the traversal) and unmasking yields the bit stream, zero-padded -/
theorem read_place (mask : Nat) (free : Nat → Nat → Bool) (ps : List (Nat × Nat)) (hnd : ps.Nodup)
    {m : Mat} {n : Nat} (hs : MatShape m n) (hin : ∀ p ∈ ps, p.1 < n ∧ p.2 < n) (bits : List Bool)
    (hfree : ∀ p ∈ ps, free p.1 p.2 = true ↔ m.get p.1 p.2 = none) :
    ((ps.filter fun p => free p.1 p.2).map fun p =>
        xor (((place mask ps m bits).get p.1 p.2).getD false) (maskFunc mask p.1 p.2)) =
      padTake (ps.countP fun p => free p.1 p.2) bits := by
  induction ps generalizing m bits with
  | nil => rfl
  | cons p ps ih =>
    have hp : p ∉ ps := (List.nodup_cons.mp hnd).1
    have hnd' := (List.nodup_cons.mp hnd).2
    have hin' : ∀ q ∈ ps, q.1 < n ∧ q.2 < n := fun q hq => hin q (List.mem_cons_of_mem _ hq)
    have hpin := hin p (List.mem_cons_self ..)
    cases hm : m.get p.1 p.2 with
    | some b =>
      have hf : free p.1 p.2 = false := by
        have := hfree p (List.mem_cons_self ..); rw [hm] at this; simpa using this
      rw [place_cons_some ps hm]
      simp only [List.filter_cons, hf, List.countP_cons, Bool.false_eq_true, if_false, Nat.add_zero]
      exact ih hnd' hs hin' bits (fun q hq => hfree q (List.mem_cons_of_mem _ hq))
    | none =>
      have hf : free p.1 p.2 = true := (hfree p (List.mem_cons_self ..)).mpr hm
      rw [place_cons_none ps hm]
      simp only [List.filter_cons, hf, if_true, List.countP_cons, List.map_cons, padTake]
      rw [place_other mask ps (shape_set hs ..) _ _ _ hp, get_set_self hs hpin.1 hpin.2]
      simp only [Option.getD_some, Bool.xor_assoc, Bool.xor_self, Bool.xor_false]
      congr 1
      apply ih hnd' (shape_set hs ..) hin'
      intro q hq
      have hne : (q.1, q.2) ≠ (p.1, p.2) := fun e => hp (by
        have : q = p := by cases q; cases p; simpa using e
        exact this ▸ hq)
      rw [get_set_ne hs hne]
      exact hfree q (List.mem_cons_of_mem _ hq)

/-! ### `padTake` -/

theorem padTake_length (k : Nat) (bits : List Bool) : (padTake k bits).length = k := by
  induction k generalizing bits with
  | zero => rfl
  | succ k ih => simp [padTake, ih]

theorem padTake_nil (k : Nat) : padTake k [] = List.replicate k false := by
  induction k with
  | zero => rfl
  | succ k ih => simp [padTake, ih, List.replicate_succ]

theorem padTake_append (bits : List Bool) (k : Nat) :
    padTake (bits.length + k) bits = bits ++ List.replicate k false := by
  induction bits with
  | nil => simp [padTake_nil]
  | cons b bits ih =>
    have : (b :: bits).length + k = (bits.length + k) + 1 := by simp; omega
    rw [this]
    simp [padTake, ih]

end QR.GeoC
